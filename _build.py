import sys, os
sys.path.insert(0, "tools")
import gv
try:
    print(gv.build_harness("C13"))
except gv.BuildError as e:
    print(str(e)[-6000:])
