// C17: constructions built on geodesics — NearestNeighbor (C17_nn.hpp), AzimuthalEquidistant / Gnomonic / CassiniSoldner
// (C17_proj.hpp), Intersect (C17_isect.hpp: oracles; C17_ixm.hpp, C17_ixs.hpp: the Lean models of the helpers and of the search bookkeeping)
#include "common.hpp"
#include "C17_tools.hpp"
#include "C17_nn.hpp"
#include "C17_proj.hpp"
#include "C17_isect.hpp"
#include "C17_ixm.hpp"
#include "C17_ixs.hpp"

void gv::generate(const std::string& tier, uint64_t seed) {
  bool thorough = tier == "thorough";
  gv::Rng r(seed);
  // C17_ONLY=nn|proj|ixm|isect|ixs|tools restricts the run to one part (development aid; the check never sets it)
  const char* only = std::getenv("C17_ONLY"); auto on = [&](const char* p) { return !only || std::string(only) == p; };
  { gv::Rng r1(r.next()); if (on("nn")) c17nn::generate(r1, thorough); }
  { gv::Rng r2(r.next()); if (on("proj")) c17proj::generate(r2, thorough); }
  { gv::Rng r4(r.next()); if (on("ixm")) c17ixm::generate(r4, thorough); }
  { gv::Rng r3(r.next()); if (on("isect")) c17isect::generate(r3, thorough); }
  { gv::Rng r5(r.next()); if (on("ixs")) c17ixs::generate(r5, thorough); }
  { gv::Rng r6(r.next()); if (on("tools")) c17tools::generate(r6, thorough); }
}
int main(int c, char** v) { return gv::main_(c, v); }
