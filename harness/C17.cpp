// C17: constructions built on geodesics — NearestNeighbor (C17_nn.hpp), AzimuthalEquidistant / Gnomonic / CassiniSoldner
// (C17_proj.hpp), Intersect (C17_isect.hpp: oracles; C17_ixm.hpp, C17_ixs.hpp: the Lean models of the helpers and of the search bookkeeping)
#include "common.hpp"
#include "C17_tools.hpp"
#include "C17_nn.hpp"
#include "C17_proj.hpp"
#include "C17_isect.hpp"
#include "C17_ixm.hpp"
#include "C17_ixs.hpp"

void gv::generate(const std::string& tier, uint64_t seed) {
  bool thorough = tier == "thorough";
  gv::Rng r(seed);
  // C17_ONLY=nn|proj|ixm|isect|ixs|tools restricts the run to one part (development aid; the check never sets it)
  const char* only = std::getenv("C17_ONLY"); auto on = [&](const char* p) { return !only || std::string(only) == p; };
  // The thorough tier (also used, with a time budget, as the failing-input search after a broken obligation) runs the six parts
  // round-robin in K slices, cheapest first, so that whatever the budget every part has produced cases; the quick tier runs each part once.
  const int K = thorough ? 8 : 1;
  for (int k = 0; k < K; ++k) {
    uint64_t s1 = r.next(), s2 = r.next(), s4 = r.next(), s3 = r.next(), s5 = r.next(), s6 = r.next();
    { gv::Rng q(s4); if (on("ixm")) c17ixm::generate(q, thorough, K); }
    { gv::Rng q(s5); if (on("ixs")) c17ixs::generate(q, thorough, K); }
    { gv::Rng q(s6); if (on("tools")) c17tools::generate(q, thorough, K); }
    { gv::Rng q(s1); if (on("nn")) c17nn::generate(q, thorough, K); }
    { gv::Rng q(s2); if (on("proj")) c17proj::generate(q, thorough, K); }
    { gv::Rng q(s3); if (on("isect")) c17isect::generate(q, thorough, K); }
  }
}
int main(int c, char** v) { return gv::main_(c, v); }
