// C17: constructions built on geodesics — NearestNeighbor (C17_nn.hpp), AzimuthalEquidistant / Gnomonic / CassiniSoldner
// (C17_proj.hpp), Intersect (C17_isect.hpp)
#include "common.hpp"
#include "C17_nn.hpp"
#include "C17_proj.hpp"
#include "C17_isect.hpp"
#include "C17_ixm.hpp"

void gv::generate(const std::string& tier, uint64_t seed) {
  bool thorough = tier == "thorough";
  gv::Rng r(seed);
  { gv::Rng r1(r.next()); c17nn::generate(r1, thorough); }
  { gv::Rng r2(r.next()); c17proj::generate(r2, thorough); }
  { gv::Rng r4(r.next()); c17ixm::generate(r4, thorough); }
  { gv::Rng r3(r.next()); c17isect::generate(r3, thorough); }
}
int main(int c, char** v) { return gv::main_(c, v); }
