// C17, part 5: the search bookkeeping of Intersect (ClosestInt / NextInt / SegmentInt / AllInt0 / Basic) against the
// kernel-parametric Lean model Model/IntersectSearch.lean.  Header-only, included by harness/C17.cpp after C17_isect.hpp.
//
// The numeric kernels are supplied by the implementation: the private members Basic, Spherical, ConjugateDist are called
// directly (-fno-access-control) on the start points / trial points the search can use and their values are written into
// the op line as tables; the Lean model is run on these tables and must reproduce the result of the real search, the
// diagnostic counters NumBasic / NumChange / NumCorner / NumOverride / NumInverse, and (All) the whole sorted list.
//
// Ops (doubles as 16 hex digits; E = "a f exact"; XP = "x y c"; B = "sx sy bx by bc its": start, Basic(start), iterations):
//   ixs_consts  E | d t1 t2 t3 t4 t5 d1 d2 d3 delta tol eps rR numit
//   ixs_comp    delta px py qx qy p0x p0y | eq(p,q) eq(q,p) lt(p,q) lt(q,p) rank(p,q) rank(q,p) Dist(p,p0) Dist(p)
//   ixs_basic   E latX lonX aziX latY lonY aziY sx sy | tol n (qx qy qc dqx dqy dqc)*n R XP its
//   ixs_closest E latX lonX aziX latY lonY aziY p0x p0y | C d t1 delta d1 d2 d3 tol T n B*n R XP cnt1 cnt2 cnt0
//   ixs_next    E lat lon aziX aziY | C … T n B*n J conj(-d) conj(+d) R XP cnt1 cnt2 cnt0
//   ixs_segment E latX1 lonX1 latX2 lonX2 latY1 lonY1 latY2 lonY2 | C … S sx sy T n B*n K 4 B*4 R XP segmode cnt1 cnt2 cnt3 cnt4 cnt0
//   ixs_all     E latX lonX aziX latY lonY aziY maxdist p0x p0y | C … M m T n B*n J k (s0 s3 val)*k R n XP*n cnt1 cnt0
//
// Relations (#BAD) judged here, on the implementation alone:
//   <v>-overloads        the (lat, lon, azi) overloads, the GeodesicLine overloads and the variants with / without the
//                        coincidence output return bit-identical points and indicators (they are documented as the same function)
//   counters-monotone    a diagnostic counter decreased / NumBasic > NumInverse
//   all-sorted-exact, all-within-maxdist-exact, all-duplicate-delta
//                        the list of All is sorted by Intersect::Dist(p, p0) (exactly: it is produced by std::sort on these
//                        values), every point has Dist <= maxdist (exactly: the trim tests this), no two points are equal in
//                        the class's own sense (Dist(p, q) <= _delta)
//   segment-segmode-exact  segmode == 3 kx + ky recomputed from the returned point and lineX/Y.Distance()
//   dist-static          Intersect::Dist(p, p0) == |dx| + |dy|
//   geodesic-object      GeodesicObject() is the object the Intersect was built from
// "basic-not-converged" is not a relation: it is a counter (#STAT) and the tag the ix_* oracles append to their details
// when one of the Basic calls of the query ran into the iteration cap numit_ (the decidable class of finding F57).
#pragma once
#include "common.hpp"
#include <GeographicLib/Intersect.hpp>

namespace c17ixs {
using namespace GeographicLib;
using gv::Args; using gv::hx; using gv::unhx; using gv::emit; using gv::Reg; using gv::Rng;
inline void bad(const std::string& relation, const std::string& details) { gv::bad(relation, details); }
using c17isect::World; using c17isect::world; using c17isect::num; using c17isect::pt; using c17isect::XP; using c17isect::Pnt;

inline std::string xp(const XP& p) { return hx(p.x) + " " + hx(p.y) + " " + std::to_string(p.c); }
inline bool same(double a, double b) { return gv::bits(a) == gv::bits(b) || (std::isnan(a) && std::isnan(b)); }
inline bool samePt(const Pnt& a, const Pnt& b) { return same(a.first, b.first) && same(a.second, b.second); }

using c17isect::BE; using c17isect::basicAt; using c17isect::gridTable; using c17isect::capped; using c17isect::allStarts;
inline std::string table(const std::vector<BE>& t) {
  std::string o = " T " + std::to_string(t.size());
  for (auto& e : t) o += " " + hx(e.s.x) + " " + hx(e.s.y) + " " + xp(e.b) + " " + std::to_string(e.its);
  return o;
}
inline std::string consts(const Intersect& in) {
  return "C " + hx(in._d) + " " + hx(in._t1) + " " + hx(in._delta) + " " + hx(in._d1) + " " + hx(in._d2) + " " + hx(in._d3) + " " + hx(in._tol);
}
struct Cnt { long long c0, c1, c2, c3, c4;
  explicit Cnt(const Intersect& in) : c0(in.NumInverse()), c1(in.NumBasic()), c2(in.NumChange()), c3(in.NumCorner()), c4(in.NumOverride()) {} };
inline void monotone(const Cnt& a, const Cnt& b) {
  if (b.c0 < a.c0 || b.c1 < a.c1 || b.c2 < a.c2 || b.c3 < a.c3 || b.c4 < a.c4 || (b.c1 - a.c1) > (b.c0 - a.c0))
    bad("counters-monotone", "a diagnostic counter decreased or NumBasic grew more than NumInverse");
}
// ------------------------------------------------------------------------------------------------------------ ops
inline void op_consts(const Args& a) {
  World& w = world(unhx(a[0]), unhx(a[1]), std::atoi(a[2].c_str())); const Intersect& in = w.in;
  emit(hx(in._d) + " " + hx(in._t1) + " " + hx(in._t2) + " " + hx(in._t3) + " " + hx(in._t4) + " " + hx(in._t5) + " " + hx(in._d1) + " " + hx(in._d2) + " " + hx(in._d3) + " " +
       hx(in._delta) + " " + hx(in._tol) + " " + hx(in._eps) + " " + hx(in._rR) + " " + std::to_string(Intersect::numit_));
  const Geodesic& g = in.GeodesicObject();
  if (!(g.EquatorialRadius() == w.a && g.Flattening() == w.f && g.Exact() == w.exact)) bad("geodesic-object", "GeodesicObject() differs from the object the Intersect was constructed from");
}

// ixs_ctor E | ok <constants as ixs_consts>  or  E   -- the constructor's domain: documented as validated for -1/4 <= f <= 1/5 (with the
// exact geodesic for |f| > 1/50), an exception "sufficiently far outside"; whenever an object is constructed its constants pass the model
// of the sanity check (Lean: ctorOk), and inside the documented range construction must succeed
inline void op_ctor(const Args& a) {
  double aa = unhx(a[0]), f = unhx(a[1]); int exact = std::atoi(a[2].c_str()); std::string out;
  std::string err = gv::guarded([&] {
    Geodesic g(aa, f, exact != 0); Intersect in(g);
    out = "ok " + hx(in._d) + " " + hx(in._t1) + " " + hx(in._t2) + " " + hx(in._t3) + " " + hx(in._t4) + " " + hx(in._t5) + " " + hx(in._d1) + " " + hx(in._d2) + " " + hx(in._d3) + " " +
          hx(in._delta) + " " + hx(in._tol) + " " + hx(in._eps) + " " + hx(in._rR) + " " + std::to_string(Intersect::numit_);
  });
  emit(err.empty() ? out : "E");
  if (!err.empty() && err != "!E") bad("ctor-exception-kind", "Intersect(Geodesic(a, f)) threw " + err + " instead of GeographicErr");
  if (!err.empty() && f >= -0.25 && f <= 0.2 && (exact || std::fabs(f) <= 0.02) && aa > 0 && std::isfinite(aa))
    bad("ctor-documented-range", "Intersect cannot be constructed for f = " + num(f) + " (exact = " + std::to_string(exact) + "), inside the range -1/4 <= f <= 1/5 it is documented as validated for");
}

inline void op_comp(const Args& a) {
  double delta = unhx(a[0]), px = unhx(a[1]), py = unhx(a[2]), qx = unhx(a[3]), qy = unhx(a[4]), p0x = unhx(a[5]), p0y = unhx(a[6]);
  Intersect::SetComp comp(delta); XP p(px, py), q(qx, qy); Intersect::RankPoint rk(XP(p0x, p0y)), rk2(Pnt(p0x, p0y));
  double d = Intersect::Dist(Pnt(px, py), Pnt(p0x, p0y)), d0 = Intersect::Dist(Pnt(px, py));
  emit(std::to_string(int(comp.eq(p, q))) + " " + std::to_string(int(comp.eq(q, p))) + " " + std::to_string(int(comp(p, q))) + " " + std::to_string(int(comp(q, p))) + " " +
       std::to_string(int(rk(p, q))) + " " + std::to_string(int(rk(q, p))) + " " + hx(d) + " " + hx(d0));
  if (!same(d, std::fabs(px - p0x) + std::fabs(py - p0y)) || !same(d0, std::fabs(px) + std::fabs(py)) || !same(d, p.Dist(XP(p0x, p0y))) || !same(d0, p.Dist()))
    bad("dist-static", "Intersect::Dist(p, p0) is not |dx| + |dy| (or differs from XPoint::Dist)");
  if (rk(p, q) != rk2(p, q)) bad("dist-static", "RankPoint(Point) and RankPoint(XPoint) order differently");
}

inline void op_basic(const Args& a) {
  World& w = world(unhx(a[0]), unhx(a[1]), std::atoi(a[2].c_str())); const Intersect& in = w.in;
  GeodesicLine lX = w.g.Line(unhx(a[3]), unhx(a[4]), unhx(a[5]), Intersect::LineCaps), lY = w.g.Line(unhx(a[6]), unhx(a[7]), unhx(a[8]), Intersect::LineCaps);
  XP s(unhx(a[9]), unhx(a[10]));
  // the kernel values along the iteration (Spherical at the points the documented loop visits)
  std::string tr; int n = 0; XP q = s;
  for (; n < Intersect::numit_;) {
    XP dq = in.Spherical(lX, lY, q); ++n;
    tr += " " + xp(q) + " " + xp(dq);
    q += dq;
    if (q.c || !(dq.Dist() > in._tol)) break;
  }
  Cnt c0(in); BE e = basicAt(in, lX, lY, s); Cnt c1(in); monotone(c0, c1);
  emit(hx(in._tol) + " " + std::to_string(n) + tr + " R " + xp(e.b) + " " + std::to_string(e.its));
}

inline void op_closest(const Args& a) {
  World& w = world(unhx(a[0]), unhx(a[1]), std::atoi(a[2].c_str())); const Intersect& in = w.in;
  double latX = unhx(a[3]), lonX = unhx(a[4]), aziX = unhx(a[5]), latY = unhx(a[6]), lonY = unhx(a[7]), aziY = unhx(a[8]); Pnt p0(unhx(a[9]), unhx(a[10]));
  GeodesicLine lX = w.g.Line(latX, lonX, aziX, Intersect::LineCaps), lY = w.g.Line(latY, lonY, aziY, Intersect::LineCaps);
  std::vector<BE> t = gridTable(in, lX, lY, XP(p0), in._d1, 1);
  Cnt c0(in); int c = 99; Pnt p = in.Closest(lX, lY, p0, &c); Cnt c1(in); monotone(c0, c1);
  emit(consts(in) + table(t) + " R " + hx(p.first) + " " + hx(p.second) + " " + std::to_string(c) + " " + std::to_string(c1.c1 - c0.c1) + " " + std::to_string(c1.c2 - c0.c2) + " " + std::to_string(c1.c0 - c0.c0));
  int c2 = 99; Pnt p2 = in.Closest(latX, lonX, aziX, latY, lonY, aziY, p0, &c2), p3 = in.Closest(lX, lY, p0), p4 = in.Closest(latX, lonX, aziX, latY, lonY, aziY, p0);
  if (!(samePt(p, p2) && samePt(p, p3) && samePt(p, p4) && c == c2)) bad("closest-overloads", "Closest: the (lat, lon, azi) overload / the GeodesicLine overload / the variants without c disagree: " + pt(p.first, p.second) + " vs " + pt(p2.first, p2.second));
  if (p0.first == 0 && p0.second == 0) { Pnt p5 = in.Closest(lX, lY), p6 = in.Closest(latX, lonX, aziX, latY, lonY, aziY);
    if (!(samePt(p, p5) && samePt(p, p6))) bad("closest-overloads", "Closest with the default p0 differs from p0 = (0, 0)"); }
}

inline void op_next(const Args& a) {
  World& w = world(unhx(a[0]), unhx(a[1]), std::atoi(a[2].c_str())); const Intersect& in = w.in;
  double lat = unhx(a[3]), lon = unhx(a[4]), aziX = unhx(a[5]), aziY = unhx(a[6]);
  GeodesicLine lX = w.g.Line(lat, lon, aziX, Intersect::LineCaps), lY = w.g.Line(lat, lon, aziY, Intersect::LineCaps);
  std::vector<BE> t = gridTable(in, lX, lY, XP(0, 0), in._d2, 2);
  double cm = in.ConjugateDist(lX, -in._d, false), cp = in.ConjugateDist(lX, in._d, false);
  Cnt c0(in); int c = 99; Pnt p = in.Next(lX, lY, &c); Cnt c1(in); monotone(c0, c1);
  emit(consts(in) + table(t) + " J " + hx(cm) + " " + hx(cp) + " R " + hx(p.first) + " " + hx(p.second) + " " + std::to_string(c) + " " + std::to_string(c1.c1 - c0.c1) + " " + std::to_string(c1.c2 - c0.c2) + " " + std::to_string(c1.c0 - c0.c0));
  int c2 = 99; Pnt p2 = in.Next(lat, lon, aziX, aziY, &c2), p3 = in.Next(lX, lY), p4 = in.Next(lat, lon, aziX, aziY);
  if (!(samePt(p, p2) && samePt(p, p3) && samePt(p, p4) && c == c2)) bad("next-overloads", "Next: the (lat, lon, aziX, aziY) overload / the GeodesicLine overload / the variants without c disagree: " + pt(p.first, p.second) + " vs " + pt(p2.first, p2.second));
}

inline void op_segment(const Args& a) {
  World& w = world(unhx(a[0]), unhx(a[1]), std::atoi(a[2].c_str())); const Intersect& in = w.in;
  double v[8]; for (int i = 0; i < 8; ++i) v[i] = unhx(a[3 + i]);
  GeodesicLine lX = w.g.InverseLine(v[0], v[1], v[2], v[3], Intersect::LineCaps), lY = w.g.InverseLine(v[4], v[5], v[6], v[7], Intersect::LineCaps);
  double sx = lX.Distance(), sy = lY.Distance();
  std::vector<BE> t = gridTable(in, lX, lY, XP(sx / 2, sy / 2), in._d1, 1), k;
  for (int ix = 0; ix < 2; ++ix) for (int iy = 0; iy < 2; ++iy) k.push_back(basicAt(in, lX, lY, XP(ix * sx, iy * sy)));
  Cnt c0(in); int c = 99, segmode = 99; Pnt p = in.Segment(lX, lY, segmode, &c); Cnt c1(in); monotone(c0, c1);
  std::string ks = table(k); ks[1] = 'K';
  emit(consts(in) + " S " + hx(sx) + " " + hx(sy) + table(t) + ks + " R " + hx(p.first) + " " + hx(p.second) + " " + std::to_string(c) + " " + std::to_string(segmode) + " " +
       std::to_string(c1.c1 - c0.c1) + " " + std::to_string(c1.c2 - c0.c2) + " " + std::to_string(c1.c3 - c0.c3) + " " + std::to_string(c1.c4 - c0.c4) + " " + std::to_string(c1.c0 - c0.c0));
  int c2 = 99, sm2 = 99, sm3 = 99, sm4 = 99; Pnt p2 = in.Segment(v[0], v[1], v[2], v[3], v[4], v[5], v[6], v[7], sm2, &c2), p3 = in.Segment(lX, lY, sm3), p4 = in.Segment(v[0], v[1], v[2], v[3], v[4], v[5], v[6], v[7], sm4);
  if (!(samePt(p, p2) && samePt(p, p3) && samePt(p, p4) && c == c2 && segmode == sm2 && segmode == sm3 && segmode == sm4))
    bad("segment-overloads", "Segment: the end-point overload / the GeodesicLine overload / the variants without c disagree: " + pt(p.first, p.second) + " segmode " + std::to_string(segmode) + " vs " + pt(p2.first, p2.second) + " segmode " + std::to_string(sm2));
  if (std::isfinite(p.first + p.second)) {
    int kx = p.first < 0 ? -1 : (p.first <= sx ? 0 : 1), ky = p.second < 0 ? -1 : (p.second <= sy ? 0 : 1);
    if (segmode != 3 * kx + ky) bad("segment-segmode-exact", "segmode=" + std::to_string(segmode) + " but the returned point " + pt(p.first, p.second) + " with sx=" + num(sx) + " sy=" + num(sy) + " gives 3 kx + ky = " + std::to_string(3 * kx + ky));
  }
}

inline void op_all(const Args& a) {
  World& w = world(unhx(a[0]), unhx(a[1]), std::atoi(a[2].c_str())); const Intersect& in = w.in;
  double latX = unhx(a[3]), lonX = unhx(a[4]), aziX = unhx(a[5]), latY = unhx(a[6]), lonY = unhx(a[7]), aziY = unhx(a[8]), maxdist = unhx(a[9]); Pnt p0(unhx(a[10]), unhx(a[11]));
  GeodesicLine lX = w.g.Line(latX, lonX, aziX, Intersect::LineCaps), lY = w.g.Line(latY, lonY, aziY, Intersect::LineCaps);
  double md = std::fmax(0.0, maxdist);
  if (!(md <= 40 * in._d)) { emit("skip"); return; }
  int m = 0; std::vector<XP> st = allStarts(in, md, XP(p0), m); std::vector<BE> t;
  for (auto& s : st) t.push_back(basicAt(in, lX, lY, s));
  // the conjugate-point kernel along every line of coincident intersections a start can lead to
  std::string js; int nj = 0; double maxdistx = md + in._delta;
  std::vector<std::pair<uint64_t, uint64_t>> seen;
  for (auto& e : t) if (e.b.c != 0) {
    XP q = Intersect::fixcoincident(XP(p0), e.b); int c0 = e.b.c; double s0 = q.x, tt, m12, M12, M21;
    lX.GenPosition(false, s0, GeodesicLine::REDUCEDLENGTH | GeodesicLine::GEODESICSCALE, tt, tt, tt, tt, m12, M12, M21, tt);
    for (int sgn = -1; sgn <= 1; sgn += 2) {
      double sa = 0; XP qc; int it = 0;
      do {
        double s3 = s0 + sa + sgn * in._d, val = in.ConjugateDist(lX, s3, false, m12, M12, M21);
        auto key = std::make_pair(gv::bits(s0), gv::bits(s3));
        if (std::find(seen.begin(), seen.end(), key) == seen.end()) { seen.push_back(key); js += " " + hx(s0) + " " + hx(s3) + " " + hx(val); ++nj; }
        sa = val - s0; qc = q + XP(sa, c0 * sa);
      } while (qc.Dist(XP(p0)) <= maxdistx && ++it < 400);
    }
  }
  Cnt c0(in); std::vector<int> cv; std::vector<Pnt> v = in.All(lX, lY, maxdist, cv, p0); Cnt c1(in); monotone(c0, c1);
  std::string o = consts(in) + " M " + std::to_string(m) + table(t) + " J " + std::to_string(nj) + js + " R " + std::to_string(v.size());
  for (size_t i = 0; i < v.size(); ++i) o += " " + hx(v[i].first) + " " + hx(v[i].second) + " " + std::to_string(i < cv.size() ? cv[i] : 99);
  emit(o + " " + std::to_string(c1.c1 - c0.c1) + " " + std::to_string(c1.c0 - c0.c0));
  // the four overloads
  std::vector<int> cv2; std::vector<Pnt> v2 = in.All(latX, lonX, aziX, latY, lonY, aziY, maxdist, cv2, p0), v3 = in.All(lX, lY, maxdist, p0), v4 = in.All(latX, lonX, aziX, latY, lonY, aziY, maxdist, p0);
  bool ok = v2.size() == v.size() && v3.size() == v.size() && v4.size() == v.size() && cv.size() == v.size() && cv2 == cv;
  for (size_t i = 0; ok && i < v.size(); ++i) ok = samePt(v[i], v2[i]) && samePt(v[i], v3[i]) && samePt(v[i], v4[i]);
  if (!ok) bad("all-overloads", "All: the four overloads ((lat, lon, azi) / GeodesicLine, with / without the coincidence vector) disagree (" + std::to_string(v.size()) + ", " + std::to_string(v2.size()) + ", " + std::to_string(v3.size()) + ", " + std::to_string(v4.size()) + " points)");
  if (p0.first == 0 && p0.second == 0) { std::vector<Pnt> v5 = in.All(lX, lY, maxdist);
    bool ok5 = v5.size() == v.size(); for (size_t i = 0; ok5 && i < v.size(); ++i) ok5 = samePt(v[i], v5[i]);
    if (!ok5) bad("all-overloads", "All with the default p0 differs from p0 = (0, 0)"); }
  // what the documentation promises about the list, in the class's own terms (exact: the list is trimmed and sorted on these values)
  for (size_t i = 0; i < v.size(); ++i) {
    double d = Intersect::Dist(v[i], p0);
    if (!(d <= md)) bad("all-within-maxdist-exact", "point " + pt(v[i].first, v[i].second) + " has Dist " + num(d) + " > maxdist " + num(md));
    if (i > 0 && !(Intersect::Dist(v[i - 1], p0) <= d)) bad("all-sorted-exact", "point " + std::to_string(i) + " at Dist " + num(d) + " follows a point at Dist " + num(Intersect::Dist(v[i - 1], p0)));
    for (size_t j = 0; j < i; ++j) if (Intersect::Dist(v[i], v[j]) <= in._delta)
      bad("all-duplicate-delta", "points " + std::to_string(j) + " and " + std::to_string(i) + " of All are equal in the sense of the class (Dist <= _delta): " + pt(v[j].first, v[j].second) + " " + pt(v[i].first, v[i].second));
  }
}

static Reg r_consts("ixs_consts", op_consts);
static Reg r_comp("ixs_comp", op_comp);
static Reg r_ctor("ixs_ctor", op_ctor);
static Reg r_basic("ixs_basic", op_basic);
static Reg r_closest("ixs_closest", op_closest);
static Reg r_next("ixs_next", op_next);
static Reg r_segment("ixs_segment", op_segment);
static Reg r_all("ixs_all", op_all);

// ------------------------------------------------------------------------------------------------ generator
// The line / ellipsoid / segment strata are those of C17_isect.hpp (same pickers), so that the model is exercised on the
// coincident, nearly parallel, polar, equatorial ... cases; strata names ixs:<op>-<kind>.
inline void putEll(Args& a, const c17isect::Ell& e) { c17isect::pushEll(a, e); }

inline void genComp(Rng& r) {
  // pairs that exercise the three regimes of the comparator: within delta (L1), x within / beyond delta, exact ties
  double delta = r.irange(0, 3) ? 14813.101968120698 : std::pow(10.0, r.range(-3, 5));
  auto coord = [&]() { int k = r.irange(0, 5); return k == 0 ? 0.0 : k == 1 ? delta * r.irange(-3, 3) : k == 2 ? delta * r.range(-2.5, 2.5) : k == 3 ? r.range(-1e-8, 1e-8) : k == 4 ? 2e7 * r.irange(-2, 2) + delta * r.range(-1.5, 1.5) : r.range(-4e7, 4e7); };
  double px = coord(), py = coord(), qx = r.irange(0, 3) ? px + delta * r.range(-1.5, 1.5) : coord(), qy = r.irange(0, 3) ? py + delta * r.range(-1.5, 1.5) : coord();
  if (r.irange(0, 9) == 0) qx = px; if (r.irange(0, 9) == 0) qy = py;
  if (r.irange(0, 19) == 0) { qx = px + (r.coin() ? delta : -delta); qy = py; }
  double p0x = r.coin() ? 0.0 : coord(), p0y = r.coin() ? 0.0 : coord();
  if (r.irange(0, 4) == 0) { qx = p0x + (p0y - py) ; qy = p0y + (p0x - px); }   // same Dist from p0 as p (rank ties)
  gv::stratum("ixs:comp"); gv::run("ixs_comp", {hx(delta), hx(px), hx(py), hx(qx), hx(qy), hx(p0x), hx(p0y)});
}

inline void generate(Rng& r, bool thorough, int K = 1) {
  auto Q = [&](long v) { return std::max<long>(1, v / K); };   // K slices: the orchestrating generate() runs the parts round-robin

  long n = Q(thorough ? 30000 : 9000);
  // constants of every ellipsoid of the strata
  { const double W = 1 / 298.257223563;
    c17isect::Ell es[] = {{6378137, W, 0}, {6378137, 0, 0}, {6.4e6, 0, 0}, {6378137, 0.015, 0}, {6378137, -0.015, 0}, {6378137, W, 1}, {6.4e6, 1 / 50.0, 1}, {6.4e6, -1 / 50.0, 1},
                          {6.4e6, 0.1, 1}, {6.4e6, -0.1, 1}, {6378137, 1 / 150.0, 0}, {6378388, 1 / 297.0, 0}, {6.4e6, 0.2, 1}, {6.4e6, -0.25, 1}, {1, 0.01, 0}, {6.4e6, 0, 1}};
    for (auto& e : es) { Args a; putEll(a, e); gv::stratum("ixs:consts-" + c17isect::ellTag(e)); gv::run("ixs_consts", a); }
    for (int i = 0; i < Q(thorough ? 120 : 30); ++i) {
      int k = r.irange(0, 5); double f = k == 0 ? r.range(-0.25, 0.2) : k == 1 ? r.pick(std::vector<double>{-0.25, 0.2, -0.3, 0.3, 0.35, -0.35, 0.4, -0.4, 0.5, -1, 0.9, 0.99}) : k == 2 ? r.range(-0.6, 0.6) : k == 3 ? r.range(-0.02, 0.02) : k == 4 ? r.range(0.3, 0.4) : r.range(-0.4, -0.3);
      c17isect::Ell e{r.coin() ? 6378137.0 : 6.4e6 * r.range(0.5, 2), f, (std::fabs(f) > 0.02 || r.coin()) ? 1 : 0};
      Args a; putEll(a, e); gv::stratum("ixs:ctor"); gv::run("ixs_ctor", a); } }
  for (long i = 0; i < n; ++i) {
    for (int k = 0; k < 4; ++k) genComp(r);
    { c17isect::Ell e = c17isect::pickEll(r); c17isect::Lines L = c17isect::pickLines(r, e);
      double p0x = 0, p0y = 0; bool off = r.irange(0, 2) == 0;
      if (off) { p0x = r.range(-3e7, 3e7); p0y = r.range(-3e7, 3e7); if (r.irange(0, 3) == 0) p0y = 0; }
      Args a; putEll(a, e); for (double t : {L.latX, L.lonX, L.aziX, L.latY, L.lonY, L.aziY, p0x, p0y}) a.push_back(hx(t));
      gv::stratum("ixs:closest-" + L.kind); gv::run("ixs_closest", a); if (i < 2) gv::sample(gv::current_op());
      // Basic from a start of the same query (and from a random one)
      Args b(a.begin(), a.begin() + 9); double d1 = world(e.a, e.f, e.exact).in._d1;
      double sx = p0x + d1 * r.irange(-1, 1), sy = p0y + d1 * r.irange(-1, 1); if (r.irange(0, 3) == 0) { sx = r.range(-5e7, 5e7); sy = r.range(-5e7, 5e7); }
      b.push_back(hx(sx)); b.push_back(hx(sy));
      gv::stratum("ixs:basic-" + L.kind); gv::run("ixs_basic", b); }
    { c17isect::Ell e = c17isect::pickEll(r);
      // the strata of ix_next: reuse its generator's choices through a private copy of the switch
      double lat = c17isect::rlat(r), lon = c17isect::rlon(r), aziX = c17isect::razi(r), aziY = c17isect::razi(r); std::string kind = "generic";
      switch (r.irange(0, 11)) {
      case 0: case 1: case 2: break;
      case 3: kind = "nearpar"; aziY = aziX + (r.coin() ? 1 : -1) * std::pow(10.0, r.range(-9, -3)) + (r.coin() ? 180 : 0); break;
      case 4: kind = "coincident-parallel"; aziX = c17isect::q20(aziX); aziY = aziX; break;
      case 5: case 6: kind = "coincident-antiparallel"; aziX = c17isect::q20(aziX); aziY = Math::AngNormalize(aziX + (r.coin() ? 180 : -180)); break;
      case 7: kind = "coincident-meridian"; aziX = r.coin() ? 0 : 180; aziY = r.irange(0, 2) ? Math::AngNormalize(aziX + 180) : aziX; break;
      case 8: kind = "coincident-equator"; lat = 0; aziX = r.coin() ? 90 : -90; aziY = r.irange(0, 2) ? -aziX : aziX; break;
      case 9: kind = "meridian-equator"; lat = r.coin() ? 0 : lat; aziX = r.coin() ? 0 : 180; aziY = r.coin() ? 90 : (r.coin() ? -90 : c17isect::razi(r)); if (r.coin()) std::swap(aziX, aziY); break;
      case 10: kind = "pole"; lat = r.coin() ? 90 : -90; if (r.irange(0, 3) == 0) { aziX = c17isect::q20(aziX); aziY = r.coin() ? aziX : Math::AngNormalize(aziX + 180); } break;
      default: kind = "perpendicular"; aziY = aziX + (r.coin() ? 90 : -90); break;
      }
      Args a; putEll(a, e); for (double t : {lat, lon, aziX, aziY}) a.push_back(hx(t));
      gv::stratum("ixs:next-" + kind); gv::run("ixs_next", a); }
    if (i % 2 == 0) {
      // segments: the generator of ix_segment produces the op line; re-issue its arguments under the model op
      c17isect::Ell e = c17isect::pickEll(r); Geodesic g(e.a, e.f, e.exact != 0);
      double lim = 0.85 * Math::pi() * std::fmin(e.a, e.a * (1 - e.f)), v[8]; std::string kind;
      auto seg = [&](double lat, double lon, double azi, double s0, double s1, double* o) { GeodesicLine l = g.Line(lat, lon, azi); l.Position(s0, o[0], o[1]); l.Position(s1, o[2], o[3]); };
      switch (r.irange(0, 7)) {
      case 0: kind = "generic"; seg(c17isect::rlat(r), c17isect::rlon(r), c17isect::razi(r), 0, r.range(1e3, lim), v); seg(c17isect::rlat(r), c17isect::rlon(r), c17isect::razi(r), 0, r.range(1e3, lim), v + 4); break;
      case 1: case 2: { kind = "crossing"; double lat = c17isect::rlat(r), lon = c17isect::rlon(r), u = std::pow(10.0, r.range(3, std::log10(lim)));
        seg(lat, lon, c17isect::razi(r), -r.range(0, u), r.range(0, u), v); seg(lat, lon, c17isect::razi(r), -r.range(0, u), r.range(0, u), v + 4); break; }
      case 3: { kind = "near-miss"; double lat = c17isect::rlat(r), lon = c17isect::rlon(r), u = r.range(1e4, lim), gap = std::pow(10.0, r.range(-3, 6));
        seg(lat, lon, c17isect::razi(r), -r.range(0, u), r.range(0, lim - u), v); seg(lat, lon, c17isect::razi(r), gap, gap + r.range(1e3, lim - gap - 1e3), v + 4); break; }
      case 4: { kind = "coincident-equator"; double l0 = r.irange(-170, 170), w1 = r.irange(1, 150), o = r.irange(-60, 160), w2 = r.irange(1, 150);
        v[0] = 0; v[1] = l0; v[2] = 0; v[3] = l0 + w1; v[4] = 0; v[5] = l0 + o; v[6] = 0; v[7] = l0 + o + w2;
        if (r.coin()) std::swap(v[1], v[3]); if (r.coin()) std::swap(v[5], v[7]); for (int j : {1, 3, 5, 7}) v[j] = Math::AngNormalize(v[j]); break; }
      case 5: { kind = "coincident-meridian"; double lon = c17isect::q20(c17isect::rlon(r)), l0 = r.irange(-85, 30), w1 = r.irange(1, 50), o = r.irange(-40, 60), w2 = r.irange(1, 50);
        auto cl = [](double x) { return std::fmax(-90.0, std::fmin(90.0, x)); };
        v[0] = cl(l0); v[1] = lon; v[2] = cl(l0 + w1); v[3] = lon; v[4] = cl(l0 + o); v[5] = lon; v[6] = cl(l0 + o + w2); v[7] = lon; break; }
      case 6: { kind = "coincident-oblique"; double lat = c17isect::rlat(r), lon = c17isect::rlon(r), az = c17isect::razi(r), u = r.range(1e4, lim), t0 = r.range(-0.5 * u, 1.2 * u), t1 = t0 + (r.coin() ? 1 : -1) * r.range(1e3, 0.8 * lim);
        seg(lat, lon, az, 0, u, v); seg(lat, lon, az, t0, t1, v + 4); break; }
      default: { kind = "short-far"; seg(c17isect::rlat(r), c17isect::rlon(r), c17isect::razi(r), 0, std::pow(10.0, r.range(1, 5.5)), v); seg(c17isect::rlat(r), c17isect::rlon(r), c17isect::razi(r), 0, std::pow(10.0, r.range(1, 5.5)), v + 4); break; }
      }
      Args a; putEll(a, e); for (int j = 0; j < 8; ++j) a.push_back(hx(v[j]));
      gv::stratum("ixs:segment-" + kind); gv::run("ixs_segment", a); }
    if (i % 3 == 0) {
      c17isect::Ell e = c17isect::pickEll(r); c17isect::Lines L = c17isect::pickLines(r, e);
      double C = 2 * Math::pi() * e.a, D = C * r.range(0.02, 1.6); int k = r.irange(0, 11);
      if (k == 0) D = 0; else if (k == 1) D = -1; else if (k == 2) D = C * r.range(0, 0.05); else if (k == 3) D = NAN;
      double p0x = 0, p0y = 0; bool off = r.irange(0, 2) == 0; if (off) { p0x = r.range(-3e7, 3e7); p0y = r.range(-3e7, 3e7); }
      Args a; putEll(a, e); for (double t : {L.latX, L.lonX, L.aziX, L.latY, L.lonY, L.aziY, D, p0x, p0y}) a.push_back(hx(t));
      gv::stratum("ixs:all-" + L.kind); gv::run("ixs_all", a); }
  }
}

} // namespace c17ixs
