// C01: direct geodesic problem (series, exact, exact=true, every line form and overload) against the specification oracle
#include "C01_tool.hpp"
#include "geodcommon.hpp"
#include "C01_line.hpp"
#include "C01_xline.hpp"
#include "C01_routes.hpp"
#include <GeographicLib/EllipticFunction.hpp>
using namespace gd; using namespace gv; using namespace routes;

static bool same(const Res& x, const Res& y) { const double* p = &x.lat2; const double* q = &y.lat2; for (int i = 0; i < 9; ++i) if (bits(p[i]) != bits(q[i]) && !(std::isnan(p[i]) && std::isnan(q[i]))) return false; return true; }
static const Out& find(const std::vector<Out>& o, const char* n) { for (auto& x : o) if (x.name == n) return x; static Out none{"", 0, nanres()}; return none; }

// the case being judged and the metric on the ellipsoid
struct Ctx { double ea, f, lat1, lon1, azi1; bool arc; double len, q; };
static double dn_at(const Ctx& c, double lat2) { LD f1 = 1 - c.f, ep2 = c.f * (2 - c.f) / (f1 * f1); LD cb = cosbeta(c.f, lat2); LD sb2 = 1 - cb * cb; LD v = 1 + ep2 * sb2; return (double)sqrtl(v > 0 ? v : 0); }

// one route's outputs against reference values (plain P, unrolled U) that are themselves judged against the oracle
static void agree(const std::string& rel, const Ctx& c, const Out& x, const Res& P, const Res& U, double tol) {
  auto fail = [&](const std::string& what) { bad(rel, x.name + ": " + what); };
  const Res& r = x.r;
  if ((x.have & hLAT) && !(r.lat2 >= -90 && r.lat2 <= 90)) fail("lat2 = " + std::to_string(r.lat2) + " outside [-90,90]");
  if ((x.have & hAZI) && !(r.azi2 >= -180 && r.azi2 <= 180)) fail("azi2 = " + std::to_string(r.azi2) + " outside [-180,180]");
  if ((x.have & hLON) && !(x.have & hUNROLL) && !(r.lon2 >= -180 && r.lon2 <= 180)) fail("lon2 = " + std::to_string(r.lon2) + " outside [-180,180]");
  if (x.have & (hLAT | hLON)) {
    double la = (x.have & hLAT) ? r.lat2 : P.lat2, lo = (x.have & hLON) ? r.lon2 : P.lon2;
    double d = (double)chord(c.ea, c.f, la, lo, P.lat2, P.lon2);
    if (!(d <= tol)) fail("position differs from GenDirect(ALL) by " + std::to_string(d * 1e9) + " nm (tolerance " + std::to_string(tol * 1e9) + ")");
  }
  if ((x.have & hLON) && (x.have & hUNROLL)) {
    double du = r.lon2 - U.lon2, w = double(oracle::DEG * c.ea * cosbeta(c.f, P.lat2));
    bool pole = std::fabs(P.lat2) > 89.99999 || std::fabs(c.lat1) > 89.99999;
    if (!pole && !(std::fabs(du) * w <= tol + 1e-15 * std::fabs(c.lon1) * c.ea)) fail("unrolled lon2 = " + std::to_string(r.lon2) + " but GenDirect(ALL|LONG_UNROLL) gives " + std::to_string(U.lon2) + " for lon1 = " + std::to_string(c.lon1));
  }
  if (x.have & hAZI) { bool ll = (x.have & hLAT) && (x.have & hLON); LD ang = dir_angle(ll ? r.lat2 : P.lat2, ll ? r.lon2 : P.lon2, r.azi2, P.lat2, P.lon2, P.azi2);
    if (!((double)ang * c.ea <= (tol + 4e-16 * c.ea) * c.q)) fail("azi2 differs from GenDirect(ALL) by " + std::to_string((double)ang) + " rad"); }
  if ((x.have & hS) && !(std::fabs(r.s12 - P.s12) <= tol)) fail("s12 differs from GenDirect(ALL) by " + std::to_string((r.s12 - P.s12) * 1e9) + " nm");
  if (x.have & hA) { double w = double(oracle::DEG) * c.ea * (1 - c.f) * dn_at(c, P.lat2);
    if (!(std::fabs(r.a12 - P.a12) * w <= tol)) fail("a12 = " + std::to_string(r.a12) + " but GenDirect(ALL) gives " + std::to_string(P.a12)); }
}

template<class G, class L> static void config(const char* name, const G& g, const Ctx& c, double acc, double scale, int level, const QLine* OL, const oracle::Line::Pos* op, Res& Pout, Res& Uout) {
  std::vector<Out> o = direct_routes<G, L>(g, c.lat1, c.lon1, c.azi1, c.arc, c.len, level);
  const Res& P = find(o, "GenDirect(ALL)").r; const Res& U = find(o, "GenDirect(ALL|LONG_UNROLL)").r; Pout = P; Uout = U;
  if (std::isnan(acc)) return;
  double tol = tol_len(acc, scale, P.a12);
  std::string cn = name;
  // (1) every route agrees with GenDirect (they are the same geodesic)
  for (auto& x : o) agree("route-" + cn, c, x, P, U, tol);
  // (1b) what a line says about its first point: the latitude, longitude and azimuth it was given (longitude as given, not reduced)
  if (level >= 1) {
    auto getters = [&](const char* how, const L& l) {
      if (!(bits(l.Longitude()) == bits(c.lon1) && l.Latitude() == Math::LatFix(c.lat1) && l.Azimuth() == Math::AngNormalize(c.azi1)))
        bad("line-first-point-" + cn, std::string(how) + ": Latitude/Longitude/Azimuth() = " + std::to_string(l.Latitude()) + ", " + std::to_string(l.Longitude()) + ", " + std::to_string(l.Azimuth()) +
            " for a line through (" + std::to_string(c.lat1) + ", " + std::to_string(c.lon1) + ") with azimuth " + std::to_string(c.azi1)); };
    getters("Line", g.Line(c.lat1, c.lon1, c.azi1)); getters("constructor", L(g, c.lat1, c.lon1, c.azi1)); getters("GenDirectLine", g.GenDirectLine(c.lat1, c.lon1, c.azi1, c.arc, c.len));
    if (c.arc) getters("ArcDirectLine", g.ArcDirectLine(c.lat1, c.lon1, c.azi1, c.len)); else getters("DirectLine", g.DirectLine(c.lat1, c.lon1, c.azi1, c.len));
    // SetDistance / SetArc on an existing line: the third point is the end point
    L l = g.Line(c.lat1, c.lon1, c.azi1); l.GenSetDistance(c.arc, c.len); Res q = nanres(); q.a12 = l.Arc(); q.s12 = l.Distance();
    agree("route-" + cn, c, Out{"Line.GenSetDistance.(Arc,Distance)", hS | hA, q}, P, U, tol);
    l.GenSetDistance(!c.arc, c.arc ? P.s12 : P.a12); q.a12 = l.Arc(); q.s12 = l.Distance();
    agree("distance-arc-pair-" + cn, c, Out{"Line.GenSetDistance(the other member of the pair).(Arc,Distance)", hS | hA, q}, P, U, 2 * tol);
  }
  // (2) the distance / arc-length pair: the same end point addressed the other way
  { Res r = nanres(); double other = c.arc ? P.s12 : P.a12;
    r.a12 = g.GenDirect(c.lat1, c.lon1, c.azi1, !c.arc, other, G::ALL | G::LONG_UNROLL, r.lat2, r.lon2, r.azi2, r.s12, r.m12, r.M12, r.M21, r.S12);
    Out x{std::string(c.arc ? "Direct(s12 returned by ArcDirect)" : "ArcDirect(a12 returned by Direct)"), hLAT | hLON | hUNROLL | hAZI | hS | hA, r};
    agree("distance-arc-pair-" + cn, c, x, P, U, 2 * tol); }
  // (3) InverseLine through the end point (moderate ellipsoids, the geodesic found is some geodesic to the same point)
  if (level >= 1 && c.q <= 4.001 && std::fabs(P.a12) <= 175 && std::fabs(P.lat2) < 89.9 && std::fabs(c.lat1) < 89.9) {
    L l = g.InverseLine(c.lat1, c.lon1, P.lat2, P.lon2); Res r = nanres(); Res u = nanres();
    r.a12 = l.GenPosition(false, l.Distance(), G::ALL, r.lat2, r.lon2, r.azi2, r.s12, r.m12, r.M12, r.M21, r.S12);
    u.a12 = l.GenPosition(false, l.Distance(), G::ALL | G::LONG_UNROLL, u.lat2, u.lon2, u.azi2, u.s12, u.m12, u.M12, u.M21, u.S12);
    double t3 = 3 * tol_len(acc, scale, 180);
    double d = (double)chord(c.ea, c.f, r.lat2, r.lon2, P.lat2, P.lon2);
    if (!(d <= t3)) bad("inverseline-" + cn, "InverseLine(p1, p2).Position(Distance()) is " + std::to_string(d * 1e9) + " nm from p2");
    double sw = u.lon2 - c.lon1, w = double(oracle::DEG * c.ea * cosbeta(c.f, P.lat2));
    double d0 = std::remainder(P.lon2 - c.lon1, 360.0);   // the longitude difference of a shortest path is at most 180 degrees
    if (!(std::fabs(std::remainder(sw - d0, 360.0)) * w <= t3 + 1e-15 * std::fabs(c.lon1) * c.ea) || (std::fabs(d0) < 179.9 && !(std::fabs(sw - d0) < 1)) || (c.f >= 0 && !(std::fabs(sw) <= 180 + 1e-9)))
      bad("inverseline-" + cn, "InverseLine with LONG_UNROLL: lon2 - lon1 = " + std::to_string(sw) + " is not the longitude difference of the shortest path to lon2 = " + std::to_string(P.lon2));
  }
  // (4) the oracle: the true geodesic
  if (!OL) return;
  const QLine& Lo = *OL; const oracle::Line::Pos& p = *op;
  LD olon2 = c.lon1 + p.lon12;
  double d = (double)chord(c.ea, c.f, P.lat2, P.lon2, p.lat2, olon2);
  if (!(d <= tol)) bad("direct-position-" + cn, "end point is " + std::to_string(d * 1e9) + " nm from the true geodesic (tolerance " + std::to_string(tol * 1e9) + ")");
  LD ang = dir_angle(P.lat2, P.lon2, P.azi2, p.lat2, olon2, p.azi2);
  if (!((double)ang * c.ea <= (tol + 4e-16 * c.ea) * c.q)) bad("direct-azimuth-" + cn, "forward azimuth off by " + std::to_string((double)ang * c.ea * 1e9) + " nm-equivalent");
  if (c.arc) { if (!(std::fabs(P.s12 - (double)p.s12) <= tol)) bad("direct-distance-" + cn, "s12 for the given arc off by " + std::to_string((P.s12 - (double)p.s12) * 1e9) + " nm"); }
  else { double w = double(oracle::DEG * Lo.b * Lo.dn(p.sig2));   // metres per degree of arc at the end point
    if (!(std::fabs(P.a12 - (double)p.a12) * w <= tol)) bad("direct-arc-" + cn, "a12 for the given distance off by " + std::to_string(double((P.a12 - p.a12) * w * 1e9)) + " nm (a12 = " + std::to_string(P.a12) + ", true " + std::to_string((double)p.a12) + ")"); }
  // unrolled longitude: the true number and sense of circuits
  double du = double((LD)U.lon2 - (LD)c.lon1 - p.lon12);
  double w = double(oracle::DEG * c.ea * cosbeta(c.f, p.lat2));
  bool meridional = std::fabs((double)Lo.salp0) < 1e-9;   // the sense of a pole crossing is a convention
  if (meridional) du = std::remainder(du, 360.0);
  if (std::fabs((double)p.lat2) < 89.99999 && std::fabs(c.lat1) < 89.99999 && !(std::fabs(du) * w <= tol + 1e-15 * std::fabs(c.lon1) * c.ea)) bad("direct-unroll-" + cn, "unrolled lon2 - lon1 differs from the true longitude swept by " + std::to_string(du) + " deg");
}

static Reg r_dir("gdirect", [](const Args& a) {
  double ea = unhx(a[0]), f = unhx(a[1]), lat1 = unhx(a[2]), lon1 = unhx(a[3]), azi1 = unhx(a[4]); bool arc = a[5] == "1"; double len = unhx(a[6]);
  int level = a.size() > 7 ? std::atoi(a[7].c_str()) : 2;
  Geodesic G(ea, f), X(ea, f, true); GeodesicExact E(ea, f);
  Ctx c{ea, f, lat1, lon1, azi1, arc, len, (1 - f) >= 1 ? (1 - f) : 1 / (1 - f)};
  bool finite = std::isfinite(lat1) && std::isfinite(lon1) && std::isfinite(azi1) && std::isfinite(len) && std::fabs(lat1) <= 90;
  if (!finite) {   // ranges only (decided in Lean)
    Res rg, re, ug, ue; std::vector<Out> og = direct_routes<Geodesic, GeodesicLine>(G, lat1, lon1, azi1, arc, len, 0), oe = direct_routes<GeodesicExact, GeodesicLineExact>(E, lat1, lon1, azi1, arc, len, 0);
    rg = find(og, "GenDirect(ALL)").r; ug = find(og, "GenDirect(ALL|LONG_UNROLL)").r; re = find(oe, "GenDirect(ALL)").r; ue = find(oe, "GenDirect(ALL|LONG_UNROLL)").r;
    emit(hx(rg.lat2) + " " + hx(rg.lon2) + " " + hx(rg.azi2) + " " + hx(re.lat2) + " " + hx(re.lon2) + " " + hx(re.azi2) + " " + hx(ug.lon2) + " " + hx(ue.lon2) + " " + hx(rg.a12) + " " + hx(re.a12));
    return;
  }
  double accS = acc_series_full(f), accE = acc_exact_full(f), scale = size_scale(ea, f);
  // the specification oracle (defining integrals, quadrature)
  bool useo = oracle_range(f); QLine OL(ea, f, lat1, lon1, azi1); oracle::Line::Pos op{};
  if (useo) { op = OL.position(arc, len); if (!std::isfinite((double)op.a12)) { useo = false; stat("oracle_abstains"); } }
  Res rg, ug, re, ue, rx, ux;
  config<Geodesic, GeodesicLine>("series", G, c, accS, scale, level, useo ? &OL : nullptr, &op, rg, ug);
  config<GeodesicExact, GeodesicLineExact>("exact", E, c, accE, scale, level, useo ? &OL : nullptr, &op, re, ue);
  config<Geodesic, GeodesicLine>("exact-true", X, c, accE, scale, level, nullptr, &op, rx, ux);
  // ranges are decided in Lean: series and exact results, plain and unrolled longitude
  emit(hx(rg.lat2) + " " + hx(rg.lon2) + " " + hx(rg.azi2) + " " + hx(re.lat2) + " " + hx(re.lon2) + " " + hx(re.azi2) + " " + hx(ug.lon2) + " " + hx(ue.lon2) + " " + hx(rg.a12) + " " + hx(re.a12));
  // delegation and line forms are the same computation
  if (!same(rx, re) || !same(ux, ue)) bad("exact-true-delegation", "Geodesic(a,f,true) differs from GeodesicExact(a,f)");
  GeodesicLine lg(G, lat1, lon1, azi1); GeodesicLineExact le(E, lat1, lon1, azi1);
  Res rlg, rle; rlg.a12 = lg.GenPosition(arc, len, Geodesic::ALL, rlg.lat2, rlg.lon2, rlg.azi2, rlg.s12, rlg.m12, rlg.M12, rlg.M21, rlg.S12);
  rle.a12 = le.GenPosition(arc, len, GeodesicExact::ALL, rle.lat2, rle.lon2, rle.azi2, rle.s12, rle.m12, rle.M12, rle.M21, rle.S12);
  if (!same(rlg, rg)) bad("line-vs-direct", "GeodesicLine::GenPosition differs from Geodesic::GenDirect");
  if (!same(rle, re)) bad("line-vs-direct", "GeodesicLineExact::GenPosition differs from GeodesicExact::GenDirect");
});

static Reg r_scs("sincosseries", [](const Args& a) {
  bool sinp = a[0] == "1"; double sx = unhx(a[1]), cx = unhx(a[2]); std::vector<double> c; if (sinp) c.push_back(0); for (size_t i = 3; i < a.size(); ++i) c.push_back(unhx(a[i]));
  int n = int(a.size()) - 3;
  emit(hx(Geodesic::SinCosSeries(sinp, sx, cx, c.data(), n)));
});

// E(Einv(x)) = x with the root in the period of x: the direct problem in distance mode rests on it (EllipticFunction itself is C15's)
static Reg r_einv("einv", [](const Args& a) {
  double k2 = unhx(a[0]), x = unhx(a[1]);
  std::string e = guarded([&] {
    EllipticFunction ell(k2); double Ec = ell.E(), phi = ell.Einv(x), back = ell.E(phi);
    emit(hx(Ec) + " " + hx(phi) + " " + hx(back));
    if (!std::isfinite(x)) return;
    // the defining integral, independently
    LD kp2 = 1 - (LD)k2; LD refine = k2 < -1 ? 2 * sqrtl(-(LD)k2) : (kp2 < 0.25L ? 1 / sqrtl(kp2) : 2);
    if (std::fabs(phi) < 40 && refine < 500) {
      LD Eq = oracle::integrate([&](LD t) { LD s = sinl(t); LD v = 1 - (LD)k2 * s * s; return sqrtl(v > 0 ? v : 0); }, 0, (LD)phi, refine);
      double tol = 64 * 2.220446049250313e-16 * (std::fabs(x) + Ec);
      if (!(std::fabs((double)Eq - x) <= tol)) bad("einv-vs-integral", "the integral of sqrt(1 - k2 sin^2) up to Einv(x) is " + std::to_string((double)Eq) + ", x = " + std::to_string(x));
    }
  });
  if (!e.empty()) emit(e);
});
// deltaEinv(sin tau, cos tau) = sigma - tau for tau = sigma + deltaE(sigma): the form GeodesicLineExact uses
static Reg r_deinv("deltaeinv", [](const Args& a) {
  double k2 = unhx(a[0]), sig = unhx(a[1]);
  std::string e = guarded([&] {
    EllipticFunction ell(k2); double sn = std::sin(sig), cn = std::cos(sig), dn = ell.Delta(sn, cn);
    double dE = ell.deltaE(sn, cn, dn), tau = sig + dE, r = ell.deltaEinv(std::sin(tau), std::cos(tau)), E0 = ell.E() / (Math::pi() / 2);
    emit(hx(dn) + " " + hx(dE) + " " + hx(r) + " " + hx(E0));
  });
  if (!e.empty()) emit(e);
});

void gv::generate(const std::string& tier, uint64_t seed) {
  Rng r(seed * 982451653 + 1);
  long n = tier == "thorough" ? 40000 : 2500;
  const double W = 1 / 298.257223563;
  std::vector<double> fser = {0, 1e-3, -1e-3, 1 / 150.0, -1 / 150.0, 0.01, -0.01, 0.02, -0.02, 1 / 64.0, -1 / 64.0}, fdeg = {0.05, -0.05, 0.1, -0.1, 0.2, -0.2}, fmod = {0.5, -1.0, 0.75, -3.0},
                      bax = {0.125, 1 / 16.0, 0.05, 0.04, 1 / 32.0, 0.02, 1 / 64.0, 0.01, 8, 16, 20, 25, 32, 50, 64, 100};
  for (long i = 0; i < n; ++i) {
    int kf = r.irange(0, 29); const char* fam;
    double f = i % 3 == 0 ? W : kf < 14 ? r.pick(fser) : kf < 18 ? r.pick(fdeg) : kf < 25 ? r.pick(fmod) : 1 - r.pick(bax);
    fam = f == W ? "wgs84" : std::fabs(f) <= 0.02 ? "series-range" : std::fabs(f) <= 0.2 ? "series-degraded" : (f >= -3 && f <= 0.75) ? "exact-only" : "exact-extreme";
    double a = f == W ? 6378137.0 : 6.4e6, big = std::fmax(a, a * (1 - f));
    int kl = r.irange(0, 9), ka = r.irange(0, 9), ks = r.irange(0, 13);
    double lat1 = kl == 0 ? r.pick(std::vector<double>{90, -90, 0, -0.0}) : kl == 1 ? r.pick(std::vector<double>{90 - 1e-10, -90 + 1e-10, 1e-10, -1e-10, 45}) : r.range(-90, 90);
    double azi1 = ka == 0 ? r.pick(std::vector<double>{0, 90, -90, 180, -180}) : ka == 1 ? r.pick(std::vector<double>{1e-10, -1e-10, 180 - 1e-10, 90 + 1e-10, 89.999999999}) : r.range(-180, 180);
    if (r.irange(0, 39) == 0) { lat1 = r.coin() ? 0.0 : -0.0; azi1 = r.coin() ? 90 : -90; }             // equatorial lines
    if (r.irange(0, 7) == 0) azi1 += 360 * r.irange(-3, 3);                                              // azimuths outside [-180, 180]
    int klo = r.irange(0, 5);
    double lon1 = klo < 3 ? r.range(-180, 180) : klo < 5 ? r.range(-1080, 1080) : r.pick(std::vector<double>{180, -180, 0, 359, -540, 720, 270, 181, -300.125, 3600.5, 359.75, -725.25});
    bool arc = r.coin(); double len; const char* ls = "";
    if (ks == 2) {   // sigma12 near a multiple of 180 degrees (in distance mode: the distance that corresponds to such an arc)
      double arcv = 180 * r.irange(-4, 4) + r.pick(std::vector<double>{0, 1e-9, -1e-9, 1e-6, -1e-6, 1e-3});
      if (arc) len = arcv; else { GeodesicExact E(a, f); double t; E.GenDirect(lat1, lon1, azi1, true, arcv, GeodesicExact::DISTANCE, t, t, t, len, t, t, t, t); if (r.coin()) len = std::nextafter(len, r.coin() ? 1e300 : -1e300); }
      ls = "-near180k";
    } else if (arc) len = ks == 0 ? 0 : ks == 1 ? r.pick(std::vector<double>{90, 180, 270, 360, -90, -180, 1e-9, 720}) : ks < 6 ? r.range(-3600, 3600) : r.range(-180, 180);
    else len = ks == 0 ? 0 : ks == 1 ? r.pick(std::vector<double>{1e-9, -1e-9, 1.0, 1e7, 2e7, 4e7}) : ks < 6 ? r.range(-63, 63) * big : r.range(-3.1, 3.1) * big;
    if ((ks >= 3 && ks < 6) || std::fabs(len) > (arc ? 360 : 6.3 * big)) if (!*ls) ls = "-multicircuit";
    int level = i % 4 == 0 ? 2 : 1;
    run("gdirect", {hx(a), hx(f), hx(lat1), hx(lon1), hx(azi1), arc ? "1" : "0", hx(len), std::to_string(level)});
    stratum(std::string("direct-") + fam + (arc ? "-arc" : "-dist") + ls);
    if (std::fabs(lon1) > 180) stratum("direct-lon1-outside"); if (std::fabs(azi1) > 180) stratum("direct-azi1-outside");
    if (std::fabs(lat1) == 90) stratum("direct-pole-start");
    if (i < 3) sample(current_op());
    // the same case through the Lean models: the series solver (constants, LineInit, GenPosition) and the exact line
    if (f >= -3 && f <= 0.75) gline::model_case(r, a, f, lat1, lon1, azi1, arc, len, i % 16 == 0);
    xline::model_case(r, a, f, lat1, lon1, azi1, arc, len, i % 16 == 0);
    if (i % 4 == 1 && f < 0.99) gtool::tool_case(r, a, f, lat1, lon1, azi1, arc, len);   // the command-line front end on the same case
    if (i % 4 == 0) { double x = r.range(-4, 4); int nn = r.irange(0, 9); Args sa = {r.coin() ? "1" : "0", hx(std::sin(x)), hx(std::cos(x))}; for (int j = 0; j < nn; ++j) sa.push_back(hx(r.range(-1, 1) * std::pow(10.0, -j))); run("sincosseries", sa); }
    if (i % 2 == 0) {   // E(Einv(x)) = x over k2 in (-inf, 1), incl. the values met for b/a = 0.01 (k2 -> -9999) and 100 (k2 -> 0.9999)
      int kk = r.irange(0, 7);
      double k2 = kk == 0 ? r.pick(std::vector<double>{0, 0.9999, -9999, 0.99, -99, 0.5, -1, 1e-3, -1e-3, 0.999999, -1e6}) : kk < 4 ? -std::pow(10.0, r.range(-3, 4.2)) : 1 - std::pow(10.0, r.range(-4.2, 0));
      EllipticFunction ell(k2); double Ec = ell.E(); int kx = r.irange(0, 5);
      double x = kx == 0 ? Ec * r.irange(-6, 6) + r.pick(std::vector<double>{0, 1e-9, -1e-9, 1e-14}) * Ec : kx < 3 ? r.range(-1, 1) * Ec : r.range(-40, 40) * Ec;
      run("einv", {hx(k2), hx(x)}); stratum(k2 < -100 ? "einv-k2-large-negative" : k2 > 0.99 ? "einv-k2-near-1" : "einv-k2-moderate");
      run("deltaeinv", {hx(k2), hx(kx == 0 ? (Math::pi() / 2) * r.irange(-6, 6) + r.pick(std::vector<double>{0, 1e-9, -1e-9}) : r.range(-20, 20))});
    }
  }
}
int main(int argc, char** argv) { return gv::main_(argc, argv); }
