// C01: direct geodesic problem (series, exact, exact=true, line forms) against the specification oracle
#include "geodcommon.hpp"
#include "C01_line.hpp"
using namespace gd; using namespace gv;

template<class Geod> static Res direct(const Geod& g, double lat1, double lon1, double azi1, bool arc, double len, bool unroll) {
  Res r; unsigned m = Geod::ALL | (unroll ? Geod::LONG_UNROLL : 0);
  r.a12 = g.GenDirect(lat1, lon1, azi1, arc, len, m, r.lat2, r.lon2, r.azi2, r.s12, r.m12, r.M12, r.M21, r.S12); return r;
}
template<class Line> static Res viaLine(const Line& l, bool arc, double len, bool unroll, unsigned ALLM, unsigned UN) {
  Res r; r.a12 = l.GenPosition(arc, len, ALLM | (unroll ? UN : 0), r.lat2, r.lon2, r.azi2, r.s12, r.m12, r.M12, r.M21, r.S12); return r;
}
static bool same(const Res& x, const Res& y) { const double* p = &x.lat2; const double* q = &y.lat2; for (int i = 0; i < 9; ++i) if (bits(p[i]) != bits(q[i]) && !(std::isnan(p[i]) && std::isnan(q[i]))) return false; return true; }

static Reg r_dir("gdirect", [](const Args& a) {
  double ea = unhx(a[0]), f = unhx(a[1]), lat1 = unhx(a[2]), lon1 = unhx(a[3]), azi1 = unhx(a[4]); bool arc = a[5] == "1"; double len = unhx(a[6]);
  Geodesic G(ea, f), X(ea, f, true); GeodesicExact E(ea, f);
  Res rg = direct(G, lat1, lon1, azi1, arc, len, false), re = direct(E, lat1, lon1, azi1, arc, len, false), rx = direct(X, lat1, lon1, azi1, arc, len, false);
  Res ug = direct(G, lat1, lon1, azi1, arc, len, true), ue = direct(E, lat1, lon1, azi1, arc, len, true);
  GeodesicLine lg(G, lat1, lon1, azi1); GeodesicLineExact le(E, lat1, lon1, azi1);
  Res rlg = viaLine(lg, arc, len, false, Geodesic::ALL, Geodesic::LONG_UNROLL), rle = viaLine(le, arc, len, false, GeodesicExact::ALL, GeodesicExact::LONG_UNROLL);
  // ranges are decided in Lean: series and exact results, plain and unrolled longitude
  emit(hx(rg.lat2) + " " + hx(rg.lon2) + " " + hx(rg.azi2) + " " + hx(re.lat2) + " " + hx(re.lon2) + " " + hx(re.azi2) + " " + hx(ug.lon2) + " " + hx(ue.lon2) + " " + hx(rg.a12) + " " + hx(re.a12));
  if (!(std::isfinite(lat1) && std::isfinite(lon1) && std::isfinite(azi1) && std::isfinite(len)) || std::fabs(lat1) > 90) return;
  // delegation and line forms are the same computation
  if (!same(rx, re)) bad("exact-true-delegation", "Geodesic(a,f,true) differs from GeodesicExact(a,f)");
  if (!same(rlg, rg)) bad("line-vs-direct", "GeodesicLine::GenPosition differs from Geodesic::GenDirect");
  if (!same(rle, re)) bad("line-vs-direct", "GeodesicLineExact::GenPosition differs from GeodesicExact::GenDirect");
  if (!oracle_ok(f)) return;
  oracle::Line L(ea, f, lat1, lon1, azi1); oracle::Line::Pos p = L.position(arc, len);
  struct Cfg { const char* name; const Res* r; const Res* u; double acc; } cfgs[2] = {{"series", &rg, &ug, acc_series(f)}, {"exact", &re, &ue, acc_exact(f)}};
  for (auto& c : cfgs) {
    if (std::isnan(c.acc)) continue;
    double tol = tol_pos(c.acc, ea, (double)p.a12);
    LD olon2 = lon1 + p.lon12;
    double d = (double)oracle::ground(ea, c.r->lat2, c.r->lon2, p.lat2, olon2);
    if (!(d <= tol)) bad(std::string("direct-position-") + c.name, "end point is " + std::to_string(d * 1e9) + " nm from the true geodesic (tolerance " + std::to_string(tol * 1e9) + ")");
    LD ang = dir_angle(c.r->lat2, c.r->lon2, c.r->azi2, p.lat2, olon2, p.azi2);
    double q = (1 - f) >= 1 ? (1 - f) : 1 / (1 - f);   // azimuth is an angle: its nm-equivalent scales with the largest radius of curvature
    if (!((double)ang * ea <= (tol + 4e-16 * ea) * q)) bad(std::string("direct-azimuth-") + c.name, "forward azimuth off by " + std::to_string((double)ang * ea * 1e9) + " nm-equivalent");
    if (arc) { if (!(std::fabs(c.r->s12 - (double)p.s12) <= tol)) bad(std::string("direct-distance-") + c.name, "s12 for the given arc off by " + std::to_string((c.r->s12 - (double)p.s12) * 1e9) + " nm"); }
    else { if (!(std::fabs(c.r->a12 - (double)p.a12) * oracle::DEG * ea <= tol)) bad(std::string("direct-arc-") + c.name, "a12 for the given distance off by " + std::to_string(double((c.r->a12 - p.a12) * oracle::DEG * ea * 1e9)) + " nm"); }
    // unrolled longitude: the true number and sense of circuits
    double du = double((LD)c.u->lon2 - (LD)lon1 - p.lon12);
    double cl = std::cos((double)p.lat2 * Math::degree());
    bool meridional = std::fabs((double)L.salp0) < 1e-9;   // the sense of a pole crossing is a convention
    if (meridional) du = std::remainder(du, 360.0);
    if (std::fabs((double)p.lat2) < 89.99999 && std::fabs(lat1) < 89.99999 && !(std::fabs(du) * Math::degree() * ea * cl <= tol + 1e-15 * std::fabs(lon1) * ea)) bad(std::string("direct-unroll-") + c.name, "unrolled lon2 - lon1 differs from the true longitude swept by " + std::to_string(du) + " deg");
  }
});

static Reg r_scs("sincosseries", [](const Args& a) {
  bool sinp = a[0] == "1"; double sx = unhx(a[1]), cx = unhx(a[2]); std::vector<double> c; if (sinp) c.push_back(0); for (size_t i = 3; i < a.size(); ++i) c.push_back(unhx(a[i]));
  int n = int(a.size()) - 3;
  emit(hx(Geodesic::SinCosSeries(sinp, sx, cx, c.data(), n)));
});

void gv::generate(const std::string& tier, uint64_t seed) {
  Rng r(seed * 982451653 + 1);
  long n = tier == "thorough" ? 40000 : 2500;
  std::vector<double> fs = {1 / 298.257223563, 0, 1e-3, -1e-3, 1 / 150.0, -1 / 150.0, 0.01, -0.01, 0.02, -0.02, 1 / 64.0, -1 / 64.0, 0.5, -1.0, 0.75, -3.0};
  for (long i = 0; i < n; ++i) {
    double f = i % 3 == 0 ? fs[0] : r.pick(fs); double a = f == fs[0] ? 6378137.0 : 6.4e6;
    int kl = r.irange(0, 9), ka = r.irange(0, 9), ks = r.irange(0, 11);
    double lat1 = kl == 0 ? r.pick(std::vector<double>{90, -90, 0, -0.0}) : kl == 1 ? r.pick(std::vector<double>{90 - 1e-10, -90 + 1e-10, 1e-10, -1e-10, 45}) : r.range(-90, 90);
    double azi1 = ka == 0 ? r.pick(std::vector<double>{0, 90, -90, 180, -180}) : ka == 1 ? r.pick(std::vector<double>{1e-10, -1e-10, 180 - 1e-10, 90 + 1e-10, 89.999999999}) : r.range(-180, 180);
    double lon1 = r.irange(0, 6) ? r.range(-180, 180) : r.pick(std::vector<double>{180, -180, 0, 359, -540, 720});
    bool arc = r.coin(); double len;
    if (arc) len = ks == 0 ? 0 : ks == 1 ? r.pick(std::vector<double>{90, 180, 270, 360, -90, -180, 1e-9, 720}) : ks < 5 ? r.range(-3600, 3600) : r.range(-180, 180);
    else len = ks == 0 ? 0 : ks == 1 ? r.pick(std::vector<double>{1e-9, -1e-9, 1.0, 1e7, 2e7, 4e7}) : ks < 5 ? r.range(-4e8, 4e8) : r.range(-2e7, 2e7);
    run("gdirect", {hx(a), hx(f), hx(lat1), hx(lon1), hx(azi1), arc ? "1" : "0", hx(len)});
    stratum(std::string("direct-") + (std::fabs(f) <= 0.02 ? "series-range" : "exact-only") + (arc ? "-arc" : "-dist"));
    if (i < 3) sample(current_op());
    // the same case through the Lean model of the series solver (constants, LineInit, GenPosition)
    gline::model_case(r, a, f, lat1, lon1, azi1, arc, len, i % 16 == 0);
    if (i % 4 == 0) { double x = r.range(-4, 4); int nn = r.irange(0, 9); Args sa = {r.coin() ? "1" : "0", hx(std::sin(x)), hx(std::cos(x))}; for (int j = 0; j < nn; ++j) sa.push_back(hx(r.range(-1, 1) * std::pow(10.0, -j))); run("sincosseries", sa); }
  }
}
int main(int argc, char** argv) { return gv::main_(argc, argv); }
