// C19 oracles: independent of the library, long double.
//  * Leg: fully normalised / Schmidt semi-normalised associated Legendre functions by the standard forward
//    recurrences, with the non-singular derivative formula
//  * hsum: the defining double sum  V = sum_n sum_m q^(n+1) (C cos m lam + S sin m lam) P_nm(cos theta), its Cartesian
//    gradient (analytic) and the sums of absolute values of the terms (the scale of the documented accuracy)
//  * NormalOracle: Heiskanen & Moritz closed forms (Somigliana-Pizzetti normal field), oblate / sphere / prolate
#pragma once
#include <cmath>
#include <vector>
#include <functional>
#include <string>
#include <cstdint>
namespace c19 {
typedef long double LD;
const LD PI = 3.14159265358979323846264338327950288L;
const LD DEG = PI / 180;

struct Leg {
  int N; bool full; std::vector<LD> P, D;     // P[n*(N+2)+m], D = dP/dtheta
  LD& p(int n, int m) { return P[size_t(n) * (N + 2) + m]; }
  LD& d(int n, int m) { return D[size_t(n) * (N + 2) + m]; }
  // t = cos(theta), u = sin(theta) >= 0
  Leg(int N_, bool full_, LD t, LD u) : N(N_), full(full_), P(size_t(N_ + 2) * (N_ + 2), 0), D(size_t(N_ + 2) * (N_ + 2), 0) {
    // fully normalised first
    p(0, 0) = 1;
    for (int m = 1; m <= N; ++m) p(m, m) = u * sqrtl(m == 1 ? 3.0L : (2.0L * m + 1) / (2.0L * m)) * p(m - 1, m - 1);
    for (int m = 0; m <= N; ++m)
      for (int n = m + 1; n <= N; ++n) {
        LD nn = n, mm = m;
        LD a1 = sqrtl((4 * nn * nn - 1) / (nn * nn - mm * mm));
        LD b1 = n >= m + 2 ? sqrtl((2 * nn + 1) * (nn + mm - 1) * (nn - mm - 1) / ((nn - mm) * (nn + mm) * (2 * nn - 3))) : 0;
        p(n, m) = a1 * t * p(n - 1, m) - (n >= m + 2 ? b1 * p(n - 2, m) : 0);
      }
    // derivative wrt theta, non-singular form: dP_nm = 1/2 [ sqrt(k_m (n+m)(n-m+1)) P_{n,m-1} - sqrt((2-d_m0)/2 (n+m+1)(n-m)) P_{n,m+1} ]
    for (int n = 0; n <= N; ++n)
      for (int m = 0; m <= n; ++m) {
        LD nn = n, mm = m;
        LD up = m + 1 <= n ? p(n, m + 1) : 0;
        if (m == 0) d(n, 0) = -sqrtl(nn * (nn + 1) / 2) * up;
        else d(n, m) = (sqrtl((m == 1 ? 2 : 1) * (nn + mm) * (nn - mm + 1)) * p(n, m - 1) - sqrtl((nn + mm + 1) * (nn - mm)) * up) / 2;
      }
    if (!full)
      for (int n = 0; n <= N; ++n) { LD s = sqrtl(2.0L * n + 1); for (int m = 0; m <= n; ++m) { p(n, m) /= s; d(n, m) /= s; } }
  }
};

struct HSum { LD v, gx, gy, gz, mag, gmag, bound; };   // bound: sum of q^(n+1) (|C|+|S|) sup|P_nm| (anywhere on the sphere)

// cC(n, m), cS(n, m): effective coefficients (already truncated / combined); sums over n <= N, m <= min(n, M)
template<class FC, class FS>
HSum hsum(bool full, int N, int M, FC cC, FS cS, LD x, LD y, LD z, LD a) {
  HSum h = {0, 0, 0, 0, 0, 0, 0};
  if (N < 0 || M < 0) return h;
  LD p = hypotl(x, y), r = hypotl(p, z), t = z / r, u = p / r, q = a / r;
  LD lam = p > 0 ? atan2l(y, x) : 0;
  Leg L(N, full, t, u);
  // spherical derivatives: Vr = dV/dr, Vt = (1/r) dV/dtheta, Vl = (1/(r u)) dV/dlam
  LD bound = 0;
  auto sph = [&](LD lm, LD& V, LD& Vr, LD& Vt, LD& Vl, LD& mag, LD& gmag, bool axis) {
    V = Vr = Vt = Vl = mag = gmag = 0; bound = 0;
    LD qn = q;
    for (int n = 0; n <= N; ++n, qn *= q) {
      int mt = n < M ? n : M;
      for (int m = 0; m <= mt; ++m) {
        LD c = cC(n, m), s = m ? cS(n, m) : 0; if (c == 0 && s == 0) continue;
        LD cm = cosl(m * lm), sm = sinl(m * lm), P = L.p(n, m), dP = L.d(n, m);
        LD ang = c * cm + s * sm, dang = m * (s * cm - c * sm), absang = fabsl(c) + fabsl(s);
        V += qn * ang * P; mag += qn * absang * fabsl(P); bound += qn * absang * (full ? sqrtl(2.0L * n + 1) : 1);
        Vr += -(n + 1) * qn / r * ang * P;
        Vt += qn / r * ang * dP;
        LD Pu = axis ? 0 : P / u;
        Vl += qn / r * dang * Pu;
        gmag += qn / r * absang * ((n + 1) * fabsl(P) + fabsl(dP) + m * fabsl(Pu));
      }
    }
  };
  LD V, Vr, Vt, Vl, mag, gmag;
  if (p > 0) {
    sph(lam, V, Vr, Vt, Vl, mag, gmag, false);
    LD cl = x / p, sl = y / p;
    h.v = V; h.mag = mag; h.gmag = gmag; h.bound = bound;
    h.gx = cl * (u * Vr + t * Vt) - sl * Vl;
    h.gy = sl * (u * Vr + t * Vt) + cl * Vl;
    h.gz = t * Vr - u * Vt;
  } else {
    // on the polar axis: the horizontal gradient from the theta-derivative along the meridians lam = 0 and lam = 90
    LD V2, Vr2, Vt2, Vl2, mag2, gmag2;
    sph(0, V, Vr, Vt, Vl, mag, gmag, true);
    sph(PI / 2, V2, Vr2, Vt2, Vl2, mag2, gmag2, true);
    h.v = V; h.mag = mag; h.gmag = gmag + gmag2; h.bound = bound;
    h.gx = t * Vt; h.gy = t * Vt2; h.gz = t * Vr;
  }
  return h;
}

// ---- packed storage as documented: C[n, m] at index m*N - m(m-1)/2 + n (column major), S without the m = 0 column
inline long cidx(long N, long n, long m) { return m * N - m * (m - 1) / 2 + n; }
inline long csz(long N, long M) { return (M + 1) * (2 * N - M + 2) / 2; }
inline long ssz(long N, long M) { return csz(N, M) - (N + 1); }

struct CSet {       // one coefficient set with its layout degree and truncation
  int N, nmx, mmx; std::vector<double> C, S;
  LD c(int n, int m) const { return (n <= nmx && m <= mmx && m <= n) ? (LD)C[cidx(N, n, m)] : 0; }
  LD s(int n, int m) const { return (n <= nmx && m <= mmx && m <= n && m > 0) ? (LD)S[cidx(N, n, m) - (N + 1)] : 0; }
};

// ---- normal gravity (Heiskanen & Moritz 1967, sec. 2-7 .. 2-10, 6-2), any sign of f
struct NormalOracle {
  LD a, GM, om, f, b, e2, E2;     // E2 = a^2 - b^2 (signed)
  NormalOracle(LD a_, LD GM_, LD om_, LD f_) : a(a_), GM(GM_), om(om_), f(f_) { b = a * (1 - f); e2 = f * (2 - f); E2 = a * a * e2; }
  // A(x) = atan(sqrt x)/sqrt x  (x > 0), atanh(sqrt -x)/sqrt -x (x < 0)
  static LD A(LD x) {
    if (fabsl(x) < 0.1L) { LD s = 0, t = 1; for (int k = 0; k < 200; ++k) { s += t / (2 * k + 1); t *= -x; if (fabsl(t) < 1e-25L) break; } return s; }
    LD z = sqrtl(fabsl(x)); return x > 0 ? atanl(z) / z : atanhl(z) / z;
  }
  // Q(x) = q(z)/z^3, z^2 = x, q = 1/2[(1 + 3/z^2) atan z - 3/z]   (H+M 2-57 with z = E/u)
  static LD Q(LD x) {
    if (fabsl(x) < 0.25L) { LD s = 0, t = 1; for (int k = 1; k < 400; ++k) { s += 2.0L * k / ((2.0L * k + 1) * (2.0L * k + 3)) * t; t *= -x; if (fabsl(t) < 1e-26L) break; } return s; }
    return ((1 + 3 / x) * A(x) - 3 / x) / (2 * x);
  }
  // q'(z)/z^2 = H(x) = (3 (1 + 1/x)(1 - A(x)) - 1)/x      (H+M 2-67)
  static LD H(LD x) {
    if (fabsl(x) < 0.25L) {   // 1 - A = x/3 - x^2/5 + ... ; (3(1+1/x)(x/3 - x^2/5 + x^3/7 ...) - 1)/x
      // 3(1+1/x)(1-A) - 1 = 3(1-A) + 3(1-A)/x - 1, with (1-A)/x = 1/3 - x/5 + x^2/7 - ... =: B ; 3B - 1 = -3x/5 + 3x^2/7 ...
      LD s = 0, t = 1;  // B = sum_k (-x)^k/(2k+3)
      LD oneMinusA = 0; for (int k = 0; k < 400; ++k) { LD term = t / (2 * k + 3); oneMinusA += term; t *= -x; if (fabsl(t) < 1e-26L) break; }
      // oneMinusA here is B; 1-A = x B
      LD B = oneMinusA; (void)s;
      // (3 x B + 3 B - 1)/x = 3B + (3B - 1)/x ; (3B-1)/x = sum_{k>=1} 3(-1)^k x^(k-1)/(2k+3)
      LD c = 0; t = 1; for (int k = 1; k < 400; ++k) { c += -3.0L / (2 * k + 3) * t; t *= -x; if (fabsl(t) < 1e-26L) break; }
      return 3 * B + c;
    }
    return (3 * (1 + 1 / x) * (1 - A(x)) - 1) / x;
  }
  LD x0() const { return e2 / ((1 - f) * (1 - f)); }                       // (E/b)^2, signed
  LD U0() const { return GM / b * A(x0()) + om * om * a * a / 3; }   // H+M 2-61
  LD m() const { return om * om * a * a * b / GM; }
  // H+M 2-73, 2-74 with q0'/q0: e' q0'/q0 where q0' = 3(1 + 1/e'^2)(1 - atan(e')/e') - 1
  LD gammae() const { LD x = x0(); LD ratio = H(x) / Q(x); return GM / (a * b) * (1 - m() - m() / 6 * ratio); }
  LD gammap() const { LD x = x0(); LD ratio = H(x) / Q(x); return GM / (a * a) * (1 + m() / 3 * ratio); }
  LD surfaceGravity(LD sphi) const {   // Somigliana, H+M 2-76/2-78
    LD cphi2 = 1 - sphi * sphi; LD ge = gammae(), gp = gammap();
    return (a * ge * cphi2 + b * gp * sphi * sphi) / sqrtl(a * a * cphi2 + b * b * sphi * sphi);
  }
  LD J2sphere() const { return -m() / 3; }   // limit f -> 0 of H+M 2-90
  LD Jn(int n2) const {  // J_{2k}, H+M 2-92: J_2k = (-1)^(k+1) 3 e^(2k) / ((2k+1)(2k+3)) (1 - k + 5 k J2/e^2)
    int k = n2 / 2; LD j2 = J2any(); LD e2k = powl(-e2, k);
    if (e2 == 0) return k == 1 ? j2 : 0;
    return -3 * e2k * ((1 - k) + 5 * k * j2 / e2) / ((2.0L * k + 1) * (2.0L * k + 3));
  }
  // H+M 2-90: J2 = e^2/3 (1 - 2/15 m e'/q0), q0 = Q(e'^2) e'^3, e^2/e'^2 = (1-f)^2
  LD J2any() const { return (e2 - 2.0L / 15 * m() * (1 - f) * (1 - f) / Q(x0())) / 3; }
  // potential U = V0 + Phi at a Cartesian point
  LD U(LD X, LD Y, LD Z) const {
    LD p2 = X * X + Y * Y, r2 = p2 + Z * Z, phi = om * om * p2 / 2;
    if (E2 == 0) return GM / sqrtl(r2) + om * om * a * a / 2 * powl(a / sqrtl(r2), 3) * (Z * Z / r2 - 1.0L / 3) + phi;   // sphere: q/q0 = (a/r)^3
    // u^2 from  p^2/(u^2+E2) + Z^2/u^2 = 1
    LD Qd = r2 - E2, disc = sqrtl(Qd * Qd + 4 * E2 * Z * Z);
    LD u2 = (Qd + disc) / 2; if (Qd < 0 && E2 > 0) u2 = 2 * E2 * Z * Z / (disc - Qd);
    LD sb2;   // sin^2 beta = Z^2/u^2 (if u > 0) else 1 - p^2/E2
    if (u2 > 0) sb2 = Z * Z / u2; else sb2 = 1 - p2 / E2;
    if (sb2 > 1) sb2 = 1;
    LD x = E2 / u2;  // (E/u)^2 signed
    LD u = sqrtl(u2);
    LD qq = Q(x) / Q(x0()) * powl(b / u, 3);
    return GM / u * A(x) + om * om * a * a / 2 * qq * (sb2 - 1.0L / 3) + phi;
  }
};

}  // namespace c19
