// C10: text formatting and parsing of angles and positions (DMS, Utility::str/val, GeoCoords, GeoConvert/GeodSolve)
#include "common.hpp"
#include <iostream>
#include <string>
#include <sstream>
#include <fstream>
#include <iomanip>
#include <algorithm>
#include <GeographicLib/DMS.hpp>
#include <GeographicLib/Utility.hpp>
#include <GeographicLib/GeoCoords.hpp>
#include <GeographicLib/MGRS.hpp>
#include <GeographicLib/UTMUPS.hpp>
#include <GeographicLib/Geodesic.hpp>
#include <GeographicLib/GeodesicLine.hpp>
#include <GeographicLib/Math.hpp>

// The command-line tools are compiled from the *current* $GV_REPO/tools/*.cpp into this harness (same library
// build, same sanitizers); their `main`, helpers and `usage` live in a namespace each.  All headers they include
// are included above (include guards make the inner #includes no-ops).
namespace tool_geoconvert {
#include "../tools/GeoConvert.cpp"
}
namespace tool_geodsolve {
#include "../tools/GeodSolve.cpp"
}

using namespace GeographicLib; using namespace gv;
typedef long double LD;

// details are printed on one protocol line: keep them printable and free of the "::" field separator
static void badx(const std::string& rel, std::string det) {
  for (size_t i = 0; i + 1 < det.size(); ++i) if (det[i] == ':' && det[i + 1] == ':') det[i + 1] = '.';
  for (auto& c : det) if ((unsigned char)c < 32 || (unsigned char)c > 126) c = '?';
  gv::bad(rel, det);
}
static std::string fl2s(DMS::flag f) { return std::to_string(int(f)); }

// ---------------------------------------------------------------------------------------------------------
// independent field parser for encoder output (harness side, long double)
// ---------------------------------------------------------------------------------------------------------
struct Fields { bool ok = false; bool neg = false; char hemi = 0; std::string d, m, s; int n = 0; std::string why; };

static bool all_digits(const std::string& s) { if (s.empty()) return false; for (char c : s) if (c < '0' || c > '9') return false; return true; }
static bool dec_number(const std::string& s, size_t intdigits_exact, unsigned prec) {
  size_t p = s.find('.');
  std::string ip = s.substr(0, p), fp = p == std::string::npos ? "" : s.substr(p + 1);
  if (!all_digits(ip)) return false;
  if (intdigits_exact && ip.size() != intdigits_exact) return false;
  if (prec == 0) return p == std::string::npos;
  return p != std::string::npos && fp.size() == prec && all_digits(fp);
}

static Fields split_fields(std::string s, int trailing, unsigned prec, int ind, char sep) {
  Fields f;
  if (ind == DMS::LATITUDE || ind == DMS::LONGITUDE) {
    if (s.empty()) { f.why = "empty"; return f; }
    char h = s.back(); s.pop_back();
    if (!std::strchr(ind == DMS::LATITUDE ? "NS" : "EW", h)) { f.why = "hemisphere letter"; return f; }
    f.hemi = h; f.neg = (h == 'S' || h == 'W');
  } else if (ind == DMS::NONE && !s.empty() && s[0] == '-') { f.neg = true; s.erase(0, 1); }
  char c1 = sep ? sep : 'd', c2 = sep ? sep : '\'';
  if (trailing == 0) { f.d = s; f.n = 1; }
  else {
    size_t p = s.find(c1); if (p == std::string::npos) { f.why = "no degree separator"; return f; }
    f.d = s.substr(0, p); s = s.substr(p + 1);
    if (trailing == 1) {
      if (!sep) { if (s.empty() || s.back() != '\'') { f.why = "no minute mark"; return f; } s.pop_back(); }
      f.m = s; f.n = 2;
    } else {
      p = s.find(c2); if (p == std::string::npos) { f.why = "no minute separator"; return f; }
      f.m = s.substr(0, p); s = s.substr(p + 1);
      if (!sep) { if (s.empty() || s.back() != '"') { f.why = "no second mark"; return f; } s.pop_back(); }
      f.s = s; f.n = 3;
    }
  }
  // shapes: non-final fields are integers, minutes / seconds have exactly two integer digits, the final field has prec decimals
  bool shape = true;
  if (trailing == 0) shape = dec_number(f.d, 0, prec);
  else if (trailing == 1) shape = all_digits(f.d) && dec_number(f.m, 2, prec);
  else shape = all_digits(f.d) && all_digits(f.m) && f.m.size() == 2 && dec_number(f.s, 2, prec);
  if (!shape) { f.why = "field shape"; return f; }
  size_t w = ind == DMS::NONE ? 1 : (ind == DMS::LATITUDE ? 2 : 3);
  size_t di = f.d.find('.') == std::string::npos ? f.d.size() : f.d.find('.');
  if (di < w) { f.why = "degrees not zero-filled to the documented width"; return f; }
  if (di > w && f.d[0] == '0') { f.why = "superfluous leading zero in degrees"; return f; }
  f.ok = true; return f;
}

static LD ldval(const std::string& s) { return s.empty() ? 0.0L : std::strtold(s.c_str(), nullptr); }

static unsigned eff_prec(int trailing, unsigned prec) { return std::min(15u - 2u * unsigned(trailing), prec); }

// ---------------------------------------------------------------------------------------------------------
// ops
// ---------------------------------------------------------------------------------------------------------
static void op_enc(const Args& a) {
  double x = unhx(a[0]); int t = std::atoi(a[1].c_str()); unsigned p = unsigned(std::strtoul(a[2].c_str(), nullptr, 10));
  int ind = std::atoi(a[3].c_str()); char sep = char(std::atoi(a[4].c_str()));
  std::string s;
  std::string e = guarded([&] { s = DMS::Encode(x, DMS::component(t), p, DMS::flag(ind), sep); });
  if (!e.empty()) { emit(e); badx("encode-throws", "DMS::Encode threw " + e); return; }
  emit(hs(s));
  if (!(sep == 0 || sep == ':') || ind == DMS::NUMBER) return;
  // ---- closure: the parser accepts the string and returns the value
  DMS::flag f2 = DMS::NONE; double v = 0;
  e = guarded([&] { v = DMS::Decode(s, f2); });
  if (!e.empty()) { badx("encode-decode-closure", "Decode rejects the encoder output '" + s + "' (" + e + ")"); return; }
  if (!std::isfinite(x)) {
    if (!((std::isnan(x) && std::isnan(v)) || x == v)) badx("encode-decode-closure", "non-finite " + hx(x) + " -> '" + s + "' -> " + hx(v));
    return;
  }
  DMS::flag want = ind == DMS::LATITUDE ? DMS::LATITUDE : (ind == DMS::LONGITUDE ? DMS::LONGITUDE : DMS::NONE);
  if (f2 != want) badx("encode-decode-hemisphere", "'" + s + "' decodes with flag " + fl2s(f2) + ", expected " + fl2s(want));
  // number of decimals actually printed (the implementation may clamp the requested precision to what binary64 resolves:
  // at least min(prec, 15 - 2*trailing) decimals, never more than requested)
  unsigned pe = 0; { size_t dot = s.find('.'); if (dot != std::string::npos) { size_t q = dot + 1; while (q < s.size() && s[q] >= '0' && s[q] <= '9') ++q; pe = unsigned(q - dot - 1); } }
  if (pe > p || pe < eff_prec(t, p)) badx("encode-shape", "'" + s + "': " + std::to_string(pe) + " decimals printed for requested precision " + std::to_string(p));
  LD scale = t == 1 ? 60.0L : (t == 2 ? 3600.0L : 1.0L);
  LD unit = std::pow(10.0L, -LD(pe)) / scale;
  LD target = x;
  if (ind == DMS::AZIMUTH) { double r = std::remainder(x, 360.0); target = r; if (r < 0) target += 360.0L; }
  LD tol = 0.5L * unit * (1 + 1e-12L) + 4 * LD(ulp(double(std::fabs(target)))) ;
  LD dv = LD(v) - target;
  if (ind == DMS::AZIMUTH) dv = std::remainder(dv, 360.0L);
  if (!(std::fabs(dv) <= tol)) {
    // class F18: integer parts of more than 16 digits (|x| >= 2^53) are accumulated digit by digit in binary64 by the
    // decoder (one rounding per digit), so the round trip is off by up to one ulp per extra digit
    size_t nd = s.find_first_of(".d:"); if (nd == std::string::npos) nd = s.size();
    bool longint = std::fabs(target) >= 9007199254740992.0L && std::fabs(dv) <= LD(nd) * LD(ulp(double(std::fabs(target))));
    char buf[260]; std::snprintf(buf, sizeof buf, "x=%.17g '%.40s%s' decodes to %.17g: off by %.3Lg (%.1Lf ulp) > tol %.3Lg", x, s.c_str(), s.size() > 40 ? "..." : "", v, dv,
                                 dv / LD(ulp(double(std::fabs(target)))), tol);
    badx(longint ? "decode-long-integer-roundoff" : "encode-decode-roundtrip", buf);
  }
  if (ind != DMS::AZIMUTH && std::signbit(v) != std::signbit(x))
    badx("encode-decode-sign", "sign lost: x=" + hx(x) + " '" + s + "' -> " + hx(v));
  // ---- normalisation of the printed fields (independent parser)
  Fields f = split_fields(s, t, pe, ind, sep);
  if (!f.ok) { badx("encode-shape", "'" + s + "': " + f.why); return; }
  LD D = ldval(f.d), M = ldval(f.m), S = ldval(f.s);
  if (t >= 1 && !(M < 60)) badx("encode-normalised", "minutes field not below 60 in '" + s + "'");
  if (t >= 2 && !(S < 60)) badx("encode-normalised", "seconds field not below 60 in '" + s + "'");
  LD V = D + M / 60 + S / 3600;
  if (ind == DMS::AZIMUTH && !(V >= 0 && V <= 360)) badx("encode-azimuth-range", "azimuth '" + s + "' outside [0, 360]");
  LD sv = f.neg ? -V : V;
  LD dd = sv - target; if (ind == DMS::AZIMUTH) dd = std::remainder(dd, 360.0L);
  LD tol2 = 0.5L * unit * (1 + 1e-12L) + 2 * LD(ulp(double(std::fabs(target))));
  if (!(std::fabs(dd) <= tol2)) {
    char buf[200]; std::snprintf(buf, sizeof buf, "x=%.17g printed as '%s' = %.20Lg: off by %.3Lg > tol %.3Lg (carry?)", x, s.c_str(), sv, dd, tol2);
    badx("encode-fields-value", buf);
  }
  if ((ind == DMS::LATITUDE || ind == DMS::LONGITUDE || ind == DMS::NONE) && f.neg != std::signbit(x))
    badx("encode-hemisphere", "sign/hemisphere of '" + s + "' does not match x=" + hx(x));
}

static void op_encp(const Args& a) {
  double x = unhx(a[0]); unsigned p = unsigned(std::strtoul(a[1].c_str(), nullptr, 10)); int ind = std::atoi(a[2].c_str()); char sep = char(std::atoi(a[3].c_str()));
  std::string s; std::string e = guarded([&] { s = DMS::Encode(x, p, DMS::flag(ind), sep); });
  if (!e.empty()) { emit(e); badx("encode-throws", e); return; }
  emit(hs(s));
}

static std::string dec_res(const std::string& s, double& v, DMS::flag& f) {
  v = 0; f = DMS::NONE;
  std::string e = guarded([&] { v = DMS::Decode(s, f); });
  if (!e.empty() && e != "!E") badx("foreign-exception", "DMS::Decode threw " + e + " instead of GeographicErr");
  return e;
}

static void op_dec(const Args& a) {
  std::string s = unhs(a[0]); double v; DMS::flag f;
  std::string e = dec_res(s, v, f);
  if (!e.empty()) { emit(e); return; }
  emit(hx(v) + " " + fl2s(f));
}

// decform s expected flag scale : documented input form with its documented meaning (flag 9: must be rejected)
static void op_decform(const Args& a) {
  std::string s = unhs(a[0]); double want = unhx(a[1]); int wf = std::atoi(a[2].c_str()); double scale = unhx(a[3]);
  double v; DMS::flag f; std::string e = dec_res(s, v, f);
  if (!e.empty()) { emit(e); if (wf != 9) badx("documented-form-rejected", "'" + s + "' is a documented input form but was rejected"); return; }
  emit(hx(v) + " " + fl2s(f));
  if (wf == 9) { badx("malformed-accepted", "'" + s + "' is malformed but decodes to " + hx(v)); return; }
  if (int(f) != wf) badx("documented-form-flag", "'" + s + "' flag " + fl2s(f) + " expected " + std::to_string(wf));
  double tol = 4 * ulp(scale);
  if (!(std::fabs(v - want) <= tol)) {
    char buf[160]; std::snprintf(buf, sizeof buf, "decodes to %.17g, documented meaning %.17g", v, want);
    badx("documented-form-value", "'" + s + "' " + buf);
  }
}

static void op_decang(const Args& a) {
  std::string s = unhs(a[0]); double v = 0;
  std::string e = guarded([&] { v = DMS::DecodeAngle(s); });
  if (!e.empty()) { emit(e); if (e != "!E") badx("foreign-exception", e); return; }
  emit(hx(v));
}
static void op_decazi(const Args& a) {
  std::string s = unhs(a[0]); double v = 0;
  std::string e = guarded([&] { v = DMS::DecodeAzimuth(s); });
  if (!e.empty()) { emit(e); if (e != "!E") badx("foreign-exception", e); return; }
  emit(hx(v));
  if (!std::isnan(v) && !(v >= -180 && v <= 180)) badx("azimuth-range", "DecodeAzimuth('" + s + "') = " + hx(v) + " outside [-180, 180]");
}
static void op_declatlon(const Args& a) {
  std::string sa = unhs(a[0]), sb = unhs(a[1]); bool lf = a[2] == "1";
  double lat = 1234.5, lon = 1234.5;
  std::string e = guarded([&] { DMS::DecodeLatLon(sa, sb, lat, lon, lf); });
  if (!e.empty()) {
    emit(e); if (e != "!E") badx("foreign-exception", e);
    if (lat != 1234.5 || lon != 1234.5) badx("output-modified-on-throw", "DecodeLatLon threw but changed lat/lon");
    return;
  }
  emit(hx(lat) + " " + hx(lon));
  if (!std::isnan(lat) && !(std::fabs(lat) <= 90)) badx("latitude-range", "DecodeLatLon accepted latitude " + hx(lat));
  // either coordinate order when both carry hemisphere letters
  double va, vb; DMS::flag fa, fb;
  if (guarded([&] { va = DMS::Decode(sa, fa); vb = DMS::Decode(sb, fb); }).empty() && fa != DMS::NONE && fb != DMS::NONE) {
    double lat2 = 0, lon2 = 0;
    std::string e2 = guarded([&] { DMS::DecodeLatLon(sb, sa, lat2, lon2, lf); });
    if (!e2.empty() || bits(lat2) != bits(lat) || bits(lon2) != bits(lon)) badx("coordinate-order", "swapping two hemisphere-tagged coordinates changes the result");
  }
}

static void op_str(const Args& a) {
  double x = unhx(a[0]); int p = std::atoi(a[1].c_str());
  std::string s; std::string e = guarded([&] { s = Utility::str(x, p); });
  if (!e.empty()) { emit(e); badx("str-throws", e); return; }
  emit(hs(s));
}
static void op_strval(const Args& a) {
  double x = unhx(a[0]); int p = std::atoi(a[1].c_str());
  std::string s; double v = 0;
  std::string e = guarded([&] { s = Utility::str(x, p); v = Utility::val<double>(s); });
  if (!e.empty()) { emit(e); badx("str-val-closure", "Utility::val rejects Utility::str output '" + s + "' (" + e + ")"); return; }
  emit("ok");
  if (std::isnan(x)) { if (!std::isnan(v)) badx("str-val-roundtrip", "nan -> '" + s + "' -> " + hx(v)); return; }
  if (std::isinf(x)) { if (v != x) badx("str-val-roundtrip", "inf -> '" + s + "' -> " + hx(v)); return; }
  LD tol = 0.5L * std::pow(10.0L, -LD(p)) * (1 + 1e-12L) + 2 * LD(ulp(x));
  if (!(std::fabs(LD(v) - LD(x)) <= tol)) {
    char buf[160]; std::snprintf(buf, sizeof buf, "x=%.17g -> '%s' -> %.17g", x, s.c_str(), v);
    badx("str-val-roundtrip", buf);
  }
  if (v != 0 && std::signbit(v) != std::signbit(x)) badx("str-val-sign", "sign changed: " + hx(x) + " -> '" + s + "'");
}
static void op_val(const Args& a) {
  std::string s = unhs(a[0]); double v = 0;
  std::string e = guarded([&] { v = Utility::val<double>(s); });
  if (!e.empty()) { emit(e); if (e != "!E") badx("foreign-exception", e); return; }
  emit(hx(v));
}
static void op_fract(const Args& a) {
  std::string s = unhs(a[0]); double v = 0;
  std::string e = guarded([&] { v = Utility::fract<double>(s); });
  if (!e.empty()) { emit(e); if (e != "!E") badx("foreign-exception", e); return; }
  emit(hx(v));
}
static void op_nummatch(const Args& a) {
  std::string s = unhs(a[0]); double v = 0;
  std::string e = guarded([&] { v = Utility::nummatch<double>(s); });
  if (!e.empty()) { emit(e); badx("foreign-exception", e); return; }
  emit(hx(v));
}
static void op_lookup(const Args& a) {
  std::string t = unhs(a[0]); int c = std::atoi(a[1].c_str());
  int k = Utility::lookup(t.c_str(), char(c));
  emit(std::to_string(k));
  if (c == 0 && k >= 0) badx("lookup-nul", "Utility::lookup(\"" + t + "\", NUL) = " + std::to_string(k) + " (matches the terminator)");
  if (k >= 0 && (k >= int(t.size()) || std::toupper((unsigned char)c) != (unsigned char)t[k])) badx("lookup-index", "wrong index");
  // the std::string overload agrees (NUL is not in any table)
  if (Utility::lookup(std::string(t), char(c)) != k) badx("lookup-index", "lookup(std::string, char) differs from lookup(const char*, char) for byte " + std::to_string(c));
}

// ---- GeoCoords ---------------------------------------------------------------------------------------------
static void op_georep(const Args& a) {
  double lat = unhx(a[0]), lon = unhx(a[1]); int p = std::atoi(a[2].c_str()); bool lf = a[3] == "1";
  std::string s; std::string e = guarded([&] { GeoCoords g(lat, lon); s = g.GeoRepresentation(p, lf); });
  if (!e.empty()) { emit(e); return; }
  emit(hs(s));
}
static void op_dmsrep(const Args& a) {
  double lat = unhx(a[0]), lon = unhx(a[1]); int p = std::atoi(a[2].c_str()); bool lf = a[3] == "1"; char sep = char(std::atoi(a[4].c_str()));
  std::string s; std::string e = guarded([&] { GeoCoords g(lat, lon); s = g.DMSRepresentation(p, lf, sep); });
  if (!e.empty()) { emit(e); return; }
  emit(hs(s));
}
static void op_utmstr(const Args& a) {
  int z = std::atoi(a[0].c_str()); bool np = a[1] == "1"; double x = unhx(a[2]), y = unhx(a[3]); int p = std::atoi(a[4].c_str()); bool ab = a[5] == "1";
  std::string s; std::string e = guarded([&] { GeoCoords::UTMUPSString(z, np, x, y, p, ab, s); });
  if (!e.empty()) { emit(e); if (e != "!E") badx("foreign-exception", e); return; }
  emit(hs(s));
}
// geocoords lat lon prec longfirst : the four representations parsed back give the same position / zone / hemisphere
static void op_geocoords(const Args& a) {
  double lat = unhx(a[0]), lon = unhx(a[1]); int p = std::atoi(a[2].c_str()); bool lf = a[3] == "1";
  GeoCoords g;
  std::string e = guarded([&] { g.Reset(lat, lon); });
  if (!e.empty()) { emit(e); if (e != "!E") badx("foreign-exception", e); return; }
  emit("ok");
  char buf[300];
  double lonn = Math::AngNormalize(lon);
  // geographic
  {
    std::string s; GeoCoords h;
    std::string e2 = guarded([&] { s = g.GeoRepresentation(p, lf); h.Reset(s, true, lf); });
    int pe = std::max(0, std::min(9, p) + 5);
    double tol = 0.5 * std::pow(10.0, -pe) * (1 + 1e-9) + 4 * ulp(180.0);
    if (!e2.empty()) badx("geocoords-closure", "GeoRepresentation '" + s + "' not accepted by GeoCoords (" + e2 + ")");
    else if (!(std::fabs(h.Latitude() - lat) <= tol) || !(std::fabs(std::remainder(h.Longitude() - lonn, 360.0)) <= tol)) {
      std::snprintf(buf, sizeof buf, "'%s' parses to (%.17g, %.17g), position was (%.17g, %.17g)", s.c_str(), h.Latitude(), h.Longitude(), lat, lonn);
      badx("geocoords-geo-roundtrip", buf);
    }
  }
  // DMS (both separators)
  for (char sep : {char(0), ':'}) {
    std::string s; GeoCoords h;
    std::string e2 = guarded([&] { s = g.DMSRepresentation(p, lf, sep); h.Reset(s, true, lf); });
    int pe = std::max(0, std::min(10, p) + 5);
    // prec digits: <2 degrees, <4 minutes, else seconds
    double unit = pe < 2 ? std::pow(10.0, -pe) : (pe < 4 ? std::pow(10.0, -(pe - 2)) / 60 : std::pow(10.0, -(pe - 4)) / 3600);
    double tol = 0.5 * unit * (1 + 1e-9) + 4 * ulp(180.0);
    if (!e2.empty()) badx("geocoords-closure", "DMSRepresentation '" + s + "' not accepted by GeoCoords (" + e2 + ")");
    else if (!(std::fabs(h.Latitude() - lat) <= tol) || !(std::fabs(std::remainder(h.Longitude() - lonn, 360.0)) <= tol)) {
      std::snprintf(buf, sizeof buf, "'%s' parses to (%.17g, %.17g), position was (%.17g, %.17g)", s.c_str(), h.Latitude(), h.Longitude(), lat, lonn);
      badx("geocoords-dms-roundtrip", buf);
    }
    // hemisphere letters allow either order
    size_t sp = s.find(' ');
    if (e2.empty() && sp != std::string::npos) {
      GeoCoords k; std::string sw = s.substr(sp + 1) + " " + s.substr(0, sp);
      std::string e3 = guarded([&] { k.Reset(sw, true, lf); });
      if (!e3.empty() || bits(k.Latitude()) != bits(h.Latitude()) || bits(k.Longitude()) != bits(h.Longitude()))
        badx("coordinate-order", "'" + sw + "' (swapped) does not give the same position as '" + s + "'");
    }
  }
  // UTM/UPS
  for (int ab = 0; ab < 2; ++ab) {
    std::string s; GeoCoords h;
    std::string e2 = guarded([&] { s = g.UTMUPSRepresentation(p, ab != 0); h.Reset(s, true, lf); });
    int pe = std::max(-5, std::min(9, p));
    double tol = 0.5 * std::pow(10.0, -pe) * (1 + 1e-9) + 4 * ulp(1e7);
    if (!e2.empty()) badx("geocoords-closure", "UTMUPSRepresentation '" + s + "' not accepted by GeoCoords (" + e2 + ")");
    else {
      if (h.Zone() != g.Zone()) badx("geocoords-utm-zone", "'" + s + "' parses to zone " + std::to_string(h.Zone()) + ", was " + std::to_string(g.Zone()));
      // the hemisphere may legitimately flip only if the parsed position is on the equator side of the rounding
      bool hem_ok = h.Northp() == g.Northp() || std::fabs(h.Latitude()) * 111e3 <= tol * 2;
      if (!hem_ok) badx("geocoords-utm-hemisphere", "'" + s + "' parses to the other hemisphere");
      double dn = h.Northing() - g.Northing();
      if (h.Northp() != g.Northp()) dn += (h.Northp() ? -1 : 1) * 1e7;
      if (!(std::fabs(h.Easting() - g.Easting()) <= tol) || !(std::fabs(dn) <= tol)) {
        std::snprintf(buf, sizeof buf, "'%s' parses to (%.17g, %.17g), was (%.17g, %.17g)", s.c_str(), h.Easting(), h.Northing(), g.Easting(), g.Northing());
        badx("geocoords-utm-roundtrip", buf);
      }
    }
    // "easting northing zone" order is documented as well
    if (e2.empty()) {
      std::istringstream is(s); std::string z, x, y; is >> z >> x >> y;
      GeoCoords k; std::string sw = x + " " + y + " " + z;
      std::string e3 = guarded([&] { k.Reset(sw, true, lf); });
      if (!e3.empty() || k.Zone() != h.Zone() || k.Northp() != h.Northp() || bits(k.Easting()) != bits(h.Easting()) || bits(k.Northing()) != bits(h.Northing()))
        badx("coordinate-order", "'" + sw + "' (zone last) does not give the same position as '" + s + "'");
    }
  }
  // MGRS
  {
    std::string s; GeoCoords h;
    std::string e1 = guarded([&] { s = g.MGRSRepresentation(p); });
    if (e1.empty() && !s.empty() && s != "INVALID") {
      std::string e2 = guarded([&] { h.Reset(s, true, lf); });
      int pe = std::max(-1, std::min(6, p) + 5);
      if (!e2.empty()) badx("geocoords-closure", "MGRSRepresentation '" + s + "' not accepted by GeoCoords (" + e2 + ")");
      else if (pe >= 0) {
        double sq = std::pow(10.0, 5 - pe), tol = 0.5 * sq * (1 + 1e-9) + 1e-6;
        if (h.Zone() != g.Zone()) badx("geocoords-mgrs-zone", "'" + s + "' parses to zone " + std::to_string(h.Zone()) + ", was " + std::to_string(g.Zone()));
        if (h.Northp() != g.Northp() && !(std::fabs(g.Latitude()) * 111e3 <= sq)) badx("geocoords-mgrs-hemisphere", "'" + s + "' parses to the other hemisphere");
        double dn = h.Northing() - g.Northing();
        if (h.Northp() != g.Northp()) dn += (h.Northp() ? -1 : 1) * 1e7;
        if (!(std::fabs(h.Easting() - g.Easting()) <= tol) || !(std::fabs(dn) <= tol)) {
          std::snprintf(buf, sizeof buf, "'%s' parses to (%.17g, %.17g), was (%.17g, %.17g)", s.c_str(), h.Easting(), h.Northing(), g.Easting(), g.Northing());
          badx("geocoords-mgrs-roundtrip", buf);
        }
      }
    } else if (!e1.empty() && e1 != "!E") badx("foreign-exception", e1);
  }
}

// ---- command-line tools --------------------------------------------------------------------------------------
static const std::vector<std::vector<const char*>> gc_variants = {
  {}, {"-d"}, {"-:"}, {"-u"}, {"-m"}, {"-c"}, {"-g", "-p", "3"}, {"-d", "-p", "-2"}, {"-u", "-p", "2", "-l"}, {"-m", "-p", "-3"}, {"-w"}, {"-w", "-:", "-p", "1"},
  {"-n", "-m"}, {"-s", "-u"}, {"-t", "-u"}, {"-z", "31n", "-u"}, {"-S", "-m"}, {"--comment-delimiter", "#"}};
static const std::vector<std::vector<const char*>> gs_variants = {
  {}, {"-i"}, {"-a"}, {"-i", "-f"}, {"-d"}, {"-:", "-f"}, {"-w"}, {"-i", "-w", "-p", "5"}, {"-L", "40", "-75", "30"}, {"-L", "40", "-75", "30", "-a"},
  {"-E"}, {"-i", "-E"}, {"-u", "-f"}, {"-b", "-i"}, {"-D", "40", "-75", "30", "1e6", "-F"}, {"-I", "40", "-75", "50", "10"}, {"--comment-delimiter", "#"}, {"-p", "-1"}};

static int run_tool(const std::string& name, int variant, const std::string& input, std::string& output) {
  std::vector<const char*> argv; argv.push_back(name.c_str());
  const auto& vs = name == "geoconvert" ? gc_variants : gs_variants;
  for (const char* s : vs[size_t(variant) % vs.size()]) argv.push_back(s);
  std::istringstream in(input); std::ostringstream out, err;
  std::streambuf *oi = std::cin.rdbuf(in.rdbuf()), *oo = std::cout.rdbuf(out.rdbuf()), *oe = std::cerr.rdbuf(err.rdbuf());
  std::cin.clear();
  int rc = -99; std::string ex;
  try {
    rc = name == "geoconvert" ? tool_geoconvert::main(int(argv.size()), argv.data()) : tool_geodsolve::main(int(argv.size()), argv.data());
  } catch (const std::exception& e) { ex = typeid(e).name(); } catch (...) { ex = "unknown"; }
  std::cin.rdbuf(oi); std::cout.rdbuf(oo); std::cerr.rdbuf(oe); std::cin.clear(); std::cout.clear(); std::cerr.clear();
  output = out.str();
  if (!ex.empty()) { badx("tool-exception-escapes", name + ": exception " + ex + " escaped main"); return -98; }
  return rc;
}
static std::vector<std::string> split_lines(const std::string& s) {
  std::vector<std::string> v; std::istringstream is(s); std::string l;
  while (std::getline(is, l)) v.push_back(l);
  return v;
}
// tool <name> <variant> s:<input> s:<tags> ; tags: one char per input line, '1' must be accepted, '0' must give ERROR, '?' either
static void op_tool(const Args& a) {
  std::string name = a[0]; int variant = std::atoi(a[1].c_str()); std::string input = unhs(a[2]), tags = unhs(a[3]);
  std::string output; int rc = run_tool(name, variant, input, output);
  auto in = split_lines(input), out = split_lines(output);
  bool endnl = output.empty() || output.back() == '\n';
  int nerr = 0; for (auto& l : out) if (l.compare(0, 5, "ERROR") == 0) ++nerr;
  emit(std::to_string(in.size()) + " " + std::to_string(out.size()) + " " + std::to_string(nerr) + " " + std::to_string(rc));
  if (rc < -90) return;
  if (in.size() != out.size() || !endnl) { badx("tool-line-count", name + ": " + std::to_string(in.size()) + " input lines, " + std::to_string(out.size()) + " output lines"); return; }
  if ((nerr > 0) != (rc != 0)) badx("tool-exit-status", name + ": " + std::to_string(nerr) + " ERROR lines, exit status " + std::to_string(rc));
  for (size_t i = 0; i < in.size() && i < tags.size(); ++i) {
    bool iserr = out[i].compare(0, 5, "ERROR") == 0;
    if (tags[i] == '1' && iserr) badx("tool-valid-line-rejected", name + ": valid line '" + in[i] + "' -> '" + out[i] + "'");
    if (tags[i] == '0' && !iserr) badx("tool-bad-line-not-marked", name + ": malformed line " + hs(in[i]) + " -> '" + out[i] + "'");
  }
  // closure at tool level: GeoConvert's own output lines are valid GeoConvert input (same position up to the printed precision)
  if (name == "geoconvert" && nerr < int(out.size())) {
    const auto& v = gc_variants[size_t(variant) % gc_variants.size()];
    bool conv = false, cmt = false, wflag = false; for (const char* s : v) { conv |= !std::strcmp(s, "-c"); cmt |= !std::strcmp(s, "--comment-delimiter"); wflag |= !std::strcmp(s, "-w"); }
    if (!conv && !cmt) {
      std::string in2; size_t n2 = 0;
      for (auto& l : out) if (l.compare(0, 5, "ERROR") != 0 && !l.empty()) { in2 += l + "\n"; ++n2; }
      std::string out2; int rc2 = run_tool(name, wflag ? 10 : 0, in2, out2);
      auto o2 = split_lines(out2);
      if (rc2 != 0 || o2.size() != n2) {
        std::string w; for (auto& l : o2) if (l.compare(0, 5, "ERROR") == 0) { w = l; break; }
        badx("tool-output-reparse", name + ": an output line is not accepted as input (" + w + ")");
      }
    }
  }
}

static Reg r1("enc", op_enc), r2("encp", op_encp), r3("dec", op_dec), r4("decform", op_decform), r5("decang", op_decang), r6("decazi", op_decazi),
  r7("declatlon", op_declatlon), r8("str", op_str), r9("strval", op_strval), r10("val", op_val), r11("fract", op_fract), r12("nummatch", op_nummatch),
  r13("lookup", op_lookup), r14("georep", op_georep), r15("dmsrep", op_dmsrep), r16("utmstr", op_utmstr), r17("geocoords", op_geocoords), r18("tool", op_tool);

// ---------------------------------------------------------------------------------------------------------
// generators
// ---------------------------------------------------------------------------------------------------------
static const std::vector<std::string> SYM_D = {"d", "D", "\xc2\xb0", "\xc2\xba", "\xe2\x81\xb0", "\xcb\x9a", "\xe2\x88\x98", "*", "\xb0", "\xba"};
static const std::vector<std::string> SYM_M = {"'", "`", "\xe2\x80\xb2", "\xe2\x80\xb5", "\xc2\xb4", "\xe2\x80\x98", "\xe2\x80\x99", "\xe2\x80\x9b", "\xca\xb9", "\xcb\x8a", "\xcb\x8b", "\xb4"};
static const std::vector<std::string> SYM_S = {"\"", "\xe2\x80\xb3", "\xe2\x80\xb6", "\xcb\x9d", "\xe2\x80\x9c", "\xe2\x80\x9d", "\xe2\x80\x9f", "\xca\xba"};
static const std::vector<std::string> SYM_PLUS = {"+", "\xe2\x9e\x95", "\xe2\x81\xa4"};
static const std::vector<std::string> SYM_MINUS = {"-", "\xe2\x80\x90", "\xe2\x80\x91", "\xe2\x80\x93", "\xe2\x80\x94", "\xe2\x88\x92", "\xe2\x9e\x96"};
static const std::vector<std::string> SYM_SPACE = {"\xc2\xa0", "\xe2\x80\x87", "\xe2\x80\x89", "\xe2\x80\x8a", "\xe2\x80\x8b", "\xe2\x80\xaf", "\xe2\x81\xa3", "\xa0"};

static std::string digits_of(Rng& r, int n) { std::string s; for (int i = 0; i < n; ++i) s += char('0' + r.irange(0, 9)); return s; }

struct Piece { std::string text; LD value; int flag; };   // flag 0 none, 1 lat, 2 lon

// one well-formed DMS piece (no internal signs) in a random documented spelling, with its documented meaning
static Piece gen_piece(Rng& r, bool first, int forceflag /* -1 free */) {
  // which components are present
  int mask = r.irange(1, 7);                        // bit0 d, bit1 m, bit2 s
  bool colon = r.irange(0, 3) == 0;
  if (colon) { int n = r.irange(1, 3); mask = n == 1 ? 1 : (n == 2 ? 3 : 7); }
  int last = mask & 4 ? 2 : (mask & 2 ? 1 : 0);
  std::string num[3]; LD val[3] = {0, 0, 0};
  for (int k = 0; k < 3; ++k) {
    if (!(mask >> k & 1)) continue;
    std::string ip;
    if (k == 0) { int c = r.irange(0, 9); ip = c == 0 ? digits_of(r, r.irange(4, 15)) : std::to_string(r.irange(0, c < 5 ? 90 : 720)); }
    else ip = std::to_string(r.irange(0, 59));
    if (r.irange(0, 3) == 0) ip = std::string(size_t(r.irange(1, 3)), '0') + ip;      // leading zeros
    if (k == last && r.coin()) {
      std::string fp = digits_of(r, r.irange(0, r.irange(0, 3) == 0 ? 30 : 9));
      if (r.irange(0, 9) == 0 && !fp.empty()) ip.clear();                               // ".5"
      ip += "." + fp;
      if (ip == ".") ip = "0.";
    }
    num[k] = ip; val[k] = std::strtold(ip.c_str(), nullptr);
  }
  std::string body; auto sp = [&]() { if (r.irange(0, 5) == 0) body += r.pick(SYM_SPACE); };
  if (colon) {
    for (int k = 0; k <= last; ++k) { if (k) body += ":"; sp(); body += num[k]; sp(); }
  } else {
    bool two_min_marks = false;
    for (int k = 0; k < 3; ++k) {
      if (!(mask >> k & 1)) continue;
      sp(); body += num[k]; sp();
      bool omit = false;
      if (k == last && r.irange(0, 3) == 0) {
        // the last indicator may be omitted if the component is the successor of the previous present one (or lone degrees)
        int prev = -1; for (int j = 0; j < k; ++j) if (mask >> j & 1) prev = j;
        omit = (k == prev + 1);
      }
      if (!omit) {
        if (k == 0) body += r.pick(SYM_D);
        else if (k == 1) body += r.pick(SYM_M);
        else if (r.irange(0, 3) == 0) { body += r.pick(SYM_M); body += r.pick(SYM_M); two_min_marks = true; }
        else body += r.pick(SYM_S);
      }
    }
    (void)two_min_marks;
  }
  LD v = val[0] + val[1] / 60 + val[2] / 3600;
  // sign and hemisphere
  Piece p; p.flag = 0;
  bool neg = false; std::string sgn;
  int sk = first ? r.irange(0, 2) : r.irange(1, 2);
  if (sk == 1) sgn = r.pick(SYM_PLUS); else if (sk == 2) { sgn = r.pick(SYM_MINUS); neg = true; }
  int hk = forceflag >= 0 ? (forceflag == 0 ? 0 : r.irange(1, 2)) : r.irange(0, 2);   // 0 none, 1 prefix (first piece only), 2 suffix
  if (hk == 1 && !first) hk = 2;
  std::string hl;
  if (hk) {
    int fl = forceflag > 0 ? forceflag : r.irange(1, 2);
    const char* L = fl == 1 ? "NSns" : "EWew"; int i = r.irange(0, 3); hl = std::string(1, L[i]);
    if (i & 1) neg = !neg; p.flag = fl;
  }
  p.text = (hk == 1 ? hl : "") + sgn + body + (hk == 2 ? hl : "");
  p.value = neg ? -v : v;
  return p;
}

static void gen_decform(Rng& r) {
  int n = r.irange(0, 3) == 0 ? r.irange(2, 4) : 1;
  std::string s; LD sum = 0, scale = 0; int flag = 0;
  double acc = -0.0;
  for (int i = 0; i < n; ++i) {
    Piece p = gen_piece(r, i == 0, flag ? (r.coin() ? flag : 0) : -1);
    s += p.text; sum += p.value; scale += std::fabs(p.value); if (p.flag) flag = p.flag;
    acc += double(p.value);
  }
  if (r.irange(0, 4) == 0) s = std::string(size_t(r.irange(1, 2)), " \t\n"[r.irange(0, 2)]) + s;
  if (r.irange(0, 4) == 0) s += std::string(size_t(r.irange(1, 2)), " \t\r"[r.irange(0, 2)]);
  stratum(n == 1 ? "decode/documented-form" : "decode/sum-of-signed-pieces");
  run("decform", {hs(s), hx(double(sum)), std::to_string(flag), hx(double(std::max(scale, LD(1e-300))))});
}

static const std::vector<std::string> MALFORMED = {
  "4d5\"4'", "4::5", "4:5:", ":4:5", "4d4.5'4\"", "-N20.5", "1.8e2d", "4:60", "4:59:60", "70:01:15W+0:0:15N", "W70:01:15+W0:0:15", "7.0E1",
  "", " ", "N", "-", "+", "--20", "+-3", "20-", "N20S", "N20N", "E20W", "20NE", "d", "'", "\"", ":", "1:2:3:4", "1:2:3:4:5", "1d2'3\":4", "1d2'3\"4", "4d5d", "4'5'", "4\"5\"",
  "4'5d", "4\"5'", "4d60'", "4d0'60\"", "4d61", "4d5'61", "1..2", "1.2.3", ".", "d5", "4d'", "4d5'\"", "12x", "0x10", "1e5", "4 5", "4d 5 x", "4,5", "nand", "infx", "1.#INFx",
  "12\xc2", "\xe2\x80", "4\xe2\x80\xb2\xe2\x80\xb2\xe2\x80\xb2" "5", "1d2.5'3\"", "4.5d3'", "4.5:3", "S-N3", "3N-", "1+", "1+N2"};
struct LegalClass { double value; std::vector<std::string> forms; };
// the LEGAL lines of DMS.hpp (all entries of a line are documented as equivalent) with the value they denote
static const std::vector<LegalClass> LEGAL_CLASSES = {
  {-20.51125, {"-20.51125", "20d30'40.5\"S", "-20\xc2\xb0" "30'40.5", "-20d30.675", "N-20d30'40.5\"", "-20:30:40.5"}},
  {4.0025, {"4d0'9", "4d9\"", "4d9''", "4:0:9", "004:00:09", "4.0025", "4.0025d", "4d0.15", "04:.15"}},
  {5, {"4:59.99999999999999", "4:60.0", "4:59:59.9999999999999", "4:59:60.0", "5"}},
  {-70.0125, {"-070:00:45", "70:01:15W+0:0.5", "70:01:15W-0:0:30W", "W70:01:15+0:0:30E"}},
  {8, {"7.0E+1", "8.0E"}}, {-1.4, {"S3-2.5+4.1N", "-1.4N"}}, {33 + 10 / 60.0, {"33d10", "33d10'"}}, {5.5 / 60, {"5.5'", "0:5.5"}},
  {50 + 30 / 60.0 + 10.3 / 3600, {"50d30'10.3\"", "50:30:10.3"}}};

static std::string mutate(Rng& r, std::string s) {
  static const std::string nasty = std::string("\0\0 \t-+.:d'\"DNSEWnsew0159eExX*`#/,", 34) + "\xc2\xb0\xe2\x80\xb2\xb3\x98\xa0\xff\x80\x81";
  int n = r.irange(1, 3);
  for (int i = 0; i < n; ++i) {
    int k = r.irange(0, 5); size_t pos = s.empty() ? 0 : size_t(r.irange(0, int(s.size())));
    char c = r.irange(0, 3) == 0 ? char(r.irange(0, 255)) : nasty[size_t(r.irange(0, int(nasty.size()) - 1))];
    if (k == 0 || s.empty()) s.insert(std::min(pos, s.size()), 1, c);
    else if (k == 1) s.erase(std::min(pos, s.size() - 1), 1);
    else if (k == 2) s[std::min(pos, s.size() - 1)] = c;
    else if (k == 3) { size_t a = std::min(pos, s.size() - 1); s.insert(a, s.substr(a, size_t(r.irange(1, 4)))); }     // duplicate a chunk
    else if (k == 4) { size_t a = std::min(pos, s.size() - 1); std::swap(s[a], s[size_t(r.irange(0, int(s.size()) - 1))]); }
    else s = s.substr(0, std::min(pos, s.size()));
  }
  return s;
}
static std::string random_bytes(Rng& r) {
  static const std::string alpha = std::string("0123456789.:d'\"-+NSEW nsew\0\t*`", 31) + "\xc2\xb0\xe2\x80\xb2\xb3\x81\xa4";
  int n = r.irange(0, 12); std::string s;
  for (int i = 0; i < n; ++i) s += r.irange(0, 7) == 0 ? char(r.irange(0, 255)) : alpha[size_t(r.irange(0, int(alpha.size()) - 1))];
  return s;
}

// angles for the encoder: all doubles strata + values that make the rounding carry
static double enc_angle(Rng& r, int t, unsigned p, std::string& st) {
  unsigned pe = eff_prec(t, p);
  double scale = t == 1 ? 60 : (t == 2 ? 3600 : 1);
  double unit = std::pow(10.0, -double(pe)) / scale;
  int k = r.irange(0, 13);
  switch (k) {
  case 0: st = "nasty-angle"; return nasty_angle(r);
  case 1: { st = "carry-into-degrees"; static const double us[] = {0.01, 0.3, 0.4999, 0.5, 0.5001, 0.7, 1.0, 1.5}; double D = r.irange(0, 720) - 360;
            double x = D + 1 - us[r.irange(0, 7)] * unit; if (r.irange(0, 3) == 0) x = nextup(x, r.irange(-2, 2)); return x; }
  case 2: { st = "carry-into-minutes"; static const double us[] = {0.01, 0.4999, 0.5, 0.5001, 1.0}; double D = r.irange(0, 359), M = r.irange(0, 59);
            double x = D + (M + 1) / 60 - us[r.irange(0, 4)] * unit; return r.coin() ? x : -x; }
  case 3: { st = "tiny-negative-azimuth"; static const double us[] = {1e-9, 0.1, 0.4999, 0.5, 0.5001, 0.9, 2}; double x = -us[r.irange(0, 6)] * unit; return r.coin() ? x : 360 * r.irange(-3, 3) + x; }
  case 4: { st = "zeros-and-subnormals"; static const double z[] = {0.0, -0.0, 5e-324, -5e-324, 1e-310, 2.2250738585072014e-308, 1e-300, -1e-300}; return z[r.irange(0, 7)]; }
  case 5: { st = "huge"; static const double z[] = {1e15, 1e16, 9007199254740992.0, 1e17, 1e22, 1e23, 1e100, 1.7976931348623157e308, 4503599627370496.5, 123456789012345.67}; double x = z[r.irange(0, 9)]; return r.coin() ? x : -x; }
  case 6: { st = "non-finite"; static const double z[] = {INFINITY, -INFINITY, NAN}; return z[r.irange(0, 2)]; }
  case 7: { st = "binary-tie"; int j = r.irange(1, 12); double x = (r.irange(0, 1 << 12) * 2 + 1) * std::ldexp(1.0, -j) / scale + (t ? r.irange(0, 90) : 0); return r.coin() ? x : -x; }
  case 8: { st = "short-decimal"; int j = r.irange(0, 6); double x = r.irange(-3600000, 3600000) / std::pow(10.0, j); return x; }
  case 9: { st = "multiple-of-unit"; double x = r.irange(-2000000, 2000000) * unit * (r.coin() ? 1 : 0.5); return x; }
  case 10: { st = "latitude-range"; return r.range(-90, 90); }
  case 11: { st = "around-180-360"; static const double z[] = {180, -180, 360, -360, 540, 720, 179.99999999999997, 359.99999999999994, 90, -90}; double x = z[r.irange(0, 9)]; return nextup(x, r.irange(-2, 2)) - (r.irange(0, 2) ? 0 : 0.5 * unit); }
  case 12: { st = "uniform-longitude"; return r.range(-720, 720); }
  default: { st = "d-m-s-exact"; double x = r.irange(0, 359) + r.irange(0, 59) / 60.0 + r.irange(0, 59) / 3600.0; return r.coin() ? x : -x; }
  }
}

static std::string valid_geo_line(Rng& r, bool lonfirst) {
  char buf[200]; double lat = r.range(-89, 89), lon = r.range(-180, 180);
  auto A = [&](double la, double lo) { return lonfirst ? lo : la; }; auto B = [&](double la, double lo) { return lonfirst ? la : lo; };
  switch (r.irange(0, 7)) {
  case 0: std::snprintf(buf, sizeof buf, "%.6f %.6f", A(lat, lon), B(lat, lon)); break;
  case 1: std::snprintf(buf, sizeof buf, "%s %s", DMS::Encode(lat, DMS::SECOND, 2, DMS::LATITUDE).c_str(), DMS::Encode(lon, DMS::SECOND, 2, DMS::LONGITUDE).c_str()); break;
  case 2: std::snprintf(buf, sizeof buf, "%s,%s", DMS::Encode(lon, DMS::MINUTE, 3, DMS::LONGITUDE, ':').c_str(), DMS::Encode(lat, DMS::MINUTE, 3, DMS::LATITUDE, ':').c_str()); break;
  case 3: { GeoCoords g(lat, lon); std::snprintf(buf, sizeof buf, "%s", g.UTMUPSRepresentation(r.irange(-2, 3)).c_str()); break; }
  case 4: { GeoCoords g(r.range(-79, 83), lon); std::snprintf(buf, sizeof buf, "%s", g.MGRSRepresentation(r.irange(-4, 2)).c_str()); break; }
  case 5: std::snprintf(buf, sizeof buf, "  %d:%d:%d%c\t%d:%d%c ", r.irange(0, 89), r.irange(0, 59), r.irange(0, 59), "NS"[r.irange(0, 1)], r.irange(0, 179), r.irange(0, 59), "EW"[r.irange(0, 1)]); break;
  case 6: std::snprintf(buf, sizeof buf, "%dd%d'%c %dd%d'%d\"%c", r.irange(0, 89), r.irange(0, 59), "ns"[r.irange(0, 1)], r.irange(0, 179), r.irange(0, 59), r.irange(0, 59), "ew"[r.irange(0, 1)]); break;
  default: { double la = r.coin() ? 90.0 : -90.0 + r.irange(0, 1); std::snprintf(buf, sizeof buf, "%.3f %.3f", A(la, lon), B(la, lon)); break; }
  }
  return buf;
}
static std::string valid_geod_line(Rng& r, bool inverse, bool linemode, bool arcmode, bool lonfirst) {
  char buf[200]; double lat = r.range(-89, 89), lon = r.range(-180, 180);
  auto A = [&](double la, double lo) { return lonfirst ? lo : la; }; auto B = [&](double la, double lo) { return lonfirst ? la : lo; };
  if (linemode) { if (arcmode && r.coin()) std::snprintf(buf, sizeof buf, "%dd%d'", r.irange(0, 170), r.irange(0, 59)); else std::snprintf(buf, sizeof buf, "%.3f", r.range(-1e7, 1e7) * (arcmode ? 1e-5 : 1)); return buf; }
  if (inverse) {
    switch (r.irange(0, 2)) {
    case 0: { double la2 = r.range(-89, 89), lo2 = r.range(-180, 180); std::snprintf(buf, sizeof buf, "%.5f %.5f %.5f %.5f", A(lat, lon), B(lat, lon), A(la2, lo2), B(la2, lo2)); break; }
    case 1: { double la2 = r.range(-89, 89), lo2 = r.range(-180, 180); std::snprintf(buf, sizeof buf, "%s %s %.4f %.4f", DMS::Encode(lat, DMS::SECOND, 1, DMS::LATITUDE).c_str(), DMS::Encode(lon, DMS::SECOND, 1, DMS::LONGITUDE).c_str(), A(la2, lo2), B(la2, lo2)); break; }
    default: std::snprintf(buf, sizeof buf, "%dE %dN %d:%dW %d:%d:%dS", r.irange(0, 179), r.irange(0, 89), r.irange(0, 179), r.irange(0, 59), r.irange(0, 89), r.irange(0, 59), r.irange(0, 59)); break;
    }
  } else {
    const char* dist = arcmode ? "%.4f" : "%.2f"; char d[40]; std::snprintf(d, sizeof d, dist, arcmode ? r.range(0, 179) : r.range(0, 19e6));
    if (arcmode && r.coin()) std::snprintf(d, sizeof d, "%d:%d:%d", r.irange(0, 170), r.irange(0, 59), r.irange(0, 59));
    switch (r.irange(0, 1)) {
    case 0: std::snprintf(buf, sizeof buf, "%.5f %.5f %.3f %s", A(lat, lon), B(lat, lon), r.range(-180, 180), d); break;
    default: std::snprintf(buf, sizeof buf, "%s %s %s %s", DMS::Encode(lat, DMS::MINUTE, 2, DMS::LATITUDE).c_str(), DMS::Encode(lon, DMS::MINUTE, 2, DMS::LONGITUDE).c_str(),
                           DMS::Encode(r.range(-180, 180), DMS::SECOND, 0, DMS::AZIMUTH, ':').c_str(), d); break;
    }
  }
  return buf;
}
static const std::vector<std::string> BAD_GEO_LINES = {"", "   ", "garbage", "1 2 3 4", "91N 0", "45x 10", "4::5 10", "10N 20N", "10E 20E", "38SMB1x", "31n 500000 0 0", "31x 500000 0", "100 0 31n extra",
  std::string("12\0 13", 6), std::string("\0", 1), std::string("38SMB\0" "12", 8), "1:2:3:4:5 0", "\xff\xfe", "nan", "1e400 0"};
static const std::vector<std::string> BAD_GEOD_LINES = {"", "   ", "garbage", "1 2 3", "1 2 3 4 5", "91N 0 0 1000", "4::5 10 0 1", "10N 20N 0 1", "40 10 20N 1000N", std::string("12\0 13 0 1", 10),
  "1:2:3:4:5 0 0 1", "40 10 0 1x", "\xff\xfe 0 0 0", "40 10 1d2'3\":4 1"};

static void gen_tool(Rng& r, const std::string& name) {
  bool gc = name == "geoconvert";
  int variant = r.irange(0, int((gc ? gc_variants : gs_variants).size()) - 1);
  const auto& v = (gc ? gc_variants : gs_variants)[size_t(variant)];
  bool inverse = false, linemode = false, arcmode = false, mgrs = false, fixedzone = false, wflag = false;
  for (const char* s : v) { inverse |= !std::strcmp(s, "-i"); linemode |= !std::strcmp(s, "-L") || !std::strcmp(s, "-D") || !std::strcmp(s, "-I"); arcmode ^= !std::strcmp(s, "-a");
    mgrs |= !std::strcmp(s, "-m"); wflag ^= !std::strcmp(s, "-w"); fixedzone |= !std::strcmp(s, "-z") || !std::strcmp(s, "-t"); }
  if (inverse) linemode = false;
  int n = r.irange(0, 8); std::string input, tags;
  for (int i = 0; i < n; ++i) {
    int k = r.irange(0, 9); std::string line; char tag;
    if (k < 5) { line = gc ? valid_geo_line(r, wflag) : valid_geod_line(r, inverse, linemode, arcmode, wflag); tag = '1'; }
    else if (k < 7) { line = gc ? r.pick(BAD_GEO_LINES) : r.pick(BAD_GEOD_LINES); tag = '0'; if (!gc && linemode && !line.empty() && line != "   " && line != "garbage") tag = '?'; }
    else if (k == 7) { line = mutate(r, gc ? valid_geo_line(r, wflag) : valid_geod_line(r, inverse, linemode, arcmode, wflag)); tag = '?'; }
    else if (k == 8) { line = random_bytes(r); tag = '?'; }
    else { line = ""; tag = '0'; }
    // lines must not contain the line terminator itself
    for (auto& c : line) if (c == '\n') c = ' ';
    // outputs that can legitimately fail on a valid position (MGRS outside its latitude range, forced zone too far away)
    if (tag == '1' && (mgrs || fixedzone)) tag = '?';
    input += line; tags += tag;
    if (i + 1 < n || r.irange(0, 3)) input += "\n";         // sometimes no newline after the last line
    else if (line.empty()) { tags.pop_back(); }               // an empty unterminated last line is no line
  }
  stratum(gc ? "tool/GeoConvert" : "tool/GeodSolve");
  run("tool", {name, std::to_string(variant), hs(input), hs(tags)});
}

#include "C10_glue.hpp"

void gv::generate(const std::string& tier, uint64_t seed) {
  Rng r0(seed ^ 0xC10C10C10ULL); Rng r(r0.next());   // hashed: consecutive seeds give unrelated streams
  bool thorough = tier == "thorough";
  const int N = thorough ? 30 : 3;
  // ---- fixed documentation lists and the lookup tables (every run)
  for (auto& s : MALFORMED) { stratum("decode/documented-illegal"); run("decform", {hs(s), hx(0), "9", hx(1)}); }
  for (auto& cl : LEGAL_CLASSES)
    for (auto& f : cl.forms) {
      stratum("decode/documented-legal");
      int fl = 0; char lastc = f.back(), firstc = f[0];
      for (char c : {lastc, firstc}) { if (std::strchr("NSns", c)) fl = 1; if (std::strchr("EWew", c)) fl = 2; }
      if (f.find("W+") != std::string::npos || f.find("W-") != std::string::npos) fl = 2;
      if (f == "7.0E+1") fl = 2;
      run("decform", {hs(f), hx(cl.value), std::to_string(fl), hx(std::max(std::fabs(cl.value), 100.0))});
    }
  // documented numeric meaning of the first entry of each class
  run("decform", {hs("-20.51125"), hx(-20.51125), "0", hx(20.51125)});
  run("decform", {hs("20d30'40.5\"S"), hx(-20.51125), "1", hx(20.51125)});
  run("decform", {hs("4d9\""), hx(4.0025), "0", hx(4.0025)});
  run("decform", {hs("4:59:60.0"), hx(5), "0", hx(5)});
  run("decform", {hs("-070:00:45"), hx(-70.0125), "0", hx(70.0125)});
  run("decform", {hs("W70:01:15+0:0:30E"), hx(-70.0125), "2", hx(70.03)});
  run("decform", {hs("7.0E+1"), hx(8), "2", hx(8)});
  for (const char* tb : {DMS::hemispheres_, DMS::signs_, DMS::digits_, DMS::dmsindicators_})
    for (int c = 0; c < 256; ++c) { if (c % 64 == 0) stratum("lookup/all-bytes"); run("lookup", {hs(tb), std::to_string(c)}); }
  for (const char* s : {"nan", "NaN", "-nan", "+nan", "inf", "-inf", "+INF", "infinity", "-Infinity", "nan0", "inf00", "1.#INF", "-1.#INF", "1.#QNAN", "1.#IND", "1.#R", "in", "infi", "nanx", "0", "000", "-00"}) {
    stratum("nonfinite-spellings"); run("nummatch", {hs(s)}); run("val", {hs(s)}); run("dec", {hs(s)}); run("decang", {hs(s)});
  }
  // ---- encoder: strata x trailing x prec x flag x separator
  const int nenc = 9000 * N;
  for (int i = 0; i < nenc; ++i) {
    int t = r.irange(0, 2); unsigned p = unsigned(r.irange(0, 3) == 0 ? r.irange(0, 20) : r.irange(0, 15 - 2 * t));
    int ind = r.irange(0, 3); static const int seps[] = {0, 0, 0, ':', ':', ' ', ',', 'x', '-'}; int sep = seps[r.irange(0, 8)];
    std::string st; double x = enc_angle(r, t, p, st);
    if (ind == 1 && r.irange(0, 1) && std::isfinite(x)) x = std::remainder(x, 180.0);     // keep many latitudes in range
    stratum("encode/" + st);
    run("enc", {hx(x), std::to_string(t), std::to_string(p), std::to_string(ind), std::to_string(sep)});
    if (i % 8 == 0) { stratum("encode/prec-overload"); run("encp", {hx(x), std::to_string(r.irange(0, 14)), std::to_string(r.irange(0, 4)), std::to_string(sep)}); }
    if (i % 8 == 1) {
      stratum("utility/str-val"); int pp = r.irange(0, 18);
      run("str", {hx(x), std::to_string(pp)}); run("strval", {hx(x), std::to_string(pp)});
    }
  }
  // exhaustive small grid for the carry: every whole degree boundary at every precision for SECOND and MINUTE
  for (int t = 1; t <= 2; ++t) for (unsigned p = 0; p <= 11u; ++p) for (int ind = 0; ind < 4; ++ind) {
    double unit = std::pow(10.0, -double(p)) / (t == 1 ? 60 : 3600);
    for (double D : {0.0, 7.0, 59.0, 89.0, 179.0, 359.0}) for (double u : {0.25, 0.5, 0.75}) {
      stratum("encode/carry-grid");
      run("enc", {hx(D + 1 - u * unit), std::to_string(t), std::to_string(p), std::to_string(ind), (p & 1) ? "58" : "0"});
    }
  }
  // ---- decoder: documented forms with their meaning, mutations, random bytes
  for (int i = 0; i < 6000 * N; ++i) gen_decform(r);
  for (int i = 0; i < 6000 * N; ++i) {
    std::string base;
    int k = r.irange(0, 3);
    if (k == 0) { std::string st; int t = r.irange(0, 2); base = DMS::Encode(enc_angle(r, t, 3, st), DMS::component(t), unsigned(r.irange(0, 6)), DMS::flag(r.irange(0, 3)), r.coin() ? ':' : char(0)); }
    else if (k == 1) base = gen_piece(r, true, -1).text;
    else if (k == 2) base = r.coin() ? r.pick(MALFORMED) : r.pick(LEGAL_CLASSES[size_t(r.irange(0, int(LEGAL_CLASSES.size()) - 1))].forms);
    else { base = gen_piece(r, true, -1).text + gen_piece(r, false, 0).text; }
    std::string s = mutate(r, base);
    stratum("decode/mutation"); run("dec", {hs(s)});
    if (i % 4 == 0) { run("decang", {hs(s)}); run("decazi", {hs(s)}); }
  }
  for (int i = 0; i < 4000 * N; ++i) { stratum("decode/random-bytes"); run("dec", {hs(random_bytes(r))}); }
  // many digits (rounding of long integer / fraction strings, overflow to DBL_MAX / inf)
  for (int i = 0; i < 300 * N; ++i) {
    std::string s = digits_of(r, r.irange(15, i % 10 == 0 ? 420 : 40));
    if (r.coin()) s += "." + digits_of(r, r.irange(0, 40));
    if (r.irange(0, 2) == 0) s += "d" + std::to_string(r.irange(0, 59)) + "'";
    stratum("decode/long-digit-strings"); run("dec", {hs(s)});
  }
  // ---- DecodeLatLon / DecodeAngle / DecodeAzimuth
  for (int i = 0; i < 3000 * N; ++i) {
    Piece a = gen_piece(r, true, r.irange(0, 2)), b = gen_piece(r, true, r.irange(0, 2));
    if (r.irange(0, 2)) { // realistic ranges
      char buf[100]; std::snprintf(buf, sizeof buf, "%d:%d:%d", r.irange(0, 100), r.irange(0, 59), r.irange(0, 59)); a.text = buf; if (r.coin()) a.text += "NSEW"[r.irange(0, 3)];
      std::snprintf(buf, sizeof buf, "%s%d.%d", r.coin() ? "-" : "", r.irange(0, 200), r.irange(0, 999)); b.text = buf; if (r.irange(0, 2) == 0) b.text += "nsew"[r.irange(0, 3)];
      if (r.coin()) std::swap(a, b);
    }
    std::string sa = a.text, sb = b.text;
    if (r.irange(0, 9) == 0) sa = mutate(r, sa);
    stratum("declatlon"); run("declatlon", {hs(sa), hs(sb), r.coin() ? "1" : "0"});
    if (i % 3 == 0) { stratum("decangle-azimuth"); run("decang", {hs(sa)}); run("decazi", {hs(sb)}); }
  }
  // ---- Utility::val / fract on numeric text
  for (int i = 0; i < 3000 * N; ++i) {
    char buf[80]; double x = nasty_angle(r);
    static const char* fmts[] = {"%.17g", "%.3f", "%e", "%.0f", "%g", " %.5f ", "+%.2f", "%.15E"};
    std::snprintf(buf, sizeof buf, fmts[r.irange(0, 7)], x);
    std::string s = buf; if (r.irange(0, 2) == 0) s = mutate(r, s);
    stratum("utility/val"); run("val", {hs(s)});
    if (i % 3 == 0) { std::string f = s + "/" + std::to_string(r.irange(-3, 300)); if (r.irange(0, 5) == 0) f = mutate(r, f); stratum("utility/fract"); run("fract", {hs(f)}); }
  }
  for (const char* s : {"1e308", "1e309", "1.7976931348623157e308", "1.7976931348623159e308", "4.9e-324", "2.4e-324", "2.5e-324", "1e-400", "-0", "-0.0", ".", "-", "+", "e5", ".e5", "5.", "5.e3", "1e", "1e+", "1e+5", "1E-5", "0x10", "1/0", "1/", "/2", "3/4", "-1/300", "1.0/298.257223563"}) {
    stratum("utility/val-edge"); run("val", {hs(s)}); run("fract", {hs(s)});
  }
  // ---- GeoCoords
  for (int i = 0; i < 900 * N; ++i) {
    double lat, lon; int k = r.irange(0, 7);
    if (k == 0) { lat = r.range(-90, 90); lon = r.range(-180, 180); }
    else if (k == 1) { static const double z[] = {0, -0.0, 1e-9, -1e-9, 84, -80, 83.99999999, -79.99999999, 90, -90, 89.9999999, -89.9999999, 72, 56, 64}; lat = z[r.irange(0, 14)]; lon = r.irange(-30, 30) * 6 + (r.coin() ? 0 : r.range(-1e-7, 1e-7)); }
    else if (k == 2) { lat = r.range(-80, 84); lon = r.irange(-30, 30) * 6 + r.range(-3, 3); }
    else if (k == 3) { lat = r.coin() ? r.range(84, 90) : r.range(-90, -80); lon = r.range(-180, 180); }
    else if (k == 4) { lat = r.irange(-90, 90); lon = r.irange(-180, 180) + 360 * r.irange(-1, 1); }
    else if (k == 5) { lat = r.range(-1e-4, 1e-4); lon = r.range(-180, 180); }
    else if (k == 6) { lat = r.irange(-10, 10) * 8 + r.range(-1e-6, 1e-6); lon = r.range(-180, 180); }
    else { lat = r.range(-90, 90); lon = r.coin() ? 180 : -180; }
    int p = r.irange(-7, 12); bool lf = r.coin();
    stratum("geocoords/representations");
    run("geocoords", {hx(lat), hx(lon), std::to_string(p), lf ? "1" : "0"});
    run("georep", {hx(lat), hx(Math::AngNormalize(lon)), std::to_string(p), lf ? "1" : "0"});
    run("dmsrep", {hx(lat), hx(Math::AngNormalize(lon)), std::to_string(p), lf ? "1" : "0", r.coin() ? "0" : "58"});
    GeoCoords g;
    if (guarded([&] { g.Reset(lat, lon); }).empty()) {
      run("utmstr", {std::to_string(g.Zone()), g.Northp() ? "1" : "0", hx(g.Easting()), hx(g.Northing()), std::to_string(p), r.coin() ? "1" : "0"});
      if (i % 5 == 0) run("utmstr", {std::to_string(r.irange(-1, 61)), r.coin() ? "1" : "0", hx(nasty_angle(r) * 1e3), hx(r.coin() ? NAN : r.range(-1, 1)), std::to_string(r.irange(-7, 12)), "1"});
    }
  }
  // ---- tools
  for (int i = 0; i < 220 * N; ++i) gen_tool(r, "geoconvert");
  for (int i = 0; i < 160 * N; ++i) gen_tool(r, "geodsolve");
  // ---- glue: calendar, ParseLine, trim, val<bool/int>, readarray/writearray, GeoCoords accessors / alternate zone / string constructor
  gen_glue(r, thorough);
}

int main(int c, char** v) { return gv::main_(c, v); }
