// C14: shared immutable objects are safe to use from many threads.
//
// One op = one class of the property's quantifier:   mt <Class> <nthreads> <iters> <seed>
//   1. build ONE shared instance of the class (parameters derive from <seed>);
//   2. concurrent phase FIRST: <nthreads> threads start behind a barrier and each runs every const API of the
//      class on the shared instance <iters> times (rotated call order), so lazily filled caches, function-local
//      statics and scratch buffers are first touched concurrently;
//   3. solo phase: the same calls alone on the shared instance and on a second, freshly built, never shared one;
//   4. every concurrent result must equal the solo results bit for bit  -> #BAD thread-result-differs;
//      a trivially copyable shared object must have the same object representation before and after the
//      concurrent const calls                                           -> #BAD const-call-modified-object.
// The binary is built with -fsanitize=thread; TSAN_OPTIONS=halt_on_error=1:exitcode=66 makes any data race end
// the process, which the orchestrator reports as a failing input together with the op that was executing.
// Besides the per-class suites there are four suites for the code that depends on the DST size of GeodesicExact (area
// computations on ONE shared exact solver with f = 3/4, -2, 9/10, where N = 48, 48, 96): GeodesicExact(eccentric),
// GeodesicLineExact(eccentric), Geodesic(exact) [= Geodesic(a, f, exact = true)], GeodesicLine(exact).
// "mt Singletons ..." must be the first op of a process: it touches WGS84()/UTM()/UPS()/OSGBTM()... for the
// first time from all threads at once.
#include "common.hpp"
#include <atomic>
#include <thread>
#include <memory>
#include <fstream>
#include <type_traits>
#include <unistd.h>
#include <sys/wait.h>
#include <GeographicLib/Geodesic.hpp>
#include <GeographicLib/GeodesicLine.hpp>
#include <GeographicLib/GeodesicExact.hpp>
#include <GeographicLib/GeodesicLineExact.hpp>
#include <GeographicLib/Rhumb.hpp>
#include <GeographicLib/TransverseMercator.hpp>
#include <GeographicLib/TransverseMercatorExact.hpp>
#include <GeographicLib/PolarStereographic.hpp>
#include <GeographicLib/LambertConformalConic.hpp>
#include <GeographicLib/AlbersEqualArea.hpp>
#include <GeographicLib/Geocentric.hpp>
#include <GeographicLib/LocalCartesian.hpp>
#include <GeographicLib/Ellipsoid.hpp>
#include <GeographicLib/AuxLatitude.hpp>
#include <GeographicLib/DAuxLatitude.hpp>
#include <GeographicLib/EllipticFunction.hpp>
#include <GeographicLib/NormalGravity.hpp>
#include <GeographicLib/SphericalHarmonic.hpp>
#include <GeographicLib/SphericalHarmonic1.hpp>
#include <GeographicLib/SphericalHarmonic2.hpp>
#include <GeographicLib/CircularEngine.hpp>
#include <GeographicLib/GravityModel.hpp>
#include <GeographicLib/GravityCircle.hpp>
#include <GeographicLib/MagneticModel.hpp>
#include <GeographicLib/MagneticCircle.hpp>
#include <GeographicLib/Geoid.hpp>
#include <GeographicLib/UTMUPS.hpp>
#include <GeographicLib/MGRS.hpp>
#include <GeographicLib/DMS.hpp>
#include <GeographicLib/Geohash.hpp>
#include <GeographicLib/GARS.hpp>
#include <GeographicLib/Georef.hpp>
#include <GeographicLib/OSGB.hpp>
#include <GeographicLib/AzimuthalEquidistant.hpp>
#include <GeographicLib/CassiniSoldner.hpp>
#include <GeographicLib/Gnomonic.hpp>
#include <GeographicLib/PolygonArea.hpp>
#include <GeographicLib/DST.hpp>
#include <GeographicLib/Accumulator.hpp>
#include <GeographicLib/GeoCoords.hpp>
#include <GeographicLib/Intersect.hpp>
#include <GeographicLib/NearestNeighbor.hpp>
#include "kissfft.hh"
using namespace GeographicLib; using namespace gv;

// the orchestrator splits #BAD lines at "::", so C++ qualified names in the details are written with "."
static void BAD(const std::string& rel, std::string d) { size_t p; while ((p = d.find("::")) != std::string::npos) d.replace(p, 2, "."); bad(rel, d); }
typedef std::vector<uint64_t> Res;
static inline void P(Res& r, double x) { r.push_back(bits(x)); }
static inline void Pi(Res& r, long long x) { r.push_back(uint64_t(x)); }
static inline void Ps(Res& r, const std::string& s) { uint64_t h = 1469598103934665603ULL; for (unsigned char c : s) { h ^= c; h *= 1099511628211ULL; } r.push_back(h); r.push_back(s.size()); }
static inline void Pa(Res& r, const AuxAngle& a) { P(r, a.y()); P(r, a.x()); }

struct Call { std::string name; std::function<void(Res&)> f; };
struct Suite {
  std::string cls;
  std::vector<Call> calls;
  std::vector<std::shared_ptr<void>> hold;           // keeps the shared instances alive
  std::function<std::string()> image;                // object representation of trivially copyable shared instances
  void add(const std::string& n, std::function<void(Res&)> f) { calls.push_back({cls + "::" + n, f}); }
  template<class T> std::shared_ptr<T> own(T* p) {
    std::shared_ptr<T> sp(p); hold.push_back(sp);
    if constexpr (std::is_trivially_copyable<T>::value) {
      std::function<std::string()> prev = image; const T* q = p;
      image = [prev, q]() { std::string s = prev ? prev() : std::string(); s.append(reinterpret_cast<const char*>(q), sizeof(T)); return s; };
    }
    return sp;
  }
};

// handle through which a call reaches its object: a plain pointer, or (singletons) the accessor evaluated in the calling thread
template<class T> struct Ref { std::function<const T&()> get; const T* operator->() const { return &get(); } };
template<class T> static Ref<T> mkref(const T* p) { return Ref<T>{[p]() -> const T& { return *p; }}; }
template<class T> static Ref<T> mkref(const std::shared_ptr<T>& p) { return mkref(static_cast<const T*>(p.get())); }

static void runcall(const Call& c, Res& r) {
  try { c.f(r); }
  catch (const GeographicErr&) { r.push_back(0xEEEEEEEEEEEEEEEEULL); }
  catch (const std::exception&) { r.push_back(0xDDDDDDDDDDDDDDDDULL); }
}
static std::string show(const Res& r) { std::string s; for (size_t i = 0; i < r.size() && i < 6; ++i) { char b[20]; std::snprintf(b, sizeof b, "%016llx", (unsigned long long)r[i]); s += (i ? "," : ""); s += b; } return s; }

// ---------------------------------------------------------------------------------------------------------------
// inputs
struct Ell { double a, f; };
static Ell pickEll(Rng& g, bool positive = false, bool small = false) {
  static const Ell all[] = {{Constants::WGS84_a(), Constants::WGS84_f()}, {6.4e6, 0.1}, {6378388.0, 1 / 297.0}, {6.4e6, 1 / 150.0}, {1.0, 0.0}, {6.4e6, -0.01}, {6.4e6, -1 / 150.0}};
  for (;;) { Ell e = all[g.next() % 7]; if (positive && !(e.f > 0)) continue; if (small && std::fabs(e.f) > 0.02) continue; return e; }
}
static double lat_(Rng& g) { switch (g.next() % 8) { case 0: return 90; case 1: return -90; case 2: return 0; case 3: return g.range(-1e-6, 1e-6); default: return g.range(-89.9, 89.9); } }
static double lon_(Rng& g) { switch (g.next() % 8) { case 0: return 180; case 1: return -180; case 2: return 0; case 3: return g.range(-540, 540); default: return g.range(-180, 180); } }
// output masks are unions of the documented enum constants (never raw bits)
template<class G> static unsigned gmask(Rng& g) {
  static const unsigned c[] = {G::LATITUDE, G::LONGITUDE, G::AZIMUTH, G::DISTANCE, G::REDUCEDLENGTH, G::GEODESICSCALE, G::AREA, G::LONG_UNROLL};
  unsigned m = 0, b = unsigned(g.next()); for (int i = 0; i < 8; ++i) if (b & (1u << i)) m |= c[i]; return m;
}
static unsigned rmask(Rng& g) {
  static const unsigned c[] = {Rhumb::LATITUDE, Rhumb::LONGITUDE, Rhumb::AZIMUTH, Rhumb::DISTANCE, Rhumb::AREA, Rhumb::LONG_UNROLL};
  unsigned m = 0, b = unsigned(g.next()); for (int i = 0; i < 6; ++i) if (b & (1u << i)) m |= c[i]; return m;
}
static double azi_(Rng& g) { switch (g.next() % 6) { case 0: return 0; case 1: return 90; case 2: return 180; default: return g.range(-180, 180); } }

// ---------------------------------------------------------------------------------------------------------------
// suites.  `fresh` = the second, never shared instance (for Singletons: separately constructed equal objects)
template<class G, class L> static void geod_calls(Suite& S, Ref<G> geod, Rng& g, int n) {
  for (int k = 0; k < n; ++k) {
    double lat1 = lat_(g), lon1 = lon_(g), azi1 = azi_(g), s12 = (g.next() % 5 == 0 ? 1e-3 : g.range(-3e7, 3e7)), a12 = g.range(-400, 400), lat2 = lat_(g), lon2 = lon_(g);
    if (g.next() % 6 == 0) { lat2 = -lat1 + g.range(-1e-3, 1e-3); lon2 = lon1 + 180 + g.range(-1e-3, 1e-3); }   // nearly antipodal
    unsigned m = gmask<G>(g); bool arcm = g.coin();
    S.add("Direct#" + std::to_string(k), [=](Res& r) { double a, b, c, m12, M12, M21, S12; double x = geod->Direct(lat1, lon1, azi1, s12, a, b, c, m12, M12, M21, S12); P(r, x); P(r, a); P(r, b); P(r, c); P(r, m12); P(r, M12); P(r, M21); P(r, S12); });
    S.add("ArcDirect#" + std::to_string(k), [=](Res& r) { double a, b, c, s, m12, M12, M21, S12; geod->ArcDirect(lat1, lon1, azi1, a12, a, b, c, s, m12, M12, M21, S12); P(r, a); P(r, b); P(r, c); P(r, s); P(r, m12); P(r, M12); P(r, M21); P(r, S12); });
    S.add("Inverse#" + std::to_string(k), [=](Res& r) { double s, a1, a2, m12, M12, M21, S12; double x = geod->Inverse(lat1, lon1, lat2, lon2, s, a1, a2, m12, M12, M21, S12); P(r, x); P(r, s); P(r, a1); P(r, a2); P(r, m12); P(r, M12); P(r, M21); P(r, S12); });
    S.add("GenDirect#" + std::to_string(k), [=](Res& r) { double a = 1, b = 2, c = 3, s = 4, m12 = 5, M12 = 6, M21 = 7, S12 = 8; double x = geod->GenDirect(lat1, lon1, azi1, arcm, arcm ? a12 : s12, m, a, b, c, s, m12, M12, M21, S12); P(r, x); P(r, a); P(r, b); P(r, c); P(r, s); P(r, m12); P(r, M12); P(r, M21); P(r, S12); });
    S.add("GenInverse#" + std::to_string(k), [=](Res& r) { double s = 4, a1 = 1, a2 = 2, m12 = 5, M12 = 6, M21 = 7, S12 = 8; double x = geod->GenInverse(lat1, lon1, lat2, lon2, m, s, a1, a2, m12, M12, M21, S12); P(r, x); P(r, s); P(r, a1); P(r, a2); P(r, m12); P(r, M12); P(r, M21); P(r, S12); });
    S.add("Line+Position#" + std::to_string(k), [=](Res& r) { L l = geod->Line(lat1, lon1, azi1); double a, b, c, m12, M12, M21, S12; double x = l.Position(s12, a, b, c, m12, M12, M21, S12); P(r, x); P(r, a); P(r, b); P(r, c); P(r, m12); P(r, M12); P(r, M21); P(r, S12); });
    S.add("InverseLine#" + std::to_string(k), [=](Res& r) { L l = geod->InverseLine(lat1, lon1, lat2, lon2); double a, b, c; l.Position(l.Distance() / 2, a, b, c); P(r, l.Distance()); P(r, l.Arc()); P(r, l.Azimuth()); P(r, a); P(r, b); P(r, c); });
    S.add("DirectLine#" + std::to_string(k), [=](Res& r) { L l = geod->DirectLine(lat1, lon1, azi1, s12, m | G::DISTANCE_IN); double a = 0, b = 0, c = 0; l.ArcPosition(a12 / 2, a, b, c); P(r, l.Distance()); P(r, a); P(r, b); P(r, c); });
  }
  S.add("EllipsoidArea", [=](Res& r) { P(r, geod->EllipsoidArea()); P(r, geod->EquatorialRadius()); P(r, geod->Flattening()); });
}
template<class G> static Suite mk_geodesic(const char* cls, uint64_t seed, bool) {
  Suite S; S.cls = cls; Rng g(seed); Ell e = pickEll(g, false, std::is_same<G, Geodesic>::value);
  typedef typename std::conditional<std::is_same<G, Geodesic>::value, GeodesicLine, GeodesicLineExact>::type L;
  auto gp = S.own(new G(e.a, e.f));
  geod_calls<G, L>(S, mkref(gp), g, 6);
  return S;
}
template<class G, class L> static Suite mk_line(const char* cls, uint64_t seed, bool) {
  Suite S; S.cls = cls; Rng g(seed); Ell e = pickEll(g, false, std::is_same<G, Geodesic>::value);
  G geod(e.a, e.f);
  for (int j = 0; j < 2; ++j) {
    auto lp = S.own(new L(geod.Line(lat_(g), lon_(g), azi_(g), j ? unsigned(G::ALL) : (gmask<G>(g) | G::DISTANCE_IN))));
    const L* l = lp.get();
    for (int k = 0; k < 8; ++k) {
      double s12 = g.range(-3e7, 3e7), a12 = g.range(-400, 400); unsigned m = gmask<G>(g); bool arcm = g.coin();
      std::string t = std::to_string(j) + "." + std::to_string(k);
      S.add("Position#" + t, [=](Res& r) { double a = 1, b = 2, c = 3, m12 = 5, M12 = 6, M21 = 7, S12 = 8; double x = l->Position(s12, a, b, c, m12, M12, M21, S12); P(r, x); P(r, a); P(r, b); P(r, c); P(r, m12); P(r, M12); P(r, M21); P(r, S12); });
      S.add("ArcPosition#" + t, [=](Res& r) { double a = 1, b = 2, c = 3, s = 4, m12 = 5, M12 = 6, M21 = 7, S12 = 8; l->ArcPosition(a12, a, b, c, s, m12, M12, M21, S12); P(r, a); P(r, b); P(r, c); P(r, s); P(r, m12); P(r, M12); P(r, M21); P(r, S12); });
      S.add("GenPosition#" + t, [=](Res& r) { double a = 1, b = 2, c = 3, s = 4, m12 = 5, M12 = 6, M21 = 7, S12 = 8; double x = l->GenPosition(arcm, arcm ? a12 : s12, m, a, b, c, s, m12, M12, M21, S12); P(r, x); P(r, a); P(r, b); P(r, c); P(r, s); P(r, m12); P(r, M12); P(r, M21); P(r, S12); });
    }
    S.add("accessors#" + std::to_string(j), [=](Res& r) { P(r, l->Latitude()); P(r, l->Longitude()); P(r, l->Azimuth()); P(r, l->EquatorialAzimuth()); P(r, l->EquatorialArc()); P(r, l->Distance()); Pi(r, l->Capabilities()); });
  }
  return S;
}
// ---- strongly eccentric ellipsoids, area computations ----------------------------------------------------------
// GeodesicExact computes the area term S12 with a discrete sine transform whose size N grows with the third flattening
// (N = 6 for WGS84, N = 16 for f = 1/5, N > 32 for |n| >~ 0.45).  Everything that depends on N -- the FFT length, the
// stage radices, any work space -- is reached only from calls that ask for AREA on such an ellipsoid, so the suites
// below share ONE solver (resp. lines of one solver) with f in {3/4, -2, 9/10} and every call asks for AREA.
// G = GeodesicExact, or Geodesic constructed with exact = true (the wrapper delegates to its GeodesicExact member).
static Ell pickEcc(Rng& g) {
  static const Ell all[] = {{Constants::WGS84_a(), 0.75}, {Constants::WGS84_a(), -2.0}, {Constants::WGS84_a(), 0.9}};    // n = 0.6, -0.5, 0.818
  return all[g.next() % 3];
}
template<class G> struct LineOf { typedef GeodesicLineExact type; };
template<> struct LineOf<Geodesic> { typedef GeodesicLine type; };
template<class G> static G* newEcc(const Ell& e);
template<> GeodesicExact* newEcc<GeodesicExact>(const Ell& e) { return new GeodesicExact(e.a, e.f); }
template<> Geodesic* newEcc<Geodesic>(const Ell& e) { return new Geodesic(e.a, e.f, true); }
// generic points, short and medium lines (no special symmetry is needed; these converge in a few iterations, so that the
// time goes into the area terms)
struct EccIn { double lat1, lon1, lat2, lon2, azi1, s12, a12; };
static EccIn eccIn(Rng& g, int k) {
  EccIn p; p.lat1 = g.range(-80, 80); p.lon1 = g.range(-180, 180); double d = (k % 3 == 0 ? 60 : 3);
  p.lat2 = std::fmax(-89.0, std::fmin(89.0, p.lat1 + d * g.range(-0.5, 0.5))); p.lon2 = p.lon1 + d * g.range(-0.5, 0.5);
  p.azi1 = g.range(-180, 180); p.s12 = g.range(1e4, 3e6); p.a12 = g.range(0.1, 40);
  return p;
}
template<class G> static void ecc_geod_calls(Suite& S, Ref<G> geod, Rng& g, int n) {
  typedef typename LineOf<G>::type L;
  for (int k = 0; k < n; ++k) {
    EccIn p = eccIn(g, k); unsigned m = gmask<G>(g) | G::AREA; bool arcm = g.coin(); std::string t = std::to_string(k);
    S.add("GenInverse[AREA]#" + t, [=](Res& r) { double s = 4, a1 = 1, a2 = 2, m12 = 5, M12 = 6, M21 = 7, S12 = 8; double x = geod->GenInverse(p.lat1, p.lon1, p.lat2, p.lon2, m, s, a1, a2, m12, M12, M21, S12); P(r, x); P(r, s); P(r, a1); P(r, a2); P(r, m12); P(r, M12); P(r, M21); P(r, S12); });
    S.add("Line[AREA]+GenPosition[AREA]#" + t, [=](Res& r) { L l = geod->Line(p.lat1, p.lon1, p.azi1, m | G::DISTANCE_IN); double a = 1, b = 2, c = 3, s = 4, m12 = 5, M12 = 6, M21 = 7, S12 = 8; double x = l.GenPosition(arcm, arcm ? p.a12 : p.s12, m, a, b, c, s, m12, M12, M21, S12); P(r, x); P(r, a); P(r, b); P(r, c); P(r, s); P(r, m12); P(r, M12); P(r, M21); P(r, S12); });
    if (k % 2 == 0) S.add("GenDirect[AREA]#" + t, [=](Res& r) { double a = 1, b = 2, c = 3, s = 4, m12 = 5, M12 = 6, M21 = 7, S12 = 8; double x = geod->GenDirect(p.lat1, p.lon1, p.azi1, arcm, arcm ? p.a12 : p.s12, m, a, b, c, s, m12, M12, M21, S12); P(r, x); P(r, a); P(r, b); P(r, c); P(r, s); P(r, m12); P(r, M12); P(r, M21); P(r, S12); });
    else S.add("Inverse[S12]#" + t, [=](Res& r) { double s, a1, a2, m12, M12, M21, S12; double x = geod->Inverse(p.lat1, p.lon1, p.lat2, p.lon2, s, a1, a2, m12, M12, M21, S12); P(r, x); P(r, s); P(r, a1); P(r, a2); P(r, S12); });
  }
  S.add("EllipsoidArea", [=](Res& r) { P(r, geod->EllipsoidArea()); P(r, geod->EquatorialRadius()); P(r, geod->Flattening()); });
}
template<class G> static Suite mk_ecc_geodesic(const char* cls, uint64_t seed, bool) {
  Suite S; S.cls = cls; Rng g(seed); Ell e = pickEcc(g);
  auto gp = S.own(newEcc<G>(e));
  ecc_geod_calls<G>(S, mkref(gp), g, 8);
  return S;
}
// shared lines of ONE solver (the lines hold copies of the solver's transform object); GenPosition with AREA on the shared
// lines, and new lines with the AREA capability made from the solver the shared lines came from
template<class G> static Suite mk_ecc_line(const char* cls, uint64_t seed, bool) {
  typedef typename LineOf<G>::type L;
  Suite S; S.cls = cls; Rng g(seed); Ell e = pickEcc(g);
  auto gp = S.own(newEcc<G>(e)); const G* geod = gp.get();
  for (int j = 0; j < 2; ++j) {
    EccIn q = eccIn(g, j);
    auto lp = S.own(new L(geod->Line(q.lat1, q.lon1, q.azi1, j ? unsigned(G::ALL) : (gmask<G>(g) | G::AREA | G::DISTANCE_IN)))); const L* l = lp.get();
    for (int k = 0; k < 6; ++k) {
      EccIn p = eccIn(g, k); unsigned m = gmask<G>(g) | G::AREA; bool arcm = g.coin(); std::string t = std::to_string(j) + "." + std::to_string(k);
      S.add("GenPosition[AREA]#" + t, [=](Res& r) { double a = 1, b = 2, c = 3, s = 4, m12 = 5, M12 = 6, M21 = 7, S12 = 8; double x = l->GenPosition(arcm, arcm ? p.a12 : p.s12, m, a, b, c, s, m12, M12, M21, S12); P(r, x); P(r, a); P(r, b); P(r, c); P(r, s); P(r, m12); P(r, M12); P(r, M21); P(r, S12); });
      if (k < 3) S.add("Position[S12]#" + t, [=](Res& r) { double a = 1, b = 2, c = 3, m12 = 5, M12 = 6, M21 = 7, S12 = 8; double x = l->Position(p.s12, a, b, c, m12, M12, M21, S12); P(r, x); P(r, a); P(r, b); P(r, c); P(r, S12); });
      if (k < 3) S.add("new-line[AREA]+GenPosition[AREA]#" + t, [=](Res& r) { L n = geod->Line(p.lat1, p.lon1, p.azi1, m | G::DISTANCE_IN); double a = 1, b = 2, c = 3, s = 4, m12 = 5, M12 = 6, M21 = 7, S12 = 8; double x = n.GenPosition(arcm, arcm ? p.a12 : p.s12, m, a, b, c, s, m12, M12, M21, S12); P(r, x); P(r, a); P(r, b); P(r, S12); });
    }
    S.add("accessors#" + std::to_string(j), [=](Res& r) { P(r, l->Latitude()); P(r, l->Longitude()); P(r, l->Azimuth()); P(r, l->EquatorialAzimuth()); P(r, l->EquatorialArc()); P(r, l->Distance()); Pi(r, l->Capabilities()); });
  }
  return S;
}
static void rhumb_calls(Suite& S, Ref<Rhumb> rh, Rng& g, int n) {
  for (int k = 0; k < n; ++k) {
    double lat1 = lat_(g), lon1 = lon_(g), azi = azi_(g), s12 = g.range(-2e7, 2e7), lat2 = lat_(g), lon2 = lon_(g); unsigned m = rmask(g);
    std::string t = std::to_string(k);
    S.add("Direct#" + t, [=](Res& r) { double a, b, A; rh->Direct(lat1, lon1, azi, s12, a, b, A); P(r, a); P(r, b); P(r, A); });
    S.add("Inverse#" + t, [=](Res& r) { double s, a, A; rh->Inverse(lat1, lon1, lat2, lon2, s, a, A); P(r, s); P(r, a); P(r, A); });
    S.add("GenDirect#" + t, [=](Res& r) { double a = 1, b = 2, A = 3; rh->GenDirect(lat1, lon1, azi, s12, m, a, b, A); P(r, a); P(r, b); P(r, A); });
    S.add("GenInverse#" + t, [=](Res& r) { double s = 1, a = 2, A = 3; rh->GenInverse(lat1, lon1, lat2, lon2, m, s, a, A); P(r, s); P(r, a); P(r, A); });
    S.add("Line+Position#" + t, [=](Res& r) { RhumbLine l = rh->Line(lat1, lon1, azi); double a, b, A; l.Position(s12, a, b, A); P(r, a); P(r, b); P(r, A); });
  }
  S.add("EllipsoidArea", [=](Res& r) { P(r, rh->EllipsoidArea()); P(r, rh->EquatorialRadius()); P(r, rh->Flattening()); });
}
static Suite mk_rhumb(const char* cls, bool exact, uint64_t seed, bool) {
  Suite S; S.cls = cls; Rng g(seed); Ell e = pickEll(g, false, !exact);
  auto rp = S.own(new Rhumb(e.a, e.f, exact));
  rhumb_calls(S, mkref(rp), g, 8);
  return S;
}
static Suite mk_rhumbline(uint64_t seed, bool) {
  Suite S; S.cls = "RhumbLine"; Rng g(seed); Ell e = pickEll(g, false, true);
  for (int j = 0; j < 2; ++j) {
    // the line refers to its Rhumb: both are shared
    auto rp = S.own(new Rhumb(e.a, e.f, j == 1));
    auto lp = S.own(new RhumbLine(rp->Line(lat_(g), lon_(g), azi_(g))));
    const RhumbLine* l = lp.get();
    for (int k = 0; k < 10; ++k) {
      double s12 = g.range(-2e7, 2e7); unsigned m = rmask(g); std::string t = std::to_string(j) + "." + std::to_string(k);
      S.add("Position#" + t, [=](Res& r) { double a, b, A; l->Position(s12, a, b, A); P(r, a); P(r, b); P(r, A); });
      S.add("GenPosition#" + t, [=](Res& r) { double a = 1, b = 2, A = 3; l->GenPosition(s12, m, a, b, A); P(r, a); P(r, b); P(r, A); });
    }
    S.add("accessors#" + std::to_string(j), [=](Res& r) { P(r, l->Latitude()); P(r, l->Longitude()); P(r, l->Azimuth()); P(r, l->EquatorialRadius()); });
  }
  return S;
}
template<class T> static void proj_calls(Suite& S, Ref<T> p, Rng& g, int n, double lon0) {
  for (int k = 0; k < n; ++k) {
    double lat = lat_(g), lon = lon0 + g.range(-60, 60), x = g.range(-3e6, 3e6), y = g.range(-6e6, 6e6); std::string t = std::to_string(k);
    S.add("Forward#" + t, [=](Res& r) { double a, b, c, d; p->Forward(lon0, lat, lon, a, b, c, d); P(r, a); P(r, b); P(r, c); P(r, d); });
    S.add("Reverse#" + t, [=](Res& r) { double a, b, c, d; p->Reverse(lon0, x, y, a, b, c, d); P(r, a); P(r, b); P(r, c); P(r, d); });
  }
}
static Suite mk_tm(uint64_t seed, bool) {
  Suite S; S.cls = "TransverseMercator"; Rng g(seed); Ell e = pickEll(g, false, true);
  for (int j = 0; j < 2; ++j) { auto p = S.own(new TransverseMercator(e.a, e.f, g.coin() ? 0.9996 : 1.0, j == 1 && e.f > 0)); proj_calls(S, mkref(p), g, 8, g.range(-180, 180)); }
  return S;
}
static Suite mk_tmx(uint64_t seed, bool) {
  Suite S; S.cls = "TransverseMercatorExact"; Rng g(seed); Ell e = pickEll(g, true);
  auto p = S.own(new TransverseMercatorExact(e.a, e.f, 0.9996, g.coin())); proj_calls(S, mkref(p), g, 8, g.range(-180, 180));
  return S;
}
static Suite mk_ps(uint64_t seed, bool) {
  Suite S; S.cls = "PolarStereographic"; Rng g(seed); Ell e = pickEll(g);
  auto pp = S.own(new PolarStereographic(e.a, e.f, 0.994)); const PolarStereographic* p = pp.get();
  for (int k = 0; k < 12; ++k) {
    bool np = g.coin(); double lat = lat_(g), lon = lon_(g), x = g.range(-4e6, 4e6), y = g.range(-4e6, 4e6); std::string t = std::to_string(k);
    S.add("Forward#" + t, [=](Res& r) { double a, b, c, d; p->Forward(np, lat, lon, a, b, c, d); P(r, a); P(r, b); P(r, c); P(r, d); });
    S.add("Reverse#" + t, [=](Res& r) { double a, b, c, d; p->Reverse(np, x, y, a, b, c, d); P(r, a); P(r, b); P(r, c); P(r, d); });
  }
  return S;
}
static Suite mk_lcc(uint64_t seed, bool) {
  Suite S; S.cls = "LambertConformalConic"; Rng g(seed); Ell e = pickEll(g, false, true);
  { auto p = S.own(new LambertConformalConic(e.a, e.f, g.range(20, 40), g.range(45, 60), 1.0)); proj_calls(S, mkref(p), g, 6, g.range(-180, 180)); }
  { auto p = S.own(new LambertConformalConic(e.a, e.f, g.range(-60, 60), 0.999)); proj_calls(S, mkref(p), g, 6, g.range(-180, 180)); }
  return S;
}
static Suite mk_albers(uint64_t seed, bool) {
  Suite S; S.cls = "AlbersEqualArea"; Rng g(seed); Ell e = pickEll(g, false, true);
  { auto p = S.own(new AlbersEqualArea(e.a, e.f, g.range(20, 40), g.range(45, 60), 1.0)); proj_calls(S, mkref(p), g, 6, g.range(-180, 180)); }
  { auto p = S.own(new AlbersEqualArea(e.a, e.f, g.range(-60, -10), 1.0)); proj_calls(S, mkref(p), g, 6, g.range(-180, 180)); }
  return S;
}
static Suite mk_geocentric(uint64_t seed, bool) {
  Suite S; S.cls = "Geocentric"; Rng g(seed); Ell e = pickEll(g);
  auto pp = S.own(new Geocentric(e.a, e.f)); const Geocentric* p = pp.get();
  for (int k = 0; k < 12; ++k) {
    double lat = lat_(g), lon = lon_(g), h = g.range(-1e5, 1e7), X = g.range(-1e7, 1e7), Y = g.range(-1e7, 1e7), Z = (k % 4 == 0 ? 0.0 : g.range(-1e7, 1e7)); if (k % 6 == 1) { X = g.range(-100, 100); Y = 0; }
    std::string t = std::to_string(k);
    S.add("Forward#" + t, [=](Res& r) { double a, b, c; std::vector<double> M(9); p->Forward(lat, lon, h, a, b, c, M); P(r, a); P(r, b); P(r, c); for (double v : M) P(r, v); });
    S.add("Reverse#" + t, [=](Res& r) { double a, b, c; std::vector<double> M(9); p->Reverse(X, Y, Z, a, b, c, M); P(r, a); P(r, b); P(r, c); for (double v : M) P(r, v); });
  }
  return S;
}
static Suite mk_localcartesian(uint64_t seed, bool) {
  Suite S; S.cls = "LocalCartesian"; Rng g(seed); Ell e = pickEll(g);
  auto gp = S.own(new Geocentric(e.a, e.f));
  auto pp = S.own(new LocalCartesian(lat_(g), lon_(g), g.range(-100, 5000), *gp)); const LocalCartesian* p = pp.get();
  for (int k = 0; k < 12; ++k) {
    double lat = lat_(g), lon = lon_(g), h = g.range(-1e5, 1e7), X = g.range(-1e7, 1e7), Y = g.range(-1e7, 1e7), Z = g.range(-1e7, 1e7); std::string t = std::to_string(k);
    S.add("Forward#" + t, [=](Res& r) { double a, b, c; std::vector<double> M(9); p->Forward(lat, lon, h, a, b, c, M); P(r, a); P(r, b); P(r, c); for (double v : M) P(r, v); });
    S.add("Reverse#" + t, [=](Res& r) { double a, b, c; std::vector<double> M(9); p->Reverse(X, Y, Z, a, b, c, M); P(r, a); P(r, b); P(r, c); for (double v : M) P(r, v); });
  }
  S.add("origin", [=](Res& r) { P(r, p->LatitudeOrigin()); P(r, p->LongitudeOrigin()); P(r, p->HeightOrigin()); });
  return S;
}
static void ellipsoid_calls(Suite& S, Ref<Ellipsoid> p, Rng& g, int n) {
  for (int k = 0; k < n; ++k) {
    double lat = lat_(g), psi = g.range(-300, 300), lat2 = lat_(g), azi = azi_(g); std::string t = std::to_string(k);
    S.add("latitudes#" + t, [=](Res& r) { double b = p->ParametricLatitude(lat), th = p->GeocentricLatitude(lat), mu = p->RectifyingLatitude(lat), xi = p->AuthalicLatitude(lat), chi = p->ConformalLatitude(lat), ps = p->IsometricLatitude(lat);
      P(r, b); P(r, th); P(r, mu); P(r, xi); P(r, chi); P(r, ps);
      P(r, p->InverseParametricLatitude(b)); P(r, p->InverseGeocentricLatitude(th)); P(r, p->InverseRectifyingLatitude(mu)); P(r, p->InverseAuthalicLatitude(xi)); P(r, p->InverseConformalLatitude(chi)); P(r, p->InverseIsometricLatitude(psi)); });
    S.add("radii#" + t, [=](Res& r) { P(r, p->CircleRadius(lat)); P(r, p->CircleHeight(lat)); P(r, p->MeridianDistance(lat)); P(r, p->MeridionalCurvatureRadius(lat)); P(r, p->TransverseCurvatureRadius(lat)); P(r, p->NormalCurvatureRadius(lat2, azi)); });
  }
  S.add("constants", [=](Res& r) { P(r, p->QuarterMeridian()); P(r, p->Area()); P(r, p->Volume()); P(r, p->EccentricitySq()); P(r, p->SecondEccentricitySq()); P(r, p->ThirdEccentricitySq()); P(r, p->ThirdFlattening()); P(r, p->SecondFlattening()); });
}
static Suite mk_ellipsoid(uint64_t seed, bool) {
  Suite S; S.cls = "Ellipsoid"; Rng g(seed); Ell e = pickEll(g);
  auto pp = S.own(new Ellipsoid(e.a, e.f)); ellipsoid_calls(S, mkref(pp), g, 12);
  return S;
}
static void auxlat_calls(Suite& S, Ref<AuxLatitude> p, const DAuxLatitude* dp, Rng& g, bool allowexact) {
  const int N = AuxLatitude::AUXNUMBER;
  // every (auxin, auxout) pair, authalic source first (series and exact)
  for (int in = N - 1; in >= 0; --in) for (int out = 0; out < N; ++out) {
    double z = g.range(-89, 89), z2 = g.range(-89, 89); std::string t = std::to_string(in) + ">" + std::to_string(out);
    S.add("Convert[series]#" + t, [=](Res& r) { P(r, p->Convert(in, out, z, false)); Pa(r, p->Convert(in, out, AuxAngle::degrees(z2), false)); });
    if (allowexact) S.add("Convert[exact]#" + t, [=](Res& r) { P(r, p->Convert(in, out, z, true)); });
    if (dp) S.add("DConvert#" + t, [=](Res& r) { P(r, dp->DConvert(in, out, AuxAngle::degrees(z), AuxAngle::degrees(z2))); });
  }
  for (int k = 0; k < 4; ++k) {
    double z = g.range(-89, 89), z2 = g.range(-89, 89); std::string t = std::to_string(k);
    S.add("ToFrom#" + t, [=](Res& r) { for (int a = 0; a < N; ++a) { double d = 0; AuxAngle u = p->ToAuxiliary(a, AuxAngle::degrees(z), &d); Pa(r, u); P(r, d); int niter = 0; Pa(r, p->FromAuxiliary(a, u, &niter)); Pi(r, niter); } });
    if (dp) S.add("Ddiv#" + t, [=](Res& r) { AuxAngle x = AuxAngle::degrees(z), y = AuxAngle::degrees(z2); P(r, dp->DParametric(x, y)); P(r, dp->DRectifying(x, y)); P(r, dp->DIsometric(x, y)); });
  }
  S.add("radii", [=](Res& r) { P(r, p->RectifyingRadius(false)); P(r, p->RectifyingRadius(true)); P(r, p->AuthalicRadiusSquared(false)); P(r, p->AuthalicRadiusSquared(true)); });
}
static Suite mk_auxlat(uint64_t seed, bool) {
  Suite S; S.cls = "AuxLatitude"; Rng g(seed); Ell e = pickEll(g, false, true);
  auto dp = S.own(new DAuxLatitude(e.a, e.f));                 // DAuxLatitude is-an AuxLatitude: one shared object, both interfaces
  auxlat_calls(S, mkref(static_cast<const AuxLatitude*>(dp.get())), dp.get(), g, true);
  auto ap = S.own(new AuxLatitude(AuxLatitude::axes(e.a, e.a * (1 - e.f))));   // the other constructor
  Suite T; T.cls = "AuxLatitude(axes)"; auxlat_calls(T, mkref(ap), nullptr, g, false);
  for (auto& c : T.calls) S.calls.push_back(c);
  return S;
}
static Suite mk_elliptic(uint64_t seed, bool) {
  Suite S; S.cls = "EllipticFunction"; Rng g(seed);
  static const double k2s[] = {0, 0.5, 0.99, -3.0, 0.006694379990141317, 1 - 1e-9}; static const double a2s[] = {0, 0.3, -2.0, 0.9};
  for (int j = 0; j < 2; ++j) {
    auto pp = S.own(new EllipticFunction(k2s[g.next() % 6], a2s[g.next() % 4])); const EllipticFunction* p = pp.get();
    for (int k = 0; k < 6; ++k) {
      double phi = g.range(-7, 7), x = g.range(-10, 10); std::string t = std::to_string(j) + "." + std::to_string(k);
      S.add("incomplete#" + t, [=](Res& r) { P(r, p->F(phi)); P(r, p->E(phi)); P(r, p->Ed(phi * 50)); P(r, p->Pi(phi)); P(r, p->D(phi)); P(r, p->G(phi)); P(r, p->H(phi)); P(r, p->Einv(x)); });
      S.add("jacobi#" + t, [=](Res& r) { double sn, cn, dn; p->sncndn(x, sn, cn, dn); P(r, sn); P(r, cn); P(r, dn); P(r, p->Delta(sn, cn)); P(r, p->deltaF(sn, cn, dn)); P(r, p->deltaE(sn, cn, dn)); P(r, p->deltaPi(sn, cn, dn)); P(r, p->deltaD(sn, cn, dn)); P(r, p->deltaG(sn, cn, dn)); P(r, p->deltaH(sn, cn, dn)); P(r, p->deltaEinv(std::sin(phi), std::cos(phi))); double s2, c2, d2; P(r, p->am(x, s2, c2, d2)); P(r, s2); });
    }
    S.add("complete#" + std::to_string(j), [=](Res& r) { P(r, p->K()); P(r, p->E()); P(r, p->D()); P(r, p->KE()); P(r, p->Pi()); P(r, p->G()); P(r, p->H()); P(r, p->k2()); P(r, p->alpha2()); });
  }
  S.add("carlson", [=](Res& r) { P(r, EllipticFunction::RF(1, 2, 3)); P(r, EllipticFunction::RF(1, 2)); P(r, EllipticFunction::RC(1, 2)); P(r, EllipticFunction::RG(1, 2, 3)); P(r, EllipticFunction::RG(1, 2)); P(r, EllipticFunction::RJ(1, 2, 3, 4)); P(r, EllipticFunction::RD(1, 2, 3)); });
  return S;
}
static void normgrav_calls(Suite& S, Ref<NormalGravity> p, Rng& g, int n) {
  for (int k = 0; k < n; ++k) {
    double lat = lat_(g), h = g.range(-1e4, 1e6), X = g.range(-8e6, 8e6), Y = g.range(-8e6, 8e6), Z = g.range(-8e6, 8e6); std::string t = std::to_string(k);
    S.add("Gravity#" + t, [=](Res& r) { double gy, gz; P(r, p->Gravity(lat, h, gy, gz)); P(r, gy); P(r, gz); P(r, p->SurfaceGravity(lat)); });
    S.add("U#" + t, [=](Res& r) { double a, b, c; P(r, p->U(X, Y, Z, a, b, c)); P(r, a); P(r, b); P(r, c); P(r, p->V0(X, Y, Z, a, b, c)); P(r, a); double fx, fy; P(r, p->Phi(X, Y, fx, fy)); P(r, fx); P(r, fy); });
  }
  S.add("constants", [=](Res& r) { P(r, p->EquatorialRadius()); P(r, p->MassConstant()); P(r, p->DynamicalFormFactor(2)); P(r, p->DynamicalFormFactor(4)); P(r, p->DynamicalFormFactor(8)); P(r, p->AngularVelocity()); P(r, p->Flattening()); P(r, p->EquatorialGravity()); P(r, p->PolarGravity()); P(r, p->GravityFlattening()); P(r, p->SurfacePotential());
    P(r, NormalGravity::J2ToFlattening(6378137, 3.986004418e14, 7.292115e-5, 1.08263e-3)); P(r, NormalGravity::FlatteningToJ2(6378137, 3.986004418e14, 7.292115e-5, 1 / 298.25)); P(r, p->Earth().Flattening()); });
}
static Suite mk_normalgravity(uint64_t seed, bool) {
  Suite S; S.cls = "NormalGravity"; Rng g(seed);
  auto pp = S.own(g.coin() ? new NormalGravity(Constants::WGS84_a(), Constants::WGS84_GM(), Constants::WGS84_omega(), Constants::WGS84_f(), true)
                           : new NormalGravity(Constants::GRS80_a(), Constants::GRS80_GM(), Constants::GRS80_omega(), Constants::GRS80_J2(), false));
  normgrav_calls(S, mkref(pp), g, 10);
  return S;
}
struct HarmData { std::vector<double> C, S, C1, S1; int N; double a; };
static Suite mk_harmonic(uint64_t seed, bool) {
  Suite S; S.cls = "SphericalHarmonic"; Rng g(seed);
  auto d = S.own(new HarmData()); d->N = 4 + int(g.next() % 12); d->a = 6378137.0; int N = d->N;
  int nc = SphericalEngine::coeff::Csize(N, N), ns = SphericalEngine::coeff::Ssize(N, N);
  for (int i = 0; i < nc; ++i) { d->C.push_back(g.range(-1, 1) / (1 + i)); d->C1.push_back(g.range(-1, 1) / (1 + i)); }
  for (int i = 0; i < ns; ++i) { d->S.push_back(g.range(-1, 1) / (1 + i)); d->S1.push_back(g.range(-1, 1) / (1 + i)); }
  SphericalEngine::RootTable(N + 2);                          // "after RootTable": the growth itself is a documented exclusion
  unsigned norm = g.coin() ? SphericalHarmonic::FULL : SphericalHarmonic::SCHMIDT;
  auto hp = S.own(new SphericalHarmonic(d->C, d->S, N, d->a, norm)); const SphericalHarmonic* h = hp.get();
  auto h1p = S.own(new SphericalHarmonic1(d->C, d->S, N, d->C1, d->S1, N, d->a, norm)); const SphericalHarmonic1* h1 = h1p.get();
  auto h2p = S.own(new SphericalHarmonic2(d->C, d->S, N, d->C1, d->S1, N, d->C1, d->S, N, d->a, norm)); const SphericalHarmonic2* h2 = h2p.get();
  double p0 = g.range(6.4e6, 7e6), z0 = g.range(-3e6, 3e6);
  auto cp = S.own(new CircularEngine(h->Circle(p0, z0, true))); const CircularEngine* c = cp.get();
  for (int k = 0; k < 8; ++k) {
    double x = g.range(-7e6, 7e6), y = g.range(-7e6, 7e6), z = g.range(-7e6, 7e6), lon = lon_(g), t1 = g.range(-2, 2), t2 = g.range(-2, 2); std::string t = std::to_string(k);
    if (k == 0) { x = 0; y = 0; }                            // on the axis
    S.add("operator()#" + t, [=](Res& r) { double gx, gy, gz; P(r, (*h)(x, y, z)); P(r, (*h)(x, y, z, gx, gy, gz)); P(r, gx); P(r, gy); P(r, gz); });
    S.add("SphericalHarmonic1::operator()#" + t, [=](Res& r) { double gx, gy, gz; P(r, (*h1)(t1, x, y, z)); P(r, (*h1)(t1, x, y, z, gx, gy, gz)); P(r, gx); P(r, gy); P(r, gz); });
    S.add("SphericalHarmonic2::operator()#" + t, [=](Res& r) { double gx, gy, gz; P(r, (*h2)(t1, t2, x, y, z)); P(r, (*h2)(t1, t2, x, y, z, gx, gy, gz)); P(r, gx); P(r, gy); P(r, gz); });
    S.add("Circle#" + t, [=](Res& r) { CircularEngine ce = h->Circle(std::hypot(x, y) + 1, z, true); double gx, gy, gz; P(r, ce(lon, gx, gy, gz)); P(r, gx); P(r, gy); P(r, gz); CircularEngine c1 = h1->Circle(t1, std::hypot(x, y) + 1, z, false); P(r, c1(lon)); });
    S.add("CircularEngine::operator()#" + t, [=](Res& r) { double gx, gy, gz; P(r, (*c)(lon)); P(r, (*c)(lon, gx, gy, gz)); P(r, gx); P(r, gy); P(r, gz); });
  }
  return S;
}
// ---- synthetic data files (gravity / magnetic model, geoid raster) ------------------------------------------
static std::string tmpdir() { static std::string d; if (d.empty()) { char t[] = "/tmp/gvc14XXXXXX"; d = mkdtemp(t); } return d; }
static std::vector<std::string>& tmpfiles() { static std::vector<std::string> v; return v; }
static void wr_i(std::ofstream& f, int v) { f.write(reinterpret_cast<const char*>(&v), 4); }
static void wr_d(std::ofstream& f, double v) { f.write(reinterpret_cast<const char*>(&v), 8); }
static void wr_coeffs(std::ofstream& f, Rng& g, int N, bool zero0, double scale) {
  wr_i(f, N); wr_i(f, N); if (N < 0) return;
  int nc = (N + 1) * (N + 2) / 2, ns = nc - (N + 1);
  for (int i = 0; i < nc; ++i) wr_d(f, (i == 0 && zero0) ? 0.0 : scale * g.range(-1, 1) / (1 + i));
  for (int i = 0; i < ns; ++i) wr_d(f, scale * g.range(-1, 1) / (1 + i));
}
static std::string write_egm(uint64_t seed) {
  std::string name = "gvegm" + std::to_string(getpid()) + "_" + std::to_string(seed % 100000), base = tmpdir() + "/" + name;
  { std::ofstream m(base + ".egm"); m << "EGMF-1\nName " << name << "\nDescription synthetic\nReleaseDate 2026-01-01\nModelRadius 6378136.3\nModelMass 3986004.415e8\nAngularVelocity 7292115e-11\n"
      "ReferenceRadius 6378137\nReferenceMass 3986004.418e8\nFlattening 1/298.257223563\nHeightOffset -0.41\nCorrectionMultiplier 1\nNormalization full\nByteOrder little\nID GVEGMTST\n"; }
  { std::ofstream f(base + ".egm.cof", std::ios::binary); Rng g(seed); f.write("GVEGMTST", 8); int N = 6 + int(g.next() % 8);
    // gravitational part: C[0] = 0, C20 ~ -4.8e-4, rest small
    wr_i(f, N); wr_i(f, N); int nc = (N + 1) * (N + 2) / 2, ns = nc - (N + 1);
    for (int i = 0; i < nc; ++i) wr_d(f, i == 0 ? 0.0 : (i == 2 ? -4.841653e-4 : 1e-6 * g.range(-1, 1) / (1 + i)));
    for (int i = 0; i < ns; ++i) wr_d(f, 1e-6 * g.range(-1, 1) / (1 + i));
    wr_coeffs(f, g, 3, false, 0.1); }
  tmpfiles().push_back(base + ".egm"); tmpfiles().push_back(base + ".egm.cof");
  return name;
}
static std::string write_wmm(uint64_t seed) {
  std::string name = "gvwmm" + std::to_string(getpid()) + "_" + std::to_string(seed % 100000), base = tmpdir() + "/" + name;
  { std::ofstream m(base + ".wmm"); m << "WMMF-1\nName " << name << "\nDescription synthetic\nReleaseDate 2026-01-01\nRadius 6371200\nType linear\nEpoch 2025\nMinTime 2020\nMaxTime 2030\nMinHeight -10000\nMaxHeight 1000000\n"
      "NumModels 1\nNormalization schmidt\nByteOrder little\nID GVWMMTST\n"; }
  { std::ofstream f(base + ".wmm.cof", std::ios::binary); Rng g(seed); f.write("GVWMMTST", 8); int N = 4 + int(g.next() % 9);
    wr_coeffs(f, g, N, true, 30000.0); wr_coeffs(f, g, N, true, 100.0); }
  tmpfiles().push_back(base + ".wmm"); tmpfiles().push_back(base + ".wmm.cof");
  return name;
}
static Suite mk_gravity(uint64_t seed, bool) {
  Suite S; S.cls = "GravityModel"; Rng g(seed ^ 0x5bd1e995);
  std::string name = write_egm(seed);
  auto mp = S.own(new GravityModel(name, tmpdir())); const GravityModel* m = mp.get();
  double lat0 = g.range(-80, 80), h0 = g.range(0, 1e5);
  auto cp = S.own(new GravityCircle(m->Circle(lat0, h0, GravityModel::ALL))); const GravityCircle* c = cp.get();
  for (int k = 0; k < 8; ++k) {
    double lat = lat_(g), lon = lon_(g), h = g.range(-1e3, 1e5), X = g.range(-7e6, 7e6), Y = g.range(-7e6, 7e6), Z = g.range(-7e6, 7e6); std::string t = std::to_string(k);
    S.add("Gravity#" + t, [=](Res& r) { double a, b, cc; P(r, m->Gravity(lat, lon, h, a, b, cc)); P(r, a); P(r, b); P(r, cc); P(r, m->Disturbance(lat, lon, h, a, b, cc)); P(r, a); P(r, b); P(r, cc); P(r, m->GeoidHeight(lat, lon)); double Dg, xi, eta; m->SphericalAnomaly(lat, lon, h, Dg, xi, eta); P(r, Dg); P(r, xi); P(r, eta); });
    S.add("W#" + t, [=](Res& r) { double a, b, cc; P(r, m->W(X, Y, Z, a, b, cc)); P(r, a); P(r, b); P(r, cc); P(r, m->V(X, Y, Z, a, b, cc)); P(r, a); P(r, m->T(X, Y, Z, a, b, cc)); P(r, a); P(r, m->T(X, Y, Z)); P(r, m->U(X, Y, Z, a, b, cc)); P(r, m->Phi(X, Y, a, b)); });
    S.add("Circle#" + t, [=](Res& r) { GravityCircle gc = m->Circle(lat, h, GravityModel::GRAVITY | GravityModel::GEOID_HEIGHT); double a, b, cc; P(r, gc.Gravity(lon, a, b, cc)); P(r, a); });
    S.add("GravityCircle#" + t, [=](Res& r) { double a, b, cc; P(r, c->Gravity(lon, a, b, cc)); P(r, a); P(r, b); P(r, cc); P(r, c->Disturbance(lon, a, b, cc)); P(r, a); P(r, c->GeoidHeight(lon)); double Dg, xi, eta; c->SphericalAnomaly(lon, Dg, xi, eta); P(r, Dg); P(r, xi); P(r, eta); P(r, c->W(lon, a, b, cc)); P(r, c->V(lon, a, b, cc)); P(r, c->T(lon, a, b, cc)); P(r, c->T(lon)); });
  }
  S.add("accessors", [=](Res& r) { P(r, m->MassConstant()); P(r, m->EquatorialRadius()); P(r, m->ReferenceMassConstant()); P(r, m->AngularVelocity()); P(r, m->Flattening()); Pi(r, m->Degree()); Pi(r, m->Order()); Ps(r, m->Description()); Ps(r, m->GravityModelName()); });
  return S;
}
static Suite mk_magnetic(uint64_t seed, bool) {
  Suite S; S.cls = "MagneticModel"; Rng g(seed ^ 0x2545F491);
  std::string name = write_wmm(seed);
  auto mp = S.own(new MagneticModel(name, tmpdir())); const MagneticModel* m = mp.get();
  double t0 = g.range(2020, 2030), lat0 = g.range(-80, 80), h0 = g.range(0, 1e5);
  auto cp = S.own(new MagneticCircle(m->Circle(t0, lat0, h0))); const MagneticCircle* c = cp.get();
  for (int k = 0; k < 10; ++k) {
    double tt = g.range(2019, 2031), lat = lat_(g), lon = lon_(g), h = g.range(-1e3, 1e5); std::string t = std::to_string(k);
    S.add("operator()#" + t, [=](Res& r) { double a, b, cc, d, e, f; (*m)(tt, lat, lon, h, a, b, cc); P(r, a); P(r, b); P(r, cc); (*m)(tt, lat, lon, h, a, b, cc, d, e, f); P(r, a); P(r, d); P(r, e); P(r, f);
      double H, F, D, I, Ht, Ft, Dt, It; MagneticModel::FieldComponents(a, b, cc, d, e, f, H, F, D, I, Ht, Ft, Dt, It); P(r, H); P(r, F); P(r, D); P(r, I); P(r, Ht); P(r, Ft); P(r, Dt); P(r, It); });
    S.add("FieldGeocentric#" + t, [=](Res& r) { double a, b, cc, d, e, f; m->FieldGeocentric(tt, 6.4e6 * std::cos(lat), 1e5 * std::sin(lon), 6.4e6 * std::sin(lat) * 0.9, a, b, cc, d, e, f); P(r, a); P(r, b); P(r, cc); P(r, d); P(r, e); P(r, f); });
    S.add("Circle#" + t, [=](Res& r) { MagneticCircle mc = m->Circle(tt, lat, h); double a, b, cc; mc(lon, a, b, cc); P(r, a); P(r, b); P(r, cc); });
    S.add("MagneticCircle#" + t, [=](Res& r) { double a, b, cc, d, e, f; (*c)(lon, a, b, cc); P(r, a); P(r, b); P(r, cc); (*c)(lon, a, b, cc, d, e, f); P(r, d); P(r, e); P(r, f); c->FieldGeocentric(lon, a, b, cc, d, e, f); P(r, a); P(r, f); });
  }
  S.add("accessors", [=](Res& r) { P(r, m->MinHeight()); P(r, m->MaxHeight()); P(r, m->MinTime()); P(r, m->MaxTime()); P(r, m->EquatorialRadius()); P(r, m->Flattening()); Pi(r, m->Degree()); Pi(r, m->Order()); Ps(r, m->Description()); Ps(r, m->MagneticModelName()); });
  return S;
}
static uint64_t mix(uint64_t z) { z += 0x9e3779b97f4a7c15ULL; z = (z ^ (z >> 30)) * 0xbf58476d1ce4e5b9ULL; z = (z ^ (z >> 27)) * 0x94d049bb133111ebULL; return z ^ (z >> 31); }
static std::string write_pgm(uint64_t seed, int w, int h) {
  std::string name = "gvgeoid" + std::to_string(getpid()) + "_" + std::to_string(seed % 100000), path = tmpdir() + "/" + name + ".pgm";
  { std::ofstream f(path, std::ios::binary); f << "P5\n# Description synthetic raster\n# Offset -108\n# Scale 0.003\n# MaxBilinearError 0.1\n" << w << " " << h << "\n65535\n";
    for (long i = 0; i < long(w) * h; ++i) { unsigned p = unsigned(mix(seed + uint64_t(i)) & 0xffff); f.put(char(p >> 8)); f.put(char(p & 0xff)); } }
  tmpfiles().push_back(path);
  return name;
}
static Suite mk_geoid(uint64_t seed, bool) {
  Suite S; S.cls = "Geoid(threadsafe)"; Rng g(seed ^ 0x9E3779B1);
  int w = 2 * (2 + int(g.next() % 12)), h = 2 * (2 + int(g.next() % 8)) + 1;
  std::string name = write_pgm(seed, w, h);
  for (int cubic = 0; cubic < 2; ++cubic) {
    auto gp = S.own(new Geoid(name, tmpdir(), cubic == 1, true)); const Geoid* geoid = gp.get();
    for (int k = 0; k < 16; ++k) {
      double lat = lat_(g), lon = lon_(g), hh = g.range(-100, 9000); std::string t = std::to_string(cubic) + "." + std::to_string(k);
      if (k % 4 == 1) { lat = 90 - 180.0 * int(g.next() % h) / (h - 1); lon = 360.0 * int(g.next() % w) / w; }     // on a node
      S.add("operator()#" + t, [=](Res& r) { P(r, (*geoid)(lat, lon)); P(r, geoid->ConvertHeight(lat, lon, hh, Geoid::GEOIDTOELLIPSOID)); });
    }
    S.add("accessors#" + std::to_string(cubic), [=](Res& r) { Pi(r, geoid->ThreadSafe()); Pi(r, geoid->Cache()); P(r, geoid->CacheWest()); P(r, geoid->CacheEast()); P(r, geoid->CacheNorth()); P(r, geoid->CacheSouth()); P(r, geoid->Offset()); P(r, geoid->Scale()); Ps(r, geoid->Interpolation());
      // changing the cache of a thread-safe geoid must be refused (and must not write)
      bool threw = false; try { geoid->CacheArea(-10, 0, 10, 20); } catch (const GeographicErr&) { threw = true; } Pi(r, threw); geoid->CacheClear(); Pi(r, geoid->Cache()); });
  }
  return S;
}
// ---- projections built on a shared geodesic solver, polygon-area test functions, DST, Accumulator -----------------
static Suite mk_geodproj(uint64_t seed, bool) {
  Suite S; S.cls = "GeodesicProjections"; Rng g(seed); Ell e = pickEll(g, false, true);
  auto gp = S.own(new Geodesic(e.a, e.f)); auto gx = S.own(new Geodesic(e.a, e.f, true));
  for (int j = 0; j < 2; ++j) {
    const Geodesic* geod = j ? gx.get() : gp.get();
    auto ae = S.own(new AzimuthalEquidistant(*geod)); auto gn = S.own(new Gnomonic(*geod));
    double lat0 = g.range(-80, 80), lon0 = lon_(g);
    auto cs = S.own(new CassiniSoldner(lat0, lon0, *geod));
    const AzimuthalEquidistant* a = ae.get(); const Gnomonic* n = gn.get(); const CassiniSoldner* c = cs.get();
    for (int k = 0; k < 6; ++k) {
      double lat = std::fmax(-89.0, std::fmin(89.0, lat0 + g.range(-30, 30))), lon = lon0 + g.range(-40, 40), x = g.range(-2e6, 2e6), y = g.range(-2e6, 2e6); std::string t = std::to_string(j) + "." + std::to_string(k);
      S.add("AzimuthalEquidistant#" + t, [=](Res& r) { double X, Y, az, rk; a->Forward(lat0, lon0, lat, lon, X, Y, az, rk); P(r, X); P(r, Y); P(r, az); P(r, rk); double la, lo; a->Reverse(lat0, lon0, x, y, la, lo, az, rk); P(r, la); P(r, lo); P(r, az); P(r, rk); P(r, a->EquatorialRadius()); });
      S.add("Gnomonic#" + t, [=](Res& r) { double X, Y, az, rk; n->Forward(lat0, lon0, lat, lon, X, Y, az, rk); P(r, X); P(r, Y); P(r, az); P(r, rk); double la, lo; n->Reverse(lat0, lon0, x, y, la, lo, az, rk); P(r, la); P(r, lo); P(r, az); P(r, rk); P(r, n->Flattening()); });
      S.add("CassiniSoldner#" + t, [=](Res& r) { double X, Y, az, rk; c->Forward(lat, lon, X, Y, az, rk); P(r, X); P(r, Y); P(r, az); P(r, rk); double la, lo; c->Reverse(x, y, la, lo, az, rk); P(r, la); P(r, lo); P(r, az); P(r, rk); P(r, c->LatitudeOrigin()); P(r, c->LongitudeOrigin()); });
    }
  }
  return S;
}
template<class PA, class G> static void poly_calls(Suite& S, const char* nm, const G* geod, Rng& g) {
  for (int pl = 0; pl < 2; ++pl) {
    auto pp = S.own(new PA(*geod, pl == 1)); PA* q = pp.get();
    double la = g.range(-60, 60), lo = lon_(g);
    for (int k = 0; k < 5; ++k) q->AddPoint(la + 10 * std::sin(1.3 * k) + g.range(-1, 1), lo + 12 * std::cos(1.3 * k));
    if (pl == 0) q->AddEdge(g.range(-180, 180), g.range(1e4, 1e6));
    const PA* p = q;
    for (int k = 0; k < 4; ++k) {
      double lat = la + g.range(-20, 20), lon = lo + g.range(-20, 20), azi = azi_(g), s = g.range(1e3, 2e6); bool rev = g.coin(), sign = g.coin(); std::string t = std::string(nm) + std::to_string(pl) + "." + std::to_string(k);
      S.add("Compute/TestPoint/TestEdge#" + t, [=](Res& r) { double per = 1, ar = 2; Pi(r, p->Compute(rev, sign, per, ar)); P(r, per); P(r, ar); Pi(r, p->TestPoint(lat, lon, rev, sign, per, ar)); P(r, per); P(r, ar); Pi(r, p->TestEdge(azi, s, rev, sign, per, ar)); P(r, per); P(r, ar);
        double a1, b1; p->CurrentPoint(a1, b1); P(r, a1); P(r, b1); P(r, p->EquatorialRadius()); });
    }
  }
}
static Suite mk_polygon(uint64_t seed, bool) {
  Suite S; S.cls = "PolygonArea"; Rng g(seed); Ell e = pickEll(g, false, true);
  auto g1 = S.own(new Geodesic(e.a, e.f)); auto g2 = S.own(new GeodesicExact(e.a, e.f)); auto g3 = S.own(new Rhumb(e.a, e.f, g.coin()));
  poly_calls<PolygonArea, Geodesic>(S, "series", g1.get(), g); poly_calls<PolygonAreaExact, GeodesicExact>(S, "exact", g2.get(), g); poly_calls<PolygonAreaRhumb, Rhumb>(S, "rhumb", g3.get(), g);
  return S;
}
// generic = false: 5-smooth sizes (the only ones GeodesicExact uses, cf. fft_sizes_smooth); generic = true: 2N has a prime factor > 5, so
// that kissfft takes its generic butterfly (DST used directly by a caller)
static Suite mk_dst(const char* cls, bool generic, uint64_t seed, bool) {
  Suite S; S.cls = cls; Rng g(seed);
  static const int Ns[] = {4, 6, 12, 48, 96, 7, 11, 35};
  for (int j = 0; j < 3; ++j) {
    int N = Ns[(g.next() % (generic ? 3 : 5)) + (generic ? 5 : 0)];
    auto dp = S.own(new DST(N)); const DST* d = dp.get();
    for (int k = 0; k < 4; ++k) {
      double c1 = g.range(-1, 1), c2 = g.range(-1, 1), x = g.range(-3, 3), y = g.range(-3, 3); std::string t = std::to_string(j) + "." + std::to_string(k);
      S.add("transform/refine/eval#" + t, [=](Res& r) { std::vector<double> F(size_t(2 * N), 0.0); auto f = [=](double th) { return c1 * std::sin(th) + c2 * std::sin(3 * th) / (2 + std::cos(th)); };
        d->transform(f, F.data()); for (int i = 0; i < N; ++i) P(r, F[size_t(i)]); d->refine(f, F.data()); for (int i = 0; i < 2 * N; i += 3) P(r, F[size_t(i)]);
        P(r, DST::eval(std::sin(x), std::cos(x), F.data(), N)); P(r, DST::integral(std::sin(x), std::cos(x), F.data(), N)); P(r, DST::integral(std::sin(x), std::cos(x), std::sin(y), std::cos(y), F.data(), N)); Pi(r, d->N()); });
    }
  }
  return S;
}
static Suite mk_accumulator(uint64_t seed, bool) {
  Suite S; S.cls = "Accumulator"; Rng g(seed);
  for (int j = 0; j < 2; ++j) {
    auto ap = S.own(new Accumulator<double>(g.range(-1e10, 1e10))); Accumulator<double>* q = ap.get();
    for (int k = 0; k < 20; ++k) *q += g.range(-1, 1) * std::ldexp(1.0, int(g.next() % 80) - 40);
    const Accumulator<double>* a = q;
    for (int k = 0; k < 6; ++k) {
      double y = g.range(-1e6, 1e6); std::string t = std::to_string(j) + "." + std::to_string(k);
      S.add("operator()#" + t, [=](Res& r) { P(r, (*a)()); P(r, (*a)(y)); Pi(r, *a == y); Pi(r, *a != y); Pi(r, *a < y); Pi(r, *a <= y); Pi(r, *a > y); Pi(r, *a >= y); Accumulator<double> b(*a); b += y; P(r, b()); });
    }
  }
  return S;
}
// ---- static (class-level) functions ----------------------------------------------------------------------------
static void utm_calls(Suite& S, Rng& g, int n) {
  for (int k = 0; k < n; ++k) {
    double lat = (k % 5 == 0 ? (g.coin() ? 1 : -1) * g.range(80, 90) : g.range(-80, 84)), lon = lon_(g); int prec = int(g.next() % 12) - 1; std::string t = std::to_string(k);
    S.add("UTMUPS::Forward/Reverse/Transfer#" + t, [=](Res& r) { int z; bool np; double x, y, gam, kk; UTMUPS::Forward(lat, lon, z, np, x, y, gam, kk); Pi(r, z); Pi(r, np); P(r, x); P(r, y); P(r, gam); P(r, kk);
      double la, lo; UTMUPS::Reverse(z, np, x, y, la, lo, gam, kk); P(r, la); P(r, lo); P(r, gam); P(r, kk);
      Pi(r, UTMUPS::StandardZone(lat, lon)); std::string zs = UTMUPS::EncodeZone(z, np, k % 2 == 0); Ps(r, zs); int z2; bool np2; UTMUPS::DecodeZone(zs, z2, np2); Pi(r, z2); Pi(r, np2);
      int ep = UTMUPS::EncodeEPSG(z, np); Pi(r, ep); if (ep >= 0) { UTMUPS::DecodeEPSG(ep, z2, np2); Pi(r, z2); }
      if (z > 0) { int zo; double x2, y2; UTMUPS::Transfer(z, np, x, y, z == 60 ? 1 : z + 1, np, x2, y2, zo); P(r, x2); P(r, y2); Pi(r, zo); }
      P(r, UTMUPS::UTMShift()); P(r, UTMUPS::EquatorialRadius()); });
    S.add("MGRS::Forward/Reverse#" + t, [=](Res& r) { int z; bool np; double x, y; UTMUPS::Forward(lat, lon, z, np, x, y); std::string m; MGRS::Forward(z, np, x, y, lat, prec, m); Ps(r, m);
      std::string m2; MGRS::Forward(z, np, x, y, prec, m2); Ps(r, m2); int z2, p2; bool np2; double x2, y2; MGRS::Reverse(m, z2, np2, x2, y2, p2, k % 2 == 0); Pi(r, z2); Pi(r, np2); P(r, x2); P(r, y2); Pi(r, p2);
      std::string gz, blk, ea, no; MGRS::Decode(m, gz, blk, ea, no); Ps(r, gz); Ps(r, blk); Ps(r, ea); Ps(r, no); });
  }
  S.add("MGRS::Check", [=](Res& r) { MGRS::Check(); Pi(r, 1); });
}
static void osgb_calls(Suite& S, Rng& g, int n) {
  for (int k = 0; k < n; ++k) {
    double lat = g.range(50, 60), lon = g.range(-7, 1.5); int prec = int(g.next() % 12); std::string t = std::to_string(k);
    S.add("OSGB::Forward/Reverse/GridReference#" + t, [=](Res& r) { double x, y, gam, kk; OSGB::Forward(lat, lon, x, y, gam, kk); P(r, x); P(r, y); P(r, gam); P(r, kk); double la, lo; OSGB::Reverse(x, y, la, lo, gam, kk); P(r, la); P(r, lo); P(r, gam); P(r, kk);
      std::string gr; OSGB::GridReference(x, y, prec, gr); Ps(r, gr); double x2, y2; int p2; OSGB::GridReference(gr, x2, y2, p2, k % 2 == 0); P(r, x2); P(r, y2); Pi(r, p2);
      P(r, OSGB::EquatorialRadius()); P(r, OSGB::Flattening()); P(r, OSGB::CentralScale()); });
  }
}
static Suite mk_static(uint64_t seed, bool) {
  Suite S; S.cls = "static"; Rng g(seed);
  utm_calls(S, g, 10); osgb_calls(S, g, 6);
  for (int k = 0; k < 10; ++k) {
    double lat = lat_(g), lon = lon_(g), ang = g.range(-400, 400); int len = int(g.next() % 20), prec = int(g.next() % 14) - 1; std::string t = std::to_string(k);
    S.add("Geohash#" + t, [=](Res& r) { std::string s; Geohash::Forward(lat, lon, len, s); Ps(r, s); double la, lo; int l2; Geohash::Reverse(s, la, lo, l2, k % 2 == 0); P(r, la); P(r, lo); Pi(r, l2); P(r, Geohash::LatitudeResolution(len)); P(r, Geohash::LongitudeResolution(len)); Pi(r, Geohash::GeohashLength(1e-3 * (k + 1))); Pi(r, Geohash::DecimalPrecision(len)); });
    S.add("GARS#" + t, [=](Res& r) { std::string s; GARS::Forward(lat, lon, prec % 3, s); Ps(r, s); double la, lo; int p2; GARS::Reverse(s, la, lo, p2, k % 2 == 0); P(r, la); P(r, lo); Pi(r, p2); P(r, GARS::Resolution(prec)); Pi(r, GARS::Precision(0.1 * k)); });
    S.add("Georef#" + t, [=](Res& r) { std::string s; Georef::Forward(lat, lon, prec, s); Ps(r, s); double la, lo; int p2; Georef::Reverse(s, la, lo, p2, k % 2 == 0); P(r, la); P(r, lo); Pi(r, p2); P(r, Georef::Resolution(prec)); Pi(r, Georef::Precision(0.01 * k)); });
    S.add("DMS#" + t, [=](Res& r) { std::string s = DMS::Encode(ang, DMS::component(k % 3), unsigned(k % 8), DMS::flag(k % 4 == 3 ? DMS::AZIMUTH : k % 4), k % 2 ? ':' : char(0)); Ps(r, s); DMS::flag ind; P(r, DMS::Decode(s, ind)); Pi(r, ind);
      std::string a = DMS::Encode(lat, unsigned(k % 6), DMS::LATITUDE), b = DMS::Encode(Math::AngNormalize(lon), unsigned(k % 6), DMS::LONGITUDE); double la, lo; DMS::DecodeLatLon(k % 2 ? a : b, k % 2 ? b : a, la, lo, false); P(r, la); P(r, lo);
      P(r, DMS::DecodeAngle("-12d30'15.5\"")); P(r, DMS::DecodeAzimuth("20d30'E")); P(r, DMS::Decode("40:26:47N", ind)); P(r, DMS::Decode("12\xc2\xb0" "30\xe2\x80\xb2" "15\xe2\x80\xb3S", ind)); double d, mm, ss; DMS::Encode(ang, d, mm, ss); P(r, d); P(r, mm); P(r, ss); });
  }
  return S;
}
// ---- the built-in singletons, first touched concurrently --------------------------------------------------------
// !fresh: the library's singletons; the accessor is evaluated inside the worker threads (nothing in this process has
// touched them before).  fresh: separately constructed objects with the documented parameters (never shared).
#define SINGLETON(T, acc) (Ref<T>{[]() -> const T& { return acc; }})
static Suite mk_singletons(uint64_t seed, bool fresh) {
  Suite S; S.cls = "Singletons"; Rng g(seed);
  const double a = Constants::WGS84_a(), f = Constants::WGS84_f();
  Ref<Geodesic> G = fresh ? mkref(S.own(new Geodesic(a, f))) : SINGLETON(Geodesic, Geodesic::WGS84());
  Ref<GeodesicExact> GX = fresh ? mkref(S.own(new GeodesicExact(a, f))) : SINGLETON(GeodesicExact, GeodesicExact::WGS84());
  Ref<Rhumb> R = fresh ? mkref(S.own(new Rhumb(a, f))) : SINGLETON(Rhumb, Rhumb::WGS84());
  Ref<TransverseMercator> TM = fresh ? mkref(S.own(new TransverseMercator(a, f, Constants::UTM_k0()))) : SINGLETON(TransverseMercator, TransverseMercator::UTM());
  Ref<TransverseMercatorExact> TMX = fresh ? mkref(S.own(new TransverseMercatorExact(a, f, Constants::UTM_k0()))) : SINGLETON(TransverseMercatorExact, TransverseMercatorExact::UTM());
  Ref<PolarStereographic> PS = fresh ? mkref(S.own(new PolarStereographic(a, f, Constants::UPS_k0()))) : SINGLETON(PolarStereographic, PolarStereographic::UPS());
  Ref<Ellipsoid> E = fresh ? mkref(S.own(new Ellipsoid(a, f))) : SINGLETON(Ellipsoid, Ellipsoid::WGS84());
  Ref<Geocentric> GC = fresh ? mkref(S.own(new Geocentric(a, f))) : SINGLETON(Geocentric, Geocentric::WGS84());
  Ref<AuxLatitude> AL = fresh ? mkref(S.own(new AuxLatitude(a, f))) : SINGLETON(AuxLatitude, AuxLatitude::WGS84());
  Ref<NormalGravity> NG = fresh ? mkref(S.own(new NormalGravity(a, Constants::WGS84_GM(), Constants::WGS84_omega(), f, true))) : SINGLETON(NormalGravity, NormalGravity::WGS84());
  Ref<NormalGravity> NG80 = fresh ? mkref(S.own(new NormalGravity(Constants::GRS80_a(), Constants::GRS80_GM(), Constants::GRS80_omega(), Constants::GRS80_J2(), false))) : SINGLETON(NormalGravity, NormalGravity::GRS80());
  Ref<LambertConformalConic> MERC = fresh ? mkref(S.own(new LambertConformalConic(a, f, 0.0, 1.0))) : SINGLETON(LambertConformalConic, LambertConformalConic::Mercator());
  Ref<AlbersEqualArea> CEA = fresh ? mkref(S.own(new AlbersEqualArea(a, f, 0.0, 1.0))) : SINGLETON(AlbersEqualArea, AlbersEqualArea::CylindricalEqualArea());
  Ref<AlbersEqualArea> AZN = fresh ? mkref(S.own(new AlbersEqualArea(a, f, 90.0, 1.0))) : SINGLETON(AlbersEqualArea, AlbersEqualArea::AzimuthalEqualAreaNorth());
  Ref<AlbersEqualArea> AZS = fresh ? mkref(S.own(new AlbersEqualArea(a, f, -90.0, 1.0))) : SINGLETON(AlbersEqualArea, AlbersEqualArea::AzimuthalEqualAreaSouth());
  S.image = nullptr;
  // the static grid functions come first: they reach UTM(), UPS(), OSGBTM() and the OSGB north offset
  S.cls = "static"; osgb_calls(S, g, 2); utm_calls(S, g, 3);
  S.cls = "GeodesicExact::WGS84()"; geod_calls<GeodesicExact, GeodesicLineExact>(S, GX, g, 2);
  S.cls = "Rhumb::WGS84()"; rhumb_calls(S, R, g, 3);
  S.cls = "Geodesic::WGS84()"; geod_calls<Geodesic, GeodesicLine>(S, G, g, 2);
  S.cls = "TransverseMercator::UTM()"; proj_calls(S, TM, g, 3, 9.0);
  S.cls = "TransverseMercatorExact::UTM()"; proj_calls(S, TMX, g, 3, 9.0);
  S.cls = "PolarStereographic::UPS()"; { double lat = g.range(60, 90), lon = lon_(g); S.add("Forward/Reverse", [=](Res& r) { double x, y, c, d; PS->Forward(true, lat, lon, x, y, c, d); P(r, x); P(r, y); P(r, c); P(r, d); PS->Reverse(false, x, y, c, d); P(r, c); P(r, d); }); }
  S.cls = "Ellipsoid::WGS84()"; ellipsoid_calls(S, E, g, 3);
  S.cls = "Geocentric::WGS84()"; { double lat = lat_(g), lon = lon_(g); S.add("Forward/Reverse", [=](Res& r) { double x, y, z; GC->Forward(lat, lon, 100, x, y, z); P(r, x); P(r, y); P(r, z); double h; GC->Reverse(x, y, z, x, y, h); P(r, x); P(r, y); P(r, h); }); }
  S.cls = "AuxLatitude::WGS84()"; auxlat_calls(S, AL, nullptr, g, true);
  S.cls = "NormalGravity::WGS84()"; normgrav_calls(S, NG, g, 2);
  S.cls = "NormalGravity::GRS80()"; normgrav_calls(S, NG80, g, 2);
  S.cls = "LambertConformalConic::Mercator()"; proj_calls(S, MERC, g, 2, 0.0);
  S.cls = "AlbersEqualArea::CylindricalEqualArea()"; proj_calls(S, CEA, g, 2, 0.0);
  S.cls = "AlbersEqualArea::AzimuthalEqualAreaNorth()"; proj_calls(S, AZN, g, 2, 0.0);
  S.cls = "AlbersEqualArea::AzimuthalEqualAreaSouth()"; proj_calls(S, AZS, g, 2, 0.0);
  S.cls = "Singletons";
  return S;
}

// ---------------------------------------------------------------------------------------------------------------
typedef std::function<Suite(uint64_t, bool)> Maker;
static std::vector<std::pair<std::string, Maker>>& suites() {
  static std::vector<std::pair<std::string, Maker>> v = {
    {"Singletons", mk_singletons},
    {"Geodesic", [](uint64_t s, bool f) { return mk_geodesic<Geodesic>("Geodesic", s, f); }},
    {"GeodesicExact", [](uint64_t s, bool f) { return mk_geodesic<GeodesicExact>("GeodesicExact", s, f); }},
    {"GeodesicLine", [](uint64_t s, bool f) { return mk_line<Geodesic, GeodesicLine>("GeodesicLine", s, f); }},
    {"GeodesicLineExact", [](uint64_t s, bool f) { return mk_line<GeodesicExact, GeodesicLineExact>("GeodesicLineExact", s, f); }},
    // area computations on strongly eccentric ellipsoids (DST size N > 32): GeodesicExact, the Geodesic wrapper with exact = true, and their lines
    {"GeodesicExact(eccentric)", [](uint64_t s, bool f) { return mk_ecc_geodesic<GeodesicExact>("GeodesicExact(eccentric)", s, f); }},
    {"GeodesicLineExact(eccentric)", [](uint64_t s, bool f) { return mk_ecc_line<GeodesicExact>("GeodesicLineExact(eccentric)", s, f); }},
    {"Geodesic(exact)", [](uint64_t s, bool f) { return mk_ecc_geodesic<Geodesic>("Geodesic(exact)", s, f); }},
    {"GeodesicLine(exact)", [](uint64_t s, bool f) { return mk_ecc_line<Geodesic>("GeodesicLine(exact)", s, f); }},
    {"Rhumb", [](uint64_t s, bool f) { return mk_rhumb("Rhumb", false, s, f); }},
    {"Rhumb(exact)", [](uint64_t s, bool f) { return mk_rhumb("Rhumb(exact)", true, s, f); }},
    {"RhumbLine", mk_rhumbline},
    {"TransverseMercator", mk_tm}, {"TransverseMercatorExact", mk_tmx}, {"PolarStereographic", mk_ps},
    {"LambertConformalConic", mk_lcc}, {"AlbersEqualArea", mk_albers}, {"Geocentric", mk_geocentric}, {"LocalCartesian", mk_localcartesian},
    {"Ellipsoid", mk_ellipsoid}, {"AuxLatitude", mk_auxlat}, {"EllipticFunction", mk_elliptic}, {"NormalGravity", mk_normalgravity},
    {"SphericalHarmonic", mk_harmonic}, {"GravityModel", mk_gravity}, {"MagneticModel", mk_magnetic}, {"Geoid(threadsafe)", mk_geoid},
    {"static", mk_static},
    {"GeodesicProjections", mk_geodproj}, {"PolygonArea", mk_polygon}, {"DST", [](uint64_t s, bool f) { return mk_dst("DST", false, s, f); }}, {"DST(generic)", [](uint64_t s, bool f) { return mk_dst("DST(generic)", true, s, f); }},
    {"Accumulator", mk_accumulator},
  };
  return v;
}

// ---- background construction: objects of EVERY class are constructed and destroyed by extra threads while the shared instance is
// in use (op mtc).  The square-root table of SphericalEngine is established first (RootTable, as SphericalEngine.hpp prescribes: its
// growth is a documented exclusion); the pool never asks for a higher degree.  The list of class names is the one the obligation
// `ctor_static_state_covered` is checked against (Model/Effects.lean `backgroundConstructed`).
struct PoolFiles { std::string egm, wmm, pgm; };
struct NNDist { double operator()(const int& a, const int& b) const { return std::fabs(double(a - b)); } };
static const int kRootDegree = 40;
static std::vector<std::pair<std::string, std::function<void(Rng&)>>> ctor_pool(const PoolFiles& pf) {
  std::vector<std::pair<std::string, std::function<void(Rng&)>>> v;
  auto ell = [](Rng& g) { return pickEll(g, true, true); };
  v.push_back({"Geodesic", [=](Rng& g) { Ell e = ell(g); Geodesic a(e.a, e.f), b(e.a, e.f, true); GeodesicLine l = a.Line(1, 2, 3); (void)l; }});
  v.push_back({"GeodesicExact", [=](Rng& g) { Ell e = ell(g); GeodesicExact a(e.a, g.coin() ? e.f : 0.75); GeodesicLineExact l = a.Line(1, 2, 3, GeodesicExact::ALL); (void)l; }});
  v.push_back({"Rhumb", [=](Rng& g) { Ell e = ell(g); Rhumb a(e.a, e.f, g.coin()); RhumbLine l = a.Line(1, 2, 3); (void)l; }});
  v.push_back({"TransverseMercator", [=](Rng& g) { Ell e = ell(g); TransverseMercator a(e.a, e.f, 0.9996, g.coin()); TransverseMercatorExact b(e.a, e.f, 0.9996, g.coin()); }});
  v.push_back({"PolarStereographic", [=](Rng& g) { Ell e = ell(g); PolarStereographic a(e.a, e.f, 0.994); LambertConformalConic b(e.a, e.f, 30, 50, 1); AlbersEqualArea c(e.a, e.f, 30, 50, 1); }});
  v.push_back({"Geocentric", [=](Rng& g) { Ell e = ell(g); Geocentric a(e.a, e.f); LocalCartesian b(10, 20, 30, a); Ellipsoid c(e.a, e.f); }});
  v.push_back({"AuxLatitude", [=](Rng& g) { Ell e = ell(g); AuxLatitude a(e.a, e.f); DAuxLatitude b(e.a, e.f); AuxLatitude c(AuxLatitude::axes(e.a, e.a * (1 - e.f))); EllipticFunction d(0.3, 0.1); d.Reset(0.5, 0.2); }});
  v.push_back({"NormalGravity", [=](Rng&) { NormalGravity a(Constants::WGS84_a(), Constants::WGS84_GM(), Constants::WGS84_omega(), Constants::WGS84_f(), true); }});
  v.push_back({"SphericalHarmonic", [=](Rng& g) { int N = 3 + int(g.next() % 12); int nc = SphericalEngine::coeff::Csize(N, N), ns = SphericalEngine::coeff::Ssize(N, N);
    std::vector<double> C(size_t(nc), 0.5), S(size_t(ns), 0.25); SphericalEngine::coeff co(C, S, N); SphericalHarmonic h(C, S, N, 6.4e6); SphericalHarmonic1 h1(C, S, N, C, S, N, 6.4e6); SphericalHarmonic2 h2(C, S, N, C, S, N, C, S, N, 6.4e6);
    CircularEngine ce = h.Circle(6.5e6, 1e5, true); (void)ce; SphericalEngine::RootTable(N); }});
  v.push_back({"GravityModel", [=](Rng&) { GravityModel m(pf.egm, tmpdir()); GravityCircle c = m.Circle(10, 100, GravityModel::ALL); (void)c; }});
  v.push_back({"MagneticModel", [=](Rng&) { MagneticModel m(pf.wmm, tmpdir()); MagneticCircle c = m.Circle(2025, 10, 100); (void)c; }});
  v.push_back({"Geoid", [=](Rng& g) { Geoid a(pf.pgm, tmpdir(), g.coin(), true); Geoid b(pf.pgm, tmpdir(), true, false); (void)b(10.0, 20.0); }});
  v.push_back({"DST", [=](Rng& g) { DST d(4 << (g.next() % 4)); d.reset(12); }});
  v.push_back({"GeodesicProjections", [=](Rng& g) { Ell e = ell(g); Geodesic geod(e.a, e.f); AzimuthalEquidistant a(geod); Gnomonic b(geod); CassiniSoldner c(10, 20, geod); c.Reset(20, 30); }});
  v.push_back({"PolygonArea", [=](Rng& g) { Ell e = ell(g); Geodesic geod(e.a, e.f); PolygonArea p(geod); p.AddPoint(1, 2); p.AddPoint(3, 4); p.AddPoint(1, 5); double a, b; p.Compute(false, true, a, b); p.Clear();
    Accumulator<double> acc(1.0); acc += 1e-20; acc = 3.0; GeoCoords gc(10.0, 23.5); gc.SetAltZone(35); (void)gc.AltEasting(); }});
  v.push_back({"Intersect", [=](Rng& g) { Ell e = ell(g); Geodesic geod(e.a, e.f); Intersect in(geod); Intersect::Point q = in.Closest(0, 0, 45, 1, 2, 135); (void)q; (void)in.NumInverse();
    std::vector<int> pts = {1, 5, 9, 20, 33}; NNDist dd; NearestNeighbor<double, int, NNDist> nn(pts, dd); std::vector<int> ind; nn.Search(pts, dd, 7, ind); int s1, s2, s3, s4, s5; double m, sd; nn.Statistics(s1, s2, s3, s4, s5, m, sd); }});
  return v;
}

static void run_mt(const std::string& cls, int nth, int iters, uint64_t seed, bool background = false) {
  const Maker* mk = nullptr; for (auto& kv : suites()) if (kv.first == cls) mk = &kv.second;
  if (!mk) { bad("harness", "unknown class " + cls); emit("0 0 1 0"); return; }
  if (nth < 2) nth = 2; if (nth > 64) nth = 64; if (iters < 1) iters = 1;
  std::vector<std::pair<std::string, std::function<void(Rng&)>>> pool;
  if (background) {
    try { SphericalEngine::RootTable(kRootDegree); PoolFiles pf{write_egm(seed + 777), write_wmm(seed + 778), write_pgm(seed + 779, 8, 5)}; pool = ctor_pool(pf); }
    catch (const std::exception& e) { bad("harness", std::string("cannot prepare the construction pool: ") + e.what()); emit("0 0 1 0 0 0"); return; }
  }
  Suite S;
  try { S = (*mk)(seed, false); }                     // the shared instance(s)
  catch (const std::exception& e) { bad("harness", std::string("cannot build the shared instance: ") + e.what()); emit("0 0 1 0 0"); return; }
  const size_t nc = S.calls.size();
  std::string img0 = S.image ? S.image() : std::string();
  std::vector<std::vector<Res>> first(nth, std::vector<Res>(nc));
  struct Mis { long n = 0; int call = -1, iter = -1; Res got, exp; };
  std::vector<Mis> mis(nth);
  std::atomic<int> ready(0);
  std::atomic<bool> users_done(false); std::atomic<long> constructed(0), ctor_throw(0); std::string throw_what[2];
  std::vector<std::thread> th, bg;
  const int nbg = pool.empty() ? 0 : 2;
  for (int b = 0; b < nbg; ++b)
    bg.emplace_back([&, b]() {
      Rng g(seed * 31 + uint64_t(b) + 5);
      while (ready.load() < nth) std::this_thread::yield();
      size_t off = b ? pool.size() / 2 : 0;
      do { for (size_t j = 0; j < pool.size(); ++j) { auto& e = pool[(j + off) % pool.size()];
             try { e.second(g); ++constructed; } catch (const std::exception& x) { ++ctor_throw; throw_what[b] = e.first + ": " + x.what(); }
             if (users_done.load() && constructed.load() >= long(pool.size())) break; }
      } while (!users_done.load());
    });
  for (int t = 0; t < nth; ++t)
    th.emplace_back([&, t]() {
      ++ready; while (ready.load() < nth) std::this_thread::yield();          // barrier: first touches happen concurrently
      size_t off = (t % 2 == 0) ? 0 : (size_t(t) * nc / size_t(nth));          // half the threads make the same first call
      for (int it = 0; it < iters; ++it)
        for (size_t j = 0; j < nc; ++j) {
          size_t i = (j + off) % nc; Res r; runcall(S.calls[i], r);
          if (it == 0) first[t][i] = std::move(r);
          else if (r != first[t][i]) { if (!mis[t].n++) { mis[t].call = int(i); mis[t].iter = it; mis[t].got = r; mis[t].exp = first[t][i]; } }
        }
    });
  for (auto& x : th) x.join();
  users_done = true; for (auto& x : bg) x.join();
  std::string img1 = S.image ? S.image() : std::string();
  long nmis = 0;
  if (ctor_throw.load()) { ++nmis; BAD("harness", "a constructor of the background pool threw (" + std::to_string(ctor_throw.load()) + " times): " + throw_what[0] + " " + throw_what[1]); }
  for (int t = 0; t < nth; ++t) if (mis[t].n) { nmis += mis[t].n;
      BAD("thread-result-differs", "class=" + cls + " call=" + S.calls[mis[t].call].name + " thread=" + std::to_string(t) + " iteration=" + std::to_string(mis[t].iter) + " differs from the same thread's first result: got=" + show(mis[t].got) + " first=" + show(mis[t].exp) + " (" + std::to_string(mis[t].n) + " calls)"); }
  // solo: the shared instance alone, then a fresh instance that was never shared
  std::vector<Res> solo(nc); for (size_t i = 0; i < nc; ++i) runcall(S.calls[i], solo[i]);
  Suite F; try { F = (*mk)(seed, true); } catch (const std::exception&) {}
  std::vector<Res> fresh(nc); if (F.calls.size() == nc) for (size_t i = 0; i < nc; ++i) runcall(F.calls[i], fresh[i]);
  else bad("harness", "suite not deterministic for " + cls);
  uint64_t hsh = 1469598103934665603ULL; long nvals = 0;
  for (size_t i = 0; i < nc; ++i) {
    for (uint64_t v : solo[i]) { hsh ^= v; hsh *= 1099511628211ULL; ++nvals; }
    for (int t = 0; t < nth; ++t) if (first[t][i] != solo[i]) { ++nmis;
        BAD("thread-result-differs", "class=" + cls + " call=" + S.calls[i].name + " thread=" + std::to_string(t) + " of " + std::to_string(nth) + ": concurrent=" + show(first[t][i]) + " alone=" + show(solo[i])); break; }
    if (F.calls.size() == nc && fresh[i] != solo[i]) { ++nmis;
      BAD("shared-object-differs-from-fresh", "class=" + cls + " call=" + S.calls[i].name + ": on the object that was shared=" + show(solo[i]) + " on a fresh equal object=" + show(fresh[i])); }
  }
  if (img0 != img1) { ++nmis; size_t k = 0; while (k < img0.size() && img0[k] == img1[k]) ++k;
    BAD("const-call-modified-object", "class=" + cls + ": the object representation of the shared instance changed during concurrent const calls (first difference at byte " + std::to_string(k) + " of " + std::to_string(img0.size()) + ")"); }
  stat("calls", long(nc) * nth * iters); stat("values", nvals);
  char b[200];
  if (background) { stat("background_constructions", constructed.load()); std::snprintf(b, sizeof b, "%zu %ld %ld %016llx %zu %ld", nc, long(nc) * nth * iters, nmis, (unsigned long long)hsh, img0.size(), constructed.load()); }
  else std::snprintf(b, sizeof b, "%zu %ld %ld %016llx %zu", nc, long(nc) * nth * iters, nmis, (unsigned long long)hsh, img0.size());
  emit(b);
}

// ---- first use: a FRESHLY constructed shared instance; all threads wait in a spin barrier (no yield, no lock) and then make their
// FIRST call at the same moment -- the same call site `which` for every thread (then the next one).  Whatever a const function
// fills or records on first use (a memo, a lazily built table, a hand-rolled "initialised" flag) is written by all threads at once.
static void run_fu(const std::string& cls, int nth, uint64_t which, uint64_t seed) {
  const Maker* mk = nullptr; for (auto& kv : suites()) if (kv.first == cls) mk = &kv.second;
  if (!mk) { bad("harness", "unknown class " + cls); emit("0 0 1 0"); return; }
  if (nth < 2) nth = 2; if (nth > 16) nth = 16;
  Suite S;
  try { S = (*mk)(seed, false); }
  catch (const std::exception& e) { bad("harness", std::string("cannot build the shared instance: ") + e.what()); emit("0 0 1 0 0"); return; }
  const size_t nc = S.calls.size(); if (!nc) { bad("harness", "empty suite " + cls); emit("0 0 1 0 0"); return; }
  const size_t i0 = size_t(mix(which * 0x9e3779b97f4a7c15ULL + seed) % nc), i1 = (i0 + 1) % nc;
  std::string img0 = S.image ? S.image() : std::string();
  const size_t nT = size_t(nth); std::vector<Res> r0(nT), r1(nT);
  std::atomic<int> ready(0);
  std::vector<std::thread> th;
  for (int t = 0; t < nth; ++t)
    th.emplace_back([&, t]() {
      ready.fetch_add(1, std::memory_order_acq_rel);
      while (ready.load(std::memory_order_acquire) < nth) { }                   // spin
      runcall(S.calls[i0], r0[size_t(t)]); runcall(S.calls[i1], r1[size_t(t)]);
    });
  for (auto& x : th) x.join();
  std::string img1 = S.image ? S.image() : std::string();
  long nmis = 0;
  Suite F; try { F = (*mk)(seed, true); } catch (const std::exception&) {}
  if (F.calls.size() != nc) { bad("harness", "suite not deterministic for " + cls); emit("0 0 1 0 0"); return; }
  Res f0, f1; runcall(F.calls[i0], f0); runcall(F.calls[i1], f1);                // a fresh equal object that was never shared
  uint64_t hsh = 1469598103934665603ULL; long nvals = 0;
  for (uint64_t v : f0) { hsh ^= v; hsh *= 1099511628211ULL; ++nvals; } for (uint64_t v : f1) { hsh ^= v; hsh *= 1099511628211ULL; ++nvals; }
  for (int t = 0; t < nth; ++t) {
    if (r0[size_t(t)] != f0) { ++nmis; BAD("thread-result-differs", "class=" + cls + " first call " + S.calls[i0].name + " made by all " + std::to_string(nth) + " threads at once on a fresh shared object, thread=" + std::to_string(t) + ": concurrent=" + show(r0[size_t(t)]) + " alone on a fresh equal object=" + show(f0)); break; }
    if (r1[size_t(t)] != f1) { ++nmis; BAD("thread-result-differs", "class=" + cls + " second call " + S.calls[i1].name + " after a concurrent first use, thread=" + std::to_string(t) + ": concurrent=" + show(r1[size_t(t)]) + " alone on a fresh equal object=" + show(f1)); break; }
  }
  if (img0 != img1) { ++nmis; BAD("const-call-modified-object", "class=" + cls + ": the object representation of the fresh shared instance changed during the concurrent first calls of " + S.calls[i0].name); }
  stat("calls", 2L * nth); stat("values", nvals);
  char b[200]; std::snprintf(b, sizeof b, "%zu %ld %ld %016llx %zu", nc, 2L * nth, nmis, (unsigned long long)hsh, img0.size());
  emit(b);
}

// Every mt op runs in a forked child (the parent never starts a thread and never touches the library): each op starts from a
// pristine process, so singletons and lazily filled state are first touched concurrently in EVERY op, and a ThreadSanitizer
// halt (exit code 66) or a crash ends only that op and is reported against it.
static void forked(const Args& a, const std::function<void()>& body);
static Reg r_mt("mt", [](const Args& a) {
  if (a.size() < 4) { bad("harness", "mt needs <class> <nthreads> <iters> <seed>"); return; }
  int nth = std::atoi(a[1].c_str()), iters = std::atoi(a[2].c_str()); uint64_t seed = std::strtoull(a[3].c_str(), nullptr, 10);
  forked(a, [&]() { run_mt(a[0], nth, iters, seed); });
});
// the same with two more threads that construct and destroy unrelated objects of every class meanwhile
static Reg r_mtc("mtc", [](const Args& a) {
  if (a.size() < 4) { bad("harness", "mtc needs <class> <nthreads> <iters> <seed>"); return; }
  int nth = std::atoi(a[1].c_str()), iters = std::atoi(a[2].c_str()); uint64_t seed = std::strtoull(a[3].c_str(), nullptr, 10);
  forked(a, [&]() { run_mt(a[0], nth, iters, seed, true); });
});
// first use: fu <class> <nthreads> <which call site> <seed>
static Reg r_fu("fu", [](const Args& a) {
  if (a.size() < 4) { bad("harness", "fu needs <class> <nthreads> <which> <seed>"); return; }
  int nth = std::atoi(a[1].c_str()); uint64_t which = std::strtoull(a[2].c_str(), nullptr, 10), seed = std::strtoull(a[3].c_str(), nullptr, 10);
  forked(a, [&]() { run_fu(a[0], nth, which, seed); });
});
static void forked(const Args& a, const std::function<void()>& body) {
  if (std::getenv("GV_NOFORK")) { body(); return; }
  std::fflush(stdout); std::fflush(stderr);
  int pfd[2]; if (pipe(pfd) != 0) { body(); return; }
  pid_t pid = fork();
  if (pid < 0) { close(pfd[0]); close(pfd[1]); body(); return; }
  if (pid == 0) {
    dup2(pfd[1], 2); close(pfd[0]); close(pfd[1]);
    stats().clear();
    body();
    for (auto& kv : stats()) std::printf("#STAT %s %ld\n", kv.first.c_str(), kv.second);
    std::fflush(stdout);
    for (auto& p : tmpfiles()) std::remove(p.c_str());
    if (!tmpfiles().empty()) rmdir(tmpdir().c_str());
    _exit(0);
  }
  close(pfd[1]);
  std::string err; char buf[4096]; ssize_t n;
  while ((n = read(pfd[0], buf, sizeof buf)) > 0) { err.append(buf, size_t(n)); if (err.size() > (1u << 20)) err.erase(0, err.size() - (1u << 19)); }
  close(pfd[0]);
  int st = 0; waitpid(pid, &st, 0);
  if (WIFEXITED(st) && WEXITSTATUS(st) == 0) return;
  // what the sanitizer said: the SUMMARY line(s) and the two access stacks' top frames
  std::string what;
  { std::istringstream is(err); std::string l; int frames = 0;
    while (std::getline(is, l)) {
      if (l.find("SUMMARY:") != std::string::npos || l.find("WARNING: ThreadSanitizer") != std::string::npos || l.find("ERROR:") != std::string::npos) { what += l + " | "; }
      else if ((l.find(" of size ") != std::string::npos && l.find(" by ") != std::string::npos)) { what += l + " "; frames = 2; }
      else if (frames > 0 && l.find("#") != std::string::npos) { size_t p = l.find(" ("); what += l.substr(0, p == std::string::npos ? l.size() : p) + " | "; --frames; }
      if (what.size() > 1500) break; } }
  for (char& c : what) if (c == '\n' || c == '\r') c = ' ';
  std::string how = WIFEXITED(st) ? ("exit code " + std::to_string(WEXITSTATUS(st)) + (WEXITSTATUS(st) == 66 ? " (ThreadSanitizer report)" : "")) : ("signal " + std::to_string(WTERMSIG(st)));
  BAD("data-race-or-crash", "class=" + a[0] + ": the process running this op ended with " + how + " :: " + (what.empty() ? err.substr(err.size() > 600 ? err.size() - 600 : 0) : what));
  (void)0;
  stat("ops_ended_by_sanitizer_or_crash");
  std::fwrite(err.data(), 1, std::min<size_t>(err.size(), 6000), stderr);
}

// the stage radices kissfft chooses for a transform length (compared in Lean with the model `kissRadices`, on which the
// obligation "the generic butterfly is never reached from GeodesicExact" rests)
static Reg r_fftradix("fftradix", [](const Args& a) {
  size_t n = size_t(std::strtoull(a[0].c_str(), nullptr, 10));
  kissfft<double> k(n, false);
  std::string r; for (size_t p : k._stageRadix) r += (r.empty() ? "" : " ") + std::to_string(p);
  emit(r);
});
// the FFT length DST(N) really uses
static Reg r_dstlen("dstlen", [](const Args& a) {
  int N = std::atoi(a[0].c_str()); DST d(N);
  emit(std::to_string(d._fft->_nfft));
});

void gv::generate(const std::string& tier, uint64_t seed) {
  Rng g(seed * 0x9e3779b97f4a7c15ULL + 14);
  bool th = tier == "thorough";
  auto aux = [&]() {
    stratum("fft-radices");
    for (int k = 1; k <= 14; ++k) { run("fftradix", {std::to_string(2 << k)}); run("fftradix", {std::to_string(3 << k)}); }
    for (int k = 0; k < (th ? 400 : 60); ++k) run("fftradix", {std::to_string(g.irange(1, k % 3 ? 300 : 20000))});
    for (int N : {2, 3, 4, 6, 96, 1536, 4096}) run("dstlen", {std::to_string(N)});
  };
  int rounds = th ? 16 : 6;
  auto skip = [](const std::string& c) { return c == "DST(generic)"; };          // outside the quantifier: see the stratum below
  for (int round = 0; round < rounds; ++round)
    for (auto& kv : suites()) {
      if (round > 0 && kv.first == "Singletons") continue;      // a first touch happens once per process
      if (skip(kv.first)) continue;
      int nth = th ? g.irange(4, 16) : g.irange(4, 8);
      int iters = th ? g.irange(3, 12) : g.irange(2, 8);
      stratum(kv.first + (nth >= 8 ? "/threads>=8" : "/threads<8"));
      uint64_t s = g.next() % 1000000007ULL;
      if (round == 0 && kv.first != "Singletons" && (seed % 3 == 0)) sample("mt " + kv.first + " " + std::to_string(nth) + " " + std::to_string(iters) + " " + std::to_string(s));
      run("mt", {kv.first, std::to_string(nth), std::to_string(iters), std::to_string(s)});
      if (round == 0 && kv.first == "Singletons") aux();
    }
  // first use: every class, a fresh shared instance per op, all threads make the same first call at once (spin barrier)
  int nfu = th ? 12 : 3;
  for (int k = 0; k < nfu; ++k)
    for (auto& kv : suites()) {
      if (skip(kv.first)) continue;
      int nth = th ? g.irange(4, 12) : g.irange(4, 6);
      stratum(kv.first + "/first-use");
      run("fu", {kv.first, std::to_string(nth), std::to_string(g.next() % 100000), std::to_string(g.next() % 1000000007ULL)});
    }
  // a shared instance in use while two more threads construct and destroy unrelated objects of every class
  int nmtc = th ? 4 : 1;
  for (int k = 0; k < nmtc; ++k)
    for (auto& kv : suites()) {
      if (skip(kv.first) || kv.first == "Singletons") continue;
      int nth = th ? g.irange(3, 8) : g.irange(3, 5);
      stratum(kv.first + "/while-others-are-constructed");
      run("mtc", {kv.first, std::to_string(nth), std::to_string(th ? g.irange(2, 6) : 2), std::to_string(g.next() % 1000000007ULL)});
    }
  // the singletons first touched while other threads construct objects: one op
  stratum("Singletons/while-others-are-constructed");
  run("mtc", {"Singletons", std::to_string(g.irange(4, 6)), "2", std::to_string(g.next() % 1000000007ULL)});
  // DST used directly with a length that has a prime factor > 5 (not reachable from GeodesicExact; DST is not in the property's quantifier)
  stratum("DST(generic)/outside-quantifier");
  run("mt", {"DST(generic)", "4", "3", std::to_string(g.next() % 1000000007ULL)});
}

int main(int c, char** v) {
#if defined(__has_feature)
#if __has_feature(thread_sanitizer)
  gv::__sanitizer_set_death_callback(gv::on_death);     // name the op that was running when TSan halts the process
#endif
#endif
  int rc = gv::main_(c, v);
  for (auto& p : tmpfiles()) std::remove(p.c_str());
  if (!tmpfiles().empty()) rmdir(tmpdir().c_str());
  return rc;
}
