// C13: table of public numeric entry points for the special-value sweep.
// Each entry: name (the key of the Lean dependence table `ErrContract.table`), baseline inputs (valid, generic
// position: every output is finite there), number of outputs, and the call.  Outputs are pre-filled with distinct
// sentinels by the sweeper; integer / boolean / string outputs are mapped to doubles by the adapters below
// (INVALID marker -> NaN) and only when they differ from their own sentinel.
#pragma once
#include "common.hpp"
#include <GeographicLib/Geodesic.hpp>
#include <GeographicLib/GeodesicExact.hpp>
#include <GeographicLib/GeodesicLine.hpp>
#include <GeographicLib/GeodesicLineExact.hpp>
#include <GeographicLib/Rhumb.hpp>
#include <GeographicLib/TransverseMercator.hpp>
#include <GeographicLib/TransverseMercatorExact.hpp>
#include <GeographicLib/PolarStereographic.hpp>
#include <GeographicLib/LambertConformalConic.hpp>
#include <GeographicLib/AlbersEqualArea.hpp>
#include <GeographicLib/Geocentric.hpp>
#include <GeographicLib/LocalCartesian.hpp>
#include <GeographicLib/UTMUPS.hpp>
#include <GeographicLib/MGRS.hpp>
#include <GeographicLib/Geohash.hpp>
#include <GeographicLib/GARS.hpp>
#include <GeographicLib/Georef.hpp>
#include <GeographicLib/OSGB.hpp>
#include <GeographicLib/AzimuthalEquidistant.hpp>
#include <GeographicLib/Gnomonic.hpp>
#include <GeographicLib/CassiniSoldner.hpp>
#include <GeographicLib/Ellipsoid.hpp>
#include <GeographicLib/AuxLatitude.hpp>
#include <GeographicLib/EllipticFunction.hpp>
#include <GeographicLib/PolygonArea.hpp>
#include <GeographicLib/Intersect.hpp>
#include <GeographicLib/DMS.hpp>
#include <GeographicLib/Utility.hpp>
#include <GeographicLib/GeoCoords.hpp>
#include <GeographicLib/Accumulator.hpp>
#include <GeographicLib/NormalGravity.hpp>
#include <GeographicLib/SphericalHarmonic.hpp>
#include <GeographicLib/SphericalHarmonic1.hpp>
#include <GeographicLib/SphericalHarmonic2.hpp>
#include <GeographicLib/CircularEngine.hpp>
#include <GeographicLib/Math.hpp>
#include <GeographicLib/DAuxLatitude.hpp>
#include <GeographicLib/AuxAngle.hpp>
#include <GeographicLib/DST.hpp>

namespace c13 {
using namespace GeographicLib;
typedef const double* X;
typedef double* O;

struct Entry {
  std::string name;
  std::vector<double> base;
  int nout;
  std::function<void(X, O)> call;
};
inline std::vector<Entry>& entries() { static std::vector<Entry> e; return e; }
inline std::map<std::string, int>& entry_index() { static std::map<std::string, int> m; return m; }
inline void add(const char* name, std::vector<double> base, int nout, std::function<void(X, O)> f) {
  entry_index()[name] = int(entries().size());
  entries().push_back(Entry{name, base, nout, f});
}

// sentinels for non-double outputs; the boolean sentinel is toggled by the sweeper (two passes)
static const int SI = -1234567;
inline bool& SB() { static bool b = false; return b; }
static const char* const SS = "\x01~sentinel~";
// run `fin` on normal exit *and* when an exception passes through (so partially written outputs are seen)
struct Fin { std::function<void()> f; ~Fin() { f(); } };
inline void seti(O o, int k, int v) { if (v != SI) o[k] = double(v); }
inline void setzone(O o, int k, int v) { if (v != SI) o[k] = v == UTMUPS::INVALID ? std::nan("") : double(v); }
inline void setb(O o, int k, bool v) { if (v != SB()) o[k] = v ? 1.0 : 0.0; }
inline bool invalid_marker(const std::string& s) {
  std::string u; for (char c : s) u += char(std::toupper((unsigned char)c));
  return u.compare(0, 3, "INV") == 0 || u == "NAN" || u == "-NAN" || u.compare(0, 3, "NAN") == 0;
}
inline void sets(O o, int k, const std::string& v) { if (v != SS) o[k] = invalid_marker(v) ? std::nan("") : 1.0; }

// ---- shared immutable objects (constructed once) ----
static const double Wa = 6378137.0, Wf = 1 / 298.257223563;
inline const Geodesic& GS() { return Geodesic::WGS84(); }
inline const Geodesic& GX() { static const Geodesic g(Wa, Wf, true); return g; }
inline const GeodesicExact& GE() { return GeodesicExact::WGS84(); }
inline const Rhumb& RS() { return Rhumb::WGS84(); }
inline const Rhumb& RX() { static const Rhumb r(Wa, Wf, true); return r; }
inline const TransverseMercator& TMS() { return TransverseMercator::UTM(); }
inline const TransverseMercator& TMX() { static const TransverseMercator t(Wa, Wf, 0.9996, true); return t; }
inline const TransverseMercatorExact& TME() { return TransverseMercatorExact::UTM(); }
inline const TransverseMercatorExact& TMEX() { static const TransverseMercatorExact t(Wa, Wf, 0.9996, true); return t; }
inline const PolarStereographic& PS() { return PolarStereographic::UPS(); }
inline const LambertConformalConic& LCC() { static const LambertConformalConic l(Wa, Wf, 30.0, 50.0, 1.0); return l; }
inline const LambertConformalConic& LCCS() { static const LambertConformalConic l(Wa, Wf, -40.0, -20.0, 1.0); return l; }
inline const LambertConformalConic& MERC() { return LambertConformalConic::Mercator(); }
inline const AlbersEqualArea& ALB() { static const AlbersEqualArea l(Wa, Wf, 30.0, 50.0, 1.0); return l; }
inline const AlbersEqualArea& ALBS() { static const AlbersEqualArea l(Wa, Wf, -40.0, -20.0, 1.0); return l; }
inline const AlbersEqualArea& CEA() { return AlbersEqualArea::CylindricalEqualArea(); }
inline const Geocentric& GC() { return Geocentric::WGS84(); }
inline const Ellipsoid& EL() { return Ellipsoid::WGS84(); }
inline const AuxLatitude& AUX() { return AuxLatitude::WGS84(); }
inline const EllipticFunction& EF() { static const EllipticFunction e(0.3, 0.2); return e; }
inline const NormalGravity& NG() { return NormalGravity::WGS84(); }
inline const Intersect& IX() { static const Intersect i(GS()); return i; }
inline const Intersect& IXE() { static const Intersect i(GX()); return i; }

// synthetic harmonic sum (degree 4)
struct Harm {
  std::vector<double> C, S, C1, S1;
  Harm() {
    int N = 4;
    for (int m = 0, k = 0; m <= N; ++m) for (int n = m; n <= N; ++n, ++k) { C.push_back(1.0 / (1 + n + 2 * m) * ((k % 3) ? 1 : -1)); if (m) S.push_back(0.5 / (2 + n + m)); }
    S.insert(S.begin(), 0.0); S.erase(S.begin());  // S has no m = 0 block
    C1.assign(C.begin(), C.end()); for (auto& c : C1) c *= 0.1; S1.assign(S.begin(), S.end()); for (auto& s : S1) s *= 0.1;
  }
};
inline const Harm& HARM() { static const Harm h; return h; }
inline const SphericalHarmonic& SH() { static const SphericalHarmonic h(HARM().C, HARM().S, 4, 6371e3); return h; }
inline const SphericalHarmonic1& SH1() { static const SphericalHarmonic1 h(HARM().C, HARM().S, 4, HARM().C1, HARM().S1, 4, 6371e3); return h; }
inline const SphericalHarmonic2& SH2() { static const SphericalHarmonic2 h(HARM().C, HARM().S, 4, HARM().C1, HARM().S1, 4, HARM().C1, HARM().S1, 4, 6371e3); return h; }

template<class G> void reg_geod(const std::string& p, const G& (*g)()) {
  auto N = [&](const char* s) { static std::vector<std::string> keep; keep.push_back(p + s); return keep.back().c_str(); };
  add(N(".Direct"), {40, 10, 30, 1e6}, 8, [g](X x, O o) { o[7] = g().Direct(x[0], x[1], x[2], x[3], o[0], o[1], o[2], o[3], o[4], o[5], o[6]); });
  add(N(".ArcDirect"), {40, 10, 30, 9}, 8, [g](X x, O o) { g().ArcDirect(x[0], x[1], x[2], x[3], o[0], o[1], o[2], o[3], o[4], o[5], o[6], o[7]); });
  add(N(".Inverse"), {40, 10, 20, 50}, 8, [g](X x, O o) { o[7] = g().Inverse(x[0], x[1], x[2], x[3], o[0], o[1], o[2], o[3], o[4], o[5], o[6]); });
  add(N(".GenDirectUnroll"), {40, 10, 30, 1e6}, 3, [g](X x, O o) { double t; g().GenDirect(x[0], x[1], x[2], false, x[3], Geodesic::LATITUDE | Geodesic::LONGITUDE | Geodesic::AZIMUTH | Geodesic::LONG_UNROLL, o[0], o[1], o[2], t, t, t, t, t); });
  add(N(".Line.Position"), {40, 10, 30, 1e6}, 8, [g](X x, O o) { auto l = g().Line(x[0], x[1], x[2]); o[7] = l.Position(x[3], o[0], o[1], o[2], o[3], o[4], o[5], o[6]); });
  add(N(".Line.ArcPosition"), {40, 10, 30, 9}, 8, [g](X x, O o) { auto l = g().Line(x[0], x[1], x[2]); l.ArcPosition(x[3], o[0], o[1], o[2], o[3], o[4], o[5], o[6], o[7]); });
  add(N(".DirectLine.Position"), {40, 10, 30, 1e6, 5e5}, 3, [g](X x, O o) { auto l = g().DirectLine(x[0], x[1], x[2], x[3]); l.Position(x[4], o[0], o[1], o[2]); });
  add(N(".ArcDirectLine.Position"), {40, 10, 30, 9, 5e5}, 3, [g](X x, O o) { auto l = g().ArcDirectLine(x[0], x[1], x[2], x[3]); l.Position(x[4], o[0], o[1], o[2]); });
  add(N(".InverseLine.Position"), {40, 10, 20, 50, 5e5}, 5, [g](X x, O o) { auto l = g().InverseLine(x[0], x[1], x[2], x[3]); l.Position(x[4], o[0], o[1], o[2]); o[3] = l.Distance(); o[4] = l.Arc(); });
  add(N(".Line.SetDistance"), {40, 10, 30, 1e6}, 2, [g](X x, O o) { auto l = g().Line(x[0], x[1], x[2]); l.SetDistance(x[3]); o[0] = l.Distance(); o[1] = l.Arc(); });
  add(N(".Line.SetArc"), {40, 10, 30, 9}, 2, [g](X x, O o) { auto l = g().Line(x[0], x[1], x[2]); l.SetArc(x[3]); o[0] = l.Distance(); o[1] = l.Arc(); });
}

template<class T> void reg_tm(const std::string& p, const T& (*t)()) {
  auto N = [&](const char* s) { static std::vector<std::string> keep; keep.push_back(p + s); return keep.back().c_str(); };
  add(N(".Forward"), {3, 40, 5}, 4, [t](X x, O o) { t().Forward(x[0], x[1], x[2], o[0], o[1], o[2], o[3]); });
  add(N(".Reverse"), {3, 1e5, 2e6}, 4, [t](X x, O o) { t().Reverse(x[0], x[1], x[2], o[0], o[1], o[2], o[3]); });
}
template<class T> void reg_conic(const std::string& p, const T& (*t)(), double lat) {
  auto N = [&](const char* s) { static std::vector<std::string> keep; keep.push_back(p + s); return keep.back().c_str(); };
  add(N(".Forward"), {3, lat, 5}, 4, [t](X x, O o) { t().Forward(x[0], x[1], x[2], o[0], o[1], o[2], o[3]); });
  add(N(".Reverse"), {3, 1e5, lat < 0 ? -2e5 : 2e5}, 4, [t](X x, O o) { t().Reverse(x[0], x[1], x[2], o[0], o[1], o[2], o[3]); });
}
template<class R> void reg_rhumb(const std::string& p, const R& (*r)()) {
  auto N = [&](const char* s) { static std::vector<std::string> keep; keep.push_back(p + s); return keep.back().c_str(); };
  add(N(".Direct"), {40, 10, 30, 1e6}, 3, [r](X x, O o) { r().Direct(x[0], x[1], x[2], x[3], o[0], o[1], o[2]); });
  add(N(".Inverse"), {40, 10, 20, 50}, 3, [r](X x, O o) { r().Inverse(x[0], x[1], x[2], x[3], o[0], o[1], o[2]); });
  add(N(".Line.Position"), {40, 10, 30, 1e6}, 3, [r](X x, O o) { auto l = r().Line(x[0], x[1], x[2]); l.Position(x[3], o[0], o[1], o[2]); });
  add(N(".GenDirectUnroll"), {40, 10, 30, 1e6}, 2, [r](X x, O o) { double S; r().GenDirect(x[0], x[1], x[2], x[3], Rhumb::LATITUDE | Rhumb::LONGITUDE | Rhumb::LONG_UNROLL, o[0], o[1], S); });
}
template<class P> void reg_azi(const std::string& p) {
  auto N = [&](const char* s) { static std::vector<std::string> keep; keep.push_back(p + s); return keep.back().c_str(); };
  add(N(".Forward"), {40, 10, 42, 12}, 4, [](X x, O o) { P(GS()).Forward(x[0], x[1], x[2], x[3], o[0], o[1], o[2], o[3]); });
  add(N(".Reverse"), {40, 10, 1e5, 2e5}, 4, [](X x, O o) { P(GS()).Reverse(x[0], x[1], x[2], x[3], o[0], o[1], o[2], o[3]); });
}

void register_file_entries();
void register_more();          // C13_entries2.hpp
inline void register_all() {
  if (!entries().empty()) return;
  register_file_entries();
  register_more();
  // ---- geodesics: series, exact=true flag, GeodesicExact ----
  reg_geod<Geodesic>("GeodS", &GS);
  reg_geod<Geodesic>("GeodX", &GX);
  reg_geod<GeodesicExact>("GeodE", &GE);
  // ---- rhumb lines ----
  reg_rhumb<Rhumb>("RhumbS", &RS);
  reg_rhumb<Rhumb>("RhumbX", &RX);
  // ---- transverse Mercator ----
  reg_tm<TransverseMercator>("TMS", &TMS);
  reg_tm<TransverseMercator>("TMX", &TMX);
  reg_tm<TransverseMercatorExact>("TME", &TME);
  reg_tm<TransverseMercatorExact>("TMEX", &TMEX);
  // ---- polar stereographic ----
  add("PS.ForwardN", {80, 5}, 4, [](X x, O o) { PS().Forward(true, x[0], x[1], o[0], o[1], o[2], o[3]); });
  add("PS.ForwardS", {-80, 5}, 4, [](X x, O o) { PS().Forward(false, x[0], x[1], o[0], o[1], o[2], o[3]); });
  add("PS.ReverseN", {1e5, 2e5}, 4, [](X x, O o) { PS().Reverse(true, x[0], x[1], o[0], o[1], o[2], o[3]); });
  add("PS.ReverseS", {1e5, 2e5}, 4, [](X x, O o) { PS().Reverse(false, x[0], x[1], o[0], o[1], o[2], o[3]); });
  add("PS.SetScale", {70, 0.99}, 1, [](X x, O o) { PolarStereographic p(Wa, Wf, 1.0); p.SetScale(x[0], x[1]); o[0] = p.CentralScale(); });
  // ---- conics ----
  reg_conic<LambertConformalConic>("LCC", &LCC, 40);
  reg_conic<LambertConformalConic>("LCCS", &LCCS, -30);
  reg_conic<LambertConformalConic>("Mercator", &MERC, 40);
  reg_conic<AlbersEqualArea>("Albers", &ALB, 40);
  reg_conic<AlbersEqualArea>("AlbersS", &ALBS, -30);
  reg_conic<AlbersEqualArea>("CylEA", &CEA, 40);
  add("LCC.SetScale", {40, 0.99}, 1, [](X x, O o) { LambertConformalConic p(Wa, Wf, 30.0, 50.0, 1.0); p.SetScale(x[0], x[1]); o[0] = p.CentralScale(); });
  add("Albers.SetScale", {40, 0.99}, 1, [](X x, O o) { AlbersEqualArea p(Wa, Wf, 30.0, 50.0, 1.0); p.SetScale(x[0], x[1]); o[0] = p.CentralScale(); });
  // ---- geocentric / local cartesian ----
  add("Geocentric.Forward", {40, 10, 100}, 3, [](X x, O o) { GC().Forward(x[0], x[1], x[2], o[0], o[1], o[2]); });
  add("Geocentric.Reverse", {4e6, 1e6, 4.5e6}, 3, [](X x, O o) { GC().Reverse(x[0], x[1], x[2], o[0], o[1], o[2]); });
  add("Geocentric.ForwardM", {40, 10, 100}, 12, [](X x, O o) { std::vector<double> M(9, 7.5e77); Fin f{[&] { for (int i = 0; i < 9; ++i) if (M[i] != 7.5e77) o[3 + i] = M[i]; }}; GC().Forward(x[0], x[1], x[2], o[0], o[1], o[2], M); });
  add("Geocentric.ReverseM", {4e6, 1e6, 4.5e6}, 12, [](X x, O o) { std::vector<double> M(9, 7.5e77); Fin f{[&] { for (int i = 0; i < 9; ++i) if (M[i] != 7.5e77) o[3 + i] = M[i]; }}; GC().Reverse(x[0], x[1], x[2], o[0], o[1], o[2], M); });
  add("LocalCartesian.Forward", {40, 10, 100, 41, 11, 200}, 3, [](X x, O o) { LocalCartesian l(x[0], x[1], x[2]); l.Forward(x[3], x[4], x[5], o[0], o[1], o[2]); });
  add("LocalCartesian.Reverse", {40, 10, 100, 1e4, 2e4, 300}, 3, [](X x, O o) { LocalCartesian l(x[0], x[1], x[2]); l.Reverse(x[3], x[4], x[5], o[0], o[1], o[2]); });
  add("LocalCartesian.Reset", {40, 10, 100}, 3, [](X x, O o) { LocalCartesian l; l.Reset(x[0], x[1], x[2]); o[0] = l.LatitudeOrigin(); o[1] = l.LongitudeOrigin(); o[2] = l.HeightOrigin(); });
  // ---- UTM/UPS, MGRS ----
  add("UTMUPS.Forward", {40, 10}, 6, [](X x, O o) { int z = SI; bool n = SB(); Fin f{[&] { setzone(o, 0, z); setb(o, 1, n); }}; UTMUPS::Forward(x[0], x[1], z, n, o[2], o[3], o[4], o[5]); });
  add("UTMUPS.ForwardUPS", {85, 10}, 6, [](X x, O o) { int z = SI; bool n = SB(); Fin f{[&] { setzone(o, 0, z); setb(o, 1, n); }}; UTMUPS::Forward(x[0], x[1], z, n, o[2], o[3], o[4], o[5]); });
  add("UTMUPS.ForwardZ31", {40, 4}, 6, [](X x, O o) { int z = SI; bool n = SB(); Fin f{[&] { setzone(o, 0, z); setb(o, 1, n); }}; UTMUPS::Forward(x[0], x[1], z, n, o[2], o[3], o[4], o[5], 31, true); });
  add("UTMUPS.ForwardSetUPS", {85, 10}, 6, [](X x, O o) { int z = SI; bool n = SB(); Fin f{[&] { setzone(o, 0, z); setb(o, 1, n); }}; UTMUPS::Forward(x[0], x[1], z, n, o[2], o[3], o[4], o[5], UTMUPS::UPS, true); });
  add("UTMUPS.ForwardSetUTM", {40, 10}, 6, [](X x, O o) { int z = SI; bool n = SB(); Fin f{[&] { setzone(o, 0, z); setb(o, 1, n); }}; UTMUPS::Forward(x[0], x[1], z, n, o[2], o[3], o[4], o[5], UTMUPS::UTM, true); });
  add("UTMUPS.Reverse", {5e5, 4.4e6}, 4, [](X x, O o) { UTMUPS::Reverse(32, true, x[0], x[1], o[0], o[1], o[2], o[3]); });
  add("UTMUPS.ReverseUPS", {2.1e6, 2.2e6}, 4, [](X x, O o) { UTMUPS::Reverse(0, false, x[0], x[1], o[0], o[1], o[2], o[3], true); });
  add("UTMUPS.Transfer", {8e5, 4.4e6}, 3, [](X x, O o) { int z = SI; Fin f{[&] { setzone(o, 2, z); }}; UTMUPS::Transfer(32, true, x[0], x[1], 33, true, o[0], o[1], z); });
  add("UTMUPS.TransferSame", {5e5, 4.4e6}, 3, [](X x, O o) { int z = SI; Fin f{[&] { setzone(o, 2, z); }}; UTMUPS::Transfer(32, true, x[0], x[1], 32, false, o[0], o[1], z); });
  add("UTMUPS.StandardZone", {40, 10}, 1, [](X x, O o) { int z = UTMUPS::StandardZone(x[0], x[1]); setzone(o, 0, z); });
  add("MGRS.Forward", {5e5, 4.4e6}, 1, [](X x, O o) { std::string s = SS; Fin f{[&] { sets(o, 0, s); }}; MGRS::Forward(32, true, x[0], x[1], 5, s); });
  add("MGRS.ForwardLat", {5e5, 4.4e6, 39.7}, 1, [](X x, O o) { std::string s = SS; Fin f{[&] { sets(o, 0, s); }}; MGRS::Forward(32, true, x[0], x[1], x[2], 5, s); });
  add("MGRS.ForwardUPS", {2.1e6, 2.2e6}, 1, [](X x, O o) { std::string s = SS; Fin f{[&] { sets(o, 0, s); }}; MGRS::Forward(0, false, x[0], x[1], 11, s); });
  // ---- grid codes ----
  add("Geohash.Forward", {40, 10}, 1, [](X x, O o) { std::string s = SS; Fin f{[&] { sets(o, 0, s); }}; Geohash::Forward(x[0], x[1], 12, s); });
  add("GARS.Forward", {40, 10}, 1, [](X x, O o) { std::string s = SS; Fin f{[&] { sets(o, 0, s); }}; GARS::Forward(x[0], x[1], 2, s); });
  add("Georef.Forward", {40, 10}, 1, [](X x, O o) { std::string s = SS; Fin f{[&] { sets(o, 0, s); }}; Georef::Forward(x[0], x[1], 5, s); });
  add("OSGB.GridReference", {4e5, 3e5}, 1, [](X x, O o) { std::string s = SS; Fin f{[&] { sets(o, 0, s); }}; OSGB::GridReference(x[0], x[1], 4, s); });
  add("OSGB.GridReference11", {4e5, 3e5}, 1, [](X x, O o) { std::string s = SS; Fin f{[&] { sets(o, 0, s); }}; OSGB::GridReference(x[0], x[1], 11, s); });
  add("OSGB.Forward", {52, -2}, 4, [](X x, O o) { OSGB::Forward(x[0], x[1], o[0], o[1], o[2], o[3]); });
  add("OSGB.Reverse", {4e5, 3e5}, 4, [](X x, O o) { OSGB::Reverse(x[0], x[1], o[0], o[1], o[2], o[3]); });
  // ---- azimuthal projections ----
  reg_azi<AzimuthalEquidistant>("AzimuthalEquidistant");
  reg_azi<Gnomonic>("Gnomonic");
  add("CassiniSoldner.Forward", {40, 10, 42, 12}, 4, [](X x, O o) { CassiniSoldner c(x[0], x[1], GS()); c.Forward(x[2], x[3], o[0], o[1], o[2], o[3]); });
  add("CassiniSoldner.Reverse", {40, 10, 1e5, 2e5}, 4, [](X x, O o) { CassiniSoldner c(x[0], x[1], GS()); c.Reverse(x[2], x[3], o[0], o[1], o[2], o[3]); });
  // ---- ellipsoid ----
#define EL1(fn) add("Ellipsoid." #fn, {40}, 1, [](X x, O o) { o[0] = EL().fn(x[0]); })
  EL1(ParametricLatitude); EL1(InverseParametricLatitude); EL1(GeocentricLatitude); EL1(InverseGeocentricLatitude);
  EL1(RectifyingLatitude); EL1(InverseRectifyingLatitude); EL1(AuthalicLatitude); EL1(InverseAuthalicLatitude);
  EL1(ConformalLatitude); EL1(InverseConformalLatitude); EL1(IsometricLatitude); EL1(InverseIsometricLatitude);
  EL1(CircleRadius); EL1(CircleHeight); EL1(MeridianDistance); EL1(MeridionalCurvatureRadius); EL1(TransverseCurvatureRadius);
#undef EL1
  add("Ellipsoid.NormalCurvatureRadius", {40, 30}, 1, [](X x, O o) { o[0] = EL().NormalCurvatureRadius(x[0], x[1]); });
#define ELS(fn, v) add("Ellipsoid." #fn, {v}, 1, [](X x, O o) { o[0] = Ellipsoid::fn(x[0]); })
  ELS(SecondFlatteningToFlattening, 0.003); ELS(FlatteningToSecondFlattening, 0.003); ELS(ThirdFlatteningToFlattening, 0.003); ELS(FlatteningToThirdFlattening, 0.003);
  ELS(EccentricitySqToFlattening, 0.003); ELS(FlatteningToEccentricitySq, 0.003); ELS(SecondEccentricitySqToFlattening, 0.003); ELS(FlatteningToSecondEccentricitySq, 0.003);
  ELS(ThirdEccentricitySqToFlattening, 0.003); ELS(FlatteningToThirdEccentricitySq, 0.003);
#undef ELS
  // ---- auxiliary latitudes (all 6 x 6 conversions, series and exact) ----
  add("AuxLatitude.ConvertSeries", {40}, 36, [](X x, O o) { for (int i = 0; i < 6; ++i) for (int j = 0; j < 6; ++j) o[6 * i + j] = AUX().Convert(i, j, x[0], false); });
  add("AuxLatitude.ConvertExact", {40}, 36, [](X x, O o) { for (int i = 0; i < 6; ++i) for (int j = 0; j < 6; ++j) o[6 * i + j] = AUX().Convert(i, j, x[0], true); });
  add("AuxAngle.degrees", {0.6, 0.8}, 3, [](X x, O o) { AuxAngle a(x[0], x[1]); o[0] = a.degrees(); o[1] = a.radians(); o[2] = a.tan(); });
  // ---- elliptic functions ----
#define EF1(fn) add("EllipticFunction." #fn, {0.7}, 1, [](X x, O o) { o[0] = EF().fn(x[0]); })
  EF1(F); EF1(E); EF1(Ed); EF1(Einv); EF1(Pi); EF1(D); EF1(G); EF1(H); EF1(am);
#undef EF1
#define EF3(fn) add("EllipticFunction." #fn "3", {0.6, 0.8, 0.9}, 1, [](X x, O o) { o[0] = EF().fn(x[0], x[1], x[2]); })
  EF3(F); EF3(E); EF3(Pi); EF3(D); EF3(G); EF3(H); EF3(deltaF); EF3(deltaE); EF3(deltaPi); EF3(deltaD); EF3(deltaG); EF3(deltaH);
#undef EF3
  add("EllipticFunction.deltaEinv", {0.6, 0.8}, 1, [](X x, O o) { o[0] = EF().deltaEinv(x[0], x[1]); });
  add("EllipticFunction.sncndn", {0.7}, 3, [](X x, O o) { EF().sncndn(x[0], o[0], o[1], o[2]); });
  add("EllipticFunction.am4", {0.7}, 4, [](X x, O o) { o[3] = EF().am(x[0], o[0], o[1], o[2]); });
  add("EllipticFunction.Delta", {0.6, 0.8}, 1, [](X x, O o) { o[0] = EF().Delta(x[0], x[1]); });
  add("EllipticFunction.RF3", {1, 2, 3}, 1, [](X x, O o) { o[0] = EllipticFunction::RF(x[0], x[1], x[2]); });
  add("EllipticFunction.RF2", {1, 2}, 1, [](X x, O o) { o[0] = EllipticFunction::RF(x[0], x[1]); });
  add("EllipticFunction.RC", {1, 2}, 1, [](X x, O o) { o[0] = EllipticFunction::RC(x[0], x[1]); });
  add("EllipticFunction.RG3", {1, 2, 3}, 1, [](X x, O o) { o[0] = EllipticFunction::RG(x[0], x[1], x[2]); });
  add("EllipticFunction.RG2", {1, 2}, 1, [](X x, O o) { o[0] = EllipticFunction::RG(x[0], x[1]); });
  add("EllipticFunction.RJ", {1, 2, 3, 4}, 1, [](X x, O o) { o[0] = EllipticFunction::RJ(x[0], x[1], x[2], x[3]); });
  add("EllipticFunction.RD", {1, 2, 3}, 1, [](X x, O o) { o[0] = EllipticFunction::RD(x[0], x[1], x[2]); });
  add("EllipticFunction.Reset", {0.3, 0.2}, 3, [](X x, O o) { EllipticFunction e; e.Reset(x[0], x[1]); o[0] = e.K(); o[1] = e.E(); o[2] = e.Pi(); });
  // ---- polygon area ----
  add("PolygonArea.AddPoint", {40, 10}, 2, [](X x, O o) { PolygonArea p(GS()); p.AddPoint(10, 10); p.AddPoint(x[0], x[1]); p.AddPoint(20, 40); p.Compute(false, true, o[0], o[1]); });
  add("PolygonArea.TestPoint", {40, 10}, 3, [](X x, O o) { PolygonArea p(GS()); p.AddPoint(10, 10); p.AddPoint(20, 40); o[2] = p.TestPoint(x[0], x[1], false, true, o[0], o[1]); });
  add("PolygonArea.AddEdge", {30, 1e6}, 2, [](X x, O o) { PolygonArea p(GS()); p.AddPoint(10, 10); p.AddEdge(x[0], x[1]); p.AddPoint(20, 40); p.Compute(false, true, o[0], o[1]); });
  add("PolygonArea.TestEdge", {30, 1e6}, 3, [](X x, O o) { PolygonArea p(GS()); p.AddPoint(10, 10); p.AddPoint(20, 40); o[2] = p.TestEdge(x[0], x[1], false, true, o[0], o[1]); });
  add("PolygonAreaExact.AddPoint", {40, 10}, 2, [](X x, O o) { PolygonAreaExact p(GE()); p.AddPoint(10, 10); p.AddPoint(x[0], x[1]); p.AddPoint(20, 40); p.Compute(false, true, o[0], o[1]); });
  add("PolygonAreaRhumb.AddPoint", {40, 10}, 2, [](X x, O o) { PolygonAreaRhumb p(RS()); p.AddPoint(10, 10); p.AddPoint(x[0], x[1]); p.AddPoint(20, 40); p.Compute(false, true, o[0], o[1]); });
  add("PolygonArea.Polyline", {40, 10}, 1, [](X x, O o) { PolygonArea p(GS(), true); double a; p.AddPoint(10, 10); p.AddPoint(x[0], x[1]); p.AddPoint(20, 40); p.Compute(false, true, o[0], a); });
  // ---- intersections (watchdog: these iterate) ----
  add("Intersect.Closest", {0, 0, 45, 1, 2, 135}, 2, [](X x, O o) { auto p = IX().Closest(x[0], x[1], x[2], x[3], x[4], x[5]); o[0] = p.first; o[1] = p.second; });
  add("IntersectExact.Closest", {0, 0, 45, 1, 2, 135}, 2, [](X x, O o) { auto p = IXE().Closest(x[0], x[1], x[2], x[3], x[4], x[5]); o[0] = p.first; o[1] = p.second; });
  add("Intersect.Segment", {0, 0, 2, 2, 0, 2, 2, 0}, 3, [](X x, O o) { int sm = SI; Fin f{[&] { seti(o, 2, sm); }}; auto p = IX().Segment(x[0], x[1], x[2], x[3], x[4], x[5], x[6], x[7], sm); o[0] = p.first; o[1] = p.second; });
  add("Intersect.Next", {10, 20, 45, 135}, 2, [](X x, O o) { auto p = IX().Next(x[0], x[1], x[2], x[3]); o[0] = p.first; o[1] = p.second; });
  // ---- formatting ----
  add("DMS.Encode", {40.123}, 3, [](X x, O o) { sets(o, 0, DMS::Encode(x[0], DMS::SECOND, 3, DMS::LATITUDE)); sets(o, 1, DMS::Encode(x[0], DMS::DEGREE, 5, DMS::AZIMUTH)); sets(o, 2, DMS::Encode(x[0], 6)); });
  add("DMS.EncodeDMS", {40.123}, 3, [](X x, O o) { DMS::Encode(x[0], o[0], o[1], o[2]); });
  add("Utility.str", {40.123}, 1, [](X x, O o) { sets(o, 0, Utility::str(x[0], 3)); });
  add("GeoCoords.LatLon", {40, 10}, 9, [](X x, O o) { GeoCoords c(x[0], x[1]); o[0] = c.Latitude(); o[1] = c.Longitude(); o[2] = c.Easting(); o[3] = c.Northing(); o[4] = c.Convergence(); o[5] = c.Scale(); setzone(o, 6, c.Zone());
                                                     sets(o, 7, c.GeoRepresentation(3)); sets(o, 8, c.MGRSRepresentation(2)); });
  add("GeoCoords.UTM", {5e5, 4.4e6}, 7, [](X x, O o) { GeoCoords c(32, true, x[0], x[1]); o[0] = c.Latitude(); o[1] = c.Longitude(); o[2] = c.Easting(); o[3] = c.Northing(); o[4] = c.Convergence(); o[5] = c.Scale(); sets(o, 6, c.UTMUPSRepresentation(2)); });
  // ---- Math ----
#define M1(fn, v) add("Math." #fn, {v}, 1, [](X x, O o) { o[0] = Math::fn(x[0]); })
  M1(AngNormalize, 400); M1(AngRound, 40); M1(LatFix, 40); M1(sind, 40); M1(cosd, 40); M1(tand, 40); M1(atand, 0.5); M1(sq, 3);
#undef M1
  add("Math.AngDiff", {40, 50}, 2, [](X x, O o) { o[0] = Math::AngDiff(x[0], x[1], o[1]); });
  add("Math.sincosd", {40}, 2, [](X x, O o) { Math::sincosd(x[0], o[0], o[1]); });
  add("Math.sincosde", {40, 1e-17}, 2, [](X x, O o) { Math::sincosde(x[0], x[1], o[0], o[1]); });
  add("Math.atan2d", {0.5, 0.7}, 1, [](X x, O o) { o[0] = Math::atan2d(x[0], x[1]); });
  add("Math.sum", {40, 1e-17}, 2, [](X x, O o) { o[0] = Math::sum(x[0], x[1], o[1]); });
  add("Math.norm", {3, 4}, 2, [](X x, O o) { o[0] = x[0]; o[1] = x[1]; Math::norm(o[0], o[1]); });
  add("Math.taupf", {0.7, 0.08}, 1, [](X x, O o) { o[0] = Math::taupf(x[0], x[1]); });
  add("Math.tauf", {0.7, 0.08}, 1, [](X x, O o) { o[0] = Math::tauf(x[0], x[1]); });
  add("Math.eatanhe", {0.7, 0.08}, 1, [](X x, O o) { o[0] = Math::eatanhe(x[0], x[1]); });
  add("Accumulator", {1.5, 1e-20}, 1, [](X x, O o) { Accumulator<> a; a += 1e10; a += x[0]; a += x[1]; a -= 1e10; o[0] = a(); });
  // ---- gravity, harmonics ----
  add("NormalGravity.SurfaceGravity", {40}, 1, [](X x, O o) { o[0] = NG().SurfaceGravity(x[0]); });
  add("NormalGravity.Gravity", {40, 1000}, 3, [](X x, O o) { o[2] = NG().Gravity(x[0], x[1], o[0], o[1]); });
  add("NormalGravity.U", {4e6, 1e6, 4.5e6}, 4, [](X x, O o) { o[3] = NG().U(x[0], x[1], x[2], o[0], o[1], o[2]); });
  add("NormalGravity.V0", {4e6, 1e6, 4.5e6}, 4, [](X x, O o) { o[3] = NG().V0(x[0], x[1], x[2], o[0], o[1], o[2]); });
  add("NormalGravity.Phi", {4e6, 1e6}, 3, [](X x, O o) { o[2] = NG().Phi(x[0], x[1], o[0], o[1]); });
  add("NormalGravity.J2ToFlattening", {Wa, 3.986004418e14, 7.292115e-5, 1.08263e-3}, 1, [](X x, O o) { o[0] = NormalGravity::J2ToFlattening(x[0], x[1], x[2], x[3]); });
  add("NormalGravity.FlatteningToJ2", {Wa, 3.986004418e14, 7.292115e-5, Wf}, 1, [](X x, O o) { o[0] = NormalGravity::FlatteningToJ2(x[0], x[1], x[2], x[3]); });
  add("SphericalHarmonic.Value", {4e6, 1e6, 4.5e6}, 1, [](X x, O o) { o[0] = SH()(x[0], x[1], x[2]); });
  add("SphericalHarmonic.Gradient", {4e6, 1e6, 4.5e6}, 4, [](X x, O o) { o[3] = SH()(x[0], x[1], x[2], o[0], o[1], o[2]); });
  add("SphericalHarmonic1.Gradient", {0.5, 4e6, 1e6, 4.5e6}, 4, [](X x, O o) { o[3] = SH1()(x[0], x[1], x[2], x[3], o[0], o[1], o[2]); });
  add("SphericalHarmonic2.Gradient", {0.5, 0.25, 4e6, 1e6, 4.5e6}, 4, [](X x, O o) { o[3] = SH2()(x[0], x[1], x[2], x[3], x[4], o[0], o[1], o[2]); });
  add("SphericalHarmonic.Circle", {4.2e6, 4.5e6, 10}, 4, [](X x, O o) { CircularEngine c = SH().Circle(x[0], x[1], true); o[3] = c(x[2], o[0], o[1], o[2]); });
}

} // namespace c13
