// C03: reduced length, geodesic scales and area under a geodesic
#include "geodcommon.hpp"
#include "C01_line.hpp"
using namespace gd; using namespace gv;

static double tolS(double f, double a, double a12) {   // documented area accuracy 0.1 m^2 (WGS84), x4, growing with |f| for the series
  double x = std::fabs(f); double base = x <= 1 / 150.0 + 1e-12 ? 0.4 : x <= 1 / 100.0 + 1e-12 ? 0.4 : x <= 1 / 50.0 + 1e-12 ? 1.5 : NAN;
  return base * (a / 6378137.0) * (a / 6378137.0) * std::fmax(1.0, std::fabs(a12) / 180);
}
static double tolSx(double f, double a, double a12) { double q = (1 - f) >= 1 ? (1 - f) : 1 / (1 - f); return (q <= 1.05 ? 4.0 : 60.0) *   /* the exact solver's DST area has no documented figure: measured 1 m^2 (WGS84) / 14 m^2 (b/a = 2) on the unchanged tree, x4 */ (a / 6378137.0) * (a / 6378137.0) * std::fmax(1.0, std::fabs(a12) / 180); }

template<class Geod> static void check_vs_oracle(const char* name, const Geod& g, double acc, double tS, double ea, double f, double lat1, double lon1, double azi1, bool arc, double len, const oracle::Line& L, const oracle::Line::Pos& p) {
  if (std::isnan(acc)) return;
  Res r; r.a12 = g.GenDirect(lat1, lon1, azi1, arc, len, Geod::ALL, r.lat2, r.lon2, r.azi2, r.s12, r.m12, r.M12, r.M21, r.S12);
  double tol = tol_pos(acc, ea, (double)p.a12);
  if (!(std::fabs(r.m12 - (double)p.m12) <= 2 * tol)) bad(std::string("m12-") + name, "reduced length off by " + std::to_string((r.m12 - (double)p.m12) * 1e9) + " nm (tolerance " + std::to_string(2 * tol * 1e9) + ")");
  double tM = 2 * tol / ea + 8e-16 * (1 + std::fabs((double)p.M12));
  if (!(std::fabs(r.M12 - (double)p.M12) <= tM * std::fmax(1.0, std::fabs((double)p.M12)))) bad(std::string("M12-") + name, "geodesic scale M12 off by " + std::to_string(r.M12 - (double)p.M12));
  if (!(std::fabs(r.M21 - (double)p.M21) <= tM * std::fmax(1.0, std::fabs((double)p.M21)))) bad(std::string("M21-") + name, "geodesic scale M21 off by " + std::to_string(r.M21 - (double)p.M21));
  // S12 is discontinuous where the path touches a pole (jumps by c2*dalpha): compare only when the path stays off the poles
  LD mx = fabsl(L.calp0);   // max |sin beta| along the geodesic = |cos alp0|
  bool nearpole = (double)mx > 0.9986 || std::fabs(lat1) > 87;   // within 3 degrees of a pole S12 is ill-conditioned (c2 * d(alpha))
  if (!nearpole && !std::isnan(tS)) {
    double per = double(2 * oracle::PI * L.c2());
    double dS = std::remainder(r.S12 - (double)p.S12, per);
    // conditioning: S12 = c2*(alp2 - alp1) + ...; an azimuth is defined to (position accuracy)/(a*|sin alp0|) only, so the documented
    // 0.1 m^2 (which is c2 * 2.5e-15 rad on WGS84) cannot hold where the geodesic passes close to a pole: scale by 1/(4|sin alp0|)
    double tSc = tS * std::fmax(1.0, 0.25 / std::fmax((double)fabsl(L.salp0), 1e-3));
    if (!(std::fabs(dS) <= tSc)) bad(std::string("S12-") + name, "area under the geodesic off by " + std::to_string(dS) + " m^2 (tolerance " + std::to_string(tSc) + ")");
  }
}

static Reg r_len("glengths", [](const Args& a) {
  double ea = unhx(a[0]), f = unhx(a[1]), lat1 = unhx(a[2]), lon1 = unhx(a[3]), azi1 = unhx(a[4]); bool arc = a[5] == "1"; double len = unhx(a[6]);
  Geodesic G(ea, f); GeodesicExact E(ea, f);
  Res rg; rg.a12 = G.GenDirect(lat1, lon1, azi1, arc, len, Geodesic::ALL, rg.lat2, rg.lon2, rg.azi2, rg.s12, rg.m12, rg.M12, rg.M21, rg.S12);
  emit(hx(rg.m12) + " " + hx(rg.M12) + " " + hx(rg.M21) + " " + hx(rg.S12));
  if (!oracle_ok(f)) return;
  oracle::Line L(ea, f, lat1, lon1, azi1); oracle::Line::Pos p = L.position(arc, len);
  check_vs_oracle("series", G, acc_series(f), tolS(f, ea, (double)p.a12), ea, f, lat1, lon1, azi1, arc, len, L, p);
  check_vs_oracle("exact", E, acc_exact(f), tolSx(f, ea, (double)p.a12), ea, f, lat1, lon1, azi1, arc, len, L, p);
  // ellipsoid area = 4 pi c2 (closed form)
  double A = G.EllipsoidArea(), Ax = E.EllipsoidArea(), Ar = double(4 * oracle::PI * L.c2());
  if (!(std::fabs(A - Ar) <= 8 * ulp(Ar) && std::fabs(Ax - Ar) <= 8 * ulp(Ar))) bad("ellipsoid-area", "EllipsoidArea differs from 4 pi c2");
});

// inverse interface + reversal + addition rules + line interface consistency
template<class Geod, class Line> static void inverse_props(const char* name, const Geod& g, double acc, double tS, double ea, double f, double lat1, double lon1, double lat2, double lon2) {
  if (std::isnan(acc)) return;
  double s12, a1, a2, m12, M12, M21, S12; double a12 = g.Inverse(lat1, lon1, lat2, lon2, s12, a1, a2, m12, M12, M21, S12);
  double tol = tol_pos(acc, ea, a12);
  // reversal
  double s21, b1, b2, m21, N12, N21, T12; g.Inverse(lat2, lon2, lat1, lon1, s21, b1, b2, m21, N12, N21, T12);
  bool unique = !(std::fabs(lat1 + lat2) < 1e-9 && a12 > 170) && a12 < 179.9 && std::fabs(std::fabs(Math::AngDiff(lon1, lon2)) - 180) > 1e-9;
  if (unique) {
    if (!(std::fabs(m12 - m21) <= 2 * tol)) bad(std::string("reversal-") + name, "m12 changes when the segment is reversed");
    if (!(std::fabs(M12 - N21) <= 4 * tol / ea + 4e-15 && std::fabs(M21 - N12) <= 4 * tol / ea + 4e-15)) bad(std::string("reversal-") + name, "M12/M21 are not exchanged when the segment is reversed");
    if (!std::isnan(tS) && std::fabs(lat1) < 87 && std::fabs(lat2) < 87 && !(std::fabs(S12 + T12) <= 2 * tS)) bad(std::string("reversal-") + name, "S12 is not negated when the segment is reversed: " + std::to_string(S12) + " vs " + std::to_string(T12));
  }
  if (!(s12 > 1 && a12 < 179)) return;
  // the oracle geodesic with the returned azimuth and distance: m12, M12, M21, S12 of the inverse interface
  if (oracle_ok(f)) {
    oracle::Line L(ea, f, lat1, lon1, a1); oracle::Line::Pos p = L.position(false, s12);
    if (!(std::fabs(m12 - (double)p.m12) <= 2 * tol)) bad(std::string("inverse-m12-") + name, "m12 (inverse interface) off by " + std::to_string((m12 - (double)p.m12) * 1e9) + " nm");
    double tM = 4 * tol / ea + 8e-15;
    if (!(std::fabs(M12 - (double)p.M12) <= tM && std::fabs(M21 - (double)p.M21) <= tM)) bad(std::string("inverse-M-") + name, "M12/M21 (inverse interface) off by " + std::to_string(M12 - (double)p.M12) + ", " + std::to_string(M21 - (double)p.M21));
    bool nearpole = (double)fabsl(L.calp0) > 0.9986 || std::fabs(lat1) > 87 || std::fabs(lat2) > 87;
    if (!nearpole && !std::isnan(tS)) { double per = double(2 * oracle::PI * L.c2()); double dS = std::remainder(S12 - (double)p.S12, per); if (!(std::fabs(dS) <= 2 * tS * std::fmax(1.0, 0.25 / std::fmax((double)fabsl(L.salp0), 1e-3)))) bad(std::string("inverse-S12-") + name, "S12 (inverse interface) off by " + std::to_string(dS) + " m^2"); }
  }
  // direct and line interfaces on the same segment
  { double la, lo, az, mm, MM12, MM21, SS; g.Direct(lat1, lon1, a1, s12, la, lo, az, mm, MM12, MM21, SS);
    if (!(std::fabs(mm - m12) <= 2 * tol && std::fabs(MM12 - M12) <= 4 * tol / ea + 8e-15 && std::fabs(MM21 - M21) <= 4 * tol / ea + 8e-15)) bad(std::string("interfaces-") + name, "direct and inverse interfaces disagree on m12/M12/M21");
    if (!std::isnan(tS) && std::fabs(lat1) < 87 && std::fabs(lat2) < 87 && !(std::fabs(SS - S12) <= 2 * tS)) bad(std::string("interfaces-") + name, "direct and inverse interfaces disagree on S12 by " + std::to_string(SS - S12)); }
  // addition rules at an intermediate point
  { Line l(g, lat1, lon1, a1); double t = 0.37; double la, lo, az, sx, m13 = m12, M13 = M12, M31 = M21, q12, Q12, Q21, S13 = S12, Sa, Sb;
    l.GenPosition(false, t * s12, Geod::ALL, la, lo, az, sx, q12, Q12, Q21, Sa);
    double s23, c1, c2, m23, M23, M32; g.Inverse(la, lo, lat2, lon2, s23, c1, c2, m23, M23, M32, Sb);
    double r1 = q12 * M23 + m23 * Q21;
    if (!(std::fabs(m13 - r1) <= 6 * tol + 1e-9 * std::fabs(m13) * 1e-6)) bad(std::string("addition-m-") + name, "m13 != m12 M23 + m23 M21 (" + std::to_string((m13 - r1) * 1e9) + " nm)");
    if (std::fabs(q12) > 1e3) { double r2 = Q12 * M23 - (1 - Q12 * Q21) * m23 / q12; if (!(std::fabs(M13 - r2) <= (20 * tol / std::fabs(q12) + 1e-13) * (1 + std::fabs(m23 / q12)))) bad(std::string("addition-M-") + name, "M13 != M12 M23 - (1 - M12 M21) m23/m12 (" + std::to_string(M13 - r2) + ")"); }
    if (!std::isnan(tS) && std::fabs(lat1) < 87 && std::fabs(lat2) < 87 && std::fabs(la) < 87) { double per = g.EllipsoidArea() / 2; double dS = std::remainder(S13 - (Sa + Sb), per); if (!(std::fabs(dS) <= 2 * tS)) bad(std::string("addition-S-") + name, "S13 != S12 + S23 (" + std::to_string(dS) + " m^2)"); }
    (void)M31; }
}
static Reg r_inv("ginvlengths", [](const Args& a) {
  double ea = unhx(a[0]), f = unhx(a[1]), lat1 = unhx(a[2]), lon1 = unhx(a[3]), lat2 = unhx(a[4]), lon2 = unhx(a[5]);
  Geodesic G(ea, f); GeodesicExact E(ea, f);
  double s, m, M1, M2, S; G.GenInverse(lat1, lon1, lat2, lon2, Geodesic::ALL, s, m, m, m, M1, M2, S); emit(hx(m) + " " + hx(M1) + " " + hx(M2) + " " + hx(S));
  inverse_props<Geodesic, GeodesicLine>("series", G, acc_series(f), tolS(f, ea, 180), ea, f, lat1, lon1, lat2, lon2);
  inverse_props<GeodesicExact, GeodesicLineExact>("exact", E, acc_exact(f), tolSx(f, ea, 180), ea, f, lat1, lon1, lat2, lon2);
  // closed triangle: the S12 of the sides sum to the same area for both solvers (mod the ellipsoid area)
  if (!std::isnan(acc_series(f)) && !std::isnan(acc_exact(f))) {
    double lat3 = std::fmod(lat1 + lat2 + 40, 80), lon3 = lon1 + 70;
    auto tri = [&](auto& g) { double s12, S1, S2, S3, t; g.GenInverse(lat1, lon1, lat2, lon2, g.AREA, s12, t, t, t, t, t, S1); g.GenInverse(lat2, lon2, lat3, lon3, g.AREA, s12, t, t, t, t, t, S2); g.GenInverse(lat3, lon3, lat1, lon1, g.AREA, s12, t, t, t, t, t, S3); return S1 + S2 + S3; };
    bool amb = std::fabs(std::fabs(Math::AngDiff(lon1, lon2)) - 180) < 1 || std::fabs(std::fabs(Math::AngDiff(lon2, lon3)) - 180) < 1 || std::fabs(std::fabs(Math::AngDiff(lon3, lon1)) - 180) < 1 || std::fabs(lat1) > 89 || std::fabs(lat2) > 89;
    double dS = std::remainder(tri(G) - tri(E), G.EllipsoidArea() / 2);
    if (!amb && !(std::fabs(dS) <= 3 * (tolS(f, ea, 180) + tolSx(f, ea, 180)))) bad("polygon-sum", "sum of S12 around a triangle differs between the solvers by " + std::to_string(dS) + " m^2");
  }
});

static Reg r_lengths("lengths", [](const Args& a) {
  double f = unhx(a[0]), sig1 = unhx(a[1]), sig12 = unhx(a[2]), eps = unhx(a[3]), cbet1 = unhx(a[4]), cbet2 = unhx(a[5]); bool dist = a[6] == "1";
  Geodesic G(6.4e6, f); double k2 = 4 * eps / ((1 - eps) * (1 - eps));
  double ssig1 = std::sin(sig1), csig1 = std::cos(sig1), ssig2 = std::sin(sig1 + sig12), csig2 = std::cos(sig1 + sig12), dn1 = std::sqrt(1 + k2 * ssig1 * ssig1), dn2 = std::sqrt(1 + k2 * ssig2 * ssig2);
  double s12b = 0, m12b = 0, m0 = 0, M12 = 0, M21 = 0; double Ca[Geodesic::nC_];
  unsigned om = (dist ? Geodesic::DISTANCE : 0) | Geodesic::REDUCEDLENGTH | Geodesic::GEODESICSCALE;
  G.Lengths(eps, sig12, ssig1, csig1, dn1, ssig2, csig2, dn2, cbet1, cbet2, om, s12b, m12b, m0, M12, M21, Ca);
  current_op() = "lengths " + hx(G._ep2) + " " + hx(eps) + " " + hx(sig12) + " " + hx(ssig1) + " " + hx(csig1) + " " + hx(dn1) + " " + hx(ssig2) + " " + hx(csig2) + " " + hx(dn2) + " " + hx(cbet1) + " " + hx(cbet2) + " " + (dist ? "1" : "0");
  emit(hx(s12b) + " " + hx(m12b) + " " + hx(m0) + " " + hx(M12) + " " + hx(M21));
});

void gv::generate(const std::string& tier, uint64_t seed) {
  Rng r(seed * 472882027 + 3);
  long n = tier == "thorough" ? 30000 : 1800;
  std::vector<double> fs = {1 / 298.257223563, 0, 1e-3, -1e-3, 1 / 150.0, -1 / 150.0, 0.01, -0.01, 0.02, -0.02, 0.5, -1.0};
  for (long i = 0; i < n; ++i) {
    double f = i % 3 == 0 ? fs[0] : r.pick(fs); double a = f == fs[0] ? 6378137.0 : 6.4e6;
    double lat1 = r.irange(0, 7) ? r.range(-89, 89) : r.pick(std::vector<double>{0, 45, -45, 89.9, -0.0, 1e-10});
    double azi1 = r.irange(0, 7) ? r.range(-180, 180) : r.pick(std::vector<double>{90, -90, 1e-10, 45, 135, 0.0001});
    double lon1 = r.range(-180, 180);
    bool arc = r.coin(); double len = arc ? (r.irange(0, 3) ? r.range(-180, 180) : r.range(-720, 720)) : (r.irange(0, 3) ? r.range(-2e7, 2e7) : r.range(-8e7, 8e7));
    run("glengths", {hx(a), hx(f), hx(lat1), hx(lon1), hx(azi1), arc ? "1" : "0", hx(len)});
    stratum("lengths-direct");
    // the same segment through the Lean model of GeodesicLine (m12, M12, M21, S12 of GenPosition; ops of Corr/C01.lean)
    gline::model_case(r, a, f, lat1, lon1, azi1, arc, len, false);
    double lat2 = r.irange(0, 6) ? r.range(-89, 89) : r.pick(std::vector<double>{0.0, -lat1, lat1, 0.0}), lon2 = r.irange(0, 6) ? r.range(-180, 180) : lon1 + r.pick(std::vector<double>{0.0, 1e-6, 10, 90, 170, 179.5});
    if (i % 9 == 0) { lat1 = 0; lat2 = 0; }   // equatorial segments
    run("ginvlengths", {hx(a), hx(f), hx(lat1), hx(lon1), hx(lat2), hx(lon2)});
    stratum(lat1 == 0 && lat2 == 0 ? "lengths-inverse-equatorial" : "lengths-inverse");
    if (i < 3) sample(current_op());
    if (i % 3 == 0) run("lengths", {hx(f), hx(r.range(-3, 3)), hx(r.range(0, 3.1)), hx(r.range(-0.01, 0.01)), hx(r.range(0, 1)), hx(r.range(0, 1)), r.coin() ? "1" : "0"});
  }
}
int main(int argc, char** argv) { return gv::main_(argc, argv); }
