// C03: reduced length, geodesic scales and area under a geodesic
#include "C01_tool.hpp"
#include "geodcommon.hpp"
#include "C01_line.hpp"
#include "C01_xline.hpp"
#include "C01_routes.hpp"
using namespace gd; using namespace gv; using namespace routes;
static std::string sci(double x) { char b[40]; std::snprintf(b, sizeof b, "%.6g", x); return b; }
// the geodesic scales are derivatives of positions with respect to positions: their error is a length error over the length scale of the
// surface, the smallest principal radius of curvature of the ellipsoid (b^2/a at the equator of an oblate, a^2/b at the poles of a prolate one)
static double rho_min(double a, double f) { double b = a * (1 - f); return std::fmin(b * b / a, a * a / b); }

static double tolS(double f, double a, double a12) {   // documented area accuracy 0.1 m^2 (WGS84), x4, growing with |f| for the series
  double x = std::fabs(f); double base = x <= 1 / 150.0 + 1e-12 ? 0.4 : x <= 1 / 100.0 + 1e-12 ? 0.4 : x <= 1 / 50.0 + 1e-12 ? 1.5 : NAN;
  return base * (a / 6378137.0) * (a / 6378137.0) * std::fmax(1.0, std::fabs(a12) / 180);
}
static double tolSx(double f, double a, double a12) { double q = (1 - f) >= 1 ? (1 - f) : 1 / (1 - f); return (q <= 1.05 ? 4.0 : q <= 2.001 ? 60.0 : NAN) *   /* the exact solver's DST area has no documented figure: measured 1 m^2 (WGS84) / 14 m^2 (b/a = 2) on the unchanged tree, x4 */ (a / 6378137.0) * (a / 6378137.0) * std::fmax(1.0, std::fabs(a12) / 180); }

// m12, M12, M21, S12 delivered by one route, against the defining integrals
static void check_vs_oracle(const std::string& name, const Out& x, double acc, double scale, double tS, double ea, double lat1, const QLine& L, const oracle::Line::Pos& p) {
  if (std::isnan(acc) || !(x.have & (hm | hM | hAREA))) return;
  const Res& r = x.r;
  double tol = tol_len(acc, scale, (double)p.a12);
  if ((x.have & hm) && !(std::fabs(r.m12 - (double)p.m12) <= 2 * tol)) bad("m12-" + name, x.name + ": reduced length off by " + std::to_string((r.m12 - (double)p.m12) * 1e9) + " nm (tolerance " + std::to_string(2 * tol * 1e9) + ")");
  double tM = 2 * tol / rho_min(ea, (double)L.f) + 8e-16 * (1 + std::fabs((double)p.M12));
  if ((x.have & hM) && !(std::fabs(r.M12 - (double)p.M12) <= tM * std::fmax(1.0, std::fabs((double)p.M12)))) bad("M12-" + name, x.name + ": geodesic scale M12 = " + sci(r.M12) + " off by " + sci(r.M12 - (double)p.M12) + " (tolerance " + sci(tM * std::fmax(1.0, std::fabs((double)p.M12))) + ")");
  if ((x.have & hM) && !(std::fabs(r.M21 - (double)p.M21) <= tM * std::fmax(1.0, std::fabs((double)p.M21)))) bad("M21-" + name, x.name + ": geodesic scale M21 = " + sci(r.M21) + " off by " + sci(r.M21 - (double)p.M21) + " (tolerance " + sci(tM * std::fmax(1.0, std::fabs((double)p.M21))) + ")");
  // S12 is discontinuous where the path touches a pole (jumps by c2*dalpha): compare only when the path stays off the poles
  LD mx = fabsl(L.calp0);   // max |sin beta| along the geodesic = |cos alp0|
  bool nearpole = (double)mx > 0.9986 || std::fabs(lat1) > 87;   // within 3 degrees of a pole S12 is ill-conditioned (c2 * d(alpha))
  if ((x.have & hAREA) && !nearpole && !std::isnan(tS)) {
    double per = double(2 * oracle::PI * L.c2());
    double dS = std::remainder(r.S12 - (double)p.S12, per);
    // conditioning: S12 = c2*(alp2 - alp1) + ...; an azimuth is defined to (position accuracy)/(a*|sin alp0|) only, so the documented
    // 0.1 m^2 (which is c2 * 2.5e-15 rad on WGS84) cannot hold where the geodesic passes close to a pole: scale by 1/(4|sin alp0|)
    double tSc = tS * std::fmax(1.0, 0.25 / std::fmax((double)fabsl(L.salp0), 1e-3));
    if (!(std::fabs(dS) <= tSc)) bad("S12-" + name, x.name + ": area under the geodesic off by " + std::to_string(dS) + " m^2 (tolerance " + std::to_string(tSc) + ")");
  }
}
// every documented route to m12, M12, M21, S12 of the direct problem: each against the oracle, and all against GenDirect(ALL)
template<class G, class Ln> static void direct_config(const std::string& name, const G& g, double acc, double scale, double tS, double ea, double f, double lat1, double lon1, double azi1, bool arc, double len, const QLine* L, const oracle::Line::Pos* p) {
  std::vector<Out> o = direct_routes<G, Ln>(g, lat1, lon1, azi1, arc, len, 2);
  const Res* P = nullptr; for (auto& x : o) if (x.name == "GenDirect(ALL)") P = &x.r;
  for (auto& x : o) {
    if (L) check_vs_oracle(name, x, acc, scale, tS, ea, lat1, *L, *p);
    if (std::isnan(acc) || !P) continue;
    double tol = tol_len(acc, scale, P->a12), tM = 2 * tol / rho_min(ea, f) + 8e-16 * (1 + std::fabs(P->M12) + std::fabs(P->M21));
    const Res& r = x.r;
    if ((x.have & hm) && !(std::fabs(r.m12 - P->m12) <= 2 * tol)) bad("route-m12-" + name, x.name + ": m12 = " + std::to_string(r.m12) + " but GenDirect(ALL) gives " + std::to_string(P->m12));
    if ((x.have & hM) && !(std::fabs(r.M12 - P->M12) <= tM * std::fmax(1.0, std::fabs(P->M12)) && std::fabs(r.M21 - P->M21) <= tM * std::fmax(1.0, std::fabs(P->M21))))
      bad("route-M-" + name, x.name + ": M12, M21 = " + std::to_string(r.M12) + ", " + std::to_string(r.M21) + " but GenDirect(ALL) gives " + std::to_string(P->M12) + ", " + std::to_string(P->M21));
    if ((x.have & hAREA) && !(std::fabs(r.S12 - P->S12) <= 1e-9 * std::fabs(P->S12) + (std::isnan(tS) ? 1.0 : tS))) bad("route-S12-" + name, x.name + ": S12 = " + std::to_string(r.S12) + " but GenDirect(ALL) gives " + std::to_string(P->S12));
  }
}

static Reg r_len("glengths", [](const Args& a) {
  double ea = unhx(a[0]), f = unhx(a[1]), lat1 = unhx(a[2]), lon1 = unhx(a[3]), azi1 = unhx(a[4]); bool arc = a[5] == "1"; double len = unhx(a[6]);
  Geodesic G(ea, f), X(ea, f, true); GeodesicExact E(ea, f);
  Res rg; rg.a12 = G.GenDirect(lat1, lon1, azi1, arc, len, Geodesic::ALL, rg.lat2, rg.lon2, rg.azi2, rg.s12, rg.m12, rg.M12, rg.M21, rg.S12);
  emit(hx(rg.m12) + " " + hx(rg.M12) + " " + hx(rg.M21) + " " + hx(rg.S12));
  double scale = size_scale(ea, f);
  bool useo = oracle_range(f); QLine L(ea, f, lat1, lon1, azi1); oracle::Line::Pos p{};
  if (useo) { p = L.position(arc, len); if (!std::isfinite((double)p.a12)) { useo = false; stat("oracle_abstains"); } }
  double a12 = useo ? (double)p.a12 : (arc ? len : 180.0);
  direct_config<Geodesic, GeodesicLine>("series", G, acc_series_full(f), scale, tolS(f, ea, a12), ea, f, lat1, lon1, azi1, arc, len, useo ? &L : nullptr, &p);
  direct_config<GeodesicExact, GeodesicLineExact>("exact", E, acc_exact_full(f), scale, tolSx(f, ea, a12), ea, f, lat1, lon1, azi1, arc, len, useo ? &L : nullptr, &p);
  direct_config<Geodesic, GeodesicLine>("exact-true", X, acc_exact_full(f), scale, tolSx(f, ea, a12), ea, f, lat1, lon1, azi1, arc, len, useo ? &L : nullptr, &p);
  // ellipsoid area = 4 pi c2 (closed form)
  double A = G.EllipsoidArea(), Ax = E.EllipsoidArea(), Ar = double(4 * oracle::PI * L.c2());
  if (!(std::fabs(A - Ar) <= 8 * ulp(Ar) && std::fabs(Ax - Ar) <= 8 * ulp(Ar))) bad("ellipsoid-area", "EllipsoidArea differs from 4 pi c2");
});

// inverse interface + reversal + addition rules + line interface consistency
template<class Geod, class Line> static void inverse_props(const char* name, const Geod& g, double acc, double tS, double ea, double f, double lat1, double lon1, double lat2, double lon2) {
  if (std::isnan(acc)) return;
  double s12, a1, a2, m12, M12, M21, S12; double a12 = g.Inverse(lat1, lon1, lat2, lon2, s12, a1, a2, m12, M12, M21, S12);
  double tol = tol_pos(acc, ea, a12);
  // every overload / single-output mask of the inverse interface returns the same quantities (the full overload is judged against the oracle below)
  { double tM = 4 * tol / ea + 8e-15;
    for (auto& x : inverse_routes<Geod>(g, lat1, lon1, lat2, lon2)) { const Res& r = x.r; std::string why;
      if ((x.have & hS) && !(std::fabs(r.s12 - s12) <= tol)) why += " s12 = " + std::to_string(r.s12) + " (" + std::to_string(s12) + ")";
      if (!(std::fabs(r.a12 - a12) * Math::degree() * ea <= tol + 1e-9)) why += " a12 = " + std::to_string(r.a12) + " (" + std::to_string(a12) + ")";
      if ((x.have & hm) && !(std::fabs(r.m12 - m12) <= 2 * tol)) why += " m12 = " + std::to_string(r.m12) + " (" + std::to_string(m12) + ")";
      if ((x.have & hM) && !(std::fabs(r.M12 - M12) <= tM && std::fabs(r.M21 - M21) <= tM)) why += " M12, M21 = " + std::to_string(r.M12) + ", " + std::to_string(r.M21) + " (" + std::to_string(M12) + ", " + std::to_string(M21) + ")";
      if ((x.have & hAREA) && !(std::fabs(r.S12 - S12) <= 1e-9 * std::fabs(S12) + (std::isnan(tS) ? 1.0 : tS))) why += " S12 = " + std::to_string(r.S12) + " (" + std::to_string(S12) + ")";
      if (!why.empty()) bad(std::string("inverse-route-") + name, x.name + ":" + why + "; in parentheses: Inverse(s12,azi1,azi2,m12,M12,M21,S12)"); }
    // the line through both points (InverseLine), evaluated at its third point
    if (s12 > 1 && a12 < 179) { Line l = g.InverseLine(lat1, lon1, lat2, lon2); Res r = nanres();
      r.a12 = l.GenPosition(false, l.Distance(), Geod::ALL, r.lat2, r.lon2, r.azi2, r.s12, r.m12, r.M12, r.M21, r.S12);
      if (!(std::fabs(r.m12 - m12) <= 2 * tol && std::fabs(r.M12 - M12) <= tM && std::fabs(r.M21 - M21) <= tM)) bad(std::string("inverseline-") + name, "InverseLine(...).Position(Distance()) and Inverse disagree on m12/M12/M21");
      // S12 = c2 (alp2 - alp1) + ...: an azimuth is defined to (position accuracy)/(a |sin alp0|) only (as in check_vs_oracle)
      double salp0 = std::fabs(std::sin(a1 * Math::degree()) * (double)cosbeta(f, lat1)), cond = std::fmax(1.0, 0.25 / std::fmax(salp0, 1e-3));
      if (!std::isnan(tS) && std::fabs(lat1) < 87 && std::fabs(lat2) < 87 && !(std::fabs(r.S12 - S12) <= 2 * tS * cond)) bad(std::string("inverseline-") + name, "InverseLine(...).Position(Distance()) and Inverse disagree on S12 by " + std::to_string(r.S12 - S12) + " (tolerance " + std::to_string(2 * tS * cond) + ")"); }
  }
  // reversal
  double s21, b1, b2, m21, N12, N21, T12; g.Inverse(lat2, lon2, lat1, lon1, s21, b1, b2, m21, N12, N21, T12);
  bool unique = !(std::fabs(lat1 + lat2) < 1e-9 && a12 > 170) && a12 < 179.9 && std::fabs(std::fabs(Math::AngDiff(lon1, lon2)) - 180) > 1e-9;
  if (unique) {
    if (!(std::fabs(m12 - m21) <= 2 * tol)) bad(std::string("reversal-") + name, "m12 changes when the segment is reversed");
    if (!(std::fabs(M12 - N21) <= 4 * tol / ea + 4e-15 && std::fabs(M21 - N12) <= 4 * tol / ea + 4e-15)) bad(std::string("reversal-") + name, "M12/M21 are not exchanged when the segment is reversed");
    if (!std::isnan(tS) && std::fabs(lat1) < 87 && std::fabs(lat2) < 87 && !(std::fabs(S12 + T12) <= 2 * tS)) bad(std::string("reversal-") + name, "S12 is not negated when the segment is reversed: " + std::to_string(S12) + " vs " + std::to_string(T12));
  }
  if (!(s12 > 1 && a12 < 179)) return;
  // the oracle geodesic with the returned azimuth and distance: m12, M12, M21, S12 of the inverse interface
  if (oracle_ok(f)) {
    oracle::Line L(ea, f, lat1, lon1, a1); oracle::Line::Pos p = L.position(false, s12);
    if (!(std::fabs(m12 - (double)p.m12) <= 2 * tol)) bad(std::string("inverse-m12-") + name, "m12 (inverse interface) off by " + std::to_string((m12 - (double)p.m12) * 1e9) + " nm");
    double tM = 4 * tol / ea + 8e-15;
    if (!(std::fabs(M12 - (double)p.M12) <= tM && std::fabs(M21 - (double)p.M21) <= tM)) bad(std::string("inverse-M-") + name, "M12/M21 (inverse interface) off by " + std::to_string(M12 - (double)p.M12) + ", " + std::to_string(M21 - (double)p.M21));
    bool nearpole = (double)fabsl(L.calp0) > 0.9986 || std::fabs(lat1) > 87 || std::fabs(lat2) > 87;
    if (!nearpole && !std::isnan(tS)) { double per = double(2 * oracle::PI * L.c2()); double dS = std::remainder(S12 - (double)p.S12, per); if (!(std::fabs(dS) <= 2 * tS * std::fmax(1.0, 0.25 / std::fmax((double)fabsl(L.salp0), 1e-3)))) bad(std::string("inverse-S12-") + name, "S12 (inverse interface) off by " + std::to_string(dS) + " m^2"); }
  }
  // direct and line interfaces on the same segment
  { double la, lo, az, mm, MM12, MM21, SS; g.Direct(lat1, lon1, a1, s12, la, lo, az, mm, MM12, MM21, SS);
    if (!(std::fabs(mm - m12) <= 2 * tol && std::fabs(MM12 - M12) <= 4 * tol / ea + 8e-15 && std::fabs(MM21 - M21) <= 4 * tol / ea + 8e-15)) bad(std::string("interfaces-") + name, "direct and inverse interfaces disagree on m12/M12/M21");
    double salp0 = std::fabs(std::sin(a1 * Math::degree()) * (double)cosbeta(f, lat1)), cond = std::fmax(1.0, 0.25 / std::fmax(salp0, 1e-3));   // near-pole conditioning of alp12, as above
    if (!std::isnan(tS) && std::fabs(lat1) < 87 && std::fabs(lat2) < 87 && !(std::fabs(SS - S12) <= 2 * tS * cond)) bad(std::string("interfaces-") + name, "direct and inverse interfaces disagree on S12 by " + std::to_string(SS - S12)); }
  // addition rules at an intermediate point
  { Line l(g, lat1, lon1, a1); double t = 0.37; double la, lo, az, sx, m13 = m12, M13 = M12, M31 = M21, q12, Q12, Q21, S13 = S12, Sa, Sb;
    l.GenPosition(false, t * s12, Geod::ALL, la, lo, az, sx, q12, Q12, Q21, Sa);
    double s23, c1, c2, m23, M23, M32; g.Inverse(la, lo, lat2, lon2, s23, c1, c2, m23, M23, M32, Sb);
    double r1 = q12 * M23 + m23 * Q21;
    if (!(std::fabs(m13 - r1) <= 6 * tol + 1e-9 * std::fabs(m13) * 1e-6)) bad(std::string("addition-m-") + name, "m13 != m12 M23 + m23 M21 (" + std::to_string((m13 - r1) * 1e9) + " nm)");
    if (std::fabs(q12) > 1e3) { double r2 = Q12 * M23 - (1 - Q12 * Q21) * m23 / q12; if (!(std::fabs(M13 - r2) <= (20 * tol / std::fabs(q12) + 1e-13) * (1 + std::fabs(m23 / q12)))) bad(std::string("addition-M-") + name, "M13 != M12 M23 - (1 - M12 M21) m23/m12 (" + std::to_string(M13 - r2) + ")"); }
    if (!std::isnan(tS) && std::fabs(lat1) < 87 && std::fabs(lat2) < 87 && std::fabs(la) < 87) { double per = g.EllipsoidArea() / 2; double dS = std::remainder(S13 - (Sa + Sb), per); if (!(std::fabs(dS) <= 2 * tS)) bad(std::string("addition-S-") + name, "S13 != S12 + S23 (" + std::to_string(dS) + " m^2)"); }
    (void)M31; }
}
static Reg r_inv("ginvlengths", [](const Args& a) {
  double ea = unhx(a[0]), f = unhx(a[1]), lat1 = unhx(a[2]), lon1 = unhx(a[3]), lat2 = unhx(a[4]), lon2 = unhx(a[5]);
  Geodesic G(ea, f); GeodesicExact E(ea, f);
  double s, m, M1, M2, S; G.GenInverse(lat1, lon1, lat2, lon2, Geodesic::ALL, s, m, m, m, M1, M2, S); emit(hx(m) + " " + hx(M1) + " " + hx(M2) + " " + hx(S));
  inverse_props<Geodesic, GeodesicLine>("series", G, acc_series(f), tolS(f, ea, 180), ea, f, lat1, lon1, lat2, lon2);
  inverse_props<GeodesicExact, GeodesicLineExact>("exact", E, acc_exact(f), tolSx(f, ea, 180), ea, f, lat1, lon1, lat2, lon2);
  // a segment exactly over a pole (longitudes exactly 180 degrees apart, not antipodal): the azimuths are exactly 0 / 180 and the
  // documented tie rule (east-going) fixes the sign of S12 = -/+ (a quarter of the ellipsoid area) + small terms; the two solvers must
  // give the same value outright (not only modulo half the ellipsoid area, which hides a flipped sign) - gross tolerance
  if (!std::isnan(acc_series(f)) && !std::isnan(acc_exact(f)) && std::fabs(Math::AngDiff(lon1, lon2)) == 180 && std::fabs(lat1 + lat2) > 1 && std::fabs(lat1) < 90 && std::fabs(lat2) < 90) {
    double s12, t, Sg, Sx; G.GenInverse(lat1, lon1, lat2, lon2, Geodesic::AREA, s12, t, t, t, t, t, Sg); E.GenInverse(lat1, lon1, lat2, lon2, GeodesicExact::AREA, s12, t, t, t, t, t, Sx);
    if (!(std::fabs(Sg - Sx) <= 1e-8 * G.EllipsoidArea())) bad("polar-segment-S12", "S12 of a segment exactly over a pole: series " + std::to_string(Sg) + " m^2, exact " + std::to_string(Sx) + " m^2");
    // and reversing the segment negates it (both solvers)
    double Sgr, Sxr; G.GenInverse(lat2, lon2, lat1, lon1, Geodesic::AREA, s12, t, t, t, t, t, Sgr); E.GenInverse(lat2, lon2, lat1, lon1, GeodesicExact::AREA, s12, t, t, t, t, t, Sxr);
    if (!(std::fabs(std::remainder(Sg + Sgr, G.EllipsoidArea())) <= 1e-8 * G.EllipsoidArea()) || !(std::fabs(std::remainder(Sx + Sxr, G.EllipsoidArea())) <= 1e-8 * G.EllipsoidArea()))
      bad("polar-segment-S12", "S12 of a segment exactly over a pole and of its reverse do not cancel modulo the ellipsoid area");
  }
  // closed triangle: the S12 of the sides sum to the same area for both solvers (mod the ellipsoid area)
  if (!std::isnan(acc_series(f)) && !std::isnan(acc_exact(f))) {
    double lat3 = std::fmod(lat1 + lat2 + 40, 80), lon3 = lon1 + 70;
    auto tri = [&](auto& g) { double s12, S1, S2, S3, t; g.GenInverse(lat1, lon1, lat2, lon2, g.AREA, s12, t, t, t, t, t, S1); g.GenInverse(lat2, lon2, lat3, lon3, g.AREA, s12, t, t, t, t, t, S2); g.GenInverse(lat3, lon3, lat1, lon1, g.AREA, s12, t, t, t, t, t, S3); return S1 + S2 + S3; };
    bool amb = std::fabs(std::fabs(Math::AngDiff(lon1, lon2)) - 180) < 1 || std::fabs(std::fabs(Math::AngDiff(lon2, lon3)) - 180) < 1 || std::fabs(std::fabs(Math::AngDiff(lon3, lon1)) - 180) < 1 || std::fabs(lat1) > 89 || std::fabs(lat2) > 89;
    double dS = std::remainder(tri(G) - tri(E), G.EllipsoidArea() / 2);
    if (!amb && !(std::fabs(dS) <= 3 * (tolS(f, ea, 180) + tolSx(f, ea, 180)))) bad("polygon-sum", "sum of S12 around a triangle differs between the solvers by " + std::to_string(dS) + " m^2");
  }
});

static Reg r_lengths("lengths", [](const Args& a) {
  double f = unhx(a[0]), sig1 = unhx(a[1]), sig12 = unhx(a[2]), eps = unhx(a[3]), cbet1 = unhx(a[4]), cbet2 = unhx(a[5]); bool dist = a[6] == "1";
  Geodesic G(6.4e6, f); double k2 = 4 * eps / ((1 - eps) * (1 - eps));
  double ssig1 = std::sin(sig1), csig1 = std::cos(sig1), ssig2 = std::sin(sig1 + sig12), csig2 = std::cos(sig1 + sig12), dn1 = std::sqrt(1 + k2 * ssig1 * ssig1), dn2 = std::sqrt(1 + k2 * ssig2 * ssig2);
  double s12b = 0, m12b = 0, m0 = 0, M12 = 0, M21 = 0; double Ca[Geodesic::nC_];
  unsigned om = (dist ? Geodesic::DISTANCE : 0) | Geodesic::REDUCEDLENGTH | Geodesic::GEODESICSCALE;
  G.Lengths(eps, sig12, ssig1, csig1, dn1, ssig2, csig2, dn2, cbet1, cbet2, om, s12b, m12b, m0, M12, M21, Ca);
  current_op() = "lengths " + hx(G._ep2) + " " + hx(eps) + " " + hx(sig12) + " " + hx(ssig1) + " " + hx(csig1) + " " + hx(dn1) + " " + hx(ssig2) + " " + hx(csig2) + " " + hx(dn2) + " " + hx(cbet1) + " " + hx(cbet2) + " " + (dist ? "1" : "0");
  emit(hx(s12b) + " " + hx(m12b) + " " + hx(m0) + " " + hx(M12) + " " + hx(M21));
});

void gv::generate(const std::string& tier, uint64_t seed) {
  Rng r(seed * 472882027 + 3);
  long n = tier == "thorough" ? 30000 : 1800;
  const double W = 1 / 298.257223563;
  std::vector<double> fs = {0, 1e-3, -1e-3, 1 / 150.0, -1 / 150.0, 0.01, -0.01, 0.02, -0.02, 0.5, -1.0}, fdeg = {0.05, -0.05, 0.1, -0.1, 0.2, -0.2},
                      bax = {0.25, 4, 0.125, 8, 1 / 16.0, 16, 0.04, 25, 0.02, 50, 0.01, 100};
  for (long i = 0; i < n; ++i) {
    int kf = r.irange(0, 19);
    double f = i % 3 == 0 ? W : kf < 14 ? r.pick(fs) : kf < 17 ? r.pick(fdeg) : 1 - r.pick(bax); double a = f == W ? 6378137.0 : 6.4e6, big = std::fmax(a, a * (1 - f));
    const char* fam = f == W ? "wgs84" : std::fabs(f) <= 0.02 ? "series-range" : std::fabs(f) <= 0.2 ? "series-degraded" : (f >= -1 && f <= 0.5) ? "exact-only" : "exact-extreme";
    double lat1 = r.irange(0, 7) ? r.range(-89, 89) : r.pick(std::vector<double>{0, 45, -45, 89.9, -0.0, 1e-10});
    double azi1 = r.irange(0, 7) ? r.range(-180, 180) : r.pick(std::vector<double>{90, -90, 1e-10, 45, 135, 0.0001});
    double lon1 = r.irange(0, 3) ? r.range(-180, 180) : r.range(-720, 720);
    bool arc = r.coin(); double len = arc ? (r.irange(0, 3) ? r.range(-180, 180) : r.range(-720, 720)) : (r.irange(0, 3) ? r.range(-3.1, 3.1) : r.range(-12.5, 12.5)) * big;
    if (r.irange(0, 11) == 0) len = arc ? 180 * r.irange(-3, 3) + r.pick(std::vector<double>{0, 1e-9, -1e-6, 0.5, -0.5}) : len;   // arcs at and near multiples of 180 degrees
    run("glengths", {hx(a), hx(f), hx(lat1), hx(lon1), hx(azi1), arc ? "1" : "0", hx(len)});
    stratum(std::string("lengths-direct-") + fam + (arc ? "-arc" : "-dist"));
    // the same segment through the Lean models of GeodesicLine and GeodesicLineExact (m12, M12, M21, S12 of GenPosition; ops of Corr/C01.lean)
    if (std::fabs(f) <= 0.2) gline::model_case(r, a, f, lat1, lon1, azi1, arc, len, false);
    xline::model_case(r, a, f, lat1, lon1, azi1, arc, len, i % 16 == 0);
    if (i % 4 == 1) gtool::tool_case(r, a, f, lat1, lon1, azi1, arc, len);   // GeodSolve -f on the same segment
    if (std::fabs(f) > 0.02 && f != 0.5 && f != -1.0) continue;   // the inverse-interface relations keep to the flattenings they are documented for
    double lat2 = r.irange(0, 6) ? r.range(-89, 89) : r.pick(std::vector<double>{0.0, -lat1, lat1, 0.0}), lon2 = r.irange(0, 6) ? r.range(-180, 180) : lon1 + r.pick(std::vector<double>{0.0, 1e-6, 10, 90, 170, 179.5});
    if (i % 9 == 0) { lat1 = 0; lat2 = 0; }   // equatorial segments
    if (i % 11 == 0) { double sg = r.coin() ? 1 : -1; lat1 = sg * r.range(5, 89); lat2 = sg * r.range(5, 89); lon1 = double(r.irange(-180, 180)); lon2 = lon1 + 180; }   // exactly over a pole
    run("ginvlengths", {hx(a), hx(f), hx(lat1), hx(lon1), hx(lat2), hx(lon2)});
    stratum(lat1 == 0 && lat2 == 0 ? "lengths-inverse-equatorial" : "lengths-inverse");
    if (i % 4 == 2) gtool::tool_inverse_case(r, a, f, lat1, lon1, lat2, lon2);   // GeodSolve -i -f on the same pair
    if (i < 3) sample(current_op());
    if (i % 3 == 0) run("lengths", {hx(f), hx(r.range(-3, 3)), hx(r.range(0, 3.1)), hx(r.range(-0.01, 0.01)), hx(r.range(0, 1)), hx(r.range(0, 1)), r.coin() ? "1" : "0"});
  }
}
int main(int argc, char** argv) { return gv::main_(argc, argv); }
