// C05: entry points and documented facts the first rounds did not exercise: MGRS::Decode (the public splitter), MGRS::Check (the self test behind
// GeoConvert --version), GeoCoords::MGRSRepresentation / AltMGRSRepresentation, GeoConvert -m; and oracles on MGRS::Forward / Reverse that use only the
// numbers and letters of the documentation (harness/C04_doc.hpp), never a table of the library.  Included by C05.cpp after its helpers `b`, `SENT`, `split`.
#pragma once
#include "C04_doc.hpp"
#include "C04_tool.hpp"
#include <GeographicLib/GeoCoords.hpp>

namespace mg {

// (zone, northp, x, y) relabelled with the hemisphere the point lies in ("UTM northings can be continued across the equator"); `edge` is set when a
// coordinate sits exactly on a closed upper limit (documented: silently reduced by about 4 nm) — the letter arithmetic below is not applied there
struct Folded { bool northp; double x, y; bool folded, edge; };
static Folded fold(int zone, bool northp, double x, double y) {
  Folded f{northp, x, y, false, false};
  if (zone > 0) {
    if (northp && y < 0) { f.northp = false; f.y = y + doc::SHIFT; f.folded = true; }
    else if (!northp && y > doc::SHIFT) { f.northp = true; f.y = y - doc::SHIFT; f.folded = true; }
  }
  doc::Rect R = doc::range(zone > 0, northp, true);
  f.edge = x == R.xh || y == R.yh || (zone > 0 && !f.northp && f.y == doc::SHIFT);
  return f;
}

static std::string digits_of(long long v, int w) { std::string s(size_t(w), '0'); for (int i = w - 1; i >= 0; --i) { s[size_t(i)] = char('0' + v % 10); v /= 10; } return s; }

// is `s` the MGRS string of (zone, northp, x, y) at precision `prec` by the documented lettering and by truncation?  "" or a complaint.
// `lat` (NaN = unknown) is used for the band letter; a neighbouring band is tolerated within 20 nm of a band edge (4 x 5 nm)
static std::string check_string(int zone, bool northp, double x, double y, double lat, int prec, const std::string& s) {
  bool utmp = zone > 0; Folded f = fold(zone, northp, x, y);
  size_t hl = utmp ? 2 : 0;
  size_t want = prec < 0 ? hl + 1 : hl + 3 + 2 * size_t(prec);
  if (s.size() != want) return "length " + std::to_string(s.size()) + ", documented " + std::to_string(want) + " at precision " + std::to_string(prec);
  if (utmp && (s[0] != char('0' + zone / 10) || s[1] != char('0' + zone % 10))) return "zone digits are not " + std::to_string(zone);
  if (f.edge) return "";
  int xh = int(std::floor(f.x / doc::TILE)), yh = int(std::floor(f.y / doc::TILE));
  if (utmp) {
    const char* pb = std::strchr(doc::A24, s[2]); int ib = pb ? int(pb - doc::A24) - 12 : -99;
    if (ib < -10 || ib > 9) return "band letter " + std::string(1, s[2]) + " is not in C..X";
    if ((ib >= 0) != f.northp && !(std::fabs(f.y - (f.northp ? 0 : doc::SHIFT)) < 20e-9)) return "band letter " + std::string(1, s[2]) + " is in the wrong hemisphere";
    if (!std::isnan(lat)) {
      int wb = doc::band_of_lat(lat);
      if (ib != wb) { double edge = std::round(lat / 8) * 8, dist = std::fabs(lat - edge) * 111e3; if (!(std::abs(ib - wb) == 1 && dist < 22e-9)) return "band letter " + std::string(1, s[2]) + ", latitude " + std::to_string(lat) + " is in band " + doc::band_letter(wb); }
    }
    if (prec < 0) return "";
    if (s[3] != doc::col_letter(zone, xh)) return "column letter " + std::string(1, s[3]) + ", documented " + doc::col_letter(zone, xh) + " for easting tile " + std::to_string(xh) + " of zone " + std::to_string(zone);
    int row = yh - (f.northp ? 0 : 100);
    if (s[4] != doc::row_letter(zone, row)) return "row letter " + std::string(1, s[4]) + ", documented " + doc::row_letter(zone, row) + " for row " + std::to_string(row) + " of zone " + std::to_string(zone);
  } else {
    if (s[0] != doc::ups_band_letter(f.northp, xh)) return "UPS letter " + std::string(1, s[0]) + ", documented " + doc::ups_band_letter(f.northp, xh);
    if (prec < 0) return "";
    if (s[1] != doc::ups_col_letter(xh)) return "UPS column letter " + std::string(1, s[1]) + ", documented " + doc::ups_col_letter(xh);
    if (s[2] != doc::ups_row_letter(f.northp, yh)) return "UPS row letter " + std::string(1, s[2]) + ", documented " + doc::ups_row_letter(f.northp, yh);
  }
  // digits: "obtained by operating on the easting with floor(10^6 x) and extracting the required digits" — truncation, exact for prec <= 5
  for (int c = 0; c < 2 && prec > 0; ++c) {
    double v = c ? f.y : f.x; std::string d = s.substr(hl + 3 + size_t(c) * size_t(prec), size_t(prec));
    for (char ch : d) if (ch < '0' || ch > '9') return "non-digit in the digits";
    if (c && f.folded) continue;                                  // the relabelling addition of 10^7 m rounds: judged through containment (4 nm) instead
    long long m = (long long)std::floor(v) % 100000;              // metres inside the tile, exact
    if (prec <= 5) { long long p10 = 1; for (int i = prec; i < 5; ++i) p10 *= 10; if (d != digits_of(m / p10, prec)) return std::string(c ? "northing" : "easting") + " digits " + d + " are not the truncation " + digits_of(m / p10, prec); }
    else {
      // floor(v * 10^(prec-5)) in exact integer arithmetic (v = M * 2^E); "accurate to roundoff" for prec in [6, 11]: one unit either way
      int E; double fr = std::frexp(v, &E); __int128 M = (__int128)(long long)std::ldexp(fr, 53); E -= 53;
      __int128 sc = 1; for (int i = 5; i < prec; ++i) sc *= 10;
      __int128 T = E >= 0 ? (M << E) * sc : (-E > 120 ? (__int128)0 : (M * sc) >> (-E));
      __int128 per = sc * 100000; long long want = (long long)(T % per), got = std::atoll(d.c_str());
      long long diff = got - want; if (diff < 0) diff = -diff;
      if (!(diff <= 1 || diff == (long long)per - 1)) return std::string(c ? "northing" : "easting") + " digits " + d + " are not the truncation " + digits_of(want, prec);
    }
  }
  return "";
}

// the documented grammar of MGRS::Decode: 0-2 digits, 1 or 3 letters (I and O are not letters), then, after 3 letters, an even number of digits; "INV..." passes
static bool split_doc(const std::string& s, std::string& gz, std::string& blk, std::string& e, std::string& n) {
  if (s.size() >= 3 && std::toupper((unsigned char)s[0]) == 'I' && std::toupper((unsigned char)s[1]) == 'N' && std::toupper((unsigned char)s[2]) == 'V') { gz = s.substr(0, 3); blk = e = n = ""; return true; }
  auto isd = [](char c) { return c >= '0' && c <= '9'; };
  auto isa = [](char c) { unsigned char u = (unsigned char)c; return ((u >= 'A' && u <= 'Z') || (u >= 'a' && u <= 'z')) && std::toupper(u) != 'I' && std::toupper(u) != 'O'; };
  size_t p = 0; while (p < s.size() && isd(s[p])) ++p;
  if (p > 2) return false;
  size_t q = p; while (q < s.size() && isa(s[q])) ++q;
  if (!(q - p == 1 || q - p == 3)) return false;
  size_t r = q; while (r < s.size() && isd(s[r])) ++r;
  if (r != s.size()) return false;
  if (q - p == 1 && r != q) return false;
  if ((r - q) % 2) return false;
  gz = s.substr(0, p + 1); blk = s.substr(p + 1, q - p - 1); e = s.substr(q, (r - q) / 2); n = s.substr(q + (r - q) / 2); return true;
}

} // namespace mg

// ---- MGRS::Decode ---------------------------------------------------------------------------------------------------------------------------
static Reg r_decode("mgrs_decode", [](const Args& a) {
  std::string s = unhs(a[0]); std::string gz = "~0~", blk = "~1~", ea = "~2~", no = "~3~";
  std::string e = guarded([&] { MGRS::Decode(s, gz, blk, ea, no); });
  std::string dg, db, de, dn; bool legal = mg::split_doc(s, dg, db, de, dn);
  if (!e.empty()) {
    emit(e); if (e != "!E") bad("foreign-exception", e);
    if (gz != "~0~" || blk != "~1~" || ea != "~2~" || no != "~3~") bad("output-modified-on-throw", "MGRS::Decode");
    if (legal) bad("documented-decode-grammar", "MGRS::Decode rejects " + hs(s) + ", well-formed by the documented grammar");
  } else {
    emit(hs(gz) + " " + hs(blk) + " " + hs(ea) + " " + hs(no));
    if (!legal) bad("documented-decode-grammar", "MGRS::Decode accepts " + hs(s) + ", malformed by the documented grammar");
    else if (gz != dg || blk != db || ea != de || no != dn) bad("documented-decode-grammar", "MGRS::Decode splits " + hs(s) + " into " + gz + "|" + blk + "|" + ea + "|" + no + ", documented " + dg + "|" + db + "|" + de + "|" + dn);
    if (gz.empty()) bad("documented-decode-grammar", "MGRS::Decode returns an empty grid zone");
  }
  // whatever MGRS::Reverse accepts, Decode splits, and into the pieces Reverse acts on
  int z = 0, p = 0; bool np = false; double x = 0, y = 0;
  if (guarded([&] { MGRS::Reverse(s, z, np, x, y, p, false); }).empty()) {
    if (!e.empty()) bad("decode-vs-reverse", "MGRS::Reverse accepts " + hs(s) + " which MGRS::Decode rejects");
    else if (p >= -1) {
      size_t nd = z > 0 ? gz.size() - 1 : 0;
      if ((z > 0) != (nd > 0) || (nd > 0 && std::atoi(gz.substr(0, nd).c_str()) != z)) bad("decode-vs-reverse", "grid zone " + gz + " of " + hs(s) + " does not carry zone " + std::to_string(z));
      if (p == -1 ? !(blk.empty() && ea.empty() && no.empty()) : !(blk.size() == 2 && int(ea.size()) == p && int(no.size()) == p)) bad("decode-vs-reverse", "pieces of " + hs(s) + " do not have the lengths of precision " + std::to_string(p));
      if (p >= 1 && p <= 5) { // the digit groups are the leading digits of easting / northing inside the block
        long long sc = 1; for (int i = p; i < 5; ++i) sc *= 10;
        if (((long long)x % 100000) / sc != std::atoll(ea.c_str()) || ((long long)y % 100000) / sc != std::atoll(no.c_str())) bad("decode-vs-reverse", "digit groups " + ea + ", " + no + " of " + hs(s) + " are not the digits of the position MGRS::Reverse returns");
      }
    }
  }
});

// ---- MGRS::Check: "Perform some checks on the UTMUPS coordinates on this ellipsoid.  Throw an error if any of the assumptions made in the MGRS class is not true"
static Reg r_selftest("mgrs_selftest", [](const Args&) {
  std::string e = guarded([] { MGRS::Check(); });
  emit(e.empty() ? "ok" : e);
  if (!e.empty()) bad("mgrs-self-test", "MGRS::Check() throws on this tree: an assumption of the MGRS class (coverage of the UTM / UPS ranges, band boundaries on the 100 km grid) does not hold");
  if (MGRS::EquatorialRadius() != doc::WGS84_A || !(std::fabs(MGRS::Flattening() - 1 / doc::WGS84_RF) <= ulp(1 / doc::WGS84_RF))) bad("documented-constant", "MGRS::EquatorialRadius() / Flattening() are not the WGS84 values");
});

// coverage, the assumption behind MGRS::Check stated for a point: every position has an MGRS coordinate in its standard zone (incl. the Norway and
// Svalbard zones and the UPS caps), i.e. the standard conversion stays inside the MGRS ranges and the string's band is that of the latitude
static Reg r_cover("mgrs_cover", [](const Args& a) {
  double lat = unhx(a[0]), lon = unhx(a[1]); int zone = -77; bool np = false; double x = NAN, y = NAN;
  std::string e = guarded([&] { UTMUPS::Forward(lat, lon, zone, np, x, y, UTMUPS::STANDARD, true); });
  std::string s; if (e.empty()) e = guarded([&] { MGRS::Forward(zone, np, x, y, lat, 5, s); });
  emit(e.empty() ? hs(s) : e);
  if (!e.empty()) { bad("mgrs-coverage", "no MGRS coordinate for latitude " + std::to_string(lat) + ", longitude " + std::to_string(lon) + " in its standard zone"); return; }
  std::string why = mg::check_string(zone, np, x, y, lat, 5, s);
  if (!why.empty()) bad("documented-lettering", "MGRS::Forward(" + std::to_string(zone) + ", " + b(np) + ", " + std::to_string(x) + ", " + std::to_string(y) + ", lat) = " + s + ": " + why);
});

// ---- GeoCoords::MGRSRepresentation / AltMGRSRepresentation --------------------------------------------------------------------------------------
// gc_mgrs <kind> <a1> <a2> <a3> <a4> <altzone> <prec>   (kind 0: lat lon zone; kind 1: zone northp easting northing)
// the protocol line carries the state of the object; results: the two strings
static Reg r_gcmgrs("gc_mgrs", [](const Args& a) {
  int kind = std::atoi(a[0].c_str()), altz = std::atoi(a[5].c_str()), prec = std::atoi(a[6].c_str());
  GeoCoords c;
  std::string e0 = kind == 0 ? guarded([&] { c = GeoCoords(unhx(a[1]), unhx(a[2]), std::atoi(a[3].c_str())); })
                             : guarded([&] { c = GeoCoords(std::atoi(a[1].c_str()), a[2] == "1", unhx(a[3]), unhx(a[4])); });
  if (e0.empty()) e0 = guarded([&] { c.SetAltZone(altz); });
  if (!e0.empty()) { current_op() += " E"; emit(e0 + " ctor"); if (e0 != "!E") bad("foreign-exception", e0); return; }
  int zone = c.Zone(), az = c.AltZone(); bool np = c.Northp(); double E = c.Easting(), N = c.Northing(), aE = c.AltEasting(), aN = c.AltNorthing(), lat = c.Latitude();
  current_op() += " " + std::to_string(zone) + " " + b(np) + " " + hx(E) + " " + hx(N) + " " + hx(lat) + " " + std::to_string(az) + " " + hx(aE) + " " + hx(aN);
  std::string s1 = "~", s2 = "~";
  std::string e1 = guarded([&] { s1 = c.MGRSRepresentation(prec); }), e2 = guarded([&] { s2 = c.AltMGRSRepresentation(prec); });
  emit((e1.empty() ? hs(s1) : e1) + " " + (e2.empty() ? hs(s2) : e2));
  // GeoCoords.hpp: prec = -6 grid zone only, -5 100 km, ..., 0 1 m, ..., 6 1 um (clamped): the MGRS precision is prec + 5
  int p = std::max(-1, std::min(6, prec) + 5);
  std::string cls = (lat == 0 && !np && az != zone) ? " [class:equator-south-label]" : "";
  for (int alt = 0; alt < 2; ++alt) {
    const std::string& s = alt ? s2 : s1; const std::string& e = alt ? e2 : e1; int z = alt ? az : zone; double x = alt ? aE : E, y = alt ? aN : N;
    std::string what = alt ? "AltMGRSRepresentation" : "MGRSRepresentation";
    if (z < 0 || std::isnan(x) || std::isnan(y) || std::isnan(lat)) { if (!e.empty() || s != "INVALID") bad("mgrs-representation", what + " of an invalid position is not INVALID"); continue; }
    // inside the documented MGRS ranges the position has an MGRS coordinate
    bool inside = doc::strictly_inside(doc::range(z > 0, np, true), x, y);
    if (!e.empty()) { if (e != "!E") bad("foreign-exception", e); if (inside) bad("mgrs-representation", what + " throws for a position inside the MGRS ranges" + cls); continue; }
    std::string why = mg::check_string(z, np, x, y, z > 0 && std::fabs(Math::AngDiff(doc::central_meridian(z), c.Longitude())) < 30 ? lat : NAN, p, s);
    if (!why.empty()) bad("mgrs-representation", what + "(" + std::to_string(prec) + ") = " + s + ": " + why + cls);
  }
});

// ---- GeoConvert -m : values -------------------------------------------------------------------------------------------------------------------
// gconv_m s:<options> s:<records>   (records as for C04's gconv: "G lat lon ; text" | "U zone northp x y ; text" | "M mgrs ; text")
static Reg r_gconvm("gconv_m", [](const Args& a) {
  auto opts = gct::words(unhs(a[0])); gct::Opts o = gct::parse(opts);
  auto recs = gct::lines(unhs(a[1]));
  std::string input; std::vector<gct::Pt> pts;
  for (auto& r : recs) {
    size_t sc = r.find(" ; "); std::string head = r.substr(0, sc), text = sc == std::string::npos ? "" : r.substr(sc + 3);
    auto w = gct::words(head); gct::Pt p;
    if (w.size() == 3 && w[0] == "G") p = gct::from_latlon(unhx(w[1]), unhx(w[2]));
    else if (w.size() == 5 && w[0] == "U") p = gct::from_utm(std::atoi(w[1].c_str()), w[2] == "1", unhx(w[3]), unhx(w[4]));
    else if (w.size() == 2 && w[0] == "M") p = gct::from_mgrs(w[1], o.centerp);
    pts.push_back(p); input += text + "\n";
  }
  std::string output, exc; int rc = gct::run(opts, input, output, exc);
  auto out = gct::lines(output), inl = gct::lines(input);
  emit(std::to_string(rc) + " " + hs(output));
  if (rc == -98) { bad("tool-exception-escapes", "GeoConvert: exception " + exc + " escaped main"); return; }
  if (!o.ok || o.mode != 'm') return;
  if (out.size() != pts.size()) { bad("tool-line-count", "GeoConvert: " + std::to_string(pts.size()) + " input lines, " + std::to_string(out.size()) + " output lines"); return; }
  int zone = o.zone; bool latch = o.latch; int p = std::max(-1, std::min(6, o.prec) + 5);
  for (size_t i = 0; i < pts.size(); ++i) {
    const gct::Pt& m = pts[i]; const std::string& l = out[i]; bool iserr = l.compare(0, 5, "ERROR") == 0;
    std::string ctx = " (line " + std::to_string(i + 1) + " '" + inl[i] + "' -> '" + l + "', options " + unhs(a[0]) + ")";
    if (!m.ok) { if (!iserr) bad("tool-values", "GeoConvert prints a result for a line the conversion classes reject" + ctx); continue; }
    gct::Pt al = gct::in_zone(m, zone);
    std::string cls = (m.lat == 0 && !m.northp && al.ok && al.zone != m.zone) ? " [class:equator-south-label]" : "";
    if (al.ok && (std::isnan(al.x) || std::isnan(al.y)) && std::isfinite(m.lat) && std::isfinite(m.lon)) {
      // the conversion classes return NaN coordinates for a finite position: never a result to print
      if (!iserr) bad("tool-values", "GeoConvert prints a NaN / INVALID result for a finite position" + ctx +
                      (std::fabs(m.lat) < 1e-50 && al.zone > 0 && Math::AngDiff(doc::central_meridian(al.zone), m.lon) == -90 ? " [class:singular-point-west]" : ""));
      continue;
    }
    if (!al.ok) { if (!iserr) bad("tool-values", "GeoConvert prints a result where the requested zone is out of reach" + ctx); }
    else {
      bool inside = doc::strictly_inside(doc::range(al.zone > 0, m.northp, true), al.x, al.y);
      if (iserr) { if (inside) bad("tool-values", "GeoConvert -m reports an error for a position inside the MGRS ranges" + ctx + cls); }
      else {
        // -p: "precision relative to 1 m": 5 + prec digits per coordinate, truncated, not rounded; the zone is the requested one
        std::string why = mg::check_string(al.zone, m.northp, al.x, al.y, al.zone > 0 && std::fabs(Math::AngDiff(doc::central_meridian(al.zone), m.lon)) < 30 ? m.lat : NAN, p, l);
        if (!why.empty()) bad("tool-values", "GeoConvert -m: " + why + ctx + cls);
      }
    }
    if (al.ok && !iserr && latch && zone < 0 && al.zone >= 0) { zone = al.zone; latch = false; }
  }
});

// ---- generators for gconv_m ---------------------------------------------------------------------------------------------------------------------
static std::string glue_fixed(double v, int nd) { char buf[64]; std::snprintf(buf, sizeof buf, "%.*f", nd, v); return buf; }
// one input record: a point on a 2^-10 degree grid (exact in 10 decimals), on a 1/64 m grid (exact in 6 decimals), or an MGRS string
static std::string glue_record(Rng& r) {
  int k = r.irange(0, 9);
  if (k <= 3) {
    static const std::vector<double> lats = {0, 0.0009765625, -0.0009765625, 8, -8, 56, 64, 72, 84, -80, 83.9990234375, -80.0009765625, 90, -90, 63.9990234375, 71.9990234375, 7.9990234375};
    static const std::vector<double> lons = {0, 3, 6, 9, 21, 33, 42, 180, -180, 5.9990234375, 2.9990234375, 179.9990234375, 41.9990234375};
    double lat = r.coin() ? r.pick(lats) : std::floor(r.range(-90, 90) * 1024) / 1024, lon = r.irange(0, 2) == 0 ? r.pick(lons) : std::floor(r.range(-180, 180) * 1024) / 1024;
    return "G " + hx(lat) + " " + hx(lon) + " ; " + glue_fixed(lat, 10) + " " + glue_fixed(lon, 10);
  }
  int zone = r.irange(0, 6) == 0 ? 0 : r.irange(1, 60); bool np = r.coin(); bool utmp = zone > 0;
  double xlo = utmp ? 2e5 : (np ? 13e5 : 8e5), xhi = utmp ? 8e5 : (np ? 27e5 : 32e5), ylo = utmp ? (np ? 0 : 11e5) : xlo, yhi = utmp ? (np ? 93e5 : 1e7) : xhi;
  if (k <= 7) {
    double x = std::floor(r.range(xlo, xhi) * 64) / 64, y = std::floor(r.range(ylo, yhi) * 64) / 64;
    int e = r.irange(0, 11);
    if (utmp && e == 0) y = np ? 0 : 1e7;                           // the equator under both labels
    if (e == 1) { int pp = r.irange(0, 5); double sc = std::pow(10.0, 5 - pp); x = std::floor(x / sc) * sc + (r.coin() ? 0 : sc - 0.015625); y = std::floor(y / sc) * sc + (r.coin() ? 0 : sc - 0.015625); }  // next to a square edge: truncation, not rounding
    return "U " + std::to_string(zone) + " " + b(np) + " " + hx(x) + " " + hx(y) + " ; " + doc::zonestr_of(zone, np, r.coin()) + " " + glue_fixed(x, 6) + " " + glue_fixed(y, 6);
  }
  for (int t = 0; t < 20; ++t) {
    std::string s; if (guarded([&] { MGRS::Forward(zone, np, r.range(xlo, xhi), r.range(ylo, yhi), r.irange(-1, 11), s); }).empty()) return "M " + s + " ; " + s;
  }
  return "M 38SMB ; 38SMB";
}
static std::string glue_zone_request(Rng& r, const std::string& rec) {
  auto w = gct::words(rec.substr(0, rec.find(" ; "))); gct::Pt p;
  if (w[0] == "G") p = gct::from_latlon(unhx(w[1]), unhx(w[2])); else if (w[0] == "U") p = gct::from_utm(std::atoi(w[1].c_str()), w[2] == "1", unhx(w[3]), unhx(w[4])); else p = gct::from_mgrs(w[1], true);
  int z = p.ok && p.zone > 0 ? std::max(1, std::min(60, p.zone + r.irange(-1, 1))) : r.irange(0, 60);
  int k = r.irange(0, 2);
  return k == 0 ? std::to_string(z) : doc::zonestr_of(z, k == 1, r.coin());
}
