// C06, exact form: the private pieces of TransverseMercatorExact against Model/TMExact.lean.
//   tmxc   constructor state (tolerances, e^2, iteration cap) + Legendre relation of the complete integrals
//   tmxf   closed forms zeta, dwdzeta, sigma, dwdsigma, Scale at a given (u, v)
//   tmxz0  zetainv0 (starting guess, three cases)        tmxs0  sigmainv0
//   tmxzi  zetainv (Newton loop)                          tmxsi  sigmainv
//   tmxkf  Forward between fold and unfold (unit scale)   tmxkr  Reverse between fold and unfold
// The elliptic functions are kernels of the model: every value EllipticFunction returns along the computation is recorded
// here (by running the same loop with the implementation's own private zeta/dwdzeta/sigma/dwdsigma/am) and handed to the
// driver, which re-runs the Lean model on them in running-error arithmetic and compares with what the library's own
// zetainv / sigmainv / Forward / Reverse returned.
#pragma once
#include "common.hpp"
#include <GeographicLib/TransverseMercatorExact.hpp>
#include <GeographicLib/Math.hpp>
#include <array>
namespace tmx {
using namespace GeographicLib; using namespace gv;
typedef TransverseMercatorExact TX;

struct J6 { double snu, cnu, dnu, snv, cnv, dnv; };
inline J6 jac(const TX& t, double u, double v) { J6 j; t._eEu.am(u, j.snu, j.cnu, j.dnu); t._eEv.am(v, j.snv, j.cnv, j.dnv); return j; }
inline std::string hj(const J6& j) { return hx(j.snu) + " " + hx(j.cnu) + " " + hx(j.dnu) + " " + hx(j.snv) + " " + hx(j.cnv) + " " + hx(j.dnv); }
inline std::string hK(const TX& t) { return hx(t._eEu.K()) + " " + hx(t._eEu.E()) + " " + hx(t._eEv.K()) + " " + hx(t._eEv.KE()); }

struct Entry { double u, v; J6 j; double eu, ev; };
inline std::string he(const Entry& e) { return hx(e.u) + " " + hx(e.v) + " " + hj(e.j) + " " + hx(e.eu) + " " + hx(e.ev); }
inline std::string htrace(const std::vector<Entry>& tr) { std::string s = hx(double(tr.size())); for (auto& e : tr) s += " " + he(e); return s; }

// the loop of zetainv with the implementation's own pieces, recording what EllipticFunction returned at each iterate
inline std::vector<Entry> trace_zetainv(const TX& t, double taup, double lam) {
  std::vector<Entry> tr; double psi = std::asinh(taup), scal = 1 / std::hypot(1.0, taup), u, v;
  if (t.zetainv0(psi, lam, u, v)) return tr;
  double stol2 = t.tol2_ / Math::sq(std::fmax(psi, 1.0));
  for (int i = 0, trip = 0; i < TX::numit_; ++i) {
    Entry e; e.u = u; e.v = v; e.j = jac(t, u, v); e.eu = e.ev = NAN; tr.push_back(e);
    double tau1, lam1, du1, dv1;
    t.zeta(u, e.j.snu, e.j.cnu, e.j.dnu, v, e.j.snv, e.j.cnv, e.j.dnv, tau1, lam1);
    t.dwdzeta(u, e.j.snu, e.j.cnu, e.j.dnu, v, e.j.snv, e.j.cnv, e.j.dnv, du1, dv1);
    tau1 -= taup; lam1 -= lam; tau1 *= scal;
    double delu = tau1 * du1 - lam1 * dv1, delv = tau1 * dv1 + lam1 * du1;
    u -= delu; v -= delv;
    if (trip) break;
    double delw2 = Math::sq(delu) + Math::sq(delv);
    if (!(delw2 >= stol2)) ++trip;
  }
  return tr;
}
inline std::vector<Entry> trace_sigmainv(const TX& t, double xi, double eta) {
  std::vector<Entry> tr; double u, v;
  if (t.sigmainv0(xi, eta, u, v)) return tr;
  for (int i = 0, trip = 0; i < TX::numit_; ++i) {
    Entry e; e.u = u; e.v = v; e.j = jac(t, u, v);
    e.eu = t._eEu.E(e.j.snu, e.j.cnu, e.j.dnu); e.ev = t._eEv.E(e.j.snv, e.j.cnv, e.j.dnv); tr.push_back(e);
    double xi1, eta1, du1, dv1;
    t.sigma(u, e.j.snu, e.j.cnu, e.j.dnu, v, e.j.snv, e.j.cnv, e.j.dnv, xi1, eta1);
    t.dwdsigma(u, e.j.snu, e.j.cnu, e.j.dnu, v, e.j.snv, e.j.cnv, e.j.dnv, du1, dv1);
    xi1 -= xi; eta1 -= eta;
    double delu = xi1 * du1 - eta1 * dv1, delv = xi1 * dv1 + eta1 * du1;
    u -= delu; v -= delv;
    if (trip) break;
    double delw2 = Math::sq(delu) + Math::sq(delv);
    if (!(delw2 >= t.tol2_)) ++trip;
  }
  return tr;
}
inline Entry final_entry(const TX& t, double u, double v) {
  Entry e; e.u = u; e.v = v; e.j = jac(t, u, v);
  e.eu = t._eEu.E(e.j.snu, e.j.cnu, e.j.dnu); e.ev = t._eEv.E(e.j.snv, e.j.cnv, e.j.dnv); return e;
}

// tmxc f ext
static Reg r_xc("tmxc", [](const Args& A) {
  double f = unhx(A[0]); bool ext = A[1] == "1";
  std::string err = guarded([&] {
    TX t(1.0, f, 1.0, ext);
    emit(hx(t.tol_) + " " + hx(t.tol2_) + " " + hx(t.taytol_) + " " + hx(t._mu) + " " + hx(t._mv) + " " + hx(t._e) + " " + std::to_string(TX::numit_) + " " + (t._extendp ? "1" : "0") + " " + hK(t));
    // Legendre's relation between the complete integrals the class relies on: E(k)K(k') + E(k')K(k) - K(k)K(k') = pi/2, i.e. Eu*Kv - Ku*KEv = pi/2
    double Ku = t._eEu.K(), Eu = t._eEu.E(), Kv = t._eEv.K(), KEv = t._eEv.KE();
    long double lhs = (long double)Eu * Kv - (long double)Ku * KEv, sc = std::fabs(Eu * Kv) + std::fabs(Ku * KEv);
    if (!(std::fabs((double)(lhs - 3.14159265358979323846264338327950288L / 2)) <= 16 * 2.220446049250313e-16 * (double)sc))
      bad("legendre-relation", "the complete integrals K(e^2), E(e^2), K(1-e^2), K(1-e^2)-E(1-e^2) of the object violate Legendre's relation: Eu Kv - Ku KEv - pi/2 = " + std::to_string((double)(lhs - 3.14159265358979323846264338327950288L / 2)));
    // the two EllipticFunction objects carry each other's parameter exactly: k^2 = e^2, k'^2 = 1 - e^2 for u and the reverse for v (F90: k'^2 of the second
    // object used to be recomputed as 1 - _mv, a relative perturbation eps/e^2 where K(1 - e^2) has its logarithmic singularity)
    if (!(t._eEu.k2() == t._mu && t._eEu.kp2() == t._mv && t._eEv.k2() == t._mv && t._eEv.kp2() == t._mu))
      bad("complementary-modulus", "EllipticFunction parameters of the object are not (e^2, 1 - e^2) and (1 - e^2, e^2): _eEu (" + std::to_string(t._eEu.k2()) + ", " + std::to_string(t._eEu.kp2()) + "), _eEv.kp2 - e^2 = " + std::to_string(t._eEv.kp2() - t._mu));
    if (!(t.EquatorialRadius() == 1.0 && t.Flattening() == f && t.CentralScale() == 1.0)) bad("exact-inspectors", "EquatorialRadius/Flattening/CentralScale do not return the constructor arguments");
  });
  if (!err.empty()) emit(err);
});

// tmxf f u v tau
static Reg r_xf("tmxf", [](const Args& A) {
  double f = unhx(A[0]), u = unhx(A[1]), v = unhx(A[2]), tau = unhx(A[3]);
  TX t(1.0, f, 1.0); Entry e = final_entry(t, u, v); const J6& j = e.j;
  double taup, lam, du, dv, xi, eta, du2, dv2, gam, k;
  t.zeta(u, j.snu, j.cnu, j.dnu, v, j.snv, j.cnv, j.dnv, taup, lam);
  t.dwdzeta(u, j.snu, j.cnu, j.dnu, v, j.snv, j.cnv, j.dnv, du, dv);
  t.sigma(u, j.snu, j.cnu, j.dnu, v, j.snv, j.cnv, j.dnv, xi, eta);
  t.dwdsigma(u, j.snu, j.cnu, j.dnu, v, j.snv, j.cnv, j.dnv, du2, dv2);
  t.Scale(tau, lam, j.snu, j.cnu, j.dnu, j.snv, j.cnv, j.dnv, gam, k);
  current_op() = "tmxf " + A[0] + " " + A[1] + " " + A[2] + " " + A[3] + " " + hj(j) + " " + hx(e.eu) + " " + hx(e.ev);
  emit(hx(taup) + " " + hx(lam) + " " + hx(du) + " " + hx(dv) + " " + hx(xi) + " " + hx(eta) + " " + hx(du2) + " " + hx(dv2) + " " + hx(gam) + " " + hx(k));
  // the Jacobi values obey sn^2 + cn^2 = 1, dn^2 + k^2 sn^2 = 1 (the hypotheses of the Lee closed-form theorems)
  double eps = 2.220446049250313e-16;
  if (!(std::fabs(j.snu * j.snu + j.cnu * j.cnu - 1) <= 16 * eps && std::fabs(j.dnu * j.dnu + t._mu * j.snu * j.snu - 1) <= 16 * eps &&
        std::fabs(j.snv * j.snv + j.cnv * j.cnv - 1) <= 16 * eps && std::fabs(j.dnv * j.dnv + t._mv * j.snv * j.snv - 1) <= 16 * eps))
    bad("jacobi-relations", "EllipticFunction::am returned sn, cn, dn violating sn^2 + cn^2 = 1 or dn^2 + k^2 sn^2 = 1");
});

// tmxz0 f psi lam
static Reg r_xz0("tmxz0", [](const Args& A) {
  double f = unhx(A[0]), psi = unhx(A[1]), lam = unhx(A[2]); TX t(1.0, f, 1.0); double u, v;
  bool done = t.zetainv0(psi, lam, u, v);
  current_op() = "tmxz0 " + A[0] + " " + A[1] + " " + A[2] + " " + hK(t);
  emit(std::string(done ? "1" : "0") + " " + hx(u) + " " + hx(v));
});
// tmxs0 f xi eta
static Reg r_xs0("tmxs0", [](const Args& A) {
  double f = unhx(A[0]), xi = unhx(A[1]), eta = unhx(A[2]); TX t(1.0, f, 1.0); double u, v;
  bool done = t.sigmainv0(xi, eta, u, v);
  current_op() = "tmxs0 " + A[0] + " " + A[1] + " " + A[2] + " " + hK(t);
  emit(std::string(done ? "1" : "0") + " " + hx(u) + " " + hx(v));
});
// tmxzi f taup lam
static Reg r_xzi("tmxzi", [](const Args& A) {
  double f = unhx(A[0]), taup = unhx(A[1]), lam = unhx(A[2]); TX t(1.0, f, 1.0); double u, v;
  t.zetainv(taup, lam, u, v);
  std::vector<Entry> tr = trace_zetainv(t, taup, lam);
  current_op() = "tmxzi " + A[0] + " " + A[1] + " " + A[2] + " " + hK(t) + " " + htrace(tr);
  emit(hx(u) + " " + hx(v));
  // the point returned is a root: its image under zeta is (taup, lam) to rounding, measured in the metric of the Newton step
  // (extended domain, towards the south pole w0 = K + iK': sigma has a pole there and the image recedes beyond the range of binary64 --
  //  |w - w0| ~ exp(-|psi|/e) -- nothing is claimed, cf. DESIGN P16 and the rule `extendp-huge-coordinates-not-compared`)
  if (taup < 0 && std::hypot(u - t._eEu.K(), v - t._eEv.K()) < 1e-6) { stat("zetainv-image-beyond-range"); return; }
  Entry e = final_entry(t, u, v); double t1, l1, du, dv;
  t.zeta(u, e.j.snu, e.j.cnu, e.j.dnu, v, e.j.snv, e.j.cnv, e.j.dnv, t1, l1); t.dwdzeta(u, e.j.snu, e.j.cnu, e.j.dnu, v, e.j.snv, e.j.cnv, e.j.dnv, du, dv);
  double r1 = (t1 - taup) / std::hypot(1.0, taup), r2 = l1 - lam, st = std::hypot(r1 * du - r2 * dv, r1 * dv + r2 * du);
  // (near the branch point dw/dzeta is unbounded: there a residual of zeta itself at rounding level is what a root means)
  if (std::isfinite(u) && std::isfinite(v) && !(st <= 1e-9 * (1 + std::fabs(u) + std::fabs(v)) || std::hypot(r1, r2) <= 64 * 2.220446049250313e-16 * (1 + std::fabs(lam))) ) bad("zetainv-residual", "zetainv returns a point whose Newton correction is still " + std::to_string(st * 1e9) + "e-9");
});
// tmxsi f xi eta img     (img = 1: (xi, eta) is the image of a point of the documented domain, so sigmainv must return a root)
static Reg r_xsi("tmxsi", [](const Args& A) {
  double f = unhx(A[0]), xi = unhx(A[1]), eta = unhx(A[2]); bool img = A.size() > 3 && A[3] == "1"; TX t(1.0, f, 1.0); double u, v;
  t.sigmainv(xi, eta, u, v);
  std::vector<Entry> tr = trace_sigmainv(t, xi, eta);
  current_op() = "tmxsi " + A[0] + " " + A[1] + " " + A[2] + " " + (img ? "1" : "0") + " " + hK(t) + " " + htrace(tr);
  emit(hx(u) + " " + hx(v));
  if (!img) return;
  // the point returned is a root: the Newton correction there is at rounding level, or (next to the branch point, where dw/dsigma is unbounded and the
  // correction is dominated by the rounding of sigma itself) it corresponds to a displacement of at most 32 eps radians on the ellipsoid, |dw| / |dw/dzeta|
  Entry e = final_entry(t, u, v); double x1, e1, du, dv, duz, dvz;
  t.sigma(u, e.j.snu, e.j.cnu, e.j.dnu, v, e.j.snv, e.j.cnv, e.j.dnv, x1, e1); t.dwdsigma(u, e.j.snu, e.j.cnu, e.j.dnu, v, e.j.snv, e.j.cnv, e.j.dnv, du, dv);
  t.dwdzeta(u, e.j.snu, e.j.cnu, e.j.dnu, v, e.j.snv, e.j.cnv, e.j.dnv, duz, dvz);
  double r1 = x1 - xi, r2 = e1 - eta, st = std::hypot(r1 * du - r2 * dv, r1 * dv + r2 * du), ground = st / std::hypot(duz, dvz);
  if (std::isfinite(u) && std::isfinite(v) && !(st <= 1e-9 * (1 + std::fabs(u) + std::fabs(v)) || ground <= 32 * 2.220446049250313e-16))
  { // finding F91 (see C06.cpp): eccentric ellipsoid and the iteration took all numit_ steps or left the period rectangle
    bool wander = false; for (auto& en : tr) if (!(std::fabs(en.u) <= 2 * t._eEu.K() && en.v >= -t._eEv.K() && en.v <= 2 * t._eEv.K())) wander = true;
    std::string cls = (f * (2 - f) >= 0.15 && (wander || int(tr.size()) >= TX::numit_)) ? " [class:sigmainv-not-settled e^2 = " + std::to_string(f * (2 - f)) + " steps = " + std::to_string(tr.size()) + "]" : "";
    bad("sigmainv-residual", "sigmainv returns a point whose Newton correction is still " + std::to_string(st * 1e9) + "e-9 (" + std::to_string(ground * 1e9) + "e-9 rad on the ellipsoid)" + cls); }
});

// tmxkf f ext lat lon      (lat, lon: already folded when ext = 0; any point of the documented extended domain when ext = 1)
static Reg r_xkf("tmxkf", [](const Args& A) {
  double f = unhx(A[0]); bool ext = A[1] == "1"; double lat = unhx(A[2]), lon = unhx(A[3]);
  TX t(1.0, f, 1.0, ext); double x, y, g, k; t.Forward(0.0, lat, lon, x, y, g, k);
  double tau = Math::tand(lat), lam = lon * Math::degree(), u, v; std::vector<Entry> tr;
  if (lat == Math::qd) { u = t._eEu.K(); v = 0; }
  else if (lat == 0 && lon == Math::qd * (1 - t._e)) { u = 0; v = t._eEv.K(); }
  else { double taup = Math::taupf(tau, t._e); tr = trace_zetainv(t, taup, lam); t.zetainv(taup, lam, u, v); }
  Entry fe = final_entry(t, u, v);
  current_op() = "tmxkf " + A[0] + " " + A[1] + " " + A[2] + " " + A[3] + " " + hx(tau) + " " + hK(t) + " " + htrace(tr) + " " + he(fe);
  emit(hx(y) + " " + hx(x) + " " + hx(g) + " " + hx(k));
});
// tmxkr f ext xi eta
static Reg r_xkr("tmxkr", [](const Args& A) {
  double f = unhx(A[0]); bool ext = A[1] == "1"; double xi = unhx(A[2]), eta = unhx(A[3]);
  TX t(1.0, f, 1.0, ext); double lat, lon, g, k; t.Reverse(0.0, eta, xi, lat, lon, g, k);
  double u, v; std::vector<Entry> tr;
  if (xi == 0 && eta == t._eEv.KE()) { u = 0; v = t._eEv.K(); }
  else { tr = trace_sigmainv(t, xi, eta); t.sigmainv(xi, eta, u, v); }
  Entry fe = final_entry(t, u, v);
  current_op() = "tmxkr " + A[0] + " " + A[1] + " " + A[2] + " " + A[3] + " " + hK(t) + " " + htrace(tr) + " " + he(fe);
  emit(hx(lat) + " " + hx(lon) + " " + hx(g) + " " + hx(k));
});

// tmtau es tau : Math::taupf and Math::tauf (conformal-latitude maps used by both classes; es < 0 encodes a prolate ellipsoid)
static Reg r_tau("tmtau", [](const Args& A) {
  double es = unhx(A[0]), tau = unhx(A[1]); double tp = Math::taupf(tau, es), tb = Math::tauf(tp, es);
  emit(hx(tp) + " " + hx(tb));
  // tauf inverts taupf (relative accuracy in tau, all the way to the poles)
  if (std::isfinite(tau) && !(std::fabs(tb - tau) <= 8 * 2.220446049250313e-16 * std::fabs(tau))) bad("tauf-of-taupf", "tauf(taupf(tau)) = " + std::to_string(tb) + " for tau = " + std::to_string(tau) + " es = " + std::to_string(es));
  if (std::isfinite(tau) && tau != 0 && !((tp > 0) == (tau > 0))) bad("taupf-sign", "taupf does not keep the sign of tau");
});

// strata for the exact-form ops
inline void generate(Rng& r, long i, double f) {
  TX t(1.0, f, 1.0); double e = t._e, Ku = t._eEu.K(), Eu = t._eEu.E(), Kv = t._eEv.K(), KEv = t._eEv.KE();
  const double pi = Math::pi(), bp = 90 * (1 - e);
  if (i % 50 == 0) { run("tmxc", {hx(f), "0"}); run("tmxc", {hx(f), "1"}); stratum("exact-ctor"); }
  // closed forms: (u, v) over the whole period rectangle incl. its corners (pole, branch point) and edges
  { double u = r.pick(std::vector<double>{r.range(0, Ku), r.range(0, Ku), r.range(-Ku, 2 * Ku), 0.0, Ku, Ku / 2, 1e-9, nextdn(Ku, r.irange(1, 4))});
    double v = r.pick(std::vector<double>{r.range(0, Kv), r.range(0, Kv), r.range(-Kv, 2 * Kv), 0.0, Kv, Kv / 2, 1e-9, nextdn(Kv, r.irange(1, 4))});
    double tau = r.pick(std::vector<double>{r.range(-5, 5), 0.0, 1e6, r.range(-1, 1) * 1e-6});
    run("tmxf", {hx(f), hx(u), hx(v), hx(tau)}); stratum("exact-closed-forms"); }
  // starting guesses: each of the three cases of zetainv0 / sigmainv0 and both sides of every threshold
  { double psi, lam; int k = r.irange(0, 6);
    switch (k) {
    case 0: psi = r.range(-3, -e * pi / 4); lam = r.range((1 - 2 * e) * pi / 2, pi / 2); break;                       // pole case (extendp)
    case 1: psi = r.range(-e * pi / 4, e * pi / 2); lam = r.range((1 - 2 * e) * pi / 2, pi / 2); break;               // branch case
    case 2: psi = r.range(0, 4); lam = r.range(0, pi / 2); break;                                                     // plain
    case 3: psi = (r.coin() ? -e * pi / 4 : e * pi / 2) * (1 + r.range(-1, 1) * 1e-3); lam = r.range((1 - 2 * e) * pi / 2, pi / 2); break;   // psi thresholds
    case 4: psi = r.range(-1, e * pi / 2); lam = (1 - 2 * e) * pi / 2 * (1 + r.range(-1, 1) * 1e-3); break;          // lam threshold
    case 5: { double d = r.range(0, 1) * std::pow(10.0, -r.irange(0, 14)), th = r.range(-pi, pi); psi = d * std::cos(th); lam = (1 - e) * pi / 2 + d * std::sin(th); break; }   // around the branch point
    default: psi = r.range(-2, 0); lam = psi + (1 - e) * pi / 2 + r.range(-1, 1) * 0.1; break; }                      // the diagonal psi = lam - (1 - e) pi/2
    run("tmxz0", {hx(f), hx(psi), hx(lam)}); stratum("exact-zetainv0-" + std::to_string(k)); }
  { double xi, eta; int k = r.irange(0, 6);
    switch (k) {
    case 0: xi = r.range(-2, 2) * Eu; eta = r.range(1.25, 3) * KEv; break;
    case 1: xi = r.range(-3, -0.25) * Eu; eta = r.range(-1, 1.25) * KEv; break;
    case 2: xi = r.range(-0.25, 0.25) * Eu; eta = r.range(0.75, 1.25) * KEv; break;
    case 3: xi = r.range(0, 1) * Eu; eta = r.range(0, 0.75) * KEv; break;
    case 4: xi = r.range(-1, 1) * Eu; eta = r.pick(std::vector<double>{0.75, 1.0, 1.25}) * KEv * (1 + r.range(-1, 1) * 1e-3); break;
    case 5: { double d = r.range(0, 1) * std::pow(10.0, -r.irange(0, 14)), th = r.range(-pi, pi); xi = d * std::cos(th); eta = KEv + d * std::sin(th); break; }
    default: xi = r.pick(std::vector<double>{-0.25, 0.25}) * Eu * (1 + r.range(-1, 1) * 1e-3); eta = r.range(0.5, 1.3) * KEv; break; }
    run("tmxs0", {hx(f), hx(xi), hx(eta)}); stratum("exact-sigmainv0-" + std::to_string(k)); }
  // Newton inversions: images of points of the first quadrant (and of the extended domain)
  { double lat = r.pick(std::vector<double>{r.range(0, 90), r.range(0, 90), r.range(0, 1) * std::pow(10.0, -r.irange(0, 10)), 89.9999, 0.0});
    double lon = r.pick(std::vector<double>{r.range(0, 90), r.range(0, 90), bp + r.range(-1, 1) * std::pow(10.0, -r.irange(0, 10)), 90.0, 0.0, r.range(bp, 90)});
    if (lon > 90) lon = 90; if (lon < 0) lon = 0;
    // extended domain (towards its south pole the image recedes to infinity and nothing is claimed, cf. DESIGN P16: stay within 85 degrees)
    bool south = r.irange(0, 3) == 0 && lon >= bp; double la = south ? -std::fmin(lat, 85.0) : lat;
    double taup = Math::taupf(Math::tand(la), e), lam = lon * Math::degree();
    run("tmxzi", {hx(f), hx(taup), hx(lam)}); stratum(south ? "exact-zetainv-extended" : "exact-zetainv"); }
  { // images of points of the documented domain (the inversion must succeed there) ...
    double lat = r.pick(std::vector<double>{r.range(0, 90), r.range(0, 90), r.range(0, 1) * std::pow(10.0, -r.irange(0, 10)), 89.9999, 0.0});
    double lon = r.pick(std::vector<double>{r.range(0, 90), r.range(0, 90), bp + r.range(-1, 1) * std::pow(10.0, -r.irange(0, 10)), 0.0, r.range(bp, 90)});
    if (lon > 90) lon = 90; if (lon < 0) lon = 0;
    bool south = r.irange(0, 3) == 0 && lon >= bp; TX tx(1.0, f, 1.0, south); double x, y, g, k;
    tx.Forward(0.0, south ? -std::fmin(lat, 85.0) : lat, lon, x, y, g, k);
    if (std::isfinite(x) && std::isfinite(y) && std::hypot(x, y) < 1e3) { run("tmxsi", {hx(f), hx(y), hx(x), "1"}); stratum(south ? "exact-sigmainv-extended" : "exact-sigmainv"); }
    // ... and arbitrary points of the plane (correspondence with the model only)
    double xi = r.pick(std::vector<double>{r.range(0, Eu), r.range(-Eu, Eu), 0.0, Eu, r.range(0, 1) * std::pow(10.0, -r.irange(0, 10))});
    double eta = r.pick(std::vector<double>{r.range(0, 1.2 * KEv), r.range(0, KEv), r.range(0, 4 * KEv), 0.0, KEv + r.range(-1, 1) * std::pow(10.0, -r.irange(0, 10)), r.range(0, 1) * std::pow(10.0, -r.irange(0, 10))});
    run("tmxsi", {hx(f), hx(xi), hx(eta), "0"}); stratum("exact-sigmainv-plane"); }
  // Forward / Reverse between fold and unfold
  { bool ext = r.irange(0, 2) == 0;
    double lat = r.pick(std::vector<double>{r.range(0, 90), r.range(0, 90), 0.0, 90.0, 1e-10, 89.999999, r.range(0, 1) * std::pow(10.0, -r.irange(0, 10))});
    double lon = r.pick(std::vector<double>{r.range(0, 90), r.range(0, 90), 0.0, 90.0, bp, nextup(bp, r.irange(1, 3)), nextdn(bp, r.irange(1, 3)), r.range(bp, 90), 1e-10});
    if (ext && lon >= bp && lat < 90 && r.coin()) lat = -lat;
    run("tmxkf", {hx(f), ext ? "1" : "0", hx(lat), hx(lon)}); stratum(ext ? "exact-kernel-fwd-extendp" : "exact-kernel-fwd");
    double xi = r.pick(std::vector<double>{r.range(0, Eu), r.range(0, Eu), 0.0, Eu, 1e-10});
    double eta = r.pick(std::vector<double>{r.range(0, KEv), r.range(0, 2 * KEv), 0.0, KEv, nextup(KEv, r.irange(1, 3)), nextdn(KEv, r.irange(1, 3)), 1e-10});
    if (ext && eta >= KEv && r.coin()) xi = -xi;
    run("tmxkr", {hx(f), ext ? "1" : "0", hx(xi), hx(eta)}); stratum(ext ? "exact-kernel-rev-extendp" : "exact-kernel-rev"); }
}
}  // namespace tmx
