// C16: reference arithmetic for the three instantiations float / double / long double.
// Every instantiation T is judged against the next wider type W (double / x87 long double / __float128):
// argument reductions are exact IEEE operations in W (remainder), kernels are W's libm.
#pragma once
#include "common.hpp"
#include <quadmath.h>
#include <initializer_list>

namespace c16 {
typedef __float128 f128;

template<class T> struct P;
template<> struct P<float>       { typedef double W;      static const char* tag() { return "f"; } enum { p = 24 }; };
template<> struct P<double>      { typedef long double W; static const char* tag() { return "d"; } enum { p = 53 }; };
template<> struct P<long double> { typedef f128 W;        static const char* tag() { return "l"; } enum { p = 64 }; };

// ---- the wide type's libm
inline double w_sin(double x) { return std::sin(x); }            inline long double w_sin(long double x) { return sinl(x); }       inline f128 w_sin(f128 x) { return sinq(x); }
inline double w_cos(double x) { return std::cos(x); }            inline long double w_cos(long double x) { return cosl(x); }       inline f128 w_cos(f128 x) { return cosq(x); }
inline double w_atan(double x) { return std::atan(x); }          inline long double w_atan(long double x) { return atanl(x); }     inline f128 w_atan(f128 x) { return atanq(x); }
inline double w_atan2(double y, double x) { return std::atan2(y, x); } inline long double w_atan2(long double y, long double x) { return atan2l(y, x); } inline f128 w_atan2(f128 y, f128 x) { return atan2q(y, x); }
inline double w_atanh(double x) { return std::atanh(x); }        inline long double w_atanh(long double x) { return atanhl(x); }   inline f128 w_atanh(f128 x) { return atanhq(x); }
inline double w_sinh(double x) { return std::sinh(x); }          inline long double w_sinh(long double x) { return sinhl(x); }     inline f128 w_sinh(f128 x) { return sinhq(x); }
inline double w_hypot(double x, double y) { return std::hypot(x, y); } inline long double w_hypot(long double x, long double y) { return hypotl(x, y); } inline f128 w_hypot(f128 x, f128 y) { return hypotq(x, y); }
inline double w_sqrt(double x) { return std::sqrt(x); }          inline long double w_sqrt(long double x) { return sqrtl(x); }     inline f128 w_sqrt(f128 x) { return sqrtq(x); }
inline double w_fabs(double x) { return std::fabs(x); }          inline long double w_fabs(long double x) { return fabsl(x); }     inline f128 w_fabs(f128 x) { return fabsq(x); }
inline double w_rint(double x) { return std::rint(x); }          inline long double w_rint(long double x) { return rintl(x); }     inline f128 w_rint(f128 x) { return rintq(x); }
inline double w_ldexp(double x, int e) { return std::ldexp(x, e); } inline long double w_ldexp(long double x, int e) { return ldexpl(x, e); } inline f128 w_ldexp(f128 x, int e) { return ldexpq(x, e); }
inline double w_remainder(double x, double y) { return std::remainder(x, y); } inline long double w_remainder(long double x, long double y) { return remainderl(x, y); } inline f128 w_remainder(f128 x, f128 y) { return remainderq(x, y); }
inline bool w_isnan(double x) { return std::isnan(x); }          inline bool w_isnan(long double x) { return std::isnan(x); }      inline bool w_isnan(f128 x) { return isnanq(x); }
template<class W> W w_pi();
template<> inline double w_pi<double>() { return 3.14159265358979323846264338327950288; }
template<> inline long double w_pi<long double>() { return 3.14159265358979323846264338327950288L; }
template<> inline f128 w_pi<f128>() { static const f128 pi = strtoflt128("3.14159265358979323846264338327950288419716939937510582", nullptr); return pi; }

// ---- tokens: float and double travel as the 16 hex digits of the (exactly converted) double; long double as
//      L<sign><hex 64-bit significand>p<binary exponent of the last bit> / L+inf / L-inf / Lnan
inline std::string tokL(long double x) {
  if (std::isnan(x)) return "Lnan";
  std::string s = std::signbit(x) ? "L-" : "L+";
  if (std::isinf(x)) return s + "inf";
  int e = 0; long double m = frexpl(fabsl(x), &e);              // |x| = m 2^e, m in [1/2, 1) or 0
  unsigned long long mant = (unsigned long long) ldexpl(m, 64); // exact: the significand has 64 bits
  if (mant == 0) e = 64;
  char buf[64]; std::snprintf(buf, sizeof buf, "%llxp%d", mant, e - 64);
  return s + buf;
}
inline long double untokL(const std::string& s) {
  if (s == "Lnan" || s.size() < 3) return NAN;
  bool neg = s[1] == '-';
  if (s.compare(2, 3, "inf") == 0) return neg ? -INFINITY : INFINITY;
  size_t k = s.find('p', 2);
  unsigned long long mant = std::strtoull(s.substr(2, k - 2).c_str(), nullptr, 16);
  int e = std::atoi(s.c_str() + k + 1);
  long double v = ldexpl((long double) mant, e);
  return neg ? -v : v;
}
template<class T> inline std::string tok(T x) { return gv::hx((double) x); }
template<> inline std::string tok<long double>(long double x) { return tokL(x); }
template<class T> inline T untok(const std::string& s) { return s.size() && s[0] == 'L' ? (T) untokL(s) : (T) gv::unhx(s); }

template<class T> inline bool samebits(T a, T b) {
  if (std::isnan(a) || std::isnan(b)) return std::isnan(a) && std::isnan(b);
  return a == b && std::signbit(a) == std::signbit(b);
}
template<class T> inline T ulpT(T x) {
  x = std::fabs(x); if (!(x < std::numeric_limits<T>::infinity())) return std::numeric_limits<T>::quiet_NaN();
  return std::nextafter(x, std::numeric_limits<T>::infinity()) - x;
}
// |got - ref| in units of the last place of T at ref
template<class T> inline double errUlps(T got, typename P<T>::W ref) {
  typedef typename P<T>::W W;
  if (w_isnan(ref)) return std::isnan(got) ? 0 : INFINITY;
  if (std::isnan(got)) return INFINITY;
  if (ref == 0) return got == 0 ? 0 : INFINITY;
  T rT = (T) ref; T u = ulpT(rT);
  if (!(u > 0)) return (W) got == ref || rT == got ? 0 : INFINITY;      // overflowed reference
  return (double) (w_fabs((W) got - ref) / (W) u);
}
// y = x + c and whether the addition was exact (Knuth's TwoSum in T itself; no overflow for the arguments used here)
template<class T> inline bool exactAdd(T x, T c, T& y) {
  volatile T s = x + c; volatile T bb = s - x; volatile T e1 = s - bb; volatile T e2 = x - e1; volatile T e3 = c - bb; volatile T err = e2 + e3;
  y = s; return std::isfinite(s) && err == 0;
}
template<class T> inline std::string fmt(T x) { char b[80]; std::snprintf(b, sizeof b, "%.21Lg", (long double) x); return b; }
inline std::string fmtd(double x) { char b[40]; std::snprintf(b, sizeof b, "%.4g", x); return b; }

// exact degree reduction in the wide type, kernel in the wide type, closed forms at the exact special angles.
// tc is a correction (degrees) added to the exactly reduced angle (for sincosde)
template<class T> inline void refSinCos(T x, typename P<T>::W tc, typename P<T>::W& s, typename P<T>::W& c, bool* special = nullptr) {
  typedef typename P<T>::W W;
  W xr = w_remainder((W) x, (W) 360);        // exact, |xr| <= 180
  W d = w_remainder(xr, (W) 90);             // exact, |d| <= 45
  int q = (int) w_rint((xr - d) / 90);       // -2..2
  W sr, cr; bool sp = false;
  W ad = w_fabs(d);
  if (tc == 0 && ad == 0) { sr = d; cr = 1; sp = true; }
  else if (tc == 0 && ad == 30) { sr = d < 0 ? -W(1) / 2 : W(1) / 2; cr = w_sqrt(W(3)) / 2; sp = true; }
  else if (tc == 0 && ad == 45) { cr = w_sqrt(W(1) / 2); sr = d < 0 ? -cr : cr; sp = true; }
  else { W a = (d + tc) * (w_pi<W>() / 180); sr = w_sin(a); cr = w_cos(a); }
  switch (unsigned(q) & 3U) {
  case 0U: s = sr; c = cr; break;
  case 1U: s = cr; c = -sr; break;
  case 2U: s = -sr; c = -cr; break;
  default: s = -cr; c = sr; break;
  }
  if (special) *special = sp;
}
} // namespace c16
