// tools/GeodSolve (direct mode: default, -a, -E, -u, -f, -L, -D) compiled from the *current* $GV_REPO/tools/GeodSolve.cpp into the
// harness and run in-process: every printed quantity must be the library's value for the call the option set documents,
// to the printed precision.  Shared by the C01 and C03 harnesses.
#pragma once
#include <iostream>
#include <string>
#include <sstream>
#include <fstream>
#include <iomanip>
#include <algorithm>
#include "geodcommon.hpp"
#include <GeographicLib/DMS.hpp>
#include <GeographicLib/Utility.hpp>
namespace tool_geodsolve1 {
#include "../tools/GeodSolve.cpp"
}
namespace gtool {
using namespace gd; using namespace gv;
inline std::string g17(double x) { char b[40]; std::snprintf(b, sizeof b, "%.17g", x); return b; }
// angles and lengths are written without an exponent (an 'e' is the hemisphere designator East for DMS::Decode); 30 decimals round-trip
// every double of magnitude >= 1e-13 (checked: the case is skipped otherwise)
inline std::string fx(double x) { char b[400]; std::snprintf(b, sizeof b, "%.30f", x); return b; }
inline bool fx_ok(double x) { return std::strtod(fx(x).c_str(), nullptr) == x; }
inline int run_main(const std::vector<std::string>& opts, const std::string& input, std::string& output) {
  std::vector<const char*> argv; argv.push_back("GeodSolve"); for (auto& s : opts) argv.push_back(s.c_str());
  std::istringstream in(input); std::ostringstream out, err;
  std::streambuf *oi = std::cin.rdbuf(in.rdbuf()), *oo = std::cout.rdbuf(out.rdbuf()), *oe = std::cerr.rdbuf(err.rdbuf());
  std::cin.clear(); int rc = -99;
  try { rc = tool_geodsolve1::main(int(argv.size()), argv.data()); } catch (...) { rc = -98; }
  std::cin.rdbuf(oi); std::cout.rdbuf(oo); std::cerr.rdbuf(oe); std::cin.clear(); std::cout.clear(); std::cerr.clear();
  output = out.str(); return rc;
}
// gsolve a f lat1 lon1 azi1 arc len variant ; variant bits: 1 = -E, 2 = -u, 4 = line given by -L, 8 = line given by -D (with len as its third point)
static Reg r_gsolve("gsolve", [](const Args& a) {
  double ea = unhx(a[0]), f = unhx(a[1]), lat1 = unhx(a[2]), lon1 = unhx(a[3]), azi1 = unhx(a[4]); bool arc = a[5] == "1"; double len = unhx(a[6]); int v = std::atoi(a[7].c_str());
  bool exact = v & 1, unroll = v & 2, lineL = v & 4, lineD = v & 8;
  std::vector<std::string> o = {"-p", "10", "-f", "-e", g17(ea), g17(f)};
  if (arc) o.push_back("-a"); if (exact) o.push_back("-E"); if (unroll) o.push_back("-u");
  std::string input;
  if (lineL) { o.insert(o.end(), {"-L", fx(lat1), fx(lon1), fx(azi1)}); input = fx(len) + "\n"; }
  else if (lineD) { o.insert(o.end(), {"-D", fx(lat1), fx(lon1), fx(azi1), fx(len)}); input = fx(len) + "\n"; }
  else input = fx(lat1) + " " + fx(lon1) + " " + fx(azi1) + " " + fx(len) + "\n";
  std::string out; int rc = run_main(o, input, out);
  std::istringstream is(out); std::vector<double> t; std::string tok; bool parsed = true;
  while (is >> tok) { char* e; double x = std::strtod(tok.c_str(), &e); if (*e) parsed = false; t.push_back(x); }
  Geodesic G(ea, f, exact); Res r; unsigned m = Geodesic::ALL | (unroll ? Geodesic::LONG_UNROLL : 0);
  r.a12 = G.GenDirect(lat1, lon1, azi1, arc, len, m, r.lat2, r.lon2, r.azi2, r.s12, r.m12, r.M12, r.M21, r.S12);
  emit(std::to_string(rc) + " " + std::to_string(t.size()));
  if (rc != 0 || !parsed || t.size() != 12) { bad("geodsolve-output", "GeodSolve " + join(o) + " on '" + input.substr(0, input.size() - 1) + "' gave (status " + std::to_string(rc) + ") '" + out.substr(0, 200) + "'"); return; }
  // lat1 lon1 azi1 lat2 lon2 azi2 s12 a12 m12 M12 M21 S12; half a unit of the last printed digit + an ulp of the value
  const double want[12] = {Math::LatFix(lat1), unroll ? lon1 : Math::AngNormalize(lon1), Math::AngNormalize(azi1), r.lat2, r.lon2, r.azi2, r.s12, r.a12, r.m12, r.M12, r.M21, r.S12};
  const int dec[12] = {15, 15, 15, 15, 15, 15, 10, 15, 10, 17, 17, 3};
  static const char* nm[12] = {"lat1", "lon1", "azi1", "lat2", "lon2", "azi2", "s12", "a12", "m12", "M12", "M21", "S12"};
  for (int i = 0; i < 12; ++i) { double tol = 0.51 * std::pow(10.0, -dec[i]) + 2 * ulp(want[i]);
    bool az180 = (i == 2 || i == 5) && std::fabs(std::fabs(want[i]) - 180) < 1e-14 && std::fabs(std::fabs(t[i]) - 180) < 1e-14;   // -180 is printed as 180
    if (!(std::fabs(t[i] - want[i]) <= tol) && !az180) bad("geodsolve-value", std::string("GeodSolve") + join(o) + " on '" + input.substr(0, input.size() - 1) + "': " + nm[i] + " printed as " + g17(t[i]) + ", the library call gives " + g17(want[i])); }
});
// gsolvei a f lat1 lon1 lat2 lon2 variant : GeodSolve -i -f (bit 1 of variant: -E), all twelve fields against GenInverse(ALL)
static Reg r_gsolvei("gsolvei", [](const Args& a) {
  double ea = unhx(a[0]), f = unhx(a[1]), lat1 = unhx(a[2]), lon1 = unhx(a[3]), lat2 = unhx(a[4]), lon2 = unhx(a[5]); int v = std::atoi(a[6].c_str()); bool exact = v & 1;
  std::vector<std::string> o = {"-i", "-p", "10", "-f", "-e", g17(ea), g17(f)}; if (exact) o.push_back("-E");
  std::string input = fx(lat1) + " " + fx(lon1) + " " + fx(lat2) + " " + fx(lon2) + "\n", out; int rc = run_main(o, input, out);
  std::istringstream is(out); std::vector<double> t; std::string tok; bool parsed = true;
  while (is >> tok) { char* e; double x = std::strtod(tok.c_str(), &e); if (*e) parsed = false; t.push_back(x); }
  Geodesic G(ea, f, exact); double s12, a1, a2, m12, M12, M21, S12, a12 = G.GenInverse(lat1, lon1, lat2, lon2, Geodesic::ALL, s12, a1, a2, m12, M12, M21, S12);
  emit(std::to_string(rc) + " " + std::to_string(t.size()));
  if (rc != 0 || !parsed || t.size() != 12) { bad("geodsolve-output", "GeodSolve " + join(o) + " on '" + input.substr(0, input.size() - 1) + "' gave (status " + std::to_string(rc) + ") '" + out.substr(0, 200) + "'"); return; }
  const double want[12] = {Math::LatFix(lat1), Math::AngNormalize(lon1), a1, Math::LatFix(lat2), Math::AngNormalize(lon2), a2, s12, a12, m12, M12, M21, S12};
  const int dec[12] = {15, 15, 15, 15, 15, 15, 10, 15, 10, 17, 17, 3};
  static const char* nm[12] = {"lat1", "lon1", "azi1", "lat2", "lon2", "azi2", "s12", "a12", "m12", "M12", "M21", "S12"};
  for (int i = 0; i < 12; ++i) { double tol = 0.51 * std::pow(10.0, -dec[i]) + 2 * ulp(want[i]);
    bool az180 = (i == 1 || i == 2 || i == 4 || i == 5) && std::fabs(std::fabs(want[i]) - 180) < 1e-14 && std::fabs(std::fabs(t[i]) - 180) < 1e-14;
    if (!(std::fabs(t[i] - want[i]) <= tol) && !az180) bad("geodsolve-value", std::string("GeodSolve") + join(o) + " on '" + input.substr(0, input.size() - 1) + "': " + nm[i] + " printed as " + g17(t[i]) + ", the library call gives " + g17(want[i])); }
});
inline void tool_inverse_case(Rng& r, double ea, double f, double lat1, double lon1, double lat2, double lon2) {
  if (!(std::fabs(lon1) < 539 && std::fabs(lon2) < 539 && fx_ok(lat1) && fx_ok(lon1) && fx_ok(lat2) && fx_ok(lon2))) return;
  int v = r.irange(0, 1); run("gsolvei", {hx(ea), hx(f), hx(lat1), hx(lon1), hx(lat2), hx(lon2), std::to_string(v)}); stratum(std::string("tool-GeodSolve-i") + (v ? "-E" : ""));
}
inline void tool_case(Rng& r, double ea, double f, double lat1, double lon1, double azi1, bool arc, double len) {
  if (!(std::fabs(lon1) < 539 && std::fabs(azi1) < 539 && std::fabs(lat1) <= 90 && fx_ok(lat1) && fx_ok(lon1) && fx_ok(azi1) && fx_ok(len))) return;
  int v = r.irange(0, 3) | (r.irange(0, 2) == 0 ? (r.coin() ? 4 : 8) : 0);
  run("gsolve", {hx(ea), hx(f), hx(lat1), hx(lon1), hx(azi1), arc ? "1" : "0", hx(len), std::to_string(v)});
  stratum(std::string("tool-GeodSolve") + (v & 1 ? "-E" : "") + (v & 2 ? "-u" : "") + (v & 4 ? "-L" : v & 8 ? "-D" : "") + (arc ? "-a" : ""));
}
} // namespace gtool
