// C17 (geodesic intersections): property-level oracles on GeographicLib::Intersect.
// Header-only, included by harness/C17.cpp after common.hpp.  All ops are named ix_*; the Lean driver skips
// them, so the emitted results are only for the record -- what matters are the #BAD lines.
//
// Ops (every argument is a token of the op line, so the printed line replays the case):
//   ix_closest a f exact latX lonX aziX latY lonY aziY p0x p0y [h]
//   ix_next    a f exact lat lon aziX aziY [h]
//   ix_segment a f exact latX1 lonX1 latX2 lonX2 latY1 lonY1 latY2 lonY2 [h]
//   ix_all     a f exact latX lonX aziX latY lonY aziY D1 D2 p0x p0y [h]
// a, f, angles, distances: hex doubles; exact: 0/1 (Geodesic(a, f, exact)); h: optional decimal int, the grid
// step (metres) of the independent brute-force scan (absent or 0 = no scan for this case).
//
// Relations (names of the #BAD lines; <v> = closest | next | segment | all):
//   <v>-finite, <v>-on-both-lines, <v>-c-flag (c != 0 where the lines cross, wrong sign, c not in {-1,0,1}),
//   <v>-c-coincident (c != 0 but X(x+t) != Y(y+ct)), <v>-c-missed (c = 0 on the coincidence line of exactly coincident
//   lines), closest-not-minimal, closest-vs-all, next-is-origin, next-not-minimal, next-vs-all,
//   next-coincident-conjugate, segment-segmode, segment-missed, segment-wrong-point, segment-not-closest,
//   all-c-vector, all-within-maxdist, all-sorted, all-duplicate, all-first-is-closest, all-monotone, all-complete.
//
// Independent brute-force scan (scan()): uses ONLY GeodesicLine::Position.  Both lines are sampled at the
// mid points of arcs of length h inside the L1 ball under consideration; the sample points are mapped to 3-D
// (geodetic -> Cartesian, closed form); if arc i of X and arc j of Y meet, their mid points are at most h apart
// (chord <= arc), so every such pair (i, j) seeds a Gauss-Newton iteration on |P_X(x) - P_Y(y)|^2 written with
// the 3-D unit tangents of the two lines (dx T_X - dy T_Y = P_Y - P_X solved with cross products, which stays
// accurate for nearly parallel lines).  A converged point whose residual is below the on-both-lines tolerance
// is a verified intersection wherever the iteration ended up.  The scan knows nothing of the tiling constants
// _t1.._t5, _d1.._d3 of the class.  It is used one-sidedly: an intersection found by the scan that the class
// should have reported (or preferred) and did not is a failure; an incomplete scan only loses power.
//
// Tolerances (all scaled by a / 6378137):
//  * acc: documented accuracy of Geodesic/GeodesicLine: 15 nm (|f| <= 1/150), 25 nm (|f| <= 0.01), 30 nm
//    (|f| <= 0.02), 10 um (<= 0.05), 1.5 mm (<= 0.1) for the series; 40 nm for exact = true (GeodesicExact.hpp;
//    its table gives 36 nm / 25 nm for b/a = 1/2, 2).
//  * on-both-lines: the geodesic distance between X(x) and Y(y) must be <= tolOn = 4 * acc * (sx + sy),
//    sx = max(1, |x| / (pi a)) (the documented figure holds for up to half a circuit; the error of a direct problem
//    grows linearly with the path length; factor 4 = safety).  The class's own convergence threshold does not
//    enter: Newton stops when the last step is <= _tol = pi R eps^(3/4) ~ 3.6e-5 m and is quadratically
//    convergent, so the remaining separation is ~ _tol^2 / R ~ 2e-16 m; "already at the intersection" is
//    z <= 3 eps R = 4.3 nm (Intersect.cpp), well inside 4 * 15 nm.  For nearly parallel lines the *position*
//    (x, y) is ill conditioned, but X(x) and Y(y) still coincide at this level, so the tolerance is not relaxed.
//  * L1 comparisons between two determinations of the same intersection / of competing intersections:
//    margin = 4 * tolN + 4 * tolOn / sin(angle between the lines at the point), tolN = pi a eps^(3/4) (the
//    class's Newton tolerance recomputed here), the second term = position error of a transversal
//    intersection when each line is known to tolOn.
//  * coincidence indicator: c != 0 requires |T_X x T_Y| <= 1e-12 (class: two angles each within 3 eps = 6.7e-16
//    of 0/180; azimuth round-off 3.5e-16 rad, separation tolOn / a ~ 1e-13 rad), which is 17x below the
//    smallest nearly-parallel angle generated (1e-9 deg = 1.7e-11 rad).
//  * duplicates in All: two returned points nearer than 1e4 m (L1) are the same intersection (the class's own
//    equality margin is _delta = pi R eps^(1/5) ~ 14.8 km; distinct intersections are ~ pi b ~ 2e7 m apart).
#pragma once
#include <GeographicLib/Geodesic.hpp>
#include <GeographicLib/GeodesicLine.hpp>
#include <GeographicLib/Intersect.hpp>
#include <GeographicLib/Math.hpp>
#include <memory>
#include <functional>
#include <tuple>
#include <algorithm>

namespace c17isect {
using namespace GeographicLib;
using gv::Args; using gv::hx; using gv::unhx; using gv::emit; using gv::Reg; using gv::Rng;
typedef Intersect::Point Pnt;
typedef Intersect::XPoint XP;

// Every #BAD line of the ix_* ops carries, at the end of its details, the tags of the decidable classes the query belongs to:
//   [basic-not-converged]       one of the Basic calls the search can make from its start points ran into the iteration cap numit_
//                               (observed through NumInverse; Lean: basic_can_fail_silently) -- the class of finding F57
//   [exactly-coincident-lines]  the two lines coincide exactly by construction (same start and equal / opposite azimuths, both
//                               equatorial, or both on one meridian)
// known_findings.json matches on these tags, so that the same symptom outside the class still alarms.
// (evaluated only when a #BAD line is written: the extra Basic calls are not free)
inline std::function<std::string()>& tags() { static std::function<std::string()> t = [] { return std::string(); }; return t; }
inline void bad(const std::string& relation, const std::string& details) { gv::bad(relation, details + tags()()); }

// Basic(start) with its number of iterations (NumInverse increments once per iteration), as a table entry
struct BE { XP s, b; long long its; };
inline BE basicAt(const Intersect& in, const GeodesicLine& lX, const GeodesicLine& lY, const XP& s) {
  long long k = in.NumInverse(); XP b = in.Basic(lX, lY, s); long long its = in.NumInverse() - k;
  if (its >= Intersect::numit_) gv::stat("basic-not-converged");
  return BE{s, b, its};
}
// the (2k+1) x (2k+1) grid of candidate starts p0 + (i d, j d), |i|, |j| <= k: a superset of every start table the search can use
inline std::vector<BE> gridTable(const Intersect& in, const GeodesicLine& lX, const GeodesicLine& lY, const XP& p0, double d, int k) {
  std::vector<BE> t;
  for (int i = -k; i <= k; ++i) for (int j = -k; j <= k; ++j) t.push_back(basicAt(in, lX, lY, p0 + XP(i * d, j * d)));
  return t;
}
inline bool capped(const std::vector<BE>& t) { for (auto& e : t) if (e.its >= Intersect::numit_) return true; return false; }
// the start points of AllInt0, exactly as the code forms them
inline std::vector<XP> allStarts(const Intersect& in, double maxdist, const XP& p0, int& m) {
  double maxdistx = maxdist + in._delta; m = int(std::ceil(maxdistx / in._d3));
  int n = m - 1; double d3 = maxdistx / m;
  std::vector<XP> st; st.push_back(p0);
  for (int i = -n; i <= n; i += 2) for (int j = -n; j <= n; j += 2) if (!(i == 0 && j == 0)) st.push_back(p0 + XP(d3 * (i + j) / 2, d3 * (i - j) / 2));
  return st;
}
inline bool cappedAll(const Intersect& in, const GeodesicLine& lX, const GeodesicLine& lY, double maxdist, const XP& p0) {
  double md = std::fmax(0.0, maxdist); if (!(md <= 40 * in._d)) return false;
  int m; for (auto& s : allStarts(in, md, p0, m)) if (basicAt(in, lX, lY, s).its >= Intersect::numit_) return true;
  return false;
}

// ------------------------------------------------------------------------------------------------ helpers
struct V3 { double x, y, z; };
inline V3 operator-(const V3& a, const V3& b) { return {a.x - b.x, a.y - b.y, a.z - b.z}; }
inline V3 cross(const V3& a, const V3& b) { return {a.y * b.z - a.z * b.y, a.z * b.x - a.x * b.z, a.x * b.y - a.y * b.x}; }
inline double dot(const V3& a, const V3& b) { return a.x * b.x + a.y * b.y + a.z * b.z; }
inline double norm(const V3& a) { return std::sqrt(dot(a, a)); }

inline std::string num(double x) { char b[40]; std::snprintf(b, sizeof b, "%.17g", x); return b; }
inline std::string sci(double x) { char b[40]; std::snprintf(b, sizeof b, "%.3g", x); return b; }
inline std::string pt(double x, double y) { return "(" + num(x) + ", " + num(y) + ")"; }
inline double l1(double x, double y, double x0, double y0) { return std::fabs(x - x0) + std::fabs(y - y0); }

struct World {
  double a, f, b; bool exact; Geodesic g; Intersect in;
  double acc, tolN, circ, sc;
  World(double a_, double f_, bool ex) : a(a_), f(f_), b(a_ * (1 - f_)), exact(ex), g(a_, f_, ex), in(g) {
    sc = a / 6378137.0;
    double af = std::fabs(f);
    acc = (ex ? 40e-9 : af <= 1 / 150.0 ? 15e-9 : af <= 0.01 ? 25e-9 : af <= 0.02 ? 30e-9 : af <= 0.05 ? 10e-6 : 1.5e-3) * sc;
    tolN = Math::pi() * a * std::pow(std::numeric_limits<double>::epsilon(), 0.75);
    circ = 2 * Math::pi() * a;
  }
  double tolOn(double x, double y) const {
    double h = Math::pi() * a;
    return 4 * acc * (std::fmax(1.0, std::fabs(x) / h) + std::fmax(1.0, std::fabs(y) / h));
  }
  double margin(double sinang, double x, double y) const { return 4 * tolN + 4 * tolOn(x, y) / std::fmax(sinang, 1e-300); }
};
inline World& world(double a, double f, int exact) {
  static std::map<std::tuple<uint64_t, uint64_t, int>, std::unique_ptr<World>> cache;
  auto key = std::make_tuple(gv::bits(a), gv::bits(f), exact);
  auto it = cache.find(key);
  if (it == cache.end()) it = cache.emplace(key, std::unique_ptr<World>(new World(a, f, exact != 0))).first;
  return *it->second;
}

// a point of a line with its 3-D position and unit tangent
struct LP { double lat, lon, azi; V3 P, T; };
inline LP at(const World& w, const GeodesicLine& l, double s) {
  LP r; l.Position(s, r.lat, r.lon, r.azi);
  double sp, cp, sl, cl, sa, ca; Math::sincosd(r.lat, sp, cp); Math::sincosd(r.lon, sl, cl); Math::sincosd(r.azi, sa, ca);
  double e2 = w.f * (2 - w.f), N = w.a / std::sqrt(1 - e2 * sp * sp);
  r.P = {N * cp * cl, N * cp * sl, N * (1 - e2) * sp};
  r.T = {ca * (-sp * cl) + sa * (-sl), ca * (-sp * sl) + sa * cl, ca * cp};
  return r;
}
inline double sep(const World& w, const LP& A, const LP& B) { double s; w.g.Inverse(A.lat, A.lon, B.lat, B.lon, s); return s; }
inline double sinang(const LP& A, const LP& B) { return norm(cross(A.T, B.T)); }

// lines that coincide *exactly* by symmetry (no rounding involved): same start and equal/opposite azimuths, both
// equatorial, or both meridional in the same meridian plane.  closed: the common geodesic is closed (equator,
// meridian, any great circle of a sphere), so every pass of Y lies on top of X; otherwise only the points of the
// coincidence line x = c0 y through the common start do (a non-closed geodesic crosses its own earlier passes
// transversally, possibly at a minute angle for nearly meridional / nearly equatorial lines: c = 0 is right there).
struct Coinc { bool exact, closed, line; int c0; };
inline Coinc exactCoincident(double f, double latX, double lonX, double aziX, double latY, double lonY, double aziY) {
  double e, d = Math::AngDiff(aziX, aziY, e), el, dl = Math::AngDiff(lonX, lonY, el);
  bool par = e == 0 && (d == 0 || std::fabs(d) == 180);
  double ax = std::fabs(Math::AngNormalize(aziX)), ay = std::fabs(Math::AngNormalize(aziY));
  bool same = latX == latY && el == 0 && dl == 0 && par && std::fabs(latX) < 90;
  bool equ = latX == 0 && latY == 0 && ax == 90 && ay == 90;
  bool mer = (ax == 0 || ax == 180) && (ay == 0 || ay == 180) && el == 0 && (dl == 0 || std::fabs(dl) == 180) && std::fabs(latX) < 90 && std::fabs(latY) < 90;
  Coinc r; r.exact = same || equ || mer; r.closed = r.exact && (equ || mer || f == 0); r.line = same; r.c0 = d == 0 ? 1 : -1;
  return r;
}

// ----------------------------------------------------------------------------------- independent brute force
struct SP { double x, y, sa; };
inline bool gaussNewton(const World& w, const GeodesicLine& lX, const GeodesicLine& lY, double& x, double& y, double& sa) {
  double last = INFINITY;
  for (int it = 0; it < 40; ++it) {
    LP A = at(w, lX, x), B = at(w, lY, y);
    V3 D = B.P - A.P, n = cross(A.T, B.T); double n2 = dot(n, n);
    if (!(n2 >= 1e-26)) return false;                       // (locally) tangent lines: not an isolated intersection
    sa = std::sqrt(n2);
    double res = norm(D), ton = w.tolOn(x, y);
    if (last <= 1e-6 * w.sc + ton / sa && res <= ton) return true;
    double dx = dot(cross(D, B.T), n) / n2, dy = dot(cross(D, A.T), n) / n2;
    double m = std::fmax(std::fabs(dx), std::fabs(dy)), cap = 3e6 * w.sc;
    if (!(m < INFINITY)) return false;
    if (m > cap) { dx *= cap / m; dy *= cap / m; }
    x += dx; y += dy; last = std::fabs(dx) + std::fabs(dy);
  }
  return false;
}
// all isolated intersections found from seeds inside the L1 ball of radius D about (cx, cy) (converged points may
// lie outside: callers filter by distance)
inline std::vector<SP> scan(const World& w, const GeodesicLine& lX, const GeodesicLine& lY, double cx, double cy, double D, double h) {
  std::vector<SP> out;
  if (!(D > 0) || !(h > 0) || !(D < 1e10)) return out;
  int n = std::max(2, std::min(1500, int(std::ceil(2 * D / h)))); double hh = 2 * D / n;
  std::vector<V3> PX(n), PY(n);
  for (int i = 0; i < n; ++i) { PX[i] = at(w, lX, cx - D + (i + 0.5) * hh).P; PY[i] = at(w, lY, cy - D + (i + 0.5) * hh).P; }
  double thr2 = 1.05 * hh * 1.05 * hh; int runs = 0;
  for (int i = 0; i < n; ++i) for (int j = 0; j < n; ++j) {
    double xs = cx - D + (i + 0.5) * hh, ys = cy - D + (j + 0.5) * hh;
    if (std::fabs(xs - cx) + std::fabs(ys - cy) > D + hh) continue;
    V3 d = PX[i] - PY[j]; if (dot(d, d) > thr2) continue;
    bool known = false; for (auto& s : out) if (std::fabs(s.x - xs) <= 1.5 * hh && std::fabs(s.y - ys) <= 1.5 * hh) known = true;
    if (known) continue;
    if (++runs > 3000) { gv::stat("ix_scan_capped"); return out; }
    double x = xs, y = ys, sa = 0;
    if (!gaussNewton(w, lX, lY, x, y, sa)) continue;
    bool dup = false; for (auto& s : out) if (l1(x, y, s.x, s.y) <= 1.0 + w.margin(sa, x, y)) dup = true;
    if (!dup) out.push_back({x, y, sa});
  }
  gv::stat("ix_scan_points", long(out.size())); gv::stat("ix_scans");
  return out;
}
// first conjugate point of the start point in the direction sgn (zero of the reduced length m12), by bracketing on a
// grid and bisection -- independent of Intersect::ConjugateDist
inline double firstConj(const World& w, const GeodesicLine& l, int sgn) {
  auto m12 = [&](double s) { double t, m; l.GenPosition(false, s, GeodesicLine::REDUCEDLENGTH, t, t, t, t, m, t, t, t); return sgn * m; };
  double h = 2e5 * w.sc, s0 = h;
  for (int k = 1; k < 400; ++k, s0 += h) {
    if (m12(sgn * (s0 + h)) <= 0) {
      double lo = s0, hi = s0 + h;
      for (int i = 0; i < 60; ++i) { double mid = 0.5 * (lo + hi); (m12(sgn * mid) > 0 ? lo : hi) = mid; }
      return 0.5 * (lo + hi);
    }
  }
  return NAN;
}

// ------------------------------------------------------------------------------------------ shared oracles
struct Chk { double sa; bool ok, degenerate; };
// on-both-lines + coincidence indicator for one reported point; what = "closest", "next", ...
inline Chk checkPoint(const World& w, const GeodesicLine& lX, const GeodesicLine& lY, double x, double y, int c, const Coinc& coinc, const std::string& what) {
  Chk r{0, true, false};
  if (!(std::isfinite(x) && std::isfinite(y))) { bad(what + "-finite", "non-finite displacement " + pt(x, y)); r.ok = false; return r; }
  if (!(c == 0 || c == 1 || c == -1)) { bad(what + "-c-flag", "coincidence indicator " + std::to_string(c) + " is not in {-1,0,1}"); r.ok = false; }
  LP A = at(w, lX, x), B = at(w, lY, y);
  double s = sep(w, A, B), tol = w.tolOn(x, y);
  r.sa = sinang(A, B);
  if (!(s <= tol)) { bad(what + "-on-both-lines", "X(x) and Y(y) are " + sci(s) + " m apart (tolerance " + sci(tol) + ") at " + pt(x, y) + " c=" + std::to_string(c) + " sin=" + sci(r.sa) +
                         "; X(x)=" + num(A.lat) + "," + num(A.lon) + " Y(y)=" + num(B.lat) + "," + num(B.lon)); r.ok = false; }
  double ca = dot(A.T, B.T);
  if (c != 0) {
    if (!(r.sa <= 1e-12)) { bad(what + "-c-flag", "c=" + std::to_string(c) + " but the lines cross at angle sin=" + sci(r.sa) + " at " + pt(x, y)); r.ok = false; }
    else if ((c > 0) != (ca > 0)) { bad(what + "-c-flag", "c=" + std::to_string(c) + " but the tangents have cos=" + sci(ca) + " at " + pt(x, y)); r.ok = false; }
    else {
      // the lines lie on top of one another: X(x + t) = Y(y + c t)
      for (double t : {1e4, -3e5, 2e6}) {
        double tt = t * w.sc; LP A2 = at(w, lX, x + tt), B2 = at(w, lY, y + c * tt);
        double s2 = sep(w, A2, B2), tol2 = w.tolOn(x + tt, y + c * tt);
        if (!(s2 <= tol2)) { bad(what + "-c-coincident", "c=" + std::to_string(c) + " but X(x+t), Y(y+c t) are " + sci(s2) + " m apart for t=" + num(tt) + " at " + pt(x, y)); r.ok = false; break; }
      }
    }
  } else if (r.sa <= 1e-12) {
    if (coinc.exact && (coinc.closed || (coinc.line && std::fabs(x - coinc.c0 * y) <= 1e-3 * w.sc))) {
      bad(what + "-c-missed", "c=0 at " + pt(x, y) + " where exactly coincident lines lie on top of one another (sin=" + sci(r.sa) + ")"); r.ok = false; }
    r.degenerate = true;    // coincident up to rounding only, or a minute-angle crossing: positions are arbitrary along the line
  }
  if (c != 0 && !coinc.exact) r.degenerate = true;   // coincident up to rounding only: the competing answers (All) are arbitrary
  return r;
}

inline int optInt(const Args& a, size_t i) { return a.size() > i ? std::atoi(a[i].c_str()) : 0; }

// --------------------------------------------------------------------------------------------------- ops
inline void op_closest(const Args& a) {
  struct TagReset { ~TagReset() { tags() = [] { return std::string(); }; } } tagreset;
  World& w = world(unhx(a[0]), unhx(a[1]), std::atoi(a[2].c_str()));
  double latX = unhx(a[3]), lonX = unhx(a[4]), aziX = unhx(a[5]), latY = unhx(a[6]), lonY = unhx(a[7]), aziY = unhx(a[8]), p0x = unhx(a[9]), p0y = unhx(a[10]);
  int h = optInt(a, 11);
  GeodesicLine lX = w.g.Line(latX, lonX, aziX, Intersect::LineCaps), lY = w.g.Line(latY, lonY, aziY, Intersect::LineCaps);
  Pnt p0(p0x, p0y); int c = 99;
  Pnt p = w.in.Closest(latX, lonX, aziX, latY, lonY, aziY, p0, &c);
  double x = p.first, y = p.second;
  emit(hx(x) + " " + hx(y) + " " + std::to_string(c));
  Coinc coinc = exactCoincident(w.f, latX, lonX, aziX, latY, lonY, aziY);
  tags() = [&] { return std::string(capped(gridTable(w.in, lX, lY, XP(p0), w.in._d1, 1)) || cappedAll(w.in, lX, lY, 2.5 * Math::pi() * w.a, XP(p0)) ? " [basic-not-converged]" : "") + (coinc.exact ? " [exactly-coincident-lines]" : ""); };
  Chk k = checkPoint(w, lX, lY, x, y, c, coinc, "closest");
  if (!std::isfinite(x + y)) return;
  double d = l1(x, y, p0x, p0y);
  if (c != 0 && k.ok) {
    // on a line of coincident intersections (x + t, y + c t) the least L1 distance from p0 is |(p0x - x) - c (p0y - y)|
    double dmin = std::fabs((p0x - x) - c * (p0y - y));
    if (!(d <= dmin + 4 * w.tolN)) bad("closest-not-minimal", "coincident lines: returned " + pt(x, y) + " at L1 distance " + num(d) + " from p0, but the point of the same coincidence line nearest to p0 is at " + num(dmin));
  }
  if (coinc.exact && coinc.line && k.ok) {
    // exactly coincident lines through a common start: every (t, c0 t) is an intersection; the nearest is at L1
    // distance |p0x - c0 p0y| from p0, whatever else is returned
    double dline = std::fabs(p0x - coinc.c0 * p0y);
    if (!(d <= dline + 4 * w.tolN)) bad("closest-not-minimal", "exactly coincident lines (c0=" + std::to_string(coinc.c0) + "): returned " + pt(x, y) + " c=" + std::to_string(c) + " at L1 distance " + num(d) + " from p0, but the coincidence line x = c0 y is at " + num(dline));
  }
  if (k.degenerate) return;
  double m = w.margin(c ? 1.0 : k.sa, x, y);
  // against All with a radius that certainly contains the closest intersection (it is within ~ pi a of p0)
  std::vector<int> cA; std::vector<Pnt> A = w.in.All(lX, lY, 2.5 * Math::pi() * w.a, cA, p0);
  if (A.empty()) bad("closest-vs-all", "All(2.5 pi a) returns nothing, Closest returns " + pt(x, y) + " c=" + std::to_string(c));
  else {
    double dm = INFINITY; Pnt q; int cq = 0;
    for (size_t i = 0; i < A.size(); ++i) { double dt = l1(A[i].first, A[i].second, p0x, p0y); if (dt < dm) { dm = dt; q = A[i]; cq = i < cA.size() ? cA[i] : 0; } }
    double mA = m + w.margin(cq ? 1.0 : sinang(at(w, lX, q.first), at(w, lY, q.second)), q.first, q.second);   // q may be the ill-conditioned one
    if (!(d <= dm + mA)) bad("closest-not-minimal", "Closest " + pt(x, y) + " is at L1 distance " + num(d) + " from p0 but All lists " + pt(q.first, q.second) + " at " + num(dm));
    else if (!(d >= dm - mA)) bad("closest-vs-all", "Closest " + pt(x, y) + " c=" + std::to_string(c) + " (nearest of All has c=" + std::to_string(cq) + ") at L1 distance " + num(d) + " is not listed by All(2.5 pi a), whose nearest is " + pt(q.first, q.second) + " at " + num(dm));
  }
  if (h > 0) {
    for (auto& s : scan(w, lX, lY, p0x, p0y, d, h)) {
      double ds = l1(s.x, s.y, p0x, p0y);
      if (ds < d - m - w.margin(s.sa, s.x, s.y)) { bad("closest-not-minimal", "brute-force scan finds the intersection " + pt(s.x, s.y) + " at L1 distance " + num(ds) + " from p0, Closest returned " + pt(x, y) + " at " + num(d)); break; }
    }
  }
}

inline void op_next(const Args& a) {
  struct TagReset { ~TagReset() { tags() = [] { return std::string(); }; } } tagreset;
  World& w = world(unhx(a[0]), unhx(a[1]), std::atoi(a[2].c_str()));
  double lat = unhx(a[3]), lon = unhx(a[4]), aziX = unhx(a[5]), aziY = unhx(a[6]);
  int h = optInt(a, 7);
  GeodesicLine lX = w.g.Line(lat, lon, aziX, Intersect::LineCaps), lY = w.g.Line(lat, lon, aziY, Intersect::LineCaps);
  int c = 99;
  Pnt p = w.in.Next(lat, lon, aziX, aziY, &c);
  double x = p.first, y = p.second;
  emit(hx(x) + " " + hx(y) + " " + std::to_string(c));
  Coinc coinc = exactCoincident(w.f, lat, lon, aziX, lat, lon, aziY);
  tags() = [&] { return std::string(capped(gridTable(w.in, lX, lY, XP(0, 0), w.in._d2, 2)) || (std::isfinite(x + y) && cappedAll(w.in, lX, lY, std::fmin(1.02 * l1(x, y, 0, 0) + 1e5 * w.sc, 3 * w.circ), XP(0, 0))) ? " [basic-not-converged]" : "") + (coinc.exact ? " [exactly-coincident-lines]" : ""); };
  Chk k = checkPoint(w, lX, lY, x, y, c, coinc, "next");
  if (!std::isfinite(x + y)) return;
  double d = l1(x, y, 0, 0), origin = 1e4 * w.sc;
  if (!(d > origin)) { bad("next-is-origin", "Next returned " + pt(x, y) + ", i.e. the starting intersection"); return; }
  if (k.degenerate) return;
  double m = w.margin(c ? 1.0 : k.sa, x, y);
  if (c != 0 && coinc.exact && coinc.line && k.ok) {
    // coincident lines: on the coincidence line through the origin (x = c y) the next "intersection" is a first
    // conjugate point of the start (zero of the reduced length), forward or backward.  (A closed geodesic -- a
    // meridian, the equator, any great circle of a sphere -- has further coincidence lines x - c y = k L; a point of
    // such a line is a legitimate answer and is verified by checkPoint.)
    double sp = firstConj(w, lX, 1), sm = firstConj(w, lX, -1);
    if (std::fabs(x - c * y) <= 1 * w.sc && std::isfinite(sp) && std::isfinite(sm) && !(std::fabs(x - (x > 0 ? sp : -sm)) <= 4 * w.tolN))
      bad("next-coincident-conjugate", "coincident lines: x=" + num(x) + " is not the first conjugate point of the start (forward " + num(sp) + ", backward " + num(-sm) + ")");
  }
  if (coinc.exact && coinc.line) {
    // whatever is returned must not be farther than the nearer first conjugate point, where (s, c s) is an intersection
    double e, dz = Math::AngDiff(aziX, aziY, e); int c0 = dz == 0 ? 1 : -1;
    double sp = firstConj(w, lX, 1), sm = firstConj(w, lX, -1), s = std::fmin(sp, sm);
    if (std::isfinite(s) && !(d <= 2 * s + 8 * w.tolN))
      bad("next-not-minimal", "coincident lines (c=" + std::to_string(c0) + "): Next " + pt(x, y) + " at L1 distance " + num(d) + " is farther than the conjugate point at " + num(s) + " (L1 " + num(2 * s) + ")");
  }
  // against All: Next's point is listed, and nothing listed (other than the origin) is nearer
  std::vector<int> cA; std::vector<Pnt> A = w.in.All(lX, lY, std::fmin(1.02 * d + 1e5 * w.sc, 3 * w.circ), cA);
  bool listed = false; double dm = INFINITY, mq = 0; Pnt q;
  for (size_t i = 0; i < A.size(); ++i) {
    const Pnt& t = A[i];
    double dt = l1(t.first, t.second, 0, 0); if (!(dt > origin)) continue;
    double mt = w.margin((i < cA.size() && cA[i]) ? 1.0 : sinang(at(w, lX, t.first), at(w, lY, t.second)), t.first, t.second);
    if (dt - mt < dm - mq) { dm = dt; q = t; mq = mt; }        // smallest distance after allowing for its own conditioning
    if (l1(t.first, t.second, x, y) <= m + mt) listed = true;
  }
  if (dm < d - m - mq) bad("next-not-minimal", "Next " + pt(x, y) + " is at L1 distance " + num(d) + " but All lists " + pt(q.first, q.second) + " at " + num(dm));
  else if (!listed && d <= 3 * w.circ) bad("next-vs-all", "Next " + pt(x, y) + " (c=" + std::to_string(c) + ") is not among the intersections listed by All(" + num(1.02 * d + 1e5 * w.sc) + ")");
  if (h > 0) {
    for (auto& s : scan(w, lX, lY, 0, 0, d, h)) {
      double ds = l1(s.x, s.y, 0, 0); if (!(ds > origin + w.margin(s.sa, s.x, s.y))) continue;
      if (ds < d - m - w.margin(s.sa, s.x, s.y)) { bad("next-not-minimal", "brute-force scan finds the intersection " + pt(s.x, s.y) + " at L1 distance " + num(ds) + ", Next returned " + pt(x, y) + " at " + num(d)); break; }
    }
  }
}

inline void op_segment(const Args& a) {
  struct TagReset { ~TagReset() { tags() = [] { return std::string(); }; } } tagreset;
  World& w = world(unhx(a[0]), unhx(a[1]), std::atoi(a[2].c_str()));
  double v[8]; for (int i = 0; i < 8; ++i) v[i] = unhx(a[3 + i]);
  int h = optInt(a, 11);
  GeodesicLine lX = w.g.InverseLine(v[0], v[1], v[2], v[3], Intersect::LineCaps), lY = w.g.InverseLine(v[4], v[5], v[6], v[7], Intersect::LineCaps);
  double sx = lX.Distance(), sy = lY.Distance();
  int segmode = 99, c = 99;
  Pnt p = w.in.Segment(v[0], v[1], v[2], v[3], v[4], v[5], v[6], v[7], segmode, &c);
  double x = p.first, y = p.second;
  emit(hx(x) + " " + hx(y) + " " + std::to_string(segmode) + " " + std::to_string(c) + " " + hx(sx) + " " + hx(sy));
  // the coincidence of two segments is never "exact by symmetry" in the sense of exactCoincident unless both are
  // equatorial or both on one meridian: InverseLine returns azimuths 90/-90 resp. 0/180 exactly there
  Coinc coinc = exactCoincident(w.f, v[0], v[1], lX.Azimuth(), v[4], v[5], lY.Azimuth());
  if (!((v[0] == 0 && v[2] == 0 && v[4] == 0 && v[6] == 0) || (v[1] == v[3] && v[5] == v[7]))) coinc.exact = coinc.closed = coinc.line = false;
  tags() = [&] { std::vector<BE> t = gridTable(w.in, lX, lY, XP(sx / 2, sy / 2), w.in._d1, 1); bool cp = capped(t) || cappedAll(w.in, lX, lY, 2.5 * Math::pi() * w.a, XP(sx / 2, sy / 2));
    for (int ix = 0; ix < 2; ++ix) for (int iy = 0; iy < 2; ++iy) if (basicAt(w.in, lX, lY, XP(ix * sx, iy * sy)).its >= Intersect::numit_) cp = true;
    return std::string(cp ? " [basic-not-converged]" : "") + (coinc.exact ? " [exactly-coincident-lines]" : ""); };
  Chk k = checkPoint(w, lX, lY, x, y, c, coinc, "segment");
  if (!std::isfinite(x + y)) return;
  // segmode exactly as documented
  int kx = x < 0 ? -1 : (x <= sx ? 0 : 1), ky = y < 0 ? -1 : (y <= sy ? 0 : 1);
  if (segmode != 3 * kx + ky) bad("segment-segmode", "segmode=" + std::to_string(segmode) + " but x=" + num(x) + " (sx=" + num(sx) + ") y=" + num(y) + " (sy=" + num(sy) + ") give 3kx+ky=" + std::to_string(3 * kx + ky));
  // documented precondition: unique shortest geodesics (stay away from nearly antipodal end points), proper segments
  double lim = 0.9 * Math::pi() * std::fmin(w.a, w.b);
  if (!(sx <= lim && sy <= lim && sx >= 1 * w.sc && sy >= 1 * w.sc)) return;
  double p0x = sx / 2, p0y = sy / 2, d = l1(x, y, p0x, p0y);
  if (c != 0 && k.ok) {
    // coincident segments: Y(0), Y(sy) sit at xa, xb on X; the overlap of [0, sx] with [xa, xb] non-empty => segmode 0
    double xa = x - c * y, xb = x + c * (sy - y), lo = std::fmax(0.0, std::fmin(xa, xb)), hi = std::fmin(sx, std::fmax(xa, xb)), mm = 4 * w.tolN + 4 * w.tolOn(x, y);
    if (hi - lo > 2 * mm && segmode != 0) bad("segment-missed", "coincident segments overlap on x in [" + num(lo) + ", " + num(hi) + "] but segmode=" + std::to_string(segmode) + " at " + pt(x, y));
  }
  if (k.degenerate) return;
  double m = w.margin(c ? 1.0 : k.sa, x, y);
  std::vector<int> cA; std::vector<Pnt> A = w.in.All(lX, lY, 2.5 * Math::pi() * w.a, cA, Pnt(p0x, p0y));
  bool anyc = c != 0; for (int t : cA) if (t) anyc = true;
  auto judge = [&](double qx, double qy, double qsa, const char* src) -> bool {
    double mq = w.margin(qsa, qx, qy), dq = l1(qx, qy, p0x, p0y);
    bool inside = qx >= mq && qx <= sx - mq && qy >= mq && qy <= sy - mq;
    if (inside && segmode != 0) { bad("segment-missed", std::string(src) + " finds the intersection " + pt(qx, qy) + " inside both segments (sx=" + num(sx) + ", sy=" + num(sy) + ") but segmode=" + std::to_string(segmode) + ", returned " + pt(x, y)); return true; }
    if (inside && segmode == 0 && !(l1(qx, qy, x, y) <= m + mq)) { bad("segment-wrong-point", std::string(src) + " finds the intersection " + pt(qx, qy) + " of the two segments, Segment returned " + pt(x, y)); return true; }
    if (segmode != 0 && dq < d - m - mq) { bad("segment-not-closest", std::string(src) + " finds " + pt(qx, qy) + " at L1 distance " + num(dq) + " from the mid points, Segment (segmode " + std::to_string(segmode) + ") returned " + pt(x, y) + " at " + num(d)); return true; }
    return false;
  };
  if (!anyc) {
    for (size_t i = 0; i < A.size(); ++i) {
      LP P = at(w, lX, A[i].first), Q = at(w, lY, A[i].second);
      if (sep(w, P, Q) > w.tolOn(A[i].first, A[i].second)) continue;   // reported by ix_all's oracle, not here
      if (judge(A[i].first, A[i].second, sinang(P, Q), "All")) break;
    }
    if (h > 0) {
      double D = std::fmin(std::fmax((sx + sy) / 2, segmode ? d : 0.0), 2.5 * Math::pi() * w.a);
      for (auto& s : scan(w, lX, lY, p0x, p0y, D, h)) if (judge(s.x, s.y, s.sa, "brute-force scan")) break;
    }
  }
}

inline void op_all(const Args& a) {
  struct TagReset { ~TagReset() { tags() = [] { return std::string(); }; } } tagreset;
  World& w = world(unhx(a[0]), unhx(a[1]), std::atoi(a[2].c_str()));
  double latX = unhx(a[3]), lonX = unhx(a[4]), aziX = unhx(a[5]), latY = unhx(a[6]), lonY = unhx(a[7]), aziY = unhx(a[8]),
    D1 = unhx(a[9]), D2 = unhx(a[10]), p0x = unhx(a[11]), p0y = unhx(a[12]);
  int h = optInt(a, 13);
  GeodesicLine lX = w.g.Line(latX, lonX, aziX, Intersect::LineCaps), lY = w.g.Line(latY, lonY, aziY, Intersect::LineCaps);
  Pnt p0(p0x, p0y);
  std::vector<int> c1, c2;
  std::vector<Pnt> v2 = w.in.All(latX, lonX, aziX, latY, lonY, aziY, D2, c2, p0), v1 = w.in.All(lX, lY, D1, c1, p0);
  int cc = 99; Pnt pc = w.in.Closest(lX, lY, p0, &cc);
  std::string o = std::to_string(v1.size()) + " " + std::to_string(v2.size());
  for (size_t i = 0; i < v2.size(); ++i) o += " " + hx(v2[i].first) + " " + hx(v2[i].second) + " " + std::to_string(i < c2.size() ? c2[i] : 99);
  emit(o);
  Coinc coinc = exactCoincident(w.f, latX, lonX, aziX, latY, lonY, aziY);
  tags() = [&] { return std::string(cappedAll(w.in, lX, lY, D1, XP(p0)) || cappedAll(w.in, lX, lY, D2, XP(p0)) || capped(gridTable(w.in, lX, lY, XP(p0), w.in._d1, 1)) ? " [basic-not-converged]" : "") + (coinc.exact ? " [exactly-coincident-lines]" : ""); };
  if (c1.size() != v1.size() || c2.size() != v2.size()) { bad("all-c-vector", "the vector of coincidence indicators has a different length from the vector of points"); return; }
  bool anyc = cc != 0, degenerate = false, finite = true;
  std::vector<double> sa1(v1.size()), sa2(v2.size());
  for (int pass = 0; pass < 2; ++pass) {
    const std::vector<Pnt>& v = pass ? v1 : v2; const std::vector<int>& c = pass ? c1 : c2; double D = pass ? D1 : D2;
    for (size_t i = 0; i < v.size(); ++i) {
      Chk k = checkPoint(w, lX, lY, v[i].first, v[i].second, c[i], coinc, "all");
      (pass ? sa1 : sa2)[i] = c[i] ? 1.0 : k.sa;
      if (c[i]) anyc = true;
      if (k.degenerate) degenerate = true;
      if (!std::isfinite(v[i].first + v[i].second)) { finite = false; continue; }
      double d = l1(v[i].first, v[i].second, p0x, p0y);
      if (!(d <= D + 1e-6 * w.sc)) bad("all-within-maxdist", "point " + pt(v[i].first, v[i].second) + " is at L1 distance " + num(d) + " > maxdist " + num(D));
      if (i > 0) {
        double dp = l1(v[i - 1].first, v[i - 1].second, p0x, p0y);
        if (!(d >= dp - 1e-6 * w.sc)) bad("all-sorted", "point " + std::to_string(i) + " " + pt(v[i].first, v[i].second) + " at distance " + num(d) + " follows a point at distance " + num(dp));
      }
      for (size_t j = 0; j < i; ++j) if (l1(v[i].first, v[i].second, v[j].first, v[j].second) < 1e4 * w.sc) bad("all-duplicate", "points " + std::to_string(j) + " and " + std::to_string(i) + " of All(" + num(D) + ") are the same intersection: " + pt(v[j].first, v[j].second) + " " + pt(v[i].first, v[i].second));
    }
  }
  if (coinc.exact && coinc.line && finite) {
    // exactly coincident lines through a common start: the coincidence line x = c0 y is at L1 distance |p0x - c0 p0y|
    double dline = std::fabs(p0x - coinc.c0 * p0y); bool any2 = false; for (int t : c2) if (t) any2 = true;
    if (dline < D2 - 4 * w.tolN && !any2) { bad("all-c-missed", "exactly coincident lines (c0=" + std::to_string(coinc.c0) + "): All(" + num(D2) + ") lists " + std::to_string(v2.size()) + " points, none with c != 0, although the coincidence line x = c0 y is at L1 distance " + num(dline) + " from p0"); return; }
  }
  if (anyc && !coinc.exact) degenerate = true;
  if (!finite || degenerate || !std::isfinite(pc.first + pc.second)) return;
  // Closest = first of All (compare distances: equidistant ties are legitimate)
  {
    LP P = at(w, lX, pc.first), Q = at(w, lY, pc.second);
    double dc = l1(pc.first, pc.second, p0x, p0y), mc = w.margin(cc ? 1.0 : sinang(P, Q), pc.first, pc.second);
    if (!v2.empty()) {
      double d0 = l1(v2[0].first, v2[0].second, p0x, p0y), m0 = mc + w.margin(sa2[0], v2[0].first, v2[0].second);
      if (!(std::fabs(dc - d0) <= m0)) bad("all-first-is-closest", "Closest " + pt(pc.first, pc.second) + " at L1 distance " + num(dc) + ", first of All(" + num(D2) + ") " + pt(v2[0].first, v2[0].second) + " at " + num(d0));
    } else if (dc < D2 - mc) bad("all-complete", "All(" + num(D2) + ") is empty but Closest returns " + pt(pc.first, pc.second) + " at L1 distance " + num(dc));
  }
  if (!anyc) {
    // monotone in the radius: All(D1) = { p in All(D2) : dist <= D1 } (a band about the D1 boundary is ignored)
    for (size_t i = 0; i < v2.size(); ++i) {
      double d = l1(v2[i].first, v2[i].second, p0x, p0y), mi = w.margin(sa2[i], v2[i].first, v2[i].second);
      if (d > D1 - mi) continue;
      bool f = false; for (size_t j = 0; j < v1.size(); ++j) if (l1(v2[i].first, v2[i].second, v1[j].first, v1[j].second) <= mi + w.margin(sa1[j], v1[j].first, v1[j].second)) f = true;
      if (!f) bad("all-monotone", "intersection " + pt(v2[i].first, v2[i].second) + " at L1 distance " + num(d) + " is listed by All(" + num(D2) + ") but not by All(" + num(D1) + ")");
    }
    for (size_t j = 0; j < v1.size(); ++j) {
      double mj = w.margin(sa1[j], v1[j].first, v1[j].second);
      bool f = false; for (size_t i = 0; i < v2.size(); ++i) if (l1(v2[i].first, v2[i].second, v1[j].first, v1[j].second) <= mj + w.margin(sa2[i], v2[i].first, v2[i].second)) f = true;
      if (!f) bad("all-monotone", "intersection " + pt(v1[j].first, v1[j].second) + " is listed by All(" + num(D1) + ") but not by All(" + num(D2) + ")");
    }
  }
  if (h > 0) {
    // completeness (isolated intersections only; on coincident lines these are the self-crossings of the geodesic)
    for (auto& s : scan(w, lX, lY, p0x, p0y, D2, h)) {
      double ds = l1(s.x, s.y, p0x, p0y), ms = w.margin(s.sa, s.x, s.y);
      if (ds > D2 - ms) continue;
      bool f = false; for (size_t i = 0; i < v2.size(); ++i) if (l1(v2[i].first, v2[i].second, s.x, s.y) <= ms + w.margin(sa2[i], v2[i].first, v2[i].second)) f = true;
      if (!f) bad("all-complete", "brute-force scan finds the intersection " + pt(s.x, s.y) + " at L1 distance " + num(ds) + " from p0, not listed by All(" + num(D2) + ") (" + std::to_string(v2.size()) + " points)");
    }
  }
}

static Reg r_closest("ix_closest", op_closest);
static Reg r_next("ix_next", op_next);
static Reg r_segment("ix_segment", op_segment);
static Reg r_all("ix_all", op_all);

// --------------------------------------------------------------------------------------------- generator
struct Ell { double a, f; int exact; };
inline Ell pickEll(Rng& r) {
  const double W = 1 / 298.257223563;
  switch (r.irange(0, 21)) {
  case 0: case 1: case 2: case 3: case 4: case 5: return {6378137, W, 0};
  case 6: case 7: return {6378137, 0, 0};
  case 8: return {6.4e6, 0, 0};
  case 9: case 10: case 11: return {6378137, 0.015, 0};
  case 12: case 13: case 14: return {6378137, -0.015, 0};
  case 15: return {6378137, W, 1};
  case 16: return {6.4e6, 1 / 50.0, 1};
  case 17: return {6.4e6, -1 / 50.0, 1};
  case 18: return {6.4e6, 0.1, 1};
  case 19: return {6.4e6, -0.1, 1};
  case 20: return {6378137, 1 / 150.0, 0};
  default: return {6378388, 1 / 297.0, 0};
  }
}
inline double q20(double x) { return std::round(x * 1048576.0) / 1048576.0; }   // multiples of 2^-20 deg: x +- 180 is exact
inline double rlat(Rng& r) { return r.irange(0, 7) ? r.range(-89, 89) : r.pick(std::vector<double>{0, 45, -45, 89.5, -89.5, 1e-10, 60, -30}); }
inline double rlon(Rng& r) { return r.irange(0, 7) ? r.range(-180, 180) : r.pick(std::vector<double>{0, 90, -90, 180, 12.5, -179.5}); }
inline double razi(Rng& r) { return r.irange(0, 5) ? r.range(-180, 180) : r.pick(std::vector<double>{0, 90, -90, 180, 45, -135, 1e-10, 89.999999}); }

struct Lines { double latX, lonX, aziX, latY, lonY, aziY; std::string kind; };
// the line strata shared by ix_closest and ix_all
inline Lines pickLines(Rng& r, const Ell& e) {
  Lines L; Geodesic g(e.a, e.f, e.exact != 0);
  L.latX = rlat(r); L.lonX = rlon(r); L.aziX = razi(r); L.latY = rlat(r); L.lonY = rlon(r); L.aziY = razi(r);
  switch (r.irange(0, 15)) {
  case 0: case 1: case 2: L.kind = "generic"; break;
  case 3: case 4: L.kind = "origin"; L.latY = L.latX; L.lonY = L.lonX; break;
  case 5: case 6: {
    L.kind = "nearpar"; double t = r.range(0, r.coin() ? 2e7 : 1e8) * (r.coin() ? 1 : -1), az;
    if (r.coin()) { L.latY = L.latX; L.lonY = L.lonX; az = L.aziX; }
    else g.Line(L.latX, L.lonX, L.aziX).Position(t, L.latY, L.lonY, az);
    L.aziY = az + (r.coin() ? 1 : -1) * std::pow(10.0, r.range(-9, -3)) + (r.coin() ? 180 : 0); break; }
  case 7: case 8: {
    L.kind = "coincident"; L.aziX = q20(L.aziX); L.lonX = q20(L.lonX); L.latY = L.latX; L.lonY = L.lonX;
    L.aziY = r.coin() ? L.aziX : Math::AngNormalize(L.aziX + 180); break; }
  case 9: case 10: {
    // start of Y displaced along X; exactly coincident on the equator and on meridians, to rounding otherwise
    int s = r.irange(0, 3); double t = r.range(-6e7, 6e7), az;
    if (s == 0) { L.kind = "coincident-displaced-equator"; L.latX = L.latY = 0; L.aziX = r.coin() ? 90 : -90; L.aziY = r.coin() ? 90 : -90; L.lonY = r.coin() ? rlon(r) : q20(L.lonX + r.range(-40, 40)); }
    else if (s == 1) { L.kind = "coincident-displaced-meridian"; L.lonX = q20(L.lonX); L.aziX = r.coin() ? 0 : 180; L.aziY = r.coin() ? 0 : 180; L.lonY = r.coin() ? L.lonX : Math::AngNormalize(L.lonX + 180); }
    else { L.kind = "coincident-displaced-oblique"; g.Line(L.latX, L.lonX, L.aziX).Position(t, L.latY, L.lonY, az); L.aziY = r.coin() ? az : az + 180; }
    break; }
  case 11: {
    L.kind = "polar"; int s = r.irange(0, 3);
    L.aziX = r.coin() ? 0 : 180; if (s != 3) L.aziY = r.coin() ? 0 : 180;     // two meridians (meet at the poles) or a meridian and a generic line
    if (s == 1) L.latX = r.coin() ? 90 : -90;                                   // a line starting at a pole
    if (s == 2) { L.latX = 90; L.latY = -90; }
    break; }
  case 12: {
    L.kind = "equatorial"; L.latX = 0; L.aziX = r.coin() ? 90 : -90;
    if (r.irange(0, 2) == 0) { L.aziY = r.coin() ? 0 : 180; }
    if (r.irange(0, 3) == 0) std::swap(L.latX, L.latY), std::swap(L.lonX, L.lonY), std::swap(L.aziX, L.aziY);
    break; }
  case 13: {
    L.kind = "meridian"; L.aziX = r.coin() ? 0 : 180;
    if (r.irange(0, 3) == 0) std::swap(L.latX, L.latY), std::swap(L.lonX, L.lonY), std::swap(L.aziX, L.aziY);
    break; }
  case 14: {
    L.kind = "nearpar-origin"; L.latY = L.latX; L.lonY = L.lonX;
    L.aziY = L.aziX + (r.coin() ? 1 : -1) * std::pow(10.0, r.range(-9, -3)) + (r.coin() ? 180 : 0); break; }
  default: {
    L.kind = "near-equatorial"; L.latX = r.range(-1, 1) * std::pow(10.0, r.range(-8, 0)); L.aziX = (r.coin() ? 90 : -90) + r.range(-1, 1) * std::pow(10.0, r.range(-8, 0)); break; }
  }
  return L;
}

inline std::string E3(const Ell& e) { return hx(e.a) + "|" + hx(e.f) + "|" + std::to_string(e.exact); }
inline void pushEll(Args& a, const Ell& e) { a.push_back(hx(e.a)); a.push_back(hx(e.f)); a.push_back(std::to_string(e.exact)); }
inline std::string ellTag(const Ell& e) { return e.f == 0 ? "sphere" : (e.exact ? (e.f > 0 ? "oblate-exact" : "prolate-exact") : (e.f > 0 ? "oblate" : "prolate")); }

inline void genClosest(Rng& r, int hq) {
  Ell e = pickEll(r); Lines L = pickLines(r, e);
  double p0x = 0, p0y = 0; bool off = r.irange(0, 2) == 0;
  if (off) { p0x = r.range(-3e7, 3e7); p0y = r.range(-3e7, 3e7); if (r.irange(0, 3) == 0) p0y = 0; }
  Args a; pushEll(a, e);
  for (double t : {L.latX, L.lonX, L.aziX, L.latY, L.lonY, L.aziY, p0x, p0y}) a.push_back(hx(t));
  a.push_back(std::to_string(hq));
  gv::stratum("ix:closest-" + L.kind); gv::stratum(std::string("ix:closest-p0-") + (off ? "offset" : "zero")); gv::stratum("ix:ell-" + ellTag(e));
  gv::run("ix_closest", a);
}

inline void genNext(Rng& r, int hq) {
  Ell e = pickEll(r);
  double lat = rlat(r), lon = rlon(r), aziX = razi(r), aziY = razi(r); std::string kind = "generic";
  switch (r.irange(0, 11)) {
  case 0: case 1: case 2: break;
  case 3: kind = "nearpar"; aziY = aziX + (r.coin() ? 1 : -1) * std::pow(10.0, r.range(-9, -3)) + (r.coin() ? 180 : 0); break;
  case 4: kind = "coincident-parallel"; aziX = q20(aziX); aziY = aziX; break;
  case 5: case 6: kind = "coincident-antiparallel"; aziX = q20(aziX); aziY = Math::AngNormalize(aziX + (r.coin() ? 180 : -180)); break;
  case 7: { kind = "coincident-meridian"; aziX = r.coin() ? 0 : 180; aziY = r.irange(0, 2) ? Math::AngNormalize(aziX + 180) : aziX; break; }
  case 8: { kind = "coincident-equator"; lat = 0; aziX = r.coin() ? 90 : -90; aziY = r.irange(0, 2) ? -aziX : aziX; break; }
  case 9: { kind = "meridian-equator"; lat = r.coin() ? 0 : lat; aziX = r.coin() ? 0 : 180; aziY = r.coin() ? 90 : (r.coin() ? -90 : razi(r)); if (r.coin()) std::swap(aziX, aziY); break; }
  case 10: { kind = "pole"; lat = r.coin() ? 90 : -90; if (r.irange(0, 3) == 0) { aziX = q20(aziX); aziY = r.coin() ? aziX : Math::AngNormalize(aziX + 180); } break; }
  default: { kind = "perpendicular"; aziY = aziX + (r.coin() ? 90 : -90); break; }
  }
  Args a; pushEll(a, e);
  for (double t : {lat, lon, aziX, aziY}) a.push_back(hx(t));
  a.push_back(std::to_string(hq));
  gv::stratum("ix:next-" + kind); gv::stratum("ix:ell-" + ellTag(e));
  gv::run("ix_next", a);
}

inline void genSegment(Rng& r, int hq) {
  Ell e = pickEll(r); Geodesic g(e.a, e.f, e.exact != 0);
  double lim = 0.85 * Math::pi() * std::fmin(e.a, e.a * (1 - e.f));
  double v[8]; std::string kind;
  auto seg = [&](double lat, double lon, double azi, double s0, double s1, double* o) {   // end points at s0, s1 along a line
    GeodesicLine l = g.Line(lat, lon, azi); l.Position(s0, o[0], o[1]); l.Position(s1, o[2], o[3]);
  };
  switch (r.irange(0, 13)) {
  case 0: case 1: { kind = "generic";
    seg(rlat(r), rlon(r), razi(r), 0, r.range(1e3, lim), v); seg(rlat(r), rlon(r), razi(r), 0, r.range(1e3, lim), v + 4); break; }
  case 2: case 3: case 4: { kind = "crossing";             // both segments pass through a common point
    double lat = rlat(r), lon = rlon(r), a1 = razi(r), a2 = razi(r), u = std::pow(10.0, r.range(3, std::log10(lim)));
    double d1 = r.range(0, u), d2 = r.range(0, u), d3 = r.range(0, u), d4 = r.range(0, u);
    seg(lat, lon, a1, -d1, u - d1, v); seg(lat, lon, a2, -d3, std::fmin(d4, lim - d3), v + 4); (void)d2; break; }
  case 5: { kind = "near-miss";                            // Y stops short of / starts just beyond the crossing point
    double lat = rlat(r), lon = rlon(r), a1 = razi(r), a2 = razi(r), u = r.range(1e4, lim), gap = std::pow(10.0, r.range(-3, 6));
    seg(lat, lon, a1, -r.range(0, u), r.range(0, lim - u), v); seg(lat, lon, a2, gap, gap + r.range(1e3, lim - gap - 1e3), v + 4);
    if (r.coin()) for (int i = 0; i < 4; ++i) std::swap(v[i], v[i + 4]); break; }
  case 6: { kind = "touching";                             // shared end point / T junction
    double lat = rlat(r), lon = rlon(r), a1 = razi(r), a2 = razi(r), u = r.range(1e4, lim);
    if (r.coin()) seg(lat, lon, a1, 0, u, v); else seg(lat, lon, a1, -r.range(0, u), r.range(0, lim - u), v);
    seg(lat, lon, a2, 0, r.range(1e3, lim), v + 4);
    if (r.coin()) { std::swap(v[4], v[6]); std::swap(v[5], v[7]); }
    if (r.coin()) for (int i = 0; i < 4; ++i) std::swap(v[i], v[i + 4]); break; }
  case 7: { kind = "short-far";                            // short segments whose lines meet far away
    seg(rlat(r), rlon(r), razi(r), 0, std::pow(10.0, r.range(1, 5.5)), v); seg(rlat(r), rlon(r), razi(r), 0, std::pow(10.0, r.range(1, 5.5)), v + 4); break; }
  case 8: case 9: { kind = "coincident-equator";           // as in tests/intersecttest.cpp, integer and random longitudes
    double l0 = r.irange(-170, 170), w1 = r.irange(1, 150), o = r.irange(-60, 160), w2 = r.irange(1, 150);
    if (r.irange(0, 2) == 0) { l0 = r.range(-170, 170); w1 = r.range(1, 150); o = r.range(-60, 160); w2 = r.range(1, 150); }
    if (r.irange(0, 3) == 0) o = r.coin() ? w1 : -w2;     // touching at an end point
    v[0] = 0; v[1] = l0; v[2] = 0; v[3] = l0 + w1; v[4] = 0; v[5] = l0 + o; v[6] = 0; v[7] = l0 + o + w2;
    if (r.coin()) std::swap(v[1], v[3]); if (r.coin()) std::swap(v[5], v[7]);
    for (int i : {1, 3, 5, 7}) v[i] = Math::AngNormalize(v[i]); break; }
  case 10: { kind = "coincident-meridian";
    double lon = q20(rlon(r)), l0 = r.irange(-85, 60), w1 = r.irange(1, 100), o = r.irange(-40, 110), w2 = r.irange(1, 100);
    if (r.irange(0, 3) == 0) o = r.coin() ? w1 : -w2;
    auto put = [&](double la, double* o2) { if (la > 90) { o2[0] = 180 - la; o2[1] = Math::AngNormalize(lon + 180); } else if (la < -90) { o2[0] = -180 - la; o2[1] = Math::AngNormalize(lon + 180); } else { o2[0] = la; o2[1] = lon; } };
    put(l0, v); put(l0 + w1, v + 2); put(l0 + o, v + 4); put(l0 + o + w2, v + 6);
    if (r.coin()) { std::swap(v[0], v[2]); std::swap(v[1], v[3]); } if (r.coin()) { std::swap(v[4], v[6]); std::swap(v[5], v[7]); } break; }
  case 11: { kind = "coincident-oblique";                  // Y's end points computed on X's line: coincident to rounding
    double lat = rlat(r), lon = rlon(r), az = razi(r), u = r.range(1e4, lim), t0 = r.range(-0.5 * u, 1.2 * u), t1 = t0 + (r.coin() ? 1 : -1) * r.range(1e3, 0.8 * lim);
    seg(lat, lon, az, 0, u, v); seg(lat, lon, az, t0, t1, v + 4); break; }
  case 12: { kind = "nearpar";
    double lat = rlat(r), lon = rlon(r), az = razi(r), u = r.range(1e4, lim), t0 = r.range(-0.5 * u, u);
    seg(lat, lon, az, 0, u, v);
    double la, lo, a2; g.Line(lat, lon, az).Position(t0, la, lo, a2);
    a2 += (r.coin() ? 1 : -1) * std::pow(10.0, r.range(-9, -2)) + (r.coin() ? 180 : 0);
    seg(la, lo, a2, -r.range(0, 0.4 * lim), r.range(0, 0.4 * lim), v + 4); break; }
  default: { kind = "polar";                               // segments on meridians / through the polar regions
    double lo1 = rlon(r), lo2 = rlon(r);
    v[0] = r.range(20, 89.9); v[1] = lo1; v[2] = r.range(20, 89.9); v[3] = r.coin() ? lo1 : Math::AngNormalize(lo1 + r.range(100, 179));
    v[4] = r.range(20, 89.9); v[5] = lo2; v[6] = r.range(20, 89.9); v[7] = r.coin() ? lo2 : Math::AngNormalize(lo2 + r.range(100, 179));
    if (r.coin()) for (int i : {0, 2, 4, 6}) v[i] = -v[i]; break; }
  }
  Args a; pushEll(a, e); for (int i = 0; i < 8; ++i) a.push_back(hx(v[i]));
  a.push_back(std::to_string(hq));
  gv::stratum("ix:segment-" + kind); gv::stratum("ix:ell-" + ellTag(e));
  gv::run("ix_segment", a);
}

inline void genAll(Rng& r, int hq) {
  Ell e = pickEll(r); Lines L = pickLines(r, e);
  double C = 2 * Math::pi() * e.a, D1 = C * r.range(0.02, 1.25), D2 = D1 * (1 + r.range(0.01, 1));
  if (r.irange(0, 9) == 0) { D1 = C * r.range(0, 0.3); D2 = D1 + C * r.range(0.1, 0.6); }
  double p0x = 0, p0y = 0; bool off = r.irange(0, 2) == 0;
  if (off) { p0x = r.range(-3e7, 3e7); p0y = r.range(-3e7, 3e7); }
  Args a; pushEll(a, e);
  for (double t : {L.latX, L.lonX, L.aziX, L.latY, L.lonY, L.aziY, D1, D2, p0x, p0y}) a.push_back(hx(t));
  a.push_back(std::to_string(hq));
  gv::stratum("ix:all-" + L.kind); gv::stratum(std::string("ix:all-p0-") + (off ? "offset" : "zero")); gv::stratum("ix:ell-" + ellTag(e));
  gv::run("ix_all", a);
}

// stratified generator.  CPU time in the ASan build (-O1): quick ~ 30 s, thorough ~ 6 min per process.
// Strata (#STRATUM ix:<op>-<kind>): closest/all: generic, origin, nearpar, nearpar-origin, coincident,
// coincident-displaced-{equator,meridian,oblique}, polar, equatorial, meridian, near-equatorial, p0-{zero,offset};
// next: generic, nearpar, coincident-{parallel,antiparallel,meridian,equator}, meridian-equator, pole, perpendicular;
// segment: generic, crossing, near-miss, touching, short-far, coincident-{equator,meridian,oblique}, nearpar, polar;
// ellipsoids (ix:ell-*): WGS84, International, f = 1/150, 0 (two radii), +-0.015 (series), WGS84 / +-1/50 / +-1/10 exact.
inline void generate(Rng& r, bool thorough, int K = 1) {
  auto Q = [&](long v) { return std::max<long>(1, v / K); };   // K slices: the orchestrating generate() runs the parts round-robin

  long n = Q(thorough ? 30000 : 16000);
  int hgrid = thorough ? 250000 : 500000;
  for (long i = 0; i < n; ++i) {
    // the brute-force scan on every case of the thorough tier and on a fraction of the quick tier
    auto hq = [&](int every) { return (thorough || r.irange(0, every - 1) == 0) ? hgrid : 0; };
    genClosest(r, hq(2)); if (i < 3) gv::sample(gv::current_op());
    genNext(r, hq(2));
    genSegment(r, hq(2));
    if (i % 2 == 0) genAll(r, hq(3));
  }
}

} // namespace c17isect
