// C13: NaN -> INVALID marker and back (grid codes, UTM/UPS, MGRS), malformed strings to every parser, integer arguments.
#pragma once
#include "C13_entries.hpp"
#include "C13_iso.hpp"
#include <sys/wait.h>
#include <climits>
namespace c13 {
using namespace gv;

// ---- position -> code with non-finite / out-of-range positions --------------------------------------------------
static Reg r_fwd("c13_fwd", [](const Args& a) {
  const std::string& c = a[0]; double p = unhx(a[1]), q = unhx(a[2]); int prec = std::atoi(a[3].c_str());
  std::string s = SS;
  arm(30);
  std::string e = guarded([&] {
    if (c == "geohash") Geohash::Forward(p, q, prec, s); else if (c == "gars") GARS::Forward(p, q, prec, s); else if (c == "georef") Georef::Forward(p, q, prec, s);
    else if (c == "osgb") OSGB::GridReference(p, q, prec, s); else if (c == "mgrs") MGRS::Forward(32, true, p, q, prec, s); else if (c == "mgrsups") MGRS::Forward(0, true, p, q, prec, s);
    else throw std::logic_error("codec"); });
  arm(0);
  emit((e.empty() ? "-" : e) + " " + hs(s == SS ? "" : s) + " w" + (s == SS ? "0" : "1"));
  if (!e.empty() && e != "!E") bad("foreign-exception", c + " Forward threw " + e);
  if (!e.empty() && s != SS) bad("output-modified-on-throw", c + " Forward threw but changed its output string");
  if (e.empty() && (std::isnan(p) || std::isnan(q))) {
    // INVALID -> NaN back
    double x = 1, y = 2; int pr = 0; bool ok = true;
    std::string e2 = guarded([&] {
      if (c == "geohash") Geohash::Reverse(s, x, y, pr); else if (c == "gars") GARS::Reverse(s, x, y, pr); else if (c == "georef") Georef::Reverse(s, x, y, pr);
      else if (c == "osgb") OSGB::GridReference(s, x, y, pr); else { int z; bool n; MGRS::Reverse(s, z, n, x, y, pr); ok = z == UTMUPS::INVALID; } });
    if (!e2.empty() || !std::isnan(x) || !std::isnan(y) || !ok) bad("invalid-roundtrip", c + ": NaN position -> '" + s + "' does not decode back to NaN");
  }
});

static Reg r_utmfwd("c13_utmfwd", [](const Args& a) {
  double lat = unhx(a[0]), lon = unhx(a[1]); int setzone = std::atoi(a[2].c_str()); bool mg = a[3] == "1";
  std::string res; std::string exc; bool touched = false;
  arm(30);
  for (int pass = 0; pass < 2; ++pass) {
    int z = SI + pass; bool n = pass == 1; double o[4] = {1.5e77, 2.5e77, 3.5e77, 4.5e77};
    std::string e = guarded([&] { UTMUPS::Forward(lat, lon, z, n, o[0], o[1], o[2], o[3], setzone, mg); });
    bool t = z != SI + pass || n != (pass == 1) || o[0] != 1.5e77 || o[1] != 2.5e77 || o[2] != 3.5e77 || o[3] != 4.5e77;
    if (pass == 0) { exc = e; res = std::to_string(z) + " " + hx(o[0]) + " " + hx(o[1]) + " " + hx(o[2]) + " " + hx(o[3]); }
    touched = touched || t;
  }
  arm(0);
  emit((exc.empty() ? "-" : exc) + " " + res + " w" + (touched ? "1" : "0"));
  if (!exc.empty() && exc != "!E") bad("foreign-exception", "UTMUPS::Forward threw " + exc);
  if (!exc.empty() && touched) bad("output-modified-on-throw", "UTMUPS::Forward threw but modified zone/northp/x/y/gamma/k");
});

static Reg r_utmrev("c13_utmrev", [](const Args& a) {
  int zone = std::atoi(a[0].c_str()); bool northp = a[1] == "1"; double x = unhx(a[2]), y = unhx(a[3]); bool mg = a[4] == "1";
  double o[4] = {1.5e77, 2.5e77, 3.5e77, 4.5e77};
  arm(30);
  std::string e = guarded([&] { UTMUPS::Reverse(zone, northp, x, y, o[0], o[1], o[2], o[3], mg); });
  arm(0);
  bool t = o[0] != 1.5e77 || o[1] != 2.5e77 || o[2] != 3.5e77 || o[3] != 4.5e77;
  emit((e.empty() ? "-" : e) + " " + hx(o[0]) + " " + hx(o[1]) + " w" + (t ? "1" : "0"));
  if (!e.empty() && e != "!E") bad("foreign-exception", "UTMUPS::Reverse threw " + e);
  if (!e.empty() && t) bad("output-modified-on-throw", "UTMUPS::Reverse threw but modified its outputs");
});

// UTMUPS::Transfer: every way of throwing (bad zone, Reverse failing, Forward failing, the late UPS hemisphere test) must leave
// zone / xout / yout untouched, also when xout, yout alias xin, yin (documented)
static Reg r_utmtransfer("c13_utmtransfer", [](const Args& a) {
  int zonein = std::atoi(a[0].c_str()); bool northpin = a[1] == "1"; double xin = unhx(a[2]), yin = unhx(a[3]); int zoneout = std::atoi(a[4].c_str()); bool northpout = a[5] == "1";
  double o[2] = {1.5e77, 2.5e77}; int z = SI;
  arm(30);
  std::string e = guarded([&] { UTMUPS::Transfer(zonein, northpin, xin, yin, zoneout, northpout, o[0], o[1], z); });
  double ax = xin, ay = yin; int z2 = SI;
  std::string e2 = guarded([&] { UTMUPS::Transfer(zonein, northpin, ax, ay, zoneout, northpout, ax, ay, z2); });   // aliased call
  arm(0);
  bool t = o[0] != 1.5e77 || o[1] != 2.5e77 || z != SI;
  bool t2 = !e2.empty() && (bits(ax) != bits(xin) || bits(ay) != bits(yin) || z2 != SI);
  emit((e.empty() ? "-" : e) + " " + hx(o[0]) + " " + hx(o[1]) + " w" + (t ? "1" : "0"));
  if (!e.empty() && e != "!E") bad("foreign-exception", "UTMUPS::Transfer threw " + e);
  if (!e.empty() && t) bad("output-modified-on-throw", "UTMUPS::Transfer threw but modified zone/xout/yout");
  if (t2) bad("output-modified-on-throw", "UTMUPS::Transfer (xout, yout aliasing xin, yin) threw but modified its arguments");
  if (e.empty() != e2.empty()) bad("nondeterministic", "UTMUPS::Transfer aliased and non-aliased calls disagree on throwing");
});

// ---- code -> position --------------------------------------------------------------------------------------------
static Reg r_rev("c13_rev", [](const Args& a) {
  const std::string& c = a[0]; std::string s = unhs(a[1]); bool cp = a[2] == "1";
  double x = 1.5e77, y = 2.5e77; int p = SI, z = SI; bool n = false, touched = false; std::string exc;
  arm(30);
  for (int pass = 0; pass < 2; ++pass) {
    x = 1.5e77; y = 2.5e77; p = SI; z = SI; n = pass == 1;
    std::string e = guarded([&] {
      if (c == "geohash") Geohash::Reverse(s, x, y, p, cp); else if (c == "gars") GARS::Reverse(s, x, y, p, cp); else if (c == "georef") Georef::Reverse(s, x, y, p, cp);
      else if (c == "osgb") OSGB::GridReference(s, x, y, p, cp); else if (c == "mgrs") MGRS::Reverse(s, z, n, x, y, p, cp);
      else if (c == "zone") UTMUPS::DecodeZone(s, z, n); else throw std::logic_error("codec"); });
    if (pass == 0) exc = e;
    touched = touched || x != 1.5e77 || y != 2.5e77 || p != SI || z != SI || n != (pass == 1);
  }
  arm(0);
  emit((exc.empty() ? "-" : exc) + " " + hx(x) + " " + hx(y) + " " + std::to_string(p) + " " + std::to_string(z) + " w" + (touched ? "1" : "0"));
  if (!exc.empty() && exc != "!E") bad("foreign-exception", c + " Reverse threw " + exc);
  if (!exc.empty() && touched) bad("output-modified-on-throw", c + " Reverse threw but modified its outputs");
});

// ---- other parsers: only the structural contract (GeographicErr or a result; outputs untouched on throw) ------------
static Reg r_parse("c13_parse", [](const Args& a) {
  const std::string& f = a[0]; std::string s = unhs(a[1]), s2 = a.size() > 2 ? unhs(a[2]) : std::string();
  bool touched = false; std::string exc, val;
  arm(30);
  for (int pass = 0; pass < 2; ++pass) {
    double x = 1.5e77, y = 2.5e77; int i1 = SI, i2 = SI + 1, i3 = SI + 2; DMS::flag fl = pass ? DMS::LATITUDE : DMS::NUMBER; std::string k = SS, v = SS; bool b = pass == 1;
    std::string e = guarded([&] {
      if (f == "DMS.Decode") { double r = DMS::Decode(s, fl); x = r; }
      else if (f == "DMS.DecodeLatLon") DMS::DecodeLatLon(s, s2, x, y, b);
      else if (f == "DMS.DecodeAngle") { double r = DMS::DecodeAngle(s); x = r; }
      else if (f == "DMS.DecodeAzimuth") { double r = DMS::DecodeAzimuth(s); x = r; }
      else if (f == "GeoCoords") { GeoCoords c(s, b, !b); (void)c.MGRSRepresentation(-1); (void)c.UTMUPSRepresentation(); (void)c.DMSRepresentation(); double r = c.Latitude(); x = r; }
      else if (f == "GeoCoords.Reset") { GeoCoords c(10.0, 20.0); Fin fin{[&] { if (c.Latitude() != 10.0 || c.Longitude() != 20.0) { x = c.Latitude(); } }}; c.Reset(s, b, !b); }
      else if (f == "Utility.val") { double r = Utility::val<double>(s); x = r; }
      else if (f == "Utility.vali") { int r = Utility::val<int>(s); i1 = r; }
      else if (f == "Utility.fract") { double r = Utility::fract<double>(s); x = r; }
      else if (f == "Utility.nummatch") { double r = Utility::nummatch<double>(s); x = r; }
      else if (f == "Utility.date") Utility::date(s, i1, i2, i3);
      else if (f == "Utility.fractionalyear") { double r = Utility::fractionalyear<double>(s); x = r; }
      else if (f == "Utility.ParseLine") { bool r = Utility::ParseLine(s, k, v); (void)r; }
      else if (f == "Utility.ParseLine4") { bool r = Utility::ParseLine(s, k, v, '=', '%'); (void)r; }
      else if (f == "Utility.trim") { std::string r = Utility::trim(s); (void)r; }
      else if (f == "Utility.valb") { bool r = Utility::val<bool>(s); (void)r; }
      else if (f == "Utility.valf") { float r = Utility::val<float>(s); x = r; }
      else if (f == "Utility.vall") { long double r = Utility::val<long double>(s); x = double(r); }
      else if (f == "Utility.lookup") { int r = Utility::lookup(s2, s.empty() ? '\0' : s[0]); i1 = r; }
      else if (f == "Utility.lookupc") { int r = Utility::lookup(s2.c_str(), s.empty() ? '\0' : s[0]); i1 = r; }
      else if (f == "Utility.readarray") {            // binary image of doubles, as the coefficient files are read: first byte = number of elements asked for
        std::istringstream is(s.size() > 1 ? s.substr(1) : std::string(), std::ios::binary); std::vector<double> arr(s.empty() ? 0 : size_t((unsigned char)s[0]) % 9, 7.5e77);
        Fin fin{[&] { for (double t : arr) if (t != 7.5e77) x = t; }};
        if (!arr.empty()) {
          Utility::readarray<double, double, false>(is, arr);
          // what was read is written back byte for byte (writearray is the inverse; NaN payloads included)
          std::ostringstream os(std::ios::binary); Utility::writearray<double, double, false>(os, arr.data(), arr.size());
          if (os.str() != s.substr(1, 8 * arr.size())) bad("array-roundtrip", "Utility::writearray(readarray(bytes)) differs from the bytes read");
        } }
      else if (f == "MGRS.Decode") { std::string gz = SS, bl = SS, ea = SS, no = SS; Fin fin{[&] { if (gz != SS || bl != SS || ea != SS || no != SS) k = gz + bl + ea + no; }}; MGRS::Decode(s, gz, bl, ea, no); }
      else throw std::logic_error("parser"); });
    if (pass == 0) { exc = e; val = hx(x); }
    bool parseline = f.compare(0, 17, "Utility.ParseLine") == 0 || f == "Utility.readarray";
    // (the two passes differ in their boolean arguments, so each pass is judged on its own: outputs changed by a pass that threw)
    if (!e.empty())
      touched = touched || x != 1.5e77 || y != 2.5e77 || i1 != SI || i2 != SI + 1 || i3 != SI + 2 || fl != (pass ? DMS::LATITUDE : DMS::NUMBER) || (!parseline && (k != SS || v != SS));
    if (!e.empty() && e != "!E" && e != "!A") bad("foreign-exception", f + " threw " + e + " on " + hs(s));
  }
  arm(0);
  emit((exc.empty() ? "-" : exc) + " " + val + " w" + (touched ? "1" : "0"));
  if (touched) bad("output-modified-on-throw", f + " threw but modified its outputs on " + hs(s));
});

// ---- integer arguments ----------------------------------------------------------------------------------------------
static Reg r_int("c13_int", [](const Args& a) {
  const std::string& f = a[0]; long long v = std::atoll(a[1].c_str()); int i = int(v);
  std::string s = SS; double x = 1.5e77, y = 2.5e77, g = 3.5e77, k = 4.5e77; int z = SI; bool n = false; int i1 = SI, i2 = SI, i3 = SI;
  arm(30);
  std::string e = guarded([&] {
    if (f == "Geohash.Forward") Geohash::Forward(40, 10, i, s);
    else if (f == "Geohash.Resolution") { double r = Geohash::LatitudeResolution(i) + Geohash::LongitudeResolution(i) + Geohash::DecimalPrecision(i); x = r; }
    else if (f == "GARS.Forward") GARS::Forward(40, 10, i, s);
    else if (f == "Georef.Forward") Georef::Forward(40, 10, i, s);
    else if (f == "OSGB.GridReference") OSGB::GridReference(4e5, 3e5, i, s);
    else if (f == "MGRS.ForwardPrec") MGRS::Forward(32, true, 5e5, 4.4e6, i, s);
    else if (f == "MGRS.ForwardZone") MGRS::Forward(i, true, 5e5, 4.4e6, 5, s);
    else if (f == "UTMUPS.ForwardSetzone") UTMUPS::Forward(40, 10, z, n, x, y, g, k, i);
    else if (f == "UTMUPS.ReverseZone") UTMUPS::Reverse(i, true, 5e5, 4.4e6, x, y, g, k);
    else if (f == "UTMUPS.TransferZone") UTMUPS::Transfer(32, true, 5e5, 4.4e6, i, true, x, y, z);
    else if (f == "UTMUPS.EncodeZone") { std::string r = UTMUPS::EncodeZone(i, true); s = r; }
    else if (f == "UTMUPS.EncodeEPSG") { int r = UTMUPS::EncodeEPSG(i, true); i1 = r; }
    else if (f == "UTMUPS.DecodeEPSG") UTMUPS::DecodeEPSG(i, z, n);
    else if (f == "UTMUPS.StandardZone") { int r = UTMUPS::StandardZone(40, 10, i); i1 = r; }
    else if (f == "GeoCoords.SetAltZone") { GeoCoords c(40.0, 10.0); c.SetAltZone(i); x = c.AltEasting(); }
    else if (f == "GeoCoords.Zone") { GeoCoords c(40.0, 10.0, i); x = c.Easting(); }
    else if (f == "DMS.EncodePrec") { std::string r = DMS::Encode(40.123, DMS::SECOND, unsigned(i), DMS::LATITUDE) + DMS::Encode(40.123, unsigned(i)); s = r; }
    else if (f == "Utility.strPrec") { std::string r = Utility::str(40.123, i); s = r; }
    else if (f == "Utility.day") { int r = Utility::day(i, 2, 3); i1 = r; }
    else if (f == "Utility.dayCheck") { int r = Utility::day(i, 2, 3, true); i1 = r; }
    else if (f == "Utility.dayMonth") { int r = Utility::day(2000, i, 3); i1 = r; }
    else if (f == "Utility.dateInt") Utility::date(i, i1, i2, i3);
    else if (f == "Utility.dow") { int r = Utility::dow(i); i1 = r; }
    else if (f == "PolygonArea.AddPointN") { PolygonArea p(GS()); for (int j = 0; j < (i & 63); ++j) p.AddPoint(j, 2 * j); double r = p.Compute(false, true, x, y); (void)r; }
    else if (f == "DST.N") { DST d(i); i1 = d.N(); if (d.N() > 0 && d.N() <= 64) { std::vector<double> F(size_t(d.N())); d.transform([](double t) { return std::sin(t); }, F.data()); x = F[0]; } }
    else if (f == "Geoid.stub") { }
    else throw std::logic_error("function"); });
  arm(0);
  bool touched = s != SS || x != 1.5e77 || y != 2.5e77 || g != 3.5e77 || k != 4.5e77 || z != SI || i1 != SI || i2 != SI || i3 != SI;
  emit((e.empty() ? "-" : e) + " w" + (touched ? "1" : "0"));
  if (!e.empty() && e != "!E" && e != "!A") bad("foreign-exception", f + " threw " + e);
  if (!e.empty() && touched) bad("output-modified-on-throw", f + " threw but modified its outputs");
});

// ---- default-constructed objects: usable (NaN / empty results), never a crash or a foreign exception --------------------------------
static Reg r_default("c13_default", [](const Args& a) {
  const std::string& c = a[0]; double x = 1.5e77, y = 2.5e77, z = 3.5e77, w = 4.5e77;
  arm(30);
  std::string e = guarded([&] {
    if (c == "GeodesicLine") { GeodesicLine l; (void)l.Position(1e6, x, y, z); l.ArcPosition(9, x, y); (void)l.Init(); (void)l.Latitude(); }
    else if (c == "GeodesicLineExact") { GeodesicLineExact l; (void)l.Position(1e6, x, y, z); l.ArcPosition(9, x, y); (void)l.Init(); }
    else if (c == "GeoCoords") { GeoCoords g; x = g.Latitude(); y = g.Easting(); (void)g.Zone(); (void)g.GeoRepresentation(); (void)g.MGRSRepresentation(); (void)g.UTMUPSRepresentation(); (void)g.AltEasting(); }
    else if (c == "Geocentric") { Geocentric g; (void)g.Init(); }
    else if (c == "NormalGravity") { NormalGravity g; (void)g.Init(); }
    else if (c == "CircularEngine") { CircularEngine g; x = g(10.0); y = g(10.0, z, w, x); x = g(0.6, 0.8); }
    else if (c == "SphericalHarmonic") { SphericalHarmonic h; x = h(4e6, 1e6, 4.5e6); y = h(4e6, 1e6, 4.5e6, z, w, x); CircularEngine ce = h.Circle(4.2e6, 4.5e6, true); x = ce(10.0); }
    else if (c == "SphericalHarmonic1") { SphericalHarmonic1 h; x = h(0.5, 4e6, 1e6, 4.5e6); CircularEngine ce = h.Circle(0.5, 4.2e6, 4.5e6, true); y = ce(10.0); }
    else if (c == "SphericalHarmonic2") { SphericalHarmonic2 h; x = h(0.5, 0.25, 4e6, 1e6, 4.5e6); CircularEngine ce = h.Circle(0.5, 0.25, 4.2e6, 4.5e6, true); y = ce(10.0); }
    else if (c == "SphericalEngine.coeff") { SphericalEngine::coeff k; x = k.N() + k.nmx() + k.mmx(); }
    else if (c == "GravityCircle") { GravityCircle g; (void)g.Init(); }
    else if (c == "MagneticCircle") { MagneticCircle g; (void)g.Init(); }
    else if (c == "NearestNeighbor") { NearestNeighbor<double, double, std::function<double(const double&, const double&)>> n; std::vector<double> pts; std::vector<int> ind;
                                       x = n.Search(pts, [](const double& p, const double& q) { return std::fabs(p - q); }, 1.0, ind); (void)n.NumPoints(); }
    else throw std::logic_error("class"); });
  arm(0);
  emit(e.empty() ? "-" : e);
  if (!e.empty() && e != "!E" && e != "!A") bad("foreign-exception", "default-constructed " + c + ": " + e);
});

// ---- generators ----------------------------------------------------------------------------------------------------------
inline std::string mutate_text(Rng& r, std::string s, const std::string& alpha) {
  int nm = r.irange(1, 3);
  for (int k = 0; k < nm; ++k) {
    int what = r.irange(0, 6);
    char c = r.irange(0, 5) ? alpha[size_t(r.irange(0, int(alpha.size()) - 1))] : char(r.pick(std::vector<int>{0, 0x80, 0xff, 0xb0, 0xc2, 9, 10, 127, 1}));
    if (s.empty() || what == 0) s.insert(s.begin() + r.irange(0, int(s.size())), c);
    else if (what == 1) s.erase(s.begin() + r.irange(0, int(s.size()) - 1));
    else if (what == 2) s[size_t(r.irange(0, int(s.size()) - 1))] = c;
    else if (what == 3) s = s.substr(0, size_t(r.irange(0, int(s.size()))));
    else if (what == 4) { size_t p = size_t(r.irange(0, int(s.size()))); s.insert(p, r.pick(std::vector<std::string>{"9999999999", ":", "::", "nan", "inf", "1e999", "-", "+", "d", "'", "\"", ".", "e", " ", "00000000000000000000", "4294967296", "2147483648"})); }
    else if (what == 5) { size_t p = size_t(r.irange(0, int(s.size()) - 1)); s += s.substr(p); }
    else std::swap(s[size_t(r.irange(0, int(s.size()) - 1))], s[size_t(r.irange(0, int(s.size()) - 1))]);
  }
  return s;
}

static const double DINF = std::numeric_limits<double>::infinity();
inline void gen_text(Rng& r, bool thorough) {
  const double NaN = std::nan("");
  // 1. NaN / inf / out-of-range positions to every encoder
  std::vector<double> sp = {NaN, DINF, -DINF, 1e308, -1e308, 91, -91, 90, -90, 180, -180, 540, 1e17, 0.0, -0.0, 5e-324, -5e-324, -1e-323, -1e-300, 40, 10, 4e5, 3e5, 5e5, 4.4e6, 2e6};
  for (const char* c : {"geohash", "gars", "georef", "osgb", "mgrs", "mgrsups"}) {
    bool grid = std::string(c) == "osgb" || std::string(c).compare(0, 4, "mgrs") == 0;
    double b0 = grid ? (std::string(c) == "osgb" ? 4e5 : std::string(c) == "mgrs" ? 5e5 : 2e6) : 40, b1 = grid ? (std::string(c) == "osgb" ? 3e5 : std::string(c) == "mgrs" ? 4.4e6 : 2e6) : 10;
    for (double v : sp) for (int pos = 0; pos < 3; ++pos) {
      stratum(std::isnan(v) ? "invalid-marker-nan" : "encoder-special");
      int prec = r.pick(std::vector<int>{0, 1, 2, 5, 11, -1, 12});
      double p0 = pos != 1 ? v : b0, p1 = pos != 0 ? v : b1; Args a{c, hx(p0), hx(p1), std::to_string(prec)};
      bool f25 = !grid && std::isinf(p1) && !(std::fabs(p0) > 90) && !std::isnan(p0), f26 = std::string(c) == "osgb" && ((!(std::fabs(p0) < 2e12) && !std::isnan(p0)) || (!(std::fabs(p1) < 2e12) && !std::isnan(p1)));
      bool f33 = std::string(c) == "mgrs" && p1 < 0 && p1 > -1e-318;
      if (f25 || f26 || f33) { stratum("encoder-special-isolated-known-ub"); run_isolated("c13_fwd", a); } else runx("c13_fwd", a);
    }
  }
  for (double lat : {NaN, DINF, -DINF, 91.0, -91.0, 90.0, -90.0, 40.0, 85.0, -85.0, 0.0, -0.0, 1e308, 84.0, -80.0, 10.0, -81.5, 86.0})
    for (double lon : {NaN, DINF, -DINF, 10.0, 180.0, -180.0, 540.0, 1e17, 1e308, 100.0, 40.0})
      for (int sz : {-1, -2, -3, -4, 0, 31, 60, 61, -5, 33}) { if (r.irange(0, thorough ? 0 : 2)) continue; stratum("utmups-forward-special"); runx("c13_utmfwd", {hx(lat), hx(lon), std::to_string(sz), r.coin() ? "1" : "0"}); }
  // late rejections with a legal position (the class of C13B): far from the central meridian, wrong projection, MGRS limits
  for (int it = 0; it < (thorough ? 400 : 60); ++it) {
    double lat = r.pick(std::vector<double>{10, -10, 40, 60, -81.5, 86, 83.9, -79.9, 0.5, 69, -69, 84.5}), lon = r.range(-180, 180); int sz = r.pick(std::vector<int>{0, -2, -3, r.irange(1, 60), r.irange(1, 60)});
    stratum("utmups-forward-late-reject"); runx("c13_utmfwd", {hx(lat), hx(lon), std::to_string(sz), r.coin() ? "1" : "0"});
  }
  for (int it = 0; it < (thorough ? 300 : 60); ++it) {
    int zone = r.pick(std::vector<int>{-4, -3, -2, -1, 0, 1, 31, 60, 61, 100, INT_MAX, INT_MIN}); double x = r.pick(std::vector<double>{NaN, DINF, -DINF, 5e5, 0, 1e6, 1e308, -1e5, 2e6, 9e5, 1e5}), y = r.pick(std::vector<double>{NaN, DINF, -DINF, 4.4e6, 0, 1e7, 1e308, -1, 2e6, 9.6e6});
    stratum("utmups-reverse-special"); runx("c13_utmrev", {std::to_string(zone), r.coin() ? "1" : "0", hx(x), hx(y), r.coin() ? "1" : "0"});
  }
  // Transfer between zones / projections / hemispheres: legal source positions whose target is rejected late (wrong UPS hemisphere,
  // too far from the target zone), illegal zones, NaN
  for (int it = 0; it < (thorough ? 2000 : 300); ++it) {
    int zin = r.pick(std::vector<int>{0, 0, 31, 32, 60, 1, r.irange(1, 60), -1, 61}); bool nin = r.coin();
    double x = zin == 0 ? r.pick(std::vector<double>{2e6, 1.5e6, 2.5e6, 1.2e6, 2.9e6, NaN}) : r.pick(std::vector<double>{5e5, 2e5, 8e5, 1e5, 9e5, 4.9e5, NaN, DINF});
    double y = zin == 0 ? r.pick(std::vector<double>{2e6, 1.4e6, 2.6e6, 9e5, 3.1e6}) : r.pick(std::vector<double>{9.4e6, 9.2e6, 4.4e6, 0.0, 1e7, 5e5, 9.9e6, 1e5, 8.9e6, -1e5, NaN});
    int zout = r.pick(std::vector<int>{0, 0, -1, -2, -3, -4, zin, zin + 1, r.irange(1, 60), 61, -5}); bool nout = r.coin();
    stratum("utmups-transfer"); runx("c13_utmtransfer", {std::to_string(zin), nin ? "1" : "0", hx(x), hx(y), std::to_string(zout), nout ? "1" : "0"});
  }
  // 2. decoders: INVALID forms, encoder outputs and their mutations
  struct D { const char* c; std::vector<std::string> seeds; std::string alpha; };
  const std::vector<D> ds = {
    {"geohash", {"u1hb1g0cfdce", "invalid", "INV", "nan", "NaN", "ezs42", "u", ""}, "0123456789bcdefghjkmnpqrstuvwxyzailo INVAD"},
    {"gars", {"380LN21", "INVALID", "inv", "001AA", "720QZ49", "380LN", ""}, "0123456789ABCDEFGHJKLMNPQRSTUVWXYZIO inv"},
    {"georef", {"NKLN0000000000", "INVALID", "inv", "NK", "NKLN", "NKLN12", "AAAA", ""}, "0123456789ABCDEFGHJKLMNPQRSTUVWXYZIO inv"},
    {"osgb", {"SO 0000 0000", "INVALID", "in", "SO", "SO00", "TQ1234567890", "HP", ""}, "0123456789ABCDEFGHJKLMNOPQRSTUVWXYZI inv"},
    {"mgrs", {"32TNK0000000000", "INVALID", "inv", "32T", "32TNK", "BAN0000", "ZAH", "A", "60XWG9999999999", "63155000019S", ""}, "0123456789ABCDEFGHJKLMNPQRSTUVWXYZIO inv"},
    {"zone", {"32n", "32north", "0s", "south", "n", "inv", "invalid", "60S", "61n", "-1n", "+5n", " 5n", "005n", "5", ""}, "0123456789nsorthuiv+- NS"},
  };
  for (auto& d : ds) {
    for (auto& s : d.seeds) { stratum("decoder-seed"); runx("c13_rev", {d.c, hs(s), "1"}); runx("c13_rev", {d.c, hs(s), "0"}); }
    for (int it = 0; it < (thorough ? 1500 : 150); ++it) { stratum("decoder-mutated"); runx("c13_rev", {d.c, hs(mutate_text(r, r.pick(d.seeds), d.alpha)), r.coin() ? "1" : "0"}); }
  }
  // 3. the other parsers
  struct P { const char* f; std::vector<std::string> seeds; std::string alpha; bool two; };
  const std::string dmsalpha = "0123456789dDmMsS:'\"+-.eEnNwWsSaAiIfF \xb0\xc2\xe2\x80\xb2\xb3";
  const std::vector<P> ps = {
    {"DMS.Decode", {"40d26'47\"N", "40:26:47", "-73.5", "1:2:3:4:5", "1d2'3\":4", "4d0'9.9\"W", "nan", "inf", "-inf", "1e3", "40d", "0:0:60", "", "+", "N", "1:2:3:", "1::2", "1d2m3s", "1d2'3\"4", "70W"}, dmsalpha, false},
    {"DMS.DecodeLatLon", {"40d26'47\"N", "73W", "40", "-73", "nan", "91", "181", "40N", "40S", "40E"}, dmsalpha, true},
    {"DMS.DecodeAngle", {"40d26'47\"", "-1:30", "40N", "nan", "1e999"}, dmsalpha, false},
    {"DMS.DecodeAzimuth", {"40d26'47\"", "-1:30", "40E", "40N", "nan", "181", "-181"}, dmsalpha, false},
    {"GeoCoords", {"33N 500000 4000000", "40:30N 10W", "32TNK0000000000", "40 10", "n 2000000 2000000", "INV", "nan nan", "32 500000 4000000", "", "1 2 3 4", "33N nan nan", "0n 2e6 2e6", "61N 500000 4000000"}, "0123456789nNsSeEwW: .-+dTKinva", false},
    {"GeoCoords.Reset", {"33N 500000 4000000", "40:30N 10W", "32TNK0000000000", "bad", "91 0"}, "0123456789nNsSeEwW: .-+dTK", false},
    {"Utility.val", {"1.5", "nan", "inf", "-inf", "1e999", "0x10", " 7 ", "1 2", "", "+", "infinity", "NaN", "1e-400"}, "0123456789.eE+-naifNAIF x", false},
    {"Utility.vali", {"15", "-3", "2147483647", "2147483648", "99999999999999999999", "1.5", "", "0x10"}, "0123456789+-. x", false},
    {"Utility.fract", {"1/298.257", "1/0", "0/0", "1/", "/2", "nan/1", "1/2/3", "3", "1e999/1e999"}, "0123456789./eE+-n ", false},
    {"Utility.nummatch", {"nan", "inf", "-inf", "+infinity", "n", "", "-", "infi", "NAN", "-nan"}, "naifNAIFty+- ", false},
    {"Utility.date", {"2020-01-01", "2020-13-45", "2020", "2020-1", "now", "-1-1-1", "2020--1", "2020-", "-", "1-2-3-4", "99999-1-1", "2020-01-99999999999"}, "0123456789-now ", false},
    {"Utility.fractionalyear", {"2020.5", "2020-07-01", "2020-02-30", "0-1-1", "1752-09-10", "now", "2020-1", "nan", "x", "99999-1-1", "0001-01-01"}, "0123456789-.now ", false},
    {"Utility.ParseLine", {"key value # comment", "  key   ", "#", "", "key\tvalue", "  # x", "key=value"}, "kev #=\t%\r\n", false},
    {"Utility.ParseLine4", {"key=value % comment", "=", "%", "a=b=c", "", " = "}, "kev #=\t%\r\n", false},
    {"Utility.trim", {"  a  ", "", "   ", "\t\n"}, " a\t\n\xff", false},
    {"Utility.valb", {"true", "false", "1", "0", "yes", "t", "T", "nil", "#f", ""}, "truefalsyno01#TFN ", false},
    {"Utility.valf", {"1.5", "nan", "inf", "1e39", "1e-46", "3.4028235e38", "", "x"}, "0123456789.eE+-naif x", false},
    {"Utility.vall", {"1.5", "nan", "inf", "1e4933", "1e-4951", "", "x"}, "0123456789.eE+-naif x", false},
    {"Utility.lookup", {"a", "A", "z", "", "0", "\xff"}, "abcABC019 \xff", true},
    {"Utility.lookupc", {"a", "A", "z", "", "0"}, "abcABC019 ", true},
    {"MGRS.Decode", {"32TNK0000000000", "32TNK", "32T", "BAN0000", "A", "INVALID", "inv", "63155000019S", "32TNK000000000", "32TNK00A00", "", "60XWG9999999999", "0TNK", "32"}, "0123456789ABCDEFGHJKLMNPQRSTUVWXYZIO inv", false},
  };
  // binary array reads from streams that end early (the primitive under the coefficient-file readers)
  for (int it = 0; it < (thorough ? 400 : 60); ++it) {
    int want = r.irange(0, 8), have = r.irange(0, 8 * 9); std::string s(1, char(want)); for (int i = 0; i < have; ++i) s += char(r.next());
    stratum(have >= 8 * want ? "readarray-complete" : "readarray-truncated"); runx("c13_parse", {"Utility.readarray", hs(s)});
  }
  for (auto& p : ps) {
    for (auto& s : p.seeds) { stratum("parser-seed"); Args a{p.f, hs(s)}; if (p.two) a.push_back(hs(r.pick(p.seeds))); runx("c13_parse", a); }
    for (int it = 0; it < (thorough ? 2500 : 250); ++it) {
      stratum("parser-mutated"); std::string s = mutate_text(r, r.pick(p.seeds), p.alpha);
      // years beyond 214748 overflow `int` in Utility::day (open finding F15): that class is run isolated, below
      if (std::string(p.f).compare(0, 8, "Utility.") == 0 && (std::string(p.f) == "Utility.fractionalyear" || std::string(p.f) == "Utility.date")) {
        // any numeric field of six or more digits (year, month or day) can overflow the int calendar arithmetic
        int run = 0, longest = 0; for (char ch : s) { run = (ch >= '0' && ch <= '9') ? run + 1 : 0; longest = std::max(longest, run); }
        if (longest >= 6) { stratum("parser-date-huge-field"); run_isolated("c13_parse", {p.f, hs(s)}); continue; }
      }
      Args a{p.f, hs(s)}; if (p.two) a.push_back(hs(mutate_text(r, r.pick(p.seeds), p.alpha)));
      runx("c13_parse", a);
    }
  }
  // 3b. default-constructed objects
  for (const char* c : {"GeodesicLine", "GeodesicLineExact", "GeoCoords", "Geocentric", "NormalGravity", "CircularEngine", "SphericalHarmonic", "SphericalHarmonic1", "SphericalHarmonic2",
                        "SphericalEngine.coeff", "GravityCircle", "MagneticCircle", "NearestNeighbor"}) { stratum("default-constructed"); runx("c13_default", {c}); }
  // 4. integer arguments
  const std::vector<long long> ints = {INT_MIN, INT_MIN + 1, -1000000, -1000, -5, -4, -3, -2, -1, 0, 1, 2, 3, 5, 11, 12, 13, 18, 19, 31, 32, 59, 60, 61, 100, 1000, 32600, 32661, 32761, 32701, 32760, 65536, 214748, INT_MAX - 1, INT_MAX};
  for (const char* f : {"Geohash.Forward", "Geohash.Resolution", "GARS.Forward", "Georef.Forward", "OSGB.GridReference", "MGRS.ForwardPrec", "MGRS.ForwardZone", "UTMUPS.ForwardSetzone", "UTMUPS.ReverseZone", "UTMUPS.TransferZone",
                        "UTMUPS.EncodeZone", "UTMUPS.EncodeEPSG", "UTMUPS.DecodeEPSG", "UTMUPS.StandardZone", "GeoCoords.SetAltZone", "GeoCoords.Zone", "PolygonArea.AddPointN"})
    for (long long v : ints) { stratum("int-argument"); runx("c13_int", {f, std::to_string(v)}); }
  // DST(N): sizes beyond a few million are allocations of gigabytes (2N complex twiddles) and are not exercised -- since the repair of F81
  // (416ecc1: the size is computed in size_t) N >= 2^30 is such a request (32 GB) instead of an int overflow
  for (long long v : {-2147483648LL, -1000LL, -1LL, 0LL, 1LL, 2LL, 3LL, 4LL, 5LL, 6LL, 7LL, 16LL, 60LL, 64LL, 1000LL, 65536LL}) { stratum("int-argument"); runx("c13_int", {"DST.N", std::to_string(v)}); }
  for (long long v : {0LL, 1LL, 5LL, 15LL, 16LL, 20LL, 100LL, 1000LL}) { stratum("int-argument"); runx("c13_int", {"DMS.EncodePrec", std::to_string(v)}); runx("c13_int", {"Utility.strPrec", std::to_string(v)}); }
  for (const char* f : {"Utility.day", "Utility.dayCheck", "Utility.dayMonth", "Utility.dateInt", "Utility.dow"})
    for (long long v : ints) {
      bool huge = v > 200000 || v < -200000;      // F15 class: int overflow in the calendar arithmetic
      stratum(huge ? "int-argument-date-huge" : "int-argument");
      if (huge) run_isolated("c13_int", {f, std::to_string(v)}); else runx("c13_int", {f, std::to_string(v)});
    }
  // F15 witness and neighbours (isolated)
  for (const char* s : {"15000004-1-1", "214748-1-1", "214749-1-1", "1500000-1-1", "2147483647-1-1", "99999999-12-31"}) { stratum("parser-date-huge-year"); run_isolated("c13_parse", {"Utility.fractionalyear", hs(s)}); run_isolated("c13_parse", {"Utility.date", hs(s)}); }
}
} // namespace c13
