// C09: rhumb lines — direct, inverse, area; divided-difference kernels; pole handling
#include "common.hpp"
#include "C09_oracle.hpp"
#include <GeographicLib/Rhumb.hpp>
#include <GeographicLib/DAuxLatitude.hpp>
#include <GeographicLib/Math.hpp>
#include <memory>
#include <iostream>
#include <string>
#include <sstream>
#include <fstream>
#include <GeographicLib/DMS.hpp>
#include <GeographicLib/Utility.hpp>
// the command-line front end (observe_at: tools/RhumbSolve) compiled from the current $GV_REPO/tools/RhumbSolve.cpp into this
// harness, as harness/C10.cpp / harness/C02.cpp do (tools/props.d/C09.py makes the harness cache key depend on its text)
namespace tool_rhumbsolve {
#include "../tools/RhumbSolve.cpp"
}
using namespace GeographicLib; using namespace gv;
typedef long double LD;
static const double aW = 6378137.0, fW = 1 / 298.257223563;
static const double EPS = std::numeric_limits<double>::epsilon();

// ---- cached library objects and oracle ellipsoids -------------------------------------------------------------
static const Rhumb& rh(double a, double f, bool exact) {
  static std::map<std::tuple<double, double, bool>, std::unique_ptr<Rhumb>> m;
  auto k = std::make_tuple(a, f, exact); auto it = m.find(k);
  if (it == m.end()) it = m.emplace(k, std::make_unique<Rhumb>(a, f, exact)).first;
  return *it->second;
}
static const rho::Ell& el(double a, double f) {
  static std::map<std::pair<double, double>, std::unique_ptr<rho::Ell>> m;
  auto k = std::make_pair(a, f); auto it = m.find(k);
  if (it == m.end()) it = m.emplace(k, std::make_unique<rho::Ell>((LD)a, (LD)f)).first;
  return *it->second;
}
static std::string num(LD x) { char b[64]; std::snprintf(b, sizeof b, "%.17Lg", x); return b; }

// documented accuracy: "the error is about 10 nanometers" (RhumbSolve(1), doc page "rhumb") for terrestrial paths; x4, scaled
// with the size of the ellipsoid and with the path length beyond 10 000 km, never below 4 ulp of the output
static double tol_len(double a, double s12) { return 4 * 10e-9 * (a / aW) * std::fmax(1.0, std::fabs(s12) / (1e7 * a / aW)); }
// series solver away from terrestrial flattenings: the 6th-order auxiliary-latitude series are cut at n^6; allowance for the first neglected
// term, 100 |n|^7 relative (the order-6 coefficients of the tables are of size 1..40); 4e-18 for WGS84, 8e-15 at |f| = 0.01 ("accurate for |f| < 0.01")
static double trunc_rel(double f, bool series) { double n = f / (2 - f); return series ? 100 * std::pow(std::fabs(n), 7) : 0; }
// area: no figure is published for rhumb areas; Planimeter(1) gives 0.11 m^2 for WGS84 geodesic polygons of any perimeter.
// x4, per quarter turn of longitude, scaled with a^2, plus the position tolerance swept over the east-west extent
static double tol_area(double a, double lam12, double s12) { return 4 * 0.11 * (a / aW) * (a / aW) * std::fmax(1.0, std::fabs(lam12) / (M_PI / 2)) + tol_len(a, s12) * a * std::fabs(lam12); }

// Finding F8 (repaired, 15c4574; the class below is empty now): DAuxLatitude::DE, used by the exact solver when the two latitudes are distinct and not of opposite sign,
// evaluates cos((x+y)/2) of the *flipped* parametric angles on prolate ellipsoids; near the equator these are ~pi/2 and the
// cosine loses relative accuracy ~ eps/(|phi1|+|phi2|).  Decidable class + a priori bound on the relative error of dmu/dpsi.
static double f8bound(bool, double, double, double) { return 0; }   // F8 is repaired in /repo (15c4574): no class any more, every such error is judged against the plain tolerance
// judge an error against a tolerance; errors inside the F8 class bound are reported under the F8 relation
static void judge(const std::string& rel, double err, double tol, double f8, double f8scale, const std::string& what) {
  if (err <= tol) return;
  if (f8 > 0 && err <= tol + f8 * f8scale)
    bad("F8-prolate-exact-DE:" + rel, what + " error " + num(err) + " tolerance " + num(tol) + " (inside the F8 class bound " + num(f8 * f8scale) + ")");
  else bad(rel, what + " error " + num(err) + " tolerance " + num(tol));
}
// Finding F24 (repaired, 6ffdf79; the class below is empty now): DAuxLatitude::DParametric, branch tx*ty > 1, replaces tx, ty by their reciprocals; two tangents an ulp apart can have the
// same rounded reciprocal and the quotient atan2(0, .)/atan2(0, .) is NaN.  Decidable on the tangents the code uses.
static bool f24class(double, double) { return false; }   // F24 is repaired in /repo (6ffdf79): no class any more
static bool dir_f24(const Rhumb& R, const RhumbLine& L, double s12) {   // the same tangents as GenPosition / MeanSinXi form
  if (!R._exact) return false;
  double r12 = s12 / (R._rm * Math::degree()), mu2 = L._mu1 + r12 * L._calp; if (!(std::fabs(mu2) <= 90)) return false;
  AuxAngle q2(R._aux.Convert(AuxLatitude::MU, AuxLatitude::PHI, AuxAngle::degrees(mu2), true)), k2(R._aux.Convert(AuxLatitude::PHI, AuxLatitude::CHI, q2, true));
  AuxAngle px(R._aux.Convert(AuxLatitude::CHI, AuxLatitude::PHI, L._chi1, true)), py(R._aux.Convert(AuxLatitude::CHI, AuxLatitude::PHI, k2, true));
  return f24class(px.tan(), py.tan()) || f24class(L._phi1.tan(), q2.tan());
}
static double dir_f8(const Rhumb&, const RhumbLine&, double) { return 0; }   // F8 repaired: no class
static bool inv_f24(const Rhumb& R, double lat1, double lat2) {   // the tangents GenInverse / MeanSinXi hand to DParametric (exact solver)
  if (!R._exact) return false;
  AuxAngle q1(AuxAngle::degrees(lat1)), q2(AuxAngle::degrees(lat2)), k1(R._aux.Convert(AuxLatitude::PHI, AuxLatitude::CHI, q1, true)), k2(R._aux.Convert(AuxLatitude::PHI, AuxLatitude::CHI, q2, true));
  AuxAngle px(R._aux.Convert(AuxLatitude::CHI, AuxLatitude::PHI, k1, true)), py(R._aux.Convert(AuxLatitude::CHI, AuxLatitude::PHI, k2, true));
  return f24class(q1.tan(), q2.tan()) || f24class(px.tan(), py.tan());
}
static bool finite3(double a, double b, double c) { return std::isfinite(a) && std::isfinite(b) && std::isfinite(c); }

// exact longitude difference reduced to [-180, 180], sign of +-180 from the sign of lon2 - lon1 reduced (oracle side; ties reported separately)
static LD lon12_exact(double lon1, double lon2) {
  LD d = (LD)std::remainder(lon2, 360.0) - (LD)std::remainder(lon1, 360.0);   // exact operands, |d| <= 360
  if (d > 180) d -= 360; else if (d < -180) d += 360;
  return d;
}

// ---- divided-difference kernels (static, reached with -fno-access-control) -------------------------------------
static LD g_asinh(LD x) { return asinhl(x); }
static LD g_atan(LD x) { return atanl(x); }
static LD g_sn(LD x) { return x / hypotl(1, x); }
static LD g_h(LD x) { return x * g_sn(x) / 2; }
static Reg r_dd("dd", [](const Args& a) {
  int fn = std::stoi(a[0]); double x = unhx(a[1]), y = unhx(a[2]); double v;
  typedef DAuxLatitude D;
  switch (fn) {
  case 0: v = D::Dsn(x, y); break; case 1: v = D::Datan(x, y); break; case 2: v = D::Dasinh(x, y); break;
  case 3: v = D::Dh(x, y); break; case 4: v = D::Dlam(x, y); break; case 5: v = D::Dp0Dpsi(x, y); break;
  case 6: v = D::Dsin(x, y); break; default: v = D::h(x); }
  emit(hx(v));
  if (!std::isfinite(x) || !std::isfinite(y)) {
    // documented limits: Dlam = inf if a pole is involved, Dp0Dpsi = +-1
    if (std::isnan(x) || std::isnan(y)) return;
    if (fn == 4 && x != y && !(v == INFINITY)) bad("dd-limit", "Dlam with an infinite argument is not +inf");
    if (fn == 5 && !(std::isinf(x) && std::isinf(y) && x != y) && !(std::fabs(v) == 1)) bad("dd-limit", "Dp0Dpsi with an infinite argument is not +-1");
    return;
  }
  // reference: the defining quotient in long double where it is well conditioned, the derivative at x == y
  LD X = x, Y = y, ref, cond = 1;
  auto dq = [&](LD (*g)(LD)) { LD gx = g(X), gy = g(Y); cond = (fabsl(gx) + fabsl(gy)) / fabsl(gy - gx); return (gy - gx) / (Y - X); };
  LD sc = hypotl(1, X);
  switch (fn) {
  case 0: ref = x == y ? 1 / (sc * sc * sc) : dq(g_sn); break;
  case 1: ref = x == y ? 1 / (1 + X * X) : dq(g_atan); break;
  case 2: ref = x == y ? 1 / sc : dq(g_asinh); break;
  case 3: if (x == y) { ref = X * (2 + X * X) / (2 * sc * sc * sc); } else ref = dq(g_h); break;
  case 4: if (x == y) ref = sc; else { LD n = dq(g_asinh), c1 = cond; LD d = dq(g_atan); cond = std::max(c1, cond); ref = n / d; } break;
  case 5: if (x == y) ref = g_sn(X); else { LD gx = asinhl(g_h(X)), gy = asinhl(g_h(Y)), hx_ = asinhl(X), hy_ = asinhl(Y);
            cond = std::max((fabsl(gx) + fabsl(gy)) / fabsl(gy - gx), (fabsl(hx_) + fabsl(hy_)) / fabsl(hy_ - hx_)); ref = (gy - gx) / (hy_ - hx_); } break;
  case 6: if (x == y) ref = cosl(X); else { LD gx = sinl(X), gy = sinl(Y); cond = (fabsl(gx) + fabsl(gy)) / fabsl(gy - gx); ref = (gy - gx) / (Y - X); } break;
  default: ref = g_h(X);
  }
  if (!(cond < 1e3L) || !std::isfinite((double)ref)) { stat("dd-illconditioned-skipped"); return; }   // long double cannot referee here; the Lean model and the theorems cover it
  if (fn == 6 && std::fabs(x) + std::fabs(y) > 1) return;   // Dsin: cos((x+y)/2) has no relative accuracy near its zeros
  if ((fn == 3 || fn == 5) && x != y && (std::fabs(x) < 1e-150 || std::fabs(y) < 1e-150)) return; // h(x) = x^2/2 underflows: outside the quantifier
  double tol = (32 + 4 * (double)cond) * EPS * std::fabs((double)ref) + 1e-300;   // cond: amplification of one rounding of g(x), g(y) in the branches that subtract (opposite signs)
  if (!(std::fabs((double)((LD)v - ref)) <= tol)) bad("dd-kernel", "helper " + a[0] + " = " + num(v) + " but the divided difference is " + num(ref));
});

// DClenshaw: divided difference (Delta = zeta2 - zeta1) or plain difference (Delta = 1) of Clenshaw sums, random coefficient lists
static Reg r_dcl("dcl", [](const Args& a) {
  bool sinp = a[0] == "1", plain = a[1] == "1"; double z1 = unhx(a[2]), z2 = unhx(a[3]); std::vector<double> c; for (size_t i = 4; i < a.size(); ++i) c.push_back(unhx(a[i]));
  double s1 = std::sin(z1), c1 = std::cos(z1), s2 = std::sin(z2), c2 = std::cos(z2), D = plain ? 1.0 : z2 - z1;
  double v = DAuxLatitude::DClenshaw(sinp, D, s1, c1, s2, c2, c.data(), int(c.size()));
  std::string op = "dcl " + a[0] + " " + a[1] + " " + hx(D) + " " + hx(s1) + " " + hx(c1) + " " + hx(s2) + " " + hx(c2); for (double x : c) op += " " + hx(x);
  current_op() = op; emit(hx(v));
  // defining sums in long double from the rounded (sin, cos) pairs' angles
  LD Z1 = atan2l((LD)s1, (LD)c1), Z2 = atan2l((LD)s2, (LD)c2), sum = 0, mag = 0;
  for (size_t k = 0; k < c.size(); ++k) { LD m = 2 * k + 2; LD t = sinp ? 2 * cosl(m * (Z2 + Z1) / 2) * sinl(m * (Z2 - Z1) / 2) : -2 * sinl(m * (Z2 + Z1) / 2) * sinl(m * (Z2 - Z1) / 2); sum += c[k] * t; mag += fabsl(c[k]) * m; }
  LD ref = plain ? sum : (D != 0 ? sum / (LD)D : NAN);
  if (!plain && !(std::fabs(D) > 1e-3)) return;   // the angle difference handed over as Delta is a rounded double: the long double quotient is only a referee for well separated angles (the Lean model covers the rest)
  // divided form: Delta and the (sin, cos) pairs are separately rounded, the angle difference they define differs from Delta by a few eps
  double tol = 64 * EPS * (double)mag * (plain ? std::fmax(1.0, std::fabs(z2 - z1)) : 1) + (plain ? 0 : 8 * EPS / std::fabs(D) * std::fabs((double)ref)) + 1e-300;
  if (!(std::fabs((double)((LD)v - ref)) <= tol)) bad("dd-clenshaw", "DClenshaw = " + num(v) + " but the defining sum gives " + num(ref) + " (tolerance " + num(tol) + ")");
});

// DParametric, DIsometric, DRectifying (exact formulas) and DConvert-based quotients (series) against cancellation-free differences
static Reg r_dde("dde", [](const Args& a) {
  double ea = unhx(a[0]), ef = unhx(a[1]); int fn = std::stoi(a[2]); double lat1 = unhx(a[3]), lat2 = unhx(a[4]);
  const Rhumb& R = rh(ea, ef, true); const DAuxLatitude& A = R._aux;
  AuxAngle p1(AuxAngle::degrees(lat1)), p2(AuxAngle::degrees(lat2));
  double v = fn == 0 ? A.DParametric(p1, p2) : fn == 1 ? A.DIsometric(p1, p2) : A.DRectifying(p1, p2);
  current_op() = "dde " + a[0] + " " + a[1] + " " + a[2] + " " + a[3] + " " + a[4] + " " + hx(p1.tan()) + " " + hx(p2.tan());
  emit(hx(v));
  if (!(std::fabs(lat1) <= 90 && std::fabs(lat2) <= 90)) return;
  if (std::fabs(lat1) == 90 && std::fabs(lat2) == 90) return;
  if (std::fabs(lat1) == 90 || std::fabs(lat2) == 90) { if (fn == 1 && !(v == INFINITY)) bad("dd-limit", "DIsometric at a pole is not +inf"); if (fn == 1) return; }
  const rho::Ell& E = el(ea, ef);
  LD dphi = ((LD)lat2 - (LD)lat1) * rho::DEG, s1, c1; rho::scd(lat1, s1, c1); LD ref;
  // DParametric / DRectifying take the difference of the *radian* angles atan2(sin, cos) in double: for |phi| > 1 the
  // quotient is defined up to the rounding of those radians (the caller divides two such quotients, where it cancels)
  if (dphi == 0) {
    LD w = 1 - E.e2 * s1 * s1;
    ref = fn == 0 ? (1 - E.f) / w : fn == 1 ? (1 - E.e2) / (w * c1) : E.M(s1) / E.Rmu;
  } else ref = (fn == 0 ? E.dbeta(lat1, dphi, lat2) : fn == 1 ? E.dpsi(lat1, dphi, lat2) : E.dm(lat1, dphi) / E.Rmu) / dphi;
  if (!std::isfinite((double)ref)) return;
  // the divided differences are with respect to phi in radians as the code forms it: relative rounding of phi1, phi2 over dphi is shared by numerator and denominator in the callers
  double rel = 64 * EPS;   // a dozen roundings, elliptic integrals (RF, RD) documented to a few ulp
  double f8 = fn == 2 ? f8bound(true, ef, lat1, lat2) : 0;
  if (std::isnan(v) && fn != 1 && f24class(p1.tan(), p2.tan()) && !(fn == 2 && p1.radians() == p2.radians())) {
    bad("F24-DParametric-reciprocal-nan:dd-kernel", "NaN: tan(phi1) != tan(phi2) but their reciprocals are equal"); return; }
  LD s2_, c2_; rho::scd(lat2, s2_, c2_);
  // what the rhumb solvers need of DRectifying: s12 = R_mu * DRectifying * hypot(lam12 / DIsometric, dphi), 1/DIsometric ~ cos(phi): the length tolerance
  // over a course of up to half a turn of longitude (near a pole lengths shrink with cos(phi) and so does the required relative accuracy)
  double extra = fn == 2 ? tol_len(ea, 0) / (double)(E.Rmu * (rho::PI * std::max(c1, c2_) + fabsl(dphi))) : 0;
  judge(fn == 0 ? "dd-parametric" : fn == 1 ? "dd-isometric" : "dd-rectifying", std::fabs((double)((LD)v - ref)), rel * std::fabs((double)ref) + extra, f8, std::fabs((double)ref),
        std::string(fn == 0 ? "DParametric" : fn == 1 ? "DIsometric" : "DRectifying") + " = " + num(v) + ", cancellation-free reference " + num(ref) + ";");
});

// ---- inverse ---------------------------------------------------------------------------------------------------
struct InvOut { double s12, azi12, S12; };
static InvOut inverse(const Rhumb& R, double lat1, double lon1, double lat2, double lon2) { InvOut o; R.Inverse(lat1, lon1, lat2, lon2, o.s12, o.azi12, o.S12); return o; }
static double angdist(double x, double y) { return std::fabs(Math::AngDiff(x, y)); }

static Reg r_inv("rinv", [](const Args& a) {
  double ea = unhx(a[0]), ef = unhx(a[1]); bool exact = a[2] == "1"; double lat1 = unhx(a[3]), lon1 = unhx(a[4]), lat2 = unhx(a[5]), lon2 = unhx(a[6]);
  const Rhumb& R = rh(ea, ef, exact);
  // kernel values for the Lean model of the decision logic (same calls as GenInverse makes)
  AuxAngle phi1(AuxAngle::degrees(lat1)), phi2(AuxAngle::degrees(lat2)), chi1(R._aux.Convert(R._aux.PHI, R._aux.CHI, phi1, exact)), chi2(R._aux.Convert(R._aux.PHI, R._aux.CHI, phi2, exact));
  double psi1 = chi1.lam(), psi2 = chi2.lam();
  double dmudpsi = exact ? R._aux.DRectifying(phi1, phi2) / R._aux.DIsometric(phi1, phi2)
                         : R._aux.DConvert(AuxLatitude::CHI, AuxLatitude::MU, chi1, chi2) / DAuxLatitude::Dlam(chi1.tan(), chi2.tan());
  double mudiff = std::fabs(R._aux.Convert(AuxLatitude::PHI, AuxLatitude::MU, phi2, exact).radians() - R._aux.Convert(AuxLatitude::PHI, AuxLatitude::MU, phi1, exact).radians());
  double msx = R.MeanSinXi(chi1, chi2);
  std::string op = "rinv"; for (int i = 0; i < 7; ++i) op += " " + a[i];
  op += " " + hx(psi1) + " " + hx(psi2) + " " + hx(dmudpsi) + " " + hx(mudiff) + " " + hx(R._rm) + " " + hx(R._c2) + " " + hx(msx);
  current_op() = op;
  InvOut o = inverse(R, lat1, lon1, lat2, lon2);
  emit(hx(o.s12) + " " + hx(o.azi12) + " " + hx(o.S12));
  if (!(std::fabs(lat1) <= 90 && std::fabs(lat2) <= 90 && std::isfinite(lon1) && std::isfinite(lon2))) return;
  if (std::fabs(lat1) == 90 && std::fabs(lat2) == 90) { stat("both-poles-indeterminate"); return; }   // coincident poles / pole to pole: azimuth or area indeterminate
  if (!finite3(o.s12, o.azi12, o.S12)) {
    AuxAngle px(R._aux.Convert(R._aux.CHI, R._aux.PHI, chi1, exact)), py(R._aux.Convert(R._aux.CHI, R._aux.PHI, chi2, exact));
    if (exact && (f24class(phi1.tan(), phi2.tan()) || f24class(px.tan(), py.tan()))) bad("F24-DParametric-reciprocal-nan:rhumb-inverse-finite", "NaN output: tan(phi1) != tan(phi2) but their reciprocals are equal");
    else bad("rhumb-inverse-finite", "non-finite output for finite points");
    return; }
  const rho::Ell& E = el(ea, ef);
  LD l12 = lon12_exact(lon1, lon2), lam12 = l12 * rho::DEG, dphi = ((LD)lat2 - (LD)lat1) * rho::DEG;
  LD s1, c1, s2, c2; rho::scd(lat1, s1, c1); rho::scd(lat2, s2, c2);
  bool pole = std::fabs(lat1) == 90 || std::fabs(lat2) == 90, tie = fabsl(l12) == 180;
  LD dm = E.dm(lat1, dphi), dps = E.dpsi(lat1, dphi, lat2);
  LD s12r, azir;
  if (pole) { s12r = fabsl(dm); azir = dphi >= 0 ? 0 : 180; }
  else if (dphi == 0) { s12r = fabsl(lam12) * E.Rpar(s1, c1); azir = l12 == 0 ? 0 : (l12 > 0 ? 90 : -90); }
  else { s12r = hypotl(lam12, dps) * (dm / dps); azir = atan2l(lam12, dps) / rho::DEG; }
  double f8 = f8bound(exact, ef, lat1, lat2);
  double tl = std::fmax(tol_len(ea, (double)s12r), 4 * ulp((double)s12r)) + trunc_rel(ef, !exact) * (double)s12r;
  // the shortest course: at most 180 degrees of longitude; azimuth sign = direction of travel
  if (!(o.s12 >= 0)) bad("rhumb-inverse-range", "s12 < 0");
  if (!(std::fabs(o.azi12) <= 180)) bad("rhumb-inverse-range", "azi12 outside [-180, 180]");
  bool west = false;
  if (tie) {
    // "If the end points are on opposite meridians, there are two shortest rhumb lines and the east-going one is chosen" (Rhumb.hpp)
    LD msr0 = E.meansinxi(lat1, dphi, lat2);
    west = pole ? (msr0 != 0 && (o.S12 > 0) != (msr0 > 0)) : o.azi12 < 0;    // to/from a pole the course is a meridian: the chosen sense shows in the sign of S12
    if (west) bad("rhumb-tie-east", "opposite meridians: the west-going course was returned, azi12 = " + num(o.azi12) + " S12 = " + num(o.S12));
    azir = fabsl(azir); if (west && !pole) azir = -azir;   // the remaining quantities are judged for the course that was returned
  }
  judge("rhumb-inverse-s12", std::fabs((double)((LD)o.s12 - s12r)), tl, f8, (double)s12r, "s12 = " + num(o.s12) + " oracle " + num(s12r) + ";");
  if (!pole && s12r > 0) {
    LD da = fabsl(remainderl((LD)o.azi12 - azir, 360)) * rho::DEG;
    double tolaz = tl + 4 * ulp(180.0) * M_PI / 180 * (double)s12r;
    judge("rhumb-inverse-azi", (double)(da * s12r), tolaz, f8, (double)s12r, "azi12 = " + num(o.azi12) + " oracle " + num(azir) + "; displacement of the end point");
  } else if (pole) {
    LD da = fabsl(remainderl((LD)o.azi12 - azir, 360));
    if (lat1 != lat2 && !(da <= 1e-12L)) bad("rhumb-inverse-azi", "course from/to a pole is not meridional: azi12 = " + num(o.azi12));
  }
  // area under the course
  {
    LD msr = E.meansinxi(lat1, dphi, lat2); LD lamS = tie ? (west ? -fabsl(lam12) : fabsl(lam12)) : lam12;
    LD Sr = E.c2 * lamS * msr; double ts = tol_area(ea, (double)lam12, (double)s12r);
    if (!(std::fabs((double)((LD)o.S12 - Sr)) <= ts)) bad("rhumb-area", "S12 = " + num(o.S12) + " oracle c2*lam12*<sin xi> = " + num(Sr) + " tolerance " + num(ts));
  }
  // direct from point 1 along the returned course reproduces point 2 (Direct o Inverse), also through a line object
  if (!pole) {
    double la, lo, S; R.Direct(lat1, lon1, o.azi12, o.s12, la, lo, S);
    double la2, lo2, S2; R.Line(lat1, lon1, o.azi12).Position(o.s12, la2, lo2, S2);
    bool c24 = dir_f24(R, R.Line(lat1, lon1, o.azi12), o.s12);
    double f8c = std::fmax(f8, dir_f8(R, R.Line(lat1, lon1, o.azi12), o.s12));    // the direct solver compares phi1 with the latitude it reaches
    if (c24 && (std::isnan(lo) || std::isnan(S))) bad("F24-DParametric-reciprocal-nan:rhumb-direct-inverse", "Direct along the inverse course returns NaN: tan(phi1) != tan(phi2) but their reciprocals are equal");
    else if (std::isnan(lo)) {
      // legitimately NaN only if the end point is (numerically) a pole
      if (!(90 - std::fabs(lat2) < 1e-9)) bad("rhumb-direct-inverse", "Direct along the inverse course lost the longitude (NaN)");
    } else {
      double dn = std::fabs(la - lat2) * M_PI / 180 * (double)E.M(s2), de = angdist(lo, lon2) * M_PI / 180 * (double)E.Rpar(s2, c2);
      judge("rhumb-direct-inverse", std::hypot(dn, de), 2 * tl + 4 * ulp(90.0) * M_PI / 180 * ea, f8c, (double)s12r, "Direct(Inverse) misses point 2: lat " + num(la) + " lon " + num(lo) + ";");
      double tS = tol_area(ea, (double)lam12, (double)s12r) + (2 * tl + 4 * ulp(90.0) * M_PI / 180 * ea) * (double)(E.c2 / E.Rpar(s2, c2));   // S12 of the direct problem moves by c2*dlam when the end point moves east-west
      if (!(std::fabs(S - o.S12) <= 2 * tS) && !(f8c > 0)) bad("rhumb-direct-inverse", "S12 of Direct " + num(S) + " vs Inverse " + num(o.S12));
    }
    bool same = (la2 == la || (std::isnan(la) && std::isnan(la2))) && (lo2 == lo || (std::isnan(lo) && std::isnan(lo2))) && (S2 == S || (std::isnan(S) && std::isnan(S2)));
    if (!same && !(std::fabs(la2 - la) <= 4 * ulp(90.0) && (angdist(lo2, lo) <= 4 * ulp(180.0)) && std::fabs(S2 - S) <= 16 * EPS * std::fabs(S)))
      bad("rhumb-line-direct", "RhumbLine::Position differs from Rhumb::Direct");
  }
  // series and exact agree for |f| <= 0.01 (both are within the documented accuracy there)
  if (std::fabs(ef) <= 0.01 && !pole) {
    InvOut p = inverse(rh(ea, ef, !exact), lat1, lon1, lat2, lon2);
    if (exact ? false : (!finite3(p.s12, p.azi12, p.S12) && inv_f24(rh(ea, ef, true), lat1, lat2))) {
      bad("F24-DParametric-reciprocal-nan:rhumb-series-exact", "the exact solver returns NaN: tan(phi1) != tan(phi2) but their reciprocals are equal"); return; }
    double f8o = f8bound(true, ef, lat1, lat2); double tl1 = tl; tl = tl1 + trunc_rel(ef, true) * (double)s12r;
    judge("rhumb-series-exact", std::fabs(p.s12 - o.s12), 2 * tl, f8o, (double)s12r, "s12 series/exact " + num(o.s12) + " / " + num(p.s12) + ";");
    judge("rhumb-series-exact", std::fabs(Math::AngDiff(p.azi12, o.azi12)) * M_PI / 180 * (double)s12r, 2 * tl + 8 * ulp(180.0) * M_PI / 180 * (double)s12r, f8o, (double)s12r, "azi12 series/exact " + num(o.azi12) + " / " + num(p.azi12) + ";");
    double ts = tol_area(ea, (double)lam12, (double)s12r);
    if (!(std::fabs(p.S12 - o.S12) <= 2 * ts)) bad("rhumb-series-exact", "S12 series/exact " + num(o.S12) + " / " + num(p.S12) + " tolerance " + num(2 * ts));
  }
});

// ---- direct ----------------------------------------------------------------------------------------------------
static Reg r_dir("rdir", [](const Args& a) {
  double ea = unhx(a[0]), ef = unhx(a[1]); bool exact = a[2] == "1"; double lat1 = unhx(a[3]), lon1 = unhx(a[4]), azi = unhx(a[5]), s12 = unhx(a[6]); bool unroll = a[7] == "1";
  const Rhumb& R = rh(ea, ef, exact);
  RhumbLine L = R.Line(lat1, lon1, azi);
  // the code's scaled distance and rectifying latitude of point 2, and the reflected latitude computed independently
  double r12 = s12 / (R._rm * Math::degree()), mu2 = L._mu1 + r12 * L._calp;
  double mfold = mu2; bool polebr = !(std::fabs(mu2) <= 90);
  if (polebr && std::isfinite(mu2)) { mfold = std::remainder(mu2, 360.0); if (std::fabs(mfold) > 90) mfold = std::copysign(180.0, mfold) - mfold; }   // exact operations
  double latk = R._aux.Convert(AuxLatitude::MU, AuxLatitude::PHI, AuxAngle::degrees(mfold), exact).degrees();
  double dmudpsi = NAN, msx = NAN;
  if (!polebr) {
    AuxAngle phi2(R._aux.Convert(AuxLatitude::MU, AuxLatitude::PHI, AuxAngle::degrees(mu2), exact)), chi2(R._aux.Convert(AuxLatitude::PHI, AuxLatitude::CHI, phi2, exact));
    dmudpsi = exact ? R._aux.DRectifying(L._phi1, phi2) / R._aux.DIsometric(L._phi1, phi2)
                    : R._aux.DConvert(AuxLatitude::CHI, AuxLatitude::MU, L._chi1, chi2) / DAuxLatitude::Dlam(L._chi1.tan(), chi2.tan());
    msx = R.MeanSinXi(L._chi1, chi2);
  }
  std::string op = "rdir"; for (int i = 0; i < 8; ++i) op += " " + a[i];
  op += " " + hx(L._mu1) + " " + hx(R._rm) + " " + hx(L._salp) + " " + hx(L._calp) + " " + hx(mfold) + " " + hx(latk) + " " + hx(dmudpsi) + " " + hx(R._c2) + " " + hx(msx);
  current_op() = op;
  double lat2 = -999, lon2 = -999, S12 = -999;
  R.GenDirect(lat1, lon1, azi, s12, Rhumb::LATITUDE | Rhumb::LONGITUDE | Rhumb::AREA | (unroll ? Rhumb::LONG_UNROLL : 0U), lat2, lon2, S12);
  emit(hx(lat2) + " " + hx(lon2) + " " + hx(S12));
  if (!(std::fabs(lat1) <= 90 && std::isfinite(lon1) && std::isfinite(azi) && std::isfinite(s12))) return;
  // line object == Direct
  { double la, lo, S; L.GenPosition(s12, Rhumb::LATITUDE | Rhumb::LONGITUDE | Rhumb::AREA | (unroll ? Rhumb::LONG_UNROLL : 0U), la, lo, S);
    auto eqn = [](double x, double y) { return x == y || (std::isnan(x) && std::isnan(y)); };
    if (!(eqn(la, lat2) && eqn(lo, lon2) && eqn(S, S12)) && !(std::fabs(la - lat2) <= 4 * ulp(90.0) && std::fabs(lo - lon2) <= 4 * ulp(std::fabs(lon2) + 180) && std::fabs(S - S12) <= 16 * EPS * std::fabs(S)))
      bad("rhumb-line-direct", "RhumbLine::GenPosition differs from Rhumb::GenDirect"); }
  const rho::Ell& E = el(ea, ef);
  LD sa, ca; rho::sca(azi, sa, ca);
  LD s1, c1; rho::scd(lat1, s1, c1);
  if (std::fabs(lat1) == 90) {
    // "If point 1 is a pole, the cosine of its latitude is taken to be 1/eps^2 ... allows the calculation to be carried out in finite terms" (Rhumb.hpp);
    // lon2 "is in the range [-180, 180]".  Only finiteness is judged here (the limiting course depends on that convention).
    LD run0 = (LD)s12 * ca, m10 = E.m0(lat1);
    if (fabsl(m10 + run0) < E.Q * (1 - 1e-9L) && s12 != 0 && !(std::isfinite(lon2) && std::isfinite(S12)))
      bad("rhumb-pole-start", "Direct from a pole: lon2 = " + num(lon2) + " S12 = " + num(S12) + " (documented: finite calculation, lon2 in [-180, 180])");
    return;
  }
  LD run = (LD)s12 * ca, m1 = E.m0(lat1), mt = m1 + run;       // meridional position, metres from the equator
  LD quart = E.Q;
  if (fabsl(fabsl(mt) - quart) <= 1e-7L * (ea / aW)) { stat("direct-at-pole-skipped"); return; }   // within 100 nm of a pole: either branch is legitimate
  if (!(std::fabs(lat2) <= 90)) { bad("rhumb-direct-range", "lat2 = " + num(lat2) + " outside [-90, 90]"); }
  double tl = std::fmax(tol_len(ea, s12), 4 * ulp(s12)) + trunc_rel(ef, !exact) * std::fabs(s12);
  if (fabsl(mt) > quart) {
    // beyond a pole: "the longitude of point 2 is indeterminate (a NaN is returned for lon2 and S12)"; the latitude is that of the
    // point reached by continuing along the meridian circle: meridional position reduced mod 4Q and reflected
    if (!std::isnan(lon2)) bad("rhumb-pole-nan", "course crosses a pole but lon2 = " + num(lon2) + " (documented NaN)");
    if (!std::isnan(S12)) bad("rhumb-pole-nan", "course crosses a pole but S12 = " + num(S12) + " (documented NaN)");
    LD mr = remainderl(mt, 4 * quart); if (fabsl(mr) > quart) mr = (mr > 0 ? 2 * quart : -2 * quart) - mr;
    LD dphi = E.solve_dphi(0, mr); LD latr = dphi / rho::DEG, sr = sinl(dphi);
    double err = std::fabs((double)(((LD)lat2 - latr) * rho::DEG * E.M(sr)));
    double tol = tl * std::fmax(1.0, (double)(fabsl(mt) / quart)) + 4 * ulp(90.0) * M_PI / 180 * ea;
    if (!(err <= tol)) bad("rhumb-pole-lat", "beyond the pole: lat2 = " + num(lat2) + " but the meridian circle continues to latitude " + num(latr) + " (error " + num(err) + " m, tolerance " + num(tol) + ")");
    return;
  }
  bool c24 = dir_f24(R, L, s12);
  if (c24 && (std::isnan(lon2) || std::isnan(S12))) { bad("F24-DParametric-reciprocal-nan:rhumb-direct-finite", "NaN lon2 or S12: tan(phi1) != tan(phi2) but their reciprocals are equal"); return; }
  if (std::isnan(lon2) || std::isnan(lat2)) { bad("rhumb-direct-finite", "NaN output although the course stays short of the poles (|mu2| = " + num(fabsl(mt) / quart * 90) + " deg)"); return; }
  // regular course
  LD dphi = E.solve_dphi(lat1, run), s2, c2; E.sc_at(lat1, dphi, s2, c2);
  LD dmr = E.dm(lat1, dphi), dps = E.dpsi(lat1, dphi);
  LD lam12 = (ca == 0 || dphi == 0 || fabsl(dmr) < 1e-25L) ? (LD)s12 * sa / E.Rpar(s1, c1) : (LD)s12 * sa * (dps / dmr);
  LD lat2r = (LD)lat1 + dphi / rho::DEG;
  double f8 = std::fmax(f8bound(exact, ef, lat1, (double)lat2r), dir_f8(R, L, s12));   // the class is decided on the latitudes the code compares
  double dn = std::fabs((double)((((LD)lat2 - (LD)lat1) * rho::DEG - dphi) * E.M(s2)));
  LD lon2r = (LD)lon1 + lam12 / rho::DEG;
  LD dl = unroll ? (LD)lon2 - lon2r : remainderl((LD)lon2 - lon2r, 360);
  double de = std::fabs((double)(dl * rho::DEG * E.Rpar(s2, c2)));
  // + 4 ulp of the (unreduced) longitude and of the latitude as outputs; + the effect of perturbing a latitude by 4 ulp(90 deg) on the longitude
  // reached (d lam12/d phi = lam12 tan(phi) for a fixed east-west run): the rectifying latitude is carried in degrees
  double tanmax = (double)std::max(fabsl(s1 / c1), fabsl(s2 / c2));
  double tp = tl + 4 * ulp(std::fabs(lon1) + std::fabs((double)(lam12 / rho::DEG))) * M_PI / 180 * (double)E.Rpar(s2, c2) + 4 * ulp(90.0) * M_PI / 180 * ea * (1 + std::fabs(s12 * (double)sa) / ea * tanmax);
  judge("rhumb-direct-lat", dn, tp, 0, 0, "lat2 = " + num(lat2) + " oracle " + num(lat2r) + ";");
  judge("rhumb-direct-lon", de, tp, f8, std::fabs((double)(lam12 * E.Rpar(s2, c2))), "lon2 = " + num(lon2) + " oracle " + num(lon2r) + ";");
  if (!unroll && !(lon2 >= -180 && lon2 <= 180)) bad("rhumb-direct-range", "lon2 = " + num(lon2) + " outside [-180, 180]");
  if (c2 > 1e-9L) {   // S12 is discontinuous in the limit of the pole
    LD Sr = E.c2 * lam12 * E.meansinxi(lat1, dphi); double ts = tol_area(ea, (double)lam12, s12) + tp * (double)(E.c2 / E.Rpar(s2, c2));
    judge("rhumb-area", std::fabs((double)((LD)S12 - Sr)), ts, f8, std::fabs((double)Sr), "Direct S12 = " + num(S12) + " oracle " + num(Sr) + ";");
  }
  // Inverse o Direct: the inverse of (point 1, point 2) is a course that leads back to point 2 and is not longer
  if (fabsl(lam12) < 3.1L && c2 > 1e-6L) {
    InvOut o = inverse(R, lat1, lon1, lat2, lon2);
    f8 = std::fmax(f8, f8bound(exact, ef, lat1, lat2));    // the inverse solver compares lat1 with the (rounded) lat2 it is given
    if (exact && (std::isnan(o.s12) || std::isnan(o.S12))) {
      AuxAngle q1(AuxAngle::degrees(lat1)), q2(AuxAngle::degrees(lat2)), k1(R._aux.Convert(R._aux.PHI, R._aux.CHI, q1, true)), k2(R._aux.Convert(R._aux.PHI, R._aux.CHI, q2, true));
      AuxAngle px(R._aux.Convert(R._aux.CHI, R._aux.PHI, k1, true)), py(R._aux.Convert(R._aux.CHI, R._aux.PHI, k2, true));
      if (f24class(q1.tan(), q2.tan()) || f24class(px.tan(), py.tan())) { bad("F24-DParametric-reciprocal-nan:rhumb-inverse-direct", "Inverse(Direct) is NaN: tan(phi1) != tan(phi2) but their reciprocals are equal"); return; }
    }
    double dd = std::fabs(o.s12 - std::fabs(s12));
    // the inverse is handed the *rounded* lat2, lon2: s12 = R dmu/dpsi hypot(lam12, psi12) moves by s12 (lam12 dlam + psi12 dpsi)/(lam12^2 + psi12^2)
    double dlamr0 = 4 * ulp(std::fabs(lon1) + std::fabs((double)(lam12 / rho::DEG))) * M_PI / 180, dpsir0 = 4 * ulp(90.0) * M_PI / 180 / (double)c2;
    double conds = std::fabs(s12) * (double)((fabsl(lam12) * dlamr0 + fabsl(dps) * dpsir0) / (lam12 * lam12 + dps * dps + 1e-300L));
    judge("rhumb-inverse-direct", dd, 2 * tp + conds, f8, std::fabs(s12), "Inverse(Direct) s12 = " + num(o.s12) + " for a course of length " + num(s12) + ";");
    double aziback = s12 >= 0 ? azi : azi + 180;
    // the inverse is handed the *rounded* lat2, lon2: azi = atan2(lam12, psi12) moves by (psi12 dlam - lam12 dpsi)/(lam12^2 + psi12^2)
    double dlamr = 4 * ulp(std::fabs(lon1) + std::fabs((double)(lam12 / rho::DEG))) * M_PI / 180, dpsir = 4 * ulp(90.0) * M_PI / 180 / (double)c2;
    double condaz = std::fabs(s12) * (double)((fabsl(dps) * dlamr + fabsl(lam12) * dpsir) / (lam12 * lam12 + dps * dps + 1e-300L));
    if (std::fabs(s12) > 0) judge("rhumb-inverse-direct", std::fabs(Math::AngDiff(o.azi12, aziback)) * M_PI / 180 * std::fabs(s12), 2 * tp + 8 * ulp(180.0) * M_PI / 180 * std::fabs(s12) + condaz, f8, std::fabs(s12), "Inverse(Direct) azi12 = " + num(o.azi12) + " for azimuth " + num(aziback) + ";");
  }
});

// ================================================================================================================
// Deepening round: the whole series path against Model/RhumbSeries.lean (running-error correspondence, Corr/C09Full.lean),
// every public entry point / overload / accessor, and the RhumbSolve front end
// ================================================================================================================
static const unsigned M_ALL_DIR = Rhumb::LATITUDE | Rhumb::LONGITUDE | Rhumb::AREA, M_ALL_INV = Rhumb::DISTANCE | Rhumb::AZIMUTH | Rhumb::AREA;
static bool eqn(double x, double y) { return x == y || (std::isnan(x) && std::isnan(y)); }

// rh_const a f : Rhumb(a, f, false): _n, _rm, _c2, EllipsoidArea(), _pP[] (model: constructor + AreaCoeffs on the extracted table);
// oracles: accessors, EllipsoidArea = 4 pi c^2 (authalic radius by closed form in long double), series == exact constants, WGS84() singleton
static Reg r_rhconst("rh_const", [](const Args& a) {
  double ea = unhx(a[0]), ef = unhx(a[1]);
  std::string g = guarded([&] {
    Rhumb R(ea, ef, false);
    std::string o = hx(R._n) + " " + hx(R._rm) + " " + hx(R._c2) + " " + hx(R.EllipsoidArea()); for (double p : R._pP) o += " " + hx(p);
    emit(o);
    if (int(R._pP.size()) != R._lL || R._lL != Rhumb::Lmax_) bad("rhumb-ctor", "_pP.size() = " + std::to_string(R._pP.size()) + ", _lL = " + std::to_string(R._lL) + ", Lmax_ = " + std::to_string(Rhumb::Lmax_));
    if (!(R.EquatorialRadius() == ea && R.Flattening() == ef)) bad("rhumb-accessors", "EquatorialRadius()/Flattening() do not return the constructor arguments");
    const rho::Ell& E = el(ea, ef);
    LD area = 4 * rho::PI * E.c2; double n = ef / (2 - ef);
    // series constants: the radius series are cut at n^6: allowance |n|^7 x 8 (coefficients of the tables are < 1)
    double tr = 64 * EPS + 8 * std::pow(std::fabs(n), 7);
    if (std::fabs(ef) <= 0.1) {
      if (!(std::fabs((double)((LD)R.EllipsoidArea() - area)) <= tr * (double)area)) bad("rhumb-ellipsoid-area", "EllipsoidArea() = " + num(R.EllipsoidArea()) + ", 4 pi c^2 = " + num(area));
      if (!(std::fabs((double)((LD)R._rm - E.Rmu)) <= tr * (double)E.Rmu)) bad("rhumb-rectifying-radius", "_rm = " + num(R._rm) + ", 2Q/pi = " + num(E.Rmu));
    }
    Rhumb X(ea, ef, true);
    if (!(std::fabs((double)((LD)X.EllipsoidArea() - area)) <= 64 * EPS * (double)area)) bad("rhumb-ellipsoid-area", "exact: EllipsoidArea() = " + num(X.EllipsoidArea()) + ", 4 pi c^2 = " + num(area));
    if (!(std::fabs((double)((LD)X._rm - E.Rmu)) <= 64 * EPS * (double)E.Rmu)) bad("rhumb-rectifying-radius", "exact: _rm = " + num(X._rm) + ", 2Q/pi = " + num(E.Rmu));
    if (!(X._lL == int(X._pP.size()) && X._lL >= 1)) bad("rhumb-ctor", "exact: _lL = " + std::to_string(X._lL) + " but _pP has " + std::to_string(X._pP.size()) + " entries");
    if (ea == aW && ef == fW) {
      const Rhumb& W = Rhumb::WGS84();
      bool same = W._a == R._a && W._f == R._f && W._n == R._n && W._rm == R._rm && W._c2 == R._c2 && !W._exact && W._pP == R._pP && &W == &Rhumb::WGS84();
      if (!(W.EquatorialRadius() == Constants::WGS84_a() && W.Flattening() == Constants::WGS84_f() && same)) bad("rhumb-wgs84", "Rhumb::WGS84() is not Rhumb(WGS84_a, WGS84_f, series)");
    }
  });
  if (!g.empty()) emit(g);
});

// rh_inv a f lat1 lon1 lat2 lon2 : GenInverse (series) end to end; the sincosd values of the latitudes are handed to the model (C16)
static Reg r_rhinv("rh_inv", [](const Args& a) {
  double ea = unhx(a[0]), ef = unhx(a[1]), lat1 = unhx(a[2]), lon1 = unhx(a[3]), lat2 = unhx(a[4]), lon2 = unhx(a[5]);
  const Rhumb& R = rh(ea, ef, false);
  AuxAngle p1(AuxAngle::degrees(lat1)), p2(AuxAngle::degrees(lat2));
  std::string op = "rh_inv"; for (int i = 0; i < 6; ++i) op += " " + a[i];
  current_op() = op + " " + hx(p1.y()) + " " + hx(p1.x()) + " " + hx(p2.y()) + " " + hx(p2.x());
  double s12 = -999, azi12 = -999, S12 = -999; R.GenInverse(lat1, lon1, lat2, lon2, M_ALL_INV, s12, azi12, S12);
  emit(hx(s12) + " " + hx(azi12) + " " + hx(S12));
});

// rh_pos a f lat1 lon1 azi12 s12 unroll : RhumbLine constructor members and GenPosition (series) end to end
static Reg r_rhpos("rh_pos", [](const Args& a) {
  double ea = unhx(a[0]), ef = unhx(a[1]), lat1 = unhx(a[2]), lon1 = unhx(a[3]), azi = unhx(a[4]), s12 = unhx(a[5]); bool unroll = a[6] == "1";
  const Rhumb& R = rh(ea, ef, false);
  AuxAngle p1(AuxAngle::degrees(lat1)); double sa, ca; Math::sincosd(Math::AngNormalize(azi), sa, ca);
  std::string op = "rh_pos"; for (int i = 0; i < 7; ++i) op += " " + a[i];
  current_op() = op + " " + hx(p1.y()) + " " + hx(p1.x()) + " " + hx(sa) + " " + hx(ca);
  RhumbLine L = R.Line(lat1, lon1, azi);
  double lat2 = -999, lon2 = -999, S12 = -999; L.GenPosition(s12, M_ALL_DIR | (unroll ? Rhumb::LONG_UNROLL : 0U), lat2, lon2, S12);
  emit(hx(L._lat1) + " " + hx(L._lon1) + " " + hx(L._azi12) + " " + hx(L._salp) + " " + hx(L._calp) + " " + hx(L._phi1.y()) + " " + hx(L._phi1.x()) + " " + hx(L._mu1) + " " +
       hx(L._chi1.y()) + " " + hx(L._chi1.x()) + " " + hx(L._psi1) + " " + hx(lat2) + " " + hx(lon2) + " " + hx(S12));
  if (!(eqn(L.Latitude(), L._lat1) && eqn(L.Longitude(), L._lon1) && eqn(L.Azimuth(), L._azi12) && L.EquatorialRadius() == ea && L.Flattening() == ef))
    bad("rhumb-line-accessors", "RhumbLine::Latitude/Longitude/Azimuth/EquatorialRadius/Flattening do not return the members");
  if (std::fabs(lat1) <= 90 && std::isfinite(azi) && !(eqn(L.Latitude(), lat1) && eqn(L.Longitude(), lon1) && std::fabs(L.Azimuth()) <= 180 && std::fabs(std::remainder(L.Azimuth() - azi, 360.0)) <= 0))
    bad("rhumb-line-accessors", "RhumbLine: Latitude() = " + num(L.Latitude()) + ", Longitude() = " + num(L.Longitude()) + ", Azimuth() = " + num(L.Azimuth()) + " for Line(" + num(lat1) + ", " + num(lon1) + ", " + num(azi) + ")");
});

// rh_dconv a f auxin auxout lat1 lat2 : DConvert for every ordered pair of auxiliary latitudes on normalized / unnormalized angles;
// oracle: the divided difference of Convert itself (series) where the quotient is well conditioned in long double
static Reg r_rhdconv("rh_dconv", [](const Args& a) {
  double ea = unhx(a[0]), ef = unhx(a[1]); int auxin = std::stoi(a[2]), auxout = std::stoi(a[3]); double y1 = unhx(a[4]), x1 = unhx(a[5]), y2 = unhx(a[6]), x2 = unhx(a[7]);
  const DAuxLatitude& A = rh(ea, ef, false)._aux;
  AuxAngle z1(y1, x1), z2(y2, x2);
  double v = A.DConvert(auxin, auxout, z1, z2); emit(hx(v));
  if (auxin == auxout) { if (!(v == 1)) bad("dd-convert", "DConvert(aux, aux) = " + num(v) + " (1 expected)"); return; }
  if (!(std::isfinite(y1) && std::isfinite(x1) && std::isfinite(y2) && std::isfinite(x2))) return;
  AuxAngle e1(A.Convert(auxin, auxout, z1, false)), e2(A.Convert(auxin, auxout, z2, false));
  // eta2 - eta1 and zeta2 - zeta1 as angles between the (normalized) points: atan2 of cross and dot products, cancellation-free
  auto dang = [](const AuxAngle& p, const AuxAngle& q) { AuxAngle P(p.normalized()), Q(q.normalized()); return atan2l((LD)Q.y() * P.x() - (LD)Q.x() * P.y(), (LD)Q.x() * P.x() + (LD)Q.y() * P.y()); };
  LD dz = dang(z1, z2), de = dang(e1, e2);
  if (fabsl(dz) < 1e-3L || fabsl(dz) > 3) return;   // the (sin, cos) pairs are rounded: the quotient referees only for well separated angles (the Lean model and the theorem cover the rest)
  LD ref = de / dz;
  if (!(std::fabs((double)((LD)v - ref)) <= 64 * EPS / (double)fabsl(dz) * (1 + std::fabs((double)ref)))) bad("dd-convert", "DConvert = " + num(v) + " but (Convert(zeta2) - Convert(zeta1))/(zeta2 - zeta1) = " + num(ref));
});

// rh_msx a f lat1 lat2 : MeanSinXi (series) on chi_i = Convert(phi -> chi, degrees(lat_i))
static Reg r_rhmsx("rh_msx", [](const Args& a) {
  double ea = unhx(a[0]), ef = unhx(a[1]), lat1 = unhx(a[2]), lat2 = unhx(a[3]);
  const Rhumb& R = rh(ea, ef, false);
  AuxAngle k1(R._aux.Convert(AuxLatitude::PHI, AuxLatitude::CHI, AuxAngle::degrees(lat1), false)), k2(R._aux.Convert(AuxLatitude::PHI, AuxLatitude::CHI, AuxAngle::degrees(lat2), false));
  current_op() = "rh_msx " + a[0] + " " + a[1] + " " + hx(k1.y()) + " " + hx(k1.x()) + " " + hx(k2.y()) + " " + hx(k2.x());
  emit(hx(R.MeanSinXi(k1, k2)));
});

// rh_api a f exact lat1 lon1 lat2 lon2 azi s12 : every overload and every output mask of both solvers and of the line object:
// a subset mask writes exactly the requested outputs (the others keep their sentinel) with the values of the full call
static Reg r_rhapi("rh_api", [](const Args& a) {
  double ea = unhx(a[0]), ef = unhx(a[1]); bool exact = a[2] == "1"; double lat1 = unhx(a[3]), lon1 = unhx(a[4]), lat2 = unhx(a[5]), lon2 = unhx(a[6]), azi = unhx(a[7]), s12 = unhx(a[8]);
  const Rhumb& R = rh(ea, ef, exact);
  const double Z = -987654.25; int nbad = 0; std::string first;
  auto fail = [&](const std::string& w) { if (!nbad++) first = w; };
  { // inverse
    double s, z, S; R.GenInverse(lat1, lon1, lat2, lon2, M_ALL_INV, s, z, S);
    double s1, z1, S1; R.Inverse(lat1, lon1, lat2, lon2, s1, z1, S1); if (!(eqn(s, s1) && eqn(z, z1) && eqn(S, S1))) fail("Inverse(7) != GenInverse(DISTANCE|AZIMUTH|AREA)");
    double s2, z2; R.Inverse(lat1, lon1, lat2, lon2, s2, z2); if (!(eqn(s, s2) && eqn(z, z2))) fail("Inverse(6) != GenInverse");
    { double q1, q2, q3, q4, q5; double s3 = Z, z3 = Z, S3 = Z; R.GenInverse(lat1, lon1, lat2, lon2, M_ALL_INV, s3, z3, q1, q2, q3, q4, S3); (void)q5;
      if (!(eqn(s, s3) && eqn(z, z3) && eqn(S, S3))) fail("GenInverse (PolygonArea interface) != GenInverse"); }
    for (unsigned m = 0; m < 8; ++m) {
      unsigned mask = (m & 1 ? Rhumb::DISTANCE : 0U) | (m & 2 ? Rhumb::AZIMUTH : 0U) | (m & 4 ? Rhumb::AREA : 0U) | (m == 3 ? Rhumb::LATITUDE | Rhumb::LONGITUDE : 0U);
      double s4 = Z, z4 = Z, S4 = Z; R.GenInverse(lat1, lon1, lat2, lon2, mask, s4, z4, S4);
      if (!(eqn(s4, m & 1 ? s : Z) && eqn(z4, m & 2 ? z : Z) && eqn(S4, m & 4 ? S : Z))) fail("GenInverse with outmask " + std::to_string(mask) + " writes other values than the full call / other outputs");
    }
    { double s5 = Z, z5 = Z, S5 = Z; R.GenInverse(lat1, lon1, lat2, lon2, Rhumb::ALL, s5, z5, S5); if (!(eqn(s, s5) && eqn(z, z5) && eqn(S, S5))) fail("GenInverse(ALL) != GenInverse(DISTANCE|AZIMUTH|AREA)"); }
  }
  { // direct and line
    RhumbLine L = R.Line(lat1, lon1, azi); RhumbLine L2(L); RhumbLine L3(R, lat1, lon1, azi);
    for (int u = 0; u < 2; ++u) {
      unsigned U = u ? Rhumb::LONG_UNROLL : 0U;
      double la, lo, S; R.GenDirect(lat1, lon1, azi, s12, M_ALL_DIR | U, la, lo, S);
      if (!u) {
        double la1, lo1, S1; R.Direct(lat1, lon1, azi, s12, la1, lo1, S1); if (!(eqn(la, la1) && eqn(lo, lo1) && eqn(S, S1))) fail("Direct(7) != GenDirect(LATITUDE|LONGITUDE|AREA)");
        double la2, lo2; R.Direct(lat1, lon1, azi, s12, la2, lo2); if (!(eqn(la, la2) && eqn(lo, lo2))) fail("Direct(6) != GenDirect");
        double la3, lo3, S3; L.Position(s12, la3, lo3, S3); if (!(eqn(la, la3) && eqn(lo, lo3) && eqn(S, S3))) fail("RhumbLine::Position(4) != Direct");
        double la4, lo4; L.Position(s12, la4, lo4); if (!(eqn(la, la4) && eqn(lo, lo4))) fail("RhumbLine::Position(3) != Direct");
        double la5 = Z, lo5 = Z, S5 = Z, q1, q2, q3, q4, q5; R.GenDirect(lat1, lon1, azi, false, s12, M_ALL_DIR, la5, lo5, q1, q2, q3, q4, q5, S5);
        if (!(eqn(la, la5) && eqn(lo, lo5) && eqn(S, S5))) fail("GenDirect (PolygonArea interface) != GenDirect");
      }
      for (const RhumbLine* l : {&L, &L2, &L3}) { double la6, lo6, S6; l->GenPosition(s12, M_ALL_DIR | U, la6, lo6, S6); if (!(eqn(la, la6) && eqn(lo, lo6) && eqn(S, S6))) fail("RhumbLine (Line(), copy, constructor)::GenPosition != GenDirect"); }
      { double la7 = Z, lo7 = Z, S7 = Z; R.GenDirect(lat1, lon1, azi, s12, Rhumb::ALL | U, la7, lo7, S7); if (!(eqn(la, la7) && eqn(lo, lo7) && eqn(S, S7))) fail("GenDirect(ALL) != GenDirect(LATITUDE|LONGITUDE|AREA)"); }
      for (unsigned m = 0; m < 8; ++m) {
        unsigned mask = (m & 1 ? Rhumb::LATITUDE : 0U) | (m & 2 ? Rhumb::LONGITUDE : 0U) | (m & 4 ? Rhumb::AREA : 0U) | (m == 5 ? Rhumb::DISTANCE | Rhumb::AZIMUTH : 0U) | U;
        double la8 = Z, lo8 = Z, S8 = Z; R.GenDirect(lat1, lon1, azi, s12, mask, la8, lo8, S8);
        double la9 = Z, lo9 = Z, S9 = Z; L.GenPosition(s12, mask, la9, lo9, S9);
        if (!(eqn(la8, m & 1 ? la : Z) && eqn(lo8, m & 2 ? lo : Z) && eqn(S8, m & 4 ? S : Z))) fail("GenDirect with outmask " + std::to_string(mask) + " writes other values than the full call / other outputs");
        if (!(eqn(la9, la8) && eqn(lo9, lo8) && eqn(S9, S8))) fail("GenPosition with outmask " + std::to_string(mask) + " != GenDirect");
      }
      // LONG_UNROLL: lon2 - lon1 is the longitude swept; without it the same direction reduced to [-180, 180]
      if (u && std::isfinite(lo) && std::isfinite(lon1)) { double la0, lo0, S0; R.GenDirect(lat1, lon1, azi, s12, M_ALL_DIR, la0, lo0, S0);
        if (!(std::fabs(lo0) <= 180)) fail("lon2 outside [-180, 180] without LONG_UNROLL");
        if (!(std::fabs(std::remainder(lo - lo0, 360.0)) <= 4 * ulp(std::fabs(lon1) + std::fabs(lo) + 360) && eqn(S, S0) && eqn(la, la0))) /* lon1 + lon2x is rounded at the magnitude of lon1 */ fail("LONG_UNROLL changes more than the representation of lon2: " + num(lo) + " vs " + num(lo0)); }
    }
  }
  emit(std::to_string(nbad));
  if (nbad) bad("rhumb-api", std::to_string(nbad) + " interface disagreements, first: " + first);
});

// ---- tools/RhumbSolve ------------------------------------------------------------------------------------------------
static int run_rhumbsolve(const std::vector<std::string>& args, const std::string& input, std::string& output) {
  std::vector<const char*> argv; argv.push_back("RhumbSolve"); for (auto& s : args) argv.push_back(s.c_str());
  std::istringstream in(input); std::ostringstream out, err;
  std::streambuf *oi = std::cin.rdbuf(in.rdbuf()), *oo = std::cout.rdbuf(out.rdbuf()), *oe = std::cerr.rdbuf(err.rdbuf()); std::cin.clear();
  int rc = -99; try { rc = tool_rhumbsolve::main(int(argv.size()), argv.data()); } catch (...) { rc = -98; }
  std::cin.rdbuf(oi); std::cout.rdbuf(oo); std::cerr.rdbuf(oe); std::cin.clear(); std::cout.clear(); std::cerr.clear();
  output = out.str(); return rc;
}
static std::string g17(double x) { char b[40]; std::snprintf(b, sizeof b, "%.17g", x); return b; }
static double snap(double x) { return std::ldexp(std::nearbyint(std::ldexp(x, 20)), -20); }   // multiples of 2^-20: written exactly in fixed notation
static std::string f20(double x) { char b[80]; std::snprintf(b, sizeof b, "%.20f", x); return b; }
static bool pclose(double printed, double ref, double absres) { return (std::isnan(printed) && std::isnan(ref)) || std::fabs(printed - ref) <= absres + 4 * ulp(ref); }
// rh_solve variant a f lat1 lon1 lat2 lon2 azi s12 : variant bits: 1 = -E, 2 = -u, 4|8 = mode (0 direct, 4 inverse -i, 8 line -L), 16 = a malformed line in between
// three input lines (the case, the case again, a second case) => exactly one output line per input line, each the library's answer at -p 10
static Reg r_rhsolve("rh_solve", [](const Args& a) {
  int variant = std::atoi(a[0].c_str()); double ea = unhx(a[1]), ef = unhx(a[2]);
  double lat1 = snap(unhx(a[3])), lon1 = snap(unhx(a[4])), lat2 = snap(unhx(a[5])), lon2 = snap(unhx(a[6])), azi = snap(unhx(a[7])), s12 = snap(unhx(a[8]));
  bool exact = variant & 1, unroll = variant & 2, inverse = variant & 4, line = variant & 8, junk = variant & 16;
  std::vector<std::string> args = {"-e", g17(ea), g17(ef), "-p", "10"};
  if (exact) args.push_back("-E"); if (unroll) args.push_back("-u");
  if (inverse) args.push_back("-i");
  if (line) { args.push_back("-L"); args.push_back(f20(lat1)); args.push_back(f20(lon1)); args.push_back(f20(azi)); }
  struct Case { double lat1, lon1, lat2, lon2, azi, s12; };
  std::vector<Case> cs = {{lat1, lon1, lat2, lon2, azi, s12}, {lat1, lon1, lat2, lon2, azi, s12}, {line ? lat1 : snap(lat1 / 2), line ? lon1 : snap(lon1 + 10), snap(-lat2), lon2, line ? azi : snap(azi + 45), snap(s12 / 3)}};
  std::string input; std::vector<int> kind;   // kind: index into cs, or -1 for the malformed line
  for (size_t i = 0; i < cs.size(); ++i) {
    const Case& c = cs[i];
    if (junk && i == 1) { input += (inverse ? "1 2 3\n" : line ? "1 2\n" : "10 20 30 40 50\n"); kind.push_back(-1); }
    input += line ? f20(c.s12) + "\n" : inverse ? f20(c.lat1) + " " + f20(c.lon1) + " " + f20(c.lat2) + " " + f20(c.lon2) + "\n" : f20(c.lat1) + " " + f20(c.lon1) + " " + f20(c.azi) + " " + f20(c.s12) + "\n";
    kind.push_back(int(i));
  }
  std::string out; int rc = run_rhumbsolve(args, input, out);
  const Rhumb& R = rh(ea, ef, exact);
  std::vector<std::string> lines; { std::istringstream is(out); std::string t; while (std::getline(is, t)) lines.push_back(t); }
  emit(std::to_string(rc) + " " + std::to_string(lines.size()));
  if (rc != (junk ? 1 : 0)) { bad("rhumbsolve-status", "RhumbSolve exits with " + std::to_string(rc) + (junk ? " although a line was malformed: " : " on valid lines: ") + out.substr(0, 80)); return; }
  if (lines.size() != kind.size()) { bad("rhumbsolve-lines", "RhumbSolve prints " + std::to_string(lines.size()) + " lines for " + std::to_string(kind.size()) + " input lines"); return; }
  for (size_t i = 0; i < lines.size(); ++i) {
    if (kind[i] < 0) { if (lines[i].compare(0, 6, "ERROR:") != 0) bad("rhumbsolve-lines", "malformed input line " + std::to_string(i) + " is answered by: " + lines[i].substr(0, 80)); continue; }
    const Case& c = cs[kind[i]];
    std::vector<double> v; { std::istringstream is(lines[i]); std::string t; while (is >> t) { try { v.push_back(Utility::val<double>(t)); } catch (...) { v.push_back(-7e77); } } }
    if (v.size() != 3) { bad("rhumbsolve-fields", "RhumbSolve prints " + std::to_string(v.size()) + " fields: " + lines[i].substr(0, 120)); continue; }
    if (inverse) {
      double s, z, S; R.Inverse(c.lat1, c.lon1, c.lat2, c.lon2, s, z, S);
      if (!(pclose(v[0], z, 1e-15) || std::fabs(std::remainder(v[0] - z, 360.0)) <= 1e-14) || !pclose(v[1], s, 1e-10) || !pclose(v[2], S, 1e-3))
        bad("rhumbsolve-inverse", "line " + std::to_string(i) + ": RhumbSolve -i prints " + lines[i] + ", the library returns " + g17(z) + " " + g17(s) + " " + g17(S));
    } else {
      double la, lo, S; R.GenDirect(c.lat1, c.lon1, c.azi, c.s12, Rhumb::ALL | (unroll ? Rhumb::LONG_UNROLL : 0U), la, lo, S);
      if (!pclose(v[0], la, 1e-15) || !(pclose(v[1], lo, 1e-15) || (!unroll && std::fabs(std::remainder(v[1] - lo, 360.0)) <= 1e-14)) || !pclose(v[2], S, 1e-3))
        bad(line ? "rhumbsolve-line" : "rhumbsolve-direct", "line " + std::to_string(i) + ": RhumbSolve prints " + lines[i] + ", the library returns " + g17(la) + " " + g17(lo) + " " + g17(S));
    }
  }
});

// ---- exact path: Carlson kernels, DE, DRectifying, exact GenInverse / GenPosition around their kernels (Model/RhumbExact.lean) ----
#include <GeographicLib/EllipticFunction.hpp>
static Reg r_rhcarlson("rh_carlson", [](const Args& a) {
  double x = unhx(a[0]), y = unhx(a[1]), z = unhx(a[2]);
  emit(hx(EllipticFunction::RF(x, y, z)) + " " + hx(EllipticFunction::RD(x, y, z)));
});
static std::string hxa(const AuxAngle& p) { return hx(p.y()) + " " + hx(p.x()); }
// rh_de a f lat1 lat2 : DE on the parametric latitudes of two geographic latitudes (as DRectifying calls it); oracle: the
// divided difference of the elliptic integral int sqrt(1 + e'^2 sin^2) by quadrature over the interval itself
static Reg r_rhde("rh_de", [](const Args& a) {
  double ea = unhx(a[0]), ef = unhx(a[1]), lat1 = unhx(a[2]), lat2 = unhx(a[3]);
  const DAuxLatitude& A = rh(ea, ef, true)._aux;
  AuxAngle b1(A.Parametric(AuxAngle::degrees(lat1))), b2(A.Parametric(AuxAngle::degrees(lat2)));
  current_op() = "rh_de " + a[0] + " " + a[1] + " " + hxa(b1) + " " + hxa(b2);
  double v = A.DE(b1, b2); emit(hx(v));
  if (!(std::fabs(lat1) < 90 && std::fabs(lat2) < 90 && lat1 != lat2 && lat1 * lat2 > 0)) return;   // stipulated by DE: distinct, same sign, not 0 / 90
  const rho::Ell& E = el(ea, ef); LD e12 = E.e2 / (1 - E.e2);
  LD x = atan2l(fabsl((LD)b1.y()), (LD)b1.x()), y = atan2l(fabsl((LD)b2.y()), (LD)b2.x());
  if (fabsl(y - x) < 1e-6L) return;   // the angles come from rounded (sin, cos) pairs: the quotient referees only for separated angles (Lean model otherwise)
  LD ref = rho::integrate([&](LD t) { LD s = sinl(t); return sqrtl(1 + e12 * s * s); }, x, y) / (y - x);
  // what the rhumb solvers need of DE (through DRectifying = b DE / R_mu x DParametric): the length tolerance over a course of up to half a turn of
  // longitude, as for op dde (near a pole lengths shrink with cos(phi) and so does the required relative accuracy; cos((x+y)/2) loses it there)
  LD s1_, c1_, s2_, c2_; rho::scd(lat1, s1_, c1_); rho::scd(lat2, s2_, c2_);
  double need = tol_len(ea, 0) / (double)(E.Rmu * (rho::PI * std::max(c1_, c2_) + fabsl((LD)lat2 - (LD)lat1) * rho::DEG));
  if (!(std::fabs((double)((LD)v - ref)) <= (64 * EPS + need) * std::fabs((double)ref))) bad("dd-elliptic", "DE = " + num(v) + " but (E(y) - E(x))/(y - x) by quadrature = " + num(ref));
});
static Reg r_rhdrect("rh_drect", [](const Args& a) {
  double ea = unhx(a[0]), ef = unhx(a[1]), lat1 = unhx(a[2]), lat2 = unhx(a[3]);
  const DAuxLatitude& A = rh(ea, ef, true)._aux;
  AuxAngle p1(AuxAngle::degrees(lat1)), p2(AuxAngle::degrees(lat2)); double d1;
  AuxAngle m1(A.Rectifying(p1, &d1)), m2(A.Rectifying(p2));
  current_op() = "rh_drect " + a[0] + " " + a[1] + " " + hxa(p1) + " " + hxa(p2) + " " + hxa(m1) + " " + hx(d1) + " " + hxa(m2) + " " + hx(A.RectifyingRadius(true));
  emit(hx(A.DRectifying(p1, p2)));
});
// the kernel values of the exact solvers for two geographic latitudes given as AuxAngles (same calls as GenInverse / MeanSinXi / DRectifying make)
static std::string xkernels(const Rhumb& R, const AuxAngle& p1, const AuxAngle& p2, const AuxAngle& k1, const AuxAngle& k2) {
  const DAuxLatitude& A = R._aux;
  AuxAngle px(A.Convert(AuxLatitude::CHI, AuxLatitude::PHI, k1, true)), py(A.Convert(AuxLatitude::CHI, AuxLatitude::PHI, k2, true));
  double d1; AuxAngle m1(A.Rectifying(p1, &d1)), m2(A.Rectifying(p2));
  std::string o = hxa(p1) + " " + hxa(p2) + " " + hxa(k1) + " " + hxa(k2) + " " + hxa(px) + " " + hxa(py) + " " + hxa(m1) + " " + hx(d1) + " " + hxa(m2) + " " + hx(A.RectifyingRadius(true)) + " " + hx(R._rm) + " " + hx(R._c2);
  for (int l = 0; l < R._lL; ++l) o += " " + hx(R._pP[l]);
  return o;
}
static Reg r_rhxinv("rh_xinv", [](const Args& a) {
  double ea = unhx(a[0]), ef = unhx(a[1]), lat1 = unhx(a[2]), lon1 = unhx(a[3]), lat2 = unhx(a[4]), lon2 = unhx(a[5]);
  const Rhumb& R = rh(ea, ef, true);
  AuxAngle p1(AuxAngle::degrees(lat1)), p2(AuxAngle::degrees(lat2)), k1(R._aux.Convert(AuxLatitude::PHI, AuxLatitude::CHI, p1, true)), k2(R._aux.Convert(AuxLatitude::PHI, AuxLatitude::CHI, p2, true));
  std::string op = "rh_xinv"; for (int i = 0; i < 6; ++i) op += " " + a[i];
  current_op() = op + " " + xkernels(R, p1, p2, k1, k2);
  double s12 = -999, azi12 = -999, S12 = -999; R.GenInverse(lat1, lon1, lat2, lon2, M_ALL_INV, s12, azi12, S12);
  emit(hx(s12) + " " + hx(azi12) + " " + hx(S12));
});
static Reg r_rhxpos("rh_xpos", [](const Args& a) {
  double ea = unhx(a[0]), ef = unhx(a[1]), lat1 = unhx(a[2]), lon1 = unhx(a[3]), azi = unhx(a[4]), s12 = unhx(a[5]); bool unroll = a[6] == "1";
  const Rhumb& R = rh(ea, ef, true);
  RhumbLine L = R.Line(lat1, lon1, azi);
  double r12 = s12 / (R._rm * Math::degree()), mu2 = L._mu1 + r12 * L._calp;
  std::string op = "rh_xpos"; for (int i = 0; i < 7; ++i) op += " " + a[i];
  op += " " + hx(L._mu1) + " " + hx(L._salp) + " " + hx(L._calp) + " " + hx(mu2);
  if (std::fabs(mu2) <= 90) {
    AuxAngle p2(R._aux.Convert(AuxLatitude::MU, AuxLatitude::PHI, AuxAngle::degrees(mu2), true)), k2(R._aux.Convert(AuxLatitude::PHI, AuxLatitude::CHI, p2, true));
    op += " " + xkernels(R, L._phi1, p2, L._chi1, k2);
  } else op += " " + xkernels(R, L._phi1, L._phi1, L._chi1, L._chi1);
  current_op() = op;
  double lat2 = -999, lon2 = -999, S12 = -999; L.GenPosition(s12, M_ALL_DIR | (unroll ? Rhumb::LONG_UNROLL : 0U), lat2, lon2, S12);
  emit(hx(lat2) + " " + hx(lon2) + " " + hx(S12));
});

// rh_datanhee a f x y : DAuxLatitude::Datanhee (divided difference of atanh(e sin phi)/e with respect to tan phi) against the RE model and,
// where the quotient is well conditioned in long double, against the defining quotient / the derivative at x == y
static Reg r_rhdatanhee("rh_datanhee", [](const Args& a) {
  double ea = unhx(a[0]), ef = unhx(a[1]), x = unhx(a[2]), y = unhx(a[3]);
  const DAuxLatitude& A = rh(ea, ef, true)._aux;
  double v = A.Datanhee(x, y); emit(hx(v));
  if (!(std::isfinite(x) && std::isfinite(y))) return;
  const rho::Ell& E = el(ea, ef);
  auto G = [&](LD t) { return E.atanhee(t / hypotl(1, t)); };
  LD X = x, Y = y, ref;
  if (x == y) { LD sc = hypotl(1, X), s = X / sc; ref = 1 / ((1 - E.e2 * s * s) * sc * sc * sc); }   // d/dt atanh(e sn t)/e = sn'(t)/(1 - e^2 sn^2)
  else { LD gx = G(X), gy = G(Y); LD cond = (fabsl(gx) + fabsl(gy)) / fabsl(gy - gx); if (!(cond < 1e3L)) { stat("dd-illconditioned-skipped"); return; } ref = (gy - gx) / (Y - X); }
  if (!std::isfinite((double)ref)) return;
  if (!(std::fabs((double)((LD)v - ref)) <= 64 * EPS * std::fabs((double)ref) + 1e-300)) bad("dd-kernel", "Datanhee = " + num(v) + " but the divided difference of atanh(e sin phi)/e is " + num(ref));
});

// ---- generators -------------------------------------------------------------------------------------------------
static double pw(Rng& r, int lo, int hi) { return std::pow(10.0, r.range(lo, hi)); }
// ---- exact rhumb area on strongly eccentric ellipsoids: an east-west course along a parallel bounds a zone whose area is elementary --
// rh_zone <a> <f> <lat> <dlon>: S12 of Rhumb(a, f, exact = true).Inverse(lat, 0, lat, dlon) against
//   (b^2 / 2) * dlon * [ sin(phi) / (1 - e2 sin^2 phi) + atanh(e sin phi) / e ]      (atan for e2 < 0)
// in long double; relative tolerance 2e-8 of the zone (the exact-mode area comes from an adaptive fit; the unchanged library is at 1e-9)
static Reg r_rhzone("rh_zone", [](const Args& a) {
  double ea = unhx(a[0]), f = unhx(a[1]), lat = unhx(a[2]), dlon = unhx(a[3]);
  Rhumb R(ea, f, true); double s12, azi, S12 = std::nan("");
  std::string e = guarded([&] { R.Inverse(lat, 0, lat, dlon, s12, azi, S12); });
  emit(e.empty() ? hx(S12) : e);
  if (!e.empty()) { bad("rhumb-zone-area", "Rhumb(exact).Inverse throws on a parallel: " + e); return; }
  typedef long double LD; LD e2 = (LD)f * (2 - (LD)f), b = (LD)ea * (1 - (LD)f), sp = sinl((LD)lat * 3.141592653589793238462643383279502884L / 180);
  LD ee = sqrtl(fabsl(e2)), q = sp / (1 - e2 * sp * sp) + (e2 == 0 ? sp : (e2 > 0 ? atanhl(ee * sp) : atanl(ee * sp)) / ee);
  LD zone = b * b / 2 * ((LD)dlon * 3.141592653589793238462643383279502884L / 180) * q;
  if (!(std::fabs((double)((LD)S12 - zone)) <= 2e-8 * std::fabs((double)zone) + 1e-8 * (double)(b * b)))
    bad("rhumb-zone-area", "S12 along the parallel " + std::to_string(lat) + " over " + std::to_string(dlon) + " deg on f = " + std::to_string(f) + ": " + std::to_string(S12) + " vs the zone area " + std::to_string((double)zone));
});

void gv::generate(const std::string& tier, uint64_t seed) {
  Rng r(seed * 9176 + 11);
  long n = tier == "thorough" ? 15000 : 900;
  struct EF { double a, f; int modes; };   // modes: 1 series, 2 exact, 3 both
  std::vector<EF> ell = {{aW, fW, 3}, {aW, fW, 3}, {aW, 0, 3}, {6.4e6, 0.001, 3}, {6.4e6, -0.001, 3}, {6.4e6, 0.01, 3}, {6.4e6, -0.01, 3}, {6.4e6, 0.1, 2}, {6.4e6, -0.1, 2}, {1, 1 / 150.0, 3}, {6378137, -1 / 298.257223563, 3}};
  auto H = [](double x) { return hx(x); };
  auto lat_gen = [&](int k) -> double {
    switch (k) {
    case 0: return r.range(-90, 90);
    case 1: return (r.coin() ? 1 : -1) * pw(r, -12, -6);                     // next to the equator
    case 2: return (r.coin() ? 1 : -1) * (90 - pw(r, -12, -6));              // next to a pole
    case 3: return r.pick(std::vector<double>{0, 90, -90, 45, -45, 30, 60, 89.999999999, 1e-30});
    case 4: return r.range(-1, 1) * pw(r, -3, 1);
    default: return r.range(-89, 89);
    }
  };
  auto lon_gen = [&]() -> double {
    switch (r.irange(0, 5)) { case 0: return r.range(-180, 180); case 1: return r.pick(std::vector<double>{0, 180, -180, 90, 360, 540, -540, 720});
    case 2: return r.range(-1, 1) * pw(r, 3, 15); case 3: return 360.0 * r.irange(-1000, 1000) + r.range(-180, 180); default: return r.range(-180, 180); }
  };
  for (const EF& e0 : ell) if (e0.modes != 2) { run("rh_const", {H(e0.a), H(e0.f)}); stratum("model-const"); }
  for (double f0 : {0.0033, -0.0033, 1e-9, 0.006, -0.009}) { run("rh_const", {H(6.4e6 * (1 + f0)), H(f0)}); stratum("model-const"); }
  // exact area on strongly eccentric ellipsoids (third flattening n up to +-0.9; at n = 0.95 the unchanged library itself is only good to
  // 5e-8 of the zone next to the equator, and no accuracy is documented there, so no claim is made beyond 0.9)
  for (double n3 : {0.0, 0.0016792, 0.3, -0.3, 0.6, -0.6, 0.8, -0.8, 0.9, -0.9}) {
    double f0 = 2 * n3 / (1 + n3);
    for (int j = 0; j < (tier == "thorough" ? 12 : 3); ++j) {
      run("rh_zone", {H(r.coin() ? 6.4e6 : 1.0), H(f0), H((r.coin() ? 1 : -1) * r.range(1, 89)), H(r.pick(std::vector<double>{10, 90, 179, -45, 1}))});
      stratum("zone-area-exact"); }
  }
  for (long i = 0; i < n; ++i) {
    EF e = r.pick(ell); bool exact = e.modes == 2 ? true : (e.modes == 1 ? false : r.coin());
    std::string A = H(e.a), F = H(e.f), X = exact ? "1" : "0";
    // ---------- inverse strata
    { int k = r.irange(0, 11); double lat1, lon1 = lon_gen(), lat2, lon2; std::string sn;
      switch (k) {
      case 0: lat1 = lat_gen(0); lat2 = lat_gen(0); lon2 = lon1 + r.range(-180, 180); sn = "inv-uniform"; break;
      case 1: { lat1 = lat_gen(r.irange(0, 4)); double dm_ = pw(r, -12, 0) * (r.coin() ? 1 : -1); lat2 = lat1 + dm_ / 111e3; if (r.irange(0, 3) == 0) lat2 = r.coin() ? nextup(lat1, r.irange(1, 4)) : nextdn(lat1, r.irange(1, 4));
                if (std::fabs(lat2) > 90) lat2 = lat1; lon1 = r.range(-180, 180); lon2 = lon1 + r.range(-179, 179); sn = "inv-nearby-lat-long-ew"; break; }
      case 2: lat1 = lat_gen(1); lat2 = r.coin() ? lat_gen(1) : lat1 * r.range(0.5, 2); lon1 = r.range(-180, 180); lon2 = lon1 + r.range(-179, 179); sn = "inv-equator"; break;
      case 3: lat1 = lat_gen(2); lat2 = r.coin() ? lat_gen(2) : lat_gen(0); lon2 = lon1 + r.range(-180, 180); sn = "inv-near-pole"; break;
      case 4: lat1 = lat_gen(0); lat2 = lat_gen(r.irange(0, 3)); lon1 = r.pick(std::vector<double>{0, 10, -170, 90, 180, -180, 360, 1e-10, 45.5}); lon2 = lon1 + (r.coin() ? 180 : -180); if (r.irange(0, 3) == 0) lon2 += 360 * r.irange(-2, 2); sn = "inv-tie-180"; break;
      case 5: lat1 = lat_gen(0); lat2 = lat1; lon2 = lon1 + r.range(-180, 180) * (r.coin() ? 1 : pw(r, -12, 0)); sn = "inv-parallel"; break;
      case 6: lat1 = lat_gen(0); lat2 = lat_gen(0); lon2 = r.coin() ? lon1 : lon1 + (r.coin() ? 1 : -1) * pw(r, -14, -3); sn = "inv-meridional"; break;
      case 7: lat1 = lat_gen(3); lat2 = lat_gen(3); lon2 = lon1 + r.range(-180, 180); sn = "inv-special-lat"; break;
      case 8: lat1 = lat_gen(0); lat2 = -lat1 * (r.coin() ? 1 : 1 + r.range(-1, 1) * 1e-9); lon2 = lon1 + r.range(-180, 180); sn = "inv-opposite-lat"; break;
      case 10: { double s_ = r.coin() ? 1 : -1; lat1 = s_ * r.range(30, 89.9); lat2 = -s_ * r.range(std::max(1.0, 90.5 - std::fabs(lat1)), 89.9); lon2 = lon1 + r.range(-180, 180);   // opposite hemispheres, |lat1| + |lat2| > 90: tan(chi1) tan(chi2) < -1
                 sn = "inv-opposite-hemi-sum-gt-90"; break; }
      case 11: { lat1 = (r.coin() ? 1 : -1) * (r.coin() ? r.range(45, 89.99) : r.range(0, 45)); lat2 = lat1; lon2 = lon1 + (r.coin() ? 1 : -1) * (r.irange(0, 3) ? r.range(0, 180) : 180 * pw(r, -12, 0));   // azi = +-90 exactly, high and low latitude
                 sn = "inv-parallel-hi-lo"; break; }
      default: lat1 = r.range(-80, 80); lat2 = lat1 + r.range(-1, 1) * pw(r, -9, -1); if (std::fabs(lat2) > 90) lat2 = lat1; lon1 = r.range(-180, 180); lon2 = lon1 + r.range(-1, 1) * pw(r, -9, 0); sn = "inv-short"; break;
      }
      run("rinv", {A, F, X, H(lat1), H(lon1), H(lat2), H(lon2)}); stratum(sn); if (i < 2) sample(current_op());
      if (e.modes != 2) { run("rh_inv", {A, F, H(lat1), H(lon1), H(lat2), H(lon2)}); stratum("model-" + sn); }
      if (e.modes != 1 && (exact || i % 2 == 0)) { run("rh_xinv", {A, F, H(lat1), H(lon1), H(lat2), H(lon2)}); stratum("xmodel-" + sn); }
      if (i % 3 == 0) { run("rh_api", {A, F, X, H(lat1), H(lon1), H(lat2), H(lon2), H(r.range(-180, 180) + 360 * r.irange(-1, 1)), H(r.range(-3e7, 3e7) * e.a / aW)}); stratum("api-" + sn); }
      if (i % 4 == 1 && std::fabs(lat1) <= 90 && std::fabs(lat2) <= 90 && std::fabs(lon1) < 1e6) {
        int variant = (exact ? 1 : 0) | (r.coin() ? 2 : 0) | (r.pick(std::vector<int>{0, 4, 8})) | (r.irange(0, 3) == 0 ? 16 : 0);
        run("rh_solve", {std::to_string(variant), A, F, H(lat1), H(lon1), H(lat2), H(lon1 + r.range(-180, 180)), H(r.range(-180, 180)), H(r.range(-2e7, 2e7) * e.a / aW)}); stratum("rhumbsolve-" + std::to_string(variant & 12)); }
      if (e.modes != 2 && std::fabs(lat1) <= 90 && std::fabs(lat2) <= 90) { run("rh_msx", {A, F, H(lat1), H(lat2)}); stratum("model-msx"); }
    }
    // ---------- direct strata
    { int k = r.irange(0, 8); double lat1 = lat_gen(r.irange(0, 5)), lon1 = lon_gen(), azi, s12; std::string sn; const rho::Ell& E = el(e.a, e.f); double Q = (double)E.Q;
      switch (k) {
      case 0: azi = r.range(-180, 180); s12 = r.range(-2e7, 2e7) * e.a / aW; if (r.coin()) s12 *= pw(r, -9, 0); sn = "dir-uniform"; break;
      case 1: azi = (r.coin() ? 90 : -90) + (r.coin() ? 1 : -1) * (r.irange(0, 5) ? pw(r, -14, -1) : 0); s12 = r.range(-3e7, 3e7) * e.a / aW; sn = "dir-near-east-west"; break;
      case 2: azi = (r.coin() ? 0 : 180) + (r.coin() ? 1 : -1) * (r.irange(0, 5) ? pw(r, -14, -1) : 0); s12 = r.range(-1, 1) * Q; sn = "dir-near-meridional"; break;
      case 3: { // reach / overshoot a pole by up to several circuits (|mu2| up to ~ 10 quarter circles)
                azi = r.pick(std::vector<double>{0, 180, 35, -140, 10, 170, -60}) + (r.coin() ? 0 : r.range(-5, 5)); double m = r.range(1.02, 10) * (r.coin() ? 1 : -1);
                double ca = std::cos(azi * M_PI / 180); s12 = m * Q / ca; lat1 = r.range(-80, 80); sn = "dir-overshoot-pole"; break; }
      case 4: { azi = r.range(-180, 180); double ca = std::cos(azi * M_PI / 180), m1 = (double)E.m0(lat1); double tgt = (r.coin() ? Q : -Q) * (1 + (r.coin() ? 1 : -1) * pw(r, -12, -3));   // end next to a pole, either side
                s12 = std::fabs(ca) > 1e-3 ? (tgt - m1) / ca : r.range(-1e7, 1e7); sn = "dir-end-near-pole"; break; }
      case 5: azi = r.pick(std::vector<double>{0, 90, -90, 180, -180, 45, 270, 360, 450, -270, 1e-300}); s12 = r.range(-2e7, 2e7) * e.a / aW; sn = "dir-cardinal"; break;
      case 6: azi = r.range(-180, 180); s12 = (r.coin() ? 1 : -1) * pw(r, -9, 3); sn = "dir-short"; break;
      case 7: azi = (r.coin() ? 90 : -90) + r.range(-1, 1) * 1e-3; s12 = r.range(-1, 1) * 4e7 * r.irange(1, 20) * e.a / aW; sn = "dir-many-circuits-ew"; break;
      default: azi = r.range(-180, 180) + 360 * r.irange(-3, 3); s12 = r.range(-1e7, 1e7) * e.a / aW; sn = "dir-azi-unreduced"; break;
      }
      std::string U = r.irange(0, 2) ? "1" : "0";
      run("rdir", {A, F, X, H(lat1), H(lon1), H(azi), H(s12), U}); stratum(sn); if (i < 2) sample(current_op());
      if (e.modes != 2) { run("rh_pos", {A, F, H(lat1), H(lon1), H(azi), H(s12), U}); stratum("model-" + sn); }
      if (e.modes != 1 && (exact || i % 2 == 0)) { run("rh_xpos", {A, F, H(lat1), H(lon1), H(azi), H(s12), U}); stratum("xmodel-" + sn); }
    }
    // ---------- divided-difference kernels
    for (int rep = 0; rep < 4; ++rep) {
      int fn = r.irange(0, 7); double x, y; int k = r.irange(0, 7);
      auto tg = [&]() -> double { switch (r.irange(0, 4)) { case 0: return std::tan(r.range(-1.57, 1.57)); case 1: return r.range(-1, 1) * pw(r, -12, 0); case 2: return (r.coin() ? 1 : -1) * pw(r, 0, 17); case 3: return r.pick(std::vector<double>{0, 1, -1, 0.5, 1e-160, 1e200, -1e200, INFINITY, -INFINITY}); default: return r.range(-3, 3); } };
      x = tg();
      switch (k) { case 0: y = x; break; case 1: y = nextup(x, r.irange(1, 3)); break; case 2: y = x * (1 + r.range(-1, 1) * pw(r, -15, -1)); break; case 3: y = -x * r.range(0.5, 2); break; case 4: y = x + r.range(-1, 1) * pw(r, -12, 0); break; default: y = tg(); }
      if (fn == 6) { x = std::atan(x); y = std::atan(y); }
      run("dd", {std::to_string(fn), H(x), H(y)}); stratum("dd-" + std::to_string(fn));
      if (rep == 0 && fn != 6) { run("rh_datanhee", {A, F, H(x), H(y)}); stratum("dd-datanhee"); }
    }
    { int K = r.irange(0, 8); std::vector<std::string> av = {r.coin() ? "1" : "0", r.irange(0, 3) ? "0" : "1"}; double z1 = r.range(-1.6, 1.6), z2;
      switch (r.irange(0, 3)) { case 0: z2 = z1; break; case 1: z2 = z1 + r.range(-1, 1) * pw(r, -12, 0); break; case 2: z2 = -z1; break; default: z2 = r.range(-1.6, 1.6); }
      av.push_back(H(z1)); av.push_back(H(z2)); for (int k = 0; k < K; ++k) av.push_back(H(r.range(-1, 1) * std::pow(e.f / (2 - e.f) + 0.3 * r.coin(), k + 1)));
      run("dcl", av); stratum("dcl"); }
    if (e.modes != 2) { // DConvert: every ordered pair of auxiliary latitudes; equal / ulp apart / nearby / mirrored / independent angles; unnormalized points
      int auxin = r.irange(0, 5), auxout = r.irange(0, 5); double z1 = lat_gen(r.irange(0, 5)), z2; int k = r.irange(0, 4);
      switch (k) { case 0: z2 = z1; break; case 1: z2 = z1 + r.range(-1, 1) * pw(r, -13, 0); break; case 2: z2 = r.coin() ? nextup(z1) : nextdn(z1); break; case 3: z2 = -z1 * r.range(0.5, 1.5); break; default: z2 = lat_gen(r.irange(0, 5)); }
      if (std::fabs(z2) > 90) z2 = z1;
      AuxAngle p1(AuxAngle::degrees(z1)), p2(AuxAngle::degrees(z2)); double sc1 = r.irange(0, 3) ? 1 : pw(r, -3, 3), sc2 = r.irange(0, 3) ? 1 : pw(r, -3, 3);
      run("rh_dconv", {A, F, std::to_string(auxin), std::to_string(auxout), H(p1.y() * sc1), H(p1.x() * sc1), H(p2.y() * sc2), H(p2.x() * sc2)}); stratum("model-dconvert-" + std::to_string(k)); }
    { int fn = r.irange(0, 2); double lat1 = lat_gen(r.irange(0, 5)), lat2; int k = r.irange(0, 4);
      switch (k) { case 0: lat2 = lat1; break; case 1: lat2 = lat1 + r.range(-1, 1) * pw(r, -13, 0); break; case 2: lat2 = r.coin() ? nextup(lat1) : nextdn(lat1); break; case 3: lat2 = -lat1 * r.range(0.5, 1.5); break; default: lat2 = lat_gen(r.irange(0, 5)); }
      if (std::fabs(lat2) > 90) lat2 = lat1;
      run("dde", {A, F, std::to_string(fn), H(lat1), H(lat2)}); stratum("dde-" + std::to_string(fn));
      if (e.modes != 1) { run("rh_drect", {A, F, H(lat1), H(lat2)}); stratum("xmodel-drectifying-" + std::to_string(k));
        double l2 = lat2; if (k == 3) l2 = -lat2;   // DE stipulates the same sign
        if (lat1 != l2 && lat1 * l2 > 0 && std::fabs(lat1) < 90 && std::fabs(l2) < 90) { run("rh_de", {A, F, H(lat1), H(l2)}); stratum("xmodel-de-" + std::to_string(k)); } }
      { // Carlson RF(x, y, 1), RD(x, y, 1) on the argument shapes of DE / Rectifying: x in [0, 1], y in [1 - k2, 1] or beyond; and general positive triples
        double x = r.coin() ? r.range(0, 1) : pw(r, -12, 0), y = 1 + r.range(-0.9, 1) * (r.coin() ? 1 : pw(r, -6, 0)), z = r.irange(0, 2) ? 1 : pw(r, -2, 2);
        if (r.irange(0, 9) == 0) x = 0;
        run("rh_carlson", {H(x), H(y), H(z)}); stratum("xmodel-carlson"); } }
  }
}
int main(int argc, char** argv) { return gv::main_(argc, argv); }
