// C06: transverse Mercator, series (TransverseMercator) and exact (TransverseMercatorExact)
#include "common.hpp"
#include "C06_oracle.hpp"
#include "C06_exact.hpp"
#include "C06_api.hpp"
#include <GeographicLib/TransverseMercator.hpp>
#include <GeographicLib/TransverseMercatorExact.hpp>
#include <GeographicLib/Math.hpp>
using namespace GeographicLib; using namespace gv;
typedef long double LD;

static const double aW = 6378137.0, fW = 1 / 298.257223563;
static const double EPS = 2.220446049250313e-16;
// n^7 coefficients of alp[1..7] in the Krueger series carried to higher order (Karney 2011, Eq. 35 extended; mathematical
// constants used only to size the truncation error of the 6th-order series, cf. DESIGN 2.4 refinement 3)
static const double A7[7] = {1804025. / 9676800, 4626384. / 9676800, 67102379. / 29030400, 155912000. / 79833600, 102508609. / 63866880, 12282192400. / 4151347200., 1522256789. / 1383782400};
static double trunc_term(double n, double eta) { double s = 0, n7 = std::pow(std::fabs(n), 7); for (int j = 0; j < 7; ++j) s += A7[j] * n7 * std::cosh(2 * (j + 1) * std::fabs(eta)); return s / (1 - std::fmin(0.5, 8 * std::fabs(n))); }

struct R4 { double x, y, g, k; };
struct Tol { double round, trunc; double pos() const { return round + trunc; } };
// tolerance in grid metres at a point with grid coordinates (x, y) and scale k: documented accuracy x 4 (series 5 nm, exact 8 nm; ground
// distance, scaled with the size of the ellipsoid), floored at a few ulp of the coordinates; series: plus twice the next-order term
static Tol tol_grid(bool series, double a, double f, double k0, double x, double y, double k) {
  Tol t; double n = f / (2 - f);
  t.round = 4 * (series ? 5e-9 : 8e-9) * (a / aW) * std::fmax(k, k0) + 16 * EPS * std::hypot(x, y);
  t.trunc = series ? 2 * a * k0 * trunc_term(n, x / (a * k0)) : 0;
  return t;
}
static std::string s9(double v) { char b[64]; std::snprintf(b, sizeof b, "%.3f nm", v * 1e9); return b; }
static std::string sg(double v) { char b[64]; std::snprintf(b, sizeof b, "%.17g", v); return b; }
static double angd(double a, double b) { return std::fabs(std::remainder(a - b, 360.0)); }

template<class T> static R4 fwd(const T& t, double lon0, double lat, double lon) { R4 r; t.Forward(lon0, lat, lon, r.x, r.y, r.g, r.k); return r; }
template<class T> static R4 rev(const T& t, double lon0, double x, double y) { R4 r; t.Reverse(lon0, x, y, r.x, r.y, r.g, r.k); return r; }   // x = lat, y = lon

// ground distance between two geographic points (small separations)
static double ground(const tmo::Ell& E, double lat1, double lon1, double lat2, double lon2) {
  LD phi = (LD)lat1 * tmo::DEG; double dn = double(((LD)lat2 - (LD)lat1) * tmo::DEG * E.rho(phi)), de = double((LD)Math::AngDiff(lon1, lon2) * tmo::DEG * E.radius(phi));
  return std::hypot(dn, de);
}

// finding F91 (open): for eccentric ellipsoids (e^2 >= 0.15, f >= 0.08) the starting guesses of TransverseMercatorExact::sigmainv0, tuned for small e, can be
// far from the root; Newton's iteration then wanders over the period lattice and either uses up its numit_ iterations or settles on a root of another
// period / sheet, and Reverse returns a wrong point without any signal.  Class, decided on the iteration itself (the loop of sigmainv re-run with the
// library's own private pieces on the same target): exact form, e^2 >= 0.15, and the iteration from the library's starting guess takes all numit_ steps or
// leaves the period rectangle |u| <= 2K, -K' <= v <= 2K'.
static std::string f91(double a, double f, double k0, bool ext, double x, double y) {
  double mu = f * (2 - f); if (!(f > 0 && f < 1 && mu >= 0.15) || !std::isfinite(x) || !std::isfinite(y)) return "";
  TransverseMercatorExact t(1.0, f, 1.0, ext); double xi = y / (a * k0), eta = x / (a * k0);
  if (!ext) { xi = std::fabs(xi); eta = std::fabs(eta); if (xi > t._eEu.E()) xi = 2 * t._eEu.E() - xi; }
  std::vector<tmx::Entry> tr = tmx::trace_sigmainv(t, xi, eta); bool wander = false;
  for (auto& e : tr) if (!(std::fabs(e.u) <= 2 * t._eEu.K() && e.v >= -t._eEv.K() && e.v <= 2 * t._eEv.K())) wander = true;
  if (!(wander || int(tr.size()) >= TransverseMercatorExact::numit_)) return "";
  return " [class:sigmainv-not-settled e^2 = " + sg(mu) + " steps = " + std::to_string(tr.size()) + (wander ? " left the period rectangle" : "") + "]";
}

// ---- all property-level oracles for one form at one point ------------------------------------------------------------
template<class T> static void props(const char* nm, bool series, const T& t, double a, double f, double k0, double lon0, double lat, double lon, bool ext) {
  tmo::Ell E(a, f); double e = f > 0 ? std::sqrt(f * (2 - f)) : 0;
  double d = Math::AngDiff(lon0, lon); double ad = std::fabs(d), alat = std::fabs(lat);
  R4 r = fwd(t, lon0, lat, lon);
  std::string N = nm;
  if (std::isnan(lat) || std::isnan(lon) || std::isnan(lon0) || !std::isfinite(lon) || !std::isfinite(lon0)) return;
  if (alat > 90) { if (!(std::isnan(r.x) && std::isnan(r.y))) bad("latfix-" + N, "latitude outside [-90, 90] must give NaN"); return; }
  bool backside = ad > 90, branchy = f > 0 && alat <= 1e-6 && ad >= 90 * (1 - e) - 1e-6 && ad <= 90 * (1 + e) + 1e-6;
  bool nearbranch = f > 0 && alat < 2 && (std::fabs(ad - 90 * (1 - e)) < 2 || std::fabs(ad - 90 * (1 + e)) < 2);
  // sensitivity of ln(dZ/dw) to a displacement of one grid metre (k0 = 1): on the central meridian it is tan(phi)/a; used when the oracle is not available
  double sens0 = (1 + std::tan(std::fmin(alat, 89.9999999999999) * Math::degree())) / a * 4;
  // easting in units of a k0, estimated from the INPUT (spherical transverse Mercator, +2 %): outside its domain of convergence the series
  // returns garbage, so its own x must not decide whether the point is inside the domain
  double ceta = std::cos(lat * Math::degree()) * std::sin(std::fmin(ad, 90.0) * Math::degree());
  double eta_in = ad >= 90 ? 40.0 : 1.02 * std::atanh(std::fmin(ceta, 1 - 1e-16));
  Tol tl = tol_grid(series, a, f, k0, std::fmax(std::fabs(r.x), series ? eta_in * a * k0 : 0.0), r.y, r.k);
  if (series) tl.round = tol_grid(series, a, f, k0, r.x, r.y, r.k).round;
  bool accurate = !series || (tl.trunc <= 1e-3 && ad < 90 && std::isfinite(r.x));   // the series is only claimed inside its domain of convergence
  if (ext) {
    // extended domain (documented): lat >= 0, 0 <= d <= 90, or lat <= 0 and 90(1-e) <= d <= 90.  Only the round trip is claimed there,
    // and equality with the standard convention on lat >= 0, 0 <= d <= 90
    bool dom1 = lat >= 0 && !std::signbit(lat) && d >= 0 && !std::signbit(d) && d <= 90, dom2 = lat <= 0 && d >= 90 * (1 - e) && d <= 90;
    if (!(dom1 || dom2) || alat == 90) return;
    if (!(std::isfinite(r.x) && std::isfinite(r.y))) { bad("extendp-finite", "non-finite result inside the documented extended domain"); return; }
    // the Thompson coordinate w = u + iv is held in binary64 (|u| <= K, |v| <= K'): a few ulp of it are lost on the way, and on the southern
    // extended sheet sigma has a simple pole (d sigma/dw = -sigma^2), so the representable resolution there is ~ eps * sigma^2 * a * k0 grid metres
    double sig = std::hypot(r.x, r.y) / (a * k0);
    R4 q = rev(t, lon0, r.x, r.y);
    double g = ground(E, lat, lon, q.x, q.y), tg = (2 * tl.pos() + 64 * EPS * sig * sig * a * k0) / std::fmax(r.k, 1e-3) + 8 * EPS * a;
    if (sig > 1e3) { stat("extendp-huge-coordinates-not-compared"); return; }
    if (!(g <= tg)) bad("extendp-closure", "Reverse(Forward) in the extended domain off by " + s9(g) + " ground (tolerance " + s9(tg) + ")" + f91(a, f, k0, true, r.x, r.y));
    return;
  }
  // ---- poles
  if (alat == 90) {
    double mq = (double)E.merid(tmo::PI / 2) * k0, sg1 = lat > 0 ? 1 : -1;
    if (!(std::fabs(r.x) <= tl.pos() && std::fabs(r.y - sg1 * mq) <= tl.pos())) bad("pole-" + N, "pole not at (0, +-k0 * quarter meridian): x = " + sg(r.x) + " y - expected = " + sg(r.y - sg1 * mq));
    if (!(std::fabs(r.k / k0 - 1) <= 64 * EPS)) bad("pole-scale-" + N, "scale at the pole is not k0: k/k0 - 1 = " + sg(r.k / k0 - 1));
    if (!(angd(r.g, sg1 * d) <= 1e-12)) bad("pole-convergence-" + N, "convergence at the pole is not +-(lon - lon0): gamma = " + sg(r.g));
    R4 q = rev(t, lon0, r.x, r.y);
    if (!(std::fabs(q.x - lat) <= 1e-7)) bad("pole-closure-" + N, "Reverse of the pole's image returns lat = " + sg(q.x));   // lat is Hoelder-1/1 here but the image is only good to nm: 1e-7 deg = 1 cm
    return;
  }
  if (!accurate) { stat(std::string("skipped-outside-series-domain")); }
  // ---- the independent Gauss-Krueger evaluation
  bool have = false; tmo::Res o; o.ok = false;
  if (accurate && alat <= 89.99 && ad <= 179) {
    o = tmo::eval(E, lat, d, 2e-10L * (a / aW));
    if (o.ok) {
      have = true;
      double ox = double(k0 * o.x), oy = double(k0 * o.y), ok = double(k0 * o.k), og = (double)o.gamma;
      // far-side equator: the point lies on the cut, both sheets (x, +-y, +-gamma) are its images (the code documents the southern one)
      if (alat == 0 && backside && (r.y < 0) != (oy < 0)) { oy = -oy; og = -og; }
      double dist = std::hypot(r.x - ox, r.y - oy);
      // (finding F90, repaired in /repo 5c8be26: the complementary parameter of the second EllipticFunction object is passed explicitly; no class is left,
      //  a regression alarms here; the constructor state itself is checked by op tmxc)
      if (!(dist <= tl.pos())) bad("gauss-krueger-" + N, "position differs from the independent evaluation of the Gauss-Krueger mapping by " + s9(dist) + " (tolerance " + s9(tl.pos()) + "), dx = " + sg(r.x - ox) + " dy = " + sg(r.y - oy));
      double tz = double(o.sens) * (tl.round + 16 * tl.trunc) / k0 + 64 * EPS;
      if (!(angd(r.g, og) <= tz / Math::degree() + 4e-14)) bad("convergence-" + N, "gamma differs from -arg of the derivative of the mapping by " + sg(std::remainder(r.g - og, 360.0)) + " deg (tolerance " + sg(tz / Math::degree() + 4e-14) + ")");
      if (!(std::fabs(r.k / ok - 1) <= tz)) bad("scale-" + N, "k differs from the magnification of the mapping: k/k_oracle - 1 = " + sg(r.k / ok - 1) + " (tolerance " + sg(tz) + ")");
    } else stat("oracle-not-converged");
  }
  // ---- central meridian and equator
  if (d == 0 && accurate) {
    double m = double(k0 * E.merid((LD)lat * tmo::DEG));
    if (!(std::fabs(r.x) <= tl.pos() && std::fabs(r.y - m) <= tl.pos())) bad("central-meridian-" + N, "on the central meridian (x, y) is not (0, k0 * meridian distance): x = " + sg(r.x) + ", y - k0 M = " + s9(r.y - m) + " (tolerance " + s9(tl.pos()) + ")");
    if (!(std::fabs(r.k / k0 - 1) <= 64 * EPS + tl.trunc * 16 / (a * k0))) bad("central-scale-" + N, "scale on the central meridian is not k0: k/k0 - 1 = " + sg(r.k / k0 - 1));
    if (!(angd(r.g, 0) <= 1e-13)) bad("central-convergence-" + N, "convergence on the central meridian is not 0: " + sg(r.g));
  }
  if (alat == 0 && accurate && (f <= 0 || ad < 90 * (1 - e))) {
    if (!(std::fabs(r.y) <= tl.pos())) bad("equator-" + N, "equator (inside the branch point) not mapped to y = 0: y = " + sg(r.y));
  }
  // ---- Reverse(Forward) = id
  if (std::isfinite(r.x) && std::isfinite(r.y) && (accurate || !series)) {
    R4 q = rev(t, lon0, r.x, r.y);
    double g = ground(E, lat, lon, q.x, q.y), tg = 2 * tl.pos() / std::fmax(r.k, 1e-3 * k0) + 8 * EPS * a;
    // on the cut (equator beyond the branch point) both sheets are images of the same point
    if (alat == 0 && backside) g = std::fmin(g, ground(E, lat, lon, -q.x, q.y));
    if (!(g <= tg)) bad("reverse-of-forward-" + N, "Reverse(Forward(lat, lon)) is " + s9(g) + " (ground) away from (lat, lon): returned lat = " + sg(q.x) + " lon = " + sg(q.y) + " (tolerance " + s9(tg) + ")" + (series ? std::string() : f91(a, f, k0, false, r.x, r.y)));
    double tz = (have ? std::fmax(double(o.sens), sens0) : sens0) * 2 * (tl.round + 16 * tl.trunc) / k0 + 256 * EPS;
    if (!branchy && (have || !nearbranch) && !(angd(q.g, r.g) <= tz / Math::degree() + 1e-13 && std::fabs(q.k / r.k - 1) <= tz)) bad("reverse-gamma-k-" + N, "Reverse returns gamma, k different from Forward's at the same point: dgamma = " + sg(std::remainder(q.g - r.g, 360.0)) + " k ratio - 1 = " + sg(q.k / r.k - 1) + (series ? std::string() : f91(a, f, k0, false, r.x, r.y)));
  }
  // ---- parities, periodicity, far side (properties of the implementation, exact up to the sign of zero and a few ulp)
  auto near = [&](double u, double v, double sc) { return (std::isnan(u) && std::isnan(v)) || std::fabs(u - v) <= 8 * EPS * sc + (series ? 0 : tl.round) || (std::isinf(u) && u == v); };
  double sc = std::fabs(r.x) + std::fabs(r.y) + a;
  if (!(alat == 0 && backside)) {
    R4 m = fwd(t, lon0, -lat, lon);
    if (!(near(m.x, r.x, sc) && near(m.y, -r.y, sc) && (angd(m.g, -r.g) <= 1e-12 || (std::isnan(m.g) && std::isnan(r.g))) && near(m.k, r.k, r.k))) bad("parity-lat-" + N, "Forward(-lat) is not (x, -y, -gamma, k)");
  }
  {
    R4 m = fwd(t, 0.0, lat, -d), p = fwd(t, 0.0, lat, d);
    if (!(near(m.x, -p.x, sc) && near(m.y, p.y, sc) && (angd(m.g, -p.g) <= 1e-12 || (std::isnan(m.g) && std::isnan(p.g))) && near(m.k, p.k, p.k))) bad("parity-lon-" + N, "Forward(lon0 - d) is not (-x, y, -gamma, k) of Forward(lon0 + d)");
    // lon0 is a pure shift: only lon - lon0 matters
    if (!(near(p.x, r.x, sc) && near(p.y, r.y, sc) && (angd(p.g, r.g) <= 1e-12 || std::isnan(p.g)) && near(p.k, r.k, r.k))) bad("central-meridian-shift-" + N, "Forward(lon0, lat, lon) differs from Forward(0, lat, lon - lon0)");
    R4 w = fwd(t, lon0 + 360, lat, lon - 720);
    if (std::fabs(lon0) < 1e6 && std::fabs(lon) < 1e6 && (lon0 + 360) - 360 == lon0 && (lon - 720) + 720 == lon && !(near(w.x, r.x, sc) && near(w.y, r.y, sc) && near(w.k, r.k, r.k))) bad("periodicity-" + N, "result changes when multiples of 360 are added to lon0 / lon");
  }
  if (alat != 0 && ad != 90 && std::isfinite(r.x) && (!series || tol_grid(true, a, f, k0, r.x, r.y, r.k).trunc < 1e3)) {
    // far side: lon0 + (180 - d) is the mirror image in the meridian lon0 +- 90: x equal, y reflected in the pole's image, gamma -> 180 - gamma
    double d2 = 180 - ad; R4 p = fwd(t, 0.0, lat, ad), m = fwd(t, 0.0, lat, d2);
    if (180 - d2 == ad) {
      double mq = 2 * (double)E.merid(tmo::PI / 2) * k0 * (lat > 0 ? 1 : -1);
      double tp = (series ? 2 * tl.pos() : 2 * tl.round) + 16 * EPS * sc;
      if (!(std::fabs(m.x - p.x) <= tp && std::fabs(m.y - (mq - p.y)) <= tp && angd(m.g, 180 - p.g) <= 1e-12 && near(m.k, p.k, p.k))) bad("far-side-" + N, "Forward(lon0 + 180 - d) is not the reflection (x, 2 k0 Mq - y, 180 - gamma, k) of Forward(lon0 + d): dx = " + sg(m.x - p.x) + " dy = " + sg(m.y - (mq - p.y)));
    }
  }
  // ---- conformality by finite differences of the implementation itself
  if (accurate && alat <= 89 && alat >= 0.01 && std::fabs(ad - 90) > 0.01 && ad < 179.9 && ad > 0.01 && std::isfinite(r.x) && have) {
    double h = 1e-5; R4 n1 = fwd(t, lon0, lat + h, lon), n0 = fwd(t, lon0, lat - h, lon), e1 = fwd(t, 0.0, lat, d + h), e0 = fwd(t, 0.0, lat, d - h);
    LD phi = (LD)lat * tmo::DEG; double rn = double(2 * h * tmo::DEG * E.rho(phi)), re = double(2 * h * tmo::DEG * E.radius(phi));
    // exact increments actually applied
    rn *= ((lat + h) - (lat - h)) / (2 * h); re *= ((d + h) - (d - h)) / (2 * h);
    double nx = (n1.x - n0.x) / rn, ny = (n1.y - n0.y) / rn, ex = (e1.x - e0.x) / re, ey = (e1.y - e0.y) / re;
    double kn = std::hypot(nx, ny), ke = std::hypot(ex, ey), gn = -std::atan2(nx, ny) / Math::degree(), ge = -std::atan2(-ey, ex) / Math::degree();
    double s2 = double(o.sens) * double(o.k) * (double)E.radius(phi);   // |d ln M'/dw|
    double tf = 1e-6 * (1 + s2 * s2) / std::fmax(std::cos(lat * Math::degree()), 0.02) + 4 * tl.pos() / std::fmin(rn, re) / std::fmax(r.k, 1e-3 * k0);
    if (!(std::fabs(kn / r.k - 1) <= tf && std::fabs(ke / r.k - 1) <= tf && angd(gn, r.g) <= tf / Math::degree() && angd(ge, r.g) <= tf / Math::degree()))
      bad("conformality-" + N, "finite differences of Forward give scale (N " + sg(kn) + ", E " + sg(ke) + ") and rotation (N " + sg(gn) + ", E " + sg(ge) + ") but k = " + sg(r.k) + ", gamma = " + sg(r.g) + " were returned (relative tolerance " + sg(tf) + ")");
  }
}

static bool use_series(double f) { return std::fabs(f) <= 0.0101; }
static bool use_exact(double f) { return f > 0; }
static std::string h4(const R4& r) { return hx(r.x) + " " + hx(r.y) + " " + hx(r.g) + " " + hx(r.k); }
static const R4 NAN4 = {NAN, NAN, NAN, NAN};

// tmfwd a f k0 lon0 lat lon
static Reg r_fwd("tmfwd", [](const Args& A) {
  double a = unhx(A[0]), f = unhx(A[1]), k0 = unhx(A[2]), lon0 = unhx(A[3]), lat = unhx(A[4]), lon = unhx(A[5]);
  R4 rs = NAN4, re = NAN4;
  if (use_series(f)) { TransverseMercator S(a, f, k0); rs = fwd(S, lon0, lat, lon); }
  if (use_exact(f)) { TransverseMercatorExact T(a, f, k0); re = fwd(T, lon0, lat, lon); }
  emit(h4(rs) + " " + h4(re));
  if (use_series(f)) { TransverseMercator S(a, f, k0); props("series", true, S, a, f, k0, lon0, lat, lon, false); }
  if (use_exact(f)) {
    TransverseMercatorExact T(a, f, k0); props("exact", false, T, a, f, k0, lon0, lat, lon, false);
    TransverseMercatorExact X(a, f, k0, true); props("exact-extendp", false, X, a, f, k0, lon0, lat, lon, true);
    // extended and standard conventions coincide on the first quadrant
    double d = Math::AngDiff(lon0, lon);
    if (lat >= 0 && !std::signbit(lat) && lat < 90 && d >= 0 && !std::signbit(d) && d <= 90) { R4 rx = fwd(X, lon0, lat, lon); Tol tl = tol_grid(false, a, f, k0, re.x, re.y, re.k);
      if (!(std::hypot(rx.x - re.x, rx.y - re.y) <= tl.pos() && angd(rx.g, re.g) <= 1e-9 && std::fabs(rx.k / re.k - 1) <= 1e-9)) bad("extendp-first-quadrant", "extendp = true and false differ on lat >= 0, 0 <= lon - lon0 <= 90"); }
    // TransverseMercator(exact = true) delegates
    TransverseMercator D(a, f, k0, true); R4 rd = fwd(D, lon0, lat, lon);
    if (!((bits(rd.x) == bits(re.x) || (std::isnan(rd.x) && std::isnan(re.x))) && (bits(rd.y) == bits(re.y) || (std::isnan(rd.y) && std::isnan(re.y))))) bad("exact-true-delegation", "TransverseMercator(a, f, k0, true).Forward differs from TransverseMercatorExact.Forward");
  }
  // the two implementations agree where both are claimed
  double d = Math::AngDiff(lon0, lon);
  if (use_series(f) && use_exact(f) && std::fabs(lat) <= 90 && std::fabs(d) < 90 && std::isfinite(rs.x) && std::isfinite(re.x)) {
    Tol ts = tol_grid(true, a, f, k0, re.x, re.y, re.k), te = tol_grid(false, a, f, k0, re.x, re.y, re.k);
    if (ts.trunc <= 1e-3) { double dist = std::hypot(rs.x - re.x, rs.y - re.y);
      if (!(dist <= ts.pos() + te.pos())) bad("series-vs-exact", "series and exact positions differ by " + s9(dist) + " (tolerance " + s9(ts.pos() + te.pos()) + ")");
      double tz = (1 + std::tan(std::fmin(std::fabs(lat), 89.9999999999999) * Math::degree())) / a * 16 * (ts.pos() + 16 * ts.trunc + te.pos()) / k0 + 256 * EPS;   // sensitivity tan(phi)/a per grid metre
      if (std::fabs(lat) < 90 && !(angd(rs.g, re.g) <= tz / Math::degree() + 1e-13 && std::fabs(rs.k / re.k - 1) <= tz)) bad("series-vs-exact-gamma-k", "series and exact convergence/scale differ: dgamma = " + sg(std::remainder(rs.g - re.g, 360.0)) + ", k ratio - 1 = " + sg(rs.k / re.k - 1) + " (tolerance " + sg(tz) + ")"); }
  }
});

// ---- Forward(Reverse(x, y)) and the parities of Reverse
template<class T> static void rprops(const char* nm, bool series, const T& t, double a, double f, double k0, double lon0, double x, double y) {
  std::string N = nm; tmo::Ell E(a, f);
  if (!(std::isfinite(x) && std::isfinite(y) && std::isfinite(lon0))) return;
  R4 q = rev(t, lon0, x, y);   // q.x = lat, q.y = lon
  Tol tl = tol_grid(series, a, f, k0, x, y, std::isfinite(q.k) ? q.k : k0);
  bool accurate = !series || tl.trunc <= 1e-3;
  if (!accurate) { stat("skipped-outside-series-domain"); return; }
  if (!(std::fabs(q.x) <= 90 && std::fabs(q.y) <= 180)) { bad("reverse-range-" + N, "Reverse returns lat/lon outside [-90, 90] x [-180, 180]: " + sg(q.x) + " " + sg(q.y)); return; }
  R4 r = fwd(t, lon0, q.x, q.y);
  double dist = std::hypot(r.x - x, r.y - y);
  // (x, y) with |y| beyond the far-side pole image or on the cut has several pre-images in the plane; compare as ground points then
  double tg = 2 * tl.pos() + 16 * EPS * a * std::fmax(q.k, k0);
  if (std::fabs(q.x) == 90) tg += 1e-2;   // returned latitude exactly 90: position resolution at the pole is ulp(90 deg) ~ 1.6 nm, but lon is arbitrary
  if (!(dist <= tg)) {
    R4 q2 = rev(t, lon0, r.x, r.y); double g = ground(E, q.x, q.y, q2.x, q2.y);
    if (!(g <= 2 * tl.pos() / std::fmax(q.k, 1e-3 * k0) + 8 * EPS * a)) bad("forward-of-reverse-" + N, "Forward(Reverse(x, y)) is " + s9(dist) + " away from (x, y) (tolerance " + s9(tg) + ") and is not another image of the same point" + (series ? std::string() : f91(a, f, k0, false, x, y)));
    else stat("forward-of-reverse-other-sheet");
  }
  { double e = f > 0 ? std::sqrt(f * (2 - f)) : 0, ad = std::fabs(Math::AngDiff(lon0, q.y));
    bool nearbranch = f > 0 && std::fabs(q.x) < 2 && (std::fabs(ad - 90 * (1 - e)) < 2 || std::fabs(ad - 90 * (1 + e)) < 2);
    double sens0 = (1 + std::tan(std::fmin(std::fabs(q.x), 89.9999999999999) * Math::degree())) / a * 16;
    double tz = sens0 * 2 * (tl.round + 16 * tl.trunc) / k0 + 256 * EPS;
    if (dist <= tg && !nearbranch && std::isfinite(q.g) && std::fabs(q.x) < 90 && !(angd(q.g, r.g) <= tz / Math::degree() + 1e-13 && std::fabs(q.k / r.k - 1) <= tz)) bad("reverse-gamma-k-" + N, "Reverse and Forward disagree on gamma, k at the same point: " + sg(q.g) + " vs " + sg(r.g) + ", " + sg(q.k) + " vs " + sg(r.k) + " (tolerance " + sg(tz) + ")" + (series ? std::string() : f91(a, f, k0, false, x, y))); }
  // parities (lon0 = 0)
  R4 p = rev(t, 0.0, x, y), mx = rev(t, 0.0, -x, y), my = rev(t, 0.0, x, -y);
  auto eqz = [&](double u, double v) { return (std::isnan(u) && std::isnan(v)) || std::fabs(u - v) <= 1e-13 * (1 + std::fabs(u)); };
  if (std::fabs(p.y) != 180 && std::fabs(p.g) != 180) {
    if (x != 0 && !(eqz(mx.x, p.x) && eqz(mx.y, -p.y) && eqz(mx.g, -p.g) && eqz(mx.k, p.k))) bad("reverse-parity-x-" + N, "Reverse(-x, y) is not (lat, -lon, -gamma, k)");
    if (y != 0 && !(eqz(my.x, -p.x) && eqz(my.y, p.y) && eqz(my.g, -p.g) && eqz(my.k, p.k))) bad("reverse-parity-y-" + N, "Reverse(x, -y) is not (-lat, lon, -gamma, k)");
  }
  // lon0 is a pure shift
  if (!(eqz(q.x, p.x) && angd(q.y, p.y + lon0) <= 1e-12 && eqz(q.k, p.k))) bad("reverse-central-meridian-shift-" + N, "Reverse(lon0, x, y) is not Reverse(0, x, y) shifted by lon0");
}
static Reg r_rev("tmrev", [](const Args& A) {
  double a = unhx(A[0]), f = unhx(A[1]), k0 = unhx(A[2]), lon0 = unhx(A[3]), x = unhx(A[4]), y = unhx(A[5]);
  R4 rs = NAN4, re = NAN4;
  if (use_series(f)) { TransverseMercator S(a, f, k0); rs = rev(S, lon0, x, y); }
  if (use_exact(f)) { TransverseMercatorExact T(a, f, k0); re = rev(T, lon0, x, y); }
  emit(h4(rs) + " " + h4(re));
  if (use_series(f)) { TransverseMercator S(a, f, k0); rprops("series", true, S, a, f, k0, lon0, x, y); }
  if (use_exact(f)) { TransverseMercatorExact T(a, f, k0); rprops("exact", false, T, a, f, k0, lon0, x, y); }
});

// ---- wrapper correspondence: the answer on a general input is predicted from the implementation's own answer on the folded
// (first-quadrant) input, computed with a copy of the object whose scale constants are 1 (so that it returns xi, eta themselves)
static void unit(TransverseMercator& u) { u._a1 = 1; u._k0 = 1; }
static void unit(TransverseMercatorExact& u) { u._a = 1; u._k0 = 1; }
struct WCfg { bool series, ext; double top, half, a, k0; };
static WCfg wcfg(const TransverseMercator& t) { return {true, false, Math::pi(), Math::pi() / 2, t._a1, t._k0}; }
static WCfg wcfg(const TransverseMercatorExact& t) { return {false, t._extendp, 2 * t._eEu.E(), t._eEu.E(), t._a, t._k0}; }
static std::string hcfg(const WCfg& c) { return std::string(c.series ? "1" : "0") + " " + (c.ext ? "1" : "0") + " " + hx(c.top) + " " + hx(c.half) + " " + hx(c.a) + " " + hx(c.k0); }

template<class T> static void wrapF(const T& t, const std::string& head, double lon0, double lat, double lon) {
  WCfg c = wcfg(t); T u = t; unit(u);
  double la = Math::LatFix(lat), lo = Math::AngDiff(lon0, lon);
  int latsign = (!c.ext && std::signbit(la)) ? -1 : 1, lonsign = (!c.ext && std::signbit(lo)) ? -1 : 1;
  lo *= lonsign; la *= latsign; bool back = !c.ext && lo > 90; if (back) lo = 180 - lo;
  R4 k = fwd(u, 0.0, la, lo), o = fwd(t, lon0, lat, lon);
  current_op() = head + " " + hcfg(c) + " " + hx(la) + " " + hx(lo) + " " + h4(k);
  emit(h4(o));
}
template<class T> static void wrapR(const T& t, const std::string& head, double lon0, double x, double y) {
  WCfg c = wcfg(t); T u = t; unit(u);
  double xi = y / (c.a * c.k0), eta = x / (c.a * c.k0);
  int xisign = (!c.ext && std::signbit(xi)) ? -1 : 1, etasign = (!c.ext && std::signbit(eta)) ? -1 : 1;
  xi *= xisign; eta *= etasign; bool back = !c.ext && xi > c.half; if (back) xi = c.top - xi;
  R4 k = rev(u, 0.0, eta, xi), o = rev(t, lon0, x, y);
  current_op() = head + " " + hcfg(c) + " " + hx(xi) + " " + hx(eta) + " " + h4(k);
  emit(h4(o));
}
// tmwf form a f k0 lon0 lat lon [derived values ignored on replay]
static Reg r_wf("tmwf", [](const Args& A) {
  double a = unhx(A[1]), f = unhx(A[2]), k0 = unhx(A[3]), lon0 = unhx(A[4]), lat = unhx(A[5]), lon = unhx(A[6]);
  std::string head = "tmwf " + A[0] + " " + A[1] + " " + A[2] + " " + A[3] + " " + A[4] + " " + A[5] + " " + A[6];
  if (A[0] == "S") wrapF(TransverseMercator(a, f, k0), head, lon0, lat, lon); else wrapF(TransverseMercatorExact(a, f, k0, A[0] == "X"), head, lon0, lat, lon);
});
static Reg r_wr("tmwr", [](const Args& A) {
  double a = unhx(A[1]), f = unhx(A[2]), k0 = unhx(A[3]), lon0 = unhx(A[4]), x = unhx(A[5]), y = unhx(A[6]);
  std::string head = "tmwr " + A[0] + " " + A[1] + " " + A[2] + " " + A[3] + " " + A[4] + " " + A[5] + " " + A[6];
  if (A[0] == "S") wrapR(TransverseMercator(a, f, k0), head, lon0, x, y); else wrapR(TransverseMercatorExact(a, f, k0, A[0] == "X"), head, lon0, x, y);
});

// ---- series kernel on the first quadrant (unit scale), for the formula model
// tmkf a f lat lon
static Reg r_kf("tmkf", [](const Args& A) {
  double a = unhx(A[0]), f = unhx(A[1]), lat = unhx(A[2]), lon = unhx(A[3]);
  TransverseMercator u(a, f, 1.0); unit(u); R4 k = fwd(u, 0.0, lat, lon);
  double sphi, cphi, slam, clam; Math::sincosd(lat, sphi, cphi); Math::sincosd(lon, slam, clam);
  current_op() = "tmkf " + A[0] + " " + A[1] + " " + A[2] + " " + A[3] + " " + hx(sphi) + " " + hx(cphi) + " " + hx(slam) + " " + hx(clam);
  emit(h4(k));
});
// tmkr a f xi eta
static Reg r_kr("tmkr", [](const Args& A) {
  double a = unhx(A[0]), f = unhx(A[1]), xi = unhx(A[2]), eta = unhx(A[3]);
  TransverseMercator u(a, f, 1.0); unit(u); R4 k = rev(u, 0.0, eta, xi);
  emit(h4(k));
});

void gv::generate(const std::string& tier, uint64_t seed) {
  Rng r(seed * 2862933555777941757ULL + 6);
  long n = tier == "thorough" ? 10000 : 1300;
  struct El { double a, f; }; std::vector<El> els = {{aW, fW}, {6.4e6, 1 / 150.0}, {6.4e6, 0.01}, {6.4e6, -0.01}, {6.4e6, 0.1}, {aW, fW}, {aW, -fW}, {6.4e6, 0.0}, {6.4e6, 1e-6}};
  std::vector<double> k0s = {1, 0.9996, 10}, lon0s = {0, 7, -123.5, 179, -180, 540, -75.25, 1e-10};
  std::vector<double> dls = {0, 1e-10, 3, 35, 60, 89, 90, 90 - 1e-10, 90 + 1e-10, 179, 180};
  std::vector<double> las = {0, -0.0, 1e-10, -1e-10, 89.999999, -89.999999, 90, -90, 89.9999999999, -89.9999999999};
  for (long i = 0; i < n; ++i) {
    El e = els[i % els.size()]; double k0 = r.pick(k0s), lon0 = r.pick(lon0s);
    double ecc = e.f > 0 ? std::sqrt(e.f * (2 - e.f)) : 0, bp = 90 * (1 - ecc);
    double lat, d; int ks = r.irange(0, 11); std::string st;
    switch (ks) {
    case 0: lat = r.pick(las); d = r.pick(dls); st = "anchor-lat-anchor-lon"; break;
    case 1: lat = r.range(-90, 90); d = r.pick(dls); st = "anchor-lon"; break;
    case 2: lat = r.pick(las); d = r.range(0, 180); st = "anchor-lat"; break;
    case 3: lat = r.range(-90, 90); d = r.range(0, 35); st = "within-35"; break;
    case 4: lat = r.range(-90, 90); d = r.range(35, 90); st = "35-to-90"; break;
    case 5: lat = r.range(-90, 90); d = r.range(90, 180); st = "far-side"; break;
    case 6: lat = r.coin() ? 0.0 : -0.0; d = r.irange(0, 3) == 0 ? bp : (r.coin() ? nextup(bp, r.irange(1, 4)) : nextdn(bp, r.irange(1, 4))); st = "branch-point"; break;
    case 7: lat = r.coin() ? 0.0 : -0.0; d = r.coin() ? r.range(bp, 90) : r.range(bp, 90 * (1 + ecc)); if (r.irange(0, 5) == 0) d = 90; st = "equator-beyond-branch-point"; break;
    case 8: lat = r.range(-1, 1) * std::pow(10.0, -r.irange(1, 12)); d = r.range(bp - 2, 92); st = "near-equator-near-branch-point"; break;
    case 9: lat = r.pick(std::vector<double>{0.0, -0.0}); d = r.range(0, bp); st = "equator"; break;
    case 10: lat = r.range(-90, 90); d = 0; st = "central-meridian"; break;
    default: lat = r.range(-90, 90); d = r.range(0, 90); lon0 = 360.0 * r.irange(-1000000, 1000000) + r.pick(lon0s); st = "huge-lon0"; break;
    }
    if (r.coin()) d = -d;
    double lon = lon0 + d;
    if (ks == 6 || ks == 7) { lon0 = 0; lon = d; }      // keep the offset exact on the strata where a single ulp matters
    if (i % 37 == 5) { lon0 = 179; lon = -179 - r.range(0, 30); st = "lon0-wrap"; }
    if (i % 43 == 9) {   // central meridian at / next to the date line, the point on the other side of it (AngDiff must wrap)
      lon0 = r.pick(std::vector<double>{180.0, -180.0, 179.9999999, -179.9999999, nextdn(180.0), 179.5}); double dd = r.pick(std::vector<double>{r.range(0, 3), r.range(0, 35), 1e-9, 0.0, 90.0, 89.0});
      lon = (lon0 > 0 ? lon0 - 360 : lon0 + 360) + (lon0 > 0 ? dd : -dd); st = "lon0-dateline"; }
    if (i % 41 == 7) { lon = lon0 + d + 360.0 * r.irange(-40000000, 40000000); st = "huge-lon"; }
    if (i % 97 == 11) { lat = r.pick(std::vector<double>{90.0000001, -91.0, NAN}); st = "invalid-lat"; }
    run("tmfwd", {hx(e.a), hx(e.f), hx(k0), hx(lon0), hx(lat), hx(lon)}); stratum("fwd-" + st + (e.f == fW ? "-wgs84" : "-f" + std::to_string(e.f).substr(0, 6)));
    if (i < 4) sample(current_op());
    // reverse: points of the plane
    { double A = e.a * k0, x, y; int kr = r.irange(0, 5);
      switch (kr) {
      case 0: x = 0; y = r.range(-1.5, 1.5) * A; break;
      case 1: x = r.range(-0.6, 0.6) * A; y = 0; break;
      case 2: x = r.range(-0.6, 0.6) * A; y = r.range(-1.57, 1.57) * A; break;
      case 3: x = r.range(-0.6, 0.6) * A; y = r.range(-3.1, 3.1) * A; break;                       // incl. far side
      case 4: x = r.range(-3, 3) * A; y = r.range(-3.1, 3.1) * A; break;                           // exact form's domain (series skipped by its tolerance rule)
      default: x = r.range(-1, 1) * std::pow(10.0, -r.irange(0, 9)) * A; y = r.range(-1, 1) * std::pow(10.0, -r.irange(0, 9)) * A; break; }
      run("tmrev", {hx(e.a), hx(e.f), hx(k0), hx(lon0), hx(x), hx(y)}); stratum("rev-" + std::to_string(kr));
      // wrapper correspondence (all three forms)
      const char* forms[3] = {"S", "E", "X"};
      for (int fi = 0; fi < 3; ++fi) { if (fi == 0 && !use_series(e.f)) continue; if (fi > 0 && !use_exact(e.f)) continue;
        double wl = ks == 0 || r.irange(0, 3) ? lat : r.pick(las), wd = r.irange(0, 2) ? lon : lon0 + r.pick(dls) * (r.coin() ? 1 : -1);
        if (fi == 2 && r.coin()) { wl = std::fabs(wl); wd = lon0 + std::fabs(Math::AngDiff(lon0, wd)); }
        run("tmwf", {forms[fi], hx(e.a), hx(e.f), hx(k0), hx(lon0), hx(wl), hx(wd)}); stratum(std::string("wrap-fwd-") + forms[fi]);
        double wx = r.irange(0, 4) ? x : 0.0, wy = r.irange(0, 4) ? y : -0.0; if (fi == 0) { wx = std::fmax(-A, std::fmin(A, wx)); }
        run("tmwr", {forms[fi], hx(e.a), hx(e.f), hx(k0), hx(lon0), hx(wx), hx(wy)}); stratum(std::string("wrap-rev-") + forms[fi]); }
    }
    // series kernel against the formula model: first quadrant
    if (use_series(e.f)) {
      double kl = ks == 0 ? std::fabs(lat) : r.pick(std::vector<double>{r.range(0, 90), r.range(0, 90), 0.0, 90.0, 1e-10, 89.999999, 45.0}), kd = r.pick(std::vector<double>{r.range(0, 60), r.range(0, 35), 0.0, 3.0, 1e-10, 35.0, 60.0});
      if (!(kl <= 90)) kl = 90;
      run("tmkf", {hx(e.a), hx(e.f), hx(kl), hx(kd)}); stratum("kernel-fwd");
      double xi = r.pick(std::vector<double>{r.range(0, 1.5707), r.range(0, 1.5707), 0.0, 1e-10, 1.5707963267948966, 0.7}), eta = r.pick(std::vector<double>{r.range(0, 1.2), r.range(0, 0.6), 0.0, 1e-10, 0.05});
      run("tmkr", {hx(e.a), hx(e.f), hx(xi), hx(eta)}); stratum("kernel-rev");
    }
    // overloads, inspectors, delegation, UTM() instances, the command-line tool
    tmapi::generate(r, i, e.a, e.f, k0, lon0, lat, lon);
    { double es = (e.f < 0 ? -1 : 1) * std::sqrt(std::fabs(e.f * (2 - e.f)));
      double tau = r.pick(std::vector<double>{r.range(-10, 10), std::tan(r.range(-1.5707, 1.5707)), 0.0, 1e-300, 1e17, -1e17, r.range(-1, 1) * 1e-8, 70.0 * (1 + r.range(-1, 1) * 1e-3), 1e9});
      run("tmtau", {hx(es), hx(tau)}); stratum("taupf-tauf"); }
    // exact form: closed forms, starting guesses, Newton loops, kernels against Model/TMExact.lean
    if (use_exact(e.f)) tmx::generate(r, i, e.f);
  }
}
int main(int argc, char** argv) { return gv::main_(argc, argv); }
