// C17, part 1: NearestNeighbor (vantage-point tree).  dist_t = long long (exact, tie-rich) for the ops the Lean
// model replays; dist_t = double with GeodesicExact distances for the harness-only brute-force oracle.
#pragma once
#include "common.hpp"
#include <GeographicLib/NearestNeighbor.hpp>
#include <GeographicLib/GeodesicExact.hpp>
#include <algorithm>
#include <set>

namespace c17nn {
using namespace GeographicLib; using namespace gv;
typedef long long D;
struct Pt { long long x, y; double lat, lon; };

// metric kinds: 0 L1 on a 9x9 grid (duplicates, ties), 1 L1 on a 1000x1000 grid, 2 collinear (y = 0; triangle equality everywhere),
// 3 Chebyshev (L-infinity) on a 40x40 grid, 4 GeodesicExact distance in millimetres rounded UP (ceil keeps the triangle inequality)
struct DistFn {
  int kind;
  D operator()(const Pt& a, const Pt& b) const {
    switch (kind) {
    case 3: return std::max(std::llabs(a.x - b.x), std::llabs(a.y - b.y));
    case 4: { if (a.lat == b.lat && a.lon == b.lon) return 0; double s; geo().Inverse(a.lat, a.lon, b.lat, b.lon, s); return D(std::ceil(s * 1000)); }
    default: return std::llabs(a.x - b.x) + std::llabs(a.y - b.y);
    }
  }
  static const GeodesicExact& geo() { static const GeodesicExact g(Constants::WGS84_a(), Constants::WGS84_f()); return g; }
};
typedef NearestNeighbor<D, Pt, DistFn> NN;
static const D DMAX = std::numeric_limits<D>::max();

inline Pt rnd_point(int kind, Rng& r) {
  Pt p{0, 0, 0, 0};
  switch (kind) {
  case 0: p.x = r.irange(0, 8); p.y = r.irange(0, 8); break;
  case 1: p.x = r.irange(0, 1000); p.y = r.irange(0, 1000); break;
  case 2: p.x = r.irange(0, 60); p.y = 0; break;
  case 3: p.x = r.irange(0, 40); p.y = r.irange(0, 40); break;
  default: {
    // lat/lon on a coarse lattice of 1/4 degree (duplicates and meridian/parallel-aligned points occur), a few at the poles
    p.lat = r.irange(0, 9) == 0 ? (r.coin() ? 90 : -90) : 0.25 * r.irange(-359, 359); p.lon = 0.25 * r.irange(-720, 719);
    if (r.irange(0, 3) == 0) { p.lat = 10 + 0.25 * r.irange(0, 8); p.lon = 20 + 0.25 * r.irange(0, 8); }   // a dense cluster
    p.x = (long long)std::llround(p.lat * 4); p.y = (long long)std::llround(p.lon * 4); }
  }
  return p;
}
inline std::vector<Pt> make_points(int kind, uint64_t seed, int n) {
  Rng r(seed * 0x9e3779b97f4a7c15ULL + 17 * kind + 1); std::vector<Pt> v; v.reserve(n);
  for (int i = 0; i < n; ++i) v.push_back(rnd_point(kind, r));
  return v;
}
inline Pt make_query(int kind, uint64_t qseed, const std::vector<Pt>& pts) {
  Rng r(qseed * 0xbf58476d1ce4e5b9ULL + 5);
  if (!pts.empty() && r.irange(0, 2) == 0) return pts[r.next() % pts.size()];
  return rnd_point(kind, r);
}

// brute force: the k smallest distances within (mindist, maxdist], ascending
template<class DT> std::vector<DT> brute(const std::vector<DT>& dq, int k, DT maxdist, DT mindist) {
  std::vector<DT> c; for (DT d : dq) if (d > mindist && d <= maxdist) c.push_back(d);
  std::sort(c.begin(), c.end()); if (k < 0) k = 0; if ((int)c.size() > k) c.resize(k); return c;
}

// a copy of the tree through Save/Load: via 0 = none, 1 = text, 2 = binary, 3 = operator<< / operator>>
template<class T> void copy_via(const T& src, T& dst, int via) {
  std::stringstream ss;
  if (via == 3) { ss << src; ss >> dst; }
  else { src.Save(ss, via == 2); dst.Load(ss, via == 2); }
}
inline std::vector<std::string> split_ws(const std::string& s) { std::istringstream is(s); std::vector<std::string> v; std::string t; while (is >> t) v.push_back(t); return v; }

// watchdog: Search on a loaded tree must terminate
inline void on_alarm(int) {
  std::printf("#BAD search-hang :: %s :: Search did not terminate within the watchdog time\n", current_op().c_str()); std::fflush(stdout); _exit(0);
}
struct Watch { Watch(int s) { std::signal(SIGALRM, on_alarm); alarm(s); } ~Watch() { alarm(0); } };

// property-level oracle for one search result (integer metrics): returns "" or a description
inline std::string judge(const std::vector<D>& dq, const std::vector<int>& ind, D ret, int k, D maxdist, D mindist, bool exh, D tol) {
  std::set<int> seen; std::vector<D> got;
  for (int i : ind) {
    if (i < 0 || i >= (int)dq.size()) return "index out of range";
    if (!seen.insert(i).second) return "index " + std::to_string(i) + " returned twice";
    if (!(dq[i] > mindist && dq[i] <= maxdist)) return "index " + std::to_string(i) + " at distance " + std::to_string(dq[i]) + " outside (mindist, maxdist]";
    got.push_back(dq[i]);
  }
  if (!std::is_sorted(got.begin(), got.end())) return "indices not sorted by distance";
  if (ret != (got.empty() ? -1 : got[0])) return "function value " + std::to_string(ret) + " is not the closest distance";
  if ((int)got.size() > std::max(k, 0)) return "more than k results";
  if (tol != 0) return "";
  std::vector<D> want = brute(dq, k, maxdist, mindist);
  if (exh) {
    if (got != want) {
      std::string s = "distances differ from brute force: got [";
      for (D d : got) s += std::to_string(d) + ","; s += "] want ["; for (D d : want) s += std::to_string(d) + ","; return s + "]";
    }
  } else if (got.size() != want.size()) return "non-exhaustive search returned " + std::to_string(got.size()) + " results, " + std::to_string(want.size()) + " exist";
  return "";
}

// nn_search kind seed n bucket via k maxdist mindist exh tol qseed | ret m ind… T <text tokens of Save> (P <n+1> qx qy x0 y0 … | D <n> dq0 …)
static Reg r_search("nn_search", [](const Args& a) {
  int kind = std::stoi(a[0]); uint64_t seed = std::stoull(a[1]); int n = std::stoi(a[2]), bucket = std::stoi(a[3]), via = std::stoi(a[4]), k = std::stoi(a[5]);
  D maxdist = std::stoll(a[6]), mindist = std::stoll(a[7]); bool exh = std::stoi(a[8]) != 0; D tol = std::stoll(a[9]); uint64_t qseed = std::stoull(a[10]);
  std::vector<Pt> pts = make_points(kind, seed, n); DistFn df{kind}; Pt q = make_query(kind, qseed, pts);
  NN nn0(pts, df, bucket), nn1; const NN* nn = &nn0;
  if (via) {
    std::string e = guarded([&] { copy_via(nn0, nn1, via); });
    if (!e.empty()) { emit("!L"); bad("save-load-roundtrip", "Load threw " + e + " on the image written by Save (via=" + std::to_string(via) + ")"); return; }
    nn = &nn1;
  }
  std::vector<int> ind; D ret;
  { Watch w(20); ret = nn->Search(pts, df, q, ind, k, maxdist, mindist, exh, tol); }
  std::vector<D> dq(n); for (int i = 0; i < n; ++i) dq[i] = df(pts[i], q);
  std::ostringstream os; nn->Save(os, false);
  std::string out = std::to_string(ret) + " " + std::to_string(ind.size()); for (int i : ind) out += " " + std::to_string(i);
  out += " T"; for (auto& t : split_ws(os.str())) out += " " + t;
  if (kind <= 3) { out += " P " + std::to_string(n + 1) + " " + std::to_string(q.x) + " " + std::to_string(q.y); for (auto& p : pts) out += " " + std::to_string(p.x) + " " + std::to_string(p.y); }
  else { out += " D " + std::to_string(n); for (D d : dq) out += " " + std::to_string(d); }
  emit(out);
  std::string why = judge(dq, ind, ret, k, maxdist, mindist, exh, tol);
  if (!why.empty()) bad("search-vs-bruteforce", why);
});

// nn_bulk kind seed n bucket nq | searches failures   — larger sets, all copies, many parameter combinations (harness oracle only)
static Reg r_bulk("nn_bulk", [](const Args& a) {
  int kind = std::stoi(a[0]); uint64_t seed = std::stoull(a[1]); int n = std::stoi(a[2]), bucket = std::stoi(a[3]), nq = std::stoi(a[4]);
  std::vector<Pt> pts = make_points(kind, seed, n); DistFn df{kind};
  NN nn[4]; nn[0].Initialize(pts, df, bucket);
  long searches = 0, fails = 0;
  std::ostringstream t0, b0; nn[0].Save(t0, false); nn[0].Save(b0, true);
  for (int via = 1; via <= 3; ++via) {
    std::string e = guarded([&] { copy_via(nn[0], nn[via], via); });
    if (!e.empty()) { bad("save-load-roundtrip", "Load threw " + e + " on the image written by Save (via=" + std::to_string(via) + ")"); emit("0 1"); return; }
    std::ostringstream t1, b1; nn[via].Save(t1, false); nn[via].Save(b1, true);
    if (t1.str() != t0.str() || b1.str() != b0.str()) { bad("save-load-roundtrip", "Save(Load(Save(tree))) differs from Save(tree), via=" + std::to_string(via)); ++fails; }
    if (nn[via].NumPoints() != n) { bad("save-load-roundtrip", "NumPoints changed"); ++fails; }
  }
  // scale of distances for the window parameters
  D scale = kind == 0 ? 16 : kind == 1 ? 2000 : kind == 2 ? 60 : kind == 3 ? 40 : 20000000000LL;
  Rng r(seed * 31 + 7);
  for (int iq = 0; iq < nq; ++iq) {
    Pt q = make_query(kind, seed * 1000 + iq, pts);
    std::vector<D> dq(n); for (int i = 0; i < n; ++i) dq[i] = df(pts[i], q);
    for (int c = 0; c < 8; ++c) {
      static const int ks[] = {1, 1, 2, 3, 5, 8, 0, -1};
      int k = c == 7 ? n + r.irange(0, 2) : (c == 6 ? n : ks[r.irange(0, 7)]);
      D maxdist = r.irange(0, 2) == 0 ? DMAX : D(scale * r.pick(std::vector<double>{0.02, 0.1, 0.3, 0.6, 1.0, 0.0}));
      D mindist = r.irange(0, 3) == 0 ? -1 : r.irange(0, 2) == 0 ? 0 : D(scale * r.pick(std::vector<double>{0.01, 0.05, 0.1, 0.3, 0.6}));
      bool exh = r.irange(0, 5) != 0;
      for (int via = 0; via <= 3; ++via) {
        if (via && r.irange(0, 1)) continue;
        std::vector<int> ind; D ret = nn[via].Search(pts, df, q, ind, k, maxdist, mindist, exh, 0); ++searches;
        std::string why = judge(dq, ind, ret, k, maxdist, mindist, exh, 0);
        if (!why.empty()) {
          ++fails;
          if (fails <= 3) bad("search-vs-bruteforce", why + " [query #" + std::to_string(iq) + " k=" + std::to_string(k) + " maxdist=" + std::to_string(maxdist) + " mindist=" + std::to_string(mindist) +
                              " exhaustive=" + std::to_string(exh) + " via=" + std::to_string(via) + "]");
        }
      }
    }
  }
  // wrong-size point vector must throw
  if (n > 0) { std::vector<Pt> p2(pts.begin(), pts.end() - 1); std::vector<int> ind; std::string e = guarded([&] { nn[0].Search(p2, df, pts[0], ind); }); if (e != "!E") { bad("search-wrong-size", "Search with a point vector of another size did not throw GeographicErr"); ++fails; } }
  emit(std::to_string(searches) + " " + std::to_string(fails));
});

// nn_geo seed n bucket nq | searches failures   — dist_t = double, GeodesicExact metric on lat/lon points
struct GeoDist { double operator()(const Pt& a, const Pt& b) const { if (a.lat == b.lat && a.lon == b.lon) return 0; double s; DistFn::geo().Inverse(a.lat, a.lon, b.lat, b.lon, s); return s; } };
static Reg r_geo("nn_geo", [](const Args& a) {
  uint64_t seed = std::stoull(a[0]); int n = std::stoi(a[1]), bucket = std::stoi(a[2]), nq = std::stoi(a[3]);
  Rng r(seed * 77 + 3); std::vector<Pt> pts;
  for (int i = 0; i < n; ++i) { Pt p{0, 0, r.range(-90, 90), r.range(-180, 180)}; if (r.irange(0, 9) == 0 && i) p = pts[r.next() % pts.size()]; pts.push_back(p); }
  typedef NearestNeighbor<double, Pt, GeoDist> G; GeoDist df; G nn[3]; nn[0].Initialize(pts, df, bucket);
  { std::string e = guarded([&] { copy_via(nn[0], nn[1], 1); copy_via(nn[0], nn[2], 2); });
    if (!e.empty()) { bad("save-load-roundtrip", "Load threw " + e + " on the image written by Save (double distances)"); emit("0 1"); return; } }
  long searches = 0, fails = 0;
  // a save/load round trip must be lossless also for a floating distance type: the binary image of the tree read back from
  // text (and from binary) equals the binary image of the original, so the node bounds are bit-for-bit the same
  { std::ostringstream b0; nn[0].Save(b0, true);
    for (int via = 1; via <= 2; ++via) { std::ostringstream b1; nn[via].Save(b1, true);
      if (b1.str() != b0.str()) { bad("save-load-roundtrip", std::string("the tree read back from the ") + (via == 1 ? "text" : "binary") + " image differs from the original (double distances: node bounds not reproduced exactly)"); ++fails; } }
    G nn3; std::string e = guarded([&] { copy_via(nn[0], nn3, 3); }); std::ostringstream b3; if (e.empty()) nn3.Save(b3, true);
    if (!e.empty() || b3.str() != b0.str()) { bad("save-load-roundtrip", "operator<< / operator>> round trip is not lossless (double distances)"); ++fails; } }
  // the computed geodesic distance obeys the triangle inequality only to round-off (documented accuracy of GeodesicExact ~ 40 nm worst case):
  // the pruning decisions can therefore differ for distances within that margin; compare the distance lists with 4 x 40 nm
  const double tolm = 160e-9;
  for (int iq = 0; iq < nq; ++iq) {
    Pt q{0, 0, r.range(-90, 90), r.range(-180, 180)}; if (r.irange(0, 3) == 0 && n) q = pts[r.next() % n];
    std::vector<double> dq(n); for (int i = 0; i < n; ++i) dq[i] = df(pts[i], q);
    for (int c = 0; c < 4; ++c) {
      int k = r.pick(std::vector<int>{1, 1, 2, 3, 7, 20});
      double maxdist = r.coin() ? std::numeric_limits<double>::max() : 2e7 * r.pick(std::vector<double>{0.01, 0.05, 0.2, 0.5});
      double mindist = r.irange(0, 2) == 0 ? -1 : r.coin() ? 0 : 2e7 * r.pick(std::vector<double>{0.005, 0.02, 0.1, 0.3});
      std::vector<double> want = brute(dq, k, maxdist, mindist);
      for (int via = 0; via < 3; ++via) {
        std::vector<int> ind; double ret = nn[via].Search(pts, df, q, ind, k, maxdist, mindist); ++searches;
        std::string why;
        if (ind.size() != want.size()) why = "count " + std::to_string(ind.size()) + " vs brute force " + std::to_string(want.size());
        else for (size_t i = 0; i < ind.size(); ++i) if (!(std::fabs(dq[ind[i]] - want[i]) <= tolm)) { why = "distance #" + std::to_string(i) + " " + std::to_string(dq[ind[i]]) + " vs brute force " + std::to_string(want[i]); break; }
        if (why.empty() && !ind.empty() && ret != dq[ind[0]]) why = "function value is not the distance of the first index";
        if (why.empty() && ind.empty() && ret != -1) why = "function value for an empty result is not -1";
        if (!why.empty()) { ++fails; if (fails <= 3) bad("search-vs-bruteforce-geodesic", why + " [query " + std::to_string(q.lat) + "," + std::to_string(q.lon) + " k=" + std::to_string(k) + " maxdist=" + std::to_string(maxdist) + " mindist=" + std::to_string(mindist) + " via=" + std::to_string(via) + "]"); }
      }
    }
  }
  emit(std::to_string(searches) + " " + std::to_string(fails));
});

// nn_bin kind seed n bucket | B <hex of Save(os, true)> T <tokens of Save(os, false)>
static Reg r_bin("nn_bin", [](const Args& a) {
  int kind = std::stoi(a[0]); uint64_t seed = std::stoull(a[1]); int n = std::stoi(a[2]), bucket = std::stoi(a[3]);
  std::vector<Pt> pts = make_points(kind, seed, n); DistFn df{kind}; NN nn(pts, df, bucket);
  std::ostringstream b, t; nn.Save(b, true); nn.Save(t, false);
  static const char* d = "0123456789abcdef"; std::string hex; for (unsigned char c : b.str()) { hex += d[c >> 4]; hex += d[c & 15]; }
  std::string out = "B " + hex + " T"; for (auto& s : split_ws(t.str())) out += " " + s;
  emit(out);
});

// deterministic token-level mutations of the text image
inline void mutate_tokens(std::vector<std::string>& t, Rng& r, int n, int nmut) {
  for (int m = 0; m < nmut && !t.empty(); ++m) {
    size_t p = r.next() % t.size();
    switch (r.irange(0, 9)) {
    case 0: t[p] = std::to_string(r.irange(-2, n + 1)); break;
    case 1: t[p] = std::to_string(r.irange(-2, 12)); break;
    case 2: t.erase(t.begin() + p); break;
    case 3: t.insert(t.begin() + p, t[p]); break;
    case 4: if (p + 1 < t.size()) std::swap(t[p], t[p + 1]); break;
    case 5: t.resize(p); break;
    case 6: t[p] = "-1"; break;
    case 7: t[p] = std::to_string(std::stoll(t[p]) + (r.coin() ? 1 : -1)); break;
    case 8: t[p] = std::to_string(r.coin() ? 100000 : -100000); break;
    default: t[r.next() % std::min<size_t>(t.size(), 6)] = std::to_string(r.irange(-1, 12)); break;   // header
    }
  }
}

// nn_load kind seed n bucket mseed nmut qseed k | E T toks…   or   K S T toks…  (Search threw)  or  K ret m ind… T toks… D n dq…
static Reg r_load("nn_load", [](const Args& a) {
  int kind = std::stoi(a[0]); uint64_t seed = std::stoull(a[1]); int n = std::stoi(a[2]), bucket = std::stoi(a[3]); uint64_t mseed = std::stoull(a[4]);
  int nmut = std::stoi(a[5]); uint64_t qseed = std::stoull(a[6]); int k = std::stoi(a[7]);
  std::vector<Pt> pts = make_points(kind, seed, n); DistFn df{kind}; Pt q = make_query(kind, qseed, pts);
  NN nn0(pts, df, bucket); std::ostringstream os; nn0.Save(os, false);
  std::vector<std::string> t = split_ws(os.str()); Rng r(mseed * 1315423911ULL + 11); mutate_tokens(t, r, n, nmut);
  std::string img, toks; for (auto& s : t) { img += s + "\n"; toks += " " + s; }
  NN nn1(pts, df, bucket); std::istringstream is(img);
  std::string e = guarded([&] { nn1.Load(is, false); });
  if (e == "!E") {
    emit("E T" + toks);
    // "If an exception is thrown, the state of the NearestNeighbor is unchanged"
    std::ostringstream o2; nn1.Save(o2, false); if (o2.str() != os.str()) bad("load-throw-leaves-state", "Load threw but the object changed");
    return;
  }
  if (!e.empty()) { emit("X T" + toks); bad("load-exception-kind", "Load threw " + e + " instead of GeographicErr"); return; }
  std::vector<int> ind; D ret = 0;
  std::string se; { Watch w(20); se = guarded([&] { ret = nn1.Search(pts, df, q, ind, k); }); }
  if (se == "!E") { emit("K S T" + toks); return; }
  if (!se.empty()) { emit("K X T" + toks); bad("search-exception-kind", "Search on a loaded tree threw " + se); return; }
  std::string out = "K " + std::to_string(ret) + " " + std::to_string(ind.size()); for (int i : ind) out += " " + std::to_string(i);
  out += " T" + toks + " D " + std::to_string(n); for (int i = 0; i < n; ++i) out += " " + std::to_string(df(pts[i], q));
  emit(out);
  for (int i : ind) if (i < 0 || i >= n) bad("loaded-search-index-range", "Search on an accepted file returned index " + std::to_string(i));
});

// nn_loadraw kind seed n bucket bin mseed nmut | E / K   — byte-level corruption of the text or binary image: must throw GeographicErr or
// load a tree that searches without hang / sanitizer report / out-of-range index
static Reg r_loadraw("nn_loadraw", [](const Args& a) {
  int kind = std::stoi(a[0]); uint64_t seed = std::stoull(a[1]); int n = std::stoi(a[2]), bucket = std::stoi(a[3]); bool bin = std::stoi(a[4]) != 0; uint64_t mseed = std::stoull(a[5]); int nmut = std::stoi(a[6]);
  std::vector<Pt> pts = make_points(kind, seed, n); DistFn df{kind};
  NN nn0(pts, df, bucket); std::ostringstream os; nn0.Save(os, bin); std::string img = os.str();
  Rng r(mseed * 2654435761ULL + 3);
  for (int m = 0; m < nmut && !img.empty(); ++m) {
    size_t p = r.next() % img.size();
    switch (r.irange(0, 5)) {
    case 0: img[p] = char(r.next()); break;
    case 1: img[p] ^= char(1 << r.irange(0, 7)); break;
    case 2: img.erase(p, r.irange(1, 4)); break;
    case 3: img.insert(p, 1, char(bin ? r.next() : "0123456789- e.x"[r.irange(0, 14)])); break;
    case 4: img.resize(p); break;
    default: if (bin) { int v = r.irange(-2, n + 1); size_t q = 16 + 4 * (p / 4 % std::max<size_t>(1, (img.size() - 16) / 4)); if (q + 4 <= img.size()) std::memcpy(&img[q], &v, 4); } else img[p] = '-'; break;
    }
  }
  // a corrupted header can announce a tree of up to 2^31 nodes: Load then reserves that much memory before reading a single node
  // (documented: std::bad_alloc); whether that succeeds depends on the machine, so such images are not loaded here
  { long long ts = 0;
    if (bin) { if (img.size() >= 40) { int v; std::memcpy(&v, &img[16 + 4 * 4], 4); ts = v; } }
    else { std::istringstream hs(img); long long h[6] = {0, 0, 0, 0, 0, 0}; for (int i = 0; i < 6 && (hs >> h[i]); ++i) {} ts = h[4]; }
    if (ts > 200000) { emit("H"); return; }
    // a binary image cut inside the 40-byte header: Load(is, true) never tests the stream state, so the header fields it could not read
    // are uninitialised locals (finding F30): the outcome depends on stack garbage; exercised separately by nn_loadtrunc
    if (bin && img.size() < 40) { emit("U"); return; } }
  NN nn1; std::istringstream is(img);
  std::string e = guarded([&] { nn1.Load(is, bin); });
  if (e == "!E") { emit("E"); return; }
  if (!e.empty()) { emit("X"); bad("load-exception-kind", "Load threw " + e + " instead of GeographicErr"); return; }
  if (nn1.NumPoints() == n) {
    for (int iq = 0; iq < 3; ++iq) {
      Pt q = make_query(kind, mseed + iq, pts); std::vector<int> ind; Watch w(20);
      std::string se = guarded([&] { nn1.Search(pts, df, q, ind, 1 + 2 * iq); });
      for (int i : ind) if (i < 0 || i >= n) bad("loaded-search-index-range", "Search on an accepted file returned index " + std::to_string(i));
    }
  }
  emit("K");
});

// nn_loaddag N variant | E   or   K evaluations    — a crafted text image in which both child pointers of node i point to node i-1
// (accepted by Node::Check: child < own index, bounds ordered): Search must not need more distance evaluations than a small
// multiple of the number of points (each point is looked at once in a tree)
struct Budget {};
struct CountDist { long* n; long limit; D operator()(const Pt& a, const Pt& b) const { if (++*n > limit) throw Budget(); return std::llabs(a.x - b.x) + std::llabs(a.y - b.y); } };
static Reg r_loaddag("nn_loaddag", [](const Args& a) {
  int N = std::stoi(a[0]), variant = std::stoi(a[1]);
  std::vector<Pt> pts(N); for (int i = 0; i < N; ++i) pts[i] = Pt{10 + (variant == 1 ? 0 : i), 0, 0, 0};
  Pt q{0, 0, 0, 0};
  std::ostringstream os; os << "1 -63 0 " << N << " " << N << " 0";
  for (int i = 0; i < N; ++i) { long long dst = pts[i].x; os << "\n" << i << " 0 " << dst << " " << (i - 1) << " " << dst << " " << (variant == 2 ? dst : 1000) << " " << (i - 1); }
  long cnt = 0; CountDist df{&cnt, 64L * N + 64};
  NearestNeighbor<D, Pt, CountDist> nn; std::istringstream is(os.str());
  std::string e = guarded([&] { nn.Load(is, false); });
  if (e == "!E") { emit("E"); return; }
  std::vector<int> ind; bool over = false;
  try { nn.Search(pts, df, q, ind, 1); } catch (const Budget&) { over = true; }
  emit("K " + std::to_string(cnt));
  if (over) bad("loaded-search-cost", "Load accepted a " + std::to_string(N) + "-node image whose nodes share their children (child[0] = child[1] = i-1); Search(k=1) exceeded " +
                std::to_string(64L * N + 64) + " distance evaluations (the cost is 2^N: an accepted file of ~1 kB makes Search run forever)");
});

// nn_loadtrunc len paint | E  or  K numpoints   — binary image cut inside the header (16 <= len < 40).  The stack is first painted with the int
// value `paint`, so that (if Load does not test the stream state) the fields it failed to read are likely to hold `paint`
__attribute__((noinline)) inline int paint_stack(int v) { volatile int a[4096]; for (int i = 0; i < 4096; ++i) a[i] = v; int s = 0; for (int i = 0; i < 4096; i += 512) s += a[i]; return s; }
__attribute__((noinline)) inline std::string load_trunc(const std::string& img, int& np) { NN nn; std::istringstream is(img); std::string e = guarded([&] { nn.Load(is, true); }); np = nn.NumPoints(); return e; }
static Reg r_loadtrunc("nn_loadtrunc", [](const Args& a) {
  int len = std::stoi(a[0]), paint = std::stoi(a[1]);
  std::vector<Pt> pts = make_points(1, 7, 9); DistFn df{1}; NN nn0(pts, df, 4); std::ostringstream os; nn0.Save(os, true);
  std::string img = os.str().substr(0, std::min<size_t>(len, os.str().size()));
  volatile int sink = paint_stack(paint); (void)sink;
  int np = -1; std::string e = load_trunc(img, np);
  if (e == "!E") { emit("E"); return; }
  emit("K " + std::to_string(np));
  if (e.empty()) bad("load-truncated-header", "Load(is, true) of a binary image cut after " + std::to_string(len) + " bytes (inside the 40-byte header) returned normally with NumPoints() = " +
                     std::to_string(np) + " (stack painted with " + std::to_string(paint) + "): the stream state is never tested in binary mode and the header fields that could not be read are uninitialised");
});


// nn_init kind seed n bucket | T <text tokens of Save> (P <n+1> 0 0 x0 y0 … | M <n> d(0,0) d(0,1) … d(n-1,n-1))
// the tree built by Initialize, for the Lean model of `init` (nth_element = full sort): the pair order (distance, index) is total, so the sets on
// either side of the median — and with them the whole tree — do not depend on the nth_element implementation; a tree that differs from the model's
// but satisfies TreeInv is accepted (the property does not fix the construction)
static Reg r_init("nn_init", [](const Args& a) {
  int kind = std::stoi(a[0]); uint64_t seed = std::stoull(a[1]); int n = std::stoi(a[2]), bucket = std::stoi(a[3]);
  std::vector<Pt> pts = make_points(kind, seed, n); DistFn df{kind};
  NN nn; nn.Initialize(pts, df, bucket);
  std::ostringstream os; nn.Save(os, false);
  std::string out = "T"; for (auto& t : split_ws(os.str())) out += " " + t;
  if (kind <= 3) { out += " P " + std::to_string(n + 1) + " 0 0"; for (auto& p : pts) out += " " + std::to_string(p.x) + " " + std::to_string(p.y); }
  else { out += " M " + std::to_string(n); for (int i = 0; i < n; ++i) for (int j = 0; j < n; ++j) out += " " + std::to_string(df(pts[i], pts[j])); }
  emit(out);
  // harness-side oracle, independent of the Lean model: every index is stored exactly once and the node count is what the recursion gives
  std::vector<std::string> t = split_ws(os.str()); std::vector<int> seen(n, 0); bool okc = true;
  if (t.size() >= 6) {
    size_t p = 6; int ts = std::stoi(t[4]);
    for (int i = 0; i < ts && okc; ++i) {
      if (p >= t.size()) { okc = false; break; }
      long long idx = std::stoll(t[p++]);
      if (idx >= 0) { if (idx < n) ++seen[idx]; else okc = false; p += 6; }
      else for (int l = 0; l < bucket; ++l, ++p) { if (p >= t.size()) { okc = false; break; } long long v = std::stoll(t[p]); if (v >= 0) { if (v < n) ++seen[v]; else okc = false; } }
    }
    for (int i = 0; i < n; ++i) if (seen[i] != 1) okc = false;
  } else okc = false;
  if (!okc) bad("init-each-point-once", "the tree built by Initialize does not store every point index exactly once");
});

// nn_stats kind seed n bucket nq | setupcost numsearches searchcost mincost maxcost evals_init evals_search
// Statistics / ResetStatistics / swap: "cost" is documented as the number of distance calculations, so the figures are compared
// *exactly* with a counting distance functor: setupcost = evaluations made by Initialize, searchcost = evaluations made by the
// searches since the last ResetStatistics, numsearches = their number, mincost <= mean <= maxcost, sd >= 0; member swap and the
// free swap exchange the trees together with their statistics (searches on the swapped objects answer for the other point set)
struct CountD { int kind; long* n; D operator()(const Pt& a, const Pt& b) const { ++*n; return DistFn{kind}(a, b); } };
static Reg r_stats("nn_stats", [](const Args& a) {
  int kind = std::stoi(a[0]); uint64_t seed = std::stoull(a[1]); int n = std::stoi(a[2]), bucket = std::stoi(a[3]), nq = std::stoi(a[4]);
  std::vector<Pt> pts = make_points(kind, seed, n), pts2 = make_points(kind, seed + 991, n / 2 + 1);
  long cnt = 0; CountD df{kind, &cnt};
  typedef NearestNeighbor<D, Pt, CountD> NC;
  NC nn; nn.Initialize(pts, df, bucket); long ev_init = cnt;
  int sc, ns, c1, cmin, cmax; double mean, sd;
  // some searches, then a reset, then nq counted searches
  for (int i = 0; i < 3; ++i) { std::vector<int> ind; nn.Search(pts, df, make_query(kind, seed * 7 + i, pts), ind, 2); }
  nn.ResetStatistics(); nn.Statistics(sc, ns, c1, cmin, cmax, mean, sd);
  if (!(ns == 0 && c1 == 0 && cmax == 0 && cmin == std::numeric_limits<int>::max() && mean == 0)) bad("nn-statistics", "ResetStatistics does not clear the search statistics");
  if (sc != ev_init) bad("nn-statistics", "setupcost " + std::to_string(sc) + " is not the number of distance evaluations of Initialize " + std::to_string(ev_init));
  cnt = 0; long lo = std::numeric_limits<long>::max(), hi = 0; Rng r(seed * 13 + 5);
  for (int i = 0; i < nq; ++i) {
    long before = cnt; std::vector<int> ind;
    nn.Search(pts, df, make_query(kind, seed * 100 + i, pts), ind, r.irange(1, 4), r.coin() ? DMAX : D(50), r.coin() ? D(-1) : D(0), r.irange(0, 4) != 0, 0);
    long e = cnt - before; lo = std::min(lo, e); hi = std::max(hi, e);
  }
  nn.Statistics(sc, ns, c1, cmin, cmax, mean, sd);
  emit(std::to_string(sc) + " " + std::to_string(ns) + " " + std::to_string(c1) + " " + std::to_string(cmin) + " " + std::to_string(cmax) + " " + std::to_string(ev_init) + " " + std::to_string(cnt));
  if (nq > 0) {
    if (!(ns == nq && c1 == cnt && cmin == lo && cmax == hi)) bad("nn-statistics", "numsearches/searchcost/mincost/maxcost = " + std::to_string(ns) + "/" + std::to_string(c1) + "/" + std::to_string(cmin) + "/" + std::to_string(cmax) +
        ", counted " + std::to_string(nq) + "/" + std::to_string(cnt) + "/" + std::to_string(lo) + "/" + std::to_string(hi));
    if (!(std::fabs(mean - double(cnt) / nq) <= 1e-9 * (1 + mean) && cmin <= mean + 1e-9 && mean <= cmax + 1e-9 && (nq < 2 || sd >= 0))) bad("nn-statistics", "mean " + std::to_string(mean) + " / sd " + std::to_string(sd) + " inconsistent with the counted costs");
  }
  // swap: the objects exchange trees, sizes and statistics
  NC mm; mm.Initialize(pts2, df, (bucket + 3) % 11);
  std::ostringstream a0, b0; nn.Save(a0, false); mm.Save(b0, false);
  int s1, n1, k1, l1, h1; double m1, d1; mm.Statistics(s1, n1, k1, l1, h1, m1, d1);
  nn.swap(mm);
  std::ostringstream a1, b1; nn.Save(a1, false); mm.Save(b1, false);
  int s2, n2, k2, l2, h2; double m2, d2; mm.Statistics(s2, n2, k2, l2, h2, m2, d2);
  if (!(a1.str() == b0.str() && b1.str() == a0.str() && nn.NumPoints() == int(pts2.size()) && mm.NumPoints() == n)) bad("nn-swap", "member swap does not exchange the two trees");
  if (!(s2 == sc && n2 == ns && k2 == c1 && l2 == cmin && h2 == cmax)) bad("nn-swap", "member swap does not carry the statistics along");
  { std::vector<int> ind; std::string e = guarded([&] { nn.Search(pts2, df, pts2[0], ind, 1); }); if (!(e.empty() && ind.size() == 1 && df(pts2[ind[0]], pts2[0]) == 0)) bad("nn-swap", "Search on the swapped object does not answer for the other point set"); }
  std::swap(nn, mm);
  std::ostringstream a2, b2; nn.Save(a2, false); mm.Save(b2, false);
  if (!(a2.str() == a0.str() && b2.str() == b0.str())) bad("nn-swap", "std::swap does not exchange the two trees back");
  (void)s1; (void)n1; (void)k1; (void)l1; (void)h1; (void)m1; (void)d1; (void)m2; (void)d2;
  // Initialize with a bucket size outside [0, maxbucket] throws GeographicErr and "the state of the NearestNeighbor is unchanged"
  for (int bad_bucket : {NC::maxbucket + 1, -1}) {
    std::ostringstream b4; nn.Save(b4, false); std::string e = guarded([&] { nn.Initialize(pts2, df, bad_bucket); }); std::ostringstream a4; nn.Save(a4, false);
    if (e != "!E") bad("nn-initialize-throws", "Initialize with bucket = " + std::to_string(bad_bucket) + " did not throw GeographicErr (" + e + ")");
    else if (a4.str() != b4.str() || nn.NumPoints() != n) bad("nn-initialize-throws", "Initialize threw but the object changed");
  }
});

inline std::string S(long long v) { return std::to_string(v); }

inline void generate(Rng& r, bool thorough, int K = 1) {
  auto Q = [&](long v) { return std::max<long>(1, v / K); };   // K slices: the orchestrating generate() runs the parts round-robin

  auto win = [&](int kind, D& maxdist, D& mindist) {
    D scale = kind == 0 ? 16 : kind == 1 ? 2000 : kind == 2 ? 60 : kind == 3 ? 40 : 20000000000LL;
    maxdist = r.irange(0, 2) == 0 ? DMAX : D(scale * r.pick(std::vector<double>{0.05, 0.1, 0.3, 0.6, 1.0, 0.0}));
    mindist = r.irange(0, 3) == 0 ? -1 : r.irange(0, 3) == 0 ? 0 : D(scale * r.pick(std::vector<double>{0.02, 0.05, 0.1, 0.3, 0.6, 0.9}));
  };
  auto size = [&]() { int c = r.irange(0, 9); return c == 0 ? r.irange(0, 3) : c < 6 ? r.irange(4, 60) : c < 9 ? r.irange(61, 300) : r.irange(301, 700); };
  int N = int(Q(thorough ? 6000 : 3000));
  for (int i = 0; i < N; ++i) {
    int kind = r.irange(0, 9) < 8 ? r.irange(0, 3) : 4; int n = size(); if (kind == 4) n = std::min(n, 120);
    int bucket = r.irange(0, 10), via = r.irange(0, 2) ? 0 : r.irange(1, 3);
    int k = r.pick(std::vector<int>{1, 1, 1, 2, 3, 5, 9, 0, -1, n, n + 2});
    D maxdist, mindist; win(kind, maxdist, mindist);
    bool exh = r.irange(0, 5) != 0; D tol = r.irange(0, 11) == 0 ? r.irange(1, 5) : 0;
    stratum(std::string("nn:search:") + (kind == 0 ? "L1-tie-rich" : kind == 1 ? "L1" : kind == 2 ? "collinear" : kind == 3 ? "chebyshev" : "geodesic-mm") +
            (mindist > 0 ? ":mindist>0" : "") + (maxdist != DMAX ? ":maxdist" : "") + (via ? ":via-save-load" : "") + (!exh ? ":non-exhaustive" : "") + (tol ? ":tol" : "") + (bucket == 0 ? ":bucket0" : ""));
    run("nn_search", {S(kind), S(r.next() % 1000000), S(n), S(bucket), S(via), S(k), S(maxdist), S(mindist), S(exh), S(tol), S(r.next() % 1000000)});
  }
  for (int i = 0; i < Q(thorough ? 6000 : 1200); ++i) {
    int kind = r.irange(0, 9) < 8 ? r.irange(0, 3) : 4; int n = i < 8 ? i : size(); if (kind == 4) n = std::min(n, 40); else n = std::min(n, 400);
    stratum(std::string("nn:init-vs-model:") + (kind == 0 ? "L1-tie-rich" : kind == 1 ? "L1" : kind == 2 ? "collinear" : kind == 3 ? "chebyshev" : "geodesic-mm"));
    run("nn_init", {S(kind), S(r.next() % 1000000), S(n), S(i < 24 ? i % 3 : r.irange(0, 10))});
  }
  int NB = int(Q(thorough ? 600 : 60));
  for (int i = 0; i < NB; ++i) {
    int kind = r.irange(0, 3); int n = i == 0 ? 0 : i == 1 ? 1 : i % 4 == 2 ? r.irange(1200, 2000) : r.irange(2, 900);
    stratum(std::string("nn:bulk:") + (n > 1000 ? "large" : "medium")); run("nn_bulk", {S(kind), S(r.next() % 1000000), S(n), S(r.irange(0, 10)), S(thorough ? 40 : 16)});
  }
  for (int i = 0; i < Q(thorough ? 400 : 40); ++i) { stratum("nn:statistics-swap"); run("nn_stats", {S(r.irange(0, 3)), S(r.next() % 1000000), S(i < 3 ? i + 1 : r.irange(2, 300)), S(r.irange(0, 10)), S(i % 7 == 0 ? 1 : r.irange(1, 12))}); }
  for (int i = 0; i < Q(thorough ? 100 : 12); ++i) { stratum("nn:geodesic-double"); run("nn_geo", {S(r.next() % 1000000), S(i == 0 ? 400 : r.irange(1, 250)), S(r.irange(0, 10)), S(thorough ? 12 : 6)}); }
  int NL = int(Q(thorough ? 24000 : 6000));
  for (int i = 0; i < NL; ++i) {
    int kind = r.irange(0, 3), n = r.irange(1, 40);
    stratum("nn:load-mutated-tokens"); run("nn_load", {S(kind), S(r.next() % 1000000), S(n), S(r.irange(0, 10)), S(r.next() % 1000000000), S(r.irange(0, 9) == 0 ? 0 : r.irange(1, 3)), S(r.next() % 1000000), S(r.irange(1, 4))});
  }
  for (int i = 0; i < Q(thorough ? 2000 : 200); ++i) { stratum("nn:binary-layout"); run("nn_bin", {S(r.irange(0, 4)), S(r.next() % 1000000), S(i < 3 ? i : r.irange(0, 120)), S(r.irange(0, 10))}); }
  for (int i = 0; i < 4; ++i) { stratum("nn:load-truncated-binary-header"); run("nn_loadtrunc", {S(24 + 4 * (i % 2)), S(i < 2 ? 7 : 5)}); }
  for (int i = 0; i < 3; ++i) { stratum("nn:load-shared-children"); run("nn_loaddag", {S(r.irange(30, 60)), S(i)}); }
  for (int i = 0; i < NL; ++i) {
    int kind = r.irange(0, 3), n = r.irange(1, 40); bool bin = r.coin();
    stratum(bin ? "nn:load-corrupt-binary" : "nn:load-corrupt-text"); run("nn_loadraw", {S(kind), S(r.next() % 1000000), S(n), S(r.irange(0, 10)), S(bin), S(r.next() % 1000000000), S(r.irange(1, 3))});
  }
}
} // namespace c17nn
