// Model correspondence for pieces of the series inverse solver: Geodesic::Astroid and Geodesic::Lambda12 (private),
// against Model/GeodInvSeries.lean (Corr/C02.lean, ops astroid / lambda12).
#pragma once
#include "geodcommon.hpp"
namespace ginv {
using namespace gd; using namespace gv;

// astroid x y | k
static Reg r_astroid("astroid", [](const Args& a) { emit(hx(Geodesic::Astroid(unhx(a[0]), unhx(a[1])))); });

// lambda12 a f sbet1 cbet1 sbet2 cbet2 salp1 calp1 slam120 clam120 | tiny eps0 dn1 dn2  lam12 salp2 calp2 sig12 ssig1 csig1 ssig2 csig2 eps domg12 dlam12
static Reg r_lambda12("lambda12", [](const Args& a) {
  double ea = unhx(a[0]), f = unhx(a[1]), sbet1 = unhx(a[2]), cbet1 = unhx(a[3]), sbet2 = unhx(a[4]), cbet2 = unhx(a[5]), salp1 = unhx(a[6]), calp1 = unhx(a[7]), slam = unhx(a[8]), clam = unhx(a[9]);
  Geodesic G(ea, f);
  double dn1 = std::sqrt(1 + G._ep2 * Math::sq(sbet1)), dn2 = std::sqrt(1 + G._ep2 * Math::sq(sbet2));
  double salp2, calp2, sig12, ssig1, csig1, ssig2, csig2, eps, domg12, dlam12; double Ca[Geodesic::nC_];
  double lam12 = G.Lambda12(sbet1, cbet1, dn1, sbet2, cbet2, dn2, salp1, calp1, slam, clam, salp2, calp2, sig12, ssig1, csig1, ssig2, csig2, eps, domg12, true, dlam12, Ca);
  const double o[] = {G.tiny_, G.tol0_, dn1, dn2, lam12, salp2, calp2, sig12, ssig1, csig1, ssig2, csig2, eps, domg12, dlam12};
  std::string s; for (int i = 0; i < 15; ++i) { if (i) s += " "; s += hx(o[i]); } emit(s);
});

// invstart a f sbet1 cbet1 sbet2 cbet2 lam12 | tiny eps0 dn1 dn2 slam12 clam12  sig12 salp1 calp1 salp2 calp2 dnm   (outputs not written: 0)
static Reg r_invstart("invstart", [](const Args& a) {
  double ea = unhx(a[0]), f = unhx(a[1]), sbet1 = unhx(a[2]), cbet1 = unhx(a[3]), sbet2 = unhx(a[4]), cbet2 = unhx(a[5]), lam12 = unhx(a[6]);
  Geodesic G(ea, f);
  double dn1 = std::sqrt(1 + G._ep2 * Math::sq(sbet1)), dn2 = std::sqrt(1 + G._ep2 * Math::sq(sbet2));
  double slam12 = std::sin(lam12), clam12 = std::cos(lam12);
  double salp1 = 0, calp1 = 0, salp2 = 0, calp2 = 0, dnm = 0; double Ca[Geodesic::nC_];
  double sig12 = G.InverseStart(sbet1, cbet1, dn1, sbet2, cbet2, dn2, lam12, slam12, clam12, salp1, calp1, salp2, calp2, dnm, Ca);
  const double o[] = {G.tiny_, G.tol0_, dn1, dn2, slam12, clam12, sig12, salp1, calp1, salp2, calp2, dnm};
  std::string s; for (int i = 0; i < 12; ++i) { if (i) s += " "; s += hx(o[i]); } emit(s);
});

// the reduced-latitude pair of a canonical problem as GenInverse forms it, a trial azimuth, the longitude difference
inline void model_case(Rng& r, double ea, double f, double lat1, double lat2, double lon12) {
  if (!(f < 1)) return;
  double l1 = -std::fmax(std::fabs(lat1), std::fabs(lat2)), l2 = std::fabs(lat1) >= std::fabs(lat2) ? lat2 : lat1;
  if (std::fabs(lat1) >= std::fabs(lat2) ? lat1 > 0 : lat2 > 0) l2 = -l2;
  double f1 = 1 - f, tiny = std::sqrt(std::numeric_limits<double>::min());
  double sb1, cb1, sb2, cb2; Math::sincosd(Math::AngRound(l1), sb1, cb1); sb1 *= f1; Math::norm(sb1, cb1); cb1 = std::fmax(tiny, cb1);
  Math::sincosd(Math::AngRound(l2), sb2, cb2); sb2 *= f1; Math::norm(sb2, cb2); cb2 = std::fmax(tiny, cb2);
  if (cb1 < -sb1) { if (cb2 == cb1) sb2 = std::copysign(sb1, sb2); } else { if (std::fabs(sb2) == -sb1) cb2 = cb1; }
  double alp = r.irange(0, 5) ? r.range(0, 180) : r.pick(std::vector<double>{0.0, 90.0, 180.0, 1e-10, 90 - 1e-10, 180 - 1e-10});
  double sa, ca, sl, cl; Math::sincosd(alp, sa, ca); Math::sincosd(std::fabs(Math::AngNormalize(lon12)), sl, cl);
  run("lambda12", {hx(ea), hx(f), hx(sb1), hx(cb1), hx(sb2), hx(cb2), hx(sa), hx(ca), hx(sl), hx(cl)});
  stratum(std::string("model-lambda12") + (std::fabs(f) <= 0.02 ? "" : "-large-f"));
  run("invstart", {hx(ea), hx(f), hx(sb1), hx(cb1), hx(sb2), hx(cb2), hx(std::fabs(Math::AngNormalize(lon12)) * Math::degree())});
  stratum(std::string("model-invstart") + (std::fabs(f) <= 0.02 ? "" : "-large-f"));
  // Astroid: the scaled antipodal coordinates (x <= 0 in the solver; the function itself is even in both)
  int k = r.irange(0, 7); double x, y;
  switch (k) {
  case 0: x = r.range(-1, 1); y = 0; break;                                      // on the axis, inside: k = 0
  case 1: x = r.range(-3, 3); y = std::pow(10.0, -r.irange(1, 300)); break;      // tiny y
  case 2: { double t = r.range(0, 1.5707963267948966); double c = std::cos(t), s = std::sin(t); x = -c * c * c * (1 + r.range(-1, 1) * 1e-9); y = s * s * s; break; }   // next to the evolute (disc ~ 0)
  case 3: x = r.pick(std::vector<double>{0.0, -1.0, 1.0}); y = r.pick(std::vector<double>{1.0, 0.5, 1e-8}); break;
  case 4: x = -r.range(0, 200); y = r.range(0, 200); break;
  default: x = -r.range(0, 2); y = r.range(0, 2) * (r.coin() ? 1 : 1e-3); break; }
  run("astroid", {hx(x), hx(y)});
  stratum("model-astroid-" + std::to_string(k < 5 ? k : 5));
}
} // namespace ginv
