// C20: Geoid heights depend only on data and position, never on cache history; malformed files are rejected
#include "common.hpp"
#include <iostream>
#include <string>
#include <sstream>
#include <fstream>
#include <memory>
#include <algorithm>
#include <unistd.h>
#include <fcntl.h>
#include <sys/stat.h>
#include <sys/types.h>
#include <dirent.h>
#include <ctime>
#include <GeographicLib/Geoid.hpp>
#include <GeographicLib/Math.hpp>
#include <GeographicLib/DMS.hpp>
#include <GeographicLib/Utility.hpp>
#include <GeographicLib/GeoCoords.hpp>
#include <GeographicLib/UTMUPS.hpp>

// The command-line tool is compiled from the *current* $GV_REPO/tools/GeoidEval.cpp into this harness (same library
// build, same sanitizers); its `main` and `usage` live in a namespace.  All headers it includes are included above.
namespace tool_geoideval {
#include "../tools/GeoidEval.cpp"
}
#include "C20_hdr.hpp"

using namespace GeographicLib; using namespace gv;

// scratch directory: $GV_SCRATCH (set by tools/props.d/C20.py to <verif>/_cache/scratch/C20) or /tmp
static std::string tmpdir() {
  static std::string d;
  if (d.empty()) {
    const char* b = std::getenv("GV_SCRATCH"); std::string base = (b && *b) ? b : "/tmp";
    for (size_t i = 1; i <= base.size(); ++i) if (i == base.size() || base[i] == '/') mkdir(base.substr(0, i).c_str(), 0777);
    // remove scratch directories that an aborted run left behind (older than two hours)
    if (DIR* dp = opendir(base.c_str())) {
      time_t now = time(nullptr);
      while (dirent* e = readdir(dp)) {
        std::string n = e->d_name; if (n.compare(0, 7, "gvgeoid") != 0) continue;
        std::string p = base + "/" + n; struct stat st;
        if (::stat(p.c_str(), &st) != 0 || !S_ISDIR(st.st_mode) || now - st.st_mtime < 7200) continue;
        if (DIR* dq = opendir(p.c_str())) { while (dirent* f = readdir(dq)) { std::string fn = f->d_name; if (fn != "." && fn != "..") { std::string q = p + "/" + fn; if (::unlink(q.c_str()) != 0) ::rmdir(q.c_str()); } } closedir(dq); }
        ::rmdir(p.c_str());
      }
      closedir(dp);
    }
    std::string t = base + "/gvgeoidXXXXXX"; std::vector<char> buf(t.begin(), t.end()); buf.push_back(0);
    char* r = mkdtemp(buf.data()); d = r ? r : "/tmp";
  }
  return d;
}
static uint64_t mix(uint64_t z) { z += 0x9e3779b97f4a7c15ULL; z = (z ^ (z >> 30)) * 0xbf58476d1ce4e5b9ULL; z = (z ^ (z >> 27)) * 0x94d049bb133111ebULL; return z ^ (z >> 31); }
static unsigned pixel_at(int kind, uint64_t seed, int w, int ix, int iy) {
  switch (kind) { case 0: return unsigned(mix(seed + uint64_t(iy * w + ix)) & 0xffff);
    case 1: return unsigned((1000 + 37 * ix + 101 * iy + (mix(seed + uint64_t(iy * w + ix)) & 0xff)) % 65536);
    case 3: { long x = ix, y = iy; return unsigned(20000 + 7 * x + 11 * y + 3 * x * x - 2 * x * y + 5 * y * y + x * x * x - y * y * y + 2 * x * x * y - x * y * y); }   // a cubic polynomial
    default: return unsigned(mix(seed + uint64_t(iy)) & 0xffff); }
}
static std::string fmt(double v) { char b[64]; std::snprintf(b, sizeof b, "%.17g", v); return b; }
static std::string pgm_path(const std::string& name) { return tmpdir() + "/" + name + ".pgm"; }
static std::string write_pgm(const std::string& name, const std::string& magic, bool offp, double offset, bool scp, double scale, int w, int h, long maxval, int kind, uint64_t seed, long delta) {
  std::string path = pgm_path(name);
  std::ofstream f(path, std::ios::binary);
  f << magic << "\n# Description synthetic raster\n";
  if (offp) f << "# Offset " << fmt(offset) << "\n";
  if (scp) f << "# Scale " << fmt(scale) << "\n";
  f << "# MaxBilinearError 0.1\n" << w << " " << h << "\n" << maxval << "\n";
  long n = long(w) * h + delta / 2; if (n < 0) n = 0;
  for (long i = 0; i < n; ++i) { unsigned p = (i < long(w) * h) ? pixel_at(kind, seed, w, int(i % w), int(i / w)) : 0; f.put(char(p >> 8)); f.put(char(p & 0xff)); }
  if (delta % 2) f.put(0);
  return path;
}
static std::vector<std::string> splitc(const std::string& s) { std::vector<std::string> r; std::string t; std::istringstream is(s); while (std::getline(is, t, ':')) r.push_back(t); return r; }

// constructor with the text of the exception (file name stripped)
struct Ctor { std::unique_ptr<Geoid> g; std::string err; bool geo = false; };
static Ctor construct(const std::string& name, const std::string& dir, bool cubic, bool ts) {
  Ctor c;
  try { c.g.reset(new Geoid(name, dir, cubic, ts)); }
  catch (const GeographicErr& e) { c.geo = true; std::string m = e.what(); size_t p = m.find(" " + dir + "/"); c.err = p == std::string::npos ? m : m.substr(0, p); if (c.err.empty()) c.err = "?"; }
  catch (const std::bad_alloc&) { c.err = "!A"; }
  catch (const std::exception& e) { c.err = std::string("!O:") + typeid(e).name(); }
  catch (...) { c.err = "!O:unknown"; }
  return c;
}

// ---------------------------------------------------------------------------------------------------------
// histories: height queries interleaved with CacheArea / CacheAll / CacheClear / ConvertHeight on one object
// ---------------------------------------------------------------------------------------------------------
static std::string extent(const Geoid& g) { return std::string(g.Cache() ? "1" : "0") + ":" + hx(g.CacheWest()) + ":" + hx(g.CacheEast()) + ":" + hx(g.CacheNorth()) + ":" + hx(g.CacheSouth()); }

static Reg r_geoid("geoid", [](const Args& a) {
  int w = std::atoi(a[0].c_str()), h = std::atoi(a[1].c_str()); double offset = unhx(a[2]), scale = unhx(a[3]); bool cubic = a[4] == "1", ts = a[5] == "1";
  int kind = std::atoi(a[6].c_str()); uint64_t seed = std::strtoull(a[7].c_str(), nullptr, 10);
  std::string name = "g" + std::to_string(getpid());
  write_pgm(name, "P5", true, offset, true, scale, w, h, 65535, kind, seed, 0);
  std::unique_ptr<Geoid> g, fresh_ts;
  std::string e0 = guarded([&] { g.reset(new Geoid(name, tmpdir(), cubic, ts)); fresh_ts.reset(new Geoid(name, tmpdir(), cubic, true)); });
  if (!e0.empty()) { emit("!ctor" + e0); bad("valid-file-rejected", "well-formed synthetic raster rejected by the constructor"); std::remove(pgm_path(name).c_str()); return; }
  if (g->ThreadSafe() != ts || !fresh_ts->ThreadSafe()) bad("threadsafe-flag", "ThreadSafe() does not report the constructor argument");
  if (g->Offset() != offset || g->Scale() != scale) bad("offset-scale", "Offset()/Scale() differ from the values in the file: " + fmt(g->Offset()) + " " + fmt(g->Scale()));
  if (g->Interpolation() != (cubic ? "cubic" : "bilinear")) bad("interpolation-name", g->Interpolation());
  std::string out; const double mag = std::fabs(offset) + scale * 65535;
  for (size_t i = 8; i < a.size(); ++i) {
    auto t = splitc(a[i]);
    if (t[0] == "H") {
      double lat = unhx(t[1]), lon = unhx(t[2]), v = 0;
      // documented: no file access for a position inside a successfully cached area
      bool inside = false;
      if (!ts && g->Cache() && std::isfinite(lat) && std::isfinite(lon) && std::fabs(lat) <= 90) {
        double W = g->CacheWest(), E = g->CacheEast(), N = g->CacheNorth(), S = g->CacheSouth(), ln = Math::AngNormalize(lon), m = 1e-6;
        if (lat < N - m && lat > S + m) for (int k = -1; k <= 2; ++k) if (ln + 360 * k > W + m && ln + 360 * k < E - m) inside = true;
        if (inside) { g->_file.clear(); g->_file.seekg(0); }
      }
      std::string e = guarded([&] { v = (*g)(lat, lon); });
      out += " " + (e.empty() ? hx(v) : e);
      if (!e.empty()) { bad("height-throws", "height query threw " + e + " at op " + std::to_string(i - 8)); continue; }
      if (inside && g->_file.tellg() != std::streampos(0)) bad("cached-area-reads-file", "a query inside the reported cache extent accessed the file (op " + std::to_string(i - 8) + ")");
      // the property itself: bit-for-bit the value a fresh object (no history, no cache) and a thread-safe object return
      double v1 = 0, v2 = 0; std::unique_ptr<Geoid> f1;
      std::string e1 = guarded([&] { f1.reset(new Geoid(name, tmpdir(), cubic, false)); v1 = (*f1)(lat, lon); }), e2 = guarded([&] { v2 = (*fresh_ts)(lat, lon); });
      if (!e1.empty()) { bad("height-throws", "fresh object threw " + e1); continue; }
      if (!e2.empty()) bad("cache-mode-dependence", "thread-safe object threw " + e2 + " where a plain object returns " + fmt(v1));
      if (bits(v1) != bits(v) && !(std::isnan(v) && std::isnan(v1))) bad("history-dependence", "height differs from a fresh object's: " + fmt(v) + " vs " + fmt(v1) + " at op " + std::to_string(i - 8));
      if (e2.empty() && bits(v2) != bits(v) && !(std::isnan(v) && std::isnan(v2))) bad("cache-mode-dependence", "height differs from a thread-safe object's: " + fmt(v) + " vs " + fmt(v2) + " at op " + std::to_string(i - 8));
      if (std::isfinite(lat) && std::isfinite(lon) && std::fabs(lat) <= 90) {
        // periodic in longitude (exact shift), NaN only for NaN input
        double l2 = lon + 360; if (l2 - 360 == lon && std::remainder(l2, 360.0) == std::remainder(lon, 360.0)) { double v3 = (*f1)(lat, l2); if (bits(v3) != bits(v1)) bad("longitude-period", "height(lat, lon+360) differs"); }
        if (std::isnan(v)) bad("nan-for-finite-input", "NaN height for a finite position");
        // a bilinear height is a convex combination of pixel values
        if (!cubic && !(v >= offset - 1e-9 * mag && v <= offset + scale * 65535 + 1e-9 * mag)) bad("height-range", "bilinear height " + fmt(v) + " outside the range of the data");
      } else if (!std::isnan(v)) bad("nan-input", "non-NaN height for NaN / out-of-range latitude input");
    } else if (t[0] == "C") {
      // ConvertHeight in both directions; mutually inverse to round-off; NONE is the identity
      double lat = unhx(t[1]), lon = unhx(t[2]), hh = unhx(t[3]), up = 0, dn = 0, N = 0, back = 0, back2 = 0, same = 0;
      std::string e = guarded([&] { up = g->ConvertHeight(lat, lon, hh, Geoid::GEOIDTOELLIPSOID); dn = g->ConvertHeight(lat, lon, hh, Geoid::ELLIPSOIDTOGEOID); N = (*g)(lat, lon);
        back = g->ConvertHeight(lat, lon, up, Geoid::ELLIPSOIDTOGEOID); back2 = g->ConvertHeight(lat, lon, dn, Geoid::GEOIDTOELLIPSOID); same = g->ConvertHeight(lat, lon, hh, Geoid::NONE); });
      out += " " + (e.empty() ? hx(up) + ":" + hx(dn) : e);
      if (!e.empty()) { bad("height-throws", "ConvertHeight threw " + e); continue; }
      if (std::isfinite(N) && std::isfinite(hh)) {
        double tol = 4 * ulp(std::fabs(hh) + std::fabs(N));
        if (!(std::fabs(back - hh) <= tol) || !(std::fabs(back2 - hh) <= tol)) bad("convert-height-inverse", "ConvertHeight round trip off by " + fmt(back - hh) + " / " + fmt(back2 - hh) + " (tolerance " + fmt(tol) + ")");
        if (!(std::fabs(up - (hh + N)) <= tol) || !(std::fabs(dn - (hh - N)) <= tol)) bad("convert-height-value", "ConvertHeight is not h +/- N: " + fmt(up) + " " + fmt(dn) + " h=" + fmt(hh) + " N=" + fmt(N));
        if (bits(same) != bits(hh) && !(same == hh)) bad("convert-height-none", "ConvertHeight(NONE) changed the height");
      }
    } else if (t[0] == "A") {
      double so = unhx(t[1]), we = unhx(t[2]), no = unhx(t[3]), ea = unhx(t[4]);
      std::string e = guarded([&] { g->CacheArea(so, we, no, ea); }); out += " " + (e.empty() ? std::string("-") : e) + ":" + extent(*g);
      if (!e.empty() && e != "!E") bad("foreign-exception", e);
      if (e.empty() && !ts && so <= no && std::fabs(so) <= 90 && std::fabs(no) <= 90 && std::isfinite(we) && std::isfinite(ea)) {
        // the reported extent contains the requested rectangle
        if (!g->Cache()) bad("cache-flag", "Cache() is false after a successful CacheArea");
        double W = g->CacheWest(), E = g->CacheEast(), N = g->CacheNorth(), S = g->CacheSouth(), wn = Math::AngNormalize(we), en = Math::AngNormalize(ea), m = 1e-9 * 360;
        if (en <= wn) en += 360;
        bool lonok = E - W >= 360 - m; for (int k = -2; k <= 2 && !lonok; ++k) if (W + 360 * k <= wn + m && en <= E + 360 * k + m) lonok = true;
        if (!(N >= no - m && S <= so + m && lonok)) bad("cache-extent", "reported cache extent S=" + fmt(S) + " W=" + fmt(W) + " N=" + fmt(N) + " E=" + fmt(E) + " does not contain the requested area");
      }
      if (e.empty() && !ts && so > no && g->Cache()) bad("cache-flag", "Cache() is true after CacheArea with south > north (documented: clears the cache)");
    } else if (t[0] == "L") {
      std::string e = guarded([&] { g->CacheAll(); }); out += " " + (e.empty() ? std::string("-") : e) + ":" + extent(*g);
      if (e.empty() && !(g->Cache() && g->CacheNorth() == 90 && std::fabs(g->CacheSouth() + 90) <= 1e-9 && std::fabs(g->CacheEast() - g->CacheWest() - 360) <= 1e-9)) bad("cache-extent", "CacheAll does not report the whole sphere");
    } else if (t[0] == "X") {
      g->CacheClear(); out += " -:" + extent(*g);
      if (!ts && (g->Cache() || g->CacheWest() != 0 || g->CacheEast() != 0 || g->CacheNorth() != 0 || g->CacheSouth() != 0)) bad("cache-flag", "cache extent not reset by CacheClear");
      if (ts && !g->Cache()) bad("cache-flag", "CacheClear changed a thread-safe object");
    }
  }
  emit(out.empty() ? "" : out.substr(1));
  std::remove(pgm_path(name).c_str());
});

// bilinear laws on the implementation: nodes reproduce the grid value, linear along edges, continuous across cells
static Reg r_bil("geoidbil", [](const Args& a) {
  int w = std::atoi(a[0].c_str()), h = std::atoi(a[1].c_str()); uint64_t seed = std::strtoull(a[2].c_str(), nullptr, 10);
  double offset = -108, scale = 0.003; std::string name = "b" + std::to_string(getpid());
  write_pgm(name, "P5", true, offset, true, scale, w, h, 65535, 0, seed, 0);
  Geoid g(name, tmpdir(), false, false);
  double dlon = 360.0 / w, dlat = 180.0 / (h - 1); int nb = 0;
  for (int iy = 0; iy < h; ++iy) for (int ix = 0; ix < w; ++ix) {
    double lat = 90 - iy * dlat, lon = ix * dlon; double v = g(lat, lon), ref = offset + scale * pixel_at(0, seed, w, ix, iy);
    if (!(std::fabs(v - ref) <= 64 * ulp(std::fabs(offset) + scale * 65535)) && nb++ < 3) bad("bilinear-node", "height at grid node differs from offset + scale*pixel: " + fmt(v) + " vs " + fmt(ref));
    if (iy + 1 < h) { // linear along the meridional edge, and continuous across the edge between cell ix-1 and ix
      double lm = lat - dlat / 2, vm = g(lm, lon), v2 = g(std::fmax(-90.0, lat - dlat), lon);   // 90 - 26*(180/26) - ... can round to just below -90 (LatFix -> NaN): the node is the pole
      if (!(std::fabs(vm - (v + v2) / 2) <= 1e-9 * (1 + std::fabs(v))) && nb++ < 3) bad("bilinear-edge", "not linear along a cell edge");
      double e = dlon * 1e-9, vl = g(lm, lon - e), vr = g(lm, lon + e);
      if (!(std::fabs(vl - vr) <= 1e-6 * scale * 65535) && nb++ < 3) bad("bilinear-continuity", "jump across a cell boundary");
    }
  }
  emit("done");
  std::remove(pgm_path(name).c_str());
});

// the documented cubic interpolation reproduces a raster sampled from a cubic polynomial (interior cells)
static Reg r_cub("geoidcubic", [](const Args& a) {
  int w = std::atoi(a[0].c_str()), h = std::atoi(a[1].c_str()); double offset = -10, scale = 0.5; std::string name = "c" + std::to_string(getpid());
  write_pgm(name, "P5", true, offset, true, scale, w, h, 65535, 3, 0, 0);
  Geoid g(name, tmpdir(), true, false);
  double dlon = 360.0 / w, dlat = 180.0 / (h - 1); int nb = 0;
  for (int iy = 2; iy + 3 < h; ++iy) for (int ix = 1; ix + 2 < w / 2; ++ix) for (int k = 0; k < 4; ++k) {
    double fx = 0.25 * k + 0.1, fy = 0.2 * k + 0.15, x = ix + fx, y = iy + fy;
    double v = g(90 - y * dlat, x * dlon);
    double p = 20000 + 7 * x + 11 * y + 3 * x * x - 2 * x * y + 5 * y * y + x * x * x - y * y * y + 2 * x * x * y - x * y * y, ref = offset + scale * p;
    if (!(std::fabs(v - ref) <= 1e-9 * std::fabs(ref)) && nb++ < 3) bad("cubic-reproduces-cubics", "cubic interpolation of a cubic raster is off: " + fmt(v) + " vs " + fmt(ref));
  }
  emit("done");
  std::remove(pgm_path(name).c_str());
});

static Reg r_hdr("geoidhdr", [](const Args& a) {
  // structured header: magic offsetPresent scale scalePresent w h maxval lengthDelta
  std::string magic = a[0]; bool offp = a[1] == "1"; double scale = unhx(a[2]); bool scp = a[3] == "1"; int w = std::atoi(a[4].c_str()), h = std::atoi(a[5].c_str()); long mv = std::atol(a[6].c_str()), delta = std::atol(a[7].c_str());
  std::string name = "h" + std::to_string(getpid());
  write_pgm(name, magic, offp, -108, scp, scale, w, h, mv, 0, 7, delta);
  bool ok1 = false, ok2 = false;
  std::string e1 = guarded([&] { Geoid g(name, tmpdir(), true, false); ok1 = true; });
  std::string e2 = guarded([&] { Geoid g(name, tmpdir(), false, true); ok2 = true; });
  emit(ok1 ? "1" : "0");
  if (ok1 != ok2) bad("header-validation", "plain and thread-safe constructors disagree on a file");
  if (!e1.empty() && e1 != "!E") bad("foreign-exception", e1);
  if (!e2.empty() && e2 != "!E") bad("foreign-exception", e2);
  std::remove(pgm_path(name).c_str());
});

// ---------------------------------------------------------------------------------------------------------
// byte-level headers: the file is <header bytes> followed by <datalen> data bytes of pattern <kind>
// ---------------------------------------------------------------------------------------------------------
static unsigned char data_byte(int kind, uint64_t i) {
  switch (kind) { case 0: return 0; case 1: return '5'; case 2: return (unsigned char)((i * 37 + 11) & 255); case 3: return ' '; default: return (unsigned char)("7 \n"[i % 3]); }
}
static const uint64_t SMALL = 65536;
// returns false when a large file cannot be stored sparsely here (the case is skipped)
static bool write_raw(const std::string& path, const std::string& header, uint64_t datalen, int kind) {
  int fd = ::open(path.c_str(), O_CREAT | O_TRUNC | O_WRONLY, 0600);
  if (fd < 0) return false;
  bool ok = ::write(fd, header.data(), header.size()) == ssize_t(header.size());
  if (datalen <= SMALL) {
    std::string d(size_t(datalen), '\0'); for (uint64_t i = 0; i < datalen; ++i) d[size_t(i)] = char(data_byte(kind, i));
    ok = ok && ::write(fd, d.data(), d.size()) == ssize_t(d.size());
  } else {
    ok = ok && kind == 0 && ::ftruncate(fd, off_t(header.size() + datalen)) == 0;
    struct stat st; ok = ok && ::fstat(fd, &st) == 0 && uint64_t(st.st_size) == header.size() + datalen && uint64_t(st.st_blocks) * 512 <= header.size() + (1u << 20);   // really sparse?
  }
  ::close(fd);
  if (!ok) std::remove(path.c_str());
  return ok;
}

static Reg r_pgm("geoidpgm", [](const Args& a) {
  // cubic expect s:<header> datalen kind   | ok offset scale maxerr rmserr w h datastart rlonres rlatres s:<description> s:<datetime>   or   !E s:<message>
  bool cubic = a[0] == "1"; int expect = std::atoi(a[1].c_str()); std::string H = unhs(a[2]); uint64_t datalen = std::strtoull(a[3].c_str(), nullptr, 10); int kind = std::atoi(a[4].c_str());
  std::string name = "p" + std::to_string(getpid()), path = pgm_path(name); const bool big = datalen > SMALL;
  if (!write_raw(path, H, datalen, kind)) { emit("skip"); stat("sparse-files-unavailable"); return; }
  Ctor c = construct(name, tmpdir(), cubic, false);
  if (big) std::remove(path.c_str());          // a sparse multi-GB file never stays on disk (the open stream keeps it alive)
  if (!c.g) {
    emit(c.geo ? "!E " + hs(c.err) : c.err);
    if (!c.geo) bad("foreign-exception", c.err);
    if (expect == 1) bad("valid-file-rejected", "a well-formed file is rejected: " + c.err);
    if (!big) { Ctor t = construct(name, tmpdir(), cubic, true); if (t.g) bad("header-validation", "the thread-safe constructor accepts a file the plain one rejects (" + c.err + ")"); }
    std::remove(path.c_str()); return;
  }
  Geoid& g = *c.g;
  emit("ok " + hx(g.Offset()) + " " + hx(g.Scale()) + " " + hx(g.MaxError()) + " " + hx(g.RMSError()) + " " + std::to_string(g._width) + " " + std::to_string(g._height) + " " +
       std::to_string(g._datastart) + " " + hx(g._rlonres) + " " + hx(g._rlatres) + " " + hs(g.Description()) + " " + hs(g.DateTime()));
  if (expect == 0) bad("malformed-file-accepted", "a file that violates the documented format is accepted (" + std::to_string(g._width) + " x " + std::to_string(g._height) + ", " + std::to_string(H.size() + datalen) + " bytes)");
  // accepted => every pixel of the announced raster lies inside the file, in unbounded arithmetic
  unsigned __int128 needlen = (unsigned __int128)(g._datastart) + 2 * (unsigned __int128)(g._width > 0 ? g._width : 0) * (unsigned __int128)(g._height > 0 ? g._height : 0);
  if (!(g._width >= 2 && g._height >= 3 && g._width % 2 == 0 && g._height % 2 == 1 && needlen == (unsigned __int128)(H.size()) + datalen && g.Scale() > 0))
    bad("accepted-raster-not-in-file", "accepted " + std::to_string(g._width) + " x " + std::to_string(g._height) + " raster with data at " + std::to_string(g._datastart) + " in a file of " + std::to_string(H.size() + datalen) + " bytes");
  if (g.GeoidFile() != path || g.GeoidName() != name || g.GeoidDirectory() != tmpdir() || g.Interpolation() != (cubic ? "cubic" : "bilinear") || g.ThreadSafe() || g.Cache())
    bad("inspectors", "GeoidFile/GeoidName/GeoidDirectory/Interpolation/ThreadSafe/Cache of a new object");
  if (g.EquatorialRadius() != Constants::WGS84_a() || g.Flattening() != Constants::WGS84_f() || g.CacheWest() != 0 || g.CacheEast() != 0 || g.CacheNorth() != 0 || g.CacheSouth() != 0)
    bad("inspectors", "EquatorialRadius/Flattening are not those of WGS84, or a cache extent is reported without a cache");
  // an accepted file can be read everywhere
  static const double lats[] = {90, -90, 0, 45.5, -89.999, 89.999}, lons[] = {0, -180, 180, 359.9, -0.1};
  for (double la : lats) for (double lo : lons) {
    double v = 0; std::string e = guarded([&] { v = g(la, lo); });
    if (!e.empty()) { bad("accepted-file-unreadable", "height(" + fmt(la) + ", " + fmt(lo) + ") threw " + e + " on an accepted file"); break; }
    if (big) { double z = 0, ref = g.Offset() + g.Scale() * z; if (!(v == ref)) { bad("sparse-raster-value", "height " + fmt(v) + " on an all-zero raster, expected " + fmt(ref)); break; } }
  }
  if (!big && uint64_t(g._width) * uint64_t(g._height) <= (1u << 22)) {     // the thread-safe constructor reads the whole raster into memory
    Ctor t = construct(name, tmpdir(), cubic, true);
    if (!t.g) bad("header-validation", "the thread-safe constructor rejects a file the plain one accepts: " + t.err);
    else if (t.g->Offset() != g.Offset() || t.g->Scale() != g.Scale() || !t.g->ThreadSafe() || !t.g->Cache()) bad("header-validation", "thread-safe object differs in offset/scale/flags");
  }
  std::remove(path.c_str());
});

// a *valid* raster of more than 2^32 bytes (sparse file) with a few non-zero pixels at byte offsets around 2^31, 2^32, the end
static Reg r_big("geoidbig", [](const Args& a) {
  // cubic s:<header> w h seed   | accepted nchecked
  bool cubic = a[0] == "1"; std::string H = unhs(a[1]); long w = std::atol(a[2].c_str()), h = std::atol(a[3].c_str()); uint64_t seed = std::strtoull(a[4].c_str(), nullptr, 10);
  std::string name = "B" + std::to_string(getpid()), path = pgm_path(name); uint64_t npix = uint64_t(w) * uint64_t(h);
  if (!write_raw(path, H, 2 * npix, 0)) { emit("skip"); stat("sparse-files-unavailable"); return; }
  std::vector<uint64_t> P = {0, npix - 1, npix / 2, (1ull << 30) - 1, 1ull << 30, (1ull << 30) + 1, (1ull << 31) - 1, 1ull << 31, (1ull << 31) + 1, (1ull << 32), (1ull << 32) + 1, npix - uint64_t(w), uint64_t(w) - 1};
  for (int k = 0; k < 4; ++k) P.push_back(mix(seed + uint64_t(k)) % npix);
  std::vector<std::pair<uint64_t, unsigned>> pix;
  { int fd = ::open(path.c_str(), O_WRONLY);
    for (uint64_t p : P) if (p < npix) { unsigned v = 1 + unsigned(mix(seed ^ p) % 65535); unsigned char b[2] = {(unsigned char)(v >> 8), (unsigned char)(v & 255)};
      bool dup = false; for (auto& q : pix) if (q.first == p) dup = true;
      if (!dup && fd >= 0 && ::pwrite(fd, b, 2, off_t(H.size() + 2 * p)) == 2) pix.push_back({p, v}); }
    if (fd >= 0) ::close(fd); }
  Ctor c = construct(name, tmpdir(), false, false), cc = construct(name, tmpdir(), true, false);
  std::remove(path.c_str());
  if (!c.g || !cc.g) { emit("0 0"); bad("valid-file-rejected", "a well-formed raster of " + std::to_string(2 * npix) + " data bytes is rejected: " + c.err + cc.err); return; }
  Geoid& g = *c.g; int n = 0, nb = 0;
  double dlat = 180.0 / double(h - 1), dlon = 360.0 / double(w), tol = 1e-5 * g.Scale() * 65535;
  for (auto& q : pix) {
    long ix = long(q.first % uint64_t(w)), iy = long(q.first / uint64_t(w)); double lat = 90 - double(iy) * dlat, lon = double(ix) * dlon, v = 0; if (lat < -90) lat = -90;
    std::string e = guarded([&] { v = g(lat, lon); }); double ref = g.Offset() + g.Scale() * q.second; ++n;
    // neighbouring poked pixels can leak in with the weight of the rounding of lat/lon (<= 2^-22 cells)
    if (!e.empty() || !(std::fabs(v - ref) <= tol)) { if (nb++ < 3) bad("large-raster-pixel", "pixel " + std::to_string(q.first) + " (col " + std::to_string(ix) + ", row " + std::to_string(iy) + ") of a " + std::to_string(w) + " x " + std::to_string(h) + " raster: height " + (e.empty() ? fmt(v) : e) + ", file says " + fmt(ref)); continue; }
    if (cubic) {
      // history independence far into the file: cubic height with and without an area cache around the point
      double u0 = 0, u1 = 0; std::string e1 = guarded([&] { cc.g->CacheClear(); u0 = (*cc.g)(lat, lon); cc.g->CacheArea(std::fmax(-90.0, lat - 2 * dlat), lon - 2 * dlon, std::fmin(90.0, lat + 2 * dlat), lon + 2 * dlon); u1 = (*cc.g)(lat + 0 * dlat, lon); });
      if (!e1.empty() || bits(u0) != bits(u1)) { if (nb++ < 3) bad("cache-mode-dependence", "cubic height at pixel " + std::to_string(q.first) + " of a large raster: " + (e1.empty() ? fmt(u0) + " uncached vs " + fmt(u1) + " cached" : e1)); }
    }
  }
  emit("1 " + std::to_string(n));
});

// rasters with a dimension above 2^30: the index arithmetic of rawval / CacheArea is done in int, so the constructor must
// refuse them (finding F73, repaired).  The probe runs in a child process, so that a sanitizer abort - should such a
// raster ever be accepted again - is a result of this op and not the end of the harness.
#include <sys/wait.h>
static Reg r_huge("geoidhuge", [](const Args& a) {
  // mode : 0 = height 2^30+1 (w = 2), cubic height at the south pole; 1 = width 1 500 000 000 (h = 3), height outside a small area cache
  int mode = std::atoi(a[0].c_str()); long w = mode == 0 ? 2 : 1500000000l, h = mode == 0 ? (1l << 30) + 1 : 3;
  std::string name = "U" + std::to_string(getpid()), path = pgm_path(name);
  std::string H = "P5\n# Offset -108\n# Scale 0.003\n" + std::to_string(w) + " " + std::to_string(h) + "\n65535\n";
  if (!write_raw(path, H, 2ull * uint64_t(w) * uint64_t(h), 0)) { emit("skip"); stat("sparse-files-unavailable"); return; }
  std::fflush(stdout); std::fflush(stderr);
  pid_t pid = fork();
  if (pid == 0) {
    int dn = ::open("/dev/null", O_WRONLY); if (dn >= 0) { dup2(dn, 1); dup2(dn, 2); }
    int rc = 0;
    try { Geoid g(name, tmpdir(), true, false);
      if (mode == 0) { double v = g(-90, 0); rc = (v == g.Offset()) ? 0 : 4; }
      else { g.CacheArea(-10, 10, 10, 10.001); double v = g(0, -100); rc = (v == g.Offset()) ? 0 : 4; } }
    catch (const GeographicErr&) { rc = 3; } catch (...) { rc = 5; }
    _exit(rc);
  }
  int st = 0; waitpid(pid, &st, 0); std::remove(path.c_str());
  int rc = WIFEXITED(st) ? WEXITSTATUS(st) : 100 + (WIFSIGNALED(st) ? WTERMSIG(st) : 0);
  emit(std::to_string(rc));
  // 3 = GeographicErr (the constructor refuses such sizes), 0 = evaluated correctly; anything else: abort / wrong value
  if (rc != 0 && rc != 3) bad("huge-dimension-index-overflow", std::string(mode == 0 ? "raster 2 x 1073741825, cubic height at the south pole" : "raster 1500000000 x 3, height outside a small area cache") +
    ": child process ended with status " + std::to_string(rc) + " (sanitizer abort: int overflow in rawval / CacheArea)");
});

// default path / name lookup
static void set_or_unset(const char* k, const std::string& v) { if (v == "-") unsetenv(k); else setenv(k, unhs(v).c_str(), 1); }
static Reg r_env("geoidenv", [](const Args& a) {
  // GEOGRAPHICLIB_GEOID_PATH GEOGRAPHICLIB_DATA GEOGRAPHICLIB_GEOID_NAME (each "-" = unset or s:<hex>)  | s:<DefaultGeoidPath> s:<DefaultGeoidName>
  set_or_unset("GEOGRAPHICLIB_GEOID_PATH", a[0]); set_or_unset("GEOGRAPHICLIB_DATA", a[1]); set_or_unset("GEOGRAPHICLIB_GEOID_NAME", a[2]);
  std::string p = Geoid::DefaultGeoidPath(), n = Geoid::DefaultGeoidName();
  unsetenv("GEOGRAPHICLIB_GEOID_PATH"); unsetenv("GEOGRAPHICLIB_DATA"); unsetenv("GEOGRAPHICLIB_GEOID_NAME");
  emit(hs(p) + " " + hs(n));
});
static Reg r_lookup("geoidlookup", [](const Args& a) {
  // mode cubic : 0 = file found through GEOGRAPHICLIB_GEOID_PATH, 1 = through GEOGRAPHICLIB_DATA/geoids, 2 = missing file, 3 = missing directory (explicit path)
  int mode = std::atoi(a[0].c_str()); bool cubic = a[1] == "1"; std::string name = "L" + std::to_string(getpid()), dir = tmpdir();
  if (mode == 1) { dir = tmpdir() + "/geoids"; mkdir(dir.c_str(), 0777); }
  std::string path = dir + "/" + name + ".pgm";
  { std::string p0 = write_pgm(name, "P5", true, -108, true, 0.003, 4, 5, 65535, 0, 3, 0); if (p0 != path) std::rename(p0.c_str(), path.c_str()); }
  if (mode == 0) setenv("GEOGRAPHICLIB_GEOID_PATH", dir.c_str(), 1);
  if (mode == 1) { unsetenv("GEOGRAPHICLIB_GEOID_PATH"); setenv("GEOGRAPHICLIB_DATA", tmpdir().c_str(), 1); }
  Ctor c = mode <= 1 ? construct(name, "", cubic, false) : construct(mode == 2 ? name + "-absent" : name, mode == 2 ? dir : dir + "/no-such-dir", cubic, false);
  unsetenv("GEOGRAPHICLIB_GEOID_PATH"); unsetenv("GEOGRAPHICLIB_DATA");
  if (c.g) {
    emit("ok " + hs(c.g->GeoidFile().substr(c.g->GeoidFile().size() >= name.size() + 5 ? c.g->GeoidFile().size() - name.size() - 5 : 0)) + " " + hs(c.g->Interpolation()));
    if (mode >= 2) bad("missing-file-accepted", "a Geoid object was constructed from a file that does not exist");
    if (c.g->GeoidFile() != path || c.g->GeoidName() != name || c.g->GeoidDirectory() != dir) bad("default-path-lookup", "GeoidFile() = " + c.g->GeoidFile() + ", expected " + path);
    double v = 0; std::string e = guarded([&] { v = (*c.g)(10, 20); }); if (!e.empty() || !std::isfinite(v)) bad("default-path-lookup", "object found through the default path cannot be evaluated");
  } else {
    emit(c.geo ? "!E " + hs(c.err) : c.err);
    if (mode <= 1) bad("default-path-lookup", "file in the default geoid directory not found: " + c.err);
    if (!c.geo) bad("foreign-exception", c.err);
  }
  std::remove(path.c_str()); if (mode == 1) rmdir(dir.c_str());
});

// ---------------------------------------------------------------------------------------------------------
// GeoidEval, in-process
// ---------------------------------------------------------------------------------------------------------
static int run_geoideval(const std::vector<std::string>& args, const std::string& input, std::string& output, std::string& errout) {
  std::vector<const char*> argv; argv.push_back("GeoidEval"); for (auto& s : args) argv.push_back(s.c_str());
  std::istringstream in(input); std::ostringstream out, err;
  std::streambuf *oi = std::cin.rdbuf(in.rdbuf()), *oo = std::cout.rdbuf(out.rdbuf()), *oe = std::cerr.rdbuf(err.rdbuf());
  std::cin.clear();
  int rc = -99; std::string ex;
  try { rc = tool_geoideval::main(int(argv.size()), argv.data()); } catch (const std::exception& e) { ex = typeid(e).name(); } catch (...) { ex = "unknown"; }
  std::cin.rdbuf(oi); std::cout.rdbuf(oo); std::cerr.rdbuf(oe); std::cin.clear(); std::cout.clear(); std::cerr.clear();
  output = out.str(); errout = err.str();
  if (!ex.empty()) { bad("tool-exception-escapes", "GeoidEval: exception " + ex + " escaped main"); return -98; }
  return rc;
}
static std::vector<std::string> split_lines(const std::string& s) { std::vector<std::string> v; std::istringstream is(s); std::string l; while (std::getline(is, l)) v.push_back(l); return v; }
static std::string printable(std::string s) { for (auto& ch : s) if ((unsigned char)ch < 32 || (unsigned char)ch > 126) ch = '?'; for (size_t i = 0; i + 1 < s.size(); ++i) if (s[i] == ':' && s[i + 1] == ':') s[i + 1] = '.'; return s; }

static Reg r_eval("geoideval", [](const Args& a) {
  // w h cubic kind seed mode s:<input>   | rc nin nout nerr s:<output>
  // mode 0 plain, 1 --msltohae, 2 --haetomsl, 3 -w, 4 -z 31n, 5 --comment-delimiter #, 6 --input-string (lines separated by ;)
  int w = std::atoi(a[0].c_str()), h = std::atoi(a[1].c_str()); bool cubic = a[2] == "1"; int kind = std::atoi(a[3].c_str()); uint64_t seed = std::strtoull(a[4].c_str(), nullptr, 10);
  int mode = std::atoi(a[5].c_str()); std::string input = unhs(a[6]);
  std::string name = "e" + std::to_string(getpid()); const double offset = -108, scale = 0.003;
  write_pgm(name, "P5", true, offset, true, scale, w, h, 65535, kind, seed, 0);
  std::vector<std::string> base = {"-n", name, "-d", tmpdir()}; if (!cubic) base.push_back("-l");
  if (mode == 1) base.push_back("--msltohae"); if (mode == 2) base.push_back("--haetomsl"); if (mode == 3) base.push_back("-w");
  if (mode == 4) { base.push_back("-z"); base.push_back("31n"); } if (mode == 5) { base.push_back("--comment-delimiter"); base.push_back("#"); }
  std::string stdin_text = input, istr;
  if (mode == 6) { istr = input; for (auto& ch : istr) if (ch == '\n') ch = ';'; if (!istr.empty() && istr.back() == ';') istr.pop_back(); base.push_back("--input-string"); base.push_back(istr); stdin_text.clear(); }
  Rng r(seed * 7919 + 5);
  double cs = r.range(-90, 60), cw = r.range(-180, 180), cn = cs + r.range(1, 30), ce = cw + r.range(1, 200);
  std::vector<std::vector<std::string>> cachev = {{}, {"-a"}, {"-c", fmt(cs), fmt(cw), fmt(cn), fmt(ce)}, {"-v"}};
  std::vector<std::string> outs; int rc0 = 0; std::string err0;
  for (size_t k = 0; k < cachev.size(); ++k) {
    std::vector<std::string> args = cachev[k]; args.insert(args.end(), base.begin(), base.end());
    std::string out, err; int rc = run_geoideval(args, stdin_text, out, err);
    if (rc < -90) { emit("-98 0 0 0 s:"); std::remove(pgm_path(name).c_str()); return; }
    if (k == 0) { rc0 = rc; err0 = err; } else if (rc != rc0) bad("tool-cache-option", "exit status " + std::to_string(rc) + " with " + cachev[k][0] + ", " + std::to_string(rc0) + " without");
    outs.push_back(out);
    if (k == 3 && (err.find("Offset (m): -108") == std::string::npos || err.find(std::string("Interpolation: ") + (cubic ? "cubic" : "bilinear")) == std::string::npos || err.find("Scale (m): 0.003") == std::string::npos))
      bad("tool-verbose", "GeoidEval -v does not report interpolation / offset / scale of the object: " + printable(err.substr(0, 200)));
  }
  for (size_t k = 1; k < outs.size(); ++k) if (outs[k] != outs[0]) bad("tool-cache-option", "GeoidEval output changes with " + cachev[k][0] + ": '" + printable(outs[k].substr(0, 120)) + "' vs '" + printable(outs[0].substr(0, 120)) + "'");
  // the lines the tool reads: standard input, or the --input-string with ';' turned into line feeds (an empty string means standard input, here empty)
  std::vector<std::string> in = split_lines(mode == 6 ? [&] { std::string s = istr; for (auto& ch : s) if (ch == ';') ch = '\n'; return s; }() : input), out = split_lines(outs[0]);
  int nerr = 0; for (auto& l : out) if (l.compare(0, 6, "ERROR:") == 0) ++nerr;
  emit(std::to_string(rc0) + " " + std::to_string(in.size()) + " " + std::to_string(out.size()) + " " + std::to_string(nerr) + " " + hs(outs[0].substr(0, 4000)));
  bool endnl = outs[0].empty() || outs[0].back() == '\n';
  if (in.size() != out.size() || !endnl) { bad("tool-line-count", "GeoidEval: " + std::to_string(in.size()) + " input lines, " + std::to_string(out.size()) + " output lines"); std::remove(pgm_path(name).c_str()); return; }
  if ((nerr > 0) != (rc0 != 0)) bad("tool-exit-status", "GeoidEval: " + std::to_string(nerr) + " ERROR lines, exit status " + std::to_string(rc0));
  // heights equal the object's
  Geoid g(name, tmpdir(), cubic, false);
  std::string back_in; std::vector<double> hin;
  for (size_t i = 0; i < in.size(); ++i) {
    bool iserr = out[i].compare(0, 6, "ERROR:") == 0; std::string line = in[i], tail;
    if (mode == 5) { size_t m = line.find('#'); if (m != std::string::npos) { tail = " " + line.substr(m); size_t m1 = m > 0 ? line.find_last_not_of(" \t\n\v\f\r,", m - 1) : std::string::npos; line = line.substr(0, m1 != std::string::npos ? m1 + 1 : m); } }
    if (mode == 0 || mode == 3 || mode == 5 || mode == 6) {
      std::string expect; try { GeoCoords p(line, true, mode == 3); expect = Utility::str(g(p.Latitude(), p.Longitude()), 4) + tail; } catch (const std::exception&) { expect = "ERROR:"; }
      if (expect == "ERROR:" ? !iserr : out[i] != expect) bad("tool-height", "GeoidEval line '" + printable(in[i]) + "' -> '" + printable(out[i]) + "', the object gives '" + printable(expect) + "'");
    } else if (mode == 4) {
      double e = 0, n = 0; char x = 0; std::string expect;
      if (std::sscanf(line.c_str(), "%lf %lf %c", &e, &n, &x) == 2) { try { GeoCoords p(31, true, e, n); expect = Utility::str(g(p.Latitude(), p.Longitude()), 4); } catch (const std::exception&) { expect = "ERROR:"; }
        if (expect == "ERROR:" ? !iserr : out[i] != expect) bad("tool-height", "GeoidEval -z 31n line '" + printable(in[i]) + "' -> '" + printable(out[i]) + "', the object gives '" + expect + "'"); }
    } else {
      double la = 0, lo = 0, hh = 0; char x = 0;
      if (std::sscanf(line.c_str(), "%lf %lf %lf %c", &la, &lo, &hh, &x) == 3 && std::fabs(la) <= 90 && std::isfinite(lo) && std::isfinite(hh) && std::fabs(hh) < 1e9) {
        if (iserr) { bad("tool-valid-line-rejected", "GeoidEval: '" + printable(in[i]) + "' -> '" + printable(out[i]) + "'"); continue; }
        size_t sp = out[i].find_last_of(" \t"); double got = std::atof(out[i].substr(sp == std::string::npos ? 0 : sp + 1).c_str()), N = g(la, lo), want = hh + (mode == 1 ? N : -N);
        if (!(std::fabs(got - want) <= 0.5e-4 + 1e-9 * (1 + std::fabs(want)))) bad("tool-height", "GeoidEval " + std::string(mode == 1 ? "--msltohae" : "--haetomsl") + " '" + printable(in[i]) + "' -> '" + printable(out[i]) + "', expected " + fmt(want));
        back_in += out[i] + "\n"; hin.push_back(hh);
      }
    }
  }
  if ((mode == 1 || mode == 2) && !hin.empty()) {
    // --msltohae and --haetomsl are mutually inverse (to the printed precision: two roundings to 1e-4)
    std::vector<std::string> args = {"-n", name, "-d", tmpdir()}; if (!cubic) args.push_back("-l"); args.push_back(mode == 1 ? "--haetomsl" : "--msltohae");
    std::string out2, err2; int rc2 = run_geoideval(args, back_in, out2, err2); auto o2 = split_lines(out2);
    if (rc2 != 0 || o2.size() != hin.size()) bad("tool-output-reparse", "GeoidEval does not accept its own converted lines");
    else for (size_t i = 0; i < hin.size(); ++i) { size_t sp = o2[i].find_last_of(" \t"); double got = std::atof(o2[i].substr(sp == std::string::npos ? 0 : sp + 1).c_str());
      if (!(std::fabs(got - hin[i]) <= 1.5e-4 + 1e-9 * std::fabs(hin[i]))) bad("tool-convert-inverse", "GeoidEval --msltohae/--haetomsl round trip: " + fmt(hin[i]) + " -> '" + printable(o2[i]) + "'"); }
  }
  std::remove(pgm_path(name).c_str());
});

// ---------------------------------------------------------------------------------------------------------
// generators
// ---------------------------------------------------------------------------------------------------------
static std::string posline(Rng& r, int mode) {
  double lat = r.irange(0, 5) ? r.range(-90, 90) : r.pick(std::vector<double>{90, -90, 0, 89.99999, -89.99999}), lon = r.irange(0, 5) ? r.range(-180, 180) : r.pick(std::vector<double>{180, -180, 0, 359.5, -0.0});
  char b[128];
  if (mode == 4) { std::snprintf(b, sizeof b, "%.3f %.3f", r.range(200000, 800000), r.range(100000, 9300000)); return b; }
  if (mode == 1 || mode == 2) { std::snprintf(b, sizeof b, "%.8f %.8f %.4f", lat, lon, r.irange(0, 3) ? r.range(-500, 9000) : r.pick(std::vector<double>{0, -0.0001, 12345.6789, 1e6})); return b; }
  switch (r.irange(0, 5)) {
  case 0: { int d = int(std::fabs(lat)), m = r.irange(0, 59); std::snprintf(b, sizeof b, "%dd%d'%c %dd%d'%c", d == 90 ? 89 : d, m, lat < 0 ? 'S' : 'N', int(std::fabs(lon)) % 180, r.irange(0, 59), lon < 0 ? 'W' : 'E'); break; }
  case 1: std::snprintf(b, sizeof b, "%.6f,%.6f", lat, lon); break;
  case 2: std::snprintf(b, sizeof b, "%s %s", (fmt(std::fabs(lat)) + (lat < 0 ? "S" : "N")).c_str(), (fmt(std::fabs(lon)) + (lon < 0 ? "W" : "E")).c_str()); break;
  default: std::snprintf(b, sizeof b, "%.10f %.10f", lat, lon); }
  std::string s = b;
  if (mode == 3 && s.find_first_of("NSEW") == std::string::npos) { std::snprintf(b, sizeof b, "%.10f %.10f", lon, lat); s = b; }   // longitude first
  if (mode == 5 && r.coin()) s += r.pick(std::vector<std::string>{" # remark", "# x", "  #", " #a#b"});
  return s;
}
static std::string badline(Rng& r) {
  static const std::vector<std::string> v = {"91 0", "-90.0001 10", "abc", "", " ", "1", "1 2 3 4 5", "10N 20N", "nan nan", "45 inf", "1e400 2", "33d60'N 44E", "#", "10 20 30 40", "\t", "38SMB", "0 0 x y z"};
  return r.pick(v);
}

void gv::generate(const std::string& tier, uint64_t seed) {
  Rng r(seed * 49979687 + 20);
  const bool thorough = tier == "thorough";
  long n = thorough ? 1500 : 300;
  static const std::vector<int> oddh = {59, 111, 117, 187, 27, 53, 99, 105, 61, 181};      // raster heights whose latitude scale (h-1)/180 is inexact: 90 * _rlatres rounds above (h-1)/2 for 59, 111, 117, 187 (the row clamp at the north pole)
  for (long i = 0; i < n; ++i) {
    int w = 2 * r.irange(1, thorough ? 40 : 8), h = 2 * r.irange(1, thorough ? 20 : 4) + 1;
    if (i % 11 == 0) { w = 2; h = 3; }
    if (i % 12 == 5) { h = r.pick(oddh); w = 2 * r.irange(1, 4); }
    double offset = r.pick(std::vector<double>{-108.0, 0.0, -50.5, 1000.0}), scale = r.pick(std::vector<double>{0.003, 1.0, 0.0625, 1e-5});
    bool cubic = r.coin(), ts = r.irange(0, 4) == 0; int kind = r.irange(0, 2); uint64_t ps = r.next() % 1000000;
    Args ops = {std::to_string(w), std::to_string(h), hx(offset), hx(scale), cubic ? "1" : "0", ts ? "1" : "0", std::to_string(kind), std::to_string(ps)};
    double dlon = 360.0 / w, dlat = 180.0 / (h - 1);
    int len = r.irange(1, thorough ? 200 : 40);
    double plat = 0, plon = 0;
    for (int j = 0; j < len; ++j) {
      int k = r.irange(0, 21);
      if (k < 14 || k >= 20) {
        double lat, lon; int m = r.irange(0, 9);
        switch (m) {
        case 0: lat = 90 - dlat * r.irange(0, h - 1); lon = dlon * r.irange(-w, 2 * w); break;                 // nodes
        case 1: lat = 90 - dlat * r.irange(0, h - 1); lon = r.range(-180, 180); break;                         // on a parallel edge
        case 2: lat = r.pick(std::vector<double>{90, -90, nextdn(90), nextup(-90), 0, -0.0}); lon = r.range(-540, 540); break;
        case 3: lat = r.range(-90, 90); lon = r.pick(std::vector<double>{180, -180, 0, -0.0, 360, nextdn(180), nextup(-180), 540, -360, nextdn(0)}); break;
        case 4: lat = plat; lon = plon; break;                                                                  // same cell again
        case 5: lat = plat + r.range(-0.3, 0.3) * dlat; lon = plon + r.range(-0.3, 0.3) * dlon; if (std::fabs(lat) > 90) lat = plat; break;
        case 6: lat = (r.coin() ? 1 : -1) * (90 - r.range(0, 1.5) * dlat); lon = (r.coin() ? 180 : -180) + r.range(-1.5, 1.5) * dlon; break;   // polar caps near ±180
        default: lat = r.range(-90, 90); lon = r.range(-180, 180); }
        if (j % 37 == 36) lat = r.pick(std::vector<double>{NAN, 91.0, -90.5}); if (j % 41 == 40) lon = r.pick(std::vector<double>{NAN, INFINITY, -INFINITY});
        plat = lat; plon = lon;
        if (k >= 20) ops.push_back("C:" + hx(lat) + ":" + hx(lon) + ":" + hx(r.irange(0, 3) ? r.range(-1000, 9000) : r.pick(std::vector<double>{0, -0.0, 1e-300, 1e15, -123.456, 8848.86})));
        else ops.push_back("H:" + hx(lat) + ":" + hx(lon));
      } else if (k < 17) {
        double s = r.range(-90, 90), nn = r.irange(0, 6) ? s + r.range(0, 90) : s - 1; if (nn > 90 && r.coin()) nn = 90;
        if (r.irange(0, 9) == 0) { s = r.pick(std::vector<double>{-90, 90, 0, nextup(-90)}); nn = r.pick(std::vector<double>{90, s, nextdn(90)}); }      // pole-touching, degenerate
        double we = r.irange(0, 2) ? r.range(-180, 180) : r.pick(std::vector<double>{-10, 350, 170, -180, 0}), ea = r.irange(0, 2) ? we + r.range(0, 360) : r.pick(std::vector<double>{10, -170, 180, 0, 360});
        if (r.irange(0, 9) == 0) ea = r.pick(std::vector<double>{we, we + 360, we + 720, nextup(we), we - 1e-9, we + 359.999999});                          // degenerate / whole circle / larger than the raster
        if (r.irange(0, 29) == 0) { double bad = r.pick(std::vector<double>{NAN, INFINITY, -INFINITY, 1e300}); switch (r.irange(0, 3)) { case 0: s = bad; break; case 1: we = bad; break; case 2: nn = bad; break; default: ea = bad; } }
        ops.push_back("A:" + hx(s) + ":" + hx(we) + ":" + hx(nn) + ":" + hx(ea));
      } else if (k < 18) ops.push_back("L");
      else ops.push_back("X");
    }
    run("geoid", ops);
    stratum(std::string("history-") + (cubic ? "cubic" : "bilinear") + (ts ? "-threadsafe" : ""));
    if (i < 2) sample(current_op().substr(0, 300));
    if (i % 20 == 0) run("geoidcubic", {"16", "11"});
    if (i % 10 == 0) run("geoidbil", {std::to_string(w), std::to_string(h), std::to_string(ps)});
    // header variants (structured fields)
    if (i % 2 == 0) {
      std::string magic = r.irange(0, 5) ? "P5" : r.pick(std::vector<std::string>{"P6", "P2", "p5", "P5x"});
      bool offp = r.irange(0, 5) != 0, scp = r.irange(0, 5) != 0; double sc = r.irange(0, 4) ? 0.003 : r.pick(std::vector<double>{0.0, -0.003, 1e-300});
      int hw = r.irange(0, 4) ? 2 * r.irange(1, 6) : r.pick(std::vector<int>{0, 1, 3, 5, 2}), hh = r.irange(0, 4) ? 2 * r.irange(1, 4) + 1 : r.pick(std::vector<int>{0, 1, 2, 4, 3});
      long mv = r.irange(0, 4) ? 65535 : r.pick(std::vector<long>{255, 65536, 0, 65534}); long delta = r.irange(0, 3) ? 0 : r.pick(std::vector<long>{-1, 1, -2, 2, 10});
      run("geoidhdr", {magic, offp ? "1" : "0", hx(sc), scp ? "1" : "0", std::to_string(hw), std::to_string(hh), std::to_string(mv), std::to_string(delta)});
    }
    // byte-level headers
    for (int k = 0; k < 6; ++k) {
      c20::Case c = c20::gen_case(r, thorough);
      run("geoidpgm", {c.cubic ? "1" : "0", std::to_string(c.expect), hs(c.header), std::to_string(c.datalen), std::to_string(c.kind)});
      stratum(c.stratum + (c.expect == 1 ? "-valid" : c.expect == 0 ? "-invalid" : ""));
      if (i < 1 && k < 2) sample(current_op().substr(0, 300));
    }
    // a valid raster of more than 4 GiB
    if (i % (thorough ? 25 : 40) == 7) {
      static const std::vector<std::pair<long, long>> dims = {{65536, 32769}, {4096, 524291}, {2, 1073741823}, {46342, 46341}, {21600, 99421}, {4, 536870913}, {1073741824, 3}, {65538, 65537}, {2, 1073741823}};
      auto d = r.pick(dims); if (!thorough && d.first * d.second > (1ll << 33)) d = dims[0];
      c20::HB b; b.comments = {"# Offset -108\n", "# Scale 0.003\n"}; b.size = std::to_string(d.first) + " " + std::to_string(d.second) + "\n";
      run("geoidbig", {r.coin() ? "1" : "0", hs(b.str()), std::to_string(d.first), std::to_string(d.second), std::to_string(r.next() % 1000000)});
      stratum("large-raster-sparse");
    }
    // dimensions above 2^30 (must be refused: the index arithmetic is done in int)
    if (i == 9 || (thorough && i % 300 == 9)) { run("geoidhuge", {std::to_string(int(i / 300) % 2 + (thorough ? 0 : int(seed % 2)))}); stratum("dimension-above-2^30"); }
    // default path and name
    if (i % 8 == 3) {
      auto ev = [&]() -> std::string { int q = r.irange(0, 5); return q == 0 ? "-" : q == 1 ? hs("") : hs(r.pick(std::vector<std::string>{"/data/geo", "relative/dir", "/", "/x y", "egm2008-1", "egm84-15", "/usr/share/GeographicLib"})); };
      run("geoidenv", {ev(), ev(), ev()}); stratum("default-path-name");
      run("geoidlookup", {std::to_string(r.irange(0, 3)), r.coin() ? "1" : "0"}); stratum("default-path-lookup");
    }
    // GeoidEval
    if (i % 5 == 2) {
      int mode = r.irange(0, 6), nl = r.irange(0, 6); std::string in;
      for (int q = 0; q < nl; ++q) in += (r.irange(0, 4) ? posline(r, mode) : badline(r)) + "\n";
      if (mode == 6) for (auto& ch : in) if (ch == ';') ch = ',';
      if (nl > 0 && mode != 6 && r.irange(0, 5) == 0) in.pop_back();                                             // no final newline
      run("geoideval", {std::to_string(2 * r.irange(2, 8)), std::to_string(2 * r.irange(2, 5) + 1), r.coin() ? "1" : "0", std::to_string(r.irange(0, 2)), std::to_string(r.next() % 100000), std::to_string(mode), hs(in)});
      stratum("geoideval-mode" + std::to_string(mode));
    }
  }
}
int main(int argc, char** argv) { int rc = gv::main_(argc, argv); std::string d = tmpdir(); rmdir((d + "/geoids").c_str()); rmdir(d.c_str()); return rc; }
