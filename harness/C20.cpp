// C20: Geoid heights depend only on data and position, never on cache history
#include "common.hpp"
#include <GeographicLib/Geoid.hpp>
#include <GeographicLib/Math.hpp>
#include <fstream>
#include <memory>
#include <unistd.h>
using namespace GeographicLib; using namespace gv;

static std::string tmpdir() {
  static std::string d; if (d.empty()) { char t[] = "/tmp/gvgeoidXXXXXX"; d = mkdtemp(t); } return d;
}
static uint64_t mix(uint64_t z) { z += 0x9e3779b97f4a7c15ULL; z = (z ^ (z >> 30)) * 0xbf58476d1ce4e5b9ULL; z = (z ^ (z >> 27)) * 0x94d049bb133111ebULL; return z ^ (z >> 31); }
static unsigned pixel_at(int kind, uint64_t seed, int w, int ix, int iy) {
  switch (kind) { case 0: return unsigned(mix(seed + uint64_t(iy * w + ix)) & 0xffff);
    case 1: return unsigned((1000 + 37 * ix + 101 * iy + (mix(seed + uint64_t(iy * w + ix)) & 0xff)) % 65536);
    case 3: { long x = ix, y = iy; return unsigned(20000 + 7 * x + 11 * y + 3 * x * x - 2 * x * y + 5 * y * y + x * x * x - y * y * y + 2 * x * x * y - x * y * y); }   // a cubic polynomial
    default: return unsigned(mix(seed + uint64_t(iy)) & 0xffff); }
}
static std::string fmt(double v) { char b[64]; std::snprintf(b, sizeof b, "%.17g", v); return b; }
static std::string write_pgm(const std::string& name, const std::string& magic, bool offp, double offset, bool scp, double scale, int w, int h, long maxval, int kind, uint64_t seed, long delta) {
  std::string path = tmpdir() + "/" + name + ".pgm";
  std::ofstream f(path, std::ios::binary);
  f << magic << "\n# Description synthetic raster\n";
  if (offp) f << "# Offset " << fmt(offset) << "\n";
  if (scp) f << "# Scale " << fmt(scale) << "\n";
  f << "# MaxBilinearError 0.1\n" << w << " " << h << "\n" << maxval << "\n";
  long n = long(w) * h + delta / 2; if (n < 0) n = 0;
  for (long i = 0; i < n; ++i) { unsigned p = (i < long(w) * h) ? pixel_at(kind, seed, w, int(i % w), int(i / w)) : 0; f.put(char(p >> 8)); f.put(char(p & 0xff)); }
  if (delta % 2) f.put(0);
  return path;
}
static std::vector<std::string> splitc(const std::string& s) { std::vector<std::string> r; std::string t; std::istringstream is(s); while (std::getline(is, t, ':')) r.push_back(t); return r; }

static Reg r_geoid("geoid", [](const Args& a) {
  int w = std::atoi(a[0].c_str()), h = std::atoi(a[1].c_str()); double offset = unhx(a[2]), scale = unhx(a[3]); bool cubic = a[4] == "1", ts = a[5] == "1";
  int kind = std::atoi(a[6].c_str()); uint64_t seed = std::strtoull(a[7].c_str(), nullptr, 10);
  std::string name = "g" + std::to_string(getpid());
  write_pgm(name, "P5", true, offset, true, scale, w, h, 65535, kind, seed, 0);
  std::unique_ptr<Geoid> g, fresh_ts;
  std::string e0 = guarded([&] { g.reset(new Geoid(name, tmpdir(), cubic, ts)); fresh_ts.reset(new Geoid(name, tmpdir(), cubic, true)); });
  if (!e0.empty()) { emit("!ctor" + e0); bad("valid-file-rejected", "well-formed synthetic raster rejected by the constructor"); return; }
  std::string out;
  for (size_t i = 8; i < a.size(); ++i) {
    auto t = splitc(a[i]);
    if (t[0] == "H") {
      double lat = unhx(t[1]), lon = unhx(t[2]), v = 0;
      std::string e = guarded([&] { v = (*g)(lat, lon); });
      out += " " + (e.empty() ? hx(v) : e);
      if (!e.empty()) { bad("height-throws", "height query threw " + e); continue; }
      // the property itself: bit-for-bit the value a fresh object (no history, no cache) and a thread-safe object return
      double v1 = 0, v2 = 0; Geoid f1(name, tmpdir(), cubic, false); v1 = f1(lat, lon); v2 = (*fresh_ts)(lat, lon);
      if (bits(v1) != bits(v) && !(std::isnan(v) && std::isnan(v1))) bad("history-dependence", "height differs from a fresh object's: " + fmt(v) + " vs " + fmt(v1) + " at op " + std::to_string(i - 8));
      if (bits(v2) != bits(v) && !(std::isnan(v) && std::isnan(v2))) bad("cache-mode-dependence", "height differs from a thread-safe object's: " + fmt(v) + " vs " + fmt(v2) + " at op " + std::to_string(i - 8));
      if (std::isfinite(lat) && std::isfinite(lon) && std::fabs(lat) <= 90) {
        // periodic in longitude (exact shift), NaN only for NaN input
        double l2 = lon + 360; if (l2 - 360 == lon && std::remainder(l2, 360.0) == std::remainder(lon, 360.0)) { double v3 = f1(lat, l2); if (bits(v3) != bits(v1)) bad("longitude-period", "height(lat, lon+360) differs"); }
        if (std::isnan(v)) bad("nan-for-finite-input", "NaN height for a finite position");
        // conversions are mutually inverse
        double hh = 123.456, back = g->ConvertHeight(lat, lon, g->ConvertHeight(lat, lon, hh, Geoid::GEOIDTOELLIPSOID), Geoid::ELLIPSOIDTOGEOID);
        if (!(std::fabs(back - hh) <= 1e-9)) bad("convert-height", "ConvertHeight round trip off by " + fmt(back - hh));
      } else if (!std::isnan(v)) bad("nan-input", "non-NaN height for NaN / out-of-range latitude input");
    } else if (t[0] == "A") {
      std::string e = guarded([&] { g->CacheArea(unhx(t[1]), unhx(t[2]), unhx(t[3]), unhx(t[4])); }); out += " " + (e.empty() ? std::string("-") : e);
      if (!e.empty() && e != "!E") bad("foreign-exception", e);
    } else if (t[0] == "L") { std::string e = guarded([&] { g->CacheAll(); }); out += " " + (e.empty() ? std::string("-") : e); }
    else if (t[0] == "X") { g->CacheClear(); out += " -"; }
  }
  emit(out.empty() ? "" : out.substr(1));
  std::remove((tmpdir() + "/" + name + ".pgm").c_str());
});

// bilinear laws on the implementation: nodes reproduce the grid value, linear along edges, continuous across cells
static Reg r_bil("geoidbil", [](const Args& a) {
  int w = std::atoi(a[0].c_str()), h = std::atoi(a[1].c_str()); uint64_t seed = std::strtoull(a[2].c_str(), nullptr, 10);
  double offset = -108, scale = 0.003; std::string name = "b" + std::to_string(getpid());
  write_pgm(name, "P5", true, offset, true, scale, w, h, 65535, 0, seed, 0);
  Geoid g(name, tmpdir(), false, false);
  double dlon = 360.0 / w, dlat = 180.0 / (h - 1); int nb = 0;
  for (int iy = 0; iy < h; ++iy) for (int ix = 0; ix < w; ++ix) {
    double lat = 90 - iy * dlat, lon = ix * dlon; double v = g(lat, lon), ref = offset + scale * pixel_at(0, seed, w, ix, iy);
    if (!(std::fabs(v - ref) <= 64 * ulp(std::fabs(offset) + scale * 65535)) && nb++ < 3) bad("bilinear-node", "height at grid node differs from offset + scale*pixel: " + fmt(v) + " vs " + fmt(ref));
    if (iy + 1 < h) { // linear along the meridional edge, and continuous across the edge between cell ix-1 and ix
      double lm = lat - dlat / 2, vm = g(lm, lon), v2 = g(std::fmax(-90.0, lat - dlat), lon);   // 90 - 26*(180/26) - ... can round to just below -90 (LatFix -> NaN): the node is the pole
      if (!(std::fabs(vm - (v + v2) / 2) <= 1e-9 * (1 + std::fabs(v))) && nb++ < 3) bad("bilinear-edge", "not linear along a cell edge");
      double e = dlon * 1e-9, vl = g(lm, lon - e), vr = g(lm, lon + e);
      if (!(std::fabs(vl - vr) <= 1e-6 * scale * 65535) && nb++ < 3) bad("bilinear-continuity", "jump across a cell boundary");
    }
  }
  emit("done");
  std::remove((tmpdir() + "/" + name + ".pgm").c_str());
});

// the documented cubic interpolation reproduces a raster sampled from a cubic polynomial (interior cells)
static Reg r_cub("geoidcubic", [](const Args& a) {
  int w = std::atoi(a[0].c_str()), h = std::atoi(a[1].c_str()); double offset = -10, scale = 0.5; std::string name = "c" + std::to_string(getpid());
  write_pgm(name, "P5", true, offset, true, scale, w, h, 65535, 3, 0, 0);
  Geoid g(name, tmpdir(), true, false);
  double dlon = 360.0 / w, dlat = 180.0 / (h - 1); int nb = 0;
  for (int iy = 2; iy + 3 < h; ++iy) for (int ix = 1; ix + 2 < w / 2; ++ix) for (int k = 0; k < 4; ++k) {
    double fx = 0.25 * k + 0.1, fy = 0.2 * k + 0.15, x = ix + fx, y = iy + fy;
    double v = g(90 - y * dlat, x * dlon);
    double p = 20000 + 7 * x + 11 * y + 3 * x * x - 2 * x * y + 5 * y * y + x * x * x - y * y * y + 2 * x * x * y - x * y * y, ref = offset + scale * p;
    if (!(std::fabs(v - ref) <= 1e-9 * std::fabs(ref)) && nb++ < 3) bad("cubic-reproduces-cubics", "cubic interpolation of a cubic raster is off: " + fmt(v) + " vs " + fmt(ref));
  }
  emit("done");
  std::remove((tmpdir() + "/" + name + ".pgm").c_str());
});

static Reg r_hdr("geoidhdr", [](const Args& a) {
  // structured header: magic offsetPresent scale scalePresent w h maxval lengthDelta
  std::string magic = a[0]; bool offp = a[1] == "1"; double scale = unhx(a[2]); bool scp = a[3] == "1"; int w = std::atoi(a[4].c_str()), h = std::atoi(a[5].c_str()); long mv = std::atol(a[6].c_str()), delta = std::atol(a[7].c_str());
  std::string name = "h" + std::to_string(getpid());
  write_pgm(name, magic, offp, -108, scp, scale, w, h, mv, 0, 7, delta);
  bool ok1 = false, ok2 = false;
  std::string e1 = guarded([&] { Geoid g(name, tmpdir(), true, false); ok1 = true; });
  std::string e2 = guarded([&] { Geoid g(name, tmpdir(), false, true); ok2 = true; });
  emit(ok1 ? "1" : "0");
  if (ok1 != ok2) bad("header-validation", "plain and thread-safe constructors disagree on a file");
  if (!e1.empty() && e1 != "!E") bad("foreign-exception", e1);
  if (!e2.empty() && e2 != "!E") bad("foreign-exception", e2);
  std::remove((tmpdir() + "/" + name + ".pgm").c_str());
});

void gv::generate(const std::string& tier, uint64_t seed) {
  Rng r(seed * 49979687 + 20);
  long n = tier == "thorough" ? 1500 : 120;
  for (long i = 0; i < n; ++i) {
    int w = 2 * r.irange(1, tier == "thorough" ? 40 : 8), h = 2 * r.irange(1, tier == "thorough" ? 20 : 4) + 1;
    if (i % 11 == 0) { w = 2; h = 3; }
    double offset = r.pick(std::vector<double>{-108.0, 0.0, -50.5, 1000.0}), scale = r.pick(std::vector<double>{0.003, 1.0, 0.0625, 1e-5});
    bool cubic = r.coin(), ts = r.irange(0, 4) == 0; int kind = r.irange(0, 2); uint64_t ps = r.next() % 1000000;
    Args ops = {std::to_string(w), std::to_string(h), hx(offset), hx(scale), cubic ? "1" : "0", ts ? "1" : "0", std::to_string(kind), std::to_string(ps)};
    double dlon = 360.0 / w, dlat = 180.0 / (h - 1);
    int len = r.irange(1, tier == "thorough" ? 200 : 40);
    double plat = 0, plon = 0;
    for (int j = 0; j < len; ++j) {
      int k = r.irange(0, 19);
      if (k < 14) {
        double lat, lon; int m = r.irange(0, 9);
        switch (m) {
        case 0: lat = 90 - dlat * r.irange(0, h - 1); lon = dlon * r.irange(-w, 2 * w); break;                 // nodes
        case 1: lat = 90 - dlat * r.irange(0, h - 1); lon = r.range(-180, 180); break;                         // on a parallel edge
        case 2: lat = r.pick(std::vector<double>{90, -90, nextdn(90), nextup(-90), 0, -0.0}); lon = r.range(-540, 540); break;
        case 3: lat = r.range(-90, 90); lon = r.pick(std::vector<double>{180, -180, 0, -0.0, 360, nextdn(180), nextup(-180), 540, -360, nextdn(0)}); break;
        case 4: lat = plat; lon = plon; break;                                                                  // same cell again
        case 5: lat = plat + r.range(-0.3, 0.3) * dlat; lon = plon + r.range(-0.3, 0.3) * dlon; if (std::fabs(lat) > 90) lat = plat; break;
        case 6: lat = (r.coin() ? 1 : -1) * (90 - r.range(0, 1.5) * dlat); lon = (r.coin() ? 180 : -180) + r.range(-1.5, 1.5) * dlon; break;   // polar caps near ±180
        default: lat = r.range(-90, 90); lon = r.range(-180, 180); }
        if (j % 37 == 36) lat = r.pick(std::vector<double>{NAN, 91.0, -90.5}); if (j % 41 == 40) lon = NAN;
        plat = lat; plon = lon;
        ops.push_back("H:" + hx(lat) + ":" + hx(lon));
      } else if (k < 17) {
        double s = r.range(-90, 90), nn = r.irange(0, 6) ? s + r.range(0, 90) : s - 1; if (nn > 90 && r.coin()) nn = 90;
        double we = r.irange(0, 2) ? r.range(-180, 180) : r.pick(std::vector<double>{-10, 350, 170, -180, 0}), ea = r.irange(0, 2) ? we + r.range(0, 360) : r.pick(std::vector<double>{10, -170, 180, 0, 360});
        ops.push_back("A:" + hx(s) + ":" + hx(we) + ":" + hx(nn) + ":" + hx(ea));
      } else if (k < 18) ops.push_back("L");
      else ops.push_back("X");
    }
    run("geoid", ops);
    stratum(std::string("history-") + (cubic ? "cubic" : "bilinear") + (ts ? "-threadsafe" : ""));
    if (i < 2) sample(current_op().substr(0, 300));
    if (i % 20 == 0) run("geoidcubic", {"16", "11"});
    if (i % 10 == 0) run("geoidbil", {std::to_string(w), std::to_string(h), std::to_string(ps)});
    // header variants
    if (i % 2 == 0) {
      std::string magic = r.irange(0, 5) ? "P5" : r.pick(std::vector<std::string>{"P6", "P2", "p5", "P5x"});
      bool offp = r.irange(0, 5) != 0, scp = r.irange(0, 5) != 0; double sc = r.irange(0, 4) ? 0.003 : r.pick(std::vector<double>{0.0, -0.003, 1e-300});
      int hw = r.irange(0, 4) ? 2 * r.irange(1, 6) : r.pick(std::vector<int>{0, 1, 3, 5, 2}), hh = r.irange(0, 4) ? 2 * r.irange(1, 4) + 1 : r.pick(std::vector<int>{0, 1, 2, 4, 3});
      long mv = r.irange(0, 4) ? 65535 : r.pick(std::vector<long>{255, 65536, 0, 65534}); long delta = r.irange(0, 3) ? 0 : r.pick(std::vector<long>{-1, 1, -2, 2, 10});
      run("geoidhdr", {magic, offp ? "1" : "0", hx(sc), scp ? "1" : "0", std::to_string(hw), std::to_string(hh), std::to_string(mv), std::to_string(delta)});
    }
  }
}
int main(int argc, char** argv) { int rc = gv::main_(argc, argv); std::string d = tmpdir(); rmdir(d.c_str()); return rc; }
