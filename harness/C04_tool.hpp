// C04 / C05: tools/GeoConvert.cpp of the *current* tree compiled into the harness (as harness/C10.cpp does for the text contract; the usage stub is
// harness/C10_tools/GeoConvert.usage, found through the -I of tools/props.d/C04.py, C05.py) and run in-process on redirected cin / cout.  Here the *values*
// the tool prints are compared with the API: zone override (-z), standard zone (-s, -S), UTM everywhere (-t, -T), precision (-p), -l / -a, -n, -c.
#pragma once
#include <iostream>
#include <string>
#include <sstream>
#include <fstream>
#include <vector>
#include <GeographicLib/GeoCoords.hpp>
#include <GeographicLib/DMS.hpp>
#include <GeographicLib/Utility.hpp>
#include <GeographicLib/MGRS.hpp>
#include <GeographicLib/UTMUPS.hpp>
#include "C04_doc.hpp"

namespace tool_geoconvert {
#include "../tools/GeoConvert.cpp"
}

namespace gct {
using namespace GeographicLib;

inline std::vector<std::string> words(const std::string& s) { std::vector<std::string> v; std::istringstream is(s); std::string w; while (is >> w) v.push_back(w); return v; }
inline std::vector<std::string> lines(const std::string& s) { std::vector<std::string> v; std::istringstream is(s); std::string l; while (std::getline(is, l)) v.push_back(l); return v; }

// run GeoConvert <opts> on `input`; returns the exit status (or -98 if an exception escaped main, its type in `exc`)
inline int run(const std::vector<std::string>& opts, const std::string& input, std::string& output, std::string& exc) {
  std::vector<const char*> argv; argv.push_back("GeoConvert");
  for (auto& o : opts) argv.push_back(o.c_str());
  std::istringstream in(input); std::ostringstream out, err;
  std::streambuf *oi = std::cin.rdbuf(in.rdbuf()), *oo = std::cout.rdbuf(out.rdbuf()), *oe = std::cerr.rdbuf(err.rdbuf());
  std::cin.clear();
  int rc = -99; exc.clear();
  try { rc = tool_geoconvert::main(int(argv.size()), argv.data()); }
  catch (const std::exception& e) { exc = typeid(e).name(); rc = -98; } catch (...) { exc = "unknown"; rc = -98; }
  std::cin.rdbuf(oi); std::cout.rdbuf(oo); std::cerr.rdbuf(oe); std::cin.clear(); std::cout.clear(); std::cerr.clear();
  output = out.str();
  return rc;
}

// the options as GeoConvert(1) documents them
struct Opts {
  char mode = 'g';             // g d u m c
  int prec = 0;
  int zone = UTMUPS::MATCH;    // -z / -s / -t: the zone request handed to the conversion
  bool sethemi = false, northp = false, latch = false, abbrev = true, centerp = true;
  bool ok = true;
};
inline Opts parse(const std::vector<std::string>& o) {
  Opts r;
  for (size_t i = 0; i < o.size(); ++i) {
    const std::string& a = o[i];
    if (a == "-u") r.mode = 'u'; else if (a == "-m") r.mode = 'm'; else if (a == "-c") r.mode = 'c'; else if (a == "-g") r.mode = 'g'; else if (a == "-d") r.mode = 'd';
    else if (a == "-n") r.centerp = false;
    else if (a == "-l") r.abbrev = false; else if (a == "-a") r.abbrev = true;
    else if (a == "-s" || a == "-S") { r.zone = UTMUPS::STANDARD; r.sethemi = false; r.latch = a == "-S"; }
    else if (a == "-t" || a == "-T") { r.zone = UTMUPS::UTM; r.sethemi = false; r.latch = a == "-T"; }
    else if (a == "-p" && i + 1 < o.size()) r.prec = std::atoi(o[++i].c_str());
    else if (a == "-z" && i + 1 < o.size()) {
      // "-z zone: set the zone to zone for output.  Use either 0 < zone <= 60 for a UTM zone or zone = 0 for UPS.  Alternatively use a zone+hemisphere
      //  designation, e.g., 38n"
      const std::string& z = o[++i]; int zz; bool nn;
      if (doc::zonestr(z, zz, nn) && zz >= 0) { r.zone = zz; r.northp = nn; r.sethemi = true; }
      else { char* e; long v = std::strtol(z.c_str(), &e, 10); if (*e || z.empty() || v < 0 || v > 60) r.ok = false; r.zone = int(v); r.sethemi = false; }
      r.latch = false;
    } else r.ok = false;
  }
  return r;
}

// what one input line denotes, computed through the conversion classes directly (not through GeoCoords)
struct Pt { bool ok = false; int zone = -4; bool northp = false; double x = NAN, y = NAN, g = NAN, k = NAN, lat = NAN, lon = NAN; };

inline Pt from_latlon(double lat, double lon) {
  Pt p; try { UTMUPS::Forward(lat, lon, p.zone, p.northp, p.x, p.y, p.g, p.k); p.lat = lat; p.lon = Math::AngNormalize(lon); p.ok = true; } catch (const std::exception&) {}
  return p;
}
inline Pt from_utm(int zone, bool northp, double x, double y) {
  Pt p; try {
    UTMUPS::Reverse(zone, northp, x, y, p.lat, p.lon, p.g, p.k); p.zone = zone; p.northp = northp; p.x = x; p.y = y; p.ok = true;
    // a UTM northing continued across the equator is relabelled with the hemisphere of the point (the shift is the documented 10^7 m)
    if (!(p.lat == 0 || std::isnan(p.lat) || (northp && p.lat >= 0) || (!northp && p.lat < 0))) {
      if (zone == 0) p.ok = false; else { p.y += northp ? doc::SHIFT : -doc::SHIFT; p.northp = !northp; }
    }
  } catch (const std::exception&) {}
  return p;
}
inline Pt from_mgrs(const std::string& s, bool centerp) {
  Pt p; try { int prec; MGRS::Reverse(s, p.zone, p.northp, p.x, p.y, prec, centerp); UTMUPS::Reverse(p.zone, p.northp, p.x, p.y, p.lat, p.lon, p.g, p.k); p.ok = true; } catch (const std::exception&) {}
  return p;
}
// the point re-expressed in the zone selected by a zone request (MATCH = keep); `ok` false if the conversion is documented to fail
inline Pt in_zone(const Pt& m, int request) {
  if (!m.ok || request == UTMUPS::MATCH) return m;
  Pt a = m; a.ok = false;
  try {
    int zs = UTMUPS::StandardZone(m.lat, m.lon, request);
    if (zs == m.zone) { a.ok = true; return a; }
    bool n; UTMUPS::Forward(m.lat, m.lon, a.zone, n, a.x, a.y, a.g, a.k, zs);
    // the hemisphere label stays that of the point; Forward's differs from it only on the equator
    if (n != m.northp && a.zone > 0) a.y += m.northp ? -doc::SHIFT : doc::SHIFT;
    a.ok = true;
  } catch (const std::exception&) {}
  return a;
}

} // namespace gct
