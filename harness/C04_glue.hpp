// C04: the entry points around UTMUPS that the first rounds never called: UTMShift / EquatorialRadius / Flattening, the UTM/UPS glue of GeoCoords
// (both constructors' bookkeeping, FixHemisphere, SetAltZone, the Alt* accessors and the four UTMUPSRepresentation overloads), GeoConvert -u / -c.
// Included by C04.cpp after its helpers `b`, `SENT`.
#pragma once
#include "C04_tool.hpp"

// ---- constants -------------------------------------------------------------------------------------------------------------------------
static Reg r_consts("utm_consts", [](const Args&) {
  double sh = UTMUPS::UTMShift(), ua = UTMUPS::EquatorialRadius(), uf = UTMUPS::Flattening(), ma = MGRS::EquatorialRadius(), mf = MGRS::Flattening();
  double k0u = TransverseMercator::UTM().CentralScale(), k0p = PolarStereographic::UPS().CentralScale();
  double ta = TransverseMercator::UTM().EquatorialRadius(), tf = TransverseMercator::UTM().Flattening(), pa = PolarStereographic::UPS().EquatorialRadius(), pf = PolarStereographic::UPS().Flattening();
  emit(hx(sh) + " " + hx(ua) + " " + hx(uf) + " " + hx(ma) + " " + hx(mf) + " " + hx(k0u) + " " + hx(k0p));
  if (sh != doc::SHIFT) bad("documented-constant", "UTMUPS::UTMShift() = " + std::to_string(sh) + ", documented 10^7");
  if (ua != doc::WGS84_A || ma != doc::WGS84_A || ta != doc::WGS84_A || pa != doc::WGS84_A) bad("documented-constant", "EquatorialRadius() of UTMUPS / MGRS / the two projections is not the WGS84 value 6378137");
  double f = 1 / doc::WGS84_RF;
  if (!(std::fabs(uf - f) <= ulp(f)) || bits(mf) != bits(uf) || bits(tf) != bits(uf) || bits(pf) != bits(uf)) bad("documented-constant", "Flattening() of UTMUPS / MGRS / the two projections is not the WGS84 value 1/298.257223563");
  if (k0u != doc::K0_UTM || k0p != doc::K0_UPS) bad("documented-constant", "central scale of the UTM / UPS projection is not 0.9996 / 0.994");
  // the shift is what Forward applies across the equator (documented next to UTMShift): same point, two labels
  int z; bool n; double x, y, x2, y2;
  UTMUPS::Forward(-1.0, 123.0, z, n, x, y); UTMUPS::Transfer(z, n, x, y, z, true, x2, y2, z);
  if (n || x2 != x || y2 != y - sh) bad("documented-constant", "Transfer to the northern label does not subtract UTMShift()");
});

// ---- GeoCoords: constructors, FixHemisphere, SetAltZone, Alt* accessors, UTMUPSRepresentation overloads ------------------------------------
namespace glue {
struct Main { int zone; bool northp; double E, N, g, k, lat, lon; };
static Main read_main(const GeoCoords& c) { return Main{c.Zone(), c.Northp(), c.Easting(), c.Northing(), c.Convergence(), c.Scale(), c.Latitude(), c.Longitude()}; }
static bool same(const Main& a, const Main& b) {
  return a.zone == b.zone && a.northp == b.northp && bits(a.E) == bits(b.E) && bits(a.N) == bits(b.N) && bits(a.g) == bits(b.g) && bits(a.k) == bits(b.k) && bits(a.lat) == bits(b.lat) && bits(a.lon) == bits(b.lon);
}
static bool eqd(double a, double b) { return bits(a) == bits(b) || (std::isnan(a) && std::isnan(b)); }

// "zone+hemisphere easting northing" as the documentation of UTMUPSRepresentation describes it: does `s` denote (zone, label, E, N) at `prec`?
// returns "" or a complaint
static std::string check_rep(const std::string& s, int zone, bool label, double E, double N, int prec, bool abbrev) {
  auto w = gct::words(s);
  if (w.size() != 3) return "not three fields";
  if (w[0] != doc::zonestr_of(zone, label, abbrev)) return "zone/hemisphere field is " + w[0] + ", expected " + doc::zonestr_of(zone, label, abbrev);
  int pe = std::max(-5, std::min(9, prec));
  double unit = std::pow(10.0, -pe), tol = 0.5 * unit * (1 + 1e-9) + 4 * ulp(2e7);
  for (int i = 0; i < 2; ++i) {
    double v = i ? N : E; const std::string& t = w[1 + i];
    if (!std::isfinite(v)) { if (t != "nan") return "non-finite coordinate printed as " + t; continue; }
    char* e; double o = std::strtod(t.c_str(), &e);
    if (*e) return "field " + t + " is not a number";
    size_t dot = t.find('.'); int nd = dot == std::string::npos ? 0 : int(t.size() - dot - 1);
    if (nd != std::max(0, pe)) return "field " + t + " has " + std::to_string(nd) + " decimals at precision " + std::to_string(prec);
    if (!(std::fabs(o - v) <= tol)) { char buf[200]; std::snprintf(buf, sizeof buf, "field %s is not %.9f rounded to 10^%d m", t.c_str(), v, -pe); return buf; }
    if (pe < 0 && std::fmod(std::fabs(o), unit) != 0) return "field " + t + " is not a multiple of 10^" + std::to_string(-pe) + " m";
  }
  return "";
}
} // namespace glue

// gc_alt <kind> <a1> <a2> <a3> <a4> <altzone> <prec> <abbrev> <altzone2>
//   kind 0: GeoCoords(lat = a1, lon = a2, zone = a3);   kind 1: GeoCoords(zone = a1, northp = a2, easting = a3, northing = a4)
// the protocol line carries the main state and the kernel (what UTMUPS::Forward returns for the selected alternate zone), the result is the Alt* state
static Reg r_gcalt("gc_alt", [](const Args& a) {
  using namespace glue;
  int kind = std::atoi(a[0].c_str()), altz = std::atoi(a[5].c_str()), prec = std::atoi(a[6].c_str()), altz2 = std::atoi(a[8].c_str()); bool abbrev = a[7] == "1";
  double lat_in = NAN, lon_in = NAN, x_in = NAN, y_in = NAN; int zone_in = 0; bool np_in = false;
  GeoCoords c; std::string e0;
  if (kind == 0) { lat_in = unhx(a[1]); lon_in = unhx(a[2]); zone_in = std::atoi(a[3].c_str()); e0 = guarded([&] { c = GeoCoords(lat_in, lon_in, zone_in); }); }
  else { zone_in = std::atoi(a[1].c_str()); np_in = a[2] == "1"; x_in = unhx(a[3]); y_in = unhx(a[4]); e0 = guarded([&] { c = GeoCoords(zone_in, np_in, x_in, y_in); }); }
  // the same conversion through UTMUPS directly
  int dz = -77; bool dn = false; double dx = NAN, dy = NAN, dg = NAN, dk = NAN, dlat = NAN, dlon = NAN; std::string ed;
  if (kind == 0) { ed = guarded([&] { UTMUPS::Forward(lat_in, lon_in, dz, dn, dx, dy, dg, dk, zone_in); }); dlat = lat_in; dlon = Math::AngNormalize(lon_in); }
  else { ed = guarded([&] { UTMUPS::Reverse(zone_in, np_in, x_in, y_in, dlat, dlon, dg, dk); }); dz = zone_in; dn = np_in; dx = x_in; dy = y_in; }
  bool mixup = false;
  if (kind == 1 && ed.empty() && !(dlat == 0 || std::isnan(dlat) || (np_in && dlat >= 0) || (!np_in && dlat < 0))) {
    // the label contradicts the latitude: UTM northings continued across the equator are relabelled (shift 10^7 m), UPS is an error
    if (zone_in == 0) mixup = true; else { dy += np_in ? doc::SHIFT : -doc::SHIFT; dn = !np_in; }
  }
  if (!e0.empty()) {
    current_op() += " E";
    emit(e0 + " ctor"); if (e0 != "!E") bad("foreign-exception", e0);
    if (ed.empty() && !mixup) bad("geocoords-accessors", "the GeoCoords constructor throws where UTMUPS::" + std::string(kind == 0 ? "Forward" : "Reverse") + " succeeds");
    return;
  }
  if (!ed.empty() || mixup) { bad("geocoords-accessors", "the GeoCoords constructor succeeds where UTMUPS::" + std::string(kind == 0 ? "Forward" : "Reverse") + " throws / the UPS hemisphere is contradictory"); }
  Main m = read_main(c);
  if (ed.empty() && !mixup) {
    if (m.zone != dz || m.northp != dn || !eqd(m.E, dx) || !eqd(m.N, dy) || !eqd(m.g, dg) || !eqd(m.k, dk) || !eqd(m.lat, dlat) || !eqd(m.lon, dlon)) {
      char buf[300]; std::snprintf(buf, sizeof buf, "GeoCoords holds (%d, %d, %.17g, %.17g; %.17g, %.17g), UTMUPS gives (%d, %d, %.17g, %.17g; %.17g, %.17g)", m.zone, int(m.northp), m.E, m.N, m.lat, m.lon, dz, int(dn), dx, dy, dlat, dlon);
      bad("geocoords-accessors", buf);
    }
  }
  if (c.Hemisphere() != (m.northp ? 'n' : 's')) bad("geocoords-accessors", "Hemisphere() is not the letter of Northp()");
  if (c.AltZone() != m.zone || !eqd(c.AltEasting(), m.E) || !eqd(c.AltNorthing(), m.N) || !eqd(c.AltConvergence(), m.g) || !eqd(c.AltScale(), m.k)) bad("geocoords-accessors", "after construction the alternate zone is not the zone");
  // kernel of the model: the zone the request selects and what Forward returns for it
  int zs = -99; std::string es = guarded([&] { zs = UTMUPS::StandardZone(m.lat, m.lon, altz); });
  int kz = -99; bool kn = false; double kx = NAN, ky = NAN, kg = NAN, kk = NAN; std::string ek = "-";
  if (es.empty()) ek = guarded([&] { UTMUPS::Forward(m.lat, m.lon, kz, kn, kx, ky, kg, kk, zs); });
  if (!ek.empty()) { kz = -99; kn = false; kx = ky = kg = kk = NAN; }
  // the same for the second request of the history
  int zs2 = -99; std::string es2 = guarded([&] { zs2 = UTMUPS::StandardZone(m.lat, m.lon, altz2); });
  int kz2 = -99; bool kn2 = false; double kx2 = NAN, ky2 = NAN, kg2 = NAN, kk2 = NAN; std::string ek2 = "-";
  if (es2.empty()) ek2 = guarded([&] { UTMUPS::Forward(m.lat, m.lon, kz2, kn2, kx2, ky2, kg2, kk2, zs2); });
  if (!ek2.empty()) { kz2 = -99; kn2 = false; kx2 = ky2 = kg2 = kk2 = NAN; }
  current_op() += " " + std::to_string(m.zone) + " " + b(m.northp) + " " + hx(m.E) + " " + hx(m.N) + " " + hx(m.g) + " " + hx(m.k) + " " + hx(m.lat) + " " + hx(m.lon) +
    " " + b(ek.empty()) + " " + std::to_string(kz) + " " + b(kn) + " " + hx(kx) + " " + hx(ky) + " " + hx(kg) + " " + hx(kk) +
    " " + b(ek2.empty()) + " " + std::to_string(kz2) + " " + b(kn2) + " " + hx(kx2) + " " + hx(ky2) + " " + hx(kg2) + " " + hx(kk2);
  std::string e1 = guarded([&] { c.SetAltZone(altz); });
  if (!same(m, read_main(c))) bad("altzone-changes-the-point", "SetAltZone changed the coordinates proper");
  if (!e1.empty()) {
    emit(e1); if (e1 != "!E") bad("foreign-exception", e1);
    if (c.AltZone() != m.zone || !eqd(c.AltEasting(), m.E) || !eqd(c.AltNorthing(), m.N)) bad("output-modified-on-throw", "GeoCoords::SetAltZone threw but changed the alternate coordinates");
    return;
  }
  int az = c.AltZone(); double aE = c.AltEasting(), aN = c.AltNorthing(), aG = c.AltConvergence(), aK = c.AltScale();
  // history: a second request on the same object (what an interactive user of the class does; the tool resets the object for every line)
  std::string second;
  {
    GeoCoords c2 = c; std::string e2 = guarded([&] { c2.SetAltZone(altz2); });
    second = e2.empty() ? std::to_string(c2.AltZone()) + " " + hx(c2.AltEasting()) + " " + hx(c2.AltNorthing()) + " " + hx(c2.AltConvergence()) + " " + hx(c2.AltScale()) : e2;
    if (!same(m, read_main(c2))) bad("altzone-changes-the-point", "the second SetAltZone changed the coordinates proper");
    // whatever came before, the alternate coordinates after a request are those of a fresh object given the same request
    GeoCoords f; std::string ef = kind == 0 ? guarded([&] { f = GeoCoords(lat_in, lon_in, zone_in); }) : guarded([&] { f = GeoCoords(zone_in, np_in, x_in, y_in); });
    std::string e3 = ef.empty() ? guarded([&] { f.SetAltZone(altz2); }) : ef;
    if (altz2 != UTMUPS::MATCH && (e2.empty() != e3.empty() || (e2.empty() && (f.AltZone() != c2.AltZone() || !eqd(f.AltEasting(), c2.AltEasting()) || !eqd(f.AltNorthing(), c2.AltNorthing()) || !eqd(f.AltConvergence(), c2.AltConvergence()) || !eqd(f.AltScale(), c2.AltScale())))))
      bad("altzone-history", "SetAltZone(" + std::to_string(altz2) + ") after SetAltZone(" + std::to_string(altz) + ") differs from SetAltZone(" + std::to_string(altz2) + ") on a fresh object");
  }
  emit(std::to_string(az) + " " + hx(aE) + " " + hx(aN) + " " + hx(aG) + " " + hx(aK) + " ; " + second);
  bool finite = std::isfinite(m.lat) && std::isfinite(m.lon) && m.zone >= 0 && az >= 0 && std::isfinite(aE) && std::isfinite(aN);
  std::string cls = (m.lat == 0 && !m.northp && az != m.zone) ? " [class:equator-south-label]" : "";
  if (altz == UTMUPS::MATCH) { if (az != m.zone || !eqd(aE, m.E) || !eqd(aN, m.N) || !eqd(aG, m.g) || !eqd(aK, m.k)) bad("altzone-vs-forward", "SetAltZone(MATCH) changed the alternate coordinates"); }
  else if (es.empty() && az != zs) bad("altzone-vs-forward", "AltZone() = " + std::to_string(az) + " but the request selects zone " + std::to_string(zs));
  if (finite) {
    double cm = az > 0 ? std::fabs(Math::AngDiff(doc::central_meridian(az), m.lon)) : 0; bool polar = az == 0 && std::fabs(m.lat) > 89.999;
    // (1) the alternate coordinates, with the hemisphere label of the object, denote the point
    double lat2 = NAN, lon2 = NAN; std::string e2 = guarded([&] { UTMUPS::Reverse(az, m.northp, aE, aN, lat2, lon2); });
    if (!e2.empty()) bad("altzone-denotes-the-point", "alternate coordinates with the object's hemisphere label are not legal UTM/UPS coordinates" + cls);
    else if (cm < 30) {
      double dist = std::hypot((lat2 - m.lat) * 111e3, polar ? 0 : Math::AngDiff(m.lon, lon2) * 111e3 * std::cos(m.lat * Math::degree()));
      if (!(dist < 40e-9)) bad("altzone-denotes-the-point", "alternate coordinates with the object's hemisphere label denote a point " + std::to_string(dist) + " m away" + cls);
    }
    // (2) they are those of UTMUPS::Forward at the same (lat, lon) with setzone = the alternate zone (exactly when the zone changes; to the closure
    //     tolerance when it does not and the object was built from UTM/UPS coordinates)
    if (ek.empty() && kz == az && cm < 30) {
      double wy = ky; if (kn != m.northp && az > 0) wy += m.northp ? -doc::SHIFT : doc::SHIFT;
      double d = std::hypot(aE - kx, aN - wy);
      if (!(d < 40e-9 + 4e-16 * std::hypot(aE, aN))) bad("altzone-vs-forward", "alternate coordinates differ from UTMUPS::Forward(lat, lon, setzone = " + std::to_string(az) + ") by " + std::to_string(d) + " m" + cls);
      if (!(polar || std::fabs(Math::AngDiff(aG, kg)) < 1e-9) || !(std::fabs(aK - kk) < 1e-12)) bad("altzone-vs-forward", "alternate convergence / scale differ from UTMUPS::Forward's");
    }
  }
  // (3) the four representation overloads, main and alternate
  // (UTMUPS::Reverse returns NaNs for a NaN coordinate before it looks at the zone, so GeoCoords(61, n, NaN, y) exists with zone 61: only legal zones here)
  if ((m.zone >= 0 && m.zone <= 60) || m.zone == UTMUPS::INVALID) {
    struct V { const char* name; bool alt; int label; };   // label: -1 the object's, 0 south, 1 north
    for (const V& v : {V{"UTMUPSRepresentation", false, -1}, V{"UTMUPSRepresentation", false, 0}, V{"UTMUPSRepresentation", false, 1},
                       V{"AltUTMUPSRepresentation", true, -1}, V{"AltUTMUPSRepresentation", true, 0}, V{"AltUTMUPSRepresentation", true, 1}}) {
      int zone = v.alt ? az : m.zone; double E = v.alt ? aE : m.E, N = v.alt ? aN : m.N; bool label = v.label < 0 ? m.northp : v.label == 1;
      std::string s, e3 = guarded([&] { s = v.label < 0 ? (v.alt ? c.AltUTMUPSRepresentation(prec, abbrev) : c.UTMUPSRepresentation(prec, abbrev))
                                                         : (v.alt ? c.AltUTMUPSRepresentation(label, prec, abbrev) : c.UTMUPSRepresentation(label, prec, abbrev)); });
      std::string what = std::string(v.name) + (v.label < 0 ? "(prec, abbrev)" : v.label ? "(true, prec, abbrev)" : "(false, prec, abbrev)");
      bool mustthrow = zone == 0 && label != m.northp;     // UPS coordinates cannot be relabelled
      if (!e3.empty()) { if (e3 != "!E") bad("foreign-exception", e3); if (!mustthrow) bad("utmups-representation", what + " throws" + cls); continue; }
      if (mustthrow) { bad("utmups-representation", what + " relabels UPS coordinates with the other hemisphere"); continue; }
      if (zone < 0) { if (s.compare(0, 3, "inv") != 0) bad("utmups-representation", what + " of an invalid position is " + s); continue; }
      double Nl = N; if (label != m.northp) Nl += label ? -doc::SHIFT : doc::SHIFT;
      std::string why = check_rep(s, zone, label, E, Nl, prec, abbrev);
      if (!why.empty()) bad("utmups-representation", what + " = '" + s + "': " + why + cls);
      // and, read as UTM/UPS coordinates, it denotes the point (to the printed resolution)
      if (why.empty() && finite && prec >= 0) {
        auto w = gct::words(s); double lat2 = NAN, lon2 = NAN;
        std::string e4 = guarded([&] { UTMUPS::Reverse(zone, label, std::strtod(w[1].c_str(), nullptr), std::strtod(w[2].c_str(), nullptr), lat2, lon2); });
        double res = std::pow(10.0, -std::min(9, prec));
        if (!e4.empty()) bad("utmups-representation", what + " = '" + s + "' is not legal UTM/UPS input" + cls);
        else if (zone > 0 && std::fabs(Math::AngDiff(doc::central_meridian(zone), m.lon)) < 30 && !(std::fabs(lat2 - m.lat) * 111e3 < 2 * res + 40e-9)) bad("utmups-representation", what + " = '" + s + "' denotes a point at latitude " + std::to_string(lat2) + ", the object is at " + std::to_string(m.lat) + cls);
      }
    }
  }
});

// ---- GeoConvert -u / -c : values -----------------------------------------------------------------------------------------------------------
// gconv s:<options> s:<input lines>; every input line is one of  G <lat> <lon> | U <zone> <northp> <x> <y> | M <mgrs>  followed by " ; " and the text
// handed to the tool (so the harness knows what the text denotes without parsing it)
static Reg r_gconv("gconv", [](const Args& a) {
  auto opts = gct::words(unhs(a[0])); gct::Opts o = gct::parse(opts);
  auto recs = gct::lines(unhs(a[1]));
  std::string input; std::vector<gct::Pt> pts;
  for (auto& r : recs) {
    size_t sc = r.find(" ; "); std::string head = r.substr(0, sc), text = sc == std::string::npos ? "" : r.substr(sc + 3);
    auto w = gct::words(head); gct::Pt p;
    if (w.size() == 3 && w[0] == "G") p = gct::from_latlon(unhx(w[1]), unhx(w[2]));
    else if (w.size() == 5 && w[0] == "U") p = gct::from_utm(std::atoi(w[1].c_str()), w[2] == "1", unhx(w[3]), unhx(w[4]));
    else if (w.size() == 2 && w[0] == "M") p = gct::from_mgrs(w[1], o.centerp);
    pts.push_back(p); input += text + "\n";
  }
  std::string output, exc; int rc = gct::run(opts, input, output, exc);
  auto out = gct::lines(output);
  emit(std::to_string(rc) + " " + hs(output));
  if (rc == -98) { bad("tool-exception-escapes", "GeoConvert: exception " + exc + " escaped main"); return; }
  if (!o.ok) return;
  if (out.size() != pts.size()) { bad("tool-line-count", "GeoConvert: " + std::to_string(pts.size()) + " input lines, " + std::to_string(out.size()) + " output lines"); return; }
  int zone = o.zone; bool sethemi = o.sethemi, northp = o.northp, latch = o.latch; bool anyerr = false;
  for (size_t i = 0; i < pts.size(); ++i) {
    const gct::Pt& m = pts[i]; const std::string& l = out[i]; bool iserr = l.compare(0, 5, "ERROR") == 0; anyerr |= iserr;
    std::string ctx = " (line " + std::to_string(i + 1) + " '" + gct::lines(input)[i] + "' -> '" + l + "', options " + unhs(a[0]) + ")";
    if (!m.ok) { if (!iserr) bad("tool-values", "GeoConvert prints a result for a line the conversion classes reject" + ctx); continue; }
    gct::Pt al = gct::in_zone(m, zone);
    std::string cls = (m.lat == 0 && !m.northp && al.ok && al.zone != m.zone) ? " [class:equator-south-label]" : "";
    if (al.ok && (std::isnan(al.x) || std::isnan(al.y)) && std::isfinite(m.lat) && std::isfinite(m.lon)) {
      // the conversion classes return NaN coordinates for a finite position: never a result to print
      if (!iserr) bad("tool-values", "GeoConvert prints a NaN / INVALID result for a finite position" + ctx +
                      (std::fabs(m.lat) < 1e-50 && al.zone > 0 && Math::AngDiff(doc::central_meridian(al.zone), m.lon) == -90 ? " [class:singular-point-west]" : ""));
      continue;
    }
    bool label = sethemi ? northp : m.northp;
    bool relabel_fails = al.ok && al.zone == 0 && label != m.northp && o.mode == 'u';
    if (!al.ok || relabel_fails) { if (!iserr) bad("tool-values", "GeoConvert prints a result where the requested zone is out of reach" + ctx); }
    else if (iserr) { if (o.mode == 'u' || o.mode == 'c') bad("tool-values", "GeoConvert reports an error for a convertible line" + ctx + cls); }
    else if (o.mode == 'u') {
      double N = al.y; if (label != m.northp) N += label ? -doc::SHIFT : doc::SHIFT;
      std::string why = glue::check_rep(l, al.zone, label, al.x, N, o.prec, o.abbrev);
      if (!why.empty()) bad("tool-values", "GeoConvert -u: " + why + ctx + cls);
    } else if (o.mode == 'c') {
      auto w = gct::words(l); int p1 = std::max(-5, std::min(8, o.prec));
      if (w.size() != 2) bad("tool-values", "GeoConvert -c does not print two numbers" + ctx);
      else {
        double g = std::strtod(w[0].c_str(), nullptr), k = std::strtod(w[1].c_str(), nullptr);
        if (!(std::fabs(g - al.g) <= 0.5 * std::pow(10.0, -std::max(0, p1 + 5)) * (1 + 1e-9) + 1e-13) || !(std::fabs(k - al.k) <= 0.5 * std::pow(10.0, -std::max(0, p1 + 7)) * (1 + 1e-9) + 1e-15))
          bad("tool-values", "GeoConvert -c: convergence / scale are not those of UTMUPS::Forward in the requested zone" + ctx);
      }
    }
    // -S / -T: "use the standard (UTM) zone of the first point for all the following ones"
    if (al.ok && !iserr && latch && zone < 0 && al.zone >= 0) { zone = al.zone; northp = m.northp; sethemi = true; latch = false; }
  }
  if (anyerr != (rc != 0)) bad("tool-exit-status", "GeoConvert: exit status " + std::to_string(rc) + (anyerr ? " with" : " without") + " ERROR lines");
});

// ---- generators --------------------------------------------------------------------------------------------------------------------------
namespace glue {
static std::string fixed(double v, int nd) { char buf[64]; std::snprintf(buf, sizeof buf, "%.*f", nd, v); return buf; }
// one input record for gconv: a point on a 2^-10 degree grid (exact in 10 decimals) or on a 1/64 m grid, or an MGRS string
static std::string gconv_record(Rng& r, bool allow_mgrs) {
  int k = r.irange(0, allow_mgrs ? 9 : 7);
  if (k <= 3) {
    static const std::vector<double> lats = {0, 0.0009765625, -0.0009765625, 56, 64, 72, 84, -80, 83.9990234375, -80.0009765625, 90, -90, 63.9990234375, 71.9990234375};
    static const std::vector<double> lons = {0, 3, 6, 9, 21, 33, 42, 180, -180, 5.9990234375, 2.9990234375, 179.9990234375, 41.9990234375, 360, 186};
    double lat = r.coin() ? r.pick(lats) : std::floor(r.range(-90, 90) * 1024) / 1024, lon = r.irange(0, 2) == 0 ? r.pick(lons) : std::floor(r.range(-180, 180) * 1024) / 1024;
    if (r.irange(0, 3) == 0) lon = 6 * r.irange(-30, 30) + (r.coin() ? 0 : -0.0009765625);
    return "G " + hx(lat) + " " + hx(lon) + " ; " + fixed(lat, 10) + " " + fixed(lon, 10);
  }
  if (k <= 7) {
    int zone = r.irange(0, 6) == 0 ? 0 : r.irange(1, 60); bool np = r.coin(); bool utmp = zone > 0;
    double xlo = utmp ? 2e5 : (np ? 13e5 : 8e5), xhi = utmp ? 8e5 : (np ? 27e5 : 32e5), ylo = utmp ? (np ? 0 : 11e5) : xlo, yhi = utmp ? (np ? 93e5 : 1e7) : xhi;
    double x = std::floor(r.range(xlo, xhi) * 64) / 64, y = std::floor(r.range(ylo, yhi) * 64) / 64;
    int e = r.irange(0, 11);
    if (utmp && e == 0) y = np ? 0 : 1e7;                           // the equator under both labels
    if (utmp && e == 1) y = np ? -std::floor(r.range(0, 5e5) * 64) / 64 : 1e7 + std::floor(r.range(0, 5e5) * 64) / 64;   // continued across the equator
    if (utmp && e == 2) x = r.coin() ? 5e5 : 1e5 * r.irange(2, 8);
    if (utmp && e == 3) y = 1e5 * r.irange(np ? 0 : 11, np ? 93 : 99);
    return "U " + std::to_string(zone) + " " + b(np) + " " + hx(x) + " " + hx(y) + " ; " + doc::zonestr_of(zone, np, r.coin()) + " " + fixed(x, 6) + " " + fixed(y, 6);
  }
  // an MGRS string of a random legal point
  for (int t = 0; t < 20; ++t) {
    int zone = r.irange(0, 6) == 0 ? 0 : r.irange(1, 60); bool np = r.coin(); bool utmp = zone > 0;
    double xlo = utmp ? 2e5 : (np ? 13e5 : 8e5), xhi = utmp ? 8e5 : (np ? 27e5 : 32e5), ylo = utmp ? (np ? 0 : 11e5) : xlo, yhi = utmp ? (np ? 93e5 : 1e7) : xhi;
    std::string s; if (guarded([&] { MGRS::Forward(zone, np, r.range(xlo, xhi), r.range(ylo, yhi), r.irange(-1, 11), s); }).empty()) return "M " + s + " ; " + s;
  }
  return "M 38SMB ; 38SMB";
}
static std::string zone_request(Rng& r, const std::string& rec) {
  // a zone near the point's own, so that most conversions succeed
  auto w = gct::words(rec.substr(0, rec.find(" ; "))); gct::Pt p;
  if (w[0] == "G") p = gct::from_latlon(unhx(w[1]), unhx(w[2])); else if (w[0] == "U") p = gct::from_utm(std::atoi(w[1].c_str()), w[2] == "1", unhx(w[3]), unhx(w[4])); else p = gct::from_mgrs(w[1], true);
  int z = p.ok && p.zone > 0 ? std::max(1, std::min(60, p.zone + r.irange(-1, 1))) : r.irange(0, 60);
  if (r.irange(0, 9) == 0) z = 0;
  int k = r.irange(0, 3);
  return k == 0 ? std::to_string(z) : k == 1 ? doc::zonestr_of(z, true, r.coin()) : k == 2 ? doc::zonestr_of(z, false, r.coin()) : (z > 0 && z < 10 && r.coin() ? std::to_string(z) : doc::zonestr_of(z, p.ok ? p.northp : true, true));
}
} // namespace glue

static void gen_glue(Rng& r, long i, double lat, double lon) {
  using namespace glue;
  if (i == 0) run("utm_consts", {});
  // GeoCoords from geographic coordinates
  if (i % 2 == 0) {
    int z0 = -1; try { z0 = UTMUPS::StandardZone(lat, lon); } catch (...) {}
    int zin = r.irange(0, 2) == 0 ? -1 : (r.irange(0, 3) == 0 ? -2 : (z0 > 0 ? std::max(1, std::min(60, z0 + r.irange(-1, 1))) : r.irange(-4, 60)));
    int k = r.irange(0, 9);
    int altz = k == 0 ? -3 : k == 1 ? -1 : k == 2 ? -2 : k == 3 ? r.pick(std::vector<int>{-4, -5, 61, 0}) : (z0 > 0 ? std::max(1, std::min(60, z0 + r.irange(-1, 1))) : r.irange(0, 60));
    if (r.irange(0, 15) == 0) lat = r.pick(std::vector<double>{0.0, -0.0, 1e-300, -1e-300});
    int altz2 = r.irange(0, 2) == 0 ? zin : r.pick(std::vector<int>{-3, -1, -2, altz, z0 > 0 ? std::max(1, std::min(60, z0 + r.irange(-1, 1))) : 0});
    run("gc_alt", {"0", hx(lat), hx(lon), std::to_string(zin), hx(0), std::to_string(altz), std::to_string(r.irange(-6, 10)), b(r.coin()), std::to_string(altz2)});
    stratum("geocoords-latlon");
  } else {
    int zone = r.irange(0, 6) == 0 ? 0 : r.irange(1, 60); if (i % 89 == 0) zone = r.pick(std::vector<int>{-4, -1, 61}); bool np = r.coin(); bool utmp = zone > 0;
    double xlo = utmp ? 1e5 : (np ? 13e5 : 8e5), xhi = utmp ? 9e5 : (np ? 27e5 : 32e5), ylo = utmp ? (np ? 0 : 10e5) : xlo, yhi = utmp ? (np ? 95e5 : 1e7) : xhi;
    double x = r.range(xlo, xhi), y = r.range(ylo, yhi);
    int e = r.irange(0, 9);
    if (utmp && e == 0) y = np ? 0 : 1e7;                                            // the equator under both labels
    if (utmp && e == 1) y = np ? -r.range(0, 9e6) : 1e7 + r.range(0, 9.5e6);          // northing continued across the equator: FixHemisphere
    if (utmp && e == 2) y = np ? r.pick(std::vector<double>{-1e-9, -1e-3, 1e-9}) : r.pick(std::vector<double>{gv::nextdn(1e7), gv::nextup(1e7), 1e7 - 1e-3});
    if (!utmp && e == 3) { x = 2e6 + r.range(-1, 1) * 1e-3; y = 2e6 + r.range(-1, 1) * 1e-3; } // next to the pole
    if (e == 4 && i % 7 == 0) x = NAN;
    int z0 = -1; { double la, lo; try { UTMUPS::Reverse(zone, np, x, y, la, lo); z0 = UTMUPS::StandardZone(la, lo); } catch (...) {} }
    int k = r.irange(0, 9);
    int altz = k == 0 ? -3 : k == 1 ? -1 : k == 2 ? -2 : k == 3 ? r.pick(std::vector<int>{-4, -5, 61, 0}) : (utmp ? std::max(1, std::min(60, (k < 7 && z0 > 0 ? z0 : zone) + r.irange(-1, 1))) : r.irange(0, 60));
    int altz2 = r.irange(0, 2) == 0 ? zone : r.pick(std::vector<int>{-3, -1, -2, altz, z0 > 0 ? std::max(1, std::min(60, z0 + r.irange(-1, 1))) : 0});
    run("gc_alt", {"1", std::to_string(zone), b(np), hx(x), hx(y), std::to_string(altz), std::to_string(r.irange(-6, 10)), b(r.coin()), std::to_string(altz2)});
    stratum("geocoords-utmups");
  }
  // GeoConvert -u / -c
  if (i % 6 == 0) {
    int nl = r.irange(1, 4); std::string in, first;
    for (int j = 0; j < nl; ++j) { std::string rec = gconv_record(r, true); if (j == 0) first = rec; in += rec + "\n"; }
    std::string opt = r.irange(0, 5) == 0 ? "-c" : "-u";
    switch (r.irange(0, 7)) {
    case 0: break; case 1: opt += " -s"; break; case 2: opt += " -t"; break; case 3: opt += " -S"; break; case 4: opt += " -T"; break;
    default: opt += " -z " + zone_request(r, first); }
    if (r.coin()) opt += " -p " + std::to_string(r.irange(-6, 10));
    if (r.irange(0, 2) == 0) opt += r.coin() ? " -l" : " -l -a";
    if (r.irange(0, 5) == 0) opt += " -n";
    run("gconv", {hs(opt), hs(in)});
    stratum(std::string("geoconvert") + opt.substr(0, 2) + (opt.find("-z") != std::string::npos ? "-z" : opt.find("-s") != std::string::npos || opt.find("-S") != std::string::npos ? "-s" : opt.find("-t") != std::string::npos || opt.find("-T") != std::string::npos ? "-t" : ""));
  }
}
