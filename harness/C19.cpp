// C19: spherical harmonic sums (one-, two-, three-component), circles, magnetic and gravity models from synthetic
// files, normal gravity.  Oracles are in C19_oracle.hpp (long double, independent of the library).
#include "common.hpp"
#include "C19_oracle.hpp"
#include <GeographicLib/SphericalEngine.hpp>
#include <GeographicLib/CircularEngine.hpp>
#include <GeographicLib/SphericalHarmonic.hpp>
#include <GeographicLib/SphericalHarmonic1.hpp>
#include <GeographicLib/SphericalHarmonic2.hpp>
#include <GeographicLib/MagneticModel.hpp>
#include <GeographicLib/MagneticCircle.hpp>
#include <GeographicLib/GravityModel.hpp>
#include <GeographicLib/GravityCircle.hpp>
#include <GeographicLib/NormalGravity.hpp>
#include <GeographicLib/Geocentric.hpp>
#include <GeographicLib/DMS.hpp>
#include <GeographicLib/Utility.hpp>
#include <iostream>
#include <string>
#include <sstream>
#include <fstream>
#include <sys/stat.h>
#include <sys/wait.h>
#include <algorithm>

// tools/Gravity.cpp and tools/MagneticField.cpp of the *current* tree are compiled into this harness (same library build, same
// sanitizers); their `main` and `usage` live in namespaces.  All headers they include are included above.
namespace tool_gravity {
#include "../tools/Gravity.cpp"
}
namespace tool_magneticfield {
#include "../tools/MagneticField.cpp"
}

using namespace GeographicLib; using namespace gv; using namespace c19;

static std::string fmt(double x) { char b[40]; std::snprintf(b, sizeof b, "%.17g", x); return b; }
static std::string sci(LD x) { char b[40]; std::snprintf(b, sizeof b, "%.6Lg", x); return b; }
static int toi(const std::string& s) { return std::atoi(s.c_str()); }

// scratch directory for synthetic model files: <verif>/_cache/tmp/C19-<pid>  (derived from the executable's location)
static std::string tmpdir() {
  static std::string d;
  if (!d.empty()) return d;
  char buf[4096]; ssize_t n = readlink("/proc/self/exe", buf, sizeof buf - 1);
  std::string base = ".";
  if (n > 0) { buf[n] = 0; std::string e(buf); size_t k = e.rfind("/bin/"); base = k != std::string::npos ? e.substr(0, k) : e.substr(0, e.rfind('/')); }
  mkdir((base + "/tmp").c_str(), 0777);
  d = base + "/tmp/C19-" + std::to_string(getpid());
  mkdir(d.c_str(), 0777);
  return d;
}
static void put(const std::string& fn, const std::string& s) { std::ofstream f(fn.c_str(), std::ios::binary); f.write(s.data(), std::streamsize(s.size())); }
static void app32(std::string& s, int32_t v) { s.append(reinterpret_cast<const char*>(&v), 4); }
static void appd(std::string& s, double v) { s.append(reinterpret_cast<const char*>(&v), 8); }

// ------------------------------------------------------------------------------------------------------------------
// random coefficient sets
// ------------------------------------------------------------------------------------------------------------------
// cmode: 0 uniform +-1; 1 wide dynamic range 10^[-8, 8] both signs; 2 geophysical decay 1/n^2; 3 sparse; 4 a single non-zero coefficient
static void fill(Rng& r, CSet& s, int Ms, int cmode) {
  s.C.assign(size_t(std::max(0L, csz(s.N, Ms))), 0.0); s.S.assign(size_t(std::max(0L, ssz(s.N, Ms))), 0.0);
  if (s.N < 0) return;
  long pickk = s.C.empty() ? 0 : long(r.next() % (s.C.size() + s.S.size()));
  for (int m = 0; m <= Ms; ++m)
    for (int n = m; n <= s.N; ++n) {
      long k = cidx(s.N, n, m);
      for (int cs = 0; cs < 2; ++cs) {
        if (cs && !m) continue;
        double v;
        switch (cmode) {
        case 0: v = r.range(-1, 1); break;
        case 1: v = (r.coin() ? 1 : -1) * std::pow(10.0, r.range(-8, 8)); break;
        case 2: v = r.range(-1, 1) / ((n + 1.0) * (n + 1.0)); break;
        case 3: v = r.irange(0, 7) == 0 ? r.range(-1, 1) : 0.0; break;
        default: { long kk = cs ? long(s.C.size()) + k - (s.N + 1) : k; v = kk == pickk ? (r.coin() ? 1.0 : -1.5) : 0.0; }
        }
        if (cs) s.S[size_t(k - (s.N + 1))] = v; else s.C[size_t(k)] = v;
      }
    }
}

// ------------------------------------------------------------------------------------------------------------------
// op: coeff N nmx mmx Ms   -- the packed storage, its sizes and the accessors, exhaustively over (n, m)
// ------------------------------------------------------------------------------------------------------------------
static Reg r_coeff("coeff", [](const Args& a) {
  int N = toi(a[0]), nmx = toi(a[1]), mmx = toi(a[2]), Ms = toi(a[3]);
  long cs = N >= -1 && Ms >= -1 ? csz(N, Ms) : 0, ss = N >= -1 && Ms >= -1 ? ssz(N, Ms) : 0;
  std::vector<double> C(size_t(std::max(0L, cs))), S(size_t(std::max(0L, ss)));
  for (size_t k = 0; k < C.size(); ++k) C[k] = double(k + 1);
  for (size_t k = 0; k < S.size(); ++k) S[k] = -double(k + 1);
  std::string out;
  std::string ex = guarded([&] {
    SphericalEngine::coeff c(C, S, N, nmx, mmx);
    out = std::to_string(SphericalEngine::coeff::Csize(N, Ms)) + " " + std::to_string(SphericalEngine::coeff::Ssize(N, Ms));
    for (int n = 0; n <= N + 1; ++n)
      for (int m = 0; m <= std::min(n, Ms); ++m) {
        int k = c.index(n, m);
        bool stored = n <= N;
        double cu = stored ? c.Cv(k) : 0, su = stored && m ? c.Sv(k) : 0;
        double cc = c.Cv(k, n, m, 2.0), sc = m ? c.Sv(k, n, m, 2.0) : 0;
        out += " " + std::to_string(n) + " " + std::to_string(m) + " " + std::to_string(k) + " " + std::to_string(long(cu)) + " " + std::to_string(long(su)) + " " +
               std::to_string(long(cc)) + " " + std::to_string(long(sc));
        // property level: the stored coefficient of (n, m) is the k-th in column-major order; truncated reading selects n <= nmx, m <= mmx
        long kd = 0; for (int mm = 0; mm < m; ++mm) kd += N + 1 - mm; kd += n - m;      // count of entries before (n, m)
        if (stored && (k != kd || cu != double(kd + 1) || (m && su != -double(kd - (N + 1) + 1)))) bad("coeff-layout", "index/Cv/Sv do not address the column-major packed triangle");
        double wc = (n <= nmx && m <= mmx) ? 2.0 * double(kd + 1) : 0.0, ws = (n <= nmx && m <= mmx && m) ? -2.0 * double(kd - (N + 1) + 1) : 0.0;
        if (cc != wc || sc != ws) bad("coeff-truncation", "checked accessor at n=" + std::to_string(n) + " m=" + std::to_string(m) + " returns " + fmt(cc) + "," + fmt(sc) + " expected " + fmt(wc) + "," + fmt(ws));
      }
    long cnt = 0; for (int m = 0; m <= Ms; ++m) cnt += N + 1 - m;
    if (Ms <= N && SphericalEngine::coeff::Csize(N, Ms) != cnt) bad("coeff-size", "Csize is not the number of (n, m) pairs");
  });
  emit(ex.empty() ? out : ex);
});

// ------------------------------------------------------------------------------------------------------------------
// op: sh / shm  norm L cmode seed a x y z  N nmx mmx Ms [N1 nmx1 mmx1 Ms1 tau1 [N2 nmx2 mmx2 Ms2 tau2]]
// ------------------------------------------------------------------------------------------------------------------
struct ShCase { bool full; int L; std::vector<CSet> sets; std::vector<double> tau; double a; };

static ShCase mkcase(const Args& a) {
  ShCase c; c.full = toi(a[0]) == 0; c.L = toi(a[1]); int cmode = toi(a[2]); uint64_t seed = std::strtoull(a[3].c_str(), nullptr, 10); c.a = unhx(a[4]);
  Rng r(seed * 2654435761ULL + 12345);
  size_t i = 8;
  for (int l = 0; l < c.L; ++l) {
    CSet s; s.N = toi(a[i]); s.nmx = toi(a[i + 1]); s.mmx = toi(a[i + 2]); int Ms = toi(a[i + 3]); i += 4;
    double tau = 1; if (l) { tau = unhx(a[i]); ++i; }
    fill(r, s, Ms, l == 0 ? cmode : (cmode == 4 ? (l == 1 ? 4 : 3) : cmode));
    c.sets.push_back(s); c.tau.push_back(tau);
  }
  return c;
}

static void shop(const Args& a, bool withmodel) {
  ShCase c = mkcase(a);
  double x = unhx(a[5]), y = unhx(a[6]), z = unhx(a[7]);
  unsigned norm = c.full ? SphericalHarmonic::FULL : SphericalHarmonic::SCHMIDT;
  double v = 0, vg = 0, gx = 0, gy = 0, gz = 0, vc = NAN, vcg = NAN, cgx = 0, cgy = 0, cgz = 0;
  double p = std::hypot(x, y), lon = p > 0 ? Math::atan2d(y, x) : 0.0;
  std::string ex = guarded([&] {
    const CSet& s0 = c.sets[0];
    if (c.L == 1) {
      SphericalHarmonic h(s0.C, s0.S, s0.N, s0.nmx, s0.mmx, c.a, norm);
      v = h(x, y, z); vg = h(x, y, z, gx, gy, gz);
      vc = h.Circle(p, z, false)(lon); vcg = h.Circle(p, z, true)(lon, cgx, cgy, cgz);
    } else if (c.L == 2) {
      const CSet& s1 = c.sets[1];
      SphericalHarmonic1 h(s0.C, s0.S, s0.N, s0.nmx, s0.mmx, s1.C, s1.S, s1.N, s1.nmx, s1.mmx, c.a, norm);
      v = h(c.tau[1], x, y, z); vg = h(c.tau[1], x, y, z, gx, gy, gz);
      vc = h.Circle(c.tau[1], p, z, false)(lon); vcg = h.Circle(c.tau[1], p, z, true)(lon, cgx, cgy, cgz);
    } else {
      const CSet& s1 = c.sets[1]; const CSet& s2 = c.sets[2];
      SphericalHarmonic2 h(s0.C, s0.S, s0.N, s0.nmx, s0.mmx, s1.C, s1.S, s1.N, s1.nmx, s1.mmx, s2.C, s2.S, s2.N, s2.nmx, s2.mmx, c.a, norm);
      v = h(c.tau[1], c.tau[2], x, y, z); vg = h(c.tau[1], c.tau[2], x, y, z, gx, gy, gz);
      vc = h.Circle(c.tau[1], c.tau[2], p, z, false)(lon); vcg = h.Circle(c.tau[1], c.tau[2], p, z, true)(lon, cgx, cgy, cgz);
    }
  });
  if (!ex.empty()) { emit(ex); return; }
  // the defining double sum, evaluated directly
  int N = c.sets[0].nmx, M = c.sets[0].mmx;
  auto cC = [&](int n, int m) { LD s = 0; for (int l = 0; l < c.L; ++l) s += (LD)c.tau[size_t(l)] * c.sets[size_t(l)].c(n, m); return s; };
  auto cS = [&](int n, int m) { LD s = 0; for (int l = 0; l < c.L; ++l) s += (LD)c.tau[size_t(l)] * c.sets[size_t(l)].s(n, m); return s; };
  // magnitudes use |tau_l| |C_l| (a cancellation between the sets is not a cancellation the evaluator can exploit)
  auto aC = [&](int n, int m) { LD s = 0; for (int l = 0; l < c.L; ++l) s += fabsl((LD)c.tau[size_t(l)] * c.sets[size_t(l)].c(n, m)); return s; };
  auto aS = [&](int n, int m) { LD s = 0; for (int l = 0; l < c.L; ++l) s += fabsl((LD)c.tau[size_t(l)] * c.sets[size_t(l)].s(n, m)); return s; };
  HSum o = hsum(c.full, N, M, cC, cS, (LD)x, (LD)y, (LD)z, (LD)c.a);
  HSum om = hsum(c.full, N, M, aC, aS, (LD)x, (LD)y, (LD)z, (LD)c.a);
  double mag = double(om.mag), gmag = double(om.gmag);
  // the evaluator moves points closer than eps() = 2^-78 (relative) to the polar axis off it ("avoid the pole"): an absolute floor of a few
  // eps() times the size of the first / second derivatives anywhere on the sphere
  double rr0 = std::hypot(p, z), floorv = 1e-22 * (N + 2) * double(om.bound), floorg = 1e-22 * (N + 2) * (N + 2) * double(om.bound) / rr0;
  // the sums are accumulated multiplied by scale() = 2^-614: contributions below 2^-1074/scale() * q underflow (absolute floor 2^-450 max(q, 1))
  { double uf = std::ldexp(1.0, -450) * std::fmax(1.0, c.a / rr0); floorv += uf; floorg += uf * (N + 2) / rr0; }
  // r, cos(theta), sin(theta) are themselves rounded: a relative perturbation of a few ulp of the point changes the value by |grad V| r eps
  // (matters next to a zero of a single P_nm, where sum|terms| is itself tiny) and the gradient by its own derivative scale
  floorv += 8 * 1.2e-16 * rr0 * gmag; floorg += 8 * 1.2e-16 * (N + 2) * gmag;
  if (withmodel) {
    std::string o2 = current_op();
    for (int l = 0; l < c.L; ++l) { o2 += " " + std::to_string(c.sets[size_t(l)].C.size()) + " " + std::to_string(c.sets[size_t(l)].S.size()); for (double d : c.sets[size_t(l)].C) o2 += " " + hx(d); for (double d : c.sets[size_t(l)].S) o2 += " " + hx(d); }
    // what the circle evaluation is given: p = hypot(x, y) and (sin, cos) of the longitude in degrees, as CircularEngine::operator()(lon) forms them
    double slon, clon; Math::sincosd(lon, slon, clon);
    o2 += " " + hx(p) + " " + hx(slon) + " " + hx(clon);
    current_op() = o2;
  }
  emit(hx(v) + " " + hx(gx) + " " + hx(gy) + " " + hx(gz) + " " + hx(vc) + " " + hx(mag) + " " + hx(gmag) + " " + hx(double(om.bound)) + " " + hx(vcg) + " " + hx(cgx) + " " + hx(cgy) + " " + hx(cgz));
  if (!(std::isfinite(mag) && std::isfinite(gmag) && mag < 1e290 && gmag < 1e290)) { stat("sh-overflow-skipped"); return; }
  // documented accuracy class of the harmonic sums: 1e-12 relative to sum|terms| for degree <= 32, growing linearly with the length of the recurrences
  const double rel = 1e-12 * std::fmax(1.0, (N + 1) / 32.0);
  auto chk = [&](const char* relname, double got, LD want, double scale, double factor, const std::string& what) {
    double tol = factor * scale + (scale == gmag ? floorg : floorv) + 1e-300;
    if (!(std::fabs(double((LD)got - want)) <= tol)) bad(relname, what + ": impl " + fmt(got) + " defining sum " + fmt(double(want)) + " diff " + sci((LD)got - want) + " tolerance " + sci(tol) + " (sum|terms| " + sci(scale) + ")");
  };
  chk("sum-value", v, o.v, mag, rel, "value");
  if (vg != v) chk("sum-value", vg, o.v, mag, rel, "value returned with the gradient");
  chk("sum-gradient", gx, o.gx, gmag, rel, "gradx"); chk("sum-gradient", gy, o.gy, gmag, rel, "grady"); chk("sum-gradient", gz, o.gz, gmag, rel, "gradz");
  // the gradient is the spatial derivative of the value: central differences of the defining sum (long double)
  {
    LD r = hypotl(hypotl((LD)x, (LD)y), (LD)z), h = r * 1e-6L; LD fd[3];
    for (int k = 0; k < 3; ++k) {
      LD d[3] = {0, 0, 0}; d[k] = h;
      fd[k] = (hsum(c.full, N, M, cC, cS, x + d[0], y + d[1], z + d[2], (LD)c.a).v - hsum(c.full, N, M, cC, cS, x - d[0], y - d[1], z - d[2], (LD)c.a).v) / (2 * h);
    }
    double tolfd = gmag * (double(1e-12L * (N + 3) * (N + 3)) + 1e-9) + double(1e-18L * om.mag / h * 8) + floorg * 100 + 1e-12 * (N + 3.0) * (N + 3.0) * (N + 3.0) * double(om.bound) / rr0;
    double g[3] = {gx, gy, gz};
    for (int k = 0; k < 3; ++k)
      if (!(std::fabs(double((LD)g[k] - fd[k])) <= tolfd)) bad("gradient-is-derivative", std::string("component ") + "xyz"[k] + ": returned " + fmt(g[k]) + " central difference of the value " + fmt(double(fd[k])) + " tolerance " + sci(tolfd));
  }
  // circle of latitude = point evaluation (on the axis: longitude 0, as the point evaluation chooses)
  {
    // cos/sin(m lambda) come from a recurrence in cos(lambda), sin(lambda): two legitimate roundings of lambda differ by O(m^2 eps); never looser than the tolerance against the defining sum
    double ctol = std::fmin(rel, (32 + 2.0 * (M + 1) * (M + 1)) * 1.2e-16);
    chk("circle-vs-point", vc, (LD)v, mag, ctol, "Circle(gradp=false)(lon) vs operator()");
    chk("circle-vs-point", vcg, (LD)v, mag, ctol, "Circle(gradp=true)(lon) vs operator()");
    chk("circle-vs-point", cgx, (LD)gx, gmag, ctol, "circle gradx"); chk("circle-vs-point", cgy, (LD)gy, gmag, ctol, "circle grady"); chk("circle-vs-point", cgz, (LD)gz, gmag, ctol, "circle gradz");
    chk("circle-sum", vc, o.v, mag, rel, "circle value");
  }
}
static Reg r_sh("sh", [](const Args& a) { shop(a, false); });
static Reg r_shm("shm", [](const Args& a) { shop(a, true); });

// ------------------------------------------------------------------------------------------------------------------
// geodetic helpers (long double)
// ------------------------------------------------------------------------------------------------------------------
struct GeoPt { LD X, Y, Z, e[3], n[3], u[3]; };
static void sincosdl(LD deg, LD& s, LD& c) {
  LD q = fmodl(deg, 360); if (q < -180) q += 360; if (q > 180) q -= 360;
  if (q == 0) { s = 0; c = 1; } else if (fabsl(q) == 180) { s = 0; c = -1; } else if (q == 90) { s = 1; c = 0; } else if (q == -90) { s = -1; c = 0; } else { s = sinl(q * DEG); c = cosl(q * DEG); }
}
static GeoPt geopt(LD a, LD f, LD lat, LD lon, LD h) {
  GeoPt g; LD sp, cp, sl, cl; sincosdl(lat, sp, cp); sincosdl(lon, sl, cl);
  LD e2 = f * (2 - f), n = a / sqrtl(1 - e2 * sp * sp);
  g.X = (n + h) * cp * cl; g.Y = (n + h) * cp * sl; g.Z = ((1 - e2) * n + h) * sp;
  g.e[0] = -sl; g.e[1] = cl; g.e[2] = 0; g.n[0] = -cl * sp; g.n[1] = -sl * sp; g.n[2] = cp; g.u[0] = cl * cp; g.u[1] = sl * cp; g.u[2] = sp;
  return g;
}
static void toenu(const GeoPt& g, LD vx, LD vy, LD vz, LD out[3]) {
  out[0] = g.e[0] * vx + g.e[1] * vy + g.e[2] * vz; out[1] = g.n[0] * vx + g.n[1] * vy + g.n[2] * vz; out[2] = g.u[0] * vx + g.u[1] * vy + g.u[2] * vz;
}

// ------------------------------------------------------------------------------------------------------------------
// op: mag seed norm nmodels nconst N M dt0 t lat lon h Nmax Mmax     (synthetic .wmm + .wmm.cof)
// ------------------------------------------------------------------------------------------------------------------
static Reg r_mag("mag", [](const Args& a) {
  uint64_t seed = std::strtoull(a[0].c_str(), nullptr, 10); bool full = toi(a[1]) == 0; int nmod = toi(a[2]), ncon = toi(a[3]), N = toi(a[4]), M = toi(a[5]);
  double dt0 = unhx(a[6]), t = unhx(a[7]), lat = unhx(a[8]), lon = unhx(a[9]), h = unhx(a[10]); int Nmax = toi(a[11]), Mmax = toi(a[12]);
  Rng r(seed * 7919 + 17);
  double t0 = 2020, rad = 6371200;
  int nb = nmod + 1 + ncon;
  std::vector<CSet> blk(static_cast<size_t>(nb));
  std::string cof = "SYNTHMAG";
  for (int i = 0; i < nb; ++i) {
    CSet& s = blk[size_t(i)];
    // blocks may have different sizes
    s.N = std::max(0, N - (r.irange(0, 3) == 0 ? r.irange(0, 2) : 0)); int Mi = std::min(s.N, std::max(0, M - (r.irange(0, 3) == 0 ? r.irange(0, 2) : 0)));
    s.nmx = s.N; s.mmx = Mi;
    fill(r, s, Mi, i < nmod ? 2 : 0);
    double amp = i < nmod ? 30000.0 : (i == nmod ? 80.0 : 500.0);
    for (double& v : s.C) v *= amp; for (double& v : s.S) v *= amp;
    s.C[0] = 0;
    app32(cof, s.N); app32(cof, Mi); for (double v : s.C) appd(cof, v); for (double v : s.S) appd(cof, v);
  }
  std::string name = "m" + std::to_string(seed % 1000);
  std::string meta = "WMMF-2\n# synthetic\nName " + name + "\nDescription synthetic test model\nReleaseDate 2020-01-01\nRadius " + fmt(rad) + "\nType Linear\nEpoch " + fmt(t0) +
    "\nDeltaEpoch " + fmt(dt0) + "\nNumModels " + std::to_string(nmod) + "\nNumConstants " + std::to_string(ncon) + "\nMinTime 2020\nMaxTime 2030\nMinHeight -1000\nMaxHeight 850000\nNormalization " +
    (full ? "full" : "schmidt") + "\nByteOrder little\nID SYNTHMAG\n";
  std::string dir = tmpdir();
  put(dir + "/" + name + ".wmm", meta); put(dir + "/" + name + ".wmm.cof", cof);
  double Bx = 0, By = 0, Bz = 0, Bxt = 0, Byt = 0, Bzt = 0, B3x = 0, B3y = 0, B3z = 0;
  double BX = 0, BY = 0, BZ = 0, BXt = 0, BYt = 0, BZt = 0;
  double cBx = 0, cBy = 0, cBz = 0, cBxt = 0, cByt = 0, cBzt = 0, c3x = 0, c3y = 0, c3z = 0;
  double H = 0, F = 0, D = 0, I = 0, Ht = 0, Ft = 0, Dt = 0, It = 0;
  std::string kern; int deg = -2, ord = -2; bool circEpochBad = false;
  const Geocentric& earth = Geocentric::WGS84();
  std::string ex = guarded([&] {
    MagneticModel m(name, dir, earth, Nmax, Mmax);
    deg = m.Degree(); ord = m.Order();
    m(t, lat, lon, h, Bx, By, Bz, Bxt, Byt, Bzt); m(t, lat, lon, h, B3x, B3y, B3z);
    double X, Y, Z; earth.Forward(lat, lon, h, X, Y, Z);
    m.FieldGeocentric(t, X, Y, Z, BX, BY, BZ, BXt, BYt, BZt);
    MagneticCircle c = m.Circle(t, lat, h);
    c(lon, cBx, cBy, cBz, cBxt, cByt, cBzt); c(lon, c3x, c3y, c3z);
    MagneticModel::FieldComponents(Bx, By, Bz, Bxt, Byt, Bzt, H, F, D, I, Ht, Ft, Dt, It);
    // kernel values for the Lean model of the time interpolation: the gradients of every _harm[i] at the point
    kern = " " + hx(t0) + " " + hx(m._dt0) + " " + hx(rad) + " " + std::to_string((long long)std::fmax(-4e18, std::fmin(4e18, std::isfinite(t) ? std::floor((t - m._t0) / m._dt0) : 0.0))) + " " + std::to_string(nb);
    for (int i = 0; i < nb; ++i) { double g0, g1, g2; m._harm[size_t(i)](X, Y, Z, g0, g1, g2); kern += " " + hx(g0) + " " + hx(g1) + " " + hx(g2); }
    // the second copy of the epoch logic (MagneticModel::Circle): what it stored in the circle object, the circle's own per-epoch kernel values
    // at this longitude, and the circle's geocentric field
    {
      double slon, clon; Math::sincosd(lon, slon, clon); double k0[3], k1[3], k2[3] = {0, 0, 0}, cG[6];
      c._circ0(slon, clon, k0[0], k0[1], k0[2]); c._circ1(slon, clon, k1[0], k1[1], k1[2]); if (c._constterm) c._circ2(slon, clon, k2[0], k2[1], k2[2]);
      c.FieldGeocentric(lon, cG[0], cG[1], cG[2], cG[3], cG[4], cG[5]);
      kern += " " + hx(c._t1) + " " + std::to_string(int(c._interpolate)) + " " + std::to_string(int(c._constterm)) + " " + hx(c._dt0);
      for (int k = 0; k < 3; ++k) kern += " " + hx(k0[k]); for (int k = 0; k < 3; ++k) kern += " " + hx(k1[k]); for (int k = 0; k < 3; ++k) kern += " " + hx(k2[k]);
      for (int k = 0; k < 6; ++k) kern += " " + hx(cG[k]);
      // which epochs the circle holds: its kernels are those of _harm[n], _harm[n + 1] of the epoch the point evaluation selects
      if (std::isfinite(t)) {
        double kk = std::floor((t - m._t0) / m._dt0); int n = kk >= nmod - 1 ? nmod - 1 : (kk > 0 ? int(kk) : 0);
        double h0[3], h1[3]; m._harm[size_t(n)](X, Y, Z, h0[0], h0[1], h0[2]); m._harm[size_t(n + 1)](X, Y, Z, h1[0], h1[1], h1[2]);
        double s0 = 0, s1 = 0; for (int k = 0; k < 3; ++k) { s0 += std::fabs(h0[k]); s1 += std::fabs(h1[k]); }
        for (int k = 0; k < 3; ++k) if (!(std::fabs(k0[k] - h0[k]) <= 1e-9 * s0 + 1e-300 && std::fabs(k1[k] - h1[k]) <= 1e-9 * s1 + 1e-300)) { circEpochBad = true; }
        if (c._interpolate != (n + 1 < nmod) || c._constterm != (ncon != 0)) circEpochBad = true;
      }
    }
  });
  std::remove((dir + "/" + name + ".wmm").c_str()); std::remove((dir + "/" + name + ".wmm.cof").c_str());
  if (!ex.empty()) { emit(ex); bad("mag-load", "a well-formed synthetic model was rejected: " + ex); return; }
  current_op() += kern;
  emit(hx(BX) + " " + hx(BY) + " " + hx(BZ) + " " + hx(BXt) + " " + hx(BYt) + " " + hx(BZt));
  if (!std::isfinite(t)) return;      // evaluated for robustness only (see magx)
  if (circEpochBad) bad("magcircle-epoch", "MagneticModel::Circle holds other epochs / flags than the point evaluation selects at t = " + fmt(t) + " (Epoch " + fmt(t0) + ", DeltaEpoch " + fmt(dt0) + ", " + std::to_string(nmod) + " models)");
  // ---- the field implied by the file's coefficients
  bool trunc = Nmax >= 0 || Mmax >= 0; int NmaxE = Nmax, MmaxE = Mmax;
  if (trunc) { if (Nmax >= 0 && Mmax < 0) MmaxE = Nmax; if (Nmax < 0) NmaxE = 1 << 30; if (MmaxE < 0) MmaxE = 1 << 30; } else { NmaxE = MmaxE = 1 << 30; }
  int Nall = 0, Mall = 0; for (auto& s : blk) { Nall = std::max(Nall, std::min(s.N, NmaxE)); Mall = std::max(Mall, std::min(s.mmx, MmaxE)); }
  if (deg != Nall || ord != Mall) bad("mag-degree", "Degree()/Order() " + std::to_string(deg) + "," + std::to_string(ord) + " expected " + std::to_string(Nall) + "," + std::to_string(Mall));
  LD tt = (LD)t - t0; int n = int(std::max(std::min(floorl(tt / (LD)dt0), (LD)(nmod - 1)), (LD)0)); bool interp = n + 1 < nmod; LD t1 = tt - n * (LD)dt0;
  auto coefc = [&](int i, int nn, int mm) -> LD { const CSet& s = blk[size_t(i)]; return (nn <= NmaxE && mm <= MmaxE) ? s.c(nn, mm) : 0; };
  auto coefs = [&](int i, int nn, int mm) -> LD { const CSet& s = blk[size_t(i)]; return (nn <= NmaxE && mm <= MmaxE) ? s.s(nn, mm) : 0; };
  auto rate = [&](bool sine, int nn, int mm) -> LD {
    LD c1 = sine ? coefs(n + 1, nn, mm) : coefc(n + 1, nn, mm), c0 = sine ? coefs(n, nn, mm) : coefc(n, nn, mm);
    return interp ? (c1 - c0) / (LD)dt0 : c1; };
  auto val = [&](bool sine, int nn, int mm) -> LD {
    LD c0 = sine ? coefs(n, nn, mm) : coefc(n, nn, mm), cc = ncon ? (sine ? coefs(nmod + 1, nn, mm) : coefc(nmod + 1, nn, mm)) : 0;
    return c0 + t1 * rate(sine, nn, mm) + cc; };
  auto cf = [&](bool sine, int i, int nn, int mm) -> LD { return sine ? coefs(i, nn, mm) : coefc(i, nn, mm); };
  LD w1 = fabsl(t1 / (LD)dt0);
  auto aval = [&](bool sine, int nn, int mm) -> LD {
    return fabsl(cf(sine, n, nn, mm)) * (1 + (interp ? w1 : 0)) + fabsl(cf(sine, n + 1, nn, mm)) * (interp ? w1 : fabsl(t1)) + (ncon ? fabsl(cf(sine, nmod + 1, nn, mm)) : 0); };
  auto arate = [&](bool sine, int nn, int mm) -> LD { return interp ? (fabsl(cf(sine, n, nn, mm)) + fabsl(cf(sine, n + 1, nn, mm))) / (LD)dt0 : fabsl(cf(sine, n + 1, nn, mm)); };
  GeoPt g = geopt(earth.EquatorialRadius(), earth.Flattening(), lat, lon, h);
  HSum hv = hsum(full, Nall, Mall, [&](int nn, int mm) { return val(false, nn, mm); }, [&](int nn, int mm) { return val(true, nn, mm); }, g.X, g.Y, g.Z, (LD)rad);
  HSum hr = hsum(full, Nall, Mall, [&](int nn, int mm) { return rate(false, nn, mm); }, [&](int nn, int mm) { return rate(true, nn, mm); }, g.X, g.Y, g.Z, (LD)rad);
  HSum ha = hsum(full, Nall, Mall, [&](int nn, int mm) { return aval(false, nn, mm); }, [&](int nn, int mm) { return aval(true, nn, mm); }, g.X, g.Y, g.Z, (LD)rad);
  LD wantB[3], wantBt[3]; toenu(g, -rad * hv.gx, -rad * hv.gy, -rad * hv.gz, wantB); toenu(g, -rad * hr.gx, -rad * hr.gy, -rad * hr.gz, wantBt);
  HSum har = hsum(full, Nall, Mall, [&](int nn, int mm) { return arate(false, nn, mm); }, [&](int nn, int mm) { return arate(true, nn, mm); }, g.X, g.Y, g.Z, (LD)rad);
  double tol = 1e-12 * double(rad * ha.gmag) + 1e-300, tolr = 1e-12 * double(rad * har.gmag) + 1e-300;
  double gotB[3] = {Bx, By, Bz}, gotBt[3] = {Bxt, Byt, Bzt}, gotc[3] = {cBx, cBy, cBz}, gotct[3] = {cBxt, cByt, cBzt};
  for (int k = 0; k < 3; ++k) {
    if (!(std::fabs(double(gotB[k] - wantB[k])) <= tol)) bad("mag-field", std::string("B") + "xyz"[k] + " " + fmt(gotB[k]) + " vs field of the interpolated coefficients " + fmt(double(wantB[k])) + " tol " + sci(tol));
    if (!(std::fabs(double(gotBt[k] - wantBt[k])) <= tolr)) bad("mag-rate", std::string("dB/dt ") + "xyz"[k] + " " + fmt(gotBt[k]) + " vs " + fmt(double(wantBt[k])) + " tol " + sci(tolr));
    if (!(std::fabs(gotc[k] - gotB[k]) <= tol && std::fabs(gotct[k] - gotBt[k]) <= tolr)) bad("magcircle-vs-model", std::string("component ") + "xyz"[k] + ": circle " + fmt(gotc[k]) + "," + fmt(gotct[k]) + " model " + fmt(gotB[k]) + "," + fmt(gotBt[k]));
  }
  if (B3x != Bx || B3y != By || B3z != Bz || c3x != cBx || c3y != cBy || c3z != cBz) bad("mag-overloads", "the 3-output overload differs from the 6-output overload");
  {  // geocentric components are the rotation of the local ones
    LD back[3]; toenu(g, BX, BY, BZ, back);
    for (int k = 0; k < 3; ++k) if (!(std::fabs(double(back[k] - gotB[k])) <= tol)) bad("mag-rotation", "FieldGeocentric rotated to east-north-up differs from operator()");
  }
  {  // H, F, D, I and their rates: definitions, rates by differencing along the linear motion (long double)
    LD bx = Bx, by = By, bz = Bz, hh = hypotl(bx, by), ff = hypotl(hh, bz), dd = atan2l(bx, by) / DEG, ii = atan2l(-bz, hh) / DEG;
    double s = double(ff) + 1e-300;
    if (!(std::fabs(double(H - hh)) <= 4e-16 * s && std::fabs(double(F - ff)) <= 4e-16 * s)) bad("mag-components", "H or F");
    if (hh > 1e-6 * ff && !(std::fabs(double(D - dd)) <= 1e-13 * (1 + double(ff / hh)) && std::fabs(double(I - ii)) <= 1e-13)) bad("mag-components", "D or I: " + fmt(D) + "," + fmt(I) + " vs " + fmt(double(dd)) + "," + fmt(double(ii)));
    LD bt = sqrtl((LD)Bxt * Bxt + (LD)Byt * Byt + (LD)Bzt * Bzt);
    if (hh > 1e-3 * ff && bt > 0 && ff > 0) {
      LD e = 1e-7L * ff / bt;
      auto comp = [&](LD sgn, LD& oh, LD& of, LD& od, LD& oi) { LD x1 = bx + sgn * e * Bxt, y1 = by + sgn * e * Byt, z1 = bz + sgn * e * Bzt; oh = hypotl(x1, y1); of = hypotl(oh, z1); od = atan2l(x1, y1) / DEG; oi = atan2l(-z1, oh) / DEG; };
      LD h1, f1, d1, i1, h2, f2, d2, i2; comp(1, h1, f1, d1, i1); comp(-1, h2, f2, d2, i2);
      LD dwrap = d1 - d2; if (dwrap > 180) dwrap -= 360; if (dwrap < -180) dwrap += 360;
      LD wHt = (h1 - h2) / (2 * e), wFt = (f1 - f2) / (2 * e), wDt = dwrap / (2 * e), wIt = (i1 - i2) / (2 * e);
      double ts = double(bt) * 1e-9 * double(ff / hh) * double(ff / hh), ta = ts / double(hh) / double(DEG) * double(ff / hh);
      if (!(std::fabs(double(Ht - wHt)) <= ts && std::fabs(double(Ft - wFt)) <= ts && std::fabs(double(Dt - wDt)) <= ta && std::fabs(double(It - wIt)) <= ta))
        bad("mag-component-rates", "Ht,Ft,Dt,It = " + fmt(Ht) + "," + fmt(Ft) + "," + fmt(Dt) + "," + fmt(It) + " vs differences " + fmt(double(wHt)) + "," + fmt(double(wFt)) + "," + fmt(double(wDt)) + "," + fmt(double(wIt)));
    }
  }
});

// op: magx <same arguments as mag>: extreme times (huge, infinite, NaN) evaluated in a forked child, so that a sanitizer abort
// (conversion of an out-of-range floating value to int) is reported as a failing input of this op and does not end the run
static Reg r_magx("magx", [](const Args& a) {
  std::string of = tmpdir() + "/magx.out";
  std::fflush(stdout);
  pid_t pid = fork();
  if (pid == 0) {
    if (!std::freopen(of.c_str(), "w", stdout)) _exit(9);
    if (!std::freopen((of + ".err").c_str(), "w", stderr)) _exit(9);
    registry()["mag"](a); std::fflush(stdout); _exit(0);
  }
  int st = 0; waitpid(pid, &st, 0);
  bool died = !(WIFEXITED(st) && WEXITSTATUS(st) == 0);
  std::ifstream in(of.c_str()); std::string line; int nb = 0;
  while (std::getline(in, line)) if (line.rfind("#BAD ", 0) == 0) { ++nb; if (nb <= 3) { size_t k = line.rfind(" :: "); bad("magx-field", k == std::string::npos ? line : line.substr(k + 4)); } }
  in.close(); std::remove(of.c_str());
  std::string errtxt; { std::ifstream ie((of + ".err").c_str()); std::string l; while (std::getline(ie, l)) errtxt += l + " "; } std::remove((of + ".err").c_str());
  emit(died ? "died" : "ok");
  bool castsig = errtxt.find("MagneticModel.cpp") != std::string::npos && errtxt.find("outside the range of representable values of type 'int'") != std::string::npos;
  if (died && !castsig) bad("magx-crash", "evaluating the magnetic model at time " + fmt(unhx(a[7])) + " ended abnormally: " + errtxt.substr(0, 600));
  else if (died) bad("mag-time-int-cast", "evaluating the magnetic model at time " + fmt(unhx(a[7])) + " ended abnormally (int(floor(t / dt0)) in MagneticModel::FieldGeocentric / Circle is undefined for |t - t0| / dt0 >= 2^31, infinite or NaN t)");
});

// ------------------------------------------------------------------------------------------------------------------
// op: grav seed norm N M dgm(hex: ModelMass/ReferenceMass - 1) fl(hex flattening) zeta0(hex) corrmult(hex) NC MC lat lon h Nmax Mmax
// ------------------------------------------------------------------------------------------------------------------
static Reg r_grav("grav", [](const Args& a) {
  uint64_t seed = std::strtoull(a[0].c_str(), nullptr, 10); bool full = toi(a[1]) == 0; int N = toi(a[2]), M = toi(a[3]);
  double dgm = unhx(a[4]), fl = unhx(a[5]), zeta0 = unhx(a[6]), corrmult = unhx(a[7]); int NC = toi(a[8]), MC = toi(a[9]);
  double lat = unhx(a[10]), lon = unhx(a[11]), h = unhx(a[12]); int Nmax = toi(a[13]), Mmax = toi(a[14]);
  Rng r(seed * 104729 + 5);
  double aref = 6378137, GMref = 3.986004418e14, omega = 7292115e-11, amodel = 6378136.3, GMmodel = GMref * (1 + dgm);
  CSet s; s.N = N; s.nmx = N; s.mmx = M; fill(r, s, M, 2);
  for (double& v : s.C) v *= 2e-5; for (double& v : s.S) v *= 2e-5;
  s.C[0] = 0; if (N >= 1) s.C[1] = 0; if (N >= 1 && M >= 1) { s.C[size_t(cidx(N, 1, 1))] = 0; s.S[size_t(cidx(N, 1, 1) - (N + 1))] = 0; }
  NormalOracle no(aref, GMref, omega, fl);
  if (N >= 2) s.C[2] += double(-no.J2any() / sqrtl(5.0L) * (full ? 1 : sqrtl(5.0L)));     // near the normal field
  CSet cr; cr.N = NC; cr.nmx = NC; cr.mmx = MC; fill(r, cr, MC, 2); for (double& v : cr.C) v *= 0.5; for (double& v : cr.S) v *= 0.5;
  std::string cof = "SYNTHGRV"; app32(cof, N); app32(cof, M); for (double v : s.C) appd(cof, v); for (double v : s.S) appd(cof, v);
  app32(cof, NC); app32(cof, MC); for (double v : cr.C) appd(cof, v); for (double v : cr.S) appd(cof, v);
  std::string name = "g" + std::to_string(seed % 1000);
  std::string meta = "EGMF-1\nName " + name + "\nDescription synthetic\nReleaseDate 2026-01-01\nModelRadius " + fmt(amodel) + "\nModelMass " + fmt(GMmodel) + "\nAngularVelocity " + fmt(omega) +
    "\nReferenceRadius " + fmt(aref) + "\nReferenceMass " + fmt(GMref) + "\nFlattening " + fmt(fl) + "\nHeightOffset " + fmt(zeta0) + "\nCorrectionMultiplier " + fmt(corrmult) + "\nNormalization " +
    (full ? "full" : "schmidt") + "\nByteOrder little\nID SYNTHGRV\n";
  std::string dir = tmpdir(); put(dir + "/" + name + ".egm", meta); put(dir + "/" + name + ".egm.cof", cof);
  struct GRes { double W, g[3], T, d[3], Tp, TX, dX[3], Wc, gc[3], Vc, Gc[3], geoid, Dg01, xi, eta; } mo = {}, ci = {};
  double X = 0, Y = 0, Z = 0; int nmxE = 0;
  std::string ex = guarded([&] {
    GravityModel gm(name, dir, Nmax, Mmax);
    nmxE = gm._gravitational.Coefficients().nmx();
    gm.ReferenceEllipsoid().Earth().Forward(lat, lon, h, X, Y, Z);
    mo.W = gm.Gravity(lat, lon, h, mo.g[0], mo.g[1], mo.g[2]);
    mo.T = gm.Disturbance(lat, lon, h, mo.d[0], mo.d[1], mo.d[2]);
    mo.Tp = gm.T(X, Y, Z); mo.TX = gm.T(X, Y, Z, mo.dX[0], mo.dX[1], mo.dX[2]);
    mo.Wc = gm.W(X, Y, Z, mo.gc[0], mo.gc[1], mo.gc[2]); mo.Vc = gm.V(X, Y, Z, mo.Gc[0], mo.Gc[1], mo.Gc[2]);
    mo.geoid = h == 0 ? gm.GeoidHeight(lat, lon) : 0; gm.SphericalAnomaly(lat, lon, h, mo.Dg01, mo.xi, mo.eta);
    GravityCircle c = gm.Circle(lat, h);
    ci.W = c.Gravity(lon, ci.g[0], ci.g[1], ci.g[2]);
    ci.T = c.Disturbance(lon, ci.d[0], ci.d[1], ci.d[2]);
    ci.Tp = c.T(lon); ci.TX = c.T(lon, ci.dX[0], ci.dX[1], ci.dX[2]);
    ci.Wc = c.W(lon, ci.gc[0], ci.gc[1], ci.gc[2]); ci.Vc = c.V(lon, ci.Gc[0], ci.Gc[1], ci.Gc[2]);
    ci.geoid = h == 0 ? c.GeoidHeight(lon) : 0; c.SphericalAnomaly(lon, ci.Dg01, ci.xi, ci.eta);
  });
  std::remove((dir + "/" + name + ".egm").c_str()); std::remove((dir + "/" + name + ".egm.cof").c_str());
  if (!ex.empty()) { emit(ex); bad("grav-load", "a well-formed synthetic model was rejected: " + ex); return; }
  emit(hx(mo.W) + " " + hx(mo.T) + " " + hx(ci.T) + " " + hx(mo.geoid));
  // ---- the field implied by the file's coefficients
  bool trunc = Nmax >= 0 || Mmax >= 0; int NmaxE = 1 << 30, MmaxE = 1 << 30;
  if (trunc) { NmaxE = Nmax; MmaxE = Mmax; if (Nmax >= 0 && Mmax < 0) MmaxE = Nmax; if (Nmax < 0) NmaxE = 1 << 30; if (MmaxE < 0) MmaxE = 1 << 30; }
  int Ne = std::min(N, NmaxE), Me = std::min(M, MmaxE);
  if (nmxE != Ne) bad("grav-degree", "degree of the loaded model " + std::to_string(nmxE) + " expected " + std::to_string(Ne));
  GeoPt g = geopt(aref, fl, lat, lon, h);
  auto cC = [&](int n, int m) -> LD { return (n == 0 && m == 0) ? 1 : ((n <= Ne && m <= Me) ? s.c(n, m) : 0); };
  auto cS = [&](int n, int m) -> LD { return (n <= Ne && m <= Me) ? s.s(n, m) : 0; };
  // normal field as zonal harmonics up to the model degree (the library subtracts exactly these)
  // class of finding F-C19b: for a Schmidt-normalised model file the library divides the normal zonal terms by sqrt(2n+1) as if the
  // coefficients were fully normalised.  The convention is decided once, from T(X,Y,Z): the true one unless the value returned matches
  // the fully-normalised divisor only; that case is reported under its own relation and the remaining comparisons use the library's convention
  bool useLib = false;
  auto zon = [&](int n) -> LD { if (n == 0) return 1; if (n % 2 || n > Ne) return 0; LD j = no.Jn(n); LD fac = ((LD)GMref / GMmodel) * powl((LD)aref / amodel, n);
    return -fac * j / ((full || useLib) ? sqrtl(2.0L * n + 1) : 1); };
  if (!full && Ne >= 2) {
    LD R0 = sqrtl(g.X * g.X + g.Y * g.Y + g.Z * g.Z), dz = ((LD)GMref - GMmodel) / GMmodel, f0 = (LD)GMmodel / amodel; LD Tt[2]; double sTt[2];
    for (int w = 0; w < 2; ++w) { useLib = w == 1;
      Tt[w] = f0 * hsum(full, Ne, Me, [&](int n, int m) -> LD { return cC(n, m) - (m == 0 ? zon(n) : 0); }, cS, g.X, g.Y, g.Z, (LD)amodel).v - GMmodel * dz / R0;
      sTt[w] = double(f0 * hsum(full, Ne, Me, [&](int n, int m) -> LD { return n == 0 ? 0 : fabsl(cC(n, m)) + (m == 0 ? fabsl(zon(n)) : 0); }, [&](int n, int m) -> LD { return fabsl(cS(n, m)); }, g.X, g.Y, g.Z, (LD)amodel).mag + fabsl(GMmodel * dz / R0)); }
    bool okTrue = std::fabs(double((LD)mo.Tp - Tt[0])) <= 1e-12 * sTt[0], okLib = std::fabs(double((LD)mo.Tp - Tt[1])) <= 1e-12 * sTt[1];
    useLib = !okTrue && okLib;
    if (useLib) bad("grav-schmidt-normal-zonals", "Schmidt-normalised model: T(X,Y,Z) = " + fmt(mo.Tp) + " but the sum with the Schmidt zonal coefficients J_n of the normal field is " + fmt(double(Tt[0])) +
                    "; the value equals the sum with J_n/sqrt(2n+1) (" + fmt(double(Tt[1])) + "), the fully normalised coefficients");
  }
  auto dC = [&](int n, int m) -> LD { return cC(n, m) - (m == 0 ? zon(n) : 0); };
  auto aC = [&](int n, int m) -> LD { return fabsl(cC(n, m)) + (m == 0 ? fabsl(zon(n)) : 0); };
  auto aS = [&](int n, int m) -> LD { return fabsl(cS(n, m)); };
  auto aD = [&](int n, int m) -> LD { return (n == 0) ? 0 : aC(n, m); };
  LD fV = (LD)GMmodel / amodel;
  HSum hV = hsum(full, Ne, Me, cC, cS, g.X, g.Y, g.Z, (LD)amodel), hD = hsum(full, Ne, Me, dC, cS, g.X, g.Y, g.Z, (LD)amodel);
  HSum hA = hsum(full, Ne, Me, aC, aS, g.X, g.Y, g.Z, (LD)amodel), hAD = hsum(full, Ne, Me, aD, aS, g.X, g.Y, g.Z, (LD)amodel);
  LD R = sqrtl(g.X * g.X + g.Y * g.Y + g.Z * g.Z), p2 = g.X * g.X + g.Y * g.Y;
  LD dz0 = ((LD)GMref - GMmodel) / GMmodel;
  LD Vw = fV * hV.v, Ww = Vw + (LD)omega * omega * p2 / 2;
  LD gW[3] = {fV * hV.gx + (LD)omega * omega * g.X, fV * hV.gy + (LD)omega * omega * g.Y, fV * hV.gz};
  LD T0 = fV * hD.v, Tw = T0 - GMmodel * dz0 / R;      // without / with the degree-0 (GM mismatch) term
  LD c3 = GMmodel * dz0 / (R * R * R);
  LD dT0[3] = {fV * hD.gx, fV * hD.gy, fV * hD.gz}, dT[3] = {dT0[0] + c3 * g.X, dT0[1] + c3 * g.Y, dT0[2] + c3 * g.Z};
  double sW = double(fV * hA.mag + (LD)omega * omega * p2), sg = double(fV * hA.gmag + (LD)omega * omega * sqrtl(p2));
  double sT = double(fV * hAD.mag + fabsl(GMmodel * dz0 / R)), sd = double(fV * hAD.gmag + fabsl(c3) * R);
  const double rel = 1e-12;
  LD gWe[3], dTe[3]; toenu(g, gW[0], gW[1], gW[2], gWe); toenu(g, dT[0], dT[1], dT[2], dTe);
  auto near = [&](double got, LD want, double tol) { return std::fabs(double((LD)got - want)) <= tol + 1e-300; };
  auto rep = [&](const char* relname, const std::string& what, double got, LD want, double tol) { if (!near(got, want, tol)) bad(relname, what + ": " + fmt(got) + " vs " + fmt(double(want)) + " diff " + sci((LD)got - want) + " tol " + sci(tol)); };
  for (int pass = 0; pass < 2; ++pass) {
    const GRes& q = pass ? ci : mo; std::string w = pass ? "GravityCircle" : "GravityModel";
    const char* rW = pass ? "gravcircle-W" : "grav-W"; const char* rT = pass ? "gravcircle-T" : "grav-T"; const char* rd = pass ? "gravcircle-delta" : "grav-delta";
    rep(rW, w + "::Gravity W", q.W, Ww, rel * sW); rep(rW, w + "::W", q.Wc, Ww, rel * sW); rep(rW, w + "::V", q.Vc, Vw, rel * sW);
    for (int k = 0; k < 3; ++k) {
      rep(rW, w + "::Gravity g[" + std::to_string(k) + "]", q.g[k], gWe[k], rel * sg); rep(rW, w + "::W grad[" + std::to_string(k) + "]", q.gc[k], gW[k], rel * sg);
      LD GV[3] = {fV * hV.gx, fV * hV.gy, fV * hV.gz}; rep(rW, w + "::V grad[" + std::to_string(k) + "]", q.Gc[k], GV[k], rel * sg);
      rep(rd, w + "::Disturbance delta[" + std::to_string(k) + "]", q.d[k], dTe[k], rel * sd); rep(rd, w + "::T(.., delta)[" + std::to_string(k) + "]", q.dX[k], dT[k], rel * sd);
    }
    rep(rT, w + "::T (potential only)", q.Tp, Tw, rel * sT);
    // the potential returned together with the gradient
    for (int which = 0; which < 2; ++which) {
      double got = which ? q.TX : q.T; std::string nm = w + (which ? "::T(.., delta) potential" : "::Disturbance potential");
      if (near(got, Tw, rel * sT)) continue;
      // class of finding F18: the direct gradient form drops exactly the degree-0 term GMmodel*dzonal0/R of T
      LD miss = -GMmodel * dz0 / R, overwritten = -(LD)GMmodel * dz0 * c3;
      if (!pass && dz0 != 0 && near(got, T0 + overwritten, rel * sT + 1e-9 * double(fabsl(miss))))
        bad("grav-T-gradform-degree0", nm + " " + fmt(got) + " lacks the degree-0 term " + fmt(double(miss)) + " of T = W - U = " + fmt(double(Tw)) + " (GravityModel::InternalT overwrites invR before using it)");
      else bad(rT, nm + ": " + fmt(got) + " vs " + fmt(double(Tw)) + " diff " + sci((LD)got - Tw) + " tol " + sci(rel * sT));
    }
  }
  // T = W - U and delta = g - gamma with the closed-form normal field (zonal terms beyond the model degree are the only difference)
  {
    LD Uo = no.U(g.X, g.Y, g.Z); int k2 = (Ne / 2) * 2 + 2;
    double tolU = rel * sW * 4 + double(4 * GMref / R * powl(fabsl(no.e2), k2 / 2) * powl(aref / R, k2));
    if (!useLib) {
      rep("grav-T-is-W-minus-U", "GravityModel::T(X,Y,Z) vs W - U(normal field, closed form)", mo.Tp, Ww - Uo, tolU);
      rep("grav-T-is-W-minus-U", "GravityCircle::T(lon) vs W - U(normal field, closed form)", ci.Tp, Ww - Uo, tolU);
    }
  }
  // circle = model at each longitude, member by member
  {
    auto cm = [&](const std::string& what, double cv, double mv, double tol) { if (!(std::fabs(cv - mv) <= tol + 1e-300)) bad("gravcircle-vs-model", what + ": circle " + fmt(cv) + " model " + fmt(mv) + " tol " + sci(tol)); };
    double t = 64 * 1.2e-16 * (Me + 2);
    cm("Gravity W", ci.W, mo.W, t * sW); cm("W", ci.Wc, mo.Wc, t * sW); cm("V", ci.Vc, mo.Vc, t * sW); cm("T(lon)", ci.Tp, mo.Tp, t * sT);
    for (int k = 0; k < 3; ++k) { cm("g", ci.g[k], mo.g[k], t * sg); cm("grad W", ci.gc[k], mo.gc[k], t * sg); cm("grad V", ci.Gc[k], mo.Gc[k], t * sg); cm("delta", ci.d[k], mo.d[k], t * sd); cm("T delta", ci.dX[k], mo.dX[k], t * sd); }
    // circle-internal consistency: the potential returned with the gradient is the potential
    cm("circle Disturbance potential vs circle T(lon)", ci.T, ci.Tp, t * sT); cm("circle T(lon, delta) potential vs circle T(lon)", ci.TX, ci.Tp, t * sT);
    if (h == 0) cm("GeoidHeight", ci.geoid, mo.geoid, t * (sT / 9.7 + std::fabs(zeta0) + 10));
    double gam = 9.7; cm("SphericalAnomaly Dg01", ci.Dg01, mo.Dg01, t * (sd + 2 * sT / double(R)));
    cm("xi", ci.xi, mo.xi, t * sd / gam / double(DEG)); cm("eta", ci.eta, mo.eta, t * sd / gam / double(DEG));
  }
  // geoid height and spherical anomaly from their definitions
  {
    LD sphi, cphi; sincosdl(lat, sphi, cphi);
    if (h == 0) {
      LD gamma0 = no.surfaceGravity(sphi);
      int NCe = std::min(NC, NmaxE), MCe = std::min(MC, MmaxE);
      LD corr = 0; double scor = 0;
      if (NCe >= 0) { HSum hc = hsum(full, NCe, MCe, [&](int n, int m) { return (n <= NCe && m <= MCe) ? cr.c(n, m) : 0; }, [&](int n, int m) { return (n <= NCe && m <= MCe) ? cr.s(n, m) : 0; }, g.X / R, g.Y / R, g.Z / R, (LD)1);
        HSum hca = hsum(full, NCe, MCe, [&](int n, int m) { return (n <= NCe && m <= MCe) ? fabsl(cr.c(n, m)) : 0; }, [&](int n, int m) { return (n <= NCe && m <= MCe) ? fabsl(cr.s(n, m)) : 0; }, g.X / R, g.Y / R, g.Z / R, (LD)1);
        corr = hc.v; scor = double(hca.mag); }
      LD want = T0 / gamma0 + zeta0 + corrmult * corr;
      double tol = rel * (sT / double(gamma0) * 8 + std::fabs(zeta0) + std::fabs(corrmult) * scor);
      rep("grav-geoid", "GravityModel::GeoidHeight", mo.geoid, want, tol); rep("gravcircle-geoid", "GravityCircle::GeoidHeight", ci.geoid, want, tol);
    }
    // spherical anomaly: delta (without the degree-0 term) in the geocentric east/north/up frame
    LD P = sqrtl(p2), ct = P / R, st = g.Z / R, sl, cl; sincosdl(lon, sl, cl);
    LD er[3] = {cl * ct, sl * ct, st}, en[3] = {-cl * st, -sl * st, ct}, ee[3] = {-sl, cl, 0};
    LD dr = er[0] * dT0[0] + er[1] * dT0[1] + er[2] * dT0[2], dn = en[0] * dT0[0] + en[1] * dT0[1] + en[2] * dT0[2], de = ee[0] * dT0[0] + ee[1] * dT0[1] + ee[2] * dT0[2];
    // |grad U| by differencing the closed-form potential
    LD hh = R * 1e-6L, gu[3]; for (int k = 0; k < 3; ++k) { LD d[3] = {0, 0, 0}; d[k] = hh; gu[k] = (no.U(g.X + d[0], g.Y + d[1], g.Z + d[2]) - no.U(g.X - d[0], g.Y - d[1], g.Z - d[2])) / (2 * hh); }
    LD gamma = sqrtl(gu[0] * gu[0] + gu[1] * gu[1] + gu[2] * gu[2]);
    double sd0 = double(fV * hAD.gmag), tA = rel * (sd0 + 2 * double(fV * hAD.mag / R)), tang = (rel * sd0 + 1e-9 * double(fabsl(dn) + fabsl(de))) / double(gamma) / double(DEG);
    for (int pass = 0; pass < 2; ++pass) { const GRes& q = pass ? ci : mo; const char* rn = pass ? "gravcircle-anomaly" : "grav-anomaly";
      rep(rn, "Dg01", q.Dg01, -dr - 2 * T0 / R, tA); rep(rn, "xi", q.xi, -(dn / gamma) / DEG, tang); rep(rn, "eta", q.eta, -(de / gamma) / DEG, tang); }
  }
});

// ------------------------------------------------------------------------------------------------------------------
// op: ng a GM omega f lat h   -- NormalGravity
// ------------------------------------------------------------------------------------------------------------------
static Reg r_ng("ng", [](const Args& a) {
  double ea = unhx(a[0]), GM = unhx(a[1]), om = unhx(a[2]), f = unhx(a[3]), lat = unhx(a[4]), h = unhx(a[5]), lon = unhx(a[6]);
  double U0 = 0, Us = 0, Uh = 0, gs[3] = {0, 0, 0}, gh[3] = {0, 0, 0}, J2 = 0, J4 = 0, J6 = 0, gsurf = 0, ge = 0, gp = 0, fback = 0, j2back = 0, gy = 0, gz = 0, Ug = 0, div = 0;
  double Xs = 0, Ys = 0, Zs = 0, X = 0, Y = 0, Z = 0;
  std::string ex = guarded([&] {
    NormalGravity n(ea, GM, om, f, true);
    U0 = n.SurfacePotential(); J2 = n.DynamicalFormFactor(2); J4 = n.DynamicalFormFactor(4); J6 = n.DynamicalFormFactor(6);
    gsurf = n.SurfaceGravity(lat); ge = n.EquatorialGravity(); gp = n.PolarGravity();
    n.Earth().Forward(lat, lon, 0, Xs, Ys, Zs); n.Earth().Forward(lat, lon, h, X, Y, Z);
    Us = n.U(Xs, Ys, Zs, gs[0], gs[1], gs[2]); Uh = n.U(X, Y, Z, gh[0], gh[1], gh[2]);
    Ug = n.Gravity(lat, h, gy, gz);
    fback = NormalGravity::J2ToFlattening(ea, GM, om, J2); j2back = NormalGravity::FlatteningToJ2(ea, GM, om, f);
    // divergence of the returned gravity vector by central differences of the implementation
    double R = std::hypot(std::hypot(X, Y), Z), hh = R * 1e-5; div = 0;
    for (int k = 0; k < 3; ++k) { double d[3] = {0, 0, 0}; d[k] = hh; double g1[3], g2[3]; n.U(X + d[0], Y + d[1], Z + d[2], g1[0], g1[1], g1[2]); n.U(X - d[0], Y - d[1], Z - d[2], g2[0], g2[1], g2[2]); div += (g1[k] - g2[k]) / (2 * hh); }
  });
  if (!ex.empty()) { emit(ex); return; }
  emit(hx(U0) + " " + hx(Us) + " " + hx(Uh) + " " + hx(J2) + " " + hx(gsurf));
  NormalOracle no(ea, GM, om, f);
  double R = std::hypot(std::hypot(X, Y), Z), Rs = std::hypot(std::hypot(Xs, Ys), Zs);
  double sU = std::fabs(GM) / std::min(Rs, (double)no.b < Rs ? (double)no.b : Rs) + om * om * ea * ea, sUh = std::fabs(GM) / R + om * om * (ea * ea + R * R);
  auto rep = [&](const char* rn, const std::string& what, double got, LD want, double tol) { if (!(std::fabs(double((LD)got - want)) <= tol + 1e-300)) bad(rn, what + ": " + fmt(got) + " vs " + fmt(double(want)) + " diff " + sci((LD)got - want) + " tol " + sci(tol)); };
  rep("normal-U-constant-on-ellipsoid", "U(surface point) vs SurfacePotential()", Us, (LD)U0, 64e-16 * sU);
  rep("normal-U0", "SurfacePotential vs H+M 2-61", U0, no.U0(), 16e-16 * sU);
  double cond = 1 + std::fabs(GM) / R / (std::fabs(f) > 0 ? 1 : 1);
  (void)cond;
  rep("normal-U", "U(X,Y,Z) vs closed form", Uh, no.U((LD)X, (LD)Y, (LD)Z), 64e-16 * sUh);
  rep("normal-U", "Gravity() potential", Ug, no.U((LD)X, (LD)Y, (LD)Z), 64e-16 * sUh);
  // gradient of the closed-form potential by central differences (long double) = returned gravity vector
  {
    LD hh = (LD)R * 2e-6L, gu[3]; for (int k = 0; k < 3; ++k) { LD d[3] = {0, 0, 0}; d[k] = hh; gu[k] = (no.U(X + d[0], Y + d[1], Z + d[2]) - no.U(X - d[0], Y - d[1], Z - d[2])) / (2 * hh); }
    double sgr = sUh / R, tol = 1e-9 * sgr;
    for (int k = 0; k < 3; ++k) rep("normal-gradient", std::string("gamma") + "XYZ"[k], gh[k], gu[k], tol);
    GeoPt g = geopt(ea, f, lat, 0, h); LD enu[3]; GeoPt gl = geopt(ea, f, lat, lon, h); toenu(gl, gh[0], gh[1], gh[2], enu); (void)g;
    rep("normal-gradient", "Gravity() gammay vs rotated U gradient", gy, enu[1], 1e-13 * sgr); rep("normal-gradient", "Gravity() gammaz", gz, enu[2], 1e-13 * sgr);
    if (!(std::fabs(double(enu[0])) <= 1e-13 * sgr)) bad("normal-gradient", "normal gravity has an east component");
    // harmonic outside + rotation: div gamma = 2 omega^2
    double s2 = std::fabs(GM) / (R * R * R) + om * om;
    rep("normal-laplacian", "div(gamma) by central differences vs 2 omega^2", div, 2 * (LD)om * om, 1e-6 * s2);
    // on the ellipsoid the gradient is normal to it and has the Somigliana magnitude
    GeoPt gsf = geopt(ea, f, lat, lon, 0); LD es[3]; toenu(gsf, gs[0], gs[1], gs[2], es);
    double sg0 = sU / Rs;
    rep("normal-surface-gravity", "SurfaceGravity(lat) vs -U_up on the ellipsoid", gsurf, -es[2], 1e-13 * sg0 * 8);
    if (!(std::fabs(double(es[1])) <= 1e-12 * sg0 && std::fabs(double(es[0])) <= 1e-12 * sg0)) bad("normal-surface-gravity", "gravity on the ellipsoid is not along the normal: north " + sci(es[1]) + " east " + sci(es[0]));
    LD sphi, cphi; sincosdl(lat, sphi, cphi);
    rep("normal-surface-gravity", "SurfaceGravity vs Somigliana (H+M 2-78)", gsurf, no.surfaceGravity(sphi), 1e-13 * sg0 * 8);
    rep("normal-surface-gravity", "EquatorialGravity vs H+M 2-73", ge, no.gammae(), 1e-13 * sg0 * 8); rep("normal-surface-gravity", "PolarGravity vs H+M 2-74", gp, no.gammap(), 1e-13 * sg0 * 8);
  }
  // derived constants
  {
    double sJ = double(fabsl(no.e2) + no.m()) + 1e-300;
    rep("normal-J2", "DynamicalFormFactor(2) vs H+M 2-90", J2, no.J2any(), 1e-13 * sJ); rep("normal-J2", "FlatteningToJ2", j2back, no.J2any(), 1e-13 * sJ);
    if (f == 0 && std::isnan(J4) && std::isnan(J6)) bad("normal-Jn-sphere-nan", "DynamicalFormFactor(4), (6) are NaN for f = 0 (0 * J2/e^2 with e^2 = 0); the limit of H+M 2-92 is 0");
    else { rep("normal-Jn", "J4 vs H+M 2-92", J4, no.Jn(4), 1e-13 * sJ * sJ + 1e-15 * sJ); rep("normal-Jn", "J6 vs H+M 2-92", J6, no.Jn(6), 1e-13 * sJ * sJ * sJ + 1e-15 * sJ); }
    if (std::isfinite(fback)) rep("normal-J2-flattening-inverse", "J2ToFlattening(FlatteningToJ2(f))", fback, (LD)f, 1e-12 * (std::fabs(f) + double(no.m())) + 1e-15);
    else bad("normal-J2-flattening-inverse", "J2ToFlattening returned NaN for the J2 of f = " + fmt(f));
  }
});

// op: ngj a GM omega J2   -- J2 -> f -> J2
static Reg r_ngj("ngj", [](const Args& a) {
  double ea = unhx(a[0]), GM = unhx(a[1]), om = unhx(a[2]), J2 = unhx(a[3]); double f = 0, j2 = 0, f2 = 0, J2n = 0;
  std::string ex = guarded([&] { f = NormalGravity::J2ToFlattening(ea, GM, om, J2); j2 = NormalGravity::FlatteningToJ2(ea, GM, om, f); NormalGravity n(ea, GM, om, J2, false); f2 = n.Flattening(); J2n = n.DynamicalFormFactor(); });
  if (!ex.empty()) { emit(ex); return; }
  emit(hx(f) + " " + hx(j2));
  if (!std::isfinite(f)) return;
  LD m = (LD)om * om * ea * ea * ea / GM;
  if (!(std::fabs(j2 - J2) <= 1e-12 * (std::fabs(J2) + double(m)) + 1e-16)) bad("normal-J2-flattening-inverse", "FlatteningToJ2(J2ToFlattening(J2)) = " + fmt(j2) + " for J2 = " + fmt(J2));
  if (f2 != f || J2n != J2) bad("normal-J2-flattening-inverse", "constructor from J2 disagrees with the static conversion");
  NormalOracle no(ea, GM, om, f);
  if (!(std::fabs(double(no.J2any() - J2)) <= 1e-12 * (std::fabs(J2) + double(m)) + 1e-16)) bad("normal-J2", "H+M 2-90 at the returned flattening gives " + fmt(double(no.J2any())) + " for J2 = " + fmt(J2));
});

// op: ngu GM omega a f u(hex) beta(deg)  -- the closed form in ellipsoidal coordinates, for the Lean models (oblate, prolate, sphere)
static Reg r_ngu("ngu", [](const Args& a) {
  double GM = unhx(a[0]), om = unhx(a[1]), ea = unhx(a[2]), f = unhx(a[3]), u = unhx(a[4]), beta = unhx(a[5]);
  // f > 0: u = polar semi-axis, hypot(u, E) the equatorial one; f < 0 (prolate): u = polar semi-axis > E, sqrt(u^2 - E^2) the equatorial one; f = 0: E = 0
  double b = ea * (1 - f), E = ea * std::sqrt(std::fabs(f * (2 - f))), sb, cb; Math::sincosd(beta, sb, cb);
  double X = (f >= 0 ? std::hypot(u, E) : std::sqrt((u - E) * (u + E))) * cb, Z = u * sb, gx, gy, gz, U = 0, j2 = 0;
  std::string ex = guarded([&] { NormalGravity n(ea, GM, om, f, true); U = n.U(X, 0, Z, gx, gy, gz); j2 = NormalGravity::FlatteningToJ2(ea, GM, om, f); });
  if (!ex.empty()) { emit(ex); return; }
  current_op() += " " + hx(b) + " " + hx(E) + " " + hx(sb) + " " + hx(cb);
  emit(hx(U) + " " + hx(j2));
});

// ------------------------------------------------------------------------------------------------------------------
// op: cofbad kind N0 M0  -- malformed coefficient files: must be rejected with GeographicErr (no overflow, no huge allocation)
// ------------------------------------------------------------------------------------------------------------------
static Reg r_cofbad("cofbad", [](const Args& a) {
  int kind = toi(a[0]); int32_t N0 = int32_t(std::strtol(a[1].c_str(), nullptr, 10)), M0 = int32_t(std::strtol(a[2].c_str(), nullptr, 10));
  std::string dir = tmpdir(), name = "bad" + std::to_string(kind);
  std::string res;
  if (kind == 0) {
    std::string meta = "WMMF-1\nName " + name + "\nRadius 6371200\nType Linear\nEpoch 2020\nDeltaEpoch 5\nNumModels 1\nNumConstants 0\nMinTime 2020\nMaxTime 2025\nMinHeight -1000\nMaxHeight 850000\nNormalization Schmidt\nByteOrder little\nID SYNTHBAD\n";
    std::string cof = "SYNTHBAD"; app32(cof, N0); app32(cof, M0); for (int i = 0; i < 64; ++i) appd(cof, i ? 1.0 / i : 0.0);
    put(dir + "/" + name + ".wmm", meta); put(dir + "/" + name + ".wmm.cof", cof);
    res = guarded([&] { MagneticModel m(name, dir); double x, y, z; m(2021, 10, 20, 0, x, y, z); });
    std::remove((dir + "/" + name + ".wmm").c_str()); std::remove((dir + "/" + name + ".wmm.cof").c_str());
  } else {
    std::string meta = "EGMF-1\nName " + name + "\nModelRadius 6378136.3\nModelMass 3.986004415e14\nAngularVelocity 7292115e-11\nReferenceRadius 6378137\nReferenceMass 3.986004418e14\nFlattening 1/298.257223563\nHeightOffset 0\nNormalization full\nByteOrder little\nID SYNTHBAD\n";
    std::string cof = "SYNTHBAD"; app32(cof, N0); app32(cof, M0); for (int i = 0; i < 64; ++i) appd(cof, i ? 1e-6 / i : 0.0);
    put(dir + "/" + name + ".egm", meta); put(dir + "/" + name + ".egm.cof", cof);
    res = guarded([&] { GravityModel g(name, dir); double x, y, z; g.Gravity(10, 20, 0, x, y, z); });
    std::remove((dir + "/" + name + ".egm").c_str()); std::remove((dir + "/" + name + ".egm.cof").c_str());
  }
  emit(res.empty() ? "ok" : res);
  // the 64 doubles present can hold at most a degree-9 triangle: anything else must be a GeographicErr
  long need = (N0 >= M0 && M0 >= 0 && N0 < 40000) ? 2 * csz(N0, M0) - (N0 + 1) : -1;
  if (res != "!E" && !(need >= 0 && need <= 64)) bad("malformed-file-rejected", "a coefficient file announcing degree " + std::to_string(N0) + " order " + std::to_string(M0) + " with 64 values was not rejected with GeographicErr: " + (res.empty() ? std::string("accepted") : res));
});

#include "C19_glue.hpp"
#include "C19_glue2.hpp"

// ------------------------------------------------------------------------------------------------------------------
// generators
// ------------------------------------------------------------------------------------------------------------------
static void point(Rng& r, double a, int kind, double& x, double& y, double& z) {
  double rr, lat = r.range(-90, 90), lon = r.range(-180, 180);
  switch (kind) {
  case 0: rr = a * r.range(1.0, 1.2); break;
  case 1: rr = a * r.range(0.6, 1.0); break;                     // inside the reference sphere
  case 2: rr = a * std::pow(10.0, r.range(1, 6)); break;         // far away
  case 3: rr = a * r.range(0.8, 1.5); lat = r.coin() ? 90 : -90; break;   // on the polar axis
  case 4: rr = a * r.range(0.9, 1.3); lat = (r.coin() ? 1 : -1) * (90 - std::pow(10.0, r.range(-14, -3))); break;   // next to the axis
  case 5: rr = a * r.range(0.9, 1.3); lat = 0; break;            // equatorial plane
  default: rr = a * r.range(0.95, 2.0); lon = r.pick(std::vector<double>{0, 90, 180, -90, 45}); break;
  }
  double sp, cp, sl, cl; Math::sincosd(lat, sp, cp); Math::sincosd(lon, sl, cl);
  x = rr * cp * cl; y = rr * cp * sl; z = rr * sp;
  if (kind == 5) z = 0;
}

static void gen_sh(Rng& r, int Nlim, bool model) {
  int norm = r.irange(0, 1), L = r.irange(1, 3), cmode = r.irange(0, 4);
  double a = r.pick(std::vector<double>{1.0, 6378137.0, 6371200.0});
  int kind = r.irange(0, 6); double x, y, z; point(r, a, kind, x, y, z);
  int N = r.irange(0, 4) == 0 ? r.irange(0, 3) : r.irange(0, Nlim);
  auto dims = [&](int Nmaxuse, int Mmaxuse, int& Ns, int& nmx, int& mmx, int& Ms, bool first) {
    // storage degree Ns >= nmx >= mmx; nmx <= Nmaxuse, mmx <= Mmaxuse; truncation below the storage in ~2/3 of the cases
    if (first) { nmx = Nmaxuse; mmx = r.irange(0, 2) ? nmx : r.irange(0, nmx); }
    else { nmx = r.irange(0, 3) ? r.irange(0, Nmaxuse) : Nmaxuse; mmx = std::min(Mmaxuse, r.irange(0, 2) ? nmx : r.irange(0, nmx)); }
    Ns = r.irange(0, 2) ? nmx + r.irange(1, 4) : nmx;
    Ms = r.irange(0, 1) ? Ns : r.irange(mmx, Ns);
    if (!first && r.irange(0, 15) == 0) { nmx = mmx = -1; }     // an empty secondary set
  };
  std::vector<std::string> args = {std::to_string(norm), std::to_string(L), std::to_string(cmode), std::to_string(r.next() % 1000000007ULL), hx(a), hx(x), hx(y), hx(z)};
  int N0, nmx0, mmx0, Ms0; dims(N, N, N0, nmx0, mmx0, Ms0, true);
  for (int v : {N0, nmx0, mmx0, Ms0}) args.push_back(std::to_string(v));
  long total = csz(N0, Ms0) * 2;
  for (int l = 1; l < L; ++l) {
    int Ns, nmx, mmx, Ms; dims(nmx0, mmx0, Ns, nmx, mmx, Ms, false);
    for (int v : {Ns, nmx, mmx, Ms}) args.push_back(std::to_string(v));
    args.push_back(hx(r.pick(std::vector<double>{1.0, -1.0, 0.5, 2.0, 0.0, r.range(-3, 3)})));
    total += csz(Ns, Ms) * 2;
  }
  bool m = model && total <= 700;
  run(m ? "shm" : "sh", args);
  stratum(std::string("sh-L") + std::to_string(L) + (norm ? "-schmidt" : "-full") + "-pt" + std::to_string(kind));
  stratum("sh-coef" + std::to_string(cmode));
}

void gv::generate(const std::string& tier, uint64_t seed) {
  Rng r(seed * 1000003 + 19);
  bool th = tier == "thorough";
  bool first = seed % 100 == 0;
  // (1) coefficient storage: exhaustive for small sizes on the first process, random larger sizes everywhere
  if (first) {
    int Nex = th ? 8 : 5;
    for (int N = -1; N <= Nex; ++N) for (int nmx = -1; nmx <= N + 1; ++nmx) for (int mmx = -1; mmx <= nmx + 1; ++mmx) for (int Ms = std::max(mmx, -1); Ms <= N; ++Ms) {
      if (nmx == -1 && mmx != -1 && mmx != 0) continue;
      run("coeff", {std::to_string(N), std::to_string(nmx), std::to_string(mmx), std::to_string(Ms)}); stratum("coeff-exhaustive");
    }
    // repair 3a5948e: an empty set still needs a layout degree N >= -1
    for (int N : {-2, -5, -2147483647}) { run("coeff", {std::to_string(N), "-1", "-1", "-1"}); stratum("coeff-negative-layout"); }
    // regression of the overflow fix: huge / inconsistent degrees in a coefficient file
    for (int kind = 0; kind < 2; ++kind)
      for (auto nm : std::vector<std::pair<long, long>>{{2147483647L, 2147483647L}, {46342, 46342}, {46341, 0}, {65536, 65536}, {1000000, 3}, {-1, 0}, {3, 5}, {-2, -2}, {2147483647L, 0}, {46339, 0}, {46340, 1}, {12, 12}, {9, 9}, {-2147483647L - 1, 0}})
        { run("cofbad", {std::to_string(kind), std::to_string(nm.first), std::to_string(nm.second)}); stratum("cofbad"); }
  }
  for (int i = 0, n = th ? 2000 : 200; i < n; ++i) {
    int N = r.irange(0, 60), nmx = r.irange(-1, N), mmx = nmx < 0 ? -1 : r.irange(0, nmx), Ms = r.irange(std::max(0, mmx), N);
    if (r.irange(0, 9) == 0) nmx = N + r.irange(1, 2);
    run("coeff", {std::to_string(N), std::to_string(nmx), std::to_string(mmx), std::to_string(Ms)}); stratum("coeff-random");
  }
  // (2) harmonic sums
  for (int i = 0, n = th ? 30000 : 3000; i < n; ++i) gen_sh(r, 12, true);
  for (int i = 0, n = th ? 8000 : 1200; i < n; ++i) gen_sh(r, 40, false);
  if (th) for (int i = 0; i < 150; ++i) gen_sh(r, 360, false);
  // (3) magnetic models from synthetic files
  for (int i = 0, n = th ? 8000 : 600; i < n; ++i) {
    int nmod = r.irange(0, 2) ? 1 : r.irange(2, 4), ncon = r.irange(0, 3) == 0, N = r.irange(1, th ? 20 : 12), M = r.irange(0, 3) ? N : r.irange(0, N);
    double dt0 = r.pick(std::vector<double>{5.0, 1.0, 2.5, 0.5});
    double span = nmod * dt0;
    double t; int tk = r.irange(0, 6);
    switch (tk) { case 0: t = 2020 + r.range(0, span); break; case 1: t = 2020 - r.range(0, 30); break; case 2: t = 2020 + span + r.range(0, 30); break;
      case 3: t = 2020 + dt0 * r.irange(0, nmod); break; case 4: t = nextdn(2020 + dt0 * r.irange(0, nmod)); break; case 5: t = 2020 + r.range(-1, 1) * 1000; break; default: t = 2020 + r.range(0, span); }
    double lat = r.irange(0, 7) ? r.range(-90, 90) : r.pick(std::vector<double>{90, -90, 0}), lon = r.irange(0, 7) ? r.range(-180, 180) : r.pick(std::vector<double>{0, 180, -180, 90, 270}), h = r.irange(0, 3) ? r.range(-1000, 850000) : r.pick(std::vector<double>{0.0, -3e6, 3e7});
    int Nmax = -1, Mmax = -1; if (r.irange(0, 3) == 0) { Nmax = r.irange(0, N + 1); Mmax = r.irange(0, 2) ? -1 : r.irange(0, Nmax); } else if (r.irange(0, 9) == 0) { Mmax = r.irange(0, N); }
    run("mag", {std::to_string(r.next() % 1000000007ULL), std::to_string(r.irange(0, 3) ? 1 : 0), std::to_string(nmod), std::to_string(ncon), std::to_string(N), std::to_string(M), hx(dt0), hx(t), hx(lat), hx(lon), hx(h), std::to_string(Nmax), std::to_string(Mmax)});
    stratum("mag-models" + std::to_string(nmod) + (ncon ? "-const" : "") + "-t" + std::to_string(tk) + (Nmax >= 0 || Mmax >= 0 ? "-trunc" : ""));
  }
  for (int i = 0, n = first ? 6 : 0; i < n; ++i) {
    double t = std::vector<double>{1e13, -1e13, INFINITY, -INFINITY, NAN, 2020 + 2147483648.0 * 5}[size_t(i)];
    run("magx", {std::to_string(r.next() % 1000000007ULL), "1", "2", "0", "4", "4", hx(5.0), hx(t), hx(10.0), hx(20.0), hx(0.0), "-1", "-1"}); stratum("magx-extreme-time");
  }
  // (4) gravity models from synthetic files
  for (int i = 0, n = th ? 8000 : 600; i < n; ++i) {
    int N = r.irange(0, 5) ? r.irange(2, th ? 36 : 20) : r.irange(0, 2), M = r.irange(0, 3) ? N : r.irange(0, N);
    double dgm = r.irange(0, 3) ? r.pick(std::vector<double>{1e-5, -1e-5, -7.5e-10, 1e-3, 3e-8}) : 0.0;
    double fl = r.pick(std::vector<double>{1 / 298.257223563, 1 / 298.257223563, 1 / 298.257222101, 0.001, 1 / 150.0});
    double zeta0 = r.pick(std::vector<double>{0.0, -0.41, 0.53}), corrmult = r.pick(std::vector<double>{1.0, 0.01, 2.0});
    int NC = r.irange(0, 2) ? r.irange(0, 8) : -1, MC = NC < 0 ? -1 : r.irange(0, NC);
    double lat = r.irange(0, 7) ? r.range(-90, 90) : r.pick(std::vector<double>{90, -90, 0}), lon = r.irange(0, 7) ? r.range(-180, 180) : r.pick(std::vector<double>{0, 180, -180, 90, 270}), h = r.irange(0, 2) ? r.range(-5000, 400000) : 0.0;
    int Nmax = -1, Mmax = -1; if (r.irange(0, 3) == 0) { Nmax = r.irange(0, N + 1); Mmax = r.irange(0, 2) ? -1 : r.irange(0, Nmax); }
    run("grav", {std::to_string(r.next() % 1000000007ULL), std::to_string(r.irange(0, 3) ? 0 : 1), std::to_string(N), std::to_string(M), hx(dgm), hx(fl), hx(zeta0), hx(corrmult), std::to_string(NC), std::to_string(MC), hx(lat), hx(lon), hx(h), std::to_string(Nmax), std::to_string(Mmax)});
    stratum(std::string("grav") + (dgm != 0 ? "-GMmismatch" : "-GMequal") + (h == 0 ? "-h0" : "") + (Nmax >= 0 ? "-trunc" : ""));
  }
  // (5) normal gravity
  for (int i = 0, n = th ? 20000 : 1500; i < n; ++i) {
    double a, GM, om, f; int k = r.irange(0, 7);
    switch (k) {
    case 0: a = Constants::WGS84_a(); GM = Constants::WGS84_GM(); om = Constants::WGS84_omega(); f = Constants::WGS84_f(); break;
    case 1: a = Constants::GRS80_a(); GM = Constants::GRS80_GM(); om = Constants::GRS80_omega(); f = NormalGravity::GRS80().Flattening(); break;
    case 2: a = 6.4e6; GM = 4e14; om = 7.3e-5; f = 0; break;
    case 3: a = 6.4e6; GM = 4e14; om = 7.3e-5 * r.range(0, 2); f = -r.range(0.0005, 0.05); break;
    case 4: a = r.range(1e6, 1e8); GM = std::pow(10.0, r.range(12, 17)); f = r.range(0.0005, 0.2); om = std::sqrt(GM / (a * a * a)) * r.range(0, 0.3); break;
    case 5: a = 6.4e6; GM = 4e14; om = 0; f = r.range(-0.01, 0.01); break;
    case 6: a = 1; GM = 1; om = r.range(0, 0.2); f = std::pow(10.0, r.range(-7, -2)) * (r.coin() ? 1 : -1); break;
    default: a = 6.4e6; GM = 4e14; om = 7.3e-5; f = r.range(0.2, 0.6); break;
    }
    double lat = r.irange(0, 5) ? r.range(-90, 90) : r.pick(std::vector<double>{90, -90, 0, 45}), h = a * (r.irange(0, 2) ? r.range(0, 0.1) : r.range(0, 5)), lon = r.range(-180, 180);
    run("ng", {hx(a), hx(GM), hx(om), hx(f), hx(lat), hx(h), hx(lon)}); stratum("ng-ell" + std::to_string(k));
    if (i % 4 == 0 && (std::fabs(f) > 1e-5 || f == 0)) { run("ngu", {hx(GM), hx(om), hx(a), hx(f), hx(a * (1 - f) * (r.irange(0, 2) ? 1.0 : r.range(1, 3))), hx(r.range(-90, 90))}); stratum(f > 0 ? "ngu" : f < 0 ? "ngu-prolate" : "ngu-sphere"); }
    if (i % 4 == 1) { double m = om * om * a * a * a / GM; run("ngj", {hx(a), hx(GM), hx(om), hx(r.coin() ? r.range(-0.01, 0.03) - m / 3 : r.range(-0.3, 0.2))}); stratum("ngj"); }
    if (i % 2 == 0) {   // V0, Phi, U = V0 + Phi, accessors at a point outside / on / (for small |f|) slightly inside the ellipsoid, incl. the axis and the equatorial plane
      double rr = a * (r.irange(0, 3) ? r.range(1.0, 1.5) : r.range(1.0 - std::fmin(0.05, std::fabs(f)) * 0.5, 1.0)) * std::fmax(1.0, 1 - f), la = r.irange(0, 5) ? r.range(-90, 90) : r.pick(std::vector<double>{90, -90, 0}), lo = r.range(-180, 180);
      double sp, cp, sl, cl; Math::sincosd(la, sp, cp); Math::sincosd(lo, sl, cl);
      run("ngv", {hx(a), hx(GM), hx(om), hx(f), hx(rr * cp * cl), hx(rr * cp * sl), hx(rr * sp)}); stratum("ngv-ell" + std::to_string(k));
    }
  }
  // (6) the glue: accessors, capability masks, Phi, U, W = V + Phi
  const std::vector<double> lats = {90, -90, 0, 45}, lons = {0, 180, -180, 90, 270, 359.75, -540};
  for (int i = 0, n = th ? 1500 : 250; i < n; ++i) {
    int N = r.irange(0, 7) ? r.irange(2, 12) : r.irange(0, 2), M = r.irange(0, 3) ? N : r.irange(0, N);
    double dgm = r.irange(0, 3) ? r.pick(std::vector<double>{1e-5, -1e-5, -7.5e-10, 1e-3}) : 0.0;
    double fl = r.pick(std::vector<double>{1 / 298.257223563, 1 / 298.257222101, 0.001, 1 / 150.0}); int flmode = r.irange(0, 2);
    double lat = r.irange(0, 7) ? r.range(-90, 90) : r.pick(lats), lon = r.irange(0, 7) ? r.range(-180, 180) : r.pick(lons), h = r.irange(0, 1) ? r.range(-5000, 400000) : 0.0;
    int Nmax = -1, Mmax = -1; if (r.irange(0, 3) == 0) { Nmax = r.irange(0, N + 1); Mmax = r.irange(0, 2) ? -1 : r.irange(0, Nmax); } else if (r.irange(0, 9) == 0) { Mmax = r.irange(0, N); }
    run("gvacc", {std::to_string(r.next() % 1000000007ULL), std::to_string(r.irange(0, 3) ? 0 : 1), std::to_string(N), std::to_string(M), hx(dgm), hx(fl), std::to_string(flmode), hx(lat), hx(lon), hx(h), std::to_string(Nmax), std::to_string(Mmax)});
    stratum(std::string("gvacc") + (h == 0 ? "-h0" : "") + (flmode == 2 ? "-J2" : flmode == 1 ? "-fraction" : "") + (Nmax >= 0 || Mmax >= 0 ? "-trunc" : ""));
  }
  for (int i = 0, n = th ? 3000 : 400; i < n; ++i) {
    int nmod = r.irange(0, 1) ? 1 : r.irange(2, 4), ncon = r.irange(0, 2) == 0, N = r.irange(1, 10), M = r.irange(0, 3) ? N : r.irange(0, N);
    double t = r.range(1890, 2060), lat = r.irange(0, 7) ? r.range(-90, 90) : r.pick(lats), lon = r.irange(0, 7) ? r.range(-180, 180) : r.pick(lons), h = r.irange(0, 3) ? r.range(-1000, 850000) : 0.0;
    int Nmax = -1, Mmax = -1; if (r.irange(0, 3) == 0) { Nmax = r.irange(0, N + 1); Mmax = r.irange(0, 2) ? -1 : r.irange(0, Nmax); }
    run("mgacc", {std::to_string(r.next() % 1000000007ULL), std::to_string(r.irange(0, 3) ? 1 : 0), std::to_string(nmod), std::to_string(ncon), std::to_string(N), std::to_string(M), hx(t), hx(lat), hx(lon), hx(h), std::to_string(Nmax), std::to_string(Mmax)});
    stratum("mgacc-models" + std::to_string(nmod) + (ncon ? "-const" : ""));
  }
  // FieldComponents: generic fields, the documented degenerate cases H = 0 and F = 0, axis-aligned fields, extreme magnitudes
  for (int i = 0, n = th ? 40000 : 3000; i < n; ++i) {
    int k = r.irange(0, 9); double sc = k == 7 ? std::pow(10.0, r.range(-150, -100)) : k == 8 ? std::pow(10.0, r.range(100, 150)) : 50000.0, b[6];
    for (int j = 0; j < 6; ++j) b[j] = (j < 3 ? sc : sc * 0.01) * r.range(-1, 1);
    switch (k) { case 0: b[0] = b[1] = 0; break; case 1: b[0] = b[1] = b[2] = 0; break; case 2: b[0] = 0; break; case 3: b[1] = 0; break; case 4: b[2] = 0; break;
      case 5: b[0] = b[1] = 0; b[3] = b[4] = 0; break; case 6: b[0] = b[1] = b[2] = 0; b[3] = b[4] = b[5] = 0; break; default: break; }
    if (k <= 6 && r.coin()) for (int j = 0; j < 6; ++j) if (b[j] == 0 && r.coin()) b[j] = -0.0;
    run("fcomp", {hx(b[0]), hx(b[1]), hx(b[2]), hx(b[3]), hx(b[4]), hx(b[5])}); stratum("fcomp-" + std::to_string(k));
  }
  // the normal zonal terms subtracted by GravityModel
  for (int i = 0, n = th ? 3000 : 400; i < n; ++i) {
    int N = r.irange(0, 9) ? r.irange(2, 26) : r.irange(0, 2), M = r.irange(0, 3) ? std::min(N, 4) : r.irange(0, std::min(N, 6));
    double dgm = r.irange(0, 3) ? r.pick(std::vector<double>{1e-5, -1e-5, -7.5e-10, 1e-3}) : 0.0, fl = r.pick(std::vector<double>{1 / 298.257223563, 1 / 298.257222101, 0.001, 1 / 150.0, 0.0, -0.002});
    int Nmax = r.irange(0, 3) ? -1 : r.irange(0, N + 1); int norm = r.irange(0, 1);
    run("gzon", {std::to_string(r.next() % 1000000007ULL), std::to_string(norm), std::to_string(N), std::to_string(M), hx(dgm), hx(fl), std::to_string(Nmax)});
    stratum(std::string("gzon") + (norm ? "-schmidt" : "-full") + (Nmax >= 0 ? "-trunc" : "") + (fl <= 0 ? "-f<=0" : ""));
  }
  // file lookup, metadata variations, readcoeffs
  if (first) {
    for (int caps = 0; caps < 64; ++caps) for (int hz = 0; hz < 2; ++hz) { run("gcaps", {std::to_string(caps), std::to_string(hz)}); stratum("gcaps-exhaustive"); }
    for (int kind = 0; kind < 2; ++kind) for (int sp = 0; sp < 3; ++sp) for (int da = 0; da < 3; ++da) for (int nm = 0; nm < 3; ++nm) { run("paths", {std::to_string(kind), std::to_string(sp), std::to_string(da), std::to_string(nm)}); stratum("paths"); }
    for (int kind = 0; kind < 2; ++kind) for (int v : {0, 1, 2, 3, 4, 5, 6, 10, 11, 12, 13, 14, 15, 16, 17, 18, 19, 20, 21, 22, 23, 30, 31, 32, 33, 34, 35, 36, 37, 38, 39, 40}) { run("modelerr", {std::to_string(kind), std::to_string(v)}); stratum(v < 10 || v == 37 || v == 38 ? "modelerr-harmless" : "modelerr-violation"); }
    int Nex = th ? 6 : 4;
    for (int N0 = -1; N0 <= Nex; ++N0) for (int M0 = -1; M0 <= N0; ++M0) {
      if ((N0 == -1) != (M0 == -1)) continue;
      run("rdco", {std::to_string(N0), std::to_string(M0), "0", "0", "0"}); stratum("rdco-exhaustive");
      for (int Nq = -1; Nq <= N0 + 1; ++Nq) for (int Mq = -1; Mq <= Nq; ++Mq) { run("rdco", {std::to_string(N0), std::to_string(M0), std::to_string(Nq), std::to_string(Mq), "1"}); stratum("rdco-exhaustive"); }
    }
    for (auto nm : std::vector<std::pair<int, int>>{{3, 4}, {-1, 0}, {-2, -2}, {0, -1}}) { run("rdco", {std::to_string(nm.first), std::to_string(nm.second), "0", "0", "0"}); stratum("rdco-bad-header"); }
  }
  for (int i = 0, n = th ? 1500 : 150; i < n; ++i) {
    int N0 = r.irange(0, 40), M0 = r.irange(0, N0), tr = r.irange(0, 3) != 0, Nq = r.irange(0, 5) ? r.irange(0, N0 + 2) : N0, Mq = r.irange(0, 3) ? r.irange(0, Nq) : std::min(Nq, M0);
    run("rdco", {std::to_string(N0), std::to_string(M0), std::to_string(Nq), std::to_string(Mq), std::to_string(tr)}); stratum(tr ? "rdco-truncate" : "rdco-full");
  }
  // the simple constructors and the accessors of the harmonic classes
  for (int i = 0, n = th ? 6000 : 800; i < n; ++i) {
    int L = r.irange(1, 3), N = r.irange(0, 9) ? r.irange(0, 12) : -1, N1 = r.irange(0, 7) ? r.irange(-1, std::max(N, -1)) : N + 1, N2 = r.irange(0, 7) ? r.irange(-1, std::max(N, -1)) : N + r.irange(1, 3);
    int extra = r.irange(0, 5) == 0 ? r.irange(1, 5) : (r.irange(0, 7) == 0 ? -r.irange(1, 2) : 0);
    double a = r.pick(std::vector<double>{1.0, 6378137.0}), x, y, z; point(r, a, r.irange(0, 6), x, y, z);
    run("shctor", {std::to_string(r.irange(0, 1)), std::to_string(L), std::to_string(r.next() % 1000000007ULL), std::to_string(N), std::to_string(N1), std::to_string(N2), std::to_string(extra), hx(a), hx(x), hx(y), hx(z),
                   hx(r.pick(std::vector<double>{1.0, -1.0, 0.5, 0.0, r.range(-3, 3)})), hx(r.pick(std::vector<double>{1.0, -1.0, 2.0, r.range(-3, 3)}))});
    stratum("shctor-L" + std::to_string(L) + (extra > 0 ? "-longer" : extra < 0 ? "-short" : "") + ((L >= 2 && N1 > N) || (L == 3 && N2 > N) ? "-N1>N" : ""));
  }
  // the static root table
  for (int i = 0, n = th ? 40 : 8; i < n; ++i) {
    int Nb = r.irange(8, th ? 120 : 60), Ns = r.irange(0, Nb - 1);
    run("roots", {std::to_string(r.next() % 1000003ULL), std::to_string(r.irange(0, 1)), std::to_string(Ns), std::to_string(Nb)}); stratum("roots");
  }
  // (7) tools/Gravity and tools/MagneticField
  for (int i = 0, n = th ? 1200 : 200; i < n; ++i) {
    int N = r.irange(2, 10), M = r.irange(0, 3) ? N : r.irange(0, N), mode = r.irange(0, 3), prec = r.irange(0, 2) ? -1 : r.irange(0, 12), flags = (r.irange(0, 3) == 0) | (r.irange(0, 3) == 0) << 1 | (r.irange(0, 3) == 0) << 2;
    double dgm = r.coin() ? 1e-5 : 0.0, lat = r.irange(0, 7) ? r.range(-90, 90) : r.pick(lats), h = r.coin() ? r.range(-5000, 400000) : 0.0;
    int Nmax = r.irange(0, 3) ? -1 : r.irange(0, N + 1), Mmax = Nmax >= 0 && r.coin() ? r.irange(0, Nmax) : -1;
    run("gravtool", {std::to_string(r.next() % 1000000007ULL), std::to_string(r.irange(0, 3) ? 0 : 1), std::to_string(N), std::to_string(M), hx(dgm), std::to_string(mode), std::to_string(prec), std::to_string(Nmax), std::to_string(Mmax), hx(lat), hx(h),
                     std::to_string(flags), std::to_string(r.irange(0, 7) ? r.irange(1, 6) : 0)});
    stratum(std::string("gravtool-") + "GDAH"[mode] + (prec >= 0 ? "-p" : ""));
  }
  for (int i = 0, n = th ? 1200 : 200; i < n; ++i) {
    int nmod = r.irange(0, 1) ? 1 : r.irange(2, 3), ncon = r.irange(0, 2) == 0, N = r.irange(1, 8), M = r.irange(0, 3) ? N : r.irange(0, N), tmode = r.irange(0, 2), prec = r.irange(0, 2) ? 1 : r.irange(0, 10);
    int flags = (r.irange(0, 3) == 0) | (r.irange(0, 2) == 0) << 1 | (r.irange(0, 3) == 0) << 2 | (r.irange(0, 2) == 0) << 3;
    double span = nmod * 2.5, time = 2020 + (r.irange(0, 5) ? r.range(-0.1, 1.1) * span : r.pick(std::vector<double>{-3.0, span + 3, -60.0, span + 60, 0.0, span}));
    double lat = r.irange(0, 7) ? r.range(-90, 90) : r.pick(lats), h = r.irange(0, 5) ? r.range(-1000, 600000) : r.pick(std::vector<double>{0.0, 600500.0, 602000.0, -2500.0, 1.2e6});
    run("magtool", {std::to_string(r.next() % 1000000007ULL), std::to_string(r.irange(0, 3) ? 1 : 0), std::to_string(nmod), std::to_string(ncon), std::to_string(N), std::to_string(M), std::to_string(tmode), hx(time), hx(lat), hx(h),
                    std::to_string(prec), std::to_string(flags), std::to_string(r.irange(0, 3) ? -1 : r.irange(0, N)), std::to_string(r.irange(0, 7) ? r.irange(1, 6) : 0)});
    stratum(std::string("magtool-") + (tmode == 0 ? "line-time" : tmode == 1 ? "t" : "c") + (flags & 2 ? "-r" : "") + (flags & 8 ? "-guards" : ""));
  }
}
int main(int argc, char** argv) { return gv::main_(argc, argv); }
