// C13: isolated execution of one op in a forked child
#pragma once
#include "common.hpp"
#include <sys/wait.h>
#include <sstream>
#include <csetjmp>
#include <sys/time.h>
namespace c13 {
using namespace gv;
// ---- isolated execution (fork): a sanitizer abort inside the child becomes a #BAD line of the parent, which goes on ----
// wall-clock limit imposed on the op by an isolating parent (0 = none)
inline int& alarm_cap() { static int c = 0; return c; }
// limit on an op: `s` seconds of *CPU* time of this process (ITIMER_PROF -> SIGPROF; a loaded machine cannot trip it), with a
// generous wall-clock backstop for calls blocked outside the CPU
inline void arm(int s) {
  int lim = alarm_cap() > 0 && alarm_cap() < s ? alarm_cap() : s;
  struct itimerval t; t.it_interval.tv_sec = 0; t.it_interval.tv_usec = 0; t.it_value.tv_sec = lim; t.it_value.tv_usec = 0;
  setitimer(ITIMER_PROF, &t, nullptr);
  alarm(unsigned(20 * lim));
}
inline void disarm() { struct itimerval t; std::memset(&t, 0, sizeof t); setitimer(ITIMER_PROF, &t, nullptr); alarm(0); }
inline bool& in_child() { static bool b = false; return b; }
// returns the wait status; the child's stderr (sanitizer report) in `err`
inline int run_child(const std::string& op, const Args& a, int timeout_s, std::string& err) {
  std::fflush(stdout);
  int fd[2]; if (pipe(fd) != 0) { run(op, a); return 0; }
  pid_t pid = fork();
  if (pid == 0) {
    close(fd[0]); dup2(fd[1], 2); close(fd[1]);
    // the child must not write a #CRASH marker into the shared protocol stream: its death is reported by the parent
#if defined(__SANITIZE_ADDRESS__) || defined(__SANITIZE_THREAD__)
    __sanitizer_set_death_callback(+[] {});
#endif
    std::signal(SIGABRT, SIG_DFL);
    in_child() = true;            // the alarm handler then exits with status 77 instead of printing
    alarm_cap() = timeout_s;
    arm(timeout_s);
    run(op, a);
    std::fflush(stdout);
    _exit(0);
  }
  close(fd[1]);
  char buf[4096]; ssize_t n;
  while ((n = read(fd[0], buf, sizeof buf)) > 0) if (err.size() < 60000) err.append(buf, size_t(n));
  close(fd[0]);
  int st = 0; waitpid(pid, &st, 0);
  return st;
}
inline void run_isolated(const std::string& op, const Args& a, int timeout_s = 30) {
  std::string err;
  int st = run_child(op, a, timeout_s, err);
  stat("evaluations");
  if (WIFEXITED(st) && WEXITSTATUS(st) == 77) {
    // timed out: a genuine hang is deterministic, so it must time out again (a child starved by a loaded machine does not)
    std::string err2; int st2 = run_child(op, a, timeout_s, err2);
    if (WIFEXITED(st2) && WEXITSTATUS(st2) == 77) { std::printf("#BAD hang :: %s%s :: call did not terminate within %d s in two isolated attempts\n", op.c_str(), join(a).c_str(), timeout_s); return; }
    stat("isolated_timeout_not_reproduced");
    st = st2; err = err2;
  }
  if (!(WIFEXITED(st) && WEXITSTATUS(st) == 0)) {
    std::string sum; std::istringstream is(err); std::string l;
    while (std::getline(is, l)) if (l.find("runtime error") != std::string::npos || l.find("ERROR: AddressSanitizer") != std::string::npos || l.find("SUMMARY") != std::string::npos) { if (sum.size() < 900) sum += l + " | "; }
    if (WIFSIGNALED(st)) sum += "signal " + std::to_string(WTERMSIG(st));
    std::printf("#BAD sanitizer-isolated :: %s%s :: %s\n", op.c_str(), join(a).c_str(), sum.c_str());
  }
}

// ---- in-process CPU-time watchdog: a call that does not return within `cpu_s` seconds of user CPU time is abandoned by
// jumping back out of the signal handler (numeric loops hold no locks; leaked memory is irrelevant here).  CPU time, not
// wall-clock time, so a loaded machine cannot produce a false "hang".
inline sigjmp_buf& jmpbuf() { static sigjmp_buf b; return b; }
inline volatile sig_atomic_t& armed() { static volatile sig_atomic_t a = 0; return a; }
inline void on_vtalrm(int) { if (armed()) { armed() = 0; siglongjmp(jmpbuf(), 1); } }
inline void set_vtimer(double s) { struct itimerval t; t.it_interval.tv_sec = 0; t.it_interval.tv_usec = 0; t.it_value.tv_sec = long(s); t.it_value.tv_usec = long((s - long(s)) * 1e6); setitimer(ITIMER_VIRTUAL, &t, nullptr); }
template<class F> bool with_timeout(double cpu_s, F f) {
  static bool inst = false; if (!inst) { std::signal(SIGVTALRM, on_vtalrm); inst = true; }
  if (sigsetjmp(jmpbuf(), 1)) { set_vtimer(0); return false; }
  armed() = 1; set_vtimer(cpu_s);
  f();
  armed() = 0; set_vtimer(0);
  return true;
}

// development aid: C13_ISOLATE_ALL=1 runs every generated op in its own child, so one run lists every aborting class
inline bool iso_all() { static int v = -1; if (v < 0) { const char* e = std::getenv("C13_ISOLATE_ALL"); v = e && *e == '1'; } return v == 1; }
inline void runx(const std::string& op, const Args& a) { if (iso_all()) run_isolated(op, a, 90); else run(op, a); }
} // namespace c13
