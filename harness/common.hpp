// Common part of the correspondence harnesses (C++17, in-process, real library objects).
// Protocol: one operation per line, "op arg ... | res ...".  Doubles are the 16 hex
// digits of their bit pattern, ints decimal, strings "s:<hex bytes>", exceptions
// "!E" (GeographicErr) / "!O:<type>".  Lines starting with '#' are for the orchestrator:
//   #STAT <key> <int>        counters (summed)
//   #STRATUM <name>          one per generated case (histogram)
//   #SAMPLE <text>           a few cases written out
//   #BAD <relation> :: <op line that replays it> :: <details>   property-level failing input
// Every random choice derives from one splitmix64 state seeded by VERIF_SEED.
#pragma once
#include <cstdint>
#include <cstdio>
#include <cstring>
#include <cmath>
#include <string>
#include <vector>
#include <map>
#include <functional>
#include <iostream>
#include <sstream>
#include <limits>
#include <csignal>
#include <unistd.h>
#include <GeographicLib/Constants.hpp>

namespace gv {

struct Rng {
  uint64_t s;
  explicit Rng(uint64_t seed) : s(seed) {}
  uint64_t next() {
    uint64_t z = (s += 0x9e3779b97f4a7c15ULL);
    z = (z ^ (z >> 30)) * 0xbf58476d1ce4e5b9ULL;
    z = (z ^ (z >> 27)) * 0x94d049bb133111ebULL;
    return z ^ (z >> 31);
  }
  // uniform in [0,1)
  double u() { return (next() >> 11) * (1.0 / 9007199254740992.0); }
  double range(double a, double b) { return a + (b - a) * u(); }
  int irange(int a, int b) { return a + int(next() % uint64_t(b - a + 1)); } // inclusive
  bool coin() { return next() & 1; }
  template<class T> const T& pick(const std::vector<T>& v) { return v[next() % v.size()]; }
};

inline uint64_t bits(double x) { uint64_t b; std::memcpy(&b, &x, 8); return b; }
inline double frombits(uint64_t b) { double x; std::memcpy(&x, &b, 8); return x; }
inline std::string hx(double x) { char buf[20]; std::snprintf(buf, sizeof buf, "%016llx", (unsigned long long)bits(x)); return buf; }
inline double unhx(const std::string& s) { return frombits(std::strtoull(s.c_str(), nullptr, 16)); }
inline std::string hs(const std::string& s) {
  static const char* d = "0123456789abcdef"; std::string r = "s:";
  for (unsigned char c : s) { r += d[c >> 4]; r += d[c & 15]; } return r;
}
inline std::string unhs(const std::string& h) {
  std::string r; for (size_t i = 2; i + 1 < h.size(); i += 2) r += char(std::stoi(h.substr(i, 2), nullptr, 16)); return r;
}
inline double nextup(double x, int n = 1) { for (int i = 0; i < n; ++i) x = std::nextafter(x, INFINITY); return x; }
inline double nextdn(double x, int n = 1) { for (int i = 0; i < n; ++i) x = std::nextafter(x, -INFINITY); return x; }
inline double ulp(double x) { x = std::fabs(x); if (!(x < INFINITY)) return NAN; double y = std::nextafter(x, INFINITY); return y - x; }

typedef std::vector<std::string> Args;
typedef std::function<void(const Args&)> OpFn;

inline std::map<std::string, OpFn>& registry() { static std::map<std::string, OpFn> r; return r; }
struct Reg { Reg(const char* name, OpFn f) { registry()[name] = f; } };

inline std::string join(const Args& a) { std::string r; for (auto& s : a) { r += " "; r += s; } return r; }

// counters
inline std::map<std::string, long>& stats() { static std::map<std::string, long> s; return s; }
inline void stat(const std::string& k, long n = 1) { stats()[k] += n; }
inline int& nsamples() { static int n = 0; return n; }
inline std::string& current_op() { static std::string s; return s; }

// run an op: the op function prints "op args | results"
inline void run(const std::string& op, const Args& a) {
  auto it = registry().find(op);
  if (it == registry().end()) { std::printf("#BAD harness :: %s%s :: unknown op\n", op.c_str(), join(a).c_str()); return; }
  current_op() = op + join(a);
  stat("evaluations");
  // announce the op before running it (stdout is line buffered): if the process dies inside the library the
  // orchestrator finds the op that was executing as the last "#RUN" line
  std::printf("#RUN %s\n", current_op().c_str());
  it->second(a);
}
inline void out(const Args& a, const std::string& res) {
  std::printf("%s | %s\n", current_op().c_str(), res.c_str());
  (void)a;
}
inline void emit(const std::string& res) { std::printf("%s | %s\n", current_op().c_str(), res.c_str()); }
inline void bad(const std::string& relation, const std::string& details) {
  std::printf("#BAD %s :: %s :: %s\n", relation.c_str(), current_op().c_str(), details.c_str());
}
inline void stratum(const std::string& s) { std::printf("#STRATUM %s\n", s.c_str()); }
inline void sample(const std::string& s) { if (nsamples()++ < 12) std::printf("#SAMPLE %s\n", s.c_str()); }

// generation entry point provided by each harness
void generate(const std::string& tier, uint64_t seed);

extern "C" void __sanitizer_set_death_callback(void (*)(void));
inline void on_death() {
  // called by the sanitizer runtime just before it aborts: name the op that was executing
  std::printf("#CRASH %s\n", current_op().c_str());
  std::fflush(stdout);
}

inline int main_(int argc, char** argv) {
  std::string mode = argc > 1 ? argv[1] : "gen";
  static char outbuf[1 << 16];
  std::setvbuf(stdout, outbuf, _IOLBF, sizeof outbuf);
#if defined(__SANITIZE_ADDRESS__) || defined(__SANITIZE_THREAD__)
  __sanitizer_set_death_callback(on_death);
#endif
  std::signal(SIGABRT, [](int) { on_death(); _exit(134); });
  if (mode == "gen") {
    std::string tier = argc > 2 ? argv[2] : "quick";
    uint64_t seed = argc > 3 ? std::strtoull(argv[3], nullptr, 10) : 1;
    generate(tier, seed);
  } else if (mode == "replay") {
    std::string line;
    while (std::getline(std::cin, line)) {
      if (line.empty() || line[0] == '#') continue;
      std::istringstream is(line); std::string op, t; Args a;
      is >> op; while (is >> t) { if (t == "|") break; a.push_back(t); }
      run(op, a);
    }
  } else { std::fprintf(stderr, "usage: %s gen <tier> <seed> | replay < lines\n", argv[0]); return 2; }
  for (auto& kv : stats()) std::printf("#STAT %s %ld\n", kv.first.c_str(), kv.second);
  return 0;
}

// exception wrapper: returns "" on success, "!E" / "!O:type" on throw
template<class F> std::string guarded(F f) {
  try { f(); return ""; }
  catch (const GeographicLib::GeographicErr&) { return "!E"; }
  catch (const std::bad_alloc&) { return "!A"; }
  catch (const std::exception& e) { return std::string("!O:") + typeid(e).name(); }
  catch (...) { return "!O:unknown"; }
}

// a structured "nasty double" generator for angles
inline double nasty_angle(Rng& r) {
  static const std::vector<double> anchors = {0, 30, 45, 60, 90, 120, 135, 150, 180, 270, 360, 540, 720, 1e-10, 1e-300, 5e-324, 1.0/16, 1.0/32, 84, 80, 72, 64, 56, 6, 3};
  int k = r.irange(0, 9);
  double x;
  switch (k) {
  case 0: x = r.pick(anchors); break;
  case 1: x = nextup(r.pick(anchors), r.irange(1, 3)); break;
  case 2: x = nextdn(r.pick(anchors), r.irange(1, 3)); break;
  case 3: x = r.range(-180, 180); break;
  case 4: x = r.range(-720, 720); break;
  case 5: x = std::ldexp(r.range(1, 2), r.irange(-1074, 1023)); break;
  case 6: x = 90.0 * r.irange(-100000, 100000); break;
  case 7: x = 30.0 * r.irange(-24, 24) + r.irange(-2, 2) * std::ldexp(1.0, -r.irange(40, 52)); break;
  case 8: x = r.pick(anchors) + 360.0 * r.irange(-5, 5); break;
  default: x = std::ldexp(double(r.irange(1, 1 << 20)), r.irange(-30, 30)); break;
  }
  if (r.coin()) x = -x;
  return x;
}

} // namespace gv
