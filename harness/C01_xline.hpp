// Model correspondence for the elliptic-integral line (shared by the C01 and C03 harnesses): the private state of
// GeodesicExact / GeodesicLineExact and the outputs of GenPosition, next to the kernel values the Lean model
// (Model/GeodLineExact.lean; Corr/C01.lean ops xgeodconst / xlineinit / xgenpos) takes as inputs: sincosd, and the member
// functions of an EllipticFunction object that THIS harness constructs with the documented parameters (-k2, -ep2, 1+k2, 1+ep2)
// and evaluates at the documented arguments - not the line's own _eE - and the DST of the area integrand.
#pragma once
#include "geodcommon.hpp"
#include "C01_line.hpp"
#include <GeographicLib/EllipticFunction.hpp>
#include <GeographicLib/DST.hpp>
namespace xline {
using namespace gd; using namespace gv; using gline::hxs;
static const int maxC4 = 400;   // longer coefficient vectors are not written out (S12 is then left to the oracle)

// the members GenPosition reads, in the order of `GeodLineX.LineX`
inline std::string members(const GeodesicLineExact& l) {
  const double m[] = {l._f, l._f1, l._e2, l._b, l._c2, l.tiny_, l._lon1, l._salp1, l._calp1, l._dn1, l._salp0, l._calp0, l._ssig1, l._csig1, l._somg1, l._cchi1, l._k2,
                      l._eE.kp2(), l._eE0, l._eE1, l._stau1, l._ctau1, l._dD0, l._dD1, l._hH0, l._hH1, l._aA4, l._bB41};
  return hxs(m, sizeof m / sizeof m[0]);
}
inline std::string c4list(const GeodesicExact& g, double k2, int& n) {
  std::vector<double> c(g._nC4); GeodesicExact::I4Integrand i4(g._ep2, k2); g._fft.transform(i4, c.data());
  n = g._nC4; if (n > maxC4) { n = -1; return "-1"; }
  return std::to_string(n) + (n ? " " + hxs(c.data(), n) : "");
}

// xgeodconst a f | tiny eps0  f1 e2 ep2 n b c2 etol2
static Reg r_xconst("xgeodconst", [](const Args& a) {
  double ea = unhx(a[0]), f = unhx(a[1]);
  std::string e = guarded([&] { GeodesicExact G(ea, f); const double m[] = {G.tiny_, G.tol0_, G._f1, G._e2, G._ep2, G._n, G._b, G._c2, G._etol2}; emit(hxs(m, 9)); });
  if (!e.empty()) emit(e);
});

// xlineinit a f lat1 lon1 azi1 | g(a f f1 e2 ep2 b c2 tiny)  sbet1r cbet1r salp1 calp1  Ec Dc Hc dE1 dD1 dH1  nC4 C4a[..]  <members>
static Reg r_xlinit("xlineinit", [](const Args& a) {
  double ea = unhx(a[0]), f = unhx(a[1]), lat1 = unhx(a[2]), lon1 = unhx(a[3]), azi1 = unhx(a[4]);
  GeodesicExact G(ea, f);
  double sb, cb, sa, ca;
  Math::sincosd(Math::AngRound(Math::LatFix(lat1)), sb, cb);
  Math::sincosd(Math::AngRound(Math::AngNormalize(azi1)), sa, ca);
  GeodesicLineExact l(G, lat1, lon1, azi1);
  EllipticFunction ell(-l._k2, -G._ep2, 1 + l._k2, 1 + G._ep2);
  int n; std::string c4 = c4list(G, l._k2, n);
  const double k[] = {G._a, G._f, G._f1, G._e2, G._ep2, G._b, G._c2, G.tiny_, sb, cb, sa, ca, ell.E(), ell.D(), ell.H(),
                      ell.deltaE(l._ssig1, l._csig1, l._dn1), ell.deltaD(l._ssig1, l._csig1, l._dn1), ell.deltaH(l._ssig1, l._csig1, l._dn1)};
  emit(hxs(k, 18) + " " + c4 + " " + members(l));
});

// xgenpos a f lat1 lon1 azi1 arc len unroll | <members>  ssig12k csig12k  stau2 ctau2 dEinv  ssig2 csig2a csig2b dn2 dE2 dD2 dH2  nC4 C4a[..]
//                                            a12 lat2 lon2 azi2 s12 m12 M12 M21 S12
// (csig2a: before, csig2b: after the degenerate end point is patched)
static Reg r_xgpos("xgenpos", [](const Args& a) {
  double ea = unhx(a[0]), f = unhx(a[1]), lat1 = unhx(a[2]), lon1 = unhx(a[3]), azi1 = unhx(a[4]); bool arc = a[5] == "1"; double len = unhx(a[6]); bool unroll = a[7] == "1";
  GeodesicExact G(ea, f); GeodesicLineExact l(G, lat1, lon1, azi1);
  EllipticFunction ell(-l._k2, -G._ep2, 1 + l._k2, 1 + G._ep2);
  // the arguments at which GenPosition is documented to call the kernels
  double sk = 0, ck = 0, stau2 = 0, ctau2 = 0, dEinv = 0, sig12, ssig12, csig12;
  if (arc) { Math::sincosd(len, sk, ck); sig12 = len * Math::degree(); ssig12 = sk; csig12 = ck; }
  else { double tau12 = len / (l._b * l._eE0), s = std::sin(tau12), c = std::cos(tau12); stau2 = l._stau1 * c + l._ctau1 * s; ctau2 = l._ctau1 * c - l._stau1 * s;
    dEinv = ell.deltaEinv(stau2, ctau2); double E2 = -dEinv; sig12 = tau12 - (E2 - l._eE1); ssig12 = std::sin(sig12); csig12 = std::cos(sig12); }
  double ssig2 = l._ssig1 * csig12 + l._csig1 * ssig12, csig2a = l._csig1 * csig12 - l._ssig1 * ssig12, dn2 = ell.Delta(ssig2, csig2a);
  double csig2b = std::hypot(l._salp0, l._calp0 * csig2a) == 0 ? l.tiny_ : csig2a;
  double dE2 = ell.deltaE(ssig2, csig2a, dn2), dD2 = ell.deltaD(ssig2, csig2b, dn2), dH2 = ell.deltaH(ssig2, csig2b, dn2);
  int n; std::string c4 = c4list(G, l._k2, n);
  Res r; r.a12 = l.GenPosition(arc, len, GeodesicExact::ALL | (unroll ? GeodesicExact::LONG_UNROLL : 0), r.lat2, r.lon2, r.azi2, r.s12, r.m12, r.M12, r.M21, r.S12);
  const double k[] = {sk, ck, stau2, ctau2, dEinv, ssig2, csig2a, csig2b, dn2, dE2, dD2, dH2};
  const double o[] = {r.a12, r.lat2, r.lon2, r.azi2, r.s12, r.m12, r.M12, r.M21, r.S12};
  emit(members(l) + " " + hxs(k, 12) + " " + c4 + " " + hxs(o, 9));
});

// one start point / direction / length through the model of the exact line
inline void model_case(Rng& r, double ea, double f, double lat1, double lon1, double azi1, bool arc, double len, bool withconst = false) {
  if (!(f < 1)) return;
  if (withconst) run("xgeodconst", {hx(ea), hx(f)});
  run("xlineinit", {hx(ea), hx(f), hx(lat1), hx(lon1), hx(azi1)});
  bool un = r.coin();
  run("xgenpos", {hx(ea), hx(f), hx(lat1), hx(lon1), hx(azi1), arc ? "1" : "0", hx(len), un ? "1" : "0"});
  double q = (1 - f) >= 1 ? (1 - f) : 1 / (1 - f);
  stratum(std::string("xmodel-") + (q <= 1.03 ? "near-sphere" : q <= 4.001 ? "moderate" : "extreme") + (arc ? "-arc" : "-dist") + (un ? "-unroll" : ""));
}
} // namespace xline
