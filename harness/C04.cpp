// C04: UTM/UPS
#include "common.hpp"
#include <GeographicLib/UTMUPS.hpp>
#include <GeographicLib/TransverseMercator.hpp>
#include <GeographicLib/PolarStereographic.hpp>
#include <GeographicLib/Math.hpp>
#include <GeographicLib/MGRS.hpp>
#include <GeographicLib/GeoCoords.hpp>
#include <GeographicLib/DMS.hpp>
#include <GeographicLib/Utility.hpp>
#include <GeographicLib/Constants.hpp>
#include <iostream>
#include <sstream>
#include <fstream>
#include "C04_doc.hpp"
#define bad doc::bad_
using namespace GeographicLib; using namespace gv;

static const double SENT = 7.25e77;
static std::string b(bool x) { return x ? "1" : "0"; }
#include "C04_glue.hpp"

static Reg r_std("stdzone", [](const Args& a) {
  double lat = unhx(a[0]), lon = unhx(a[1]); int sz = std::atoi(a[2].c_str()); int z = -99;
  std::string e = guarded([&] { z = UTMUPS::StandardZone(lat, lon, sz); });
  if (!e.empty()) { emit(e); if (e != "!E") bad("foreign-exception", e); if (sz >= -4 && sz <= 60) bad("documented-zone-rule", "StandardZone throws for a zone request inside [-4, 60]"); return; }
  emit(std::to_string(z));
  // UTMUPS.hpp, zonespec: the rule written out with the documented numbers (no table of the library involved)
  if (!(sz >= -4 && sz <= 60)) { bad("documented-zone-rule", "StandardZone accepts a zone request outside [-4, 60]"); return; }
  int want = sz >= 0 || sz == -4 ? sz : (!(std::isfinite(lat) && std::isfinite(lon)) ? -4 : (std::fabs(lat) <= 90 ? doc::zone_rule(lat, lon, sz == -2) : z));
  if (z != want) bad("documented-zone-rule", "StandardZone = " + std::to_string(z) + ", the documented rule gives " + std::to_string(want));
});

static Reg r_fwd("utmfwd", [](const Args& a) {
  double lat = unhx(a[0]), lon = unhx(a[1]); int sz = std::atoi(a[2].c_str()); bool mg = a[3] == "1";
  // kernel: what the underlying projection returns for the zone the implementation selects
  double kx = NAN, ky = NAN, kg = NAN, kk = NAN; int z1 = -99;
  std::string e0 = guarded([&] { z1 = UTMUPS::StandardZone(lat, lon, sz); });
  if (e0.empty() && z1 >= 0 && !(std::fabs(lat) > 90)) {
    if (z1 > 0) TransverseMercator::UTM().Forward(6 * z1 - 183.0, lat, lon, kx, ky, kg, kk);
    else PolarStereographic::UPS().Forward(!std::signbit(lat), lat, lon, kx, ky, kg, kk);
  }
  current_op() = "utmfwd " + a[0] + " " + a[1] + " " + a[2] + " " + a[3] + " " + hx(kx) + " " + hx(ky) + " " + hx(kg) + " " + hx(kk);
  int zone = -77; bool northp = true; double x = SENT, y = SENT, g = SENT, k = SENT;
  std::string e = guarded([&] { UTMUPS::Forward(lat, lon, zone, northp, x, y, g, k, sz, mg); });
  if (!e.empty()) {
    emit(e); if (e != "!E") bad("foreign-exception", e);
    if (zone != -77 || x != SENT || y != SENT || g != SENT || k != SENT) bad("output-modified-on-throw", "UTMUPS::Forward threw but changed an output argument");
    // documented: the only reasons to throw are |lat| > 90, an illegal zone request, and coordinates outside the documented range
    if (std::fabs(lat) <= 90 && sz >= -4 && sz <= 60 && z1 >= 0 && std::isfinite(kx) && std::isfinite(ky)) {
      bool utmp = z1 > 0, np = !std::signbit(lat);
      // (the implementation also refuses, with its own message, points more than 60 degrees from the central meridian / 20 degrees from the pole;
      //  the header does not mention these two tests — near a pole they are not implied by the ranges — so they are left out of the oracle)
      bool refused = utmp ? !(std::fabs(Math::AngDiff(doc::central_meridian(z1), lon)) <= 60) : std::fabs(lat) < 70;
      if (!refused && doc::strictly_inside(doc::range(utmp, np, mg), kx + doc::false_easting(utmp), ky + doc::false_northing(utmp, np)))
        bad("documented-range", "UTMUPS::Forward throws although the projected point lies strictly inside the documented range");
    }
    return;
  }
  emit(std::to_string(zone) + " " + b(northp) + " " + hx(x) + " " + hx(y) + " " + hx(g) + " " + hx(k));
  // the INVALID conventions: a NaN or infinite coordinate (no explicit zone requested) or an INVALID request gives zone INVALID and NaN results; nothing else does
  if ((sz == -4 || ((!std::isfinite(lat) || !std::isfinite(lon)) && sz < 0)) != (zone == -4)) bad("documented-invalid", "UTMUPS::Forward: zone is INVALID for valid input, or not INVALID for NaN input / an INVALID request");
  if (zone == -4 && !(std::isnan(x) && std::isnan(y) && std::isnan(g) && std::isnan(k))) bad("documented-invalid", "UTMUPS::Forward: INVALID zone with non-NaN results");
  // a finite position inside [-90, 90] never converts to NaN coordinates: it converts or the call throws
  if (zone >= 0 && std::isfinite(lat) && std::isfinite(lon) && std::fabs(lat) <= 90 && (std::isnan(x) || std::isnan(y) || std::isnan(g) || std::isnan(k)))
    bad("forward-finite", "UTMUPS::Forward returns NaN coordinates for a finite position (zone " + std::to_string(zone) + ")" +
        (std::fabs(lat) < 1e-50 && zone > 0 && Math::AngDiff(doc::central_meridian(zone), lon) == -90 ? " [class:singular-point-west]" : ""));
  if (zone < 0 || !std::isfinite(lat) || !std::isfinite(lon) || std::isnan(x)) return;
  {
    // documented facts about the result, from the header's numbers alone
    bool utmp = zone > 0; doc::Rect R = doc::range(utmp, northp, mg);
    if (!doc::inside_closed(R, x, y)) bad("documented-range", "UTMUPS::Forward returns coordinates outside the documented range");
    if (northp != !std::signbit(lat)) bad("documented-hemisphere", "UTMUPS::Forward: hemisphere is not that of the latitude");
    if (std::isfinite(kx) && z1 == zone) {
      double wx = kx + doc::false_easting(utmp), wy = ky + doc::false_northing(utmp, northp);
      if (!(std::fabs(x - wx) <= 2 * ulp(wx) && std::fabs(y - wy) <= 2 * ulp(wy)))
        bad("documented-false-origin", "UTMUPS::Forward: coordinates are not the projection's plus the documented false easting/northing (" + std::to_string(doc::false_easting(utmp)) + ", " + std::to_string(doc::false_northing(utmp, northp)) + ")");
    }
    if (utmp && Math::AngDiff(doc::central_meridian(zone), lon) == 0 && std::fabs(lat) < 89) {
      // on the central meridian 6 zone - 183: easting exactly 500 km, no convergence, scale 0.9996
      if (x != 500e3 || !(std::fabs(g) <= 1e-13) || !(std::fabs(k - doc::K0_UTM) <= 2.4e-13)) bad("documented-central-meridian", "UTMUPS::Forward on the central meridian of zone " + std::to_string(zone) + ": x, gamma, k are not 500000, 0, 0.9996");
    }
    if (!utmp && std::fabs(lat) == 90 && !(x == 2000e3 && y == 2000e3 && std::fabs(k - doc::K0_UPS) <= 1e-14)) bad("documented-pole", "UTMUPS::Forward at a pole: x, y, k are not 2000000, 2000000, 0.994");
  }
  // closure: Reverse(Forward) = id to about 5 nm (x4), when the point is in the ordinary domain of the zone
  double lat2, lon2, g2, k2;
  std::string e2 = guarded([&] { UTMUPS::Reverse(zone, northp, x, y, lat2, lon2, g2, k2, mg); });
  if (!e2.empty()) { bad("forward-then-reverse", "Reverse rejects Forward's output"); return; }
  double dlon = Math::AngDiff(lon, lon2);
  bool polar = zone == 0 && std::fabs(lat) > 89.999;
  double dist = std::hypot((lat2 - lat) * 111e3, polar ? 0 : dlon * 111e3 * std::cos(lat * Math::degree()));
  double cm = zone > 0 ? std::fabs(Math::AngDiff(6 * zone - 183.0, lon)) : 0;
  if (cm < 30 && !(dist < 20e-9)) bad("utm-closure", "Reverse(Forward) off by " + std::to_string(dist * 1e9) + " nm");
  if (cm < 30 && ((!polar && !(std::fabs(Math::AngDiff(g2, g)) < 1e-9)) || !(std::fabs(k2 - k) < 1e-12))) bad("utm-closure", "gamma/k differ between Forward and Reverse");
});

static Reg r_rev("utmrev", [](const Args& a) {
  int zone = std::atoi(a[0].c_str()); bool northp = a[1] == "1"; double x = unhx(a[2]), y = unhx(a[3]); bool mg = a[4] == "1";
  double lat = SENT, lon = SENT, g = SENT, k = SENT;
  std::string e = guarded([&] { UTMUPS::Reverse(zone, northp, x, y, lat, lon, g, k, mg); });
  // UTMUPS.hpp documents the accepted rectangles (km): UTM x [0, 1000], y [-9100, 9600] "north" / [900, 19600] "south"; UPS x and y [1200, 2800] north /
  // [700, 3300] south; all shrunk by 100 km with mgrslimits.  Strictly inside => accepted, strictly outside => rejected (the edges are the model's business).
  if (zone >= 0 && zone <= 60 && std::isfinite(x) && std::isfinite(y)) {
    double pad = mg ? 1e5 : 0, xl, xh, yl, yh;
    if (zone > 0) { xl = 0; xh = 10e5; yl = northp ? -91e5 : 9e5; yh = northp ? 96e5 : 196e5; }
    else { xl = yl = northp ? 12e5 : 7e5; xh = yh = northp ? 28e5 : 33e5; }
    xl += pad; yl += pad; xh -= pad; yh -= pad;
    bool inside = x > xl && x < xh && y > yl && y < yh, outside = x < xl || x > xh || y < yl || y > yh;
    if (inside && !e.empty()) bad("documented-range", "UTMUPS::Reverse rejects coordinates strictly inside the documented range");
    if (outside && e.empty()) bad("documented-range", "UTMUPS::Reverse accepts coordinates strictly outside the documented range");
  }
  if (!e.empty()) {
    emit(e); if (e != "!E") bad("foreign-exception", e);
    if (lat != SENT || lon != SENT || g != SENT || k != SENT) bad("output-modified-on-throw", "UTMUPS::Reverse threw but changed an output argument");
    return;
  }
  emit(hx(lat) + " " + hx(lon) + " " + hx(g) + " " + hx(k));
  if ((zone == -4 || std::isnan(x) || std::isnan(y)) != (std::isnan(lat) && std::isnan(lon) && std::isnan(g) && std::isnan(k))) bad("documented-invalid", "UTMUPS::Reverse: NaN results exactly for an INVALID zone or NaN coordinates");
  if (std::isnan(lat) || zone < 0) return;
  // closure Forward(Reverse) = id (5 nm x4) for points within the ordinary domain
  int z2; bool n2; double x2, y2, g2, k2;
  if (zone > 0 && std::fabs(x - 5e5) > 3.0e6) return;
  std::string e2 = guarded([&] { UTMUPS::Forward(lat, lon, z2, n2, x2, y2, g2, k2, zone, false); });
  if (!e2.empty()) return; // outside forward's domain (e.g. far beyond the zone): not a closure case
  if (n2 != northp) { if (zone > 0) y2 += (northp ? -1 : 1) * 1e7; else return; }
  double d = std::hypot(x2 - x, y2 - y);
  if (!(d < 20e-9 + 4e-16 * std::hypot(x, y))) bad("utm-closure", "Forward(Reverse) off by " + std::to_string(d * 1e9) + " nm");
});

static Reg r_transfer("transfer", [](const Args& a) {
  int zin = std::atoi(a[0].c_str()); bool nin = a[1] == "1"; double xin = unhx(a[2]), yin = unhx(a[3]); int zout = std::atoi(a[4].c_str()); bool nout = a[5] == "1";
  double xo = SENT, yo = SENT; int zo = -77;
  if (zin != zout) {
    // kernels of the bookkeeping model: what Reverse and Forward (the calls Transfer makes) do on this input
    double klat = NAN, klon = NAN, kx = NAN, ky = NAN; int kz = -99; bool kn = false;
    std::string er = guarded([&] { UTMUPS::Reverse(zin, nin, xin, yin, klat, klon); }), ef = "-";
    if (er.empty()) ef = guarded([&] { UTMUPS::Forward(klat, klon, kz, kn, kx, ky, zout == UTMUPS::MATCH ? zin : zout); });
    if (!ef.empty()) { kx = ky = NAN; kz = -99; kn = false; }
    current_op() = "transfer_via " + a[0] + " " + a[1] + " " + a[2] + " " + a[3] + " " + a[4] + " " + a[5] + " " +
      b(er.empty()) + " " + hx(klat) + " " + hx(klon) + " " + b(ef.empty()) + " " + std::to_string(kz) + " " + b(kn) + " " + hx(kx) + " " + hx(ky);
  }
  std::string e = guarded([&] { UTMUPS::Transfer(zin, nin, xin, yin, zout, nout, xo, yo, zo); });
  if (zin == zout)
    current_op() = "transfer_same " + a[0] + " " + a[1] + " " + a[2] + " " + a[3] + " " + a[5];
  emit(e.empty() ? hx(xo) + " " + hx(yo) + " " + std::to_string(zo) : e);
  if (!e.empty() && (xo != SENT || yo != SENT || zo != -77)) bad("output-modified-on-throw", "UTMUPS::Transfer threw but changed an output argument");
  if (!e.empty()) { if (e != "!E") bad("foreign-exception", e); return; }
  if (zin < 0 || zo < 0) return; // INVALID in, NaN out
  if (std::isfinite(xin) && std::isfinite(yin)) {
    if (doc::strictly_outside(doc::range(zin > 0, nin, false), xin, yin) && zin != zout) bad("documented-range", "UTMUPS::Transfer accepts input coordinates strictly outside the documented range");
    if (zin == zout) {
      // same zone: nothing but the documented shift of 10^7 m on a hemisphere change (never for UPS)
      double wy = nin == nout ? yin : yin + (nout ? -doc::SHIFT : doc::SHIFT);
      if (zin == 0 && nin != nout) bad("documented-shift", "UTMUPS::Transfer moved UPS coordinates to the other hemisphere");
      else if (zo != zin || bits(xo) != bits(xin) || bits(yo) != bits(wy)) bad("documented-shift", "UTMUPS::Transfer within a zone is not the identity up to the 10^7 m northing shift");
    } else if (std::isfinite(xo) && std::isfinite(yo)) {
      // the output is in the range of Forward; after a hemisphere relabelling in the range continued across the equator
      doc::Rect R = doc::range(zo > 0, nout, false);
      if (!doc::inside_closed(R, xo, yo)) bad("documented-range", "UTMUPS::Transfer returns coordinates outside the documented range");
    }
  }
  // consistency with converting through geographic coordinates
  double lat, lon; int z2; bool n2; double x2, y2;
  std::string e2 = guarded([&] { UTMUPS::Reverse(zin, nin, xin, yin, lat, lon); UTMUPS::Forward(lat, lon, z2, n2, x2, y2, zout == UTMUPS::MATCH ? zin : zout); });
  if (!e2.empty()) { if (zin != zout) bad("transfer-vs-geographic", "Transfer succeeded where Reverse+Forward throws"); return; }
  if (z2 > 0 && n2 != nout) y2 += (nout ? -1 : 1) * 1e7;
  if (z2 == 0 && n2 != nout) { bad("transfer-vs-geographic", "UPS hemisphere changed without an exception"); return; }
  double d = std::hypot(x2 - xo, y2 - yo);
  if (zo != z2 || !(d < 40e-9 + 4e-16 * std::hypot(xo, yo))) bad("transfer-vs-geographic", "Transfer differs from Reverse+Forward by " + std::to_string(d) + " m, zone " + std::to_string(zo) + " vs " + std::to_string(z2));
});

static Reg r_dz("decodezone", [](const Args& a) {
  std::string s = unhs(a[0]); int z = -77; bool n = true;
  std::string e = guarded([&] { UTMUPS::DecodeZone(s, z, n); });
  int dz = -99; bool dn = false; bool legal = doc::zonestr(s, dz, dn);
  if (!e.empty()) { emit(e); if (e != "!E") bad("foreign-exception", e); if (z != -77) bad("output-modified-on-throw", "DecodeZone");
    if (legal) bad("documented-zone-grammar", "DecodeZone rejects " + hs(s) + ", legal by the documented grammar"); return; }
  emit(std::to_string(z) + " " + b(n));
  if (!legal) bad("documented-zone-grammar", "DecodeZone accepts " + hs(s) + ", illegal by the documented grammar");
  else if (z != dz || n != dn) bad("documented-zone-grammar", "DecodeZone(" + hs(s) + ") = (" + std::to_string(z) + ", " + b(n) + "), documented meaning (" + std::to_string(dz) + ", " + b(dn) + ")");
});
static Reg r_ez("encodezone", [](const Args& a) {
  int z = std::atoi(a[0].c_str()); bool n = a[1] == "1", ab = a[2] == "1"; std::string s;
  std::string e = guarded([&] { s = UTMUPS::EncodeZone(z, n, ab); });
  if (!e.empty()) { emit(e); if ((z >= 0 && z <= 60) || z == -4) bad("documented-zone-grammar", "EncodeZone throws for a zone in [0, 60] / INVALID"); return; }
  emit(hs(s));
  if (!((z >= 0 && z <= 60) || z == -4)) bad("documented-zone-grammar", "EncodeZone accepts a zone outside [0, 60]");
  else if (s != doc::zonestr_of(z, n, ab)) bad("documented-zone-grammar", "EncodeZone(" + std::to_string(z) + ") = " + s + ", documented form " + doc::zonestr_of(z, n, ab));
  int z2; bool n2; std::string e2 = guarded([&] { UTMUPS::DecodeZone(s, z2, n2); });
  if (!e2.empty() || z2 != z || (z >= 0 && n2 != n)) bad("zone-string-roundtrip", "DecodeZone(EncodeZone) != id for " + s);
});
static Reg r_ed("epsgdec", [](const Args& a) {
  int e = std::atoi(a[0].c_str()), z; bool n; UTMUPS::DecodeEPSG(e, z, n); emit(std::to_string(z) + " " + b(n));
  { int dz; bool dn; doc::epsg_decode(e, dz, dn); if (z != dz || n != dn) bad("documented-epsg", "DecodeEPSG(" + std::to_string(e) + ") = (" + std::to_string(z) + ", " + b(n) + "), EPSG registry (" + std::to_string(dz) + ", " + b(dn) + ")"); }
  if (z >= 0 && UTMUPS::EncodeEPSG(z, n) != e) bad("epsg-roundtrip", "EncodeEPSG(DecodeEPSG) != id");
});
static Reg r_ee("epsgenc", [](const Args& a) {
  int z = std::atoi(a[0].c_str()); bool n = a[1] == "1"; int e = UTMUPS::EncodeEPSG(z, n); emit(std::to_string(e));
  if (e != doc::epsg_of(z, n)) bad("documented-epsg", "EncodeEPSG(" + std::to_string(z) + ", " + b(n) + ") = " + std::to_string(e) + ", EPSG registry " + std::to_string(doc::epsg_of(z, n)));
  if (e >= 0) { int z2; bool n2; UTMUPS::DecodeEPSG(e, z2, n2); if (z2 != z || n2 != n) bad("epsg-roundtrip", "DecodeEPSG(EncodeEPSG) != id"); }
});

static double nasty_lat(Rng& r) {
  static const std::vector<double> e = {-90, -80, -72, -64, -56, 0, 8, 56, 64, 72, 84, 80, 90, 83.5, -79.5, 70, -70};
  int k = r.irange(0, 5);
  double v = k == 0 ? r.pick(e) : k == 1 ? nextup(r.pick(e), r.irange(1, 2)) : k == 2 ? nextdn(r.pick(e), r.irange(1, 2)) : k == 3 ? double(r.irange(-90, 90)) : r.range(-90, 90);
  if (v > 90) v = 90; if (v < -90) v = -90; return v;
}
static double nasty_lon(Rng& r) {
  int k = r.irange(0, 6);
  double base = k < 3 ? 6.0 * r.irange(-30, 30) : k == 3 ? r.pick(std::vector<double>{3, 9, 21, 33, 42, 0, 6, 12, 180, -180}) : r.range(-180, 180);
  if (k == 1) base = nextup(base, r.irange(1, 2)); if (k == 2) base = nextdn(base, r.irange(1, 2));
  if (k == 5) base += 360.0 * r.irange(-2, 2);
  if (k == 4 && r.coin()) base = 6.0 * r.irange(1, 60) - 183 + 360.0 * r.irange(-1, 1);   // a central meridian
  if (k == 6 && r.irange(0, 20) == 0) base = r.pick(std::vector<double>{1e17, -1e17, 540, -540, INFINITY});
  return base;
}

void gv::generate(const std::string& tier, uint64_t seed) {
  Rng r(seed * 104729 + 4);
  long n = tier == "thorough" ? 200000 : 12000;
  for (long i = 0; i < n; ++i) {
    double lat = nasty_lat(r), lon = nasty_lon(r);
    if (i % 211 == 0) lat = NAN; if (i % 223 == 0) lon = NAN; if (i % 227 == 0) lat = r.pick(std::vector<double>{90.0000001, -91, 1e9});
    int sz = i % 3 == 0 ? -1 : r.irange(-5, 61);
    run("stdzone", {hx(lat), hx(lon), std::to_string(sz)});
    // forward: requested zones near the standard one so that most calls succeed
    int z0 = -1; try { z0 = UTMUPS::StandardZone(lat, lon); } catch (...) {}
    int szf = i % 2 == 0 ? -1 : (i % 4 == 1 ? -2 : (z0 > 0 ? std::max(1, std::min(60, z0 + r.irange(-1, 1))) : r.irange(-4, 60)));
    run("utmfwd", {hx(lat), hx(lon), std::to_string(szf), b(r.coin())});
    stratum(std::string("fwd-") + (szf == -1 ? "standard" : szf == -2 ? "utm" : "explicit"));
    if (i % 16 == 3) {
      // a requested zone whose central meridian is 60, 90, 120 or 180 degrees away (either side, +-ulp), on and next to the equator and at high latitude
      int zf = r.irange(1, 60); double d = r.pick(std::vector<double>{60, 90, 120, 180, 59.999999, 45}) * (r.coin() ? 1 : -1);
      double lo = doc::central_meridian(zf) + d; int u = r.irange(-1, 1); lo = u > 0 ? nextup(lo) : u < 0 ? nextdn(lo) : lo;
      double la = r.pick(std::vector<double>{0.0, -0.0, 1e-9, -1e-9, 1e-300, 45, -45, 80, 89, 89.999999, 90, -90});
      run("utmfwd", {hx(la), hx(lo), std::to_string(zf), b(r.coin())});
      stratum("fwd-far-zone");
    }
    if (i < 4) sample(current_op());
    // reverse: on / just inside / outside the rectangles
    int zone = r.irange(0, 5) == 0 ? 0 : r.irange(1, 60); if (i % 97 == 0) zone = r.pick(std::vector<int>{-4, -1, 61, -5});
    bool northp = r.coin(); bool utmp = zone > 0;
    double xlo = utmp ? 1e5 : (northp ? 13e5 : 8e5), xhi = utmp ? 9e5 : (northp ? 27e5 : 32e5);
    double ylo = utmp ? (northp ? -90e5 : 10e5) : xlo, yhi = utmp ? (northp ? 95e5 : 195e5) : xhi;
    auto edge = [&](double lo, double hi) {
      int k = r.irange(0, 7); double v;
      switch (k) { case 0: v = lo; break; case 1: v = hi; break; case 2: v = lo - 1e5; break; case 3: v = hi + 1e5; break;
        case 4: v = nextdn(r.pick(std::vector<double>{lo, lo - 1e5})); break; case 5: v = nextup(r.pick(std::vector<double>{hi, hi + 1e5})); break;
        default: v = r.range(lo, hi); } return v; };
    double x = edge(xlo, xhi), y = edge(ylo, yhi); if (i % 199 == 0) x = NAN;
    bool mg = r.coin();
    run("utmrev", {std::to_string(zone), b(northp), hx(x), hx(y), b(mg)});
    stratum(std::string("rev-") + (utmp ? "utm" : "ups"));
    // transfer
    int zout = r.irange(0, 4) == 0 ? zone : (r.irange(0, 3) == 0 ? -3 : std::max(0, std::min(60, zone + r.irange(-1, 1))));
    run("transfer", {std::to_string(zone), b(northp), hx(r.range(xlo, xhi)), hx(r.range(ylo, yhi)), std::to_string(zout), b(r.coin())});
    // strings
    if (i % 2 == 0) {
      static const char al[] = "0123456789nsorthuiv +-NSx";
      std::string s; int len = r.irange(0, 8); for (int j = 0; j < len; ++j) s += al[r.irange(0, int(sizeof al) - 2)];
      int m = r.irange(0, 5);
      if (m == 0) s = std::to_string(r.irange(0, 70)) + r.pick(std::vector<std::string>{"n", "s", "north", "south", "N", "South", "nn", ""});
      if (m == 1) s = r.pick(std::vector<std::string>{"n", "s", "north", "south", "inv", "invalid", "0n", "00n", "01n", "001n", "+5n", " 5n", "-3s", "5 n", "60S", "61n"});
      if (m == 2 && !s.empty()) s[r.irange(0, int(s.size()) - 1)] = '\0';
      run("decodezone", {hs(s)});
      run("encodezone", {std::to_string(r.irange(-5, 62)), b(r.coin()), b(r.coin())});
      run("epsgdec", {std::to_string(r.irange(0, 3) ? r.irange(32590, 32770) : r.irange(-10, 70000))});
      run("epsgenc", {std::to_string(r.irange(-5, 62)), b(r.coin())});
    }
    gen_glue(r, i, lat, lon);
  }
  if (tier == "thorough") {
    // exhaustive: all zone strings over a small alphabet up to length 4; all EPSG in a window
    static const char al[] = "0169ns";
    for (int len = 1; len <= 4; ++len) { std::vector<int> idx(len, 0);
      while (true) { std::string s; for (int j : idx) s += al[j]; run("decodezone", {hs(s)});
        int p = len - 1; while (p >= 0 && ++idx[p] == 6) idx[p--] = 0; if (p < 0) break; } }
    for (int e = 32500; e <= 32800; ++e) run("epsgdec", {std::to_string(e)});
    for (int ilon = -180; ilon < 180; ++ilon) for (int ilat = -90; ilat <= 90; ++ilat) run("stdzone", {hx(ilat), hx(ilon + 0.5), "-1"});
  }
}
int main(int argc, char** argv) { return gv::main_(argc, argv); }
