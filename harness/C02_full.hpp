// Model correspondence for the whole of Geodesic::GenInverse / GeodesicExact::GenInverse against Model/GeodInvFull.lean
// (Corr/C02.lean, ops geninv_series / geninv_kern).
//
// geninv_series: the Lean model of the series solver (reduced latitudes, meridional / equatorial / short-line branches,
//   InverseStart, the Newton/bisection loop around the Lean Lambda12, Lengths, area, sign restoration, atan2d) runs in
//   binary64 on the same inputs; the only values handed over are those of Math::sincosd / Math::sincosde (kernels).
// geninv_kern: the same bookkeeping model runs with its numeric kernels (InverseStart, Lambda12, Lengths, area integral)
//   taken from the implementation's own private functions, evaluated at the iterates of the implementation's Newton loop
//   (made visible by running GenInverse with maxit2_ = 0, 1, 2, … on a copy of the object).  Both solvers.
//
// The head of GenInverse (AngDiff, sign flips, swap) is replicated here only to obtain the kernel arguments; the Lean side
// recomputes it with the exact binary64 model of Model/GeodInverse.lean and rejects the line if the two differ.
#pragma once
#include "geodcommon.hpp"
namespace gfull {
using namespace gd; using namespace gv;

struct Out10 { double s12, salp1, calp1, salp2, calp2, m12, M12, M21, S12, a12; };
template<class G> Out10 run10(const G& g, double lat1, double lon1, double lat2, double lon2) {
  Out10 o; o.a12 = g.GenInverse(lat1, lon1, lat2, lon2, G::ALL, o.s12, o.salp1, o.calp1, o.salp2, o.calp2, o.m12, o.M12, o.M21, o.S12); return o; }
inline bool same10(const Out10& a, const Out10& b) { return std::memcmp(&a, &b, sizeof a) == 0; }

// the head of GenInverse: canonical problem, flags, kernel values
struct Head { double la1, la2, lon12, lon12e, slam12, clam12, s1, c1, s2, c2; int lonsign, swapp, latsign; };
inline Head head(double lat1, double lon1, double lat2, double lon2) {
  Head h; double e, l12 = Math::AngDiff(lon1, lon2, e); h.lonsign = std::signbit(l12) ? -1 : 1; l12 *= h.lonsign; e *= h.lonsign;
  h.lon12 = l12; h.lon12e = e; Math::sincosde(l12, e, h.slam12, h.clam12);
  double la1 = Math::AngRound(Math::LatFix(lat1)), la2 = Math::AngRound(Math::LatFix(lat2));
  h.swapp = std::fabs(la1) < std::fabs(la2) || std::isnan(la2) ? -1 : 1;
  if (h.swapp < 0) { h.lonsign *= -1; std::swap(la1, la2); }
  h.latsign = std::signbit(la1) ? 1 : -1; la1 *= h.latsign; la2 *= h.latsign; h.la1 = la1; h.la2 = la2;
  Math::sincosd(la1, h.s1, h.c1); Math::sincosd(la2, h.s2, h.c2);
  return h;
}
// reduced latitudes (replica of lines 221-256; emitted and compared with the Lean model `reduceLat`)
struct Red { double sbet1, cbet1, sbet2, cbet2, dn1, dn2; };
template<class G> Red reduce(const G& g, const Head& h, bool exact) {
  Red r; double sbet1 = h.s1 * g._f1, cbet1 = h.c1, sbet2 = h.s2 * g._f1, cbet2 = h.c2;
  Math::norm(sbet1, cbet1); cbet1 = std::fmax(g.tiny_, cbet1); Math::norm(sbet2, cbet2); cbet2 = std::fmax(g.tiny_, cbet2);
  if (cbet1 < -sbet1) { if (cbet2 <= cbet1) { cbet2 = cbet1; sbet2 = std::copysign(sbet1, sbet2); } }
  else { if (std::fabs(sbet2) >= -sbet1) { sbet2 = std::copysign(sbet1, sbet2); cbet2 = cbet1; } }
  r.sbet1 = sbet1; r.cbet1 = cbet1; r.sbet2 = sbet2; r.cbet2 = cbet2;
  if (exact && !(g._f >= 0)) { r.dn1 = std::sqrt(1 - g._e2 * Math::sq(cbet1)) / g._f1; r.dn2 = std::sqrt(1 - g._e2 * Math::sq(cbet2)) / g._f1; }
  else { r.dn1 = std::sqrt(1 + g._ep2 * Math::sq(sbet1)); r.dn2 = std::sqrt(1 + g._ep2 * Math::sq(sbet2)); }
  return r;
}
// the answer of the implementation brought back to the canonical problem (the flags are checked in Lean)
inline Out10 uncanon(const Head& h, Out10 o) {
  if (h.swapp < 0) { std::swap(o.salp1, o.salp2); std::swap(o.calp1, o.calp2); std::swap(o.M12, o.M21); }
  o.salp1 *= h.swapp * h.lonsign; o.calp1 *= h.swapp * h.latsign; o.salp2 *= h.swapp * h.lonsign; o.calp2 *= h.swapp * h.latsign;
  return o;
}
// branch the implementation took, inferred from what it returned: 0 meridional, 1 equatorial, 2 short line, 3 Newton
template<class G> int branch_of(const G& g, const Head& h, const Red& r, const Out10& can);
template<> inline int branch_of<Geodesic>(const Geodesic& g, const Head& h, const Red& r, const Out10& can) {
  if (can.salp2 == 0 && std::fabs(can.calp2) == 1) return 0;
  if (can.salp1 == 1 && can.calp1 == 0 && can.salp2 == 1 && can.calp2 == 0 && r.sbet1 == 0) return 1;
  double salp1, calp1, salp2, calp2, dnm; double Ca[Geodesic::nC_];
  double sig12 = g.InverseStart(r.sbet1, r.cbet1, r.dn1, r.sbet2, r.cbet2, r.dn2, h.lon12 * Math::degree(), h.slam12, h.clam12, salp1, calp1, salp2, calp2, dnm, Ca);
  return sig12 >= 0 ? 2 : 3;
}
template<> inline int branch_of<GeodesicExact>(const GeodesicExact& g, const Head& h, const Red& r, const Out10& can) {
  if (can.salp2 == 0 && std::fabs(can.calp2) == 1) return 0;
  if (can.salp1 == 1 && can.calp1 == 0 && can.salp2 == 1 && can.calp2 == 0 && r.sbet1 == 0) return 1;
  double salp1, calp1, salp2, calp2, dnm; EllipticFunction E(-g._ep2);
  double sig12 = g.InverseStart(E, r.sbet1, r.cbet1, r.dn1, r.sbet2, r.cbet2, r.dn2, h.lon12 * Math::degree(), h.slam12, h.clam12, salp1, calp1, salp2, calp2, dnm);
  return sig12 >= 0 ? 2 : 3;
}
// the iterates of the implementation's Newton loop: with maxit2_ = k the loop leaves at numit = k, and (salp1, calp1) returned
// are the point of the k-th Lambda12 evaluation.  numit = the first k whose answer is the final one.
template<class G> std::vector<std::pair<double, double>> iterates(const G& g, const Head& h, const Out10& ref, double lat1, double lon1, double lat2, double lon2) {
  std::vector<std::pair<double, double>> it; G c(g);
  for (unsigned k = 0; k <= g.maxit2_; ++k) { c.maxit2_ = k; Out10 o = run10(c, lat1, lon1, lat2, lon2); Out10 u = uncanon(h, o); it.push_back({u.salp1, u.calp1}); if (same10(o, ref)) break; }
  return it;
}
inline std::string hxs(std::initializer_list<double> l) { std::string s; for (double v : l) { if (!s.empty()) s += " "; s += hx(v); } return s; }

// geninv_series a f lat1 lon1 lat2 lon2 | tiny eps0 maxit2  la1 la2 lon12 lon12e lonsign swapp latsign  slam12 clam12 s1 c1 s2 c2
//   sbet1 cbet1 sbet2 cbet2 dn1 dn2   s12 salp1 calp1 salp2 calp2 m12 M12 M21 S12 a12  azi1 azi2   branch numit
static Reg r_gis("geninv_series", [](const Args& a) {
  double ea = unhx(a[0]), f = unhx(a[1]), lat1 = unhx(a[2]), lon1 = unhx(a[3]), lat2 = unhx(a[4]), lon2 = unhx(a[5]);
  Geodesic G(ea, f); Head h = head(lat1, lon1, lat2, lon2); Red r = reduce(G, h, false);
  Out10 o = run10(G, lat1, lon1, lat2, lon2); double s12, azi1, azi2, m12, M12, M21, S12;
  double a12 = G.GenInverse(lat1, lon1, lat2, lon2, Geodesic::ALL, s12, azi1, azi2, m12, M12, M21, S12);
  if (bits(a12) != bits(o.a12) || bits(s12) != bits(o.s12) || bits(S12) != bits(o.S12) || bits(m12) != bits(o.m12))
    bad("geninverse-overloads", "the azimuth overload of GenInverse returns other values than the (salp, calp) overload");
  int br = 3, numit = -1;
  if (std::isfinite(o.a12)) { br = branch_of(G, h, r, uncanon(h, o)); if (br == 3) numit = int(iterates(G, h, o, lat1, lon1, lat2, lon2).size()) - 1; }
  emit(hxs({G.tiny_, G.tol0_}) + " " + std::to_string(G.maxit2_) + " " + hxs({h.la1, h.la2, h.lon12, h.lon12e}) + " " + std::to_string(h.lonsign) + " " + std::to_string(h.swapp) + " " + std::to_string(h.latsign)
       + " " + hxs({h.slam12, h.clam12, h.s1, h.c1, h.s2, h.c2, r.sbet1, r.cbet1, r.sbet2, r.cbet2, r.dn1, r.dn2,
                    o.s12, o.salp1, o.calp1, o.salp2, o.calp2, o.m12, o.M12, o.M21, o.S12, o.a12, azi1, azi2}) + " " + std::to_string(br) + " " + std::to_string(numit));
  // which part of GenInverse answered (coverage histogram of the evidence)
  static const char* bn[] = {"meridional", "equatorial", "short-line", "newton"};
  if (std::isfinite(o.a12)) stratum(std::string("branch-") + bn[br] + (br != 3 ? "" : numit <= 3 ? "-le3" : numit <= 19 ? "-le19" : numit < int(G.maxit2_) ? "-past-maxit1" : "-maxit2")
    + (br == 0 && (h.la1 == -90 || h.slam12 == 0) ? "" : br != 0 && (h.la1 == -90 || h.slam12 == 0) ? "-meridian-rejected" : ""));
});

// geninv_kern S a f lat1 lon1 lat2 lon2 | tiny eps0 tolb c2 maxit2 guard  <head as above>  <reduced latitudes>  <10 outputs>
//   merid: sig12 s12b m12b M12 M21 (Lengths on the meridional candidate; zeros if not a meridian)
//   start: sig12 salp1 calp1 salp2 calp2 dnm
//   n  then n rows: salp1 calp1  lam12 salp2 calp2 sig12 ssig1 csig1 ssig2 csig2 eps domg12 dlam12   s12b m12b M12 M21 (final Lengths there)
//   area (the integral part of S12 at the returned azimuths)
template<class G> struct Kern;
template<> struct Kern<Geodesic> {
  const Geodesic& g; const Head& h; const Red& r; double Ca[Geodesic::nC_];
  Kern(const Geodesic& g_, const Head& h_, const Red& r_) : g(g_), h(h_), r(r_) {}
  double guard() const { return 1; }
  std::string merid(double sig12, double ssig1, double csig1, double ssig2, double csig2) { double s12b, m12b, m0, M12, M21;
    g.Lengths(g._n, sig12, ssig1, csig1, r.dn1, ssig2, csig2, r.dn2, r.cbet1, r.cbet2, Geodesic::ALL | Geodesic::DISTANCE | Geodesic::REDUCEDLENGTH, s12b, m12b, m0, M12, M21, Ca);
    return hxs({sig12, s12b, m12b, M12, M21}); }
  std::string start() { double salp1 = 0, calp1 = 0, salp2 = 0, calp2 = 0, dnm = 0;
    double sig12 = g.InverseStart(r.sbet1, r.cbet1, r.dn1, r.sbet2, r.cbet2, r.dn2, h.lon12 * Math::degree(), h.slam12, h.clam12, salp1, calp1, salp2, calp2, dnm, Ca);
    return hxs({sig12, salp1, calp1, salp2, calp2, dnm}); }
  std::string row(double salp1, double calp1, bool diffp) {
    double salp2, calp2, sig12, ssig1, csig1, ssig2, csig2, eps, domg12, dlam12 = 0;
    double lam12 = g.Lambda12(r.sbet1, r.cbet1, r.dn1, r.sbet2, r.cbet2, r.dn2, salp1, calp1, h.slam12, h.clam12, salp2, calp2, sig12, ssig1, csig1, ssig2, csig2, eps, domg12, diffp, dlam12, Ca);
    double s12b, m12b, m0, M12, M21;
    g.Lengths(eps, sig12, ssig1, csig1, r.dn1, ssig2, csig2, r.dn2, r.cbet1, r.cbet2, Geodesic::ALL, s12b, m12b, m0, M12, M21, Ca);
    return hxs({salp1, calp1, lam12, salp2, calp2, sig12, ssig1, csig1, ssig2, csig2, eps, domg12, dlam12, s12b, m12b, M12, M21}); }
  double area(double salp1, double calp1, double calp2) {
    double salp0 = salp1 * r.cbet1, calp0 = std::hypot(calp1, salp1 * r.sbet1);
    if (calp0 != 0 && salp0 != 0) {
      double ssig1 = r.sbet1, csig1 = calp1 * r.cbet1, ssig2 = r.sbet2, csig2 = calp2 * r.cbet2, k2 = Math::sq(calp0) * g._ep2, eps = k2 / (2 * (1 + std::sqrt(1 + k2)) + k2),
        A4 = Math::sq(g._a) * calp0 * salp0 * g._e2;
      Math::norm(ssig1, csig1); Math::norm(ssig2, csig2); g.C4f(eps, Ca);
      return A4 * (Geodesic::SinCosSeries(false, ssig2, csig2, Ca, Geodesic::nC4_) - Geodesic::SinCosSeries(false, ssig1, csig1, Ca, Geodesic::nC4_)); }
    return 0; }
};
template<> struct Kern<GeodesicExact> {
  const GeodesicExact& g; const Head& h; const Red& r; EllipticFunction E;
  Kern(const GeodesicExact& g_, const Head& h_, const Red& r_) : g(g_), h(h_), r(r_), E(-g_._ep2) {}
  double guard() const { return 8; }
  std::string merid(double sig12, double ssig1, double csig1, double ssig2, double csig2) { double s12b, m12b, m0, M12, M21; EllipticFunction E0(-g._ep2);
    g.Lengths(E0, sig12, ssig1, csig1, r.dn1, ssig2, csig2, r.dn2, r.cbet1, r.cbet2, GeodesicExact::ALL | GeodesicExact::REDUCEDLENGTH, s12b, m12b, m0, M12, M21);
    return hxs({sig12, s12b, m12b, M12, M21}); }
  std::string start() { double salp1 = 0, calp1 = 0, salp2 = 0, calp2 = 0, dnm = 0; EllipticFunction E0(-g._ep2);
    double sig12 = g.InverseStart(E0, r.sbet1, r.cbet1, r.dn1, r.sbet2, r.cbet2, r.dn2, h.lon12 * Math::degree(), h.slam12, h.clam12, salp1, calp1, salp2, calp2, dnm);
    return hxs({sig12, salp1, calp1, salp2, calp2, dnm}); }
  std::string row(double salp1, double calp1, bool diffp) {
    double salp2, calp2, sig12, ssig1, csig1, ssig2, csig2, domg12, dlam12 = 0;
    double lam12 = g.Lambda12(r.sbet1, r.cbet1, r.dn1, r.sbet2, r.cbet2, r.dn2, salp1, calp1, h.slam12, h.clam12, salp2, calp2, sig12, ssig1, csig1, ssig2, csig2, E, domg12, diffp, dlam12);
    double s12b, m12b, m0, M12, M21;
    g.Lengths(E, sig12, ssig1, csig1, r.dn1, ssig2, csig2, r.dn2, r.cbet1, r.cbet2, GeodesicExact::ALL, s12b, m12b, m0, M12, M21);
    return hxs({salp1, calp1, lam12, salp2, calp2, sig12, ssig1, csig1, ssig2, csig2, 0.0, domg12, dlam12, s12b, m12b, M12, M21}); }
  double area(double salp1, double calp1, double calp2) {
    double salp0 = salp1 * r.cbet1, calp0 = std::hypot(calp1, salp1 * r.sbet1), A4 = Math::sq(g._a) * calp0 * salp0 * g._e2;
    if (A4 != 0) {
      double k2 = Math::sq(calp0) * g._ep2, ssig1 = r.sbet1, csig1 = calp1 * r.cbet1, ssig2 = r.sbet2, csig2 = calp2 * r.cbet2;
      Math::norm(ssig1, csig1); Math::norm(ssig2, csig2);
      GeodesicExact::I4Integrand i4(g._ep2, k2); std::vector<double> C4a(g._nC4); g._fft.transform(i4, C4a.data());
      return A4 * DST::integral(ssig1, csig1, ssig2, csig2, C4a.data(), g._nC4); }
    return 0; }
};

template<class G> void kern_op(const G& g, bool exact, double lat1, double lon1, double lat2, double lon2) {
  Head h = head(lat1, lon1, lat2, lon2); Red r = reduce(g, h, exact); Kern<G> K(g, h, r);
  Out10 o = run10(g, lat1, lon1, lat2, lon2);
  std::string s = hxs({g.tiny_, g.tol0_, g.tolb_, g._c2}) + " " + std::to_string(g.maxit2_) + " " + hxs({K.guard()}) + " " + hxs({h.la1, h.la2, h.lon12, h.lon12e}) + " " + std::to_string(h.lonsign) + " " + std::to_string(h.swapp) + " " + std::to_string(h.latsign)
    + " " + hxs({h.slam12, h.clam12, h.s1, h.c1, h.s2, h.c2, r.sbet1, r.cbet1, r.sbet2, r.cbet2, r.dn1, r.dn2, o.s12, o.salp1, o.calp1, o.salp2, o.calp2, o.m12, o.M12, o.M21, o.S12, o.a12});
  // the meridional candidate (only arithmetic that the model repeats and checks: the arguments of Lengths)
  bool meridian = h.la1 == -90 || h.slam12 == 0;
  if (meridian) { double csig1 = h.clam12 * r.cbet1, csig2 = 1 * r.cbet2, sig12 = std::atan2(std::fmax(0.0, csig1 * r.sbet2 - r.sbet1 * csig2) + 0.0, csig1 * csig2 + r.sbet1 * r.sbet2);
    s += " " + K.merid(sig12, r.sbet1, csig1, r.sbet2, csig2); }
  else s += " " + hxs({0, 0, 0, 0, 0});
  s += " " + K.start();
  std::vector<std::pair<double, double>> it;
  if (std::isfinite(o.a12) && branch_of(g, h, r, uncanon(h, o)) == 3) it = iterates(g, h, o, lat1, lon1, lat2, lon2);
  s += " " + std::to_string(it.size());
  for (size_t k = 0; k < it.size(); ++k) s += " " + K.row(it[k].first, it[k].second, k < g.maxit1_);
  { Out10 u = uncanon(h, o); s += " " + hx(std::isfinite(o.a12) ? K.area(u.salp1, u.calp1, u.calp2) : 0.0); }
  emit(s);
}
static Reg r_gik("geninv_kern", [](const Args& a) {
  double ea = unhx(a[1]), f = unhx(a[2]), lat1 = unhx(a[3]), lon1 = unhx(a[4]), lat2 = unhx(a[5]), lon2 = unhx(a[6]);
  if (a[0] == "G") kern_op(Geodesic(ea, f), false, lat1, lon1, lat2, lon2); else kern_op(GeodesicExact(ea, f), true, lat1, lon1, lat2, lon2);
});
} // namespace gfull
