// C05: MGRS
#include "common.hpp"
#include <GeographicLib/MGRS.hpp>
#include <GeographicLib/UTMUPS.hpp>
#include <GeographicLib/Math.hpp>
#include "C04_doc.hpp"
using namespace GeographicLib; using namespace gv;
#define bad doc::bad_

static std::string b(bool x) { return x ? "1" : "0"; }
static const double SENT = 7.25e77;

static Reg r_utmrow("utmrow", [](const Args& a) {
  emit(std::to_string(MGRS::UTMRow(std::atoi(a[0].c_str()), std::atoi(a[1].c_str()), std::atoi(a[2].c_str()))));
});
static Reg r_check("mgrs_check", [](const Args& a) {
  bool utmp = a[0] == "1", northp = a[1] == "1"; double x = unhx(a[2]), y = unhx(a[3]);
  std::string e = guarded([&] { MGRS::CheckCoords(utmp, northp, x, y); });
  emit(e.empty() ? b(northp) + " " + hx(x) + " " + hx(y) : e);
  if (!e.empty() && e != "!E") bad("foreign-exception", e);
});

static int band_of_lat(double lat) { int il = int(std::floor(lat)); return std::max(-10, std::min(9, (il + 80) / 8 - 10)); }

// split an MGRS string into (head letters, easting digits, northing digits)
static bool split(const std::string& s, std::string& head, std::string& e, std::string& n) {
  size_t p = 0; while (p < s.size() && std::isdigit((unsigned char)s[p])) ++p;
  size_t q = p; while (q < s.size() && std::isalpha((unsigned char)s[q])) ++q;
  head = s.substr(0, q); size_t nd = s.size() - q; if (nd % 2) return false; e = s.substr(q, nd / 2); n = s.substr(q + nd / 2); return true;
}

#include "C05_glue.hpp"

static void fwd_properties(int zone, bool northp, double x, double y, int prec, const std::string& s) {
  // (a) accepted back; same zone / hemisphere (after folding) / precision; centre of the same square; re-encode
  int z2 = -77, p2 = -77; bool n2; double xc, yc, xs, ys;
  std::string e = guarded([&] { MGRS::Reverse(s, z2, n2, xc, yc, p2, true); MGRS::Reverse(s, z2, n2, xs, ys, p2, false); });
  if (!e.empty()) { bad("forward-then-reverse", "MGRS::Reverse rejects Forward's output " + s); return; }
  if (z2 != zone || p2 != prec) bad("forward-then-reverse", "zone/precision not preserved by " + s);
  if (prec >= 0) {
    // fold the input like CheckCoords does
    bool nf = northp; double yf = y;
    if (zone > 0) { if (northp && y < 0) { nf = false; yf = y + 1e7; } else if (!northp && y > 1e7) { nf = true; yf = y - 1e7; } }
    if (n2 != nf && !(zone > 0 && (std::fabs(y - 1e7) < 4e-9 || std::fabs(y) < 4e-9))) bad("forward-then-reverse", "hemisphere not preserved by " + s);
    double side = std::pow(10.0, 5 - prec);
    double tol = 4e-9;   // the scaling x*1e6 rounds once (sub-micrometre squares): decided exactly in Lean; here 4 nm
    if (n2 == nf && !(x >= xs - tol && x <= xs + side + tol && yf >= ys - tol && yf <= ys + side + tol)) bad("square-contains-point", "decoded square of " + s + " does not contain the point");
    if (!(std::fabs((xc - xs) - side / 2) <= 4 * ulp(xc) && std::fabs((yc - ys) - side / 2) <= 4 * ulp(yc))) bad("centre-vs-corner", "centre is not the SW corner plus half a square for " + s);
    std::string s3; std::string e3 = guarded([&] { MGRS::Forward(z2, n2, xc, yc, prec, s3); });
    if (!e3.empty()) bad("reencode-centre", "Forward throws on the centre of " + s);
    else {
      std::string h1, e1, n1, h3, e3s, n3; split(s, h1, e1, n1); split(s3, h3, e3s, n3);
      // everything but the band letter must be reproduced
      size_t bl = zone > 0 ? 2 : 0;
      bool same = e1 == e3s && n1 == n3 && h1.size() == h3.size() && h1.substr(0, bl) == h3.substr(0, bl) && h1.substr(bl + 1) == h3.substr(bl + 1);
      if (!same) bad("reencode-centre", "centre of " + s + " re-encodes to " + s3);
      if (zone > 0 && same && h1[bl] != h3[bl]) {
        // allowed only if the square straddles a band edge: the two letters must be adjacent bands
        const char* lb = "CDEFGHJKLMNPQRSTUVWX"; const char* p1 = std::strchr(lb, h1[bl]); const char* p3 = std::strchr(lb, h3[bl]);
        if (!p1 || !p3 || std::abs(int(p1 - lb) - int(p3 - lb)) != 1) bad("reencode-centre", "band letter changed to a non-adjacent band: " + s + " -> " + s3);
      }
    }
  }
  // (b) prefix law
  if (prec >= 0 && prec < 11) {
    std::string s2; if (guarded([&] { MGRS::Forward(zone, northp, x, y, prec + 1, s2); }).empty()) {
      std::string h1, e1, n1, h2, e2, n2s; split(s, h1, e1, n1); split(s2, h2, e2, n2s);
      if (h1 != h2 || e2.compare(0, e1.size(), e1) != 0 || n2s.compare(0, n1.size(), n1) != 0) bad("prefix-law", s + " is not a prefix (per component) of " + s2);
    }
  }
  // (c) band letter is that of the point's latitude (a neighbour only within 5 nm of a band edge)
  if (zone > 0) {
    double lat, lon; if (guarded([&] { UTMUPS::Reverse(zone, northp, x, y, lat, lon, true); }).empty()) {
      const char* lb = "CDEFGHJKLMNPQRSTUVWX"; char got = s[2]; int ib = band_of_lat(lat);
      if (got != lb[ib + 10]) {
        double edge = std::round(lat / 8) * 8; double dist_m = std::fabs(lat - edge) * 111e3;
        const char* pg = std::strchr(lb, got);
        if (!(pg && std::abs(int(pg - lb) - (ib + 10)) == 1 && dist_m < 20e-9 + 2e-9)) bad("band-letter", "band letter " + std::string(1, got) + " but latitude " + std::to_string(lat));
      }
    }
  }
}

static Reg r_fwd("mgrs_fwd", [](const Args& a) {
  int zone = std::atoi(a[0].c_str()); bool northp = a[1] == "1"; double x = unhx(a[2]), y = unhx(a[3]); int prec = std::atoi(a[4].c_str());
  // kernel: the latitude UTMUPS::Reverse gives (used by the implementation only when its cheap bounds straddle a band edge)
  double lat = NAN, lon; bool np2 = northp; double x2 = x, y2 = y;
  std::string ek = zone > 0 ? guarded([&] { UTMUPS::Reverse(zone, northp, x, y, lat, lon); }) : std::string("");
  (void)np2; (void)x2; (void)y2;
  current_op() = "mgrs_fwd " + a[0] + " " + a[1] + " " + a[2] + " " + a[3] + " " + a[4] + " " + (ek.empty() ? hx(lat) : std::string("E"));
  std::string s = "~untouched~";
  std::string e = guarded([&] { MGRS::Forward(zone, northp, x, y, prec, s); });
  // MGRS.hpp: UTM northings may be continued across the equator; the same point labelled with the other hemisphere
  // (northing shifted by the false northing 10^7 m, the addition the implementation itself performs) converts identically
  if (zone >= 1 && zone <= 60 && std::isfinite(x) && std::isfinite(y) && ((northp && y < 0) || (!northp && y > 1e7))) {   // a southern y of exactly 10^7 m keeps its label (documented: on the equator retain S)
    double y2 = northp ? y + 1e7 : y - 1e7;
    // (since fix d94b3ac also when y + 10^7 rounds to 10^7; not when y / 10^5 underflows to zero: then the point is taken to be on the equator, band N)
    if (northp ? std::floor(y / 1e5) != 0 : (y2 >= 0)) {
      std::string s2 = "~untouched~"; std::string e2 = guarded([&] { MGRS::Forward(zone, !northp, x, y2, prec, s2); });
      if (e.empty() != e2.empty() || (e.empty() && s != s2))
        bad("equivalent-labelling", std::string("MGRS::Forward with hemisphere label ") + (northp ? "N" : "S") + " gives " + (e.empty() ? s : "an exception") + " but the same point labelled " + (northp ? "S" : "N") + " gives " + (e2.empty() ? s2 : "an exception"));
    }
  }
  // MGRS.hpp: the documented ranges (UTM eastings [100, 900] km, northings [-9000, 9500] km "north" / [1000, 19500] km "south"; UPS [1300, 2700] km north,
  // [800, 3200] km south), zones 0..60 and precisions -1..11 are exactly what is accepted
  if (zone != -4 && std::isfinite(x) && std::isfinite(y)) {
    bool legal = zone >= 0 && zone <= 60 && prec >= -1 && prec <= 11;
    doc::Rect R = doc::range(zone != 0, northp, true);
    // a "northern" northing so close below 0 that adding 10^7 m gives exactly 10^7
    std::string cls = (zone > 0 && northp && y < 0 && y + doc::SHIFT == doc::SHIFT) ? " [class:tiny-negative-northing]" : "";
    if (legal && doc::strictly_inside(R, x, y) && !e.empty()) bad("documented-range", "MGRS::Forward throws for coordinates strictly inside the documented range" + cls);
    if ((!legal || doc::strictly_outside(R, x, y)) && e.empty()) bad("documented-range", "MGRS::Forward accepts a zone / precision / coordinates outside the documented range");
  }
  if (!e.empty()) { emit(e); if (e != "!E") bad("foreign-exception", e); if (s != "~untouched~") bad("output-modified-on-throw", "MGRS::Forward"); 
    // no exception for coordinates strictly inside the documented ranges
    if (zone >= 1 && zone <= 60 && prec >= -1 && prec <= 11 && x > 1e5 && x < 9e5 && y > (northp ? 0 : 1e6 + 1) && y < (northp ? 95e5 : 1e7 - 1)) {
      double la, lo; if (guarded([&] { UTMUPS::Reverse(zone, northp, x, y, la, lo, true); }).empty()) bad("forward-throws-inside-range", "MGRS::Forward threw for coordinates inside the MGRS ranges"); }
    return; }
  emit(hs(s));
  if (s == "INVALID") { if (!(zone == -4 || std::isnan(x) || std::isnan(y))) bad("documented-invalid", "MGRS::Forward returns INVALID for a valid coordinate"); return; }
  if (zone == -4 || std::isnan(x) || std::isnan(y)) bad("documented-invalid", "MGRS::Forward of an invalid zone / NaN coordinate is not INVALID");
  {
    // zone digits, band / column / row letters by the arithmetic of the MGRS lettering scheme and digits by truncation (no table of the library)
    std::string why = mg::check_string(zone, northp, x, y, ek.empty() && zone > 0 && std::fabs(x - 5e5) <= 4e5 ? lat : NAN, prec, s);
    if (!why.empty()) bad("documented-lettering", "MGRS::Forward(" + std::to_string(zone) + ", " + b(northp) + ", x, y, " + std::to_string(prec) + ") = " + s + ": " + why);
    // prec = -1: "only the grid zone is returned", the beginning of every longer string
    std::string s0; if (prec >= 0 && guarded([&] { MGRS::Forward(zone, northp, x, y, -1, s0); }).empty() && s.compare(0, s0.size(), s0) != 0) bad("precision-semantics", "the grid zone " + s0 + " is not the beginning of " + s);
  }
  fwd_properties(zone, northp, x, y, prec, s);
});
static Reg r_fwdlat("mgrs_fwdlat", [](const Args& a) {
  int zone = std::atoi(a[0].c_str()); bool northp = a[1] == "1"; double x = unhx(a[2]), y = unhx(a[3]), lat = unhx(a[4]); int prec = std::atoi(a[5].c_str());
  std::string s = "~untouched~";
  std::string e = guarded([&] { MGRS::Forward(zone, northp, x, y, lat, prec, s); });
  if (!e.empty()) { emit(e); if (e != "!E") bad("foreign-exception", e); if (s != "~untouched~") bad("output-modified-on-throw", "MGRS::Forward"); return; }
  emit(hs(s));
});
static Reg r_rev("mgrs_rev", [](const Args& a) {
  std::string s = unhs(a[0]); bool cp = a[1] == "1";
  int zone = -77, prec = -77; bool northp = true; double x = SENT, y = SENT;
  std::string e = guarded([&] { MGRS::Reverse(s, zone, northp, x, y, prec, cp); });
  if (!e.empty()) { emit(e); if (e != "!E") bad("foreign-exception", e); if (zone != -77 || prec != -77 || x != SENT || y != SENT) bad("output-modified-on-throw", "MGRS::Reverse"); return; }
  emit(std::to_string(zone) + " " + b(northp) + " " + hx(x) + " " + hx(y) + " " + std::to_string(prec));
  if (s.size() >= 3 && std::toupper((unsigned char)s[0]) == 'I' && std::toupper((unsigned char)s[1]) == 'N' && std::toupper((unsigned char)s[2]) == 'V') {
    if (!(zone == -4 && std::isnan(x) && std::isnan(y) && prec == -2)) bad("documented-invalid", "MGRS::Reverse of INV... is not (INVALID, NaN, NaN, -2)");
  } else if (zone == -4 || prec == -2) bad("documented-invalid", "MGRS::Reverse returns INVALID for " + hs(s));
  if (prec >= 0) {
    // the south-west corner of the decoded square carries the letters of the string (lettering arithmetic of the standard, no table of the library)
    int z2, p2; bool n2; double xs, ys;
    if (guarded([&] { MGRS::Reverse(s, z2, n2, xs, ys, p2, false); }).empty()) {
      std::string up = s; for (auto& c : up) c = char(std::toupper((unsigned char)c));
      if (zone > 0 && !std::isdigit((unsigned char)up[1])) up = "0" + up;
      // the band letter is the string's own (any band the block touches is accepted): compare everything else
      std::string why = mg::check_string(zone, n2, xs, ys, NAN, p2, up);
      if (!why.empty()) bad("documented-lettering", "MGRS::Reverse(" + hs(s) + ") = (" + std::to_string(zone) + ", " + b(n2) + ", " + std::to_string(xs) + ", " + std::to_string(ys) + "): " + why);
    }
  }
  if (prec == -1) {
    // grid-zone-only string: the returned point lies inside that grid zone
    double lat, lon; std::string e2 = guarded([&] { UTMUPS::Reverse(zone, northp, x, y, lat, lon, true); });
    if (!e2.empty()) { bad("gridzone-point", "point returned for " + s + " is not a legal MGRS coordinate"); return; }
    std::string s2; guarded([&] { MGRS::Forward(zone, northp, x, y, lat, -1, s2); });
    std::string up = s; for (auto& c : up) c = char(std::toupper((unsigned char)c));
    if (up.size() == 2 && zone > 0) up = "0" + up;
    if (s2 != up) bad("gridzone-point", "point returned for " + s + " lies in grid zone " + s2);
    bool nonstd = s2.size() == 3 && s2[2] == 'X' && (zone == 32 || zone == 34 || zone == 36);   // zones removed by the Svalbard exception
    if (zone > 0 && UTMUPS::StandardZone(lat, lon) != zone && !(nonstd && std::fabs(Math::AngDiff(6 * zone - 183.0, lon)) <= 3)) bad("gridzone-point", "point returned for " + s + " is in standard zone " + std::to_string(UTMUPS::StandardZone(lat, lon)));
  }
  if (prec >= 0) {
    // an accepted full string re-encodes to itself (upper-cased) apart from the band letter
    double xc, yc; int z2, p2; bool n2; MGRS::Reverse(s, z2, n2, xc, yc, p2, true);
    std::string s3; std::string e3 = guarded([&] { MGRS::Forward(z2, n2, xc, yc, p2, s3); });
    std::string up = s; for (auto& c : up) c = char(std::toupper((unsigned char)c));
    if (zone > 0 && std::isdigit((unsigned char)up[0]) && !std::isdigit((unsigned char)up[1])) up = "0" + up;
    size_t bl = zone > 0 ? 2 : 0;
    if (!e3.empty() || s3.size() != up.size() || s3.substr(0, bl) != up.substr(0, bl) || s3.substr(bl + 1) != up.substr(bl + 1))
      bad("accepted-string-is-not-a-code", "decoder accepted " + hs(s) + " whose centre encodes as " + s3);
  }
});

// geography of block/band acceptance: sample the block through UTMUPS::Reverse
static Reg r_block("mgrs_block", [](const Args& a) {
  int zone = std::atoi(a[0].c_str()); int ib = std::atoi(a[1].c_str()); int icol = std::atoi(a[2].c_str()); int irowl = std::atoi(a[3].c_str());
  static const char* lb = "CDEFGHJKLMNPQRSTUVWX"; static const char* cols[3] = {"ABCDEFGH", "JKLMNPQR", "STUVWXYZ"}; static const char* rows = "ABCDEFGHJKLMNPQRSTUV";
  std::string s; s += char('0' + zone / 10); s += char('0' + zone % 10); s += lb[ib]; s += cols[(zone - 1) % 3][icol]; s += rows[irowl];
  int z; bool np; double x, y; int p;
  std::string e = guarded([&] { MGRS::Reverse(s, z, np, x, y, p, false); });
  emit(e.empty() ? std::string("1") : std::string("0"));
  // which true rows are congruent to this letter?
  int r0 = (irowl - ((zone - 1) & 1 ? 5 : 0) + 20) % 20;
  bool some_part = false; int found_row = 1000;
  for (int row = -90 + ((r0 + 90) % 20 + 20) % 20 - 20; row < 95; row += 20) {
    if (row < -90) continue;
    bool north = ib >= 10; if (north != (row >= 0)) continue;
    double y0 = row * 1e5 + (north ? 0 : 1e7), x0 = (icol + 1) * 1e5;
    bool hit = false;
    for (int i = 0; i <= 40 && !hit; ++i) for (int j = 0; j <= 40 && !hit; ++j) {
      double xx = x0 + 1e5 * i / 40.0, yy = y0 + 1e5 * j / 40.0; if (i == 40) xx = nextdn(xx); if (j == 40) yy = nextdn(yy);
      double lat, lon; if (!guarded([&] { UTMUPS::Reverse(zone, north, xx, yy, lat, lon, true); }).empty()) continue;
      int bd = band_of_lat(lat);
      // bands C and X extend to the UTM northing limits
      if (bd + 10 == ib) hit = true;
    }
    if (hit) { some_part = true; found_row = row; }
  }
  if (some_part != e.empty()) bad("block-band-geography", "block " + s + (e.empty() ? " accepted but no part of it lies in the band" : " rejected although part of it lies in the band (row " + std::to_string(found_row) + ")"));
});

void gv::generate(const std::string& tier, uint64_t seed) {
  Rng r(seed * 15485863 + 5);
  long n = tier == "thorough" ? 150000 : 10000;
  std::vector<std::string> pool;
  for (long i = 0; i < n; ++i) {
    int zone = r.irange(0, 9) == 0 ? 0 : r.irange(1, 60); if (i % 101 == 0) zone = r.pick(std::vector<int>{-4, -1, 61, 0});
    bool northp = r.coin(); bool utmp = zone > 0;
    double xlo = utmp ? 1e5 : (northp ? 13e5 : 8e5), xhi = utmp ? 9e5 : (northp ? 27e5 : 32e5);
    double ylo = utmp ? (northp ? -90e5 : 10e5) : xlo, yhi = utmp ? (northp ? 95e5 : 195e5) : xhi;
    auto coord = [&](double lo, double hi) {
      int k = r.irange(0, 9); double v;
      switch (k) {
      case 0: v = lo + 1e5 * r.irange(0, int((hi - lo) / 1e5)); break;                 // tile edge
      case 1: v = nextdn(lo + 1e5 * r.irange(0, int((hi - lo) / 1e5)), r.irange(1, 2)); break;
      case 2: v = nextup(lo + 1e5 * r.irange(0, int((hi - lo) / 1e5)), r.irange(1, 2)); break;
      case 3: v = r.pick(std::vector<double>{lo, hi, nextdn(hi), nextup(hi), nextdn(lo), 1e7, 0.0, nextdn(1e7), nextup(1e7), -1e-9, -1e-10, -9.4e-10, -1e-300, -5e-324, -1e-323, 1e-300}); break;
      case 4: { int p = r.irange(0, 11); double sc = std::pow(10.0, 5 - p); v = std::floor(r.range(lo, hi) / sc) * sc; int d = r.irange(-2, 2); v = d > 0 ? nextup(v, d) : nextdn(v, -d); break; } // square edges ±ulp
      default: v = r.range(lo, hi); }
      return v; };
    double x = coord(xlo, xhi), y = coord(ylo, yhi);
    if (i % 199 == 0) x = NAN; if (i % 211 == 0) y = r.pick(std::vector<double>{NAN, INFINITY, -1e300});
    int prec = r.irange(0, 12) == 0 ? r.irange(-2, 12) : r.irange(-1, 11);
    run("mgrs_fwd", {std::to_string(zone), b(northp), hx(x), hx(y), std::to_string(prec)});
    stratum(std::string("fwd-") + (utmp ? "utm" : "ups"));
    if (i < 5) sample(current_op());
    std::string s; if (guarded([&] { MGRS::Forward(zone, northp, x, y, prec, s); }).empty()) pool.push_back(s);
    // explicit-latitude overload: consistent and inconsistent latitudes, tiny latitudes, non-finite
    if (i % 3 == 0) {
      double lat = NAN, lon; guarded([&] { UTMUPS::Reverse(zone, northp, x, y, lat, lon); });
      int k = r.irange(0, 7);
      if (k == 0) lat += 8 * r.irange(-2, 2); if (k == 1) lat = r.pick(std::vector<double>{0.0, -0.0, 1e-15, -1e-15, 1e-13, -1e-13, 90, -90}); if (k == 2) lat = -lat;
      if (k == 3 && i % 7 == 0) lat = r.pick(std::vector<double>{NAN, 91.0, -100.0, 1e9});
      run("mgrs_fwdlat", {std::to_string(zone), b(northp), hx(x), hx(y), hx(lat), std::to_string(prec)});
    }
    if (i % 4 == 0 && std::isfinite(x) && std::isfinite(y)) run("mgrs_check", {b(utmp), b(northp), hx(x), hx(y)});
    if (i % 8 == 0) run("utmrow", {std::to_string(r.irange(-10, 9)), std::to_string(r.irange(0, 7)), std::to_string(r.irange(0, 19))});
    // decoder inputs
    std::string t; int m = r.irange(0, 11);
    static const char al[] = "0123456789ABCDEFGHJKLMNPQRSTUVWXYZIOabcxyz ";
    if (!pool.empty() && m < 8) {
      t = r.pick(pool);
      if (m == 1) for (auto& c : t) c = char(std::tolower((unsigned char)c));
      if (m == 2 && !t.empty()) t[r.irange(0, int(t.size()) - 1)] = r.pick(std::vector<char>{'I', 'O', 'A', 'Z', '9', '0', ' ', '\0', '-', ':', 'a', char(0xc9)});
      if (m == 3 && !t.empty()) t.erase(r.irange(0, int(t.size()) - 1), 1);
      if (m == 4) t.insert(r.irange(0, int(t.size())), 1, al[r.irange(0, int(sizeof al) - 2)]);
      if (m == 5 && t.size() > 2) t = t.substr(0, r.irange(1, 5));                        // grid zone only / truncated
      if (m == 6 && t.size() >= 5) { size_t k = t.size() > 4 && std::isdigit((unsigned char)t[1]) ? 2 : (std::isdigit((unsigned char)t[0]) ? 1 : 0); if (k < t.size()) t[k] = "CDEFGHJKLMNPQRSTUVWXABYZ"[r.irange(0, 23)]; } // other band letter
      if (m == 7) t = std::to_string(r.irange(0, 99)) + t;
    } else if (m < 10) {
      int len = r.irange(0, 28); for (int j = 0; j < len; ++j) t += al[r.irange(0, int(sizeof al) - 2)];
    } else {
      t = r.pick(std::vector<std::string>{"INVALID", "invalid", "INV", "inv12", "", "0", "61C", "00C", "1C", "01C", "001C", "60X", "A", "B", "Y", "Z", "31V", "32V", "31X", "33X", "37X", "32X", "1234567890123S", "12345678901234567890S", "38SMB12345678901234567890123"});
    }
    run("mgrs_rev", {hs(t), b(r.coin())});
    stratum(std::string("dec-") + (m < 2 ? "valid" : m < 8 ? "mutated" : m < 10 ? "random" : "special"));
    // the public splitter on the same text, and on texts of the documented shape with arbitrary letters / lower case / I and O
    if (i % 2 == 0) run("mgrs_decode", {hs(t)});
    else {
      static const char letters[] = "ABCDEFGHJKLMNPQRSTUVWXYZabcdefghjklmnpqrstuvwxyzIOio"; std::string u;
      int nd = r.irange(0, 3); for (int j = 0; j < nd; ++j) u += char('0' + r.irange(0, 9));
      int nl = r.pick(std::vector<int>{1, 3, 3, 3, 2, 4, 0}); for (int j = 0; j < nl; ++j) u += letters[r.irange(0, r.irange(0, 9) ? 47 : 51)];
      int ng = r.pick(std::vector<int>{0, 0, 2, 4, 10, 22, 24, 1, 3}); for (int j = 0; j < ng; ++j) u += char('0' + r.irange(0, 9));
      int mm = r.irange(0, 9);
      if (mm == 0 && !u.empty()) u[r.irange(0, int(u.size()) - 1)] = r.pick(std::vector<char>{' ', '\0', '-', '.', char(0xe9), 'I', 'O'});
      if (mm == 1) u = r.pick(std::vector<std::string>{"INV", "inv", "INVALID", "Invx1", "IN", "38SMB4488", "38smb4488", "A", "ZAH", "38S", "1C", "001C", "38SMB448", "38SM", "38SMB 4488"});
      run("mgrs_decode", {hs(u)});
    }
    // GeoCoords::MGRSRepresentation / AltMGRSRepresentation
    if (i % 3 == 1) {
      int k = r.irange(0, 9); bool gk = r.coin();
      if (gk) {
        double la = r.irange(0, 3) == 0 ? r.pick(std::vector<double>{0.0, -0.0, 8, -8, 72, 84, -80, 83.999999, 90, -90, 56, 64}) : r.range(-90, 90), lo = r.irange(0, 3) == 0 ? 6.0 * r.irange(-30, 30) : r.range(-180, 180);
        int z0 = -1; try { z0 = UTMUPS::StandardZone(la, lo); } catch (...) {}
        int altz = k == 0 ? -3 : k == 1 ? -1 : k == 2 ? -2 : (z0 > 0 ? std::max(1, std::min(60, z0 + r.irange(-1, 1))) : r.irange(0, 60));
        run("gc_mgrs", {"0", hx(la), hx(lo), std::to_string(r.coin() ? -1 : (z0 > 0 ? std::max(1, std::min(60, z0 + r.irange(-1, 1))) : -1)), hx(0), std::to_string(altz), std::to_string(r.irange(-8, 8))});
      } else {
        double yy = y; int e = r.irange(0, 9);
        if (utmp && e == 0) yy = northp ? 0 : 1e7;
        int altz = k == 0 ? -3 : k == 1 ? -1 : k == 2 ? -2 : (utmp ? std::max(1, std::min(60, zone + r.irange(-1, 1))) : r.irange(0, 60));
        run("gc_mgrs", {"1", std::to_string(zone), b(northp), hx(x), hx(yy), std::to_string(altz), std::to_string(r.irange(-8, 8))});
      }
      stratum(gk ? "geocoords-mgrs-latlon" : "geocoords-mgrs-utmups");
    }
    // GeoConvert -m
    if (i % 6 == 2) {
      int nl = r.irange(1, 4); std::string in, first;
      for (int j = 0; j < nl; ++j) { std::string rec = glue_record(r); if (j == 0) first = rec; in += rec + "\n"; }
      std::string opt = "-m";
      switch (r.irange(0, 7)) {
      case 0: break; case 1: opt += " -s"; break; case 2: opt += " -t"; break; case 3: opt += " -S"; break; case 4: opt += " -T"; break;
      default: opt += " -z " + glue_zone_request(r, first); }
      if (r.irange(0, 3)) opt += " -p " + std::to_string(r.irange(-7, 7));
      if (r.irange(0, 3) == 0) opt += " -n";
      run("gconv_m", {hs(opt), hs(in)});
      stratum("geoconvert-m" + std::string(opt.find("-z") != std::string::npos ? "-z" : opt.find("-s") != std::string::npos || opt.find("-S") != std::string::npos ? "-s" : opt.find("-t") != std::string::npos || opt.find("-T") != std::string::npos ? "-t" : ""));
    }
  }
  run("mgrs_selftest", {});
  // coverage: the corners and edges of every standard zone (incl. the Norway / Svalbard zones and the UPS caps), both sides
  for (int il = -180; il < 180; il += 3) for (double la : {-90.0, -80.0, -79.999999, -72.0, -0.0, 0.0, 8.0, 56.0, 63.999999, 64.0, 71.999999, 72.0, 83.999999, 84.0, 90.0}) {
    if ((il + 180) % 6 == 3 && !(il == 3 || il == 9 || il == 21 || il == 33)) continue;     // interior meridians only where an exception moves an edge
    for (double lo : {double(il), nextdn(double(il))}) run("mgrs_cover", {hx(la), hx(lo)});
  }
  { Rng rc(seed * 7919 + 55); for (int j = 0; j < 600; ++j) run("mgrs_cover", {hx(rc.range(-90, 90)), hx(rc.range(-180, 180))}); }
  // exhaustive private kernel: all (band, col, row) of UTMRow
  for (int ib = -10; ib < 10; ++ib) for (int c = 0; c < 8; ++c) for (int rr = 0; rr < 20; ++rr) run("utmrow", {std::to_string(ib), std::to_string(c), std::to_string(rr)});
  // block / band geography: a rotating subset of zones in quick, five zones in thorough
  std::vector<int> zones = tier == "thorough" ? std::vector<int>{1, 2, 3, 31, 32, 60} : std::vector<int>{int(1 + seed % 60)};
  for (int z : zones) for (int ib = 0; ib < 20; ++ib) for (int c = 0; c < 8; ++c) for (int rr = 0; rr < 20; ++rr)
    run("mgrs_block", {std::to_string(z), std::to_string(ib), std::to_string(c), std::to_string(rr)});
  // all grid-zone-only strings
  for (int z = 1; z <= 60; ++z) for (const char* p = "CDEFGHJKLMNPQRSTUVWX"; *p; ++p) { std::string s = std::to_string(z) + *p; run("mgrs_rev", {hs(s), "1"}); }
}
int main(int argc, char** argv) { return gv::main_(argc, argv); }
