// C17 (projection part): AzimuthalEquidistant, Gnomonic, CassiniSoldner.
// Header-only; included by harness/C17.cpp after common.hpp.
//
// Ops (args | results; doubles as 16 hex digits, ex as decimal 0/1; the geodesic object is Geodesic g(a, f, ex != 0)):
//   azeq_fwd a f ex lat0 lon0 lat lon | sig s azi0 azi2 m sx cx x y azi rk
//   azeq_rev a f ex lat0 lon0 x y     | azi0 s sig lat1 lon1 azi1 m lat lon azi rk
//   gnom_fwd a f ex lat0 lon0 lat lon | azi0 azi2 m M sx cx x y azi rk
//   gnom_rev a f ex lat0 lon0 x y     | lat lon azi rk
//   cass_fwd a f ex lat0 lon0 lat lon | dlon sig12 s12 azi1 azi2 da x y azi rk
//   cass_rev a f ex lat0 lon0 x y     | lat1 lon1 azi0 lat lon azi rk
// The leading result tokens are the geodesic quantities the classes are built from, recomputed by the harness with
// the same Geodesic calls (they feed the Lean model of the wrappers); the trailing `x y azi rk` / `lat lon azi rk`
// are the outputs of the projection class.
//
// Property-level oracles (relation names in bad(...)) recompute the DEFINING GEOMETRY with Geodesic::Inverse /
// Direct / Line, never through the projection classes:
//   azeq-fwd-radius, azeq-fwd-direction, azeq-fwd-azimuth, azeq-fwd-scale, azeq-closure-rf, azeq-closure-rf-azi,
//   azeq-closure-rf-scale, azeq-sphere, azeq-rev-direct, azeq-rev-azimuth, azeq-rev-scale, azeq-closure-fr,
//   azeq-fr-shortest,
//   gnom-fwd-horizon, gnom-fwd-horizon-geom, gnom-fwd-radius, gnom-fwd-direction, gnom-fwd-azimuth, gnom-fwd-scale,
//   gnom-closure-rf, gnom-closure-rf-azi, gnom-closure-rf-scale, gnom-sphere, gnom-rev-converge, gnom-rev-horizon,
//   gnom-rev-radius, gnom-rev-direction, gnom-rev-scale, gnom-rev-azimuth, gnom-closure-fr,
//   cass-fwd-foot, cass-fwd-azimuth, cass-fwd-scale, cass-fwd-distance, cass-fwd-closest, cass-fwd-y-range,
//   cass-closure-rf, cass-closure-rf-azi, cass-closure-rf-scale, cass-sphere, cass-rev-foot, cass-rev-direct,
//   cass-rev-azimuth, cass-rev-scale, cass-rev-geometry, cass-closure-fr, <op>-finite, azeq-fwd-centre-scale, azeq-rev-centre-scale (rk = 1 at
//   s12 = 0 / (x,y) = (0,0)), and geodesic-inverse-nan (an auxiliary Geodesic::Inverse of the oracle returned NaN for valid points).
//
// Tolerances.  One "geodesic problem" (an Inverse or a Direct/Position) is accurate to acc metres, "error expressed as
// a distance" (Geodesic.hpp: 15 nm for the WGS84 ellipsoid, 25 nm at |f| = 0.01 for the series; GeodesicExact.hpp:
// about 40 nm for 1/2 <= b/a <= 2 with the elliptic-integral back end), proportional to the equatorial radius.  A
// relation that chains n problems gets tol = 4 * n * acc (safety factor 4), multiplied by the condition number of the
// quantity that is compared (stated next to each use).  Relations that only re-associate the same floating point
// values use a few ulp.  Nothing is fitted to observed output.
#pragma once
#include "common.hpp"
#include <GeographicLib/Math.hpp>
#include <GeographicLib/Geodesic.hpp>
#include <GeographicLib/GeodesicLine.hpp>
#include <GeographicLib/AzimuthalEquidistant.hpp>
#include <GeographicLib/Gnomonic.hpp>
#include <GeographicLib/CassiniSoldner.hpp>

namespace c17proj {
using namespace GeographicLib;
using gv::Args; using gv::hx; using gv::unhx; using gv::emit; using gv::bad; using gv::ulp; using gv::Reg; using gv::Rng;
typedef long double LD;

static const double aW = 6378137.0, fW = 1 / 298.257223563;
static const double EPS = 2.220446049250313e-16;
static const LD PIl = 3.14159265358979323846264338327950288L, DEGl = PIl / 180;

inline std::string n17(double x) { char b[40]; std::snprintf(b, sizeof b, "%.17g", x); return b; }
inline bool fin(double x) { return std::isfinite(x); }

// ---- ellipsoid context -------------------------------------------------------------------------------------------
struct El {
  double a, f; int ex;
  double b;      // polar semi-axis
  double acc;    // documented accuracy of one geodesic problem (metres), NaN outside the documented range
  double rmin;   // min(b, a^2/b) = 1/sqrt(Kmax): pi*rmin is the injectivity radius (below it every geodesic is the unique shortest)
  double rmax;   // max(b, a^2/b) = 1/sqrt(Kmin)
  double m1;     // "one metre" scaled with the ellipsoid
  bool ok() const { return fin(acc) && fin(a) && a > 0 && fin(b) && b > 0; }
  double tol(int n) const { return 4 * n * acc; }
};
inline El mkEl(double a, double f, int ex) {
  El e; e.a = a; e.f = f; e.ex = ex; e.b = a * (1 - f); double af = std::fabs(f);
  double base = ex ? ((1 - f) >= 0.5 && (1 - f) <= 2 ? 40e-9 : NAN)
                   : (af <= 1 / 250.0 ? 15e-9 : af <= 0.01 + 1e-12 ? 25e-9 : af <= 0.02 + 1e-12 ? 30e-9 : NAN);
  e.acc = base * (a / aW); e.rmin = std::fmin(e.b, a * a / e.b); e.rmax = std::fmax(e.b, a * a / e.b); e.m1 = a / aW;
  return e;
}

// ---- small geometric helpers -------------------------------------------------------------------------------------
// Auxiliary inverse problems of the oracles.  A NaN from Geodesic::Inverse for two valid points is a defect of the
// geodesic solver itself (C02), not of the projections: it is reported once under its own relation
// "geodesic-inverse-nan" and the relations of the current op that depend on the NaN value are skipped (chk below).
inline bool& auxnan() { static bool b = false; return b; }
inline void inv(const Geodesic& g, double la1, double lo1, double la2, double lo2, double& s12, double& a1, double& a2, double& m12, double& M12, double& M21) {
  s12 = a1 = a2 = m12 = M12 = M21 = NAN; g.Inverse(la1, lo1, la2, lo2, s12, a1, a2, m12, M12, M21);
  if ((std::isnan(s12) || std::isnan(a1) || std::isnan(a2) || std::isnan(m12) || std::isnan(M12)) && fin(la1) && fin(lo1) && fin(la2) && fin(lo2) && std::fabs(la1) <= 90 && std::fabs(la2) <= 90) {
    if (!auxnan()) bad("geodesic-inverse-nan", "Geodesic::Inverse(" + n17(la1) + ", " + n17(lo1) + ", " + n17(la2) + ", " + n17(lo2) + ") returns NaN (a = " + n17(g.EquatorialRadius()) + ", f = " + n17(g.Flattening()) + ", exact = " + std::to_string(int(g.Exact())) + ")");
    auxnan() = true; }
}
// geodesic distance (the magnitude: for points a few nm apart the exact back end can return a slightly negative s12)
inline double gdist(const Geodesic& g, double la1, double lo1, double la2, double lo2) { double s = NAN; g.Inverse(la1, lo1, la2, lo2, s);
  if (std::isnan(s)) { double a1, a2, m, M, M21; inv(g, la1, lo1, la2, lo2, s, a1, a2, m, M, M21); } return std::fabs(s); }
// unit tangent (3-d) of the direction azi at (lat, lon): free of the coordinate singularity of azimuths at the poles
inline void tangent(double lat, double lon, double azi, LD t[3]) {
  LD sp = sinl(lat * DEGl), cp = cosl(lat * DEGl), sl = sinl(lon * DEGl), cl = cosl(lon * DEGl), sa = sinl(azi * DEGl), ca = cosl(azi * DEGl);
  if (std::fabs(lat) == 90) cp = 0;
  t[0] = ca * (-sp * cl) + sa * (-sl); t[1] = ca * (-sp * sl) + sa * cl; t[2] = ca * cp;
}
// angle (radians) between the directions (lat1,lon1,azi1) and (lat2,lon2,azi2) at (nearly) the same point
inline double dirangle(double lat1, double lon1, double azi1, double lat2, double lon2, double azi2) {
  LD u[3], v[3]; tangent(lat1, lon1, azi1, u); tangent(lat2, lon2, azi2, v);
  LD c0 = u[1] * v[2] - u[2] * v[1], c1 = u[2] * v[0] - u[0] * v[2], c2 = u[0] * v[1] - u[1] * v[0];
  return double(atan2l(hypotl(hypotl(c0, c1), c2), u[0] * v[0] + u[1] * v[1] + u[2] * v[2]));
}
// tolerance (radians) for two computed directions at points a distance d apart, both belonging to geodesics whose
// position is known to tolpos: the direction field turns by about 1/a per metre (factor 4: curvature varies with
// latitude and flattening), and a position error d at the far end of a geodesic of reduced length m turns it by d/|m|
// (the same model as the inverse-azi2 relation of C02; below a lever arm of 1 mm azimuths come from the short-line
// formulas applied to the exact arguments and do not degrade further -- unless one of the directions was obtained from
// rounded coordinates of the far point (own Inverse to a returned point): then floor1mm = false)
inline double tdir(const El& e, double tolpos, double d, double m, bool floor1mm = true) { return 4 * tolpos / e.a + 2 * std::fabs(d) / std::fmax(std::fabs(m), floor1mm ? 1e-3 * e.m1 : 1e-300) + 16 * EPS; }

#ifdef C17P_TRACE
struct Trace { std::map<std::string, std::pair<double, std::string>> m;
  ~Trace() { for (auto& kv : m) std::fprintf(stderr, "TRACE %-24s max err/tol %-10.3g at %s\n", kv.first.c_str(), kv.second.first, kv.second.second.c_str()); } };
inline Trace& trace() { static Trace t; return t; }
#endif
// err <= tol or report (NaN err reports)
inline bool chk(const char* rel, double err, double tol, const std::string& what) {
#ifdef C17P_TRACE
  { auto& t = trace().m[rel]; double q = tol > 0 ? err / tol : (err == 0 ? 0 : INFINITY); if (t.second.empty() || !(q <= t.first)) t = {q, gv::current_op()}; }
#endif
  if (auxnan() && (std::isnan(err) || std::isnan(tol))) return false;
  if (!(err <= tol)) { bad(rel, what + ": " + n17(err) + " exceeds " + n17(tol)); return false; }
  return true;
}
inline bool valid_ll(double lat, double lon) { return fin(lat) && fin(lon) && std::fabs(lat) <= 90; }
// the short overloads (without azimuth and scale) are documented as the same function: bit-identical x, y / lat, lon
inline bool sameBits(double a, double b) { return gv::bits(a) == gv::bits(b) || (std::isnan(a) && std::isnan(b)); }
inline void overloads(const char* rel, double a1, double b1, double a2, double b2, const char* what) {
  if (!(sameBits(a1, a2) && sameBits(b1, b2))) bad(rel, std::string(what) + ": the overload without azimuth and scale returns (" + n17(a2) + ", " + n17(b2) + "), the full one (" + n17(a1) + ", " + n17(b1) + ")");
}

// ---- sphere: closed forms in long double (independent of the Geodesic class altogether) ---------------------------
struct Sph { LD sig, ssig, csig, azi0;  // angular distance and azimuth at the centre (radians)
             LD sphi, cphi, sdl, cdl, phi0; };
inline Sph sph(double lat0, double lon0, double lat, double lon) {
  Sph q; LD p0 = lat0 * DEGl, p = lat * DEGl, dl = remainderl((LD)lon - (LD)lon0, 360.0L) * DEGl;
  LD s0 = sinl(p0), c0 = std::fabs(lat0) == 90 ? 0 : cosl(p0), s = sinl(p), c = std::fabs(lat) == 90 ? 0 : cosl(p), sd = sinl(dl), cd = cosl(dl);
  LD ey = sd * c, ex = c0 * s - s0 * c * cd;         // east and north components of the direction to the point
  q.csig = s0 * s + c0 * c * cd; q.ssig = hypotl(ey, ex); q.sig = atan2l(q.ssig, q.csig); q.azi0 = atan2l(ey, ex);
  q.sphi = s; q.cphi = c; q.sdl = sd; q.cdl = cd; q.phi0 = p0; return q;
}

// =====================================================================================================================
// azimuthal equidistant
// =====================================================================================================================
static Reg r_azeq_fwd("azeq_fwd", [](const Args& A) {
  if (A.size() != 7) { bad("harness", "azeq_fwd: 7 arguments expected"); return; }
  auxnan() = false;
  double a = unhx(A[0]), f = unhx(A[1]); int ex = std::atoi(A[2].c_str()); double lat0 = unhx(A[3]), lon0 = unhx(A[4]), lat = unhx(A[5]), lon = unhx(A[6]);
  std::string err = gv::guarded([&] {
    Geodesic g(a, f, ex != 0);
    double s, azi0, azi2, m, sig = g.Inverse(lat0, lon0, lat, lon, s, azi0, azi2, m);
    double sx, cx; Math::sincosd(azi0, sx, cx);
    AzimuthalEquidistant pj(g); double x, y, azi, rk; pj.Forward(lat0, lon0, lat, lon, x, y, azi, rk);
    { double x2 = NAN, y2 = NAN; pj.Forward(lat0, lon0, lat, lon, x2, y2); overloads("azeq-overloads", x, y, x2, y2, "AzimuthalEquidistant::Forward");
      if (!(pj.EquatorialRadius() == a && pj.Flattening() == f)) bad("azeq-overloads", "EquatorialRadius() / Flattening() differ from the Geodesic object"); }
    emit(hx(sig) + " " + hx(s) + " " + hx(azi0) + " " + hx(azi2) + " " + hx(m) + " " + hx(sx) + " " + hx(cx) + " " + hx(x) + " " + hx(y) + " " + hx(azi) + " " + hx(rk));
    El e = mkEl(a, f, ex); if (!e.ok() || !valid_ll(lat0, lon0) || !valid_ll(lat, lon)) return;
    if (std::isnan(s) || std::isnan(azi0) || std::isnan(azi2) || std::isnan(m)) { double t1, t2, t3, t4, t5, t6; inv(g, lat0, lon0, lat, lon, t1, t2, t3, t4, t5, t6); if (auxnan()) return; }
    if (!(fin(x) && fin(y) && fin(azi) && fin(s) && fin(m))) { bad("azeq_fwd-finite", "non-finite output for a valid point"); return; }
    if (!fin(rk) && s != 0) { bad("azeq_fwd-finite", "non-finite rk for a point away from the centre"); return; }
    // the point is at its geodesic distance and azimuth from the centre: same floating point values, re-associated
    chk("azeq-fwd-radius", std::fabs(std::hypot(x, y) - std::fabs(s)), 4 * ulp(s), "hypot(x,y) differs from the geodesic distance s12");
    LD sa = sinl(azi0 * DEGl), ca = cosl(azi0 * DEGl);
    chk("azeq-fwd-direction", std::fmax(std::fabs(double(x - s * sa)), std::fabs(double(y - s * ca))), 4 * ulp(s), "(x,y) differs from s12 (sin azi1, cos azi1)");
    chk("azeq-fwd-azimuth", std::fabs(Math::AngDiff(azi, azi2)), 4 * ulp(180.0), "returned azimuth is not azi2 of the geodesic");
    // reciprocal azimuthal scale m12/s12 (1 for coincident points; below one metre either expression is round-off equal to 1)
    if (s == 0) chk("azeq-fwd-centre-scale", std::fabs(rk - 1), 0, "rk is not 1 for a point at distance s12 = 0 from the centre (rk = " + n17(rk) + ", a12 = " + n17(sig) + ", m12 = " + n17(m) + ")");
    else if (s > e.m1) chk("azeq-fwd-scale", std::fabs(rk - m / s), 4 * EPS, "rk differs from m12/s12");
    else chk("azeq-fwd-scale", std::fmin(std::fabs(rk - 1), std::fabs(rk - m / s)), 4 * EPS, "rk is neither m12/s12 nor 1 for a very short geodesic");
    // Reverse(Forward(p)) = p.  "Error expressed as a distance" of the inverse problem means: following the returned
    // azimuth for the returned distance reaches the point within acc; so the position closure is well conditioned even
    // for nearly antipodal points (only the azimuth itself is ill conditioned there, error ~ acc/|m12|, and it is
    // compared with that scaling below).  Two problems are chained: Inverse, Direct.
    double la, lo, az, rk2; pj.Reverse(lat0, lon0, x, y, la, lo, az, rk2);
    double tp = e.tol(2), d = gdist(g, lat, lon, la, lo);
    if (chk("azeq-closure-rf", d, tp, "Reverse(Forward(lat,lon)) misses the point (metres)")) {
      if (s > 0) chk("azeq-closure-rf-azi", dirangle(lat, lon, azi, la, lo, az), tdir(e, tp, d, m), "azimuths returned by Forward and Reverse differ (radians)");   // coincident points: any azimuth is valid
      if (s > e.m1) chk("azeq-closure-rf-scale", std::fabs(rk - rk2), 2 * tp / s + 8 * EPS, "reciprocal scales returned by Forward and Reverse differ");   // m12 and s12 each within tp
      else if (s == 0 && x == 0 && y == 0) chk("azeq-rev-centre-scale", std::fabs(rk2 - 1), 0, "Reverse(0,0): rk is not 1 at the centre (rk = " + n17(rk2) + ")");
    }
    // sphere: x + i y = a sigma exp(i (pi/2 - azi0)) in closed form.  The map is ill conditioned near the antipode
    // (a displacement d of the point moves its image by d sigma/sin sigma): one problem, that condition number.
    if (f == 0) { Sph q = sph(lat0, lon0, lat, lon);
      if (q.ssig > 1e-6L || q.csig > 0) { LD cond = q.csig > 0 ? 1 : q.sig / q.ssig; double t1 = e.tol(1) * double(cond);
        LD xr = a * q.sig * sinl(q.azi0), yr = a * q.sig * cosl(q.azi0);
        chk("azeq-sphere", double(hypotl(x - xr, y - yr)), t1 + 4 * ulp(s), "sphere: (x,y) differs from a sigma (sin azi, cos azi)");
        if (q.sig > 1e-6L) chk("azeq-sphere", std::fabs(double(rk - q.ssig / q.sig)), 2 * t1 / s + 8 * EPS, "sphere: rk differs from sin(sigma)/sigma"); } }
  });
  if (!err.empty()) emit(err);
});

static Reg r_azeq_rev("azeq_rev", [](const Args& A) {
  if (A.size() != 7) { bad("harness", "azeq_rev: 7 arguments expected"); return; }
  auxnan() = false;
  double a = unhx(A[0]), f = unhx(A[1]); int ex = std::atoi(A[2].c_str()); double lat0 = unhx(A[3]), lon0 = unhx(A[4]), x = unhx(A[5]), y = unhx(A[6]);
  std::string err = gv::guarded([&] {
    Geodesic g(a, f, ex != 0);
    double azi0 = Math::atan2d(x, y), s = std::hypot(x, y), lat1, lon1, azi1, m, sig = g.Direct(lat0, lon0, azi0, s, lat1, lon1, azi1, m);
    AzimuthalEquidistant pj(g); double lat, lon, azi, rk; pj.Reverse(lat0, lon0, x, y, lat, lon, azi, rk);
    { double la2 = NAN, lo2 = NAN; pj.Reverse(lat0, lon0, x, y, la2, lo2); overloads("azeq-overloads", lat, lon, la2, lo2, "AzimuthalEquidistant::Reverse"); }
    emit(hx(azi0) + " " + hx(s) + " " + hx(sig) + " " + hx(lat1) + " " + hx(lon1) + " " + hx(azi1) + " " + hx(m) + " " + hx(lat) + " " + hx(lon) + " " + hx(azi) + " " + hx(rk));
    El e = mkEl(a, f, ex); if (!e.ok() || !valid_ll(lat0, lon0) || !fin(x) || !fin(y) || !fin(s)) return;
    if (!(fin(lat) && fin(lon) && fin(azi) && std::fabs(lat) <= 90 && std::fabs(lon) <= 180)) { bad("azeq_rev-finite", "non-finite or out-of-range output for a finite (x,y)"); return; }
    if (s == 0) chk("azeq-rev-centre-scale", std::fabs(rk - 1), 0, "Reverse(0,0): rk is not 1 at the centre (rk = " + n17(rk) + ")");
    else if (!fin(rk)) { bad("azeq_rev-finite", "non-finite rk for a finite (x,y) away from the centre"); return; }
    double wraps = std::fmax(1.0, s / (Math::pi() * e.a));          // documented accuracy is for paths up to half a circuit
    if (wraps > 1e3) return;
    // the point is the solution of the direct problem at azimuth atan2(x,y), distance hypot(x,y)
    double tp1 = e.tol(1) * wraps, d1 = gdist(g, lat, lon, lat1, lon1);
    if (chk("azeq-rev-direct", d1, tp1, "Reverse differs from Direct(lat0, lon0, atan2d(x,y), hypot(x,y)) (metres)")) {
      chk("azeq-rev-azimuth", dirangle(lat, lon, azi, lat1, lon1, azi1), tdir(e, tp1, d1, m), "Reverse: azimuth is not azi2 of the geodesic (radians)");
      if (s == 0) { /* centre: azeq-rev-centre-scale above */ }
      else if (s > e.m1) chk("azeq-rev-scale", std::fabs(rk - m / s), 4 * EPS * std::fmax(1.0, std::fabs(m / s)), "Reverse: rk differs from m12/s12");
      else chk("azeq-rev-scale", std::fmin(std::fabs(rk - 1), std::fabs(rk - m / s)), 4 * EPS, "Reverse: rk is neither m12/s12 nor 1 for a very short geodesic");
    }
    // Forward(Reverse(x,y)): the distance found can never exceed s; it returns (x,y) when the geodesic is a shortest
    // path (documented), which is certain below the injectivity radius pi*min(b, a^2/b).  (x,y) inherit the position
    // error with the condition number s/|m12| of the azimuth (Direct and Inverse: two problems).
    double x2, y2, az2, rk2; pj.Forward(lat0, lon0, lat, lon, x2, y2, az2, rk2);
    chk("azeq-fr-shortest", std::hypot(x2, y2) - s, e.tol(2) * wraps, "Forward(Reverse(x,y)) is farther from the centre than (x,y)");
    if (s <= 0.99 * Math::pi() * e.rmin && std::fabs(m) > 1e-6 * s)
      chk("azeq-closure-fr", std::hypot(x2 - x, y2 - y), e.tol(2) * std::fmax(1.0, s / std::fabs(m)) + 8 * ulp(s), "Forward(Reverse(x,y)) differs from (x,y) although the geodesic is a shortest path (metres)");
  });
  if (!err.empty()) emit(err);
});

// =====================================================================================================================
// gnomonic
// =====================================================================================================================
// Reverse is documented to return NaN "for very large x or y" when the Newton iteration does not converge.  The
// iteration solves rho(s) = rho with rho = m12/M12; within rho <= GNOM_BIG * a (M12 >~ 1e-6, i.e. more than about 6 m
// inside the horizon on the earth) a NaN is reported.
static const double GNOM_BIG = 1e6;

static Reg r_gnom_fwd("gnom_fwd", [](const Args& A) {
  if (A.size() != 7) { bad("harness", "gnom_fwd: 7 arguments expected"); return; }
  auxnan() = false;
  double a = unhx(A[0]), f = unhx(A[1]); int ex = std::atoi(A[2].c_str()); double lat0 = unhx(A[3]), lon0 = unhx(A[4]), lat = unhx(A[5]), lon = unhx(A[6]);
  std::string err = gv::guarded([&] {
    Geodesic g(a, f, ex != 0);
    double azi0, azi2, m, M, t;
    g.GenInverse(lat0, lon0, lat, lon, Geodesic::AZIMUTH | Geodesic::REDUCEDLENGTH | Geodesic::GEODESICSCALE, t, azi0, azi2, m, M, t, t);
    double sx, cx; Math::sincosd(azi0, sx, cx);
    Gnomonic pj(g); double x, y, azi, rk; pj.Forward(lat0, lon0, lat, lon, x, y, azi, rk);
    { double x2 = NAN, y2 = NAN; pj.Forward(lat0, lon0, lat, lon, x2, y2); overloads("gnom-overloads", x, y, x2, y2, "Gnomonic::Forward");
      if (!(pj.EquatorialRadius() == a && pj.Flattening() == f)) bad("gnom-overloads", "EquatorialRadius() / Flattening() differ from the Geodesic object"); }
    emit(hx(azi0) + " " + hx(azi2) + " " + hx(m) + " " + hx(M) + " " + hx(sx) + " " + hx(cx) + " " + hx(x) + " " + hx(y) + " " + hx(azi) + " " + hx(rk));
    El e = mkEl(a, f, ex); if (!e.ok() || !valid_ll(lat0, lon0) || !valid_ll(lat, lon)) return;
    if (std::isnan(azi0) || std::isnan(azi2) || std::isnan(m) || std::isnan(M)) { double t1, t2, t3, t4, t5, t6; inv(g, lat0, lon0, lat, lon, t1, t2, t3, t4, t5, t6); if (auxnan()) return; }
    if (!(fin(azi) && fin(rk) && fin(m) && fin(M))) { bad("gnom_fwd-finite", "non-finite azimuth or scale for a valid point"); return; }
    bool isnanxy = std::isnan(x) && std::isnan(y), finxy = fin(x) && fin(y);
    if (!(isnanxy || finxy)) { bad("gnom-fwd-horizon", "x and y are neither both NaN nor both finite"); return; }
    // NaN exactly beyond the horizon M12 <= 0 (a value of M12 within round-off of 0 may go either way)
    if (M > 4 * EPS && !finxy) bad("gnom-fwd-horizon", "NaN returned although M12 = " + n17(M) + " > 0");
    if (M < -4 * EPS && !isnanxy) bad("gnom-fwd-horizon", "finite (x,y) returned beyond the horizon, M12 = " + n17(M));
    // the same in terms of the distance: M12 solves y'' + K y = 0, y(0) = 1, y'(0) = 0 along the geodesic and the Gaussian
    // curvature K lies between 1/rmax^2 and 1/rmin^2, hence (Sturm) M12 > 0 for s12 < pi/2 rmin and M12 < 0 for
    // pi/2 rmax < s12 < 3 pi/2 rmin (every shortest geodesic is shorter than that)
    double s12 = gdist(g, lat0, lon0, lat, lon);
    if (s12 < Math::pi() / 2 * e.rmin * (1 - 1e-6) && !finxy) bad("gnom-fwd-horizon-geom", "NaN for a point " + n17(s12) + " m from the centre, inside the horizon");
    if (s12 > Math::pi() / 2 * e.rmax * (1 + 1e-6) && !isnanxy) bad("gnom-fwd-horizon-geom", "finite (x,y) for a point " + n17(s12) + " m from the centre, beyond the horizon");
    chk("gnom-fwd-azimuth", std::fabs(Math::AngDiff(azi, azi2)), 4 * ulp(180.0), "returned azimuth is not azi2 of the geodesic");
    chk("gnom-fwd-scale", std::fabs(rk - M), 4 * EPS, "rk is not M12 of the geodesic");
    if (!finxy || !(M > 0)) return;
    double rho = m / M; if (!fin(rho)) return;
    chk("gnom-fwd-radius", std::fabs(std::hypot(x, y) - rho), 4 * ulp(rho), "hypot(x,y) differs from m12/M12");
    LD sa = sinl(azi0 * DEGl), ca = cosl(azi0 * DEGl);
    chk("gnom-fwd-direction", std::fmax(std::fabs(double(x - rho * sa)), std::fabs(double(y - rho * ca))), 4 * ulp(rho), "(x,y) differs from (m12/M12) (sin azi1, cos azi1)");
    // Reverse(Forward(p)) = p for every point inside the horizon.  d rho/d s = 1/M12^2, so errors of rho map back to
    // the ground multiplied by M12^2 <= 1 (and errors dm, dM of the geodesic by M12 dm + m12 dM ~ acc): the position closure
    // is well conditioned up to the horizon.  Two problems (Inverse; the GeodesicLine position at the end of the
    // Newton iteration) plus the truncation of the iteration, which stops after the first step shorter than eps_ a,
    // eps_ = 0.01 sqrt(epsilon): the following step is smaller than (eps_ a)^2 |rho''/(2 rho')| <= eps_^2 rho.
    double la, lo, az, rk2; pj.Reverse(lat0, lon0, x, y, la, lo, az, rk2);
    if (std::isnan(la) || std::isnan(lo)) { if (rho <= GNOM_BIG * a) bad("gnom-rev-converge", "Reverse(Forward(p)) returned NaN for rho/a = " + n17(rho / a)); return; }
    double tp = e.tol(2) + 1e-4 * EPS * rho, d = gdist(g, lat, lon, la, lo);
    if (chk("gnom-closure-rf", d, tp, "Reverse(Forward(lat,lon)) misses the point (metres)")) {
      if (s12 > 0) chk("gnom-closure-rf-azi", dirangle(lat, lon, azi, la, lo, az), tdir(e, tp, d, m), "azimuths returned by Forward and Reverse differ (radians)");   // coincident points: any azimuth is valid
      chk("gnom-closure-rf-scale", std::fabs(rk - rk2), 4 * tp / e.a + 8 * EPS, "reciprocal scales returned by Forward and Reverse differ");     // |dM12/ds| <~ 1/a
    }
    // sphere: rho = a tan sigma, rk = cos sigma; condition number 1/cos^2 sigma
    if (f == 0) { Sph q = sph(lat0, lon0, lat, lon);
      if (q.csig > 1e-9L) { double t1 = e.tol(1) / double(q.csig * q.csig); LD rr = a * q.ssig / q.csig;
        chk("gnom-sphere", double(hypotl(x - rr * sinl(q.azi0), y - rr * cosl(q.azi0))), t1 + 8 * ulp(rho), "sphere: (x,y) differs from a tan(sigma) (sin azi, cos azi)");
        chk("gnom-sphere", std::fabs(double(rk - q.csig)), e.tol(1) / e.a + 8 * EPS, "sphere: rk differs from cos(sigma)"); } }
  });
  if (!err.empty()) emit(err);
});

static Reg r_gnom_rev("gnom_rev", [](const Args& A) {
  if (A.size() != 7) { bad("harness", "gnom_rev: 7 arguments expected"); return; }
  auxnan() = false;
  double a = unhx(A[0]), f = unhx(A[1]); int ex = std::atoi(A[2].c_str()); double lat0 = unhx(A[3]), lon0 = unhx(A[4]), x = unhx(A[5]), y = unhx(A[6]);
  std::string err = gv::guarded([&] {
    Geodesic g(a, f, ex != 0);
    Gnomonic pj(g); double lat, lon, azi, rk; pj.Reverse(lat0, lon0, x, y, lat, lon, azi, rk);
    { double la2 = NAN, lo2 = NAN; pj.Reverse(lat0, lon0, x, y, la2, lo2); overloads("gnom-overloads", lat, lon, la2, lo2, "Gnomonic::Reverse"); }
    emit(hx(lat) + " " + hx(lon) + " " + hx(azi) + " " + hx(rk));
    El e = mkEl(a, f, ex); if (!e.ok() || !valid_ll(lat0, lon0) || !fin(x) || !fin(y)) return;
    double rho = std::hypot(x, y), azi0 = Math::atan2d(x, y); if (!fin(rho)) return;
    if (std::isnan(lat) || std::isnan(lon) || std::isnan(azi) || std::isnan(rk)) {
      if (rho <= GNOM_BIG * a) bad("gnom-rev-converge", "Reverse returned NaN for rho/a = " + n17(rho / a) + " (documented only for very large x, y)");
      return; }
    if (!(fin(lat) && fin(lon) && fin(azi) && fin(rk) && std::fabs(lat) <= 90 && std::fabs(lon) <= 180)) { bad("gnom_rev-finite", "non-finite or out-of-range output"); return; }
    if (rho > GNOM_BIG * a) return;
    // the returned point P is inside the horizon of the centre C, lies on the geodesic leaving C at azimuth atan2(x,y),
    // has m12/M12 = rho, and the returned scale / azimuth are M12 and azi2 of the geodesic C -> P (own Inverse: one
    // problem on top of the one inside Reverse).  rho is compared with its condition number d rho/d s = 1/M12^2, the
    // direction at the centre with 1/|m12|.
    double s12, a1, a2, m12, M12, M21; inv(g, lat0, lon0, lat, lon, s12, a1, a2, m12, M12, M21); if (auxnan()) return;
    double tp = e.tol(2) + 1e-4 * EPS * rho;
    if (!(M12 > 0)) { bad("gnom-rev-horizon", "Reverse returned a point beyond the horizon, M12 = " + n17(M12)); return; }
    chk("gnom-rev-radius", std::fabs(m12 / M12 - rho), tp / (M12 * M12) + 8 * EPS * rho, "m12/M12 of the returned point differs from hypot(x,y)");
    if (rho > 0) chk("gnom-rev-direction", dirangle(lat0, lon0, a1, lat0, lon0, azi0), tp / std::fmax(std::fabs(m12), 1e-300) + 16 * EPS, "the returned point is not at azimuth atan2(x,y) from the centre (radians)");
    chk("gnom-rev-scale", std::fabs(rk - M12), 4 * tp / e.a + 8 * EPS, "rk is not M12 of the geodesic to the returned point");
    if (rho > 0) chk("gnom-rev-azimuth", dirangle(lat, lon, azi, lat, lon, a2), tdir(e, tp, tp, m12, false), "azi is not azi2 of the geodesic to the returned point (radians)");
    // Forward(Reverse(x,y)) = (x,y), with the same condition numbers: radially 1/M12^2, transversally rho/|m12| = 1/M12
    double x2, y2, az2, rk2; pj.Forward(lat0, lon0, lat, lon, x2, y2, az2, rk2);
    chk("gnom-closure-fr", std::hypot(x2 - x, y2 - y), tp / (M12 * M12) + 16 * EPS * rho, "Forward(Reverse(x,y)) differs from (x,y)");
  });
  if (!err.empty()) emit(err);
});

// =====================================================================================================================
// Cassini-Soldner
// =====================================================================================================================
// quarter meridian, by an independent route (inverse problem equator -> pole)
inline double quarter_meridian(const Geodesic& g) { return gdist(g, 0, 0, 90, 0); }

static Reg r_cass_fwd("cass_fwd", [](const Args& A) {
  if (A.size() != 7) { bad("harness", "cass_fwd: 7 arguments expected"); return; }
  auxnan() = false;
  double a = unhx(A[0]), f = unhx(A[1]); int ex = std::atoi(A[2].c_str()); double lat0 = unhx(A[3]), lon0 = unhx(A[4]), lat = unhx(A[5]), lon = unhx(A[6]);
  std::string err = gv::guarded([&] {
    Geodesic g(a, f, ex != 0);
    CassiniSoldner cs(lat0, lon0, g);
    double dlon = Math::AngDiff(cs.LongitudeOrigin(), lon), s12, azi1, azi2;
    double sig12 = g.Inverse(lat, -std::fabs(dlon), lat, std::fabs(dlon), s12, azi1, azi2);
    double da = Math::AngDiff(azi1, azi2) / 2;
    double x = NAN, y = NAN, azi = NAN, rk = NAN; cs.Forward(lat, lon, x, y, azi, rk);
    { double x2 = NAN, y2 = NAN; cs.Forward(lat, lon, x2, y2); overloads("cass-overloads", x, y, x2, y2, "CassiniSoldner::Forward");
      // history: an object constructed at the default origin, used, moved to another origin, used, and finally Reset to (lat0, lon0)
      // is the object constructed there (state _meridian, _sbet0, _cbet0 is set by Reset alone)
      CassiniSoldner h(g); double t1, t2, t3, t4; h.Forward(lat, lon, t1, t2, t3, t4); h.Reset(-lat0 / 2, lon0 + 77); h.Forward(lat, lon, t1, t2); h.Reverse(1e5, -2e5, t1, t2);
      h.Reset(lat0, lon0); double hx_ = NAN, hy_ = NAN, ha = NAN, hk = NAN; h.Forward(lat, lon, hx_, hy_, ha, hk);
      if (!(sameBits(hx_, x) && sameBits(hy_, y) && sameBits(ha, azi) && sameBits(hk, rk))) bad("cass-reset-history", "a CassiniSoldner object Reset to (lat0, lon0) after other origins gives (" + n17(hx_) + ", " + n17(hy_) + "), a fresh one (" + n17(x) + ", " + n17(y) + ")");
      if (!(sameBits(h.LatitudeOrigin(), cs.LatitudeOrigin()) && sameBits(h.LongitudeOrigin(), cs.LongitudeOrigin()))) bad("cass-reset-history", "origin inspectors differ after Reset");
      if (valid_ll(lat0, lon0) && !(cs.LatitudeOrigin() == lat0 && std::fabs(Math::AngDiff(cs.LongitudeOrigin(), lon0)) <= 4 * ulp(180.0)))
        bad("cass-origin", "LatitudeOrigin() / LongitudeOrigin() = " + n17(cs.LatitudeOrigin()) + ", " + n17(cs.LongitudeOrigin()) + " for the origin " + n17(lat0) + ", " + n17(lon0));
      if (!(cs.EquatorialRadius() == a && cs.Flattening() == f)) bad("cass-overloads", "EquatorialRadius() / Flattening() differ from the Geodesic object"); }
    emit(hx(dlon) + " " + hx(sig12) + " " + hx(s12) + " " + hx(azi1) + " " + hx(azi2) + " " + hx(da) + " " + hx(x) + " " + hx(y) + " " + hx(azi) + " " + hx(rk));
    El e = mkEl(a, f, ex); if (!e.ok() || !valid_ll(lat0, lon0) || !valid_ll(lat, lon)) return;
    if (!(fin(x) && fin(y) && fin(azi) && fin(rk))) { bad("cass_fwd-finite", "non-finite output for a valid point"); return; }
    // defining construction, with an own meridian line: F = point at meridian distance y from the origin; the geodesic
    // leaving F at right angles (clockwise from the meridian heading) with length x ends at (lat, lon); its azimuth there is
    // azi and its geodesic scale M12 (separation at the point of geodesics leaving the meridian in parallel) is rk = 1/k.
    // Four problems are chained (Forward: Inverse and a position on the meridian; here: a position and a Direct); all
    // steps are contractions or isometries on the ground (dP = rk dy along the meridian, |dP| = |m12| d(azimuth)).
    GeodesicLine mer = g.Line(lat0, lon0, 0.0);
    double latF, lonF, aziF; mer.Position(y, latF, lonF, aziF);
    // Conditioning: the perpendicular is half of the geodesic joining the point P and its mirror image P'.  The accuracy
    // of that inverse problem ("following azi1 from P' for s12 reaches P within acc") fixes its azimuth only to
    // acc/|m12(P'P)|; half way, on the meridian, this displaces the geodesic by |m12(FP)| acc/|m12(P'P)| (on a sphere
    // acc/(2 rk)): the construction degenerates where rk -> 0 (scale k -> infinity, P and P' conjugate).  Relations
    // that involve the position of the foot are scaled by cond = max(1, |m12(FP)/m12(P'P)|); the relations on x alone
    // (cass-fwd-distance, cass-fwd-closest) are not.
    double la, lo, az, mh, M12, M21; g.Direct(latF, lonF, aziF + 90, x, la, lo, az, mh, M12, M21);
    double s2, b1, b2, mfull, t5, t6; inv(g, lat, -std::fabs(dlon), lat, std::fabs(dlon), s2, b1, b2, mfull, t5, t6);   // reduced length between the point and its mirror image
    double cond = std::fmax(1.0, std::fabs(mh) / std::fmax(std::fabs(mfull), 1e-300));
    double tp = e.tol(4), tpc = tp * cond, d = gdist(g, lat, lon, la, lo);
    if (chk("cass-fwd-foot", d, tpc, "going y along the central meridian, turning right and going x misses the point (metres)")) {
      chk("cass-fwd-azimuth", dirangle(lat, lon, azi, la, lo, az), tdir(e, tpc, d, mfull), "azi is not the direction of the perpendicular at the point (radians)");
      chk("cass-fwd-scale", std::fabs(rk - M12), 4 * tpc / e.a + 8 * EPS, "rk is not M12 of the perpendicular from the meridian");
    }
    // |x| is the distance to the foot, and no point of the full meridian is closer (if Q on the meridian were closer, going
    // on to the mirror image would beat the shortest path between the point and its image)
    double dF = gdist(g, lat, lon, latF, lonF);
    chk("cass-fwd-distance", std::fabs(dF - std::fabs(x)), tp, std::string("|x| is not the geodesic distance to the foot on the meridian") + (std::fabs(x) == s12 / 2 ? " (x is exactly half of s12 = " + n17(s12) + " returned by Geodesic::Inverse between the point and its mirror image: that distance is inconsistent)" : ""));
    { double worst = 0; std::string where;
      for (int k = 0; k < 12; ++k) { double qlat = k < 10 ? -85.0 + 19.0 * k : (k == 10 ? latF + 1e-3 : latF - 1e-3), qlon = (k & 1) ? lon0 + 180 : lon0; if (k >= 10) qlon = lonF;
        if (!(std::fabs(qlat) <= 90)) continue; double dq = gdist(g, lat, lon, qlat, qlon); if (std::fabs(x) - dq > worst) { worst = std::fabs(x) - dq; where = n17(qlat) + "," + n17(qlon); } }
      chk("cass-fwd-closest", worst, tp, "a point of the central meridian (" + where + ") is closer than |x| = " + n17(std::fabs(x)) + " (s12 between the point and its mirror image = " + n17(s12) + ")"); }
    // y is a meridian distance of at most half the meridian ellipse
    double Q = quarter_meridian(g); chk("cass-fwd-y-range", std::fabs(y), 2 * Q + tp, "|y| exceeds half the length of the meridian ellipse");
    // Reverse(Forward(p)) = p, and the same azimuth and scale
    double la2, lo2, az2, rk2; cs.Reverse(x, y, la2, lo2, az2, rk2);
    double d2 = gdist(g, lat, lon, la2, lo2);
    if (chk("cass-closure-rf", d2, tpc, "Reverse(Forward(lat,lon)) misses the point (metres)")) {
      chk("cass-closure-rf-azi", dirangle(lat, lon, azi, la2, lo2, az2), tdir(e, tpc, d2, mfull), "azimuths returned by Forward and Reverse differ (radians)");
      chk("cass-closure-rf-scale", std::fabs(rk - rk2), 4 * tpc / e.a + 8 * EPS, "reciprocal scales returned by Forward and Reverse differ");
    }
    // sphere: sin(x/a) = cos(lat) sin(dlon), foot latitude atan2(sin lat, cos lat cos dlon), rk = cos(x/a); the northing is
    // ill conditioned by 1/rk (scale k = 1/rk).  Two problems.
    if (f == 0) { Sph q = sph(lat0, lon0, lat, lon);
      LD sx = q.cphi * q.sdl, cxx = hypotl(q.sphi, q.cphi * q.cdl);
      chk("cass-sphere", std::fabs(double(x - a * atan2l(sx, cxx))), e.tol(2), "sphere: x differs from a asin(cos lat sin dlon)");
      chk("cass-sphere", std::fabs(double(rk - cxx)), 4 * e.tol(2) / e.a + 8 * EPS, "sphere: rk differs from cos(x/a)");
      if (cxx > 1e-6L) { LD yr = a * (atan2l(q.sphi, q.cphi * q.cdl) - q.phi0);
        chk("cass-sphere", std::fabs(double(remainderl(y - yr, 2 * PIl * a))), e.tol(2) / double(cxx) + 4 * ulp(e.a * 4), "sphere: y differs from a (atan2(sin lat, cos lat cos dlon) - lat0)"); } }
  });
  if (!err.empty()) emit(err);
});

static Reg r_cass_rev("cass_rev", [](const Args& A) {
  if (A.size() != 7) { bad("harness", "cass_rev: 7 arguments expected"); return; }
  auxnan() = false;
  double a = unhx(A[0]), f = unhx(A[1]); int ex = std::atoi(A[2].c_str()); double lat0 = unhx(A[3]), lon0 = unhx(A[4]), x = unhx(A[5]), y = unhx(A[6]);
  std::string err = gv::guarded([&] {
    Geodesic g(a, f, ex != 0);
    CassiniSoldner cs(lat0, lon0, g);
    double lat1 = NAN, lon1 = NAN, azi0 = NAN; cs._meridian.Position(y, lat1, lon1, azi0);
    double lat = NAN, lon = NAN, azi = NAN, rk = NAN; cs.Reverse(x, y, lat, lon, azi, rk);
    { double la2 = NAN, lo2 = NAN; cs.Reverse(x, y, la2, lo2); overloads("cass-overloads", lat, lon, la2, lo2, "CassiniSoldner::Reverse");
      CassiniSoldner h(g); h.Reset(lat0, lon0); double hl = NAN, ho = NAN, ha = NAN, hk = NAN; h.Reverse(x, y, hl, ho, ha, hk);
      if (!(sameBits(hl, lat) && sameBits(ho, lon) && sameBits(ha, azi) && sameBits(hk, rk))) bad("cass-reset-history", "CassiniSoldner(geod) + Reset(lat0, lon0) reverses to (" + n17(hl) + ", " + n17(ho) + "), CassiniSoldner(lat0, lon0, geod) to (" + n17(lat) + ", " + n17(lon) + ")"); }
    emit(hx(lat1) + " " + hx(lon1) + " " + hx(azi0) + " " + hx(lat) + " " + hx(lon) + " " + hx(azi) + " " + hx(rk));
    El e = mkEl(a, f, ex); if (!e.ok() || !valid_ll(lat0, lon0) || !fin(x) || !fin(y)) return;
    if (!(fin(lat) && fin(lon) && fin(azi) && fin(rk) && std::fabs(lat) <= 90 && std::fabs(lon) <= 180)) { bad("cass_rev-finite", "non-finite or out-of-range output for a finite (x,y)"); return; }
    double wraps = std::fmax(1.0, (std::fabs(x) + std::fabs(y)) / (Math::pi() * e.a)); if (wraps > 1e3) return;
    // go north y along the meridian (own line), turn clockwise 90 degrees, go x (Direct): two problems
    GeodesicLine mer = g.Line(lat0, lon0, 0.0);
    double latF, lonF, aziF; mer.Position(y, latF, lonF, aziF);
    double tp1 = e.tol(1) * wraps, tp = e.tol(2) * wraps;
    chk("cass-rev-foot", gdist(g, lat1, lon1, latF, lonF), tp1, "the foot used by the class is not at meridian distance y from the origin (metres)");
    double la, lo, az, m12, M12, M21; g.Direct(latF, lonF, aziF + 90, x, la, lo, az, m12, M12, M21);
    double d = gdist(g, lat, lon, la, lo);
    if (chk("cass-rev-direct", d, tp, "Reverse differs from: north y along the meridian, turn right, x along the geodesic (metres)")) {
      chk("cass-rev-azimuth", dirangle(lat, lon, azi, la, lo, az), tdir(e, tp, d, m12), "Reverse: azi is not the direction of the perpendicular at the point (radians)");
      chk("cass-rev-scale", std::fabs(rk - M12), 4 * tp / e.a + 8 * EPS, "Reverse: rk is not M12 of the perpendicular");
    }
    double Q = quarter_meridian(g);
    // geometry seen from the other end (inverse problem foot -> point): distance |x| and a right angle at the foot, as
    // long as the perpendicular is a shortest path (below the injectivity radius)
    if (std::fabs(x) <= 0.99 * Math::pi() * e.rmin && wraps == 1) {
      double s12, a1, a2, mm, t5, t6; inv(g, latF, lonF, lat, lon, s12, a1, a2, mm, t5, t6);
      chk("cass-rev-geometry", std::fabs(s12 - std::fabs(x)), e.tol(3), "the returned point is not at distance |x| from the foot");
      if (std::fabs(x) > 0) chk("cass-rev-geometry", dirangle(latF, lonF, a1, latF, lonF, aziF + (x < 0 ? -90 : 90)), e.tol(3) / std::fmax(std::fabs(mm), 1e-300) + 16 * EPS, "the geodesic from the foot to the returned point does not leave the meridian at a right angle (radians)");
    }
    // Forward(Reverse(x,y)) = (x,y) "provided x and y are sufficiently small not to wrap around": the point and its
    // mirror image are then joined by the unique shortest geodesic of length 2|x| < pi min(b, a^2/b) and y is within half
    // the meridian.  Northing scale k = 1/rk, so y is compared with tolerance / rk.
    if (std::fabs(x) <= 0.99 * Math::pi() / 2 * e.rmin && std::fabs(y) <= 0.99 * 2 * Q) {
      double x2 = NAN, y2 = NAN, az2 = NAN, rk2 = NAN; cs.Forward(lat, lon, x2, y2, az2, rk2);
      double dl = std::fabs(Math::AngDiff(cs.LongitudeOrigin(), lon)), sf, c1, c2, mfull, t5, t6; inv(g, lat, -dl, lat, dl, sf, c1, c2, mfull, t5, t6);
      double t4 = e.tol(4) * std::fmax(1.0, std::fabs(m12) / std::fmax(std::fabs(mfull), 1e-300));      // same conditioning as in cass_fwd
      if (M12 > 0) chk("cass-closure-fr", std::fmax(std::fabs(x2 - x), std::fabs(y2 - y) * M12), t4 + 8 * ulp(e.a), "Forward(Reverse(x,y)) differs from (x,y) inside the documented region (metres on the ground)");
    }
  });
  if (!err.empty()) emit(err);
});

// =====================================================================================================================
// generator
// =====================================================================================================================
struct Case { double a, f; int ex; std::string ell; double lat0, lon0; std::string centre; };

// distance from (lat0,lon0) along azimuth azi at which M12 changes sign (Newton on M12(s), dM12/ds = -(1 - M12 M21)/m12)
inline double horizon(const Geodesic& g, double a, double lat0, double lon0, double azi) {
  double s = Math::pi() / 2 * a;
  for (int i = 0; i < 6; ++i) { double la, lo, az, m, M, M21; g.Direct(lat0, lon0, azi, s, la, lo, az, m, M, M21); double dM = -(1 - M * M21) / m; if (!(std::fabs(dM) > 0)) break; s -= M / dM; }
  return s;
}

inline void generate(Rng& r, bool thorough, int K = 1) {
  auto Q = [&](long v) { return std::max<long>(1, v / K); };   // K slices: the orchestrating generate() runs the parts round-robin

  long n = Q(thorough ? 100000 : 12000);
  auto H = [](double v) { return hx(v); };
  for (long i = 0; i < n; ++i) {
    Case c;
    // ---- ellipsoid
    int ek = r.irange(0, 9);
    if (ek < 4) { c.f = fW; c.ell = "wgs84"; } else if (ek < 6) { c.f = 0; c.ell = "sphere"; } else if (ek < 8) { c.f = 0.01; c.ell = "oblate.01"; } else { c.f = -0.01; c.ell = "prolate.01"; }
    int ak = r.irange(0, 9); c.a = ak < 7 ? aW : ak < 8 ? 1.0 : 6.4e6 * r.range(0.5, 2); if (ek < 4 && ak < 9) c.a = aW;
    c.ell += c.a == aW ? "" : c.a == 1 ? "/a=1" : "/a=rnd";
    c.ex = r.irange(0, 2) == 0; c.ell += c.ex ? "/exact" : "/series";
    Geodesic g(c.a, c.f, c.ex != 0);
    double m1 = c.a / aW, b = c.a * (1 - c.f);
    // ---- centre
    int ck = r.irange(0, 9);
    if (ck == 0) { c.lat0 = 90; c.centre = "npole"; } else if (ck == 1) { c.lat0 = -90; c.centre = "spole"; } else if (ck == 2) { c.lat0 = 0; c.centre = "equator"; }
    else if (ck == 3) { c.lat0 = r.pick(std::vector<double>{89.999999, -89.9999, 1e-10, -1e-10, 45, gv::nextdn(90), -60}); c.centre = "special"; }
    else { c.lat0 = r.range(-90, 90); c.centre = "random"; }
    int lk = r.irange(0, 9);
    c.lon0 = lk == 0 ? 180 : lk == 1 ? -180 : lk == 2 ? 0 : lk == 3 ? r.range(179, 181) : lk == 4 ? r.range(-181, -179) : lk == 5 ? r.range(-180, 180) + 360 * r.irange(-2, 2) : r.range(-180, 180);
    gv::stratum("pj:ell:" + c.ell); gv::stratum("pj:centre:" + c.centre);
    std::string pre[3] = {H(c.a), H(c.f), std::to_string(c.ex)};
    auto fwd = [&](const char* op, const std::string& kind, double lat, double lon) {
      gv::stratum(std::string("pj:") + op + ":" + kind); gv::run(op, {pre[0], pre[1], pre[2], H(c.lat0), H(c.lon0), H(lat), H(lon)}); };
    auto rev = [&](const char* op, const std::string& kind, double x, double y) {
      gv::stratum(std::string("pj:") + op + ":" + kind); gv::run(op, {pre[0], pre[1], pre[2], H(c.lat0), H(c.lon0), H(x), H(y)}); };
    auto direct = [&](double azi, double s, double& la, double& lo) { g.Direct(c.lat0, c.lon0, azi, s, la, lo); };

    // ---- forward points: one kind per case, the same point through the three projections, plus projection-specific ones
    int pk = r.irange(0, 13); double lat, lon; std::string kind;
    switch (pk) {
    case 0: lat = c.lat0; lon = c.lon0 + (r.coin() ? 0 : 360.0 * r.irange(-1, 1)); kind = "coincident"; break;
    case 1: direct(r.range(-180, 180), m1 * std::pow(10.0, r.range(-9, 0)), lat, lon); kind = "tiny"; break;
    case 2: direct(r.range(-180, 180), m1 * std::pow(10.0, r.range(0, 6)), lat, lon); kind = "near"; break;
    case 3: lat = -c.lat0 + (r.coin() ? 0 : r.range(-1, 1) * std::pow(10.0, r.range(-12, 0))); lon = c.lon0 + 180 + (r.coin() ? 0 : r.range(-1, 1) * std::pow(10.0, r.range(-12, 0)));
            lat = std::fmax(-90.0, std::fmin(90.0, lat)); kind = "antipodal"; break;
    case 4: lat = r.pick(std::vector<double>{90, -90, 0, 0, gv::nextdn(90), -89.99999999, 1e-12}); lon = r.range(-180, 180); kind = "lat-special"; break;
    case 5: lat = r.range(-90, 90); lon = c.lon0 + (r.coin() ? 0 : 180); kind = "on-meridian"; break;
    case 6: lat = r.irange(0, 3) ? r.range(-90, 90) : r.pick(std::vector<double>{0, 90, -90}); lon = c.lon0 + (r.coin() ? 90 : -90) + (r.irange(0, 2) ? 0 : r.range(-1, 1) * std::pow(10.0, r.range(-12, 0))); kind = "dlon90"; break;
    case 7: lat = r.range(-90, 90); lon = c.lon0 + (r.coin() ? 1 : -1) * r.range(90, 180); kind = "far-side"; break;
    case 8: lat = r.range(-90, 90); lon = c.lon0 + (r.coin() ? 180 : -180) + (r.coin() ? 0 : r.range(-1, 1) * std::pow(10.0, r.range(-12, -1))); kind = "dlon180"; break;
    case 9: lat = r.range(-90, 90); lon = r.range(-180, 180) + 360.0 * r.irange(-2, 2); kind = "lon-wrap"; break;
    case 10: lat = r.range(-90, 90); lon = c.lon0 - r.range(0, 60); kind = "west"; break;
    default: lat = r.range(-90, 90); lon = r.range(-180, 180); kind = "random"; break;
    }
    fwd("azeq_fwd", kind, lat, lon); if (i < 2) gv::sample(gv::current_op());
    fwd("gnom_fwd", kind, lat, lon);
    fwd("cass_fwd", kind, lat, lon); if (i < 2) gv::sample(gv::current_op());
    // gnomonic: the horizon, from both sides
    { double azi = r.irange(0, 4) ? r.range(-180, 180) : 90.0 * r.irange(-2, 2), hs = horizon(g, c.a, c.lat0, c.lon0, azi); int hk = r.irange(0, 3); double s; std::string hn;
      if (hk == 0) { s = hs * (1 - std::pow(10.0, r.range(-15, -1))); hn = "horizon-inside"; }
      else if (hk == 1) { s = hs * (1 + std::pow(10.0, r.range(-15, -1))); hn = "horizon-outside"; }
      else if (hk == 2) { s = hs * (1 + r.range(0.001, 0.95)); hn = "beyond-horizon"; }
      else { s = hs * r.range(0.3, 0.999); hn = "inside-far"; }
      direct(azi, s, lat, lon); fwd("gnom_fwd", hn, lat, lon);
      if (i % 4 == 0) { fwd("azeq_fwd", hn, lat, lon); fwd("cass_fwd", hn, lat, lon); } }

    // ---- reverse points
    int rk = r.irange(0, 19); double x, y; std::string rn; double th = r.range(-Math::pi(), Math::pi()), rr;
    if (rk == 0) { x = r.coin() ? 0.0 : -0.0; y = r.coin() ? 0.0 : -0.0; rn = "origin"; }
    else if (rk <= 2) { rr = m1 * std::pow(10.0, r.range(-9, 0)); x = rr * std::sin(th); y = rr * std::cos(th); rn = "tiny"; }
    else if (rk <= 5) { rr = m1 * std::pow(10.0, r.range(0, 6)); x = rr * std::sin(th); y = rr * std::cos(th); rn = "near"; }
    else if (rk <= 7) { rr = m1 * std::pow(10.0, r.range(3, 6.5)); x = r.coin() ? 0.0 : (r.coin() ? rr : -rr); y = x == 0 ? (r.coin() ? rr : -rr) : 0.0; rn = "axis"; }
    else if (rk <= 10) { rr = c.a * r.range(0.01, 1.5); x = rr * std::sin(th); y = rr * std::cos(th); rn = "quarter"; }
    else if (rk <= 13) { rr = Math::pi() * b * r.range(0.5, 0.999); x = rr * std::sin(th); y = rr * std::cos(th); rn = "half"; }
    else { x = c.a * r.range(-1.5, 1.5); y = c.a * r.range(-3, 3); rn = "box"; }
    rev("azeq_rev", rn, x, y); if (i < 2) gv::sample(gv::current_op());
    rev("gnom_rev", rn, x, y);
    rev("cass_rev", rn, x, y);
    // projection-specific reverse inputs
    int sk = r.irange(0, 5);
    if (sk == 0) { rr = c.a * std::pow(10.0, r.range(0, 6)); rev("gnom_rev", "big", rr * std::sin(th), rr * std::cos(th)); }                 // the rho > a branch
    else if (sk == 1) { rr = c.a * (1 + r.range(-1, 1) * std::pow(10.0, r.range(-16, -1))); rev("gnom_rev", "rho=a", rr * std::sin(th), rr * std::cos(th)); }
    else if (sk == 2) { rr = c.a * std::pow(10.0, r.range(6, 300)); rev("gnom_rev", "huge", rr * std::sin(th), rr * std::cos(th)); }
    else if (sk == 3) { rr = Math::pi() * c.a * r.range(1, 20); rev("azeq_rev", "wrap", rr * std::sin(th), rr * std::cos(th)); }
    else if (sk == 4) { rev("cass_rev", "wrap", c.a * r.range(-10, 10), c.a * r.range(-10, 10)); }
    else { double Q = gdist(g, 0, 0, 90, 0); rev("cass_rev", "edge", (r.coin() ? 1 : -1) * Math::pi() / 2 * std::fmin(b, c.a * c.a / b) * r.range(0.9, 0.99), Q * r.range(-1.98, 1.98)); }
  }
}

} // namespace c17proj
