// C12: outputs are independent of the output mask; line objects are self-consistent
#include "common.hpp"
#include <GeographicLib/Geodesic.hpp>
#include <GeographicLib/GeodesicLine.hpp>
#include <GeographicLib/GeodesicExact.hpp>
#include <GeographicLib/GeodesicLineExact.hpp>
#include <GeographicLib/Rhumb.hpp>
#include <GeographicLib/Math.hpp>
using namespace GeographicLib; using namespace gv;

static const double SENT[8] = {1.25e77, 2.25e77, 3.25e77, 4.25e77, 5.25e77, 6.25e77, 7.25e77, 8.25e77};
struct Outs { double v[8]; Outs() { for (int i = 0; i < 8; ++i) v[i] = SENT[i]; } unsigned written() const { unsigned w = 0; for (int i = 0; i < 8; ++i) if (bits(v[i]) != bits(SENT[i])) w |= 1u << i; return w; } };
// order: lat2 lon2 azi2 s12 m12 M12 M21 S12
static const unsigned FLAGS_G[9] = {Geodesic::LATITUDE, Geodesic::LONGITUDE, Geodesic::AZIMUTH, Geodesic::DISTANCE, Geodesic::DISTANCE_IN, Geodesic::REDUCEDLENGTH, Geodesic::GEODESICSCALE, Geodesic::AREA, Geodesic::LONG_UNROLL};
static const unsigned FLAGS_E[9] = {GeodesicExact::LATITUDE, GeodesicExact::LONGITUDE, GeodesicExact::AZIMUTH, GeodesicExact::DISTANCE, GeodesicExact::DISTANCE_IN, GeodesicExact::REDUCEDLENGTH, GeodesicExact::GEODESICSCALE, GeodesicExact::AREA, GeodesicExact::LONG_UNROLL};
static unsigned build(const unsigned* fl, unsigned sel) { unsigned m = 0; for (int i = 0; i < 9; ++i) if (sel & (1u << i)) m |= fl[i]; return m; }

static const Geodesic& G() { static const Geodesic g(6378137, 1 / 298.257223563); return g; }
static const Geodesic& X() { static const Geodesic g(6378137, 1 / 298.257223563, true); return g; }
static const GeodesicExact& E() { static const GeodesicExact g(6378137, 1 / 298.257223563); return g; }

static Reg r_linemask("linemask", [](const Args& a) {
  unsigned caps = unsigned(std::stoul(a[1])), om = unsigned(std::stoul(a[2])); bool arc = a[3] == "1"; Outs o; double r;
  if (a[0] == "E") { GeodesicLineExact l(E(), 40, 10, 30, caps); r = l.GenPosition(arc, arc ? 20.0 : 2e6, om, o.v[0], o.v[1], o.v[2], o.v[3], o.v[4], o.v[5], o.v[6], o.v[7]); }
  else { GeodesicLine l(a[0] == "G" ? G() : X(), 40, 10, 30, caps); r = l.GenPosition(arc, arc ? 20.0 : 2e6, om, o.v[0], o.v[1], o.v[2], o.v[3], o.v[4], o.v[5], o.v[6], o.v[7]); }
  emit(std::to_string(o.written()) + " " + (std::isnan(r) ? "1" : "0"));
});
static Reg r_invmask("invmask", [](const Args& a) {
  unsigned om = unsigned(std::stoul(a[1])); Outs o; // slots: s12->3, azi1->0 (reported as azi2 slot 2 together), azi2->2, m12..S12
  double salp1 = SENT[0], calp1 = SENT[0], salp2 = SENT[0], calp2 = SENT[0], azi1 = SENT[1], azi2 = SENT[2];
  (void)salp1; (void)calp1; (void)salp2; (void)calp2;
  if (a[0] == "R") { double s12 = SENT[3], az = SENT[2], S12 = SENT[7]; Rhumb::WGS84().GenInverse(10, 20, 30, 50, om, s12, az, S12); o.v[3] = s12; o.v[2] = az; o.v[7] = S12; }
  else if (a[0] == "E") { E().GenInverse(10, 20, 30, 50, om, o.v[3], azi1, azi2, o.v[4], o.v[5], o.v[6], o.v[7]); o.v[2] = azi2; if ((bits(azi1) != bits(SENT[1])) != (bits(azi2) != bits(SENT[2]))) bad("azimuth-pair", "azi1 and azi2 not written together"); }
  else { (a[0] == "G" ? G() : X()).GenInverse(10, 20, 30, 50, om, o.v[3], azi1, azi2, o.v[4], o.v[5], o.v[6], o.v[7]); o.v[2] = azi2; if ((bits(azi1) != bits(SENT[1])) != (bits(azi2) != bits(SENT[2]))) bad("azimuth-pair", "azi1 and azi2 not written together"); }
  emit(std::to_string(o.written()));
});
static Reg r_dirmask("dirmask", [](const Args& a) {
  unsigned om = unsigned(std::stoul(a[1])); bool arc = a[2] == "1"; Outs o;
  if (a[0] == "R") { Rhumb::WGS84().GenDirect(10, 20, 30, 2e6, om, o.v[0], o.v[1], o.v[7]); }
  else if (a[0] == "E") E().GenDirect(10, 20, 30, arc, arc ? 20.0 : 2e6, om, o.v[0], o.v[1], o.v[2], o.v[3], o.v[4], o.v[5], o.v[6], o.v[7]);
  else (a[0] == "G" ? G() : X()).GenDirect(10, 20, 30, arc, arc ? 20.0 : 2e6, om, o.v[0], o.v[1], o.v[2], o.v[3], o.v[4], o.v[5], o.v[6], o.v[7]);
  emit(std::to_string(o.written()));
});

// ---- values do not depend on the mask / overload / extra capabilities; line consistency ----
template<class Geod, class Line> static void values(const Geod& g, const unsigned* fl, double lat1, double lon1, double azi1, double len, bool arc, uint64_t sub) {
  unsigned ALLM = build(fl, 0xff & ~0x10u) | fl[4];  // everything incl. DISTANCE_IN
  for (int unroll = 0; unroll < 2; ++unroll) {
    Outs ref; Line lall(g, lat1, lon1, azi1, ALLM);
    double rr = lall.GenPosition(arc, len, ALLM | (unroll ? fl[8] : 0), ref.v[0], ref.v[1], ref.v[2], ref.v[3], ref.v[4], ref.v[5], ref.v[6], ref.v[7]);
    for (unsigned sel = 1; sel < 256; ++sel) {
      if ((sel * 2654435761u + unsigned(sub)) % 4 != 0 && sel != 0x60 && sel != 0x20 && sel != 0x40 && sel != 0x80 && sel != 0x28) continue;  // a quarter of the masks per case + the classic offenders
      unsigned om = build(fl, sel & ~0x10u) | (unroll ? fl[8] : 0);
      // (a) line with full capabilities
      Outs o; double r1 = lall.GenPosition(arc, len, om, o.v[0], o.v[1], o.v[2], o.v[3], o.v[4], o.v[5], o.v[6], o.v[7]);
      // (b) line created with just these capabilities (+ DISTANCE_IN when needed)
      Outs p; Line lmin(g, lat1, lon1, azi1, om | (arc ? 0u : fl[4])); double r2 = lmin.GenPosition(arc, len, om, p.v[0], p.v[1], p.v[2], p.v[3], p.v[4], p.v[5], p.v[6], p.v[7]);
      // (c) GenDirect
      Outs q; double r3 = g.GenDirect(lat1, lon1, azi1, arc, len, om, q.v[0], q.v[1], q.v[2], q.v[3], q.v[4], q.v[5], q.v[6], q.v[7]);
      for (int i = 0; i < 8; ++i) {
        const Outs* all3[3] = {&o, &p, &q}; const char* nm[3] = {"GenPosition(full caps)", "GenPosition(min caps)", "GenDirect"};
        for (int k = 0; k < 3; ++k) {
          double v = all3[k]->v[i]; if (bits(v) == bits(SENT[i])) continue;
          if (bits(v) != bits(ref.v[i]) && !(std::isnan(v) && std::isnan(ref.v[i])))
            bad("value-depends-on-mask", std::string(nm[k]) + ": output " + std::to_string(i) + " with mask selection " + std::to_string(sel) + (unroll ? "+unroll" : "") + (arc ? " arcmode" : " distance") + " = " + hx(v) + " but " + hx(ref.v[i]) + " with the full mask");
        }
      }
      if (bits(r1) != bits(rr) || bits(r2) != bits(rr) || bits(r3) != bits(rr)) bad("value-depends-on-mask", "returned arc length depends on the mask");
    }
    // arc <-> distance consistency and third point
    if (unroll == 0 && std::isfinite(ref.v[3])) {
      double a12 = arc ? len : rr, s12 = ref.v[3];
      double la, lo, az, la2, lo2, az2; lall.ArcPosition(a12, la, lo, az); lall.Position(s12, la2, lo2, az2);
      double d = std::hypot(la - la2, Math::AngDiff(lo, lo2) * std::cos(la * Math::degree())) * 111e3;
      if (std::fabs(la) < 89.9 && !(d < 100e-9 * std::fmax(1.0, std::fabs(a12) / 180))) bad("arc-vs-distance", "ArcPosition(a12) and Position(s12) differ by " + std::to_string(d * 1e9) + " nm");
      Line l3 = g.DirectLine(lat1, lon1, azi1, s12); double la3, lo3; l3.Position(l3.Distance(), la3, lo3);
      double la4, lo4; g.Direct(lat1, lon1, azi1, s12, la4, lo4);
      if (bits(la3) != bits(la4) || bits(lo3) != bits(lo4)) bad("third-point", "DirectLine(...).Position(Distance()) differs from Direct");
      Line l4 = g.ArcDirectLine(lat1, lon1, azi1, a12); double la5, lo5, az5; l4.ArcPosition(l4.Arc(), la5, lo5, az5);
      if (bits(la5) != bits(la) || bits(lo5) != bits(lo)) bad("third-point", "ArcDirectLine(...).ArcPosition(Arc()) differs from ArcPosition");
      Line l5 = g.InverseLine(lat1, lon1, la2, lo2); double la6, lo6; l5.Position(l5.Distance(), la6, lo6);
      double d6 = std::hypot(la6 - la2, Math::AngDiff(lo6, lo2) * std::cos(la2 * Math::degree())) * 111e3;
      if (std::fabs(la2) < 89.9 && std::fabs(s12) < 1.9e7 && !(d6 < 100e-9)) bad("third-point", "InverseLine(...).Position(Distance()) misses point 2 by " + std::to_string(d6 * 1e9) + " nm");
      Line l6(g, lat1, lon1, azi1); l6.SetDistance(s12); if (bits(l6.Distance()) != bits(s12)) bad("third-point", "SetDistance/Distance"); l6.SetArc(a12); if (bits(l6.Arc()) != bits(a12)) bad("third-point", "SetArc/Arc");
      // a line lacking DISTANCE_IN returns NaN for a distance query, and leaves outputs untouched
      Line l7(g, lat1, lon1, azi1, fl[0] | fl[1]); Outs u; double r7 = l7.GenPosition(false, s12, ALLM, u.v[0], u.v[1], u.v[2], u.v[3], u.v[4], u.v[5], u.v[6], u.v[7]);
      if (!std::isnan(r7) || u.written()) bad("missing-capability", "line without DISTANCE_IN located a point by distance");
    }
  }
}
template<class Geod> static void inverse_values(const Geod& g, const unsigned* fl, double lat1, double lon1, double lat2, double lon2) {
  unsigned ALLM = build(fl, 0xef);
  double s, a1, a2, m, M12, M21, S; double a12 = g.GenInverse(lat1, lon1, lat2, lon2, ALLM, s, a1, a2, m, M12, M21, S);
  double ref[7] = {s, a1, a2, m, M12, M21, S};
  for (unsigned sel = 1; sel < 256; sel += 1) { if (sel & 0x10) continue;
    unsigned om = build(fl, sel); double v[7] = {SENT[0], SENT[1], SENT[2], SENT[3], SENT[4], SENT[5], SENT[6]};
    double b12 = g.GenInverse(lat1, lon1, lat2, lon2, om, v[0], v[1], v[2], v[3], v[4], v[5], v[6]);
    if (bits(b12) != bits(a12)) bad("value-depends-on-mask", "GenInverse a12 depends on the mask");
    for (int i = 0; i < 7; ++i) { if (bits(v[i]) == bits(SENT[i])) continue;
      double tol = (i == 3 ? 1e-9 + 8 * ulp(ref[i]) : (i == 4 || i == 5) ? 4e-15 : 0);   // m12, M12, M21: "beyond round-off" (J12 is summed differently without DISTANCE)
      if (!(std::fabs(v[i] - ref[i]) <= tol) && !(std::isnan(v[i]) && std::isnan(ref[i]))) bad("value-depends-on-mask", "GenInverse output " + std::to_string(i) + " with mask selection " + std::to_string(sel) + " = " + hx(v[i]) + " but " + hx(ref[i]) + " with the full mask"); }
  }
  // overloads
  double s2; g.Inverse(lat1, lon1, lat2, lon2, s2); if (bits(s2) != bits(s)) bad("overload", "Inverse(s12) overload differs");
  double s3, b1, b2, m3; g.Inverse(lat1, lon1, lat2, lon2, s3, b1, b2, m3); if (bits(s3) != bits(s) || bits(b1) != bits(a1) || std::fabs(m3 - m) > 1e-9 + 8 * ulp(m)) bad("overload", "Inverse(s12, azi1, azi2, m12) overload differs");
}
static void rhumb_values(double lat1, double lon1, double azi, double s12) {
  const Rhumb& r = Rhumb::WGS84(); const unsigned fl[4] = {Rhumb::LATITUDE, Rhumb::LONGITUDE, Rhumb::AREA, Rhumb::LONG_UNROLL};
  for (int un = 0; un < 2; ++un) {
    double rl = SENT[0], ro = SENT[1], rS = SENT[7]; r.GenDirect(lat1, lon1, azi, s12, fl[0] | fl[1] | fl[2] | (un ? fl[3] : 0), rl, ro, rS);
    for (unsigned sel = 1; sel < 8; ++sel) { unsigned om = (sel & 1 ? fl[0] : 0) | (sel & 2 ? fl[1] : 0) | (sel & 4 ? fl[2] : 0) | (un ? fl[3] : 0);
      double l = SENT[0], o = SENT[1], S = SENT[7]; r.GenDirect(lat1, lon1, azi, s12, om, l, o, S);
      double l2 = SENT[0], o2 = SENT[1], S2 = SENT[7]; r.Line(lat1, lon1, azi).GenPosition(s12, om, l2, o2, S2);
      auto chk = [&](double v, double rf, double sent, const char* n) { if (bits(v) != bits(sent) && bits(v) != bits(rf) && !(std::isnan(v) && std::isnan(rf))) bad("value-depends-on-mask", std::string("Rhumb ") + n + " depends on the mask (selection " + std::to_string(sel) + (un ? "+unroll)" : ")")); };
      chk(l, rl, SENT[0], "lat2"); chk(o, ro, SENT[1], "lon2"); chk(S, rS, SENT[7], "S12"); chk(l2, rl, SENT[0], "line lat2"); chk(o2, ro, SENT[1], "line lon2"); chk(S2, rS, SENT[7], "line S12");
      if (((sel & 1) != 0) != (bits(l) != bits(SENT[0])) || ((sel & 2) != 0) != (bits(o) != bits(SENT[1])) || ((sel & 4) != 0) != (bits(S) != bits(SENT[7]))) bad("written-set", "Rhumb::GenDirect wrote an unrequested output or skipped a requested one");
    }
  }
  // S12 must not depend on LONG_UNROLL
  double l, o, S1, S2; r.GenDirect(lat1, lon1, azi, s12, fl[0] | fl[1] | fl[2], l, o, S1); r.GenDirect(lat1, lon1, azi, s12, fl[0] | fl[1] | fl[2] | fl[3], l, o, S2);
  if (bits(S1) != bits(S2) && !(std::isnan(S1) && std::isnan(S2))) bad("value-depends-on-mask", "Rhumb S12 depends on LONG_UNROLL");
}
static Reg r_vals("maskvalues", [](const Args& a) {
  double lat1 = unhx(a[1]), lon1 = unhx(a[2]), azi1 = unhx(a[3]), len = unhx(a[4]); bool arc = a[5] == "1"; uint64_t sub = std::strtoull(a[6].c_str(), nullptr, 10);
  if (a[0] == "G") values<Geodesic, GeodesicLine>(G(), FLAGS_G, lat1, lon1, azi1, len, arc, sub);
  else if (a[0] == "X") values<Geodesic, GeodesicLine>(X(), FLAGS_G, lat1, lon1, azi1, len, arc, sub);
  else if (a[0] == "E") values<GeodesicExact, GeodesicLineExact>(E(), FLAGS_E, lat1, lon1, azi1, len, arc, sub);
  else if (a[0] == "R") rhumb_values(lat1, lon1, azi1, arc ? len * 1e5 : len);
  else if (a[0] == "IG") inverse_values(G(), FLAGS_G, lat1, lon1, azi1 / 2, len);     // (lat1, lon1, lat2 = azi/2, lon2 = len)
  else if (a[0] == "IE") inverse_values(E(), FLAGS_E, lat1, lon1, azi1 / 2, len);
  emit("done");
});

void gv::generate(const std::string& tier, uint64_t seed) {
  Rng r(seed * 86028121 + 12);
  bool th = tier == "thorough";
  // (1) written sets: all 512 output masks x capability sets x arcmode x solver
  const char* sv[3] = {"G", "X", "E"};
  int ncaps = th ? 512 : 40;
  for (int s = 0; s < 3; ++s) for (int c = 0; c < ncaps; ++c) {
    unsigned csel = th ? unsigned(c) : unsigned(r.next() % 512); if (!th && c < 10) csel = std::vector<unsigned>{0, 511, 16, 1, 2, 8, 24, 0x1e0, 0x10 | 0x80, 0xef}[c];
    const unsigned* fl = s == 2 ? FLAGS_E : FLAGS_G; unsigned caps = build(fl, csel);
    for (unsigned osel = 0; osel < 512; ++osel) { if (!th && (osel * 40503u + c) % 4 != 0) continue;
      for (int arc = 0; arc < 2; ++arc) run("linemask", {sv[s], std::to_string(caps), std::to_string(build(fl, osel)), arc ? "1" : "0"}); }
  }
  for (unsigned osel = 0; osel < 512; ++osel) for (int s = 0; s < 4; ++s) {
    const char* svi[4] = {"G", "X", "E", "R"}; const unsigned* fl = s == 2 ? FLAGS_E : FLAGS_G;
    unsigned om = s == 3 ? (osel << 7) : build(fl, osel);
    run("invmask", {svi[s], std::to_string(om)}); run("dirmask", {svi[s], std::to_string(om), "0"}); if (s < 3) run("dirmask", {svi[s], std::to_string(om), "1"});
  }
  // (2) values
  long n = th ? 400 : 24;
  for (long i = 0; i < n; ++i) {
    double lat1 = r.irange(0, 5) ? r.range(-89, 89) : r.pick(std::vector<double>{0, 90, -90, 45}), lon1 = r.irange(0, 4) ? r.range(-180, 180) : r.pick(std::vector<double>{170, -179, 200, 0, 359});
    double azi = r.irange(0, 5) ? r.range(-180, 180) : r.pick(std::vector<double>{0, 90, 180, -90, 1e-9});
    bool arc = r.coin(); double len = arc ? r.range(-400, 400) : r.range(-3e7, 5e7); if (i % 7 == 0) len = arc ? 1e-7 : 1e-3;
    const char* kinds[6] = {"G", "X", "E", "R", "IG", "IE"};
    std::string k = kinds[i % 6];
    if (k[0] == 'I') run("maskvalues", {k, hx(lat1), hx(lon1), hx(r.range(-178, 178)), hx(r.range(-180, 180)), "0", std::to_string(i)});
    else if (k == "R") run("maskvalues", {k, hx(lat1 * 0.9), hx(lon1), hx(azi), hx(arc ? r.range(-200, 200) : r.range(-2.5e7, 2.5e7)), arc ? "1" : "0", std::to_string(i)});
    else run("maskvalues", {k, hx(lat1), hx(lon1), hx(azi), hx(len), arc ? "1" : "0", std::to_string(i)});
    stratum("values-" + k);
    if (i < 3) sample(current_op());
  }
  // (3) rhumb lines that span more than half / more than a whole turn of longitude (the wrapped and the unrolled
  //     longitude differ there, so an output computed from the wrong one shows up): cheap, so many of them
  long nr = th ? 600 : 60;
  for (long i = 0; i < nr; ++i) {
    double lat1 = r.range(-70, 70), lon1 = r.irange(0, 3) ? r.range(-180, 180) : r.pick(std::vector<double>{179, -179, 0, 359});
    double azi = (r.coin() ? 90 : -90) + r.range(-40, 40);
    double s12 = (r.coin() ? 1 : -1) * r.range(1.2e7, i % 3 == 0 ? 9e7 : 3e7);
    run("maskvalues", {"R", hx(lat1), hx(lon1), hx(azi), hx(s12), "0", std::to_string(i)});
    stratum("values-R-long");
  }
}
int main(int argc, char** argv) { return gv::main_(argc, argv); }
