// C12: outputs are independent of the output mask; line objects are self-consistent
#include "common.hpp"
#include <GeographicLib/Geodesic.hpp>
#include <GeographicLib/GeodesicLine.hpp>
#include <GeographicLib/GeodesicExact.hpp>
#include <GeographicLib/GeodesicLineExact.hpp>
#include <GeographicLib/Rhumb.hpp>
#include <GeographicLib/Math.hpp>
#include <algorithm>
#include <new>
using namespace GeographicLib; using namespace gv;

static const double SENT[8] = {1.25e77, 2.25e77, 3.25e77, 4.25e77, 5.25e77, 6.25e77, 7.25e77, 8.25e77};
struct Outs { double v[8]; Outs() { for (int i = 0; i < 8; ++i) v[i] = SENT[i]; } unsigned written() const { unsigned w = 0; for (int i = 0; i < 8; ++i) if (bits(v[i]) != bits(SENT[i])) w |= 1u << i; return w; } };
// order: lat2 lon2 azi2 s12 m12 M12 M21 S12
static const unsigned FLAGS_G[9] = {Geodesic::LATITUDE, Geodesic::LONGITUDE, Geodesic::AZIMUTH, Geodesic::DISTANCE, Geodesic::DISTANCE_IN, Geodesic::REDUCEDLENGTH, Geodesic::GEODESICSCALE, Geodesic::AREA, Geodesic::LONG_UNROLL};
static const unsigned FLAGS_E[9] = {GeodesicExact::LATITUDE, GeodesicExact::LONGITUDE, GeodesicExact::AZIMUTH, GeodesicExact::DISTANCE, GeodesicExact::DISTANCE_IN, GeodesicExact::REDUCEDLENGTH, GeodesicExact::GEODESICSCALE, GeodesicExact::AREA, GeodesicExact::LONG_UNROLL};
static unsigned build(const unsigned* fl, unsigned sel) { unsigned m = 0; for (int i = 0; i < 9; ++i) if (sel & (1u << i)) m |= fl[i]; return m; }
// index into FLAGS_x of the flag that governs output slot i (lat2 lon2 azi2 s12 m12 M12 M21 S12)
static const int SLOTFLAG[8] = {0, 1, 2, 3, 5, 6, 6, 7};
static unsigned slotmask(const unsigned* fl, unsigned slots) { unsigned m = 0; for (int i = 0; i < 8; ++i) if (slots & (1u << i)) m |= fl[SLOTFLAG[i]]; return m; }
static bool same(double a, double b) { return bits(a) == bits(b) || (std::isnan(a) && std::isnan(b)); }
static std::string tk(double x) { return std::isnan(x) ? "nan" : hx(x); }
static double untk(const std::string& s) { return s == "nan" ? Math::NaN() : unhx(s); }

// A default-constructed line object built over memory painted with `fill`: the default constructors set `_caps` only, so the
// other members are whatever the memory held.  fill = 0 / 1 make the member `bool _exact` of GeodesicLine a valid false / true
// (both branches of GenPosition, deterministically); fill = 7 is the garbage a stack usually holds (see finding F66).
template<class Line> struct DefLine {
  alignas(Line) unsigned char buf[sizeof(Line)];
  Line* p;
  explicit DefLine(int fill) { std::memset(buf, fill, sizeof buf); asm volatile("" : : "r"(buf) : "memory"); p = new (buf) Line(); }
  ~DefLine() { p->~Line(); }
};
// Run `body` in a forked child and forward what it prints.  Used for the operations on a *default-constructed* line: if the
// sanitizer aborts the child, the parent reports it as a failing input of this op (#BAD) and the remaining cases still run.
#include <sys/wait.h>
template<class F> static void in_child(F body) {
  std::fflush(stdout); std::fflush(stderr);
  int po[2], pe[2]; if (pipe(po) != 0 || pipe(pe) != 0) { body(); return; }
  pid_t pid = fork();
  if (pid < 0) { body(); return; }
  if (pid == 0) { close(po[0]); close(pe[0]); dup2(po[1], 1); dup2(pe[1], 2); body(); std::fflush(stdout); _exit(0); }
  close(po[1]); close(pe[1]);
  std::string so, se; char buf[4096]; ssize_t n;
  while ((n = read(po[0], buf, sizeof buf)) > 0) so.append(buf, size_t(n));
  while ((n = read(pe[0], buf, sizeof buf)) > 0) se.append(buf, size_t(n));
  close(po[0]); close(pe[0]);
  int st = 0; waitpid(pid, &st, 0);
  std::istringstream is(so); std::string line;
  while (std::getline(is, line)) if (line.rfind("#CRASH", 0) != 0) std::printf("%s\n", line.c_str());
  if (!(WIFEXITED(st) && WEXITSTATUS(st) == 0)) {
    std::string first = se.substr(0, se.find('\n')); for (char& ch : first) if (ch == ':' && (&ch)[1] == ':') ch = ';';
    bad("sanitizer-abort", "the operation on the line object was aborted by the sanitizer: " + first.substr(0, 300));
  }
}

// Paint the part of the stack the next call will use with a given double: a local that the library reads before writing it
// then has a reproducible value (negative / positive / NaN) instead of whatever the previous call left there.
__attribute__((noinline)) static void paint_stack(double v) {
  volatile double a[2048]; for (int i = 0; i < 2048; ++i) a[i] = v; asm volatile("" : : "r"(a) : "memory");
}
// ellipsoids: 0 = WGS84, 1 = f 0.02 (|f| > 0.01: the Newton correction of the series line is active), 2 = prolate −0.02, 3 = sphere
static const double ELLF[4] = {1 / 298.257223563, 0.02, -0.02, 0};
static int ellOf(const std::string& sv) { return sv.size() > 1 ? std::min(3, std::max(0, sv[1] - '0')) : 0; }
static const Geodesic& G(int k = 0) { static const Geodesic g[4] = {Geodesic(6378137, ELLF[0]), Geodesic(6378137, ELLF[1]), Geodesic(6378137, ELLF[2]), Geodesic(6378137, ELLF[3])}; return g[k]; }
static const Geodesic& X(int k = 0) { static const Geodesic g[4] = {Geodesic(6378137, ELLF[0], true), Geodesic(6378137, ELLF[1], true), Geodesic(6378137, ELLF[2], true), Geodesic(6378137, ELLF[3], true)}; return g[k]; }
static const GeodesicExact& E(int k = 0) { static const GeodesicExact g[4] = {GeodesicExact(6378137, ELLF[0]), GeodesicExact(6378137, ELLF[1]), GeodesicExact(6378137, ELLF[2]), GeodesicExact(6378137, ELLF[3])}; return g[k]; }
// rhumb: "R" series, "S" exact (Rhumb(a, f, true))
static const Rhumb& RH(const std::string& sv) {
  static const Rhumb r[8] = {Rhumb(6378137, ELLF[0]), Rhumb(6378137, ELLF[1]), Rhumb(6378137, ELLF[2]), Rhumb(6378137, ELLF[3]),
                             Rhumb(6378137, ELLF[0], true), Rhumb(6378137, ELLF[1], true), Rhumb(6378137, ELLF[2], true), Rhumb(6378137, ELLF[3], true)};
  return r[(sv[0] == 'S' ? 4 : 0) + ellOf(sv)];
}
static bool isRhumb(const std::string& sv) { return sv[0] == 'R' || sv[0] == 'S'; }

// ---------------------------------------------------------------------------------------------------------------------
// (1) which outputs are written
// ---------------------------------------------------------------------------------------------------------------------
static Reg r_linemask("linemask", [](const Args& a) {
  unsigned caps = unsigned(std::stoul(a[1])), om = unsigned(std::stoul(a[2])); bool arc = a[3] == "1"; Outs o; double r; int k = ellOf(a[0]);
  if (a[0][0] == 'E') { GeodesicLineExact l(E(k), 40, 10, 30, caps); r = l.GenPosition(arc, arc ? 20.0 : 2e6, om, o.v[0], o.v[1], o.v[2], o.v[3], o.v[4], o.v[5], o.v[6], o.v[7]); }
  else { GeodesicLine l(a[0][0] == 'G' ? G(k) : X(k), 40, 10, 30, caps); r = l.GenPosition(arc, arc ? 20.0 : 2e6, om, o.v[0], o.v[1], o.v[2], o.v[3], o.v[4], o.v[5], o.v[6], o.v[7]); }
  emit(std::to_string(o.written()) + " " + (std::isnan(r) ? "1" : "0"));
});
// a default-constructed line: Init() is false, nothing can be located
template<class Line> static void uninit_line(const unsigned* fl, unsigned om, bool arc, int fill) {
  DefLine<Line> dl(fill); const Line& l = *dl.p; Outs o; double r = l.GenPosition(arc, arc ? 20.0 : 2e6, om, o.v[0], o.v[1], o.v[2], o.v[3], o.v[4], o.v[5], o.v[6], o.v[7]);
  // the overloads and the accessors of an uninitialised object
  Outs p; double r2 = l.Position(2e6, p.v[0], p.v[1], p.v[2], p.v[4], p.v[5], p.v[6], p.v[7]); l.ArcPosition(20, p.v[0], p.v[1], p.v[2], p.v[3], p.v[4], p.v[5], p.v[6], p.v[7]);
  if (p.written() || !std::isnan(r2)) bad("uninitialised-line", "Position/ArcPosition of a default-constructed line wrote an output or returned a number");
  double sa = SENT[0], ca = SENT[1]; l.Azimuth(sa, ca); l.EquatorialAzimuth(sa, ca);
  if (bits(sa) != bits(SENT[0]) || bits(ca) != bits(SENT[1])) bad("uninitialised-line", "Azimuth(s, c) of a default-constructed line wrote its arguments");
  if (!(std::isnan(l.Latitude()) && std::isnan(l.Longitude()) && std::isnan(l.Azimuth()) && std::isnan(l.EquatorialAzimuth()) && std::isnan(l.EquatorialArc()) &&
        std::isnan(l.EquatorialRadius()) && std::isnan(l.Flattening()) && std::isnan(l.Distance()) && std::isnan(l.Arc()) && std::isnan(l.GenDistance(false)) && std::isnan(l.GenDistance(true))))
    bad("uninitialised-line", "an accessor of a default-constructed line returned a number");
  if (l.Init() || l.Capabilities() != 0u || l.Capabilities(fl[0])) bad("uninitialised-line", "Init()/Capabilities() of a default-constructed line");
  emit(std::to_string(o.written()) + " " + (std::isnan(r) ? "1" : "0"));
}
static Reg r_uninitmask("uninitmask", [](const Args& a) {
  unsigned om = unsigned(std::stoul(a[1])); bool arc = a[2] == "1"; int fill = std::stoi(a[3]);
  auto body = [&] { if (a[0][0] == 'E') uninit_line<GeodesicLineExact>(FLAGS_E, om, arc, fill); else uninit_line<GeodesicLine>(FLAGS_G, om, arc, fill); };
  if (fill > 1 && a[0][0] != 'E') in_child(body); else body();
});
static Reg r_invmask("invmask", [](const Args& a) {
  unsigned om = unsigned(std::stoul(a[1])); Outs o; int k = ellOf(a[0]); // slots: s12->3, azi1/azi2 -> 2 (must be written together), m12..S12
  double azi1 = SENT[1], azi2 = SENT[2];
  if (isRhumb(a[0])) { double s12 = SENT[3], az = SENT[2], S12 = SENT[7]; RH(a[0]).GenInverse(10, 20, 30, 50, om, s12, az, S12); o.v[3] = s12; o.v[2] = az; o.v[7] = S12; }
  else if (a[0][0] == 'E') { E(k).GenInverse(10, 20, 30, 50, om, o.v[3], azi1, azi2, o.v[4], o.v[5], o.v[6], o.v[7]); o.v[2] = azi2; if ((bits(azi1) != bits(SENT[1])) != (bits(azi2) != bits(SENT[2]))) bad("azimuth-pair", "azi1 and azi2 not written together"); }
  else { (a[0][0] == 'G' ? G(k) : X(k)).GenInverse(10, 20, 30, 50, om, o.v[3], azi1, azi2, o.v[4], o.v[5], o.v[6], o.v[7]); o.v[2] = azi2; if ((bits(azi1) != bits(SENT[1])) != (bits(azi2) != bits(SENT[2]))) bad("azimuth-pair", "azi1 and azi2 not written together"); }
  emit(std::to_string(o.written()));
});
static Reg r_dirmask("dirmask", [](const Args& a) {
  unsigned om = unsigned(std::stoul(a[1])); bool arc = a[2] == "1"; Outs o; int k = ellOf(a[0]);
  if (isRhumb(a[0])) { RH(a[0]).GenDirect(10, 20, 30, 2e6, om, o.v[0], o.v[1], o.v[7]); }
  else if (a[0][0] == 'E') E(k).GenDirect(10, 20, 30, arc, arc ? 20.0 : 2e6, om, o.v[0], o.v[1], o.v[2], o.v[3], o.v[4], o.v[5], o.v[6], o.v[7]);
  else (a[0][0] == 'G' ? G(k) : X(k)).GenDirect(10, 20, 30, arc, arc ? 20.0 : 2e6, om, o.v[0], o.v[1], o.v[2], o.v[3], o.v[4], o.v[5], o.v[6], o.v[7]);
  emit(std::to_string(o.written()));
});
// RhumbLine::GenPosition, on either side of the pole (beyond it lon2 and S12 are NaN but still *written*)
static Reg r_rlinemask("rlinemask", [](const Args& a) {
  unsigned om = unsigned(std::stoul(a[1])); double s12 = unhx(a[2]); Outs o;
  RhumbLine l = RH(a[0]).Line(10, 20, 30); l.GenPosition(s12, om, o.v[0], o.v[1], o.v[7]);
  emit(std::to_string(o.written()));
});
// Capabilities() / Capabilities(testcaps)
static Reg r_capstest("capstest", [](const Args& a) {
  unsigned caps = unsigned(std::stoul(a[1])), tc = unsigned(std::stoul(a[2])); int k = ellOf(a[0]); unsigned c; bool t, t0;
  if (a[0][0] == 'E') { GeodesicLineExact l(E(k), 40, 10, 30, caps); c = l.Capabilities(); t = l.Capabilities(tc); t0 = l.Init(); }
  else { GeodesicLine l(a[0][0] == 'G' ? G(k) : X(k), 40, 10, 30, caps); c = l.Capabilities(); t = l.Capabilities(tc); t0 = l.Init(); }
  emit(std::to_string(c) + " " + (t ? "1" : "0") + " " + (t0 ? "1" : "0"));
});

// ---------------------------------------------------------------------------------------------------------------------
// (2) values do not depend on the mask / overload / extra capabilities; line consistency
// ---------------------------------------------------------------------------------------------------------------------
template<class Geod, class Line> static void values(const Geod& g, const unsigned* fl, int ell, double lat1, double lon1, double azi1, double len, bool arc, uint64_t sub) {
  unsigned ALLM = build(fl, 0xff & ~0x10u) | fl[4];  // everything incl. DISTANCE_IN
  for (int unroll = 0; unroll < 2; ++unroll) {
    Outs ref; Line lall(g, lat1, lon1, azi1, ALLM);
    double rr = lall.GenPosition(arc, len, ALLM | (unroll ? fl[8] : 0), ref.v[0], ref.v[1], ref.v[2], ref.v[3], ref.v[4], ref.v[5], ref.v[6], ref.v[7]);
    for (unsigned sel = 1; sel < 256; ++sel) {
      if ((sel * 2654435761u + unsigned(sub)) % 4 != 0 && sel != 0x60 && sel != 0x20 && sel != 0x40 && sel != 0x80 && sel != 0x28) continue;  // a quarter of the masks per case + the classic offenders
      unsigned om = build(fl, sel & ~0x10u) | (unroll ? fl[8] : 0);
      // (a) line with full capabilities
      Outs o; double r1 = lall.GenPosition(arc, len, om, o.v[0], o.v[1], o.v[2], o.v[3], o.v[4], o.v[5], o.v[6], o.v[7]);
      // (b) line created with just these capabilities (+ DISTANCE_IN when needed)
      Outs p; Line lmin(g, lat1, lon1, azi1, om | (arc ? 0u : fl[4])); double r2 = lmin.GenPosition(arc, len, om, p.v[0], p.v[1], p.v[2], p.v[3], p.v[4], p.v[5], p.v[6], p.v[7]);
      // (c) GenDirect
      Outs q; double r3 = g.GenDirect(lat1, lon1, azi1, arc, len, om, q.v[0], q.v[1], q.v[2], q.v[3], q.v[4], q.v[5], q.v[6], q.v[7]);
      // (d) a line with some further capabilities (neither minimal nor full), asked with the full mask: the outputs it can give
      unsigned extra = build(fl, unsigned((sel * 40503u + sub * 7u) & 0xefu));
      Outs w; Line lmid(g, lat1, lon1, azi1, om | extra | (arc ? 0u : fl[4])); double r4 = lmid.GenPosition(arc, len, ALLM | (unroll ? fl[8] : 0), w.v[0], w.v[1], w.v[2], w.v[3], w.v[4], w.v[5], w.v[6], w.v[7]);
      for (int i = 0; i < 8; ++i) {
        const Outs* all4[4] = {&o, &p, &q, &w}; const char* nm[4] = {"GenPosition(full caps)", "GenPosition(min caps)", "GenDirect", "GenPosition(intermediate caps, full mask)"};
        for (int k = 0; k < 4; ++k) {
          double v = all4[k]->v[i]; if (bits(v) == bits(SENT[i])) continue;
          if (!same(v, ref.v[i]))
            bad("value-depends-on-mask", std::string(nm[k]) + ": output " + std::to_string(i) + " with mask selection " + std::to_string(sel) + (unroll ? "+unroll" : "") + (arc ? " arcmode" : " distance") + " = " + hx(v) + " but " + hx(ref.v[i]) + " with the full mask");
        }
      }
      if (!same(r1, rr) || !same(r2, rr) || !same(r3, rr) || !same(r4, rr)) bad("value-depends-on-mask", "returned arc length depends on the mask");
    }
    // arc <-> distance consistency and third point
    if (unroll == 0 && std::isfinite(ref.v[3])) {
      double a12 = arc ? len : rr, s12 = ref.v[3];
      double la, lo, az, la2, lo2, az2; lall.ArcPosition(a12, la, lo, az); lall.Position(s12, la2, lo2, az2);
      double d = std::hypot(la - la2, Math::AngDiff(lo, lo2) * std::cos(la * Math::degree())) * 111e3;
      bool tolok = ell == 0 || ell == 3;   // the documented accuracy is for |f| up to about 1/150
      if (tolok && std::fabs(la) < 89.9 && !(d < 100e-9 * std::fmax(1.0, std::fabs(a12) / 180))) bad("arc-vs-distance", "ArcPosition(a12) and Position(s12) differ by " + std::to_string(d * 1e9) + " nm");
      Line l3 = g.DirectLine(lat1, lon1, azi1, s12); double la3, lo3; l3.Position(l3.Distance(), la3, lo3);
      double la4, lo4; g.Direct(lat1, lon1, azi1, s12, la4, lo4);
      if (bits(la3) != bits(la4) || bits(lo3) != bits(lo4)) bad("third-point", "DirectLine(...).Position(Distance()) differs from Direct");
      Line l4 = g.ArcDirectLine(lat1, lon1, azi1, a12); double la5, lo5, az5; l4.ArcPosition(l4.Arc(), la5, lo5, az5);
      if (bits(la5) != bits(la) || bits(lo5) != bits(lo)) bad("third-point", "ArcDirectLine(...).ArcPosition(Arc()) differs from ArcPosition");
      Line l5 = g.InverseLine(lat1, lon1, la2, lo2); double la6, lo6; l5.Position(l5.Distance(), la6, lo6);
      double d6 = std::hypot(la6 - la2, Math::AngDiff(lo6, lo2) * std::cos(la2 * Math::degree())) * 111e3;
      if (tolok && std::fabs(la2) < 89.9 && std::fabs(s12) < 1.9e7 && !(d6 < 100e-9)) bad("third-point", "InverseLine(...).Position(Distance()) misses point 2 by " + std::to_string(d6 * 1e9) + " nm");
      Line l6(g, lat1, lon1, azi1); l6.SetDistance(s12); if (bits(l6.Distance()) != bits(s12)) bad("third-point", "SetDistance/Distance"); l6.SetArc(a12); if (bits(l6.Arc()) != bits(a12)) bad("third-point", "SetArc/Arc");
      // a line lacking DISTANCE_IN returns NaN for a distance query, and leaves outputs untouched
      Line l7(g, lat1, lon1, azi1, fl[0] | fl[1]); Outs u; double r7 = l7.GenPosition(false, s12, ALLM, u.v[0], u.v[1], u.v[2], u.v[3], u.v[4], u.v[5], u.v[6], u.v[7]);
      if (!std::isnan(r7) || u.written()) bad("missing-capability", "line without DISTANCE_IN located a point by distance");
    }
  }
}
template<class Geod> static void inverse_values(const Geod& g, const unsigned* fl, double lat1, double lon1, double lat2, double lon2) {
  unsigned ALLM = build(fl, 0xef);
  double s, a1, a2, m, M12, M21, S; double a12 = g.GenInverse(lat1, lon1, lat2, lon2, ALLM, s, a1, a2, m, M12, M21, S);
  double ref[7] = {s, a1, a2, m, M12, M21, S};
  for (unsigned sel = 1; sel < 512; sel += 1) { if (sel & 0x10) continue;      // all 2^7 masks, with and without LONG_UNROLL
    unsigned om = build(fl, sel); double v[7] = {SENT[0], SENT[1], SENT[2], SENT[3], SENT[4], SENT[5], SENT[6]};
    paint_stack(sel % 3 == 0 ? -1.0 : sel % 3 == 1 ? 1.0 : Math::NaN());
    double b12 = g.GenInverse(lat1, lon1, lat2, lon2, om, v[0], v[1], v[2], v[3], v[4], v[5], v[6]);
    if (!same(b12, a12)) bad("value-depends-on-mask", "GenInverse a12 depends on the mask (selection " + std::to_string(sel) + ": " + hx(b12) + " vs " + hx(a12) + ")");
    for (int i = 0; i < 7; ++i) { if (bits(v[i]) == bits(SENT[i])) continue;
      double tol = (i == 3 ? 1e-9 + 8 * ulp(ref[i]) : (i == 4 || i == 5) ? 4e-15 : 0);   // m12, M12, M21: "beyond round-off" (J12 may be summed differently without DISTANCE)
      if (!(std::fabs(v[i] - ref[i]) <= tol) && !same(v[i], ref[i])) bad("value-depends-on-mask", "GenInverse output " + std::to_string(i) + " with mask selection " + std::to_string(sel) + " = " + hx(v[i]) + " but " + hx(ref[i]) + " with the full mask"); }
    static const int WFLAG[7] = {3, 2, 2, 5, 6, 6, 7};
    for (int i = 0; i < 7; ++i) if (((sel >> WFLAG[i]) & 1u) != (bits(v[i]) != bits(SENT[i]) ? 1u : 0u)) bad("written-set", "GenInverse output " + std::to_string(i) + " with mask selection " + std::to_string(sel) + ": written although not requested, or requested and not written");
  }
}
static void rhumb_values(const Rhumb& r, double lat1, double lon1, double azi, double s12) {
  const unsigned fl[4] = {Rhumb::LATITUDE, Rhumb::LONGITUDE, Rhumb::AREA, Rhumb::LONG_UNROLL};
  for (int un = 0; un < 2; ++un) {
    double rl = SENT[0], ro = SENT[1], rS = SENT[7]; r.GenDirect(lat1, lon1, azi, s12, fl[0] | fl[1] | fl[2] | (un ? fl[3] : 0), rl, ro, rS);
    for (unsigned sel = 0; sel < 8; ++sel) { unsigned om = (sel & 1 ? fl[0] : 0) | (sel & 2 ? fl[1] : 0) | (sel & 4 ? fl[2] : 0) | (un ? fl[3] : 0);
      for (int extra = 0; extra < 2; ++extra) {   // bits that mean nothing to Rhumb::GenDirect (AZIMUTH, DISTANCE and the geodesic-only ones) must not matter
        unsigned om2 = om | (extra ? (Rhumb::AZIMUTH | Rhumb::DISTANCE | (1u << 11) | (1u << 12) | (1u << 13)) : 0u);
        double l = SENT[0], o = SENT[1], S = SENT[7]; r.GenDirect(lat1, lon1, azi, s12, om2, l, o, S);
        double l2 = SENT[0], o2 = SENT[1], S2 = SENT[7]; r.Line(lat1, lon1, azi).GenPosition(s12, om2, l2, o2, S2);
        auto chk = [&](double v, double rf, double sent, const char* n) { if (bits(v) != bits(sent) && !same(v, rf)) bad("value-depends-on-mask", std::string("Rhumb ") + n + " depends on the mask (selection " + std::to_string(sel) + (un ? "+unroll)" : ")")); };
        chk(l, rl, SENT[0], "lat2"); chk(o, ro, SENT[1], "lon2"); chk(S, rS, SENT[7], "S12"); chk(l2, rl, SENT[0], "line lat2"); chk(o2, ro, SENT[1], "line lon2"); chk(S2, rS, SENT[7], "line S12");
        if (((sel & 1) != 0) != (bits(l) != bits(SENT[0])) || ((sel & 2) != 0) != (bits(o) != bits(SENT[1])) || ((sel & 4) != 0) != (bits(S) != bits(SENT[7]))) bad("written-set", "Rhumb.GenDirect wrote an unrequested output or skipped a requested one");
        if (((sel & 1) != 0) != (bits(l2) != bits(SENT[0])) || ((sel & 2) != 0) != (bits(o2) != bits(SENT[1])) || ((sel & 4) != 0) != (bits(S2) != bits(SENT[7]))) bad("written-set", "RhumbLine.GenPosition wrote an unrequested output or skipped a requested one");
      }
    }
  }
  // S12 must not depend on LONG_UNROLL
  double l, o, S1, S2; r.GenDirect(lat1, lon1, azi, s12, fl[0] | fl[1] | fl[2], l, o, S1); r.GenDirect(lat1, lon1, azi, s12, fl[0] | fl[1] | fl[2] | fl[3], l, o, S2);
  if (!same(S1, S2)) bad("value-depends-on-mask", "Rhumb S12 depends on LONG_UNROLL");
}
static void rhumb_inverse_values(const Rhumb& r, double lat1, double lon1, double lat2, double lon2) {
  const unsigned fl[4] = {Rhumb::DISTANCE, Rhumb::AZIMUTH, Rhumb::AREA, Rhumb::LONG_UNROLL};
  double rs = SENT[3], ra = SENT[2], rS = SENT[7]; r.GenInverse(lat1, lon1, lat2, lon2, fl[0] | fl[1] | fl[2], rs, ra, rS);
  for (unsigned sel = 0; sel < 32; ++sel) {
    unsigned om = (sel & 1 ? fl[0] : 0) | (sel & 2 ? fl[1] : 0) | (sel & 4 ? fl[2] : 0) | (sel & 8 ? fl[3] : 0) | (sel & 16 ? (Rhumb::LATITUDE | Rhumb::LONGITUDE | (1u << 11) | (1u << 12) | (1u << 13)) : 0u);
    double s = SENT[3], az = SENT[2], S = SENT[7]; r.GenInverse(lat1, lon1, lat2, lon2, om, s, az, S);
    auto chk = [&](double v, double rf, double sent, const char* n) { if (bits(v) != bits(sent) && !same(v, rf)) bad("value-depends-on-mask", std::string("Rhumb.GenInverse ") + n + " depends on the mask (selection " + std::to_string(sel) + ")"); };
    chk(s, rs, SENT[3], "s12"); chk(az, ra, SENT[2], "azi12"); chk(S, rS, SENT[7], "S12");
    if (((sel & 1) != 0) != (bits(s) != bits(SENT[3])) || ((sel & 2) != 0) != (bits(az) != bits(SENT[2])) || ((sel & 4) != 0) != (bits(S) != bits(SENT[7]))) bad("written-set", "Rhumb.GenInverse wrote an unrequested output or skipped a requested one");
  }
}
static Reg r_vals("maskvalues", [](const Args& a) {
  double lat1 = unhx(a[1]), lon1 = unhx(a[2]), azi1 = unhx(a[3]), len = unhx(a[4]); bool arc = a[5] == "1"; uint64_t sub = std::strtoull(a[6].c_str(), nullptr, 10);
  const std::string& k = a[0]; int e = k[0] == 'I' ? (k.size() > 2 ? std::min(3, std::max(0, k[2] - '0')) : 0) : ellOf(k);
  if (k[0] == 'G') values<Geodesic, GeodesicLine>(G(e), FLAGS_G, e, lat1, lon1, azi1, len, arc, sub);
  else if (k[0] == 'X') values<Geodesic, GeodesicLine>(X(e), FLAGS_G, e, lat1, lon1, azi1, len, arc, sub);
  else if (k[0] == 'E') values<GeodesicExact, GeodesicLineExact>(E(e), FLAGS_E, e, lat1, lon1, azi1, len, arc, sub);
  else if (k[0] == 'R' || k[0] == 'S') rhumb_values(RH(k), lat1, lon1, azi1, arc ? len * 1e5 : len);
  else if (k[0] == 'I' && k[1] == 'G') inverse_values(G(e), FLAGS_G, lat1, lon1, azi1, len);     // (lat1, lon1, lat2, lon2)
  else if (k[0] == 'I' && k[1] == 'X') inverse_values(X(e), FLAGS_G, lat1, lon1, azi1, len);
  else if (k[0] == 'I' && k[1] == 'E') inverse_values(E(e), FLAGS_E, lat1, lon1, azi1, len);
  else if (k[0] == 'I' && (k[1] == 'R' || k[1] == 'S')) rhumb_inverse_values(RH(k.substr(1)), lat1, lon1, azi1, len);
  emit("done");
});

// ---------------------------------------------------------------------------------------------------------------------
// (3) every inline overload returns, bit for bit, what the general function returns under the mask made of the flags
//     of its reference parameters, and assigns every one of them
// ---------------------------------------------------------------------------------------------------------------------
static const char* SLOTNAME[8] = {"lat2", "lon2", "azi2", "s12", "m12", "M12", "M21", "S12"};
static std::string refnames(unsigned slots, bool inverse) { std::string r; for (int i = 0; i < 8; ++i) { int j = inverse ? (i == 0 ? 3 : i == 1 ? 0 : i == 2 ? 2 : i == 3 ? 4 : i == 4 ? 5 : i == 5 ? 6 : i == 6 ? 7 : -1) : i; if (j < 0 || !(slots & (1u << j))) continue; if (!r.empty()) r += ","; r += inverse && j == 0 ? "azi1" : SLOTNAME[j]; } return r; }
struct OvlCtx { std::string ids; std::string cls; };
static void ovl_compare(OvlCtx& c, const std::string& id, const Outs& o, const Outs& q, unsigned, bool hasret, double r, double rq) {
  if (!c.ids.empty()) c.ids += " "; c.ids += id;
  for (int i = 0; i < 8; ++i) {
    if (!same(o.v[i], q.v[i])) bad("overload", id + ": output " + SLOTNAME[i] + " = " + hx(o.v[i]) + " but the general function with the mask of its reference parameters gives " + hx(q.v[i]));
  }
  if (hasret && !same(r, rq)) bad("overload", id + ": returns " + hx(r) + " but the general function returns " + hx(rq));
}
enum { sLAT = 1, sLON = 2, sAZI = 4, sS = 8, sM = 16, sM12 = 32, sM21 = 64, sA = 128 };
template<class Geod> static void solver_overloads(OvlCtx& c, const Geod& g, const unsigned* fl, double lat1, double lon1, double azi1, double s12, double a12, double lat2, double lon2) {
  auto D = [&](unsigned slots, bool arc, bool hasret, auto call) {
    Outs o; double r = call(o); Outs q; double rq = g.GenDirect(lat1, lon1, azi1, arc, arc ? a12 : s12, slotmask(fl, slots), q.v[0], q.v[1], q.v[2], q.v[3], q.v[4], q.v[5], q.v[6], q.v[7]);
    ovl_compare(c, c.cls + (arc ? ".ArcDirect(" : ".Direct(") + refnames(slots, false) + ")", o, q, slots, hasret, r, rq); };
  D(sLAT | sLON | sAZI | sM | sM12 | sM21 | sA, false, true, [&](Outs& o) { return g.Direct(lat1, lon1, azi1, s12, o.v[0], o.v[1], o.v[2], o.v[4], o.v[5], o.v[6], o.v[7]); });
  D(sLAT | sLON, false, true, [&](Outs& o) { return g.Direct(lat1, lon1, azi1, s12, o.v[0], o.v[1]); });
  D(sLAT | sLON | sAZI, false, true, [&](Outs& o) { return g.Direct(lat1, lon1, azi1, s12, o.v[0], o.v[1], o.v[2]); });
  D(sLAT | sLON | sAZI | sM, false, true, [&](Outs& o) { return g.Direct(lat1, lon1, azi1, s12, o.v[0], o.v[1], o.v[2], o.v[4]); });
  D(sLAT | sLON | sAZI | sM12 | sM21, false, true, [&](Outs& o) { return g.Direct(lat1, lon1, azi1, s12, o.v[0], o.v[1], o.v[2], o.v[5], o.v[6]); });
  D(sLAT | sLON | sAZI | sM | sM12 | sM21, false, true, [&](Outs& o) { return g.Direct(lat1, lon1, azi1, s12, o.v[0], o.v[1], o.v[2], o.v[4], o.v[5], o.v[6]); });
  D(0xff, true, false, [&](Outs& o) { g.ArcDirect(lat1, lon1, azi1, a12, o.v[0], o.v[1], o.v[2], o.v[3], o.v[4], o.v[5], o.v[6], o.v[7]); return 0.0; });
  D(sLAT | sLON, true, false, [&](Outs& o) { g.ArcDirect(lat1, lon1, azi1, a12, o.v[0], o.v[1]); return 0.0; });
  D(sLAT | sLON | sAZI, true, false, [&](Outs& o) { g.ArcDirect(lat1, lon1, azi1, a12, o.v[0], o.v[1], o.v[2]); return 0.0; });
  D(sLAT | sLON | sAZI | sS, true, false, [&](Outs& o) { g.ArcDirect(lat1, lon1, azi1, a12, o.v[0], o.v[1], o.v[2], o.v[3]); return 0.0; });
  D(sLAT | sLON | sAZI | sS | sM, true, false, [&](Outs& o) { g.ArcDirect(lat1, lon1, azi1, a12, o.v[0], o.v[1], o.v[2], o.v[3], o.v[4]); return 0.0; });
  D(sLAT | sLON | sAZI | sS | sM12 | sM21, true, false, [&](Outs& o) { g.ArcDirect(lat1, lon1, azi1, a12, o.v[0], o.v[1], o.v[2], o.v[3], o.v[5], o.v[6]); return 0.0; });
  D(sLAT | sLON | sAZI | sS | sM | sM12 | sM21, true, false, [&](Outs& o) { g.ArcDirect(lat1, lon1, azi1, a12, o.v[0], o.v[1], o.v[2], o.v[3], o.v[4], o.v[5], o.v[6]); return 0.0; });
  // Inverse: slot 0 holds azi1 (flag AZIMUTH, like azi2 in slot 2); slot 1 is unused
  auto I = [&](unsigned slots, auto call) {
    Outs o; double r = call(o); Outs q; unsigned om = slotmask(fl, slots & ~1u) | ((slots & 1u) ? fl[2] : 0u);
    double rq = g.GenInverse(lat1, lon1, lat2, lon2, om, q.v[3], q.v[0], q.v[2], q.v[4], q.v[5], q.v[6], q.v[7]);
    ovl_compare(c, c.cls + ".Inverse(" + refnames(slots, true) + ")", o, q, slots, true, r, rq); };
  I(sS | 1 | sAZI | sM | sM12 | sM21 | sA, [&](Outs& o) { return g.Inverse(lat1, lon1, lat2, lon2, o.v[3], o.v[0], o.v[2], o.v[4], o.v[5], o.v[6], o.v[7]); });
  I(sS, [&](Outs& o) { return g.Inverse(lat1, lon1, lat2, lon2, o.v[3]); });
  I(1 | sAZI, [&](Outs& o) { return g.Inverse(lat1, lon1, lat2, lon2, o.v[0], o.v[2]); });
  I(sS | 1 | sAZI, [&](Outs& o) { return g.Inverse(lat1, lon1, lat2, lon2, o.v[3], o.v[0], o.v[2]); });
  I(sS | 1 | sAZI | sM, [&](Outs& o) { return g.Inverse(lat1, lon1, lat2, lon2, o.v[3], o.v[0], o.v[2], o.v[4]); });
  I(sS | 1 | sAZI | sM12 | sM21, [&](Outs& o) { return g.Inverse(lat1, lon1, lat2, lon2, o.v[3], o.v[0], o.v[2], o.v[5], o.v[6]); });
  I(sS | 1 | sAZI | sM | sM12 | sM21, [&](Outs& o) { return g.Inverse(lat1, lon1, lat2, lon2, o.v[3], o.v[0], o.v[2], o.v[4], o.v[5], o.v[6]); });
}
template<class Line> static void line_overloads(OvlCtx& c, const Line& l, const unsigned* fl, double s12, double a12) {
  auto P = [&](unsigned slots, bool arc, bool hasret, auto call) {
    Outs o; double r = call(o); Outs q; double rq = l.GenPosition(arc, arc ? a12 : s12, slotmask(fl, slots), q.v[0], q.v[1], q.v[2], q.v[3], q.v[4], q.v[5], q.v[6], q.v[7]);
    ovl_compare(c, c.cls + (arc ? ".ArcPosition(" : ".Position(") + refnames(slots, false) + ")", o, q, slots, hasret, r, rq); };
  P(sLAT | sLON | sAZI | sM | sM12 | sM21 | sA, false, true, [&](Outs& o) { return l.Position(s12, o.v[0], o.v[1], o.v[2], o.v[4], o.v[5], o.v[6], o.v[7]); });
  P(sLAT | sLON, false, true, [&](Outs& o) { return l.Position(s12, o.v[0], o.v[1]); });
  P(sLAT | sLON | sAZI, false, true, [&](Outs& o) { return l.Position(s12, o.v[0], o.v[1], o.v[2]); });
  P(sLAT | sLON | sAZI | sM, false, true, [&](Outs& o) { return l.Position(s12, o.v[0], o.v[1], o.v[2], o.v[4]); });
  P(sLAT | sLON | sAZI | sM12 | sM21, false, true, [&](Outs& o) { return l.Position(s12, o.v[0], o.v[1], o.v[2], o.v[5], o.v[6]); });
  P(sLAT | sLON | sAZI | sM | sM12 | sM21, false, true, [&](Outs& o) { return l.Position(s12, o.v[0], o.v[1], o.v[2], o.v[4], o.v[5], o.v[6]); });
  P(0xff, true, false, [&](Outs& o) { l.ArcPosition(a12, o.v[0], o.v[1], o.v[2], o.v[3], o.v[4], o.v[5], o.v[6], o.v[7]); return 0.0; });
  P(sLAT | sLON, true, false, [&](Outs& o) { l.ArcPosition(a12, o.v[0], o.v[1]); return 0.0; });
  P(sLAT | sLON | sAZI, true, false, [&](Outs& o) { l.ArcPosition(a12, o.v[0], o.v[1], o.v[2]); return 0.0; });
  P(sLAT | sLON | sAZI | sS, true, false, [&](Outs& o) { l.ArcPosition(a12, o.v[0], o.v[1], o.v[2], o.v[3]); return 0.0; });
  P(sLAT | sLON | sAZI | sS | sM, true, false, [&](Outs& o) { l.ArcPosition(a12, o.v[0], o.v[1], o.v[2], o.v[3], o.v[4]); return 0.0; });
  P(sLAT | sLON | sAZI | sS | sM12 | sM21, true, false, [&](Outs& o) { l.ArcPosition(a12, o.v[0], o.v[1], o.v[2], o.v[3], o.v[5], o.v[6]); return 0.0; });
  P(sLAT | sLON | sAZI | sS | sM | sM12 | sM21, true, false, [&](Outs& o) { l.ArcPosition(a12, o.v[0], o.v[1], o.v[2], o.v[3], o.v[4], o.v[5], o.v[6]); return 0.0; });
}
static void rhumb_overloads(OvlCtx& c, const Rhumb& r, double lat1, double lon1, double azi, double s12, double lat2, double lon2, unsigned anymask) {
  // slots: lat2 0, lon2 1, S12 7 (direct); s12 3, azi12 2, S12 7 (inverse)
  auto cmp = [&](const std::string& id, const Outs& o, const Outs& q, unsigned slots) { ovl_compare(c, id, o, q, slots, false, 0, 0); };
  { Outs o, q; r.Direct(lat1, lon1, azi, s12, o.v[0], o.v[1], o.v[7]); r.GenDirect(lat1, lon1, azi, s12, Rhumb::LATITUDE | Rhumb::LONGITUDE | Rhumb::AREA, q.v[0], q.v[1], q.v[7]); cmp("Rhumb.Direct(lat2,lon2,S12)", o, q, sLAT | sLON | sA); }
  { Outs o, q; r.Direct(lat1, lon1, azi, s12, o.v[0], o.v[1]); r.GenDirect(lat1, lon1, azi, s12, Rhumb::LATITUDE | Rhumb::LONGITUDE, q.v[0], q.v[1], q.v[7]); cmp("Rhumb.Direct(lat2,lon2)", o, q, sLAT | sLON); }
  { Outs o, q; r.Inverse(lat1, lon1, lat2, lon2, o.v[3], o.v[2], o.v[7]); r.GenInverse(lat1, lon1, lat2, lon2, Rhumb::DISTANCE | Rhumb::AZIMUTH | Rhumb::AREA, q.v[3], q.v[2], q.v[7]); cmp("Rhumb.Inverse(s12,azi12,S12)", o, q, sS | sAZI | sA); }
  { Outs o, q; r.Inverse(lat1, lon1, lat2, lon2, o.v[3], o.v[2]); r.GenInverse(lat1, lon1, lat2, lon2, Rhumb::DISTANCE | Rhumb::AZIMUTH, q.v[3], q.v[2], q.v[7]); cmp("Rhumb.Inverse(s12,azi12)", o, q, sS | sAZI); }
  // the private eight-/seven-reference wrappers used by PolygonAreaT<Rhumb>: pass `outmask` through, touch only lat2, lon2, S12 / s12, azi12, S12
  { Outs o, q; r.GenDirect(lat1, lon1, azi, false, s12, anymask, o.v[0], o.v[1], o.v[2], o.v[3], o.v[4], o.v[5], o.v[6], o.v[7]); r.GenDirect(lat1, lon1, azi, s12, anymask, q.v[0], q.v[1], q.v[7]); cmp("Rhumb.GenDirect(lat2,lon2,,,,,,S12)", o, q, 0); }
  { Outs o, q; r.GenInverse(lat1, lon1, lat2, lon2, anymask, o.v[3], o.v[2], o.v[0], o.v[4], o.v[5], o.v[6], o.v[7]); r.GenInverse(lat1, lon1, lat2, lon2, anymask, q.v[3], q.v[2], q.v[7]); cmp("Rhumb.GenInverse(s12,azi12,,,,,S12)", o, q, 0); }
  RhumbLine l = r.Line(lat1, lon1, azi);
  { Outs o, q; l.Position(s12, o.v[0], o.v[1], o.v[7]); l.GenPosition(s12, RhumbLine::LATITUDE | RhumbLine::LONGITUDE | RhumbLine::AREA, q.v[0], q.v[1], q.v[7]); cmp("RhumbLine.Position(lat2,lon2,S12)", o, q, sLAT | sLON | sA); }
  { Outs o, q; l.Position(s12, o.v[0], o.v[1]); l.GenPosition(s12, RhumbLine::LATITUDE | RhumbLine::LONGITUDE, q.v[0], q.v[1], q.v[7]); cmp("RhumbLine.Position(lat2,lon2)", o, q, sLAT | sLON); }
  // Direct and RhumbLine::Position are the same computation
  { Outs o, q; r.Direct(lat1, lon1, azi, s12, o.v[0], o.v[1], o.v[7]); l.Position(s12, q.v[0], q.v[1], q.v[7]); for (int i = 0; i < 8; ++i) if (!same(o.v[i], q.v[i])) bad("overload", "Rhumb.Direct and RhumbLine.Position differ"); }
}
static Reg r_ovl("ovl", [](const Args& a) {
  double lat1 = unhx(a[1]), lon1 = unhx(a[2]), azi1 = unhx(a[3]), s12 = unhx(a[4]), a12 = unhx(a[5]), lat2 = unhx(a[6]), lon2 = unhx(a[7]); unsigned caps = unsigned(std::stoul(a[8]));
  OvlCtx c; int k = ellOf(a[0]);
  if (a[0][0] == 'G' || a[0][0] == 'X') { const Geodesic& g = a[0][0] == 'G' ? G(k) : X(k); c.cls = "Geodesic"; solver_overloads(c, g, FLAGS_G, lat1, lon1, azi1, s12, a12, lat2, lon2);
    c.cls = "GeodesicLine"; GeodesicLine l = g.Line(lat1, lon1, azi1, caps); line_overloads(c, l, FLAGS_G, s12, a12); }
  else if (a[0][0] == 'E') { c.cls = "GeodesicExact"; solver_overloads(c, E(k), FLAGS_E, lat1, lon1, azi1, s12, a12, lat2, lon2);
    c.cls = "GeodesicLineExact"; GeodesicLineExact l = E(k).Line(lat1, lon1, azi1, caps); line_overloads(c, l, FLAGS_E, s12, a12); }
  else rhumb_overloads(c, RH(a[0]), lat1, lon1, azi1, s12, lat2, lon2, caps);
  emit(c.ids);
});

// ---------------------------------------------------------------------------------------------------------------------
// (4) the third point of a line object under arbitrary histories of SetDistance / SetArc / GenSetDistance / readers
// ---------------------------------------------------------------------------------------------------------------------
template<class Geod, class Line> static void linehist(const Geod& g, const unsigned* fl, int ell, const Args& a) {
  double lat1 = unhx(a[1]), lon1 = unhx(a[2]), azi1 = unhx(a[3]); const std::string& ctor = a[4]; unsigned caps = unsigned(std::stoul(a[5])); double cx = untk(a[6]), cy = untk(a[7]);
  unsigned ALLM = build(fl, 0xff); double t;
  auto make = [&](unsigned cp) -> Line {
    if (ctor == "L") return Line(g, lat1, lon1, azi1, cp);
    if (ctor == "GL") return g.Line(lat1, lon1, azi1, cp);
    if (ctor == "D") return g.DirectLine(lat1, lon1, azi1, cx, cp);
    if (ctor == "A") return g.ArcDirectLine(lat1, lon1, azi1, cx, cp);
    if (ctor == "G0") return g.GenDirectLine(lat1, lon1, azi1, false, cx, cp);
    if (ctor == "G1") return g.GenDirectLine(lat1, lon1, azi1, true, cx, cp);
    if (ctor == "I") return g.InverseLine(lat1, lon1, cx, cy, cp);
    DefLine<Line> dl(ctor.size() > 1 ? ctor[1] - '0' : 0); return *dl.p; };
  Line l = make(caps);                     // the object that lives through the history
  const Line fr = make(ALLM);              // a fresh object with every capability: supplies the numeric kernels
  auto arcOf = [&](double s) { double u; return fr.GenPosition(false, s, 0u, u, u, u, u, u, u, u, u); };
  auto distOf = [&](double x) { double u, s = Math::NaN(); fr.GenPosition(true, x, fl[3], u, u, u, s, u, u, u, u); return s; };
  std::string res = std::to_string(l.Capabilities());
  double a12 = Math::NaN();
  if (ctor == "I") { double u; a12 = g.GenInverse(lat1, lon1, cx, cy, 0u, u, u, u, u, u, u, u); res += " i:" + tk(a12) + ":" + tk(arcOf(a12)) + ":" + tk(distOf(a12)); }
  else if (ctor == "D" || ctor == "A" || ctor == "G0" || ctor == "G1") res += " c:" + tk(arcOf(cx)) + ":" + tk(distOf(cx));
  else res += " -";
  int lastset = -1;
  for (size_t i = 8; i < a.size(); ++i) {
    const std::string& e = a[i]; std::string tag = e.substr(0, 2);
    if (tag == "sD") { double x = untk(e.substr(2)); l.SetDistance(x); res += " k:" + tk(arcOf(x)) + ":" + tk(distOf(x)); lastset = int(i); }
    else if (tag == "sA") { double x = untk(e.substr(2)); l.SetArc(x); res += " k:" + tk(arcOf(x)) + ":" + tk(distOf(x)); lastset = int(i); }
    else if (tag == "g0") { double x = untk(e.substr(2)); l.GenSetDistance(false, x); res += " k:" + tk(arcOf(x)) + ":" + tk(distOf(x)); lastset = int(i); }
    else if (tag == "g1") { double x = untk(e.substr(2)); l.GenSetDistance(true, x); res += " k:" + tk(arcOf(x)) + ":" + tk(distOf(x)); lastset = int(i); }
    else if (e == "rD") res += " " + tk(l.Distance());
    else if (e == "rA") res += " " + tk(l.Arc());
    else if (e == "r0") res += " " + tk(l.GenDistance(false));
    else if (e == "r1") res += " " + tk(l.GenDistance(true));
    else if (e == "cp") { Line c2(l); Line c3(c2); c3 = c2; l = c3; res += " -"; }
    else { bad("harness", "unknown history event " + e); }
  }
  double fD = l.Distance(), fA = l.Arc();
  res += " f:" + tk(fD) + ":" + tk(fA) + ":" + tk(l.GenDistance(false)) + ":" + tk(l.GenDistance(true)) + ":" + std::to_string(l.Capabilities());
  // --- property-level oracles on the implementation ---
  // (a) history independence: a fresh object given only the last setter call is in the same state
  { Line l2 = make(caps);
    if (lastset >= 0) { const std::string& e = a[lastset]; std::string tag = e.substr(0, 2); double x = untk(e.substr(2));
      if (tag == "sD") l2.SetDistance(x); else if (tag == "sA") l2.SetArc(x); else l2.GenSetDistance(tag == "g1", x); }
    if (!same(l2.Distance(), fD) || !same(l2.Arc(), fA))
      bad("history-dependence", "after the history Distance() = " + tk(fD) + ", Arc() = " + tk(fA) + "; a fresh line given only the last setter call has Distance() = " + tk(l2.Distance()) + ", Arc() = " + tk(l2.Arc())); }
  // (b) a third point that is only half defined must say so: Distance() is a number only if the line can use it or it is what the caller set
  if (ctor[0] != 'U') {
    bool hasDin = (caps | (ctor == "D" || ctor == "G0" ? fl[4] : 0u)) & (1u << 11), hasD = (caps | (ctor == "I" && (caps & (1u << 11)) ? fl[3] : 0u)) & (1u << 10);
    if (lastset >= 0) { std::string tag = a[lastset].substr(0, 2); double x = untk(a[lastset].substr(2)); bool arcset = tag == "sA" || tag == "g1";
      if (arcset && !hasD && !std::isnan(fD)) bad("stale-third-point", "the third point was set by arc on a line without the DISTANCE capability, yet Distance() = " + tk(fD));
      if (!arcset && !hasDin && !std::isnan(fA)) bad("stale-third-point", "the third point was set by distance on a line without the DISTANCE_IN capability, yet Arc() = " + tk(fA));
      if (arcset && !same(fA, x)) bad("third-point", "SetArc/Arc"); if (!arcset && !same(fD, x)) bad("third-point", "SetDistance/Distance"); }
  } else if (!std::isnan(fD) || !std::isnan(fA)) bad("uninitialised-line", "Distance()/Arc() of a default-constructed line is a number");
  // (c) Distance() and Arc() address the same point when both are numbers
  if (ctor[0] != 'U' && std::isfinite(fD) && std::isfinite(fA) && (ell == 0 || ell == 3) && std::fabs(fD) < 1e8) {
    double la, lo, la2, lo2; fr.ArcPosition(fA, la, lo); fr.Position(fD, la2, lo2);
    double d = std::hypot(la - la2, Math::AngDiff(lo, lo2) * std::cos(la * Math::degree())) * 111e3;
    if (std::fabs(la) < 89.9 && !(d < 100e-9 * std::fmax(1.0, std::fabs(fA) / 180))) bad("arc-vs-distance", "ArcPosition(Arc()) and Position(Distance()) differ by " + std::to_string(d * 1e9) + " nm"); }
  // (d) the constructors' third point is the point that defined the line
  { Line l0 = make(caps); unsigned LA = fl[0] | fl[2];
    if (ctor == "D" || ctor == "G0") { Outs o, q; double r1 = l0.GenPosition(false, l0.Distance(), LA, o.v[0], t, o.v[2], t, t, t, t, t), r2 = g.GenDirect(lat1, lon1, azi1, false, cx, LA, q.v[0], t, q.v[2], t, t, t, t, t);
      if (!same(l0.Distance(), cx) || !same(o.v[0], q.v[0]) || !same(o.v[2], q.v[2]) || !same(r1, r2) || !same(l0.Arc(), r2)) bad("third-point", "DirectLine: Position(Distance()) is not the end point of Direct, or Arc() is not its arc length"); }
    if (ctor == "A" || ctor == "G1") { Outs o, q; l0.GenPosition(true, l0.Arc(), LA | fl[3], o.v[0], t, o.v[2], o.v[3], t, t, t, t); g.GenDirect(lat1, lon1, azi1, true, cx, LA | fl[3], q.v[0], t, q.v[2], q.v[3], t, t, t, t);
      if (!same(l0.Arc(), cx) || !same(o.v[0], q.v[0]) || !same(o.v[2], q.v[2])) bad("third-point", "ArcDirectLine: ArcPosition(Arc()) is not the end point of ArcDirect");
      if ((caps & (1u << 10)) && !same(l0.Distance(), q.v[3])) bad("third-point", "ArcDirectLine: Distance() is not the s12 of ArcDirect"); }
    if (ctor == "I") { if (!same(l0.Arc(), a12)) bad("third-point", "InverseLine: Arc() is not the a12 of the inverse problem");
      if ((caps & (1u << 11)) && std::isnan(l0.Distance()) && !std::isnan(a12)) bad("third-point", "InverseLine with DISTANCE_IN: Distance() is NaN"); } }
  emit(res);
}
static Reg r_linehist("linehist", [](const Args& a) {
  int k = ellOf(a[0]);
  auto body = [&] { if (a[0][0] == 'E') linehist<GeodesicExact, GeodesicLineExact>(E(k), FLAGS_E, k, a);
    else linehist<Geodesic, GeodesicLine>(a[0][0] == 'G' ? G(k) : X(k), FLAGS_G, k, a); };
  if (a[4][0] == 'U' && a[4] != "U0" && a[4] != "U1" && a[0][0] != 'E') in_child(body); else body();
});

// ---------------------------------------------------------------------------------------------------------------------
void gv::generate(const std::string& tier, uint64_t seed) {
  Rng r(seed * 86028121 + 12);
  bool th = tier == "thorough";
  // (1) written sets: all 512 output masks x capability sets x arcmode x solver
  const char* sv[3] = {"G", "X", "E"};
  int ncaps = th ? 512 : 40;
  for (int s = 0; s < 3; ++s) for (int c = 0; c < ncaps; ++c) {
    unsigned csel = th ? unsigned(c) : unsigned(r.next() % 512); if (!th && c < 10) csel = std::vector<unsigned>{0, 511, 16, 1, 2, 8, 24, 0x1e0, 0x10 | 0x80, 0xef}[c];
    const unsigned* fl = s == 2 ? FLAGS_E : FLAGS_G; unsigned caps = build(fl, csel);
    std::string svk = std::string(sv[s]) + (c % 5 == 4 ? "1" : "");     // some on the ellipsoid with |f| > 0.01
    for (unsigned osel = 0; osel < 512; ++osel) { if (!th && (osel * 40503u + c) % 4 != 0) continue;
      for (int arc = 0; arc < 2; ++arc) run("linemask", {svk, std::to_string(caps), std::to_string(build(fl, osel)), arc ? "1" : "0"}); }
    stratum("written-line");
  }
  for (unsigned osel = 0; osel < 512; ++osel) for (int s = 0; s < 5; ++s) {
    const char* svi[5] = {"G", "X", "E", "R", "S"}; const unsigned* fl = s == 2 ? FLAGS_E : FLAGS_G;
    unsigned om = s >= 3 ? (osel << 7) : build(fl, osel);
    run("invmask", {svi[s], std::to_string(om)}); run("dirmask", {svi[s], std::to_string(om), "0"}); if (s < 3) run("dirmask", {svi[s], std::to_string(om), "1"});
    if (s >= 3) for (double s12 : {2e6, 1.2e7, -1.3e7, 3e7}) run("rlinemask", {svi[s], std::to_string(om), hx(s12)});     // 1.2e7 m at azimuth 30 from latitude 10 passes the pole
    if (s < 3 && (th || osel % 4 == 0)) for (int arc = 0; arc < 2; ++arc) for (int fill = 0; fill < (s == 2 ? 1 : 2); ++fill) run("uninitmask", {svi[s], std::to_string(om), arc ? "1" : "0", std::to_string(fill)});
    if (s < 2 && osel == 511) run("uninitmask", {svi[s], std::to_string(om), "1", "7"});      // the state a stack usually leaves (finding F66)
  }
  stratum("written-solvers");
  // Capabilities(): every capability set x test sets
  for (int s = 0; s < 3; ++s) for (unsigned csel = 0; csel < 512; ++csel) {
    const unsigned* fl = s == 2 ? FLAGS_E : FLAGS_G; int nt = th ? 16 : 3;
    for (int j = 0; j < nt; ++j) { unsigned tsel = j == 0 ? csel : unsigned(r.next() % 512); unsigned tc = build(fl, tsel); if (j == 2) tc = unsigned(r.next() & 0xffffu);
      run("capstest", {sv[s], std::to_string(build(fl, csel)), std::to_string(tc)}); }
  }
  stratum("capabilities");
  // (2) values
  long n = th ? 480 : 30;
  for (long i = 0; i < n; ++i) {
    double lat1 = r.irange(0, 5) ? r.range(-89, 89) : r.pick(std::vector<double>{0, 90, -90, 45}), lon1 = r.irange(0, 4) ? r.range(-180, 180) : r.pick(std::vector<double>{170, -179, 200, 0, 359});
    double azi = r.irange(0, 5) ? r.range(-180, 180) : r.pick(std::vector<double>{0, 90, 180, -90, 1e-9});
    bool arc = r.coin(); double len = arc ? r.range(-400, 400) : r.range(-3e7, 5e7); if (i % 7 == 0) len = arc ? 1e-7 : 1e-3;
    const char* kinds[6] = {"G", "X", "E", "R", "S", "IR"};
    std::string k = kinds[i % 6];
    int ell = (i / 6) % 4 == 3 ? 1 + int((i / 24 + seed) % 3) : 0;           // three quarters on WGS84, the rest on f = 0.02, −0.02, 0
    if (false) {}
    else if (k == "IR") { for (const char* q : {"IR", "IS"}) run("maskvalues", {std::string(q) + std::to_string(ell), hx(lat1 * 0.9), hx(lon1), hx(r.range(-85, 85)), hx(r.range(-180, 180)), "0", std::to_string(i)}); stratum("values-IR"); }
    else if (k == "R" || k == "S") { run("maskvalues", {k + std::to_string(ell), hx(lat1 * 0.9), hx(lon1), hx(azi), hx(arc ? r.range(-200, 200) : r.range(-2.5e7, 2.5e7)), arc ? "1" : "0", std::to_string(i)}); stratum("values-" + k); }
    else { run("maskvalues", {k + std::to_string(ell), hx(lat1), hx(lon1), hx(azi), hx(len), arc ? "1" : "0", std::to_string(i)}); stratum("values-" + k + (ell ? "-otherf" : "")); }
    if (i < 3) sample(current_op());
  }
  // (2b) inverse problems of every kind (the branch GenInverse takes decides how the lengths are obtained), every mask
  { const char* inv[3] = {"IG", "IE", "IX"}; const char* kn[8] = {"random", "meridional", "equatorial", "short", "antipodal", "coincident", "polar", "meridional-tiny"};
    int reps = th ? 10 : 1;
    for (int rep = 0; rep < reps; ++rep) for (int s = 0; s < 3; ++s) for (int kind = 0; kind < 8; ++kind) {
      int ell = (rep + kind + s) % 5 == 4 ? 1 + (rep + s) % 3 : 0;
      double la1 = r.irange(0, 5) ? r.range(-89, 89) : r.pick(std::vector<double>{0, 45, -30}), lo1 = r.range(-180, 180), la2 = r.range(-89, 89), lo2 = r.range(-180, 180);
      if (kind == 1) lo2 = r.coin() ? lo1 : lo1 + 180; else if (kind == 2) { la1 = la2 = 0; lo2 = lo1 + r.range(-170, 170); }
      else if (kind == 3) { la2 = la1 + r.range(-1, 1) * 1e-6; lo2 = lo1 + r.range(-1, 1) * 1e-6; } else if (kind == 4) { la2 = -la1 + r.range(-0.5, 0.5); lo2 = lo1 + 180 + r.range(-0.5, 0.5); }
      else if (kind == 5) { la2 = la1; lo2 = lo1; } else if (kind == 6) { la1 = r.coin() ? 90 : -90; }
      else if (kind == 7) { if (la1 == 0) la1 = 30; la1 = frombits((bits(la1) & ~0xfffULL) | 0x800ULL); la2 = r.coin() ? nextup(la1, r.irange(1, 6)) : nextdn(la1, r.irange(1, 6)); lo2 = lo1; }   // a few ulps apart on one meridian: sig12 below tol0
      run("maskvalues", {std::string(inv[s]) + std::to_string(ell), hx(la1), hx(lo1), hx(la2), hx(lo2), "0", std::to_string(rep)});
      stratum(std::string("values-") + inv[s] + "-" + kn[kind]);
    } }
  // (3) rhumb lines that span more than half / more than a whole turn of longitude (the wrapped and the unrolled
  //     longitude differ there, so an output computed from the wrong one shows up): cheap, so many of them
  long nr = th ? 600 : 60;
  for (long i = 0; i < nr; ++i) {
    double lat1 = r.range(-70, 70), lon1 = r.irange(0, 3) ? r.range(-180, 180) : r.pick(std::vector<double>{179, -179, 0, 359});
    double azi = (r.coin() ? 90 : -90) + r.range(-40, 40);
    double s12 = (r.coin() ? 1 : -1) * r.range(1.2e7, i % 3 == 0 ? 9e7 : 3e7);
    run("maskvalues", {i % 4 == 3 ? "S" : "R", hx(lat1), hx(lon1), hx(azi), hx(s12), "0", std::to_string(i)});
    stratum("values-R-long");
  }
  // (4) every inline overload against the general function
  long no = th ? 400 : 40;
  for (long i = 0; i < no; ++i) {
    const char* kinds[5] = {"G", "X", "E", "R", "S"}; std::string k = kinds[i % 5]; int ell = (i / 5) % 4 == 3 ? 1 + int(i / 20) % 3 : 0;
    double lat1 = r.irange(0, 5) ? r.range(-89, 89) : r.pick(std::vector<double>{0, 90, -90}), lon1 = r.range(-180, 180), azi = r.irange(0, 5) ? r.range(-180, 180) : r.pick(std::vector<double>{0, 90, 180});
    if (isRhumb(k)) lat1 *= 0.95;
    double s12 = r.irange(0, 6) ? r.range(-3e7, 3e7) : 0.0, a12 = r.irange(0, 6) ? r.range(-400, 400) : 180.0, lat2 = r.range(-89, 89), lon2 = r.range(-180, 180);
    // capabilities of the line whose overloads are tried: all, or a random set with DISTANCE_IN (an overload must then behave like
    // the general function on that line: outputs the line cannot give stay untouched in both); for rhumb: an arbitrary mask for the wrappers
    unsigned caps = isRhumb(k) ? unsigned(r.next() & 0xff80u) : (i % 3 == 0 ? build(k == "E" ? FLAGS_E : FLAGS_G, unsigned(r.next() % 512) | 0x10u) : build(k == "E" ? FLAGS_E : FLAGS_G, 0xff));
    run("ovl", {k + std::to_string(ell), hx(lat1), hx(lon1), hx(azi), hx(s12), hx(a12), hx(lat2), hx(lon2), std::to_string(caps)});
    stratum("overloads-" + k);
  }
  // (5) the third point under random histories: every capability set x solver x constructor
  const char* ctors[8] = {"L", "GL", "U", "D", "A", "G0", "G1", "I"};
  int per = th ? 6 : 1; int nU7[2] = {0, 0};
  for (int s = 0; s < 3; ++s) for (unsigned csel = 0; csel < 512; ++csel) for (int rep = 0; rep < per; ++rep) {
    const unsigned* fl = s == 2 ? FLAGS_E : FLAGS_G; unsigned caps = build(fl, csel);
    int ell = r.irange(0, 7) ? 0 : r.irange(1, 3);
    std::string ctor = ctors[(csel + rep * 3 + s) % 8]; if (r.irange(0, 40) == 0) ctor = "U";
    if (ctor == "U") ctor = s == 2 ? "U0" : nU7[s]++ == 3 ? "U7" : r.coin() ? "U0" : "U1";
    auto dist = [&]() { int q = r.irange(0, 11); return q == 0 ? 0.0 : q == 1 ? -0.0 : q == 2 ? 1e-3 : q == 3 ? Math::NaN() : q == 4 ? (r.coin() ? 1.0 : -1.0) * std::numeric_limits<double>::infinity() : q == 5 ? 1e7 : r.range(-3e7, 5e7); };
    auto arcv = [&]() { int q = r.irange(0, 11); return q == 0 ? 0.0 : q == 1 ? -0.0 : q == 2 ? 90.0 : q == 3 ? Math::NaN() : q == 4 ? 180.0 : q == 5 ? 1e-7 : r.range(-400, 400); };
    double lat1 = r.irange(0, 7) ? r.range(-89, 89) : r.pick(std::vector<double>{0, 90, -90}), lon1 = r.range(-180, 180), azi = r.irange(0, 7) ? r.range(-180, 180) : r.pick(std::vector<double>{0, 90, 180});
    Args a = {std::string(sv[s]) + std::to_string(ell), hx(lat1), hx(lon1), hx(azi), ctor, std::to_string(caps), "nan", "nan"};
    if (ctor == "D" || ctor == "G0") a[6] = tk(dist()); else if (ctor == "A" || ctor == "G1") a[6] = tk(arcv()); else if (ctor == "I") { a[6] = hx(r.range(-89, 89)); a[7] = hx(r.range(-180, 180)); }
    int len = r.irange(1, 12);
    for (int j = 0; j < len; ++j) { int q = r.irange(0, 13);
      if (q < 2) a.push_back("sD" + tk(dist())); else if (q < 4) a.push_back("sA" + tk(arcv())); else if (q == 4) a.push_back("g0" + tk(dist())); else if (q == 5) a.push_back("g1" + tk(arcv()));
      else if (q < 8) a.push_back("rD"); else if (q < 10) a.push_back("rA"); else if (q == 10) a.push_back("r0"); else if (q == 11) a.push_back("r1"); else a.push_back("cp"); }
    run("linehist", a);
    stratum("history-" + ctor.substr(0, ctor[0] == 'U' ? 1 : 2));
    if (csel == 5 && rep == 0) sample(current_op());
  }
}
int main(int argc, char** argv) { return gv::main_(argc, argv); }
