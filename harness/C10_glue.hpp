// C10 glue: the public functions of Utility / GeoCoords / DMS that the text layer rests on and that the first rounds never
// named: Utility::day/date/dow/fractionalyear/ParseLine/trim/val<bool,int,string>/str<T>/lookup(string)/readarray/writearray,
// GeoCoords accessors and alternate-zone members, explicit-hemisphere representations, the string constructor's dispatch,
// DMS::Decode(d,m,s) / Encode(ang,d,m[,s]).  Included by C10.cpp (after its helpers).
#pragma once

// ---- independent calendar (the rules documented in Utility.hpp, no day-number arithmetic): a table built by walking the
// calendar one day at a time from 0001-01-01 = day 1
struct CalTab {
  struct YMD { int y, m, d; };
  std::vector<YMD> t;        // t[s] for s >= 1
  std::vector<int> year0;    // year0[y] = day number of y-01-01
  static bool leap(int y) { return y <= 1752 ? y % 4 == 0 : (y % 4 == 0 && (y % 100 != 0 || y % 400 == 0)); }
  static int mlen(int y, int m) { static const int L[] = {31, 28, 31, 30, 31, 30, 31, 31, 30, 31, 30, 31}; return m == 2 && leap(y) ? 29 : L[m - 1]; }
  static bool valid(long y, long m, long d) {
    if (y < 1 || m < 1 || m > 12 || d < 1 || y > 200000) return false;
    if (d > mlen(int(y), int(m))) return false;
    return !(y == 1752 && m == 9 && d >= 3 && d <= 13);
  }
  static const int YMAX = 3300;
  CalTab() {
    t.push_back({0, 0, 0}); year0.assign(YMAX + 2, 0);
    int y = 1, m = 1, d = 1;
    while (y <= YMAX) {
      if (m == 1 && d == 1) year0[size_t(y)] = int(t.size());
      t.push_back({y, m, d});
      if (y == 1752 && m == 9 && d == 2) d = 14;
      else if (d < mlen(y, m)) ++d;
      else { d = 1; if (m < 12) ++m; else { m = 1; ++y; } }
    }
    year0[size_t(YMAX + 1)] = int(t.size());
  }
};
static const CalTab& caltab() { static CalTab c; return c; }

static std::string istr(long v) { return std::to_string(v); }

static void op_calday(const Args& a) {
  int y = std::atoi(a[0].c_str()), m = std::atoi(a[1].c_str()), d = std::atoi(a[2].c_str()); int s = 0;
  std::string e = guarded([&] { s = Utility::day(y, m, d); });
  if (!e.empty()) { emit(e); if (e != "!E") badx("foreign-exception", e); if (CalTab::valid(y, m, d)) badx("calendar-day", "Utility::day rejects the valid date " + istr(y) + "-" + istr(m) + "-" + istr(d)); return; }
  emit(istr(s));
  const CalTab& c = caltab();
  if (CalTab::valid(y, m, d) && y <= CalTab::YMAX) {
    bool ok = s >= 1 && s < int(c.t.size()) && c.t[size_t(s)].y == y && c.t[size_t(s)].m == m && c.t[size_t(s)].d == d;
    if (!ok) badx("calendar-day", "Utility::day(" + istr(y) + "," + istr(m) + "," + istr(d) + ") = " + istr(s) + " is not the number of that date counted from 0001-01-01 = 1");
    // day of the week, both overloads, against the walk (day 1 is a Saturday)
    int w = Utility::dow(y, m, d), w2 = Utility::dow(s);
    if (w != (s + 5) % 7 || w2 != w) badx("calendar-dow", "dow(" + istr(y) + "," + istr(m) + "," + istr(d) + ") = " + istr(w) + ", dow(" + istr(s) + ") = " + istr(w2));
    // defaults m = 1, d = 1
    if (m == 1 && d == 1 && (Utility::day(y) != s || Utility::day(y, 1) != s)) badx("calendar-day", "default arguments of Utility::day");
  }
}
static void op_caldate(const Args& a) {
  int s = std::atoi(a[0].c_str()); int y = 0, m = 0, d = 0;
  std::string e = guarded([&] { Utility::date(s, y, m, d); });
  if (!e.empty()) { emit(e); if (e != "!E") badx("foreign-exception", e); if (s >= 1 && s <= 500000000) badx("calendar-date", "Utility::date rejects day " + istr(s)); return; }
  emit(istr(y) + " " + istr(m) + " " + istr(d));
  const CalTab& c = caltab();
  if (s >= 1 && s < int(c.t.size())) {
    auto& q = c.t[size_t(s)];
    if (q.y != y || q.m != m || q.d != d) badx("calendar-date", "Utility::date(" + istr(s) + ") = " + istr(y) + "-" + istr(m) + "-" + istr(d) + ", the calendar walk gives " + istr(q.y) + "-" + istr(q.m) + "-" + istr(q.d));
  }
  if (s >= 1 && s <= 73000000) {
    if (!CalTab::valid(y, m, d)) badx("calendar-date", "Utility::date(" + istr(s) + ") = " + istr(y) + "-" + istr(m) + "-" + istr(d) + " is not a date of the documented calendar");
    int s2 = -1; guarded([&] { s2 = Utility::day(y, m, d); });
    if (s2 != s) badx("calendar-roundtrip", "day(date(" + istr(s) + ")) = " + istr(s2));
  }
}
static void op_caldaychk(const Args& a) {
  int y = std::atoi(a[0].c_str()), m = std::atoi(a[1].c_str()), d = std::atoi(a[2].c_str()); int s = 0;
  std::string e = guarded([&] { s = Utility::day(y, m, d, true); });
  bool v = CalTab::valid(y, m, d);
  if (!e.empty()) { emit(e); if (e != "!E") badx("foreign-exception", e); if (v) badx("calendar-check", "day(..., check) rejects the valid date " + istr(y) + "-" + istr(m) + "-" + istr(d)); return; }
  emit(istr(s));
  if (!v) badx("calendar-check", "day(..., check = true) accepts the invalid date " + istr(y) + "-" + istr(m) + "-" + istr(d) + " (day " + istr(s) + ")");
  int s0 = Utility::day(y, m, d, false);
  if (s0 != s || Utility::day(y, m, d) != s) badx("calendar-check", "check = false / 3-argument overload disagree");
}
static void op_caldow(const Args& a) {
  int s = std::atoi(a[0].c_str()); int w = Utility::dow(s);
  emit(istr(w));
  if (s >= -5 && (w < 0 || w > 6)) badx("calendar-dow", "dow(" + istr(s) + ") = " + istr(w) + " outside 0..6");
  if (s >= -5 && s < 2000000000 && Utility::dow(s + 7) != w) badx("calendar-dow", "dow not 7-periodic at " + istr(s));
  if (s >= -5 && s < 2000000000 && Utility::dow(s + 1) != (w + 1) % 7) badx("calendar-dow", "dow(s+1) != dow(s)+1 mod 7 at " + istr(s));
}
// calscan s0 n : every day number of the range, date -> day -> dow, hashed; compared with the walk here and with the model in Lean
static void op_calscan(const Args& a) {
  int s0 = std::atoi(a[0].c_str()), n = std::atoi(a[1].c_str());
  const CalTab& c = caltab();
  unsigned long long h = 0; const unsigned long long P = 2305843009213693951ULL;
  int firstbad = 0;
  for (int i = 0; i < n; ++i) {
    int s = s0 + i, y, m, d; Utility::date(s, y, m, d);
    int back = Utility::day(y, m, d), w = Utility::dow(s);
    long long v = ((long long)(y * 16 + m) * 32 + d) * 8 + w;
    h = (unsigned long long)(((unsigned __int128)h * 1000003ULL + (unsigned long long)v + (back == s ? 0 : 1)) % P);
    if (!firstbad && s >= 1 && s < int(c.t.size())) {
      auto& q = c.t[size_t(s)];
      if (q.y != y || q.m != m || q.d != d || back != s || w != (s + 5) % 7 || Utility::dow(y, m, d) != w) firstbad = s;
    }
  }
  emit(istr((long)h));
  if (firstbad) {
    int y, m, d; Utility::date(firstbad, y, m, d); auto& q = c.t[size_t(firstbad)];
    badx("calendar-exhaustive", "day " + istr(firstbad) + ": Utility::date gives " + istr(y) + "-" + istr(m) + "-" + istr(d) + " (walk: " + istr(q.y) + "-" + istr(q.m) + "-" + istr(q.d) +
         "), day() of it " + istr(Utility::day(y, m, d)) + ", dow " + istr(Utility::dow(firstbad)));
  }
}
static void op_datestr(const Args& a) {
  std::string s = unhs(a[0]); int y = -7, m = -7, d = -7;
  std::string e = guarded([&] { Utility::date(s, y, m, d); });
  if (!e.empty()) { emit(e); if (e != "!E") badx("foreign-exception", e); if (y != -7 || m != -7 || d != -7) badx("output-modified-on-throw", "Utility::date(string) threw but wrote its outputs"); return; }
  emit(istr(y) + " " + istr(m) + " " + istr(d));
}
// fracyear s [expected] : documented meaning  y + (day of year - 1) / (days in year)
static void op_fracyear(const Args& a) {
  std::string s = unhs(a[0]); double v = 0;
  std::string e = guarded([&] { v = Utility::fractionalyear<double>(s); });
  if (!e.empty()) { emit(e); if (e != "!E") badx("foreign-exception", e); if (a.size() > 1) badx("fractionalyear-rejected", "valid date '" + s + "' rejected"); return; }
  emit(hx(v));
  if (a.size() > 1) {
    double want = unhx(a[1]);
    if (!(std::fabs(v - want) <= 4 * ulp(want))) { char buf[200]; std::snprintf(buf, sizeof buf, "fractionalyear('%s') = %.17g, the calendar gives %.17g", s.c_str(), v, want); badx("fractionalyear-value", buf); }
  }
}
static void op_parseline(const Args& a) {
  std::string line = unhs(a[0]); char eq = char(std::atoi(a[1].c_str())), cm = char(std::atoi(a[2].c_str()));
  std::string key = "stale-key", val = "stale-value"; bool r = false;
  std::string e = guarded([&] { r = Utility::ParseLine(line, key, val, eq, cm); });
  if (!e.empty()) { emit(e); badx("foreign-exception", "ParseLine threw " + e); return; }
  emit(std::string(r ? "1 " : "0 ") + hs(key) + " " + hs(val));
  if (!r && (!key.empty() || !val.empty())) badx("parseline-contract", "returns false but key/value are not empty");
  if (r && key.empty()) badx("parseline-contract", "returns true with an empty key");
  auto trimmed = [](const std::string& t) { return t.empty() || (!std::isspace((unsigned char)t.front()) && !std::isspace((unsigned char)t.back())); };
  if (!trimmed(key) || !trimmed(val)) badx("parseline-contract", "key or value not trimmed: '" + key + "' '" + val + "'");
  if (cm && (key.find(cm) != std::string::npos || val.find(cm) != std::string::npos)) badx("parseline-contract", "comment character survives in key/value");
  if (a.size() >= 6) {   // documented form with its meaning
    std::string wk = unhs(a[3]), wv = unhs(a[4]); bool wr = a[5] == "1";
    if (r != wr || key != wk || val != wv) badx("parseline-documented", "'" + line + "' gives (" + (r ? "1" : "0") + ", '" + key + "', '" + val + "'), documented (" + (wr ? "1" : "0") + ", '" + wk + "', '" + wv + "')");
  }
  // default arguments: equals = NUL, comment = '#'
  if (eq == 0 && cm == '#') { std::string k2, v2; bool r2 = Utility::ParseLine(line, k2, v2); if (r2 != r || k2 != key || v2 != val) badx("parseline-contract", "default arguments differ from ('\\0', '#')"); }
}
static void op_trim(const Args& a) {
  std::string s = unhs(a[0]); std::string t = Utility::trim(s);
  emit(hs(t));
  size_t p = s.find(t);
  bool ok = t.empty() ? std::all_of(s.begin(), s.end(), [](char c) { return std::isspace((unsigned char)c) && (unsigned char)c < 128; })
                      : (p != std::string::npos && !std::isspace((unsigned char)t.front()) && !std::isspace((unsigned char)t.back()));
  if (!ok) badx("trim-contract", "trim('" + s + "') = '" + t + "'");
  if (Utility::val<std::string>(s) != t) badx("trim-contract", "val<std::string> is not trim");
}
static void op_valbool(const Args& a) {
  std::string s = unhs(a[0]); bool v = false;
  std::string e = guarded([&] { v = Utility::val<bool>(s); });
  if (!e.empty()) { emit(e); if (e != "!E") badx("foreign-exception", e); if (a.size() > 1 && a[1] != "9") badx("valbool-documented", "documented spelling '" + s + "' rejected"); return; }
  emit(v ? "1" : "0");
  if (a.size() > 1 && (a[1] == "9" || (a[1] == "1") != v)) badx("valbool-documented", "val<bool>('" + s + "') = " + (v ? "true" : "false"));
  if (Utility::str(v) != (v ? "true" : "false")) badx("str-generic", "str(bool) is not boolalpha");
}
static void op_valint(const Args& a) {
  std::string s = unhs(a[0]); int v = 0;
  std::string e = guarded([&] { v = Utility::val<int>(s); });
  // independent reading: optional white space, sign, decimal digits, white space; in range of int
  std::string t = s; while (!t.empty() && std::isspace((unsigned char)t.back())) t.pop_back();
  size_t b = 0; while (b < t.size() && std::isspace((unsigned char)t[b])) ++b; t = t.substr(b);
  bool shape = !t.empty(); size_t i = 0; if (shape && (t[0] == '+' || t[0] == '-')) i = 1;
  if (i >= t.size()) shape = false; for (size_t j = i; j < t.size(); ++j) if (t[j] < '0' || t[j] > '9') shape = false;
  long long w = 0; bool inrange = shape;
  if (shape) { for (size_t j = i; j < t.size() && inrange; ++j) { w = w * 10 + (t[j] - '0'); if (w > 2147483648LL) inrange = false; } if (t[0] == '-') w = -w; if (w > 2147483647LL || w < -2147483648LL) inrange = false; }
  if (!e.empty()) { emit(e); if (e != "!E") badx("foreign-exception", e); if (shape && inrange && w != 0) badx("valint", "val<int>('" + s + "') rejected"); return; }
  emit(istr(v));
  if (!(shape && inrange && w == v)) badx("valint", "val<int>('" + s + "') = " + istr(v));
  if (Utility::str(v) != std::to_string(v) || Utility::val<int>(Utility::str(v)) != v) badx("str-generic", "str(int) does not read back");
}

// rwarray kind n seed : writearray -> bytes (checked against an independent big/little-endian encoding) -> readarray
template<typename ExtT, typename IntT, bool be> static bool rw_one(const std::vector<IntT>& v, bool vecform, std::string& why) {
  std::ostringstream os(std::ios::binary);
  std::vector<IntT> w = v;
  if (vecform) Utility::writearray<ExtT, IntT, be>(os, w); else Utility::writearray<ExtT, IntT, be>(os, v.data(), v.size());
  std::string by = os.str();
  if (by.size() != v.size() * sizeof(ExtT)) { why = "byte count " + istr(long(by.size())); return false; }
  for (size_t i = 0; i < v.size(); ++i) {
    ExtT x = ExtT(v[i]); unsigned char raw[sizeof(ExtT)]; std::memcpy(raw, &x, sizeof(ExtT));   // host is little-endian (asserted by the caller)
    for (size_t k = 0; k < sizeof(ExtT); ++k) {
      unsigned char want = be ? raw[sizeof(ExtT) - 1 - k] : raw[k];
      if ((unsigned char)by[i * sizeof(ExtT) + k] != want) { why = "byte order of element " + istr(long(i)); return false; }
    }
  }
  std::istringstream is(by, std::ios::binary); std::vector<IntT> r(v.size(), IntT(77));
  if (vecform) Utility::readarray<ExtT, IntT, be>(is, r); else Utility::readarray<ExtT, IntT, be>(is, r.data(), r.size());
  for (size_t i = 0; i < v.size(); ++i) { ExtT x = ExtT(v[i]); IntT back = IntT(x); if (std::memcmp(&back, &r[i], sizeof(IntT)) != 0) { why = "element " + istr(long(i)) + " read back differently"; return false; } }
  // a stream that is one byte short must be refused with GeographicErr
  if (!v.empty()) {
    std::istringstream sh(by.substr(0, by.size() - 1), std::ios::binary); std::vector<IntT> r2(v.size());
    std::string e = guarded([&] { Utility::readarray<ExtT, IntT, be>(sh, r2.data(), r2.size()); });
    if (e != "!E") { why = "short stream not refused (" + e + ")"; return false; }
  }
  return true;
}
static void op_rwarray(const Args& a) {
  int kind = std::atoi(a[0].c_str()); size_t n = size_t(std::atoi(a[1].c_str())); Rng r(std::strtoull(a[2].c_str(), nullptr, 10));
  std::vector<double> vd(n); std::vector<int> vi(n); std::vector<unsigned short> vu(n);
  for (size_t i = 0; i < n; ++i) { vd[i] = i % 7 == 0 ? double(float(nasty_angle(r))) : nasty_angle(r); vi[i] = int(r.next()); vu[i] = (unsigned short)(r.next()); }
  std::string why; bool ok = true; bool vf = r.coin();
  uint16_t probe = 1; unsigned char pb; std::memcpy(&pb, &probe, 1);
  if (pb != 1 || Math::bigendian) { emit("skip"); return; }
  switch (kind) {
  case 0: ok = rw_one<double, double, false>(vd, vf, why); break;
  case 1: ok = rw_one<double, double, true>(vd, vf, why); break;
  case 2: { std::vector<double> vf32(n); for (size_t i = 0; i < n; ++i) vf32[i] = double(float(std::fmod(vd[i], 1e30))); ok = rw_one<float, double, true>(vf32, vf, why); break; }
  case 3: ok = rw_one<unsigned short, unsigned short, true>(vu, vf, why); break;
  case 4: ok = rw_one<int, int, false>(vi, vf, why); break;
  case 5: { std::vector<int> sm(n); for (size_t i = 0; i < n; ++i) sm[i] = vi[i] % 30000; ok = rw_one<short, int, false>(sm, vf, why); break; }
  case 6: { std::vector<double> vf32(n); for (size_t i = 0; i < n; ++i) vf32[i] = double(float(std::fmod(vd[i], 1e30))); ok = rw_one<float, double, false>(vf32, vf, why); break; }
  default: ok = rw_one<unsigned short, unsigned short, false>(vu, vf, why); break;
  }
  emit(ok ? "ok" : "fail");
  if (!ok) badx("readarray-writearray", "kind " + istr(kind) + " n " + istr(long(n)) + ": " + why);
}

// ---- GeoCoords: accessors and the alternate zone ------------------------------------------------------------------
// gcalt lat lon zone prec : SetAltZone(zone) and every Alt* accessor against UTMUPS::Forward at the same point with setzone = AltZone()
static void op_gcalt(const Args& a) {
  double lat = unhx(a[0]), lon = unhx(a[1]); int zone = std::atoi(a[2].c_str()), prec = std::atoi(a[3].c_str());
  GeoCoords g; std::string e = guarded([&] { g.Reset(lat, lon); });
  if (!e.empty()) { emit(e); if (e != "!E") badx("foreign-exception", e); return; }
  char buf[400];
  // plain accessors: the same call made directly
  { int z; bool np; double x, y, gam, k; UTMUPS::Forward(lat, lon, z, np, x, y, gam, k);
    if (g.Zone() != z || g.Northp() != np || bits(g.Easting()) != bits(x) || bits(g.Northing()) != bits(y) || bits(g.Convergence()) != bits(gam) || bits(g.Scale()) != bits(k) ||
        bits(g.Latitude()) != bits(lat) || bits(g.Longitude()) != bits(Math::AngNormalize(lon)) || g.Hemisphere() != (np ? 'n' : 's'))
      badx("geocoords-accessors", "Zone/Northp/Hemisphere/Easting/Northing/Convergence/Scale/Latitude/Longitude differ from UTMUPS::Forward at the same point");
    if (g.EquatorialRadius() != Constants::WGS84_a() || g.Flattening() != Constants::WGS84_f()) badx("geocoords-accessors", "EquatorialRadius/Flattening are not WGS84");
    // before SetAltZone the alternate copy is the main one
    if (g.AltZone() != z || bits(g.AltEasting()) != bits(x) || bits(g.AltNorthing()) != bits(y) || bits(g.AltConvergence()) != bits(gam) || bits(g.AltScale()) != bits(k))
      badx("geocoords-alt", "alternate zone of a fresh object is not the main zone"); }
  int az0 = g.AltZone(); double ae0 = g.AltEasting(), an0 = g.AltNorthing();
  e = guarded([&] { g.SetAltZone(zone); });
  int want = -99; std::string e0 = guarded([&] { want = UTMUPS::StandardZone(lat, Math::AngNormalize(lon), zone); });
  if (!e.empty()) {
    emit(e); if (e != "!E") badx("foreign-exception", e);
    // legitimate only when the zone specification is illegal or the point is outside the requested zone's domain
    int z; bool np; double x, y; std::string e2 = guarded([&] { UTMUPS::Forward(lat, lon, z, np, x, y, zone); });
    if (e2.empty() && zone != UTMUPS::MATCH) badx("geocoords-alt", "SetAltZone(" + istr(zone) + ") throws although UTMUPS::Forward accepts this zone");
    if (g.AltZone() != az0 || bits(g.AltEasting()) != bits(ae0) || bits(g.AltNorthing()) != bits(an0)) badx("output-modified-on-throw", "SetAltZone threw but changed the alternate coordinates");
    return;
  }
  emit(istr(g.AltZone()) + " " + hx(g.AltEasting()) + " " + hx(g.AltNorthing()) + " " + hx(g.AltConvergence()) + " " + hx(g.AltScale()));
  if (zone == UTMUPS::MATCH) {
    if (g.AltZone() != az0 || bits(g.AltEasting()) != bits(ae0) || bits(g.AltNorthing()) != bits(an0)) badx("geocoords-alt", "SetAltZone(MATCH) changed the alternate zone");
    return;
  }
  if (e0.empty() && want == UTMUPS::INVALID && g.AltZone() == UTMUPS::INVALID) return;   // INVALID in, INVALID (all NaN) out
  if (!e0.empty() || g.AltZone() != want) { badx("geocoords-alt", "AltZone() = " + istr(g.AltZone()) + ", StandardZone(lat, lon, " + istr(zone) + ") = " + istr(want)); return; }
  { int z; bool np; double x, y, gam, k;
    std::string e2 = guarded([&] { UTMUPS::Forward(lat, lon, z, np, x, y, gam, k, g.AltZone()); });
    if (!e2.empty()) { badx("geocoords-alt", "UTMUPS::Forward refuses setzone = AltZone()"); return; }
    double yy = y; if (np != g.Northp() && z > 0) yy += (g.Northp() ? -1 : 1) * UTMUPS::UTMShift();
    if (z != g.AltZone() || bits(x) != bits(g.AltEasting()) || bits(yy) != bits(g.AltNorthing()) || bits(gam) != bits(g.AltConvergence()) || bits(k) != bits(g.AltScale())) {
      std::snprintf(buf, sizeof buf, "alt zone %d: Alt easting/northing/convergence/scale = %.17g %.17g %.17g %.17g, UTMUPS::Forward(setzone = AltZone) reported in hemisphere %c gives %.17g %.17g %.17g %.17g",
                    g.AltZone(), g.AltEasting(), g.AltNorthing(), g.AltConvergence(), g.AltScale(), g.Hemisphere(), x, yy, gam, k);
      badx("geocoords-alt", buf);
    } }
  // the alternate representations: same formatter on the alternate members; re-parse to the same point
  for (int ab = 0; ab < 2; ++ab) {
    std::string s, want2; std::string e2 = guarded([&] { s = g.AltUTMUPSRepresentation(prec, ab != 0); GeoCoords::UTMUPSString(g.AltZone(), g.Northp(), g.AltEasting(), g.AltNorthing(), prec, ab != 0, want2); });
    if (!e2.empty()) { if (e2 != "!E") badx("foreign-exception", e2); continue; }
    if (s != want2) badx("geocoords-alt-string", "AltUTMUPSRepresentation '" + s + "' != UTMUPSString of the Alt accessors '" + want2 + "'");
    GeoCoords h; std::string e3 = guarded([&] { h.Reset(s); });
    int pe = std::max(-5, std::min(9, prec)); double tol = 0.5 * std::pow(10.0, -pe) * (1 + 1e-9) + 4 * ulp(1e7);
    if (!e3.empty()) badx("geocoords-closure", "AltUTMUPSRepresentation '" + s + "' not accepted by GeoCoords (" + e3 + ")");
    else {
      double dn = h.Northing() - g.AltNorthing(); if (h.Northp() != g.Northp()) dn += (h.Northp() ? 1 : -1) * 1e7;
      if (h.Zone() != g.AltZone() || !(std::fabs(h.Easting() - g.AltEasting()) <= tol) || !(std::fabs(dn) <= tol)) {
        std::snprintf(buf, sizeof buf, "'%s' parses to zone %d (%.17g, %.17g), alternate was zone %d (%.17g, %.17g)", s.c_str(), h.Zone(), h.Easting(), h.Northing(), g.AltZone(), g.AltEasting(), g.AltNorthing());
        badx("geocoords-alt-roundtrip", buf);
      }
      // and it is the same point on the ground (grid distance / scale >= ground distance to first order)
      // geodesic distance (a planar lat/lon formula is useless next to a pole, where the re-parsed point may be the pole itself)
      double gd = 0; Geodesic::WGS84().Inverse(lat, lon, h.Latitude(), h.Longitude(), gd);
      if (!(gd <= 1.5 * tol / std::min(1.0, g.AltScale()) + 1e-6)) {
        std::snprintf(buf, sizeof buf, "'%s' is %.3g m away from (%.17g, %.17g)", s.c_str(), gd, lat, lon);
        badx("geocoords-alt-roundtrip", buf);
      }
    }
  }
  {
    std::string s, want2; std::string e1 = guarded([&] { s = g.AltMGRSRepresentation(prec); });
    std::string e2 = guarded([&] { MGRS::Forward(g.AltZone(), g.Northp(), g.AltEasting(), g.AltNorthing(), g.Latitude(), std::max(-1, std::min(6, prec) + 5), want2); });
    if (e1 != e2 || s != want2) badx("geocoords-alt-string", "AltMGRSRepresentation '" + s + "' (" + e1 + ") != MGRS::Forward of the Alt accessors '" + want2 + "' (" + e2 + ")");
    int pe = std::max(-1, std::min(6, prec) + 5);
    if (e1.empty() && pe >= 0 && s != "INVALID") {
      GeoCoords h; std::string e3 = guarded([&] { h.Reset(s); });
      double sq = std::pow(10.0, 5 - pe), tol = 0.5 * sq * (1 + 1e-9) + 1e-6;
      if (!e3.empty()) badx("geocoords-closure", "AltMGRSRepresentation '" + s + "' not accepted by GeoCoords (" + e3 + ")");
      else {
        double dn = h.Northing() - g.AltNorthing(); if (h.Northp() != g.Northp()) dn += (h.Northp() ? 1 : -1) * 1e7;
        if (h.Zone() != g.AltZone() || !(std::fabs(h.Easting() - g.AltEasting()) <= tol) || !(std::fabs(dn) <= tol)) badx("geocoords-alt-roundtrip", "'" + s + "' does not parse back to the alternate coordinates");
      }
    }
  }
  // SetAltZone back to the main zone restores the copy
  { GeoCoords g2(lat, lon); g2.SetAltZone(zone); std::string e4 = guarded([&] { g2.SetAltZone(g2.Zone()); });
    if (e4.empty() && (g2.AltZone() != g2.Zone() || bits(g2.AltEasting()) != bits(g2.Easting()) || bits(g2.AltNorthing()) != bits(g2.Northing()))) badx("geocoords-alt", "SetAltZone(Zone()) does not restore the main coordinates"); }
}
// gcnp lat lon northp prec abbrev altzone : the explicit-hemisphere representations re-parse to the same object
static void op_gcnp(const Args& a) {
  double lat = unhx(a[0]), lon = unhx(a[1]); bool np = a[2] == "1"; int prec = std::atoi(a[3].c_str()); bool ab = a[4] == "1"; int zone = std::atoi(a[5].c_str());
  GeoCoords g; std::string e = guarded([&] { g.Reset(lat, lon); g.SetAltZone(zone); });
  if (!e.empty()) { emit(e); if (e != "!E") badx("foreign-exception", e); return; }
  char buf[400]; std::string out;
  for (int alt = 0; alt < 2; ++alt) {
    std::string s; std::string e2 = guarded([&] { s = alt ? g.AltUTMUPSRepresentation(np, prec, ab) : g.UTMUPSRepresentation(np, prec, ab); });
    int Z = alt ? g.AltZone() : g.Zone();
    if (!e2.empty()) {
      out += e2 + " ";
      if (e2 != "!E") badx("foreign-exception", e2);
      else if (!(Z == 0 && np != g.Northp())) badx("geocoords-explicit-hemisphere", "UTMUPSRepresentation(northp, ...) throws for a UTM position");
      continue;
    }
    out += hs(s) + " ";
    // the hemisphere written is the one asked for
    std::istringstream is(s); std::string zs; is >> zs; int z2 = -9; bool np2 = !np; std::string e4 = guarded([&] { UTMUPS::DecodeZone(zs, z2, np2); });
    if (!e4.empty() || z2 != Z || np2 != np) badx("geocoords-explicit-hemisphere", "'" + s + "' does not carry zone " + istr(Z) + " and the requested hemisphere");
    if (ab != (zs.size() <= 3)) badx("geocoords-explicit-hemisphere", "'" + s + "': abbrev flag ignored");
    GeoCoords h; std::string e3 = guarded([&] { h.Reset(s); });
    int pe = std::max(-5, std::min(9, prec)); double tol = 0.5 * std::pow(10.0, -pe) * (1 + 1e-9) + 4 * ulp(1e7);
    if (!e3.empty()) { badx("geocoords-closure", "UTMUPSRepresentation(northp, ...) '" + s + "' not accepted by GeoCoords (" + e3 + ")"); continue; }
    double E = alt ? g.AltEasting() : g.Easting(), N = alt ? g.AltNorthing() : g.Northing();
    // the parsed object reports the position in its true hemisphere again
    bool hem_ok = h.Northp() == g.Northp() || std::fabs(h.Latitude()) * 111e3 <= tol * 2;
    double dn = h.Northing() - N; if (h.Northp() != g.Northp()) dn += (h.Northp() ? 1 : -1) * 1e7;
    if (h.Zone() != Z || !hem_ok || !(std::fabs(h.Easting() - E) <= tol) || !(std::fabs(dn) <= tol)) {
      std::snprintf(buf, sizeof buf, "'%s' parses to %d%c (%.17g, %.17g), was %d%c (%.17g, %.17g)", s.c_str(), h.Zone(), h.Hemisphere(), h.Easting(), h.Northing(), Z, g.Hemisphere(), E, N);
      badx("geocoords-explicit-hemisphere", buf);
    }
  }
  emit(out.empty() ? "none" : out.substr(0, out.size() - 1));
}
// gcparse s centerp longfirst : the string constructor against an independent token dispatch on the public readers
static void op_gcparse(const Args& a) {
  std::string s = unhs(a[0]); bool cp = a[1] == "1", lf = a[2] == "1";
  GeoCoords g; std::string e = guarded([&] { g.Reset(s, cp, lf); });
  // independent tokenisation: white space and comma
  std::vector<std::string> tk; { std::string cur; for (char c : s) { bool sp = c == ' ' || c == ',' || (c >= 9 && c <= 13); if (sp) { if (!cur.empty()) tk.push_back(cur); cur.clear(); } else cur += c; } if (!cur.empty()) tk.push_back(cur); }
  GeoCoords w; std::string ew; int kind = 0;
  auto alpha_end = [](const std::string& t) { return !t.empty() && std::isalpha((unsigned char)t.back()); };
  if (tk.size() == 1) { kind = 1; ew = guarded([&] { int z, p; bool np; double x, y; MGRS::Reverse(tk[0], z, np, x, y, p, cp); w.Reset(z, np, x, y); }); }
  else if (tk.size() == 2) { kind = 2; ew = guarded([&] { double la, lo; DMS::DecodeLatLon(tk[0], tk[1], la, lo, lf); w.Reset(la, lo); }); }
  else if (tk.size() == 3 && (alpha_end(tk[0]) || alpha_end(tk[2]))) {
    kind = alpha_end(tk[0]) ? 3 : 4; int zi = kind == 3 ? 0 : 2, ci = kind == 3 ? 1 : 0;
    ew = guarded([&] { int z; bool np; UTMUPS::DecodeZone(tk[size_t(zi)], z, np); double x = Utility::val<double>(tk[size_t(ci)]), y = Utility::val<double>(tk[size_t(ci + 1)]); w.Reset(z, np, x, y); });
  } else ew = "!E";
  if (!e.empty()) { emit(e + " " + istr(kind)); if (e != "!E") badx("foreign-exception", e); if (ew.empty()) badx("geocoords-dispatch", "'" + s + "' is rejected although its " + istr(long(tk.size())) + " token(s) are accepted by the documented reader"); return; }
  emit(istr(g.Zone()) + " " + (g.Northp() ? "1 " : "0 ") + hx(g.Latitude()) + " " + hx(g.Longitude()) + " " + hx(g.Easting()) + " " + hx(g.Northing()) + " " + istr(kind));
  if (!ew.empty()) { badx("geocoords-dispatch", "'" + s + "' is accepted although the documented reader for " + istr(long(tk.size())) + " token(s) rejects it"); return; }
  auto same = [](double p, double q) { return bits(p) == bits(q) || (std::isnan(p) && std::isnan(q)); };
  if (g.Zone() != w.Zone() || g.Northp() != w.Northp() || !same(g.Latitude(), w.Latitude()) || !same(g.Longitude(), w.Longitude()) || !same(g.Easting(), w.Easting()) || !same(g.Northing(), w.Northing()) ||
      !same(g.Convergence(), w.Convergence()) || !same(g.Scale(), w.Scale()) || g.AltZone() != g.Zone() || !same(g.AltEasting(), g.Easting()) || !same(g.AltNorthing(), g.Northing())) {
    char buf[300];
    // class F97: "Internally longitudes are reduced to the range [-180, 180]" (GeoCoords.hpp) is not done on the string path
    bool onlylon = g.Zone() == w.Zone() && g.Northp() == w.Northp() && same(g.Latitude(), w.Latitude()) && same(g.Easting(), w.Easting()) && same(g.Northing(), w.Northing()) &&
                   kind == 2 && std::fabs(g.Longitude()) > 180 && (std::fabs(std::remainder(g.Longitude() - w.Longitude(), 360.0)) < 1e-9 || (std::isinf(g.Longitude()) && std::isnan(w.Longitude())));
    if (onlylon) { std::snprintf(buf, sizeof buf, "'%s' -> Longitude() = %.17g, not reduced to [-180, 180] (GeoCoords(lat, lon) gives %.17g)", s.c_str(), g.Longitude(), w.Longitude()); badx("geocoords-longitude-not-reduced", buf); return; } std::snprintf(buf, sizeof buf, "'%s' -> %d%c %.17g %.17g (%.17g, %.17g), the documented reader gives %d%c %.17g %.17g (%.17g, %.17g)", s.c_str(), g.Zone(), g.Hemisphere(), g.Easting(), g.Northing(),
                                 g.Latitude(), g.Longitude(), w.Zone(), w.Hemisphere(), w.Easting(), w.Northing(), w.Latitude(), w.Longitude());
    badx("geocoords-dispatch", buf);
  }
  // the string constructor is Reset
  { GeoCoords c2(s, cp, lf); if (c2.Zone() != g.Zone() || !same(c2.Easting(), g.Easting()) || !same(c2.Latitude(), g.Latitude())) badx("geocoords-dispatch", "constructor and Reset differ"); }
  // centerp: the centre of the MGRS square is its south-west corner + half its side (documented), never for full-precision digits beyond 11
  if (kind == 1 && a.size() > 3) {
    int nd = std::atoi(a[3].c_str());   // digits per coordinate in the MGRS string
    GeoCoords o; std::string eo = guarded([&] { o.Reset(s, !cp, lf); });
    if (eo.empty() && nd >= 0 && nd <= 11) {
      double half = 0.5 * std::pow(10.0, 5 - nd); const GeoCoords& ctr = cp ? g : o; const GeoCoords& cor = cp ? o : g;
      if (!(std::fabs(ctr.Easting() - cor.Easting() - half) <= 1e-6 * half + 1e-9) || !(std::fabs(ctr.Northing() - cor.Northing() - half) <= 1e-6 * half + 2e-9))
        badx("geocoords-centerp", "'" + s + "': centre and corner do not differ by half the square");
    }
  }
}
// dmsnum d m s ang : the numeric helpers of DMS.hpp
static void op_dmsnum(const Args& a) {
  double d = unhx(a[0]), m = unhx(a[1]), s = unhx(a[2]), ang = unhx(a[3]);
  double v = DMS::Decode(d, m, s), v2 = DMS::Decode(d, m), v1 = DMS::Decode(d);
  double D, M, S, D2, M2; DMS::Encode(ang, D, M, S); DMS::Encode(ang, D2, M2);
  emit(hx(v) + " " + hx(D) + " " + hx(M) + " " + hx(S));
  LD want = LD(d) + (LD(m) + LD(s) / 60) / 60; LD sc = std::fabs(LD(d)) + std::fabs(LD(m)) / 60 + std::fabs(LD(s)) / 3600;
  if (std::isfinite(double(want)) && !(std::fabs(LD(v) - want) <= 4 * LD(ulp(double(sc))))) badx("dms-numeric", "Decode(d, m, s) is not d + m/60 + s/3600");
  if (bits(v1) != bits(DMS::Decode(d, 0, 0)) || bits(v2) != bits(DMS::Decode(d, m, 0))) badx("dms-numeric", "default arguments of Decode(d, m, s)");
  if (std::isfinite(ang) && std::fabs(ang) < 1e15) {
    bool ok = D == std::trunc(D) && M == std::trunc(M) && std::fabs(M) < 60 && std::fabs(S) < 60 && (D == 0 || std::signbit(D) == std::signbit(ang)) && (M == 0 || std::signbit(M) == std::signbit(ang)) && (S == 0 || std::signbit(S) == std::signbit(ang));
    LD back = LD(D) + (LD(M) + LD(S) / 60) / 60;
    if (!ok || !(std::fabs(back - LD(ang)) <= 4 * LD(ulp(ang)) + 1e-300L)) { char buf[200]; std::snprintf(buf, sizeof buf, "Encode(%.17g, d, m, s) = %.17g %.17g %.17g", ang, D, M, S); badx("dms-numeric", buf); }
    bool ok2 = D2 == std::trunc(D2) && std::fabs(M2) < 60 && bits(D2) == bits(D); LD back2 = LD(D2) + LD(M2) / 60;
    if (!ok2 || !(std::fabs(back2 - LD(ang)) <= 4 * LD(ulp(ang)) + 1e-300L)) badx("dms-numeric", "Encode(ang, d, m) does not re-assemble");
  }
}

static Reg g1("calday", op_calday), g2("caldate", op_caldate), g3("caldaychk", op_caldaychk), g4("caldow", op_caldow), g5("calscan", op_calscan), g6("datestr", op_datestr),
  g7("fracyear", op_fracyear), g8("parseline", op_parseline), g9("trim", op_trim), g10("valbool", op_valbool), g11("valint", op_valint), g12("rwarray", op_rwarray),
  g13("gcalt", op_gcalt), g14("gcnp", op_gcnp), g15("gcparse", op_gcparse), g16("dmsnum", op_dmsnum);

// ---- generators ---------------------------------------------------------------------------------------------------
static std::string ws_run(Rng& r, int lo, int hi) { std::string s; int n = r.irange(lo, hi); for (int i = 0; i < n; ++i) s += " \t\v\f\r\n"[r.irange(0, r.irange(0, 3) ? 1 : 5)]; return s; }
static std::string word(Rng& r, const std::string& avoid, bool inner_space) {
  static const std::string al = "abcXYZ019_./-:=#;%\x80\xff"; std::string s; int n = r.irange(1, 8);
  for (int i = 0; i < n; ++i) { char c = al[size_t(r.irange(0, int(al.size()) - 1))]; if (avoid.find(c) != std::string::npos) c = 'k'; s += c; }
  if (inner_space && n > 2 && r.coin()) s[size_t(n / 2)] = ' ';
  return s;
}
static void gen_parseline(Rng& r) {
  static const char eqs[] = {0, 0, '=', '=', ':', ' ', '\t'}; static const char cms[] = {'#', '#', '#', 0, ';', '%'};
  char eq = eqs[r.irange(0, 6)], cm = cms[r.irange(0, 5)];
  std::string avoid; if (eq) avoid += eq; if (cm) avoid += cm;
  int k = r.irange(0, 9);
  if (k < 6) {   // documented form: [ws] KEY sep [VALUE] [ws] [comment]
    std::string key = word(r, avoid + (eq ? "" : " "), eq != 0 && eq != ' ' && eq != '\t'), val = r.irange(0, 4) ? word(r, avoid, true) : "";
    if (eq == ' ' || eq == '\t') { for (auto& c : key) if (c == ' ') c = '_'; }
    std::string line = ws_run(r, 0, 2) + key;
    bool withsep = !val.empty() || r.coin();
    if (withsep) line += eq ? ws_run(r, 0, 2) + std::string(1, eq) + ws_run(r, 0, 2) : ws_run(r, 1, 3);
    if (eq == 0 && val.empty()) {}
    line += val + ws_run(r, 0, 2);
    if (cm && r.coin()) line += std::string(1, cm) + word(r, "", true) + (r.coin() ? std::string(1, cm) + "x" : "");
    // trimmed expectations
    auto tr = [](std::string t) { while (!t.empty() && std::isspace((unsigned char)t.back())) t.pop_back(); size_t b = 0; while (b < t.size() && std::isspace((unsigned char)t[b])) ++b; return t.substr(b); };
    stratum("parseline/documented-form");
    run("parseline", {hs(line), std::to_string(int(eq)), std::to_string(int(cm)), hs(tr(key)), hs(tr(val)), "1"});
  } else if (k < 8) {   // no key: empty, blank, comment only, separator first
    std::string line = ws_run(r, 0, 3); int j = r.irange(0, 2);
    if (j == 1 && cm) line += std::string(1, cm) + word(r, "", true);
    if (j == 2 && eq && eq != ' ' && eq != '\t') line += std::string(1, eq) + ws_run(r, 0, 1) + word(r, avoid, false);
    stratum("parseline/no-key");
    run("parseline", {hs(line), std::to_string(int(eq)), std::to_string(int(cm)), hs(""), hs(""), "0"});
  } else {
    std::string line = mutate(r, ws_run(r, 0, 1) + word(r, "", true) + (eq ? std::string(1, eq) : " ") + word(r, "", true) + (cm ? std::string(1, cm) : "") + word(r, "", false));
    stratum("parseline/mutated");
    run("parseline", {hs(line), std::to_string(int(r.coin() ? eq : char(r.irange(0, 127)))), std::to_string(int(r.coin() ? cm : char(r.irange(0, 127))))});
  }
}
static void gen_calendar(Rng& r, bool thorough) {
  const CalTab& c = caltab();
  // exhaustive: every day of 0001-01-01 … 3300-12-31 (quick: the 400 years on either side of the 1752 switch and of today)
  const int chunk = 20000;
  int lo = thorough ? 1 : c.year0[1352], hi = thorough ? int(c.t.size()) - 1 : c.year0[2427];
  for (int s = lo; s <= hi; s += chunk) { stratum("calendar/exhaustive-scan"); run("calscan", {std::to_string(s), std::to_string(std::min(chunk, hi - s + 1))}); }
  stratum("calendar/exhaustive-scan"); run("calscan", {"1", "800"});      // the first years (day numbers below 1 are sampled one by one: strata around year 0)
  // anchors: the switch, day 1, known week days, leap days
  static const int anchors[][3] = {{1, 1, 1}, {1, 12, 31}, {1752, 9, 2}, {1752, 9, 14}, {1752, 9, 3}, {1752, 9, 13}, {1752, 2, 29}, {1700, 2, 29}, {1800, 2, 29}, {1900, 2, 29}, {2000, 2, 29}, {2100, 2, 29},
    {1582, 10, 5}, {1582, 10, 15}, {1970, 1, 1}, {2000, 1, 1}, {2001, 7, 1}, {2012, 7, 3}, {2026, 9, 30}, {4, 2, 29}, {0, 12, 31}, {0, 1, 1}, {-1, 3, 1}, {2024, 13, 1}, {2024, 0, 1}, {2024, 2, 30}, {2023, 2, 29}, {2024, 4, 31},
    {200000, 12, 31}, {200001, 1, 1}, {-200000, 1, 1}, {2000, 100000, 1}, {2000, 100001, 1}, {2000, 1, 10000000}, {2000, 1, 10000001}, {2000, -100000, -10000000}};
  for (auto& q : anchors) { stratum("calendar/anchors"); run("calday", {std::to_string(q[0]), std::to_string(q[1]), std::to_string(q[2])}); run("caldaychk", {std::to_string(q[0]), std::to_string(q[1]), std::to_string(q[2])}); }
  for (int s : {1, 0, -1, 2, 639798, 639799, 639800, 730120, 500000000, 500000001, -500000000, -500000001, 2147483647, -2147483647 - 1, 2147483640, -306, -305, -304, 59, 60, 61}) {
    stratum("calendar/anchors"); run("caldate", {std::to_string(s)}); run("caldow", {std::to_string(s)}); }
  const int n = thorough ? 20000 : 3000;
  for (int i = 0; i < n; ++i) {
    int k = r.irange(0, 5); int y, m, d;
    if (k == 0) { y = r.irange(1, 3300); m = r.irange(1, 12); d = r.irange(1, 31); }                                   // valid or just past the month end
    else if (k == 1) { y = 1752 + r.irange(-1, 1); m = r.irange(8, 10); d = r.irange(1, 31); }                          // the switch
    else if (k == 2) { y = 100 * r.irange(1, 40); m = r.irange(2, 3); d = r.irange(27, 30) % 30 + 1; }                  // century years, end of February
    else if (k == 3) { y = r.irange(-3, 5); m = r.irange(-14, 26); d = r.irange(-40, 400); }                            // around year 0, unnormalised month / day (truncating division)
    else if (k == 4) { y = r.irange(-200001, 200001); m = r.irange(-100001, 100001); d = r.irange(-10000001, 10000001); }
    else { y = r.irange(1, 200000); m = r.irange(1, 12); d = r.irange(1, 28); }
    stratum("calendar/date-to-day"); run("calday", {std::to_string(y), std::to_string(m), std::to_string(d)});
    if (i % 2 == 0) run("caldaychk", {std::to_string(y), std::to_string(m), std::to_string(d)});
    int s = k == 4 ? r.irange(-500000001, 500000001) : (k == 3 ? r.irange(-800, 800) : (k == 1 ? 639799 + r.irange(-40, 40) : r.irange(1, 73000000)));
    stratum("calendar/day-to-date"); run("caldate", {std::to_string(s)}); if (i % 4 == 0) run("caldow", {std::to_string(s)});
  }
  // date strings and fractional years
  for (const char* s : {"2010-01-01", "2012-07-02", "2012-07-03", "2001-07-01", "2001-07-02", "1752-09-14", "1752-09-02", "1752-12-31", "1752-09-03", "2000-02-29", "1900-02-29", "2010", "2012.5", "2010-06", "2010-6-1", "0001-01-01", "0000-12-31",
                        "2010-", "2010-06-", "-2010", "2010--06", "2010/06/01", "2010-06-01-", "2010-06-01x", "", " 2010-06-01", "2010-06-01 ", "2010-13-01", "2010-00-10", "2010-02-30", "99999999999-01-01", "2010-99999999999", "200000-12-31", "200001-01-01",
                        "nan", "inf", "-inf", "1e3", "0x7da", "2010-1e1", "2010-+6-1", "+2010-06-01", "2010-06-+1"}) {
    stratum("calendar/date-strings"); run("datestr", {hs(s)}); run("fracyear", {hs(s)});
  }
  for (int i = 0; i < n / 3; ++i) {
    int y = r.irange(0, 9) ? r.irange(1600, 2400) : r.irange(1, 3299), m = r.irange(1, 12), d = r.irange(1, 31); char buf[60];
    static const char* fm[] = {"%04d-%02d-%02d", "%d-%d-%d", "%04d-%02d", "%d"};
    int f = r.irange(0, 3); std::snprintf(buf, sizeof buf, fm[f], y, m, d); if (f >= 2) d = 1; if (f == 3) m = 1;
    std::string s = buf;
    if (r.irange(0, 5) == 0) { s = mutate(r, s); stratum("calendar/date-strings-mutated"); run("datestr", {hs(s)}); run("fracyear", {hs(s)}); continue; }
    stratum("calendar/date-strings"); run("datestr", {hs(s)});
    if (CalTab::valid(y, m, d) && f != 3) {
      // independent: position of the day within its year, from the walk
      int t = -1; for (int q = c.year0[size_t(y)]; q < c.year0[size_t(y + 1)]; ++q) if (c.t[size_t(q)].m == m && c.t[size_t(q)].d == d) { t = q; break; }
      long double want = y + (long double)(t - c.year0[size_t(y)]) / (long double)(c.year0[size_t(y + 1)] - c.year0[size_t(y)]);
      run("fracyear", {hs(s), hx(double(want))});
    } else run("fracyear", {hs(s)});
  }
}
static void gen_glue(Rng& r, bool thorough) {
  const int N = thorough ? 10 : 1;
  gen_calendar(r, thorough);
  for (int i = 0; i < 3000 * N; ++i) gen_parseline(r);
  for (const char* s : {"", " ", "a", " a ", "\ta b\n", "\v\f\r x \r\f\v", "x\xa0", "\xa0x", "\x85x\x85", " \0 ", "a\0"}) { stratum("utility/trim"); run("trim", {hs(s)}); }
  run("trim", {hs(std::string(" \0 ", 3))}); run("trim", {hs(std::string("a\0 ", 3))});
  for (int i = 0; i < 500 * N; ++i) { stratum("utility/trim"); run("trim", {hs(ws_run(r, 0, 3) + (r.irange(0, 4) ? word(r, "", true) : "") + ws_run(r, 0, 3))}); }
  // val<bool>: the documented spellings in random case, numbers, near misses
  { static const char* F[] = {"false", "f", "nil", "no", "n", "off", "", "0"}; static const char* T[] = {"true", "t", "yes", "y", "on", "1"};
    static const char* X[] = {"tru", "yess", "o", "of", "onn", "fals", "ni", "2x", "x", "nope", "truefalse", "t f", "-", "nan", "of f"};
    auto rc = [&](std::string s) { for (auto& c : s) if (r.coin()) c = char(std::toupper((unsigned char)c)); return ws_run(r, 0, 1) + s + ws_run(r, 0, 1); };
    for (int i = 0; i < 40 * N; ++i) { stratum("utility/val-bool"); run("valbool", {hs(rc(F[r.irange(0, 7)])), "0"}); run("valbool", {hs(rc(T[r.irange(0, 5)])), "1"}); run("valbool", {hs(rc(X[r.irange(0, 14)])), "9"}); }
    for (const char* s : {"2", "-1", "01", "10", "+1", "1.0", "0x1"}) { stratum("utility/val-bool"); run("valbool", {hs(s)}); } }
  for (int i = 0; i < 300 * N; ++i) {
    char buf[40]; long long v = r.irange(0, 3) == 0 ? (long long)(r.next() % 4400000000ULL) - 2200000000LL : r.irange(-100000, 100000);
    std::snprintf(buf, sizeof buf, r.irange(0, 5) ? "%lld" : "%+lld", v); std::string s = ws_run(r, 0, 1) + buf + ws_run(r, 0, 1);
    if (r.irange(0, 5) == 0) s = mutate(r, s);
    stratum("utility/val-int"); run("valint", {hs(s)});
  }
  for (const char* s : {"2147483647", "2147483648", "-2147483648", "-2147483649", "0", "-0", "+0", "00012", "12 3", "1e3", "0x10", "", "+", "-"}) { stratum("utility/val-int"); run("valint", {hs(s)}); }
  for (int i = 0; i < 40 * N; ++i) { stratum("utility/readarray-writearray"); static const int ns[] = {0, 1, 2, 7, 1023, 1024, 1025, 2048, 2500}; run("rwarray", {std::to_string(r.irange(0, 7)), std::to_string(ns[r.irange(0, 8)]), std::to_string(r.next() % 1000000)}); }
  // GeoCoords
  for (int i = 0; i < 700 * N; ++i) {
    double lat, lon; int k = r.irange(0, 6);
    if (k == 0) { lat = r.range(-90, 90); lon = r.range(-180, 180); }
    else if (k == 1) { static const double z[] = {0, -0.0, 1e-9, -1e-9, 1e-7, -1e-7, 84, -80, 83.99999999, -79.99999999, 90, -90, 72, 56, 64}; lat = z[r.irange(0, 14)]; lon = r.irange(-30, 30) * 6 + (r.coin() ? 0 : r.range(-1e-7, 1e-7)); }
    else if (k == 2) { lat = r.range(-80, 84); lon = r.irange(-30, 30) * 6 + r.range(-3, 3); }
    else if (k == 3) { lat = r.coin() ? r.range(83, 90) : r.range(-90, -79); lon = r.range(-180, 180); }
    else if (k == 4) { lat = r.range(-1e-4, 1e-4); lon = r.range(-180, 180); }
    else if (k == 5) { lat = r.range(55, 85); lon = r.range(-2, 44); }                       // Norway / Svalbard exceptions
    else { lat = r.range(-90, 90); lon = (r.coin() ? 180 : -180) + 360 * r.irange(-1, 1) + r.range(-1e-9, 1e-9); }
    int zstd = UTMUPS::StandardZone(lat, lon); int zone;
    int zk = r.irange(0, 7);
    if (zk == 0) zone = UTMUPS::STANDARD; else if (zk == 1) zone = UTMUPS::UTM; else if (zk == 2) zone = UTMUPS::MATCH; else if (zk == 3) zone = UTMUPS::UPS;
    else if (zk == 4) zone = r.irange(-5, 62); else zone = zstd > 0 ? (zstd - 1 + r.irange(-2, 2) + 60) % 60 + 1 : r.irange(0, 60);
    int p = r.irange(-7, 12);
    stratum("geocoords/alt-zone"); run("gcalt", {hx(lat), hx(lon), std::to_string(zone), std::to_string(p)});
    stratum("geocoords/explicit-hemisphere"); run("gcnp", {hx(lat), hx(lon), r.coin() ? "1" : "0", std::to_string(p), r.coin() ? "1" : "0", std::to_string(r.coin() ? UTMUPS::MATCH : (zstd > 0 ? (zstd + r.irange(-1, 1) + 59) % 60 + 1 : 0))});
    // strings for the constructor: every representation, both orders, separators
    GeoCoords g; if (!guarded([&] { g.Reset(lat, lon); }).empty()) continue;
    bool lf = r.coin(), cp = r.coin();
    std::string s; int nd = -1; int f = r.irange(0, 8);
    auto sepc = [&]() { static const char* S[] = {" ", "  ", ",", ", ", "\t", " , ", "\n"}; return std::string(S[r.irange(0, 6)]); };
    try {
      if (f == 0) s = g.GeoRepresentation(p, lf);
      else if (f == 1) s = g.DMSRepresentation(p, lf, r.coin() ? ':' : char(0));
      else if (f == 2) { std::string a1 = DMS::Encode(lat, DMS::component(r.irange(0, 2)), unsigned(r.irange(0, 6)), DMS::LATITUDE, r.coin() ? ':' : char(0)), b1 = DMS::Encode(Math::AngNormalize(lon), DMS::component(r.irange(0, 2)), unsigned(r.irange(0, 6)), DMS::LONGITUDE, r.coin() ? ':' : char(0));
                         s = r.coin() ? a1 + sepc() + b1 : b1 + sepc() + a1; }
      else if (f == 3) { s = g.UTMUPSRepresentation(p, r.coin()); std::istringstream is(s); std::string z, x, y; is >> z >> x >> y; s = r.coin() ? z + sepc() + x + sepc() + y : x + sepc() + y + sepc() + z; }
      else if (f == 4) { int pp = r.irange(-6, 6); s = g.MGRSRepresentation(pp); nd = std::max(-1, std::min(6, pp) + 5); }
      else if (f == 5) { Piece a1 = gen_piece(r, true, r.irange(0, 2)), b1 = gen_piece(r, true, r.irange(0, 2)); s = a1.text + sepc() + b1.text; }
      else if (f == 6) { s = ws_run(r, 0, 2) + g.UTMUPSRepresentation(!g.Northp(), r.irange(-2, 3), r.coin()) + ws_run(r, 0, 2); }
      else if (f == 7) { static const char* B[] = {"", " ", ",", "1", "1 2 3", "1 2 3 4", "31n", "31n 500000", "n 2000000 2000000", "0n 2000000 2000000", "61n 500000 0", "31 500000 0", "500000 0 31", "31n 5e5 0", "31n nan 0", "31n inf 0", "nan nan", "inf 0", "90 inf", "38SMB", "38smb4488", "38SMB448", "A", "Z", "38", "INVALID", "invalid"}; s = B[r.irange(0, 26)]; }
      else s = mutate(r, g.UTMUPSRepresentation(r.irange(-2, 3), r.coin()));
    } catch (const std::exception&) { continue; }
    if (s == "INVALID") nd = -1;
    stratum("geocoords/string-constructor");
    if (nd >= 0) run("gcparse", {hs(s), cp ? "1" : "0", lf ? "1" : "0", std::to_string(nd)}); else run("gcparse", {hs(s), cp ? "1" : "0", lf ? "1" : "0"});
  }
  for (int i = 0; i < 600 * N; ++i) {
    double d = r.irange(0, 3) ? double(r.irange(-360, 360)) : nasty_angle(r), m = r.irange(0, 3) ? double(r.irange(0, 59)) : r.range(-100, 100), s = r.irange(0, 3) ? r.range(0, 60) : nasty_angle(r);
    stratum("dms/numeric-helpers"); run("dmsnum", {hx(d), hx(m), hx(s), hx(r.coin() ? nasty_angle(r) : r.range(-400, 400))});
  }
}
